(* C19: models of the raw-input glue of OpenFGA in which Go's PARTIALITY is explicit.
   Definitions only; the proofs are in Sec/NoPanicProofs.v, the statements in Props/C19.v.

   Coq functions are total, so "does not crash" means something only where the model says what
   Go would do outside the domain of an operation.  Here every slice expression, index
   expression and bounded recursion of the modelled code returns a value of type [go A]:
     Ok a       the Go expression yields a
     Panic      the Go runtime panics (slice bounds out of range / index out of range)
     OutOfFuel  the model's own recursion budget ran out (excluded by theorems)

   Modelled code (as it exists in /repo, defects included):
   1. Go slice and index expressions s[lo:], s[:hi], s[lo:hi], s[i], s[i] = x        (spec of the
      language: 0 <= lo <= hi <= len; spare capacity is never relied on by the modelled sites);
      pkg/storage/memory/memory.go  read (ReadPage)          from < 0 rejected, matches[min(from,len):], matches[:to]
                                    ReadAuthorizationModels   models[from:to]   (clamped)
                                    ListStores                stores[from:to]   (clamped)
                                    ReadChanges               allChanges[:to]
      pkg/server/commands/read.go   token -> storage.NewPaginationOptions -> ReadPage
      (the token grammar, strconv.Atoi and the default page size are those of Store/Paging.v, the
      C14 model, which is tied to the code by its own differential run).
   2. pkg/storage/cache/keys/xtypes.go  PbValue.WriteTo: the explicit-stack walk over arbitrarily
      nested structpb values, instrumented with the visit order (node paths) and the maximal
      stack height.  Values, frames and the emitted bytes are those of Codec/KeyEnc.v (C24).
   3. recursion guarded by a depth counter that is checked at entry (internal/graph/check.go
      ResolveCheck: `if depth == maxResolutionDepth { return ErrResolutionDepthExceeded }`,
      every dispatch passes depth+1), as a generic scheme; and structural recursion over a nested
      message (pkg/typesystem validation of rewrites has NO depth counter: its nesting is bounded
      by the wire size of the message only).
   4. pkg/tuple/tuple.go SplitObject, SplitObjectRelation, FromUserParts with their index
      arithmetic (strings.IndexByte / LastIndexByte, object[0:ndx], object[ndx+1:], buf[w] = ':').
*)
From OFGA Require Import Base.Bytes.
From OFGA Require Store.Paging Codec.KeyEnc Codec.TupleStr.
From Coq Require Import ZArith.
Open Scope N_scope.

(* ------------------------------------------------------------------------------------------ *)
(* outcomes of a Go expression / call *)

Inductive go (A : Type) : Type :=
| Ok (a : A)
| Panic
| OutOfFuel.
Arguments Ok {A} a.
Arguments Panic {A}.
Arguments OutOfFuel {A}.

Definition bind {A B} (x : go A) (k : A -> go B) : go B :=
  match x with Ok a => k a | Panic => Panic | OutOfFuel => OutOfFuel end.

Definition is_panic {A} (x : go A) : bool := match x with Panic => true | _ => false end.

Definition zlen {A} (s : list A) : Z := Z.of_nat (length s).

(* ------------------------------------------------------------------------------------------ *)
(* 1a. slice and index expressions of the Go language (len = cap) *)

(* s[lo:] *)
Definition slice_from {A} (s : list A) (lo : Z) : go (list A) :=
  if ((0 <=? lo) && (lo <=? zlen s))%Z then Ok (skipn (Z.to_nat lo) s) else Panic.

(* s[:hi] *)
Definition slice_to {A} (s : list A) (hi : Z) : go (list A) :=
  if ((0 <=? hi) && (hi <=? zlen s))%Z then Ok (firstn (Z.to_nat hi) s) else Panic.

(* s[lo:hi] *)
Definition slice_from_to {A} (s : list A) (lo hi : Z) : go (list A) :=
  if ((0 <=? lo) && (lo <=? hi) && (hi <=? zlen s))%Z
  then Ok (firstn (Z.to_nat (hi - lo)) (skipn (Z.to_nat lo) s)) else Panic.

(* s[i] *)
Definition index_at {A} (s : list A) (i : Z) : go A :=
  if (0 <=? i)%Z then match nth_error s (Z.to_nat i) with Some x => Ok x | None => Panic end
  else Panic.

Fixpoint set_nth {A} (s : list A) (i : nat) (x : A) : list A :=
  match s, i with
  | [], _ => []
  | _ :: r, O => x :: r
  | y :: r, S j => y :: set_nth r j x
  end.

(* s[i] = x *)
Definition set_at {A} (s : list A) (i : Z) (x : A) : go (list A) :=
  if ((0 <=? i) && (i <? zlen s))%Z then Ok (set_nth s (Z.to_nat i) x) else Panic.

(* copy(dst, src): never panics; returns the new dst and the number of elements copied *)
Definition copy_into {A} (dst src : list A) : list A * Z :=
  let n := Nat.min (length dst) (length src) in
  (firstn n src ++ skipn n dst, Z.of_nat n).

(* ------------------------------------------------------------------------------------------ *)
(* 1b. the paging slices of the memory backend, as coded *)

(* memory.go read(), after the repair of finding F5 (commit 3cab6a7):
     if from < 0 { return nil, storage.ErrInvalidContinuationToken }
     from = min(from, len(matches)); matches = matches[from:]
     to := options.Pagination.PageSize      (0 = everything)
     if to != 0 && to < len(matches) { return matches[:to], strconv.Itoa(from + to) }
     return matches, ""
   [from], [to] are Go ints (the token offset after strconv.Atoi, the page size).
   Result: None = ErrInvalidContinuationToken; otherwise the page and the next offset (None = no
   continuation token).  A negative page size is still not guarded at this level. *)
Definition page_slice {A} (matches : list A) (from to : Z) : go (option (list A * option Z)) :=
  if (from <? 0)%Z then Ok None
  else
    let from' := Z.min from (zlen matches) in
    bind (slice_from matches from') (fun m =>
    if (negb (to =? 0) && (to <? zlen m))%Z
    then bind (slice_to m to) (fun p => Ok (Some (p, Some (Paging.wrap64 (from' + to)))))
    else Ok (Some (m, None))).

(* memory.go ReadAuthorizationModels / ListStores:
     pageSize := DefaultPageSize; if options.PageSize > 0 { pageSize = options.PageSize }
     from = max(0, min(from, len(rows))); to := min(len(rows), from+pageSize); res := rows[from:to] *)
Definition page_clamped {A} (rows : list A) (from ps : Z) : go (list A * option Z) :=
  let len := zlen rows in
  let page_size := if (0 <? ps)%Z then ps else 50%Z in
  let from' := Z.max 0 (Z.min from len) in
  let to := Z.min len (from' + page_size) in
  bind (slice_from_to rows from' to) (fun r => Ok (r, if (to =? len)%Z then None else Some to)).

(* memory.go ReadChanges: to := pageSize; if len(all) < to { to = len(all) }; all[:to] *)
Definition changes_slice {A} (all : list A) (ps : Z) : go (list A) :=
  let page_size := if (0 <? ps)%Z then ps else 50%Z in
  let to := if (zlen all <? page_size)%Z then zlen all else page_size in
  slice_to all to.

(* storage level: ReadPage(store, filter, {PageSize, From}).  None = strconv.Atoi error or
   ErrInvalidContinuationToken *)
Definition read_page_mem {A} (matches : list A) (page_size : Z) (from : bytes)
  : go (option (list A * option Z)) :=
  match Paging.parse_from from with
  | None => Ok None
  | Some z => page_slice matches z page_size
  end.

(* command level (ReadQuery.Execute): [tok] is the continuation token after base64 decoding,
   [req_ps] the page_size of the request (0 when absent); storage.NewPaginationOptions replaces
   a page size <= 0 by the default.  None = the request is answered with an error. *)
Definition read_request_mem {A} (matches : list A) (req_ps : Z) (tok : bytes)
  : go (option (list A * option Z)) :=
  let ps := Z.of_N (Paging.page_size_opt req_ps) in
  let from := match tok with
              | [] => Some []
              | _ => match Paging.deserialize tok with Some (u, _) => Some u | None => None end
              end in
  match from with
  | None => Ok None
  | Some f => read_page_mem matches ps f
  end.

(* the tokens finding F5b was about: the offset part parses to a negative integer (they are
   rejected now) *)
Definition negative_offset_token (tok : bytes) : bool :=
  match tok with
  | [] => false
  | _ => match Paging.deserialize tok with
         | Some (u, _) => match Paging.parse_from u with Some z => (z <? 0)%Z | None => false end
         | None => false
         end
  end.

(* ------------------------------------------------------------------------------------------ *)
(* 2. PbValue.WriteTo, instrumented.
   A frame of the Go stack is (key, hasKey, value) = KeyEnc.frame; the instrumentation adds the
   path of the node (child indices from the root, children of a struct in sorted-key order).
   [walk_i] returns the emitted bytes, the paths in the order the nodes were popped, and the
   largest value of len(stack) observed after a push. *)

Definition path := list nat.

Definition pb_children (v : KeyEnc.pbval) : list KeyEnc.frame :=
  match v with
  | KeyEnc.PList l => map (fun x => (None, x)) l
  | KeyEnc.PStruct fs => map (fun kv => (Some (fst kv), snd kv)) (KeyEnc.sort_fields fs)
  | _ => []
  end.

Fixpoint number {B} (p : path) (i : nat) (l : list B) : list (path * B) :=
  match l with
  | [] => []
  | x :: r => (p ++ [i], x) :: number p (S i) r
  end.

(* what a popped frame emits before its children: key (if any) and the value header *)
Definition frame_header (f : KeyEnc.frame) : bytes :=
  match fst f with Some s => KeyEnc.enc_string s | None => [] end ++
  match snd f with
  | KeyEnc.PNull => KeyEnc.enc_null
  | KeyEnc.PNum b => KeyEnc.enc_u64 b
  | KeyEnc.PStr s => KeyEnc.enc_string s
  | KeyEnc.PBool b => KeyEnc.enc_bool b
  | KeyEnc.PUnset => KeyEnc.enc_unset
  | KeyEnc.PList l => KeyEnc.enc_array_hdr (length l)
  | KeyEnc.PStruct fs => KeyEnc.enc_map_hdr (length (KeyEnc.sort_fields fs))
  end.

Record wres := mk_wres { wr_bytes : bytes; wr_visits : list path; wr_maxh : nat }.

Fixpoint walk_i (fuel : nat) (stack : list (path * KeyEnc.frame)) (acc : bytes)
         (vis : list path) (maxh : nat) : option wres :=
  match stack with
  | [] => Some (mk_wres acc vis maxh)
  | (p, f) :: st =>
      match fuel with
      | O => None
      | S fu =>
          let st' := number p 0 (pb_children (snd f)) ++ st in
          walk_i fu st' (acc ++ frame_header f) (vis ++ [p]) (Nat.max maxh (length st'))
      end
  end.

(* WriteTo on a non-nil value: one frame pushed, then the loop *)
Definition pb_write_i (v : KeyEnc.pbval) : go wres :=
  match walk_i (KeyEnc.pb_size v) [([], (None, v))] [] [] 1 with
  | Some r => Ok r
  | None => OutOfFuel
  end.

(* the shape of a value: a rose tree whose children are in the order the walk pops them (list
   order; struct fields in sorted-key order) *)
Inductive rose := Rose (children : list rose).

Fixpoint shape (v : KeyEnc.pbval) : rose :=
  match v with
  | KeyEnc.PList l => Rose (map shape l)
  | KeyEnc.PStruct fs =>
      Rose (map snd (KeyEnc.go_isort KeyEnc.kless (map (fun kv => (fst kv, shape (snd kv))) fs)))
  | _ => Rose []
  end.

Fixpoint rsize (t : rose) : nat :=
  match t with Rose cs => S (list_sum (map rsize cs)) end.

Fixpoint rdepth (t : rose) : nat :=
  match t with Rose cs => S (fold_right (fun c d => Nat.max (rdepth c) d) 0%nat cs) end.

(* the nodes of a tree as paths (child indices from the root), in pre-order *)
Fixpoint rpaths (t : rose) : list path :=
  match t with
  | Rose cs =>
      [] :: (fix go_l (i : nat) (cs : list rose) : list path :=
               match cs with
               | [] => []
               | c :: r => map (cons i) (rpaths c) ++ go_l (S i) r
               end) 0%nat cs
  end.

(* ------------------------------------------------------------------------------------------ *)
(* 3. recursion guarded by a depth counter checked at entry *)

Section DepthGuard.
  Context {A R : Type}.
  Variable limit : nat.
  Variable too_deep : R.
  (* one activation: it may call [self] (the nested call, made with depth+1) any number of
     times, on any arguments, and combine the answers in any way *)
  Variable body : (A -> go R) -> A -> go R.

  Fixpoint guarded (fuel : nat) (depth : nat) (a : A) : go R :=
    match fuel with
    | O => OutOfFuel
    | S f =>
        if Nat.leb limit depth then Ok too_deep
        else body (fun a' => guarded f (S depth) a') a
    end.
End DepthGuard.

(* nested messages (a rewrite tree as it arrives on the wire): every level of nesting costs at
   least a tag byte and a length byte (protobuf length-delimited field) *)
Fixpoint wire_min (t : rose) : nat :=
  match t with Rose cs => fold_right (fun c s => (2 + wire_min c + s)%nat) 0%nat cs end.

(* a structural recursion over the message (pkg/typesystem validation of a rewrite has no depth
   counter): the result is the largest number of simultaneously active calls *)
Fixpoint struct_walk (fuel : nat) (t : rose) : go nat :=
  match fuel with
  | O => OutOfFuel
  | S f =>
      match t with
      | Rose cs =>
          bind (fold_right (fun c acc =>
                              bind (struct_walk f c) (fun d =>
                              bind acc (fun e => Ok (Nat.max d e))))
                           (Ok 0%nat) cs)
               (fun d => Ok (S d))
      end
  end.

(* ------------------------------------------------------------------------------------------ *)
(* 4. pkg/tuple string splitting with its index arithmetic *)

(* strings.IndexByte: index of the first c, -1 if absent *)
Fixpoint index_byte (c : N) (s : bytes) : Z :=
  match s with
  | [] => (-1)%Z
  | x :: r => if x =? c then 0%Z
              else let i := index_byte c r in if (i <? 0)%Z then (-1)%Z else (i + 1)%Z
  end.

(* strings.LastIndexByte *)
Fixpoint last_index_byte (c : N) (s : bytes) : Z :=
  match s with
  | [] => (-1)%Z
  | x :: r => let i := last_index_byte c r in
              if (0 <=? i)%Z then (i + 1)%Z else if x =? c then 0%Z else (-1)%Z
  end.

(* SplitObject *)
Definition split_object_go (object : bytes) : go (bytes * bytes) :=
  let ndx := index_byte c_colon object in
  if (ndx =? -1)%Z then Ok ([], object)
  else bind (slice_from_to object 0 ndx) (fun t =>
       bind (slice_from object (ndx + 1)) (fun id => Ok (t, id))).

(* SplitObjectRelation *)
Definition split_object_relation_go (s : bytes) : go (bytes * bytes) :=
  let i := last_index_byte c_hash s in
  if (i =? -1)%Z then Ok (s, [])
  else if (i =? zlen s - 1)%Z then bind (slice_from_to s 0 i) (fun o => Ok (o, []))
  else bind (slice_from_to s 0 i) (fun o => bind (slice_from s (i + 1)) (fun r => Ok (o, r))).

(* ToUserParts *)
Definition to_user_parts_go (u : bytes) : go (bytes * bytes * bytes) :=
  bind (split_object_relation_go u) (fun '(o, r) =>
  bind (split_object_go o) (fun '(t, id) => Ok (t, id, r))).

(* FromUserParts:
     size := len(t)+len(id)+len(r)+2; buf := make([]byte, size); w := copy(buf, t)
     if w > 0 && size > w { buf[w] = ':'; w++ }
     w += copy(buf[w:], id)
     if len(r) > 0 { buf[w] = '#'; w++; w += copy(buf[w:], r) }
     return buf[:w] *)
Definition copy_at (buf : bytes) (w : Z) (src : bytes) : go (bytes * Z) :=
  bind (slice_from buf w) (fun tail =>
    let '(tail', n) := copy_into tail src in
    Ok (firstn (Z.to_nat w) buf ++ tail', (w + n)%Z)).

Definition from_user_parts_go (t id r : bytes) : go bytes :=
  let size := (zlen t + zlen id + zlen r + 2)%Z in
  let buf0 := repeat 0 (Z.to_nat size) in
  let '(buf1, w1) := copy_into buf0 t in
  bind (if ((0 <? w1) && (w1 <? size))%Z
        then bind (set_at buf1 w1 c_colon) (fun b => Ok (b, (w1 + 1)%Z))
        else Ok (buf1, w1)) (fun '(buf2, w2) =>
  bind (copy_at buf2 w2 id) (fun '(buf3, w3) =>
  bind (if (0 <? zlen r)%Z
        then bind (set_at buf3 w3 c_hash) (fun b => copy_at b (w3 + 1)%Z r)
        else Ok (buf3, w3)) (fun '(buf4, w4) =>
  slice_to buf4 w4))).

(* ------------------------------------------------------------------------------------------ *)
(* 5. pkg/typesystem hasCycle as coded (called by validateRelation for every relation of every
   type when a model is written, and again whenever a model is loaded): a depth-first walk over
   the computed usersets of ONE object type in which [visited] is the set of relations on the
   current path (the map is cloned at every call), so shared sub-structure is walked once per
   PATH.  The model counts the calls: [budget] is decremented at every call; HBudget = more
   calls than the budget.  Relations of a type are numbered (binary numbers: the extracted model
   compares them on every call); an undefined relation is any number >= length tab. *)

Inductive rw :=
| RThis                          (* direct assignment *)
| RTTU                           (* tuple-to-userset: not followed by hasCycle *)
| RComputed (r : N)              (* computed userset on relation r of the same type *)
| RNode (children : list rw).    (* union / intersection / difference (base, subtract) / empty *)

Definition reltab := list rw.

Inductive hres := HNo | HCycle | HErr | HBudget.

Fixpoint has_cycle (fuel : nat) (tab : reltab) (rel : N) (rewrite : rw) (visited : list N)
         (budget : N) : hres * N :=
  match fuel with
  | O => (HBudget, 0)
  | S f =>
      if budget =? 0 then (HBudget, 0)
      else
        let b := budget - 1 in
        let visited' := rel :: visited in
        match rewrite with
        | RThis | RTTU => (HNo, b)
        | RComputed r' =>
            if existsb (N.eqb r') visited' then (HCycle, b)
            else match nth_error tab (N.to_nat r') with
                 | None => (HErr, b)
                 | Some rw' => has_cycle f tab r' rw' visited' b
                 end
        | RNode cs =>
            (fix go_c (cs : list rw) (b : N) : hres * N :=
               match cs with
               | [] => (HNo, b)
               | c :: cs' =>
                   match has_cycle f tab rel c visited' b with
                   | (HNo, b') => go_c cs' b'
                   | other => other
                   end
               end) cs b
        end
  end.

(* HasCycle for every relation of a type, in order, stopping at the first cycle / error *)
Fixpoint type_cost (fuel : nat) (tab : reltab) (rels : list (N * rw)) (budget : N) : hres * N :=
  match rels with
  | [] => (HNo, budget)
  | (i, r) :: rest =>
      match has_cycle fuel tab i r [] budget with
      | (HNo, b) => type_cost fuel tab rest b
      | other => other
      end
  end.

Fixpoint index_from {B} (i : N) (l : list B) : list (N * B) :=
  match l with [] => [] | x :: r => (i, x) :: index_from (N.succ i) r end.

Fixpoint model_cost (fuel : nat) (types : list reltab) (budget : N) : hres * N :=
  match types with
  | [] => (HNo, budget)
  | tab :: rest =>
      match type_cost fuel tab (index_from 0 tab) budget with
      | (HNo, b) => model_cost fuel rest b
      | other => other
      end
  end.

(* define e_i: e_{i+1} or e_{i+1}   (i < n)      define e_n: [user]        -- a VALID model *)
Definition diamond (n : nat) : reltab :=
  map (fun i => RNode [RComputed (N.of_nat (S i)); RComputed (N.of_nat (S i))]) (seq 0 n) ++ [RThis].

(* number of hasCycle calls for relation e_{n-k} of [diamond n] *)
Fixpoint diamond_calls (k : nat) : N :=
  match k with O => 1 | S k' => 3 + 2 * diamond_calls k' end.

Fixpoint rw_nodes (r : rw) : nat :=
  match r with RNode cs => S (list_sum (map rw_nodes cs)) | _ => 1%nat end.

(* ------------------------------------------------------------------------------------------ *)
(* 6. what happens to a panic raised below the handlers (a datastore call, an iterator).
   A Go panic carries an arbitrary value; `recover()` returns it as `any`.
     internal/concurrency/panic.go RecoverFromPanic:  *err = fmt.Errorf("recovered from panic %v ...", r)
   formats the value with %v, which is defined for every value.  The variant
     fmt.Errorf("... %w ...", r.(error))
   asserts that the value is an error: the assertion itself panics, inside the deferred function,
   for every other value.  Where the panic is raised decides who sees it first. *)

Inductive pvalue :=
| PVError      (* panic(err) *)
| PVString     (* panic("...") / panic(fmt.Sprintf(...)) *)
| PVStruct     (* any other non-error value *)
| PVRuntime.   (* runtime.Error: nil map write, index out of range, nil dereference (an error) *)

Definition implements_error (v : pvalue) : bool :=
  match v with PVError | PVRuntime => true | _ => false end.

(* RecoverFromPanic as coded: total *)
Definition recover_to_error (v : pvalue) : go pvalue := Ok v.

(* the r.(error) variant *)
Definition recover_to_error_assert (v : pvalue) : go pvalue :=
  if implements_error v then Ok v else Panic.

(* the innermost recovery site above the panicking frame, read off the goroutine's stack *)
Inductive psite :=
| SHandler     (* the request goroutine: the gRPC recovery interceptor *)
| STry         (* a conc/panics.Try of the resolvers: the panic becomes an error *)
| SPipeline    (* a ListObjects pipeline worker: defer concurrency.RecoverFromPanic(&err) *)
| SEvaluate    (* ListObjectsQuery.evaluate's `go handler()` or a reverse-expand pool goroutine:
                  the conc pools re-panic in Wait, and nothing above `go handler()` recovers *)
| SOther.      (* any other goroutine without a recovery of its own *)

Inductive fate := FError | FInterceptor | FDies.

Definition fate_with (rec : pvalue -> go pvalue) (s : psite) (v : pvalue) : fate :=
  match s with
  | SHandler => FInterceptor
  | STry => FError
  | SPipeline => match rec v with Ok _ => FError | _ => FDies end
  | SEvaluate | SOther => FDies
  end.

Definition fate_of : psite -> pvalue -> fate := fate_with recover_to_error.
Definition fate_of_assert_variant : psite -> pvalue -> fate := fate_with recover_to_error_assert.
