(* C27 — proofs about Sec/Authn.v *)
From OFGA Require Import Base.Bytes Sec.Authn.
From Coq Require Import ZArith.

(* ------------------------------------------------------------------------------------ *)
(* small facts                                                                          *)

Lemma beqb_sym a b : beqb a b = beqb b a.
Proof.
  destruct (beqb a b) eqn:E1; destruct (beqb b a) eqn:E2; try reflexivity.
  - apply beqb_eq in E1. subst. rewrite beqb_refl in E2. discriminate.
  - apply beqb_eq in E2. subst. rewrite beqb_refl in E1. discriminate.
Qed.

Lemma beqb_neq a b : beqb a b = false <-> a <> b.
Proof.
  split.
  - intros E Heq. subst. rewrite beqb_refl in E. discriminate.
  - intro Hn. destruct (beqb a b) eqn:E; [|reflexivity]. apply beqb_eq in E. contradiction.
Qed.

Lemma bmem_In s l : bmem s l = true <-> In s l.
Proof.
  unfold bmem. rewrite existsb_exists. split.
  - intros [x [Hin Hx]]. apply beqb_eq in Hx. subst. exact Hin.
  - intro Hin. exists s. split; [exact Hin | apply beqb_refl].
Qed.

Lemma bmem_false s l : bmem s l = false <-> ~ In s l.
Proof.
  rewrite <- bmem_In. destruct (bmem s l); split; intro Hx.
  - discriminate.
  - exfalso. apply Hx. reflexivity.
  - intro Hy. discriminate.
  - reflexivity.
Qed.

Lemma existsb_orb {A} (f g : A -> bool) l :
  existsb (fun x => f x || g x) l = existsb f l || existsb g l.
Proof.
  induction l as [|x l IH]; simpl; [reflexivity|]. rewrite IH.
  destruct (f x), (g x), (existsb f l), (existsb g l); reflexivity.
Qed.

Lemma existsb_andb_const {A} (b : bool) (f : A -> bool) l :
  existsb (fun x => b && f x) l = b && existsb f l.
Proof.
  induction l as [|x l IH]; simpl; [destruct b; reflexivity|]. rewrite IH.
  destruct b; reflexivity.
Qed.

Lemma existsb_false {A} (l : list A) : existsb (fun _ => false) l = false.
Proof. induction l as [|x l IH]; simpl; [reflexivity | exact IH]. Qed.

Lemma existsb_ext' {A} (f g : A -> bool) l :
  (forall x, f x = g x) -> existsb f l = existsb g l.
Proof.
  intro Hfg. induction l as [|x l IH]; simpl; [reflexivity|]. rewrite Hfg, IH. reflexivity.
Qed.

(* ------------------------------------------------------------------------------------ *)
(* header parsing                                                                       *)

Theorem auth_from_md_token_iff vals t :
  auth_from_md vals = MdToken t <->
  exists scheme rest,
    vals = (scheme ++ c_space :: t) :: rest /\
    mem c_space scheme = false /\
    eq_fold_ascii scheme s_bearer = true.
Proof.
  unfold auth_from_md. split.
  - destruct vals as [|v rest]; [discriminate|].
    destruct (cut c_space v) as [[scheme tok]|] eqn:Ec; [|discriminate].
    destruct (eq_fold_ascii scheme s_bearer) eqn:Ef; [|discriminate].
    intro Ht. inversion Ht; subst tok.
    apply cut_some in Ec as [Hv Hm].
    exists scheme, rest. subst v. auto.
  - intros [scheme [rest [Hv [Hm Hf]]]]. subst vals.
    rewrite (cut_app c_space scheme t Hm). rewrite Hf. reflexivity.
Qed.

Lemma ascii_lower_idem b : ascii_lower (ascii_lower b) = ascii_lower b.
Proof.
  unfold ascii_lower.
  destruct ((65 <=? b) && (b <=? 90)) eqn:E; [|rewrite E; reflexivity].
  apply andb_true_iff in E as [E1 E2]. apply N.leb_le in E1. apply N.leb_le in E2.
  destruct ((65 <=? b + 32) && (b + 32 <=? 90)) eqn:E3; [|reflexivity].
  apply andb_true_iff in E3 as [_ E4]. apply N.leb_le in E4. lia.
Qed.

(* the scheme comparison accepts every case variant of "bearer" and nothing of another length *)
Lemma eq_fold_ascii_length a b : eq_fold_ascii a b = true -> length a = length b.
Proof.
  unfold eq_fold_ascii. intro E. apply beqb_eq in E.
  rewrite <- (map_length ascii_lower a), <- (map_length ascii_lower b), E. reflexivity.
Qed.

(* ------------------------------------------------------------------------------------ *)
(* constant-time comparison                                                             *)

Lemma ct_acc_zero x : forall y v,
  length x = length y -> (ct_acc x y v = 0 <-> v = 0 /\ x = y).
Proof.
  induction x as [|a x IH]; intros [|b y] v Hlen; simpl in *; try discriminate.
  - split; [intro Hv; auto | intros [Hv _]; exact Hv].
  - injection Hlen as Hlen. rewrite (IH y _ Hlen). rewrite N.lor_eq_0_iff. split.
    + intros [[Hv Hx] Hxy]. apply N.lxor_eq in Hx. subst. auto.
    + intros [Hv Hxy]. inversion Hxy; subst. rewrite N.lxor_nilpotent. auto.
Qed.

Lemma ct_compare_beqb x y : ct_compare x y = if beqb x y then 1 else 0.
Proof.
  unfold ct_compare. destruct (Nat.eqb (length x) (length y)) eqn:El.
  - apply Nat.eqb_eq in El. destruct (N.eqb (ct_acc x y 0) 0) eqn:Ea.
    + apply N.eqb_eq in Ea. apply (ct_acc_zero x y 0 El) in Ea as [_ Hxy]. subst.
      rewrite beqb_refl. reflexivity.
    + destruct (beqb x y) eqn:Eb; [|reflexivity]. apply beqb_eq in Eb. subst.
      apply N.eqb_neq in Ea. exfalso. apply Ea. apply (ct_acc_zero y y 0 El). auto.
  - destruct (beqb x y) eqn:Eb; [|reflexivity]. apply beqb_eq in Eb. subst.
    rewrite Nat.eqb_refl in El. discriminate.
Qed.

Theorem ct_compare_one_iff x y : ct_compare x y = 1 <-> x = y.
Proof.
  rewrite ct_compare_beqb. destruct (beqb x y) eqn:E.
  - apply beqb_eq in E. tauto.
  - apply beqb_neq in E. split; [discriminate | contradiction].
Qed.

Definition b2n (b : bool) : N := if b then 1 else 0.

Lemma lor_b2n a b : N.lor (b2n a) (b2n b) = b2n (a || b).
Proof. destruct a, b; reflexivity. Qed.

Lemma psk_fold th hs : forall m,
  fold_left (fun m kh => N.lor m (ct_compare th kh)) hs m
  = N.lor m (b2n (existsb (fun kh => beqb th kh) hs)).
Proof.
  induction hs as [|k hs IH]; intro m; simpl.
  - rewrite N.lor_0_r. reflexivity.
  - rewrite IH. rewrite ct_compare_beqb. rewrite <- N.lor_assoc.
    change (if beqb th k then 1 else 0) with (b2n (beqb th k)).
    rewrite lor_b2n. reflexivity.
Qed.

Lemma psk_matched_spec hs th :
  psk_matched hs th = b2n (existsb (fun kh => beqb th kh) hs).
Proof. unfold psk_matched. rewrite psk_fold. apply N.lor_0_l. Qed.

(* ------------------------------------------------------------------------------------ *)
(* pre-shared keys                                                                      *)

Definition inj_on (H : bytes -> bytes) (l : list bytes) : Prop :=
  forall a b, In a l -> In b l -> H a = H b -> a = b.

Section PresharedProofs.
  Variable H : bytes -> bytes.

  (* no hypothesis on H: acceptance is digest equality with some configured key *)
  Theorem psk_accept_digest keys hs vals :
    psk_new H keys = Some hs ->
    (psk_authenticate H hs vals = PskAccept <->
     exists t k, auth_from_md vals = MdToken t /\ In k keys /\ H t = H k).
  Proof.
    intro Hnew. assert (Hhs : hs = map H keys).
    { unfold psk_new in Hnew. destruct keys; [discriminate|]. inversion Hnew. reflexivity. }
    subst hs. unfold psk_authenticate.
    destruct (auth_from_md vals) as [| | |t] eqn:Emd;
      try (split; [discriminate | intros [t' [k [Ht _]]]; discriminate]).
    rewrite psk_matched_spec.
    destruct (existsb (fun kh => beqb (H t) kh) (map H keys)) eqn:Ex; simpl.
    - split; [|reflexivity]. intros _.
      apply existsb_exists in Ex as [kh [Hin Heq]]. apply beqb_eq in Heq.
      apply in_map_iff in Hin as [k [Hk Hin]]. exists t, k. subst kh. auto.
    - split; [discriminate|]. intros [t' [k [Ht [Hin Heq]]]]. inversion Ht; subst t'.
      assert (Hex : existsb (fun kh => beqb (H t) kh) (map H keys) = true).
      { apply existsb_exists. exists (H k). split; [apply in_map; exact Hin|].
        rewrite Heq. apply beqb_refl. }
      rewrite Hex in Ex. discriminate.
  Qed.

  (* the property: with H injective on token :: keys, accepted iff the bearer token is a key *)
  Theorem psk_accept_iff keys hs vals :
    psk_new H keys = Some hs ->
    (forall t, auth_from_md vals = MdToken t -> inj_on H (t :: keys)) ->
    (psk_authenticate H hs vals = PskAccept <->
     exists t, auth_from_md vals = MdToken t /\ In t keys).
  Proof.
    intros Hnew Hinj. rewrite (psk_accept_digest keys hs vals Hnew). split.
    - intros [t [k [Ht [Hin Heq]]]]. exists t. split; [exact Ht|].
      assert (Htk : t = k).
      { apply (Hinj t Ht); simpl; auto. }
      subst. exact Hin.
    - intros [t [Ht Hin]]. exists t, t. auto.
  Qed.

  Theorem psk_missing_bearer_iff hs vals :
    psk_authenticate H hs vals = PskMissingBearer <->
    (forall t, auth_from_md vals <> MdToken t).
  Proof.
    unfold psk_authenticate. destruct (auth_from_md vals) as [| | |t]; split; intro Hx;
      try reflexivity; try (intros t' Ht'; discriminate).
    - destruct (N.eqb (psk_matched hs (H t)) 1); discriminate.
    - exfalso. apply (Hx t). reflexivity.
  Qed.

  (* the constructor refuses exactly the empty key list *)
  Theorem psk_new_none_iff keys : psk_new H keys = None <-> keys = [].
  Proof. destruct keys; simpl; split; intro Hx; try reflexivity; discriminate. Qed.
End PresharedProofs.

(* ------------------------------------------------------------------------------------ *)
(* the validator on the three option sets oidc.go builds                                *)

Lemma verify_exp_required now c : verify_exp now c true = exp_ok now c.
Proof.
  unfold verify_exp, exp_ok, parse_numeric_date.
  destruct (cget k_exp c) as [| s | z | l | |]; try reflexivity.
  destruct (Z.eqb z 0); reflexivity.
Qed.

Lemma verify_exp_optional now c : exp_ok now c = true -> verify_exp now c false = true.
Proof.
  unfold verify_exp, exp_ok, parse_numeric_date.
  destruct (cget k_exp c) as [| s | z | l | |]; try discriminate.
  destruct (Z.eqb z 0); simpl; [discriminate | tauto].
Qed.

Lemma verify_nbf_spec now c : verify_nbf now c = time_ok k_nbf now c.
Proof.
  unfold verify_nbf, time_ok, parse_numeric_date.
  destruct (cget k_nbf c) as [| s | z | l | |]; try reflexivity.
  destruct (Z.eqb z 0); reflexivity.
Qed.

Lemma verify_iat_spec now c : verify_iat now c = time_ok k_iat now c.
Proof.
  unfold verify_iat, time_ok, parse_numeric_date.
  destruct (cget k_iat c) as [| s | z | l | |]; try reflexivity.
  destruct (Z.eqb z 0); reflexivity.
Qed.

Lemma existsb_bmem_single a l :
  existsb (fun x => bmem x [a]) l = bmem a l.
Proof.
  unfold bmem. apply existsb_ext'. intro x. simpl. rewrite orb_false_r. apply beqb_sym.
Qed.

Lemma verify_aud_spec cfg c :
  beqb (audience cfg) [] = false -> verify_aud c [audience cfg] = aud_ok cfg c.
Proof.
  intro Hne. unfold verify_aud, aud_ok, parse_claim_strings.
  destruct (cget k_aud c) as [| s | z | l | |]; try reflexivity.
  - (* a single string *)
    destruct (beqb s []) eqn:Es.
    + apply beqb_eq in Es. subst s. rewrite beqb_sym. symmetry. exact Hne.
    + simpl. rewrite orb_false_r, orb_false_r. apply beqb_sym.
  - (* a list of strings *)
    destruct l as [|a l]; [reflexivity|].
    destruct l as [|b l].
    + destruct (beqb a []) eqn:Ea.
      * apply beqb_eq in Ea. subst a. unfold bmem.
        destruct (audience cfg) as [|x au]; [discriminate Hne | reflexivity].
      * apply existsb_bmem_single.
    + apply existsb_bmem_single.
Qed.

Lemma validate_parser cfg now c :
  beqb (audience cfg) [] = false ->
  validate (parser_validator cfg) now c
  = exp_ok now c && time_ok k_nbf now c && time_ok k_iat now c && aud_ok cfg c.
Proof.
  intro Hne. unfold validate, parser_validator. simpl.
  rewrite verify_exp_required, verify_nbf_spec, verify_iat_spec, (verify_aud_spec cfg c Hne).
  rewrite !andb_true_r. reflexivity.
Qed.

Lemma validate_issuer i now c :
  validate (issuer_validator i) now c
  = (verify_exp now c false && verify_nbf now c) && (beqb i [] || verify_str k_iss c i).
Proof.
  unfold validate, issuer_validator. simpl. rewrite !andb_true_r.
  destruct (beqb i []); reflexivity.
Qed.

Lemma validate_subject s now c :
  validate (subject_validator s) now c
  = (verify_exp now c false && verify_nbf now c) && (beqb s [] || verify_str k_sub c s).
Proof.
  unfold validate, subject_validator. simpl. rewrite !andb_true_r.
  destruct (beqb s []); reflexivity.
Qed.

(* since the fix 8b29193 an empty expected value matches nothing (before it, jwt.WithIssuer("")
   / jwt.WithSubject("") switched the comparison off) *)
Lemma existsb_nonempty_verify_str k c l :
  existsb (fun i => negb (beqb i []) && verify_str k c i) l
  = match cget k c with JStr s => negb (beqb s []) && bmem s l | _ => false end.
Proof.
  unfold verify_str, parse_string.
  destruct (cget k c) as [| s | z | l' | |]; simpl;
    try (rewrite (existsb_ext' _ (fun _ => false)); [apply existsb_false | intro x; apply andb_false_r]).
  destruct (beqb s []) eqn:Es; simpl.
  - rewrite (existsb_ext' _ (fun _ => false)); [apply existsb_false | intro x; apply andb_false_r].
  - unfold bmem. apply existsb_ext'. intro x. rewrite (beqb_sym x s).
    destruct (beqb s x) eqn:Ex; [|apply andb_false_r].
    apply beqb_eq in Ex. subst x. rewrite Es. reflexivity.
Qed.

Lemma issuers_spec cfg now c :
  exp_ok now c = true -> time_ok k_nbf now c = true ->
  existsb (fun i => if beqb i [] then false else validate (issuer_validator i) now c)
          (main_issuer cfg :: issuer_aliases cfg)
  = iss_ok cfg c.
Proof.
  intros He Hn. unfold iss_ok. rewrite <- existsb_nonempty_verify_str.
  apply existsb_ext'. intro i. rewrite validate_issuer.
  rewrite (verify_exp_optional now c He), verify_nbf_spec, Hn.
  destruct (beqb i []); reflexivity.
Qed.

Lemma subjects_spec cfg now c :
  exp_ok now c = true -> time_ok k_nbf now c = true ->
  match subjects cfg with
  | [] => false
  | _ => negb (existsb (fun s => if beqb s [] then false else validate (subject_validator s) now c)
                       (subjects cfg))
  end
  = negb (sub_ok cfg c).
Proof.
  intros He Hn. unfold sub_ok.
  destruct (subjects cfg) as [|s0 ss] eqn:Es; [reflexivity|].
  f_equal. rewrite <- existsb_nonempty_verify_str.
  apply existsb_ext'. intro i. rewrite validate_subject.
  rewrite (verify_exp_optional now c He), verify_nbf_spec, Hn.
  destruct (beqb i []); reflexivity.
Qed.

(* without any hypothesis on the configuration: what the audience check implies *)
Lemma verify_aud_sound cfg c :
  verify_aud c [audience cfg] = true -> aud_ok cfg c = true.
Proof.
  unfold verify_aud, aud_ok, parse_claim_strings.
  destruct (cget k_aud c) as [| s | z | l | |]; try discriminate.
  - destruct (beqb s []); [discriminate|]. simpl. rewrite !orb_false_r. rewrite beqb_sym. tauto.
  - destruct l as [|a l]; [discriminate|]. destruct l as [|b l].
    + destruct (beqb a []); [discriminate|]. rewrite existsb_bmem_single. tauto.
    + rewrite existsb_bmem_single. tauto.
Qed.

Lemma validate_parser_gen cfg now c :
  validate (parser_validator cfg) now c
  = exp_ok now c && time_ok k_nbf now c && time_ok k_iat now c && verify_aud c [audience cfg].
Proof.
  unfold validate, parser_validator. simpl.
  rewrite verify_exp_required, verify_nbf_spec, verify_iat_spec.
  rewrite !andb_true_r. reflexivity.
Qed.

(* ------------------------------------------------------------------------------------ *)
(* OIDC: the decision table                                                             *)

Section OidcProofs.
  Variable parse_jwt : bytes -> token.

  Theorem oidc_decision_table cfg now vals :
    cfg_wf cfg = true ->
    accepted (oidc_authenticate parse_jwt cfg now vals)
    = decide (validity_of parse_jwt cfg now vals).
  Proof.
    intro Hwf. unfold oidc_authenticate, validity_of.
    destruct (auth_from_md vals) as [| | |t]; try reflexivity.
    destruct (parse_jwt t) as [|a k c]; [reflexivity|].
    destruct a; [| reflexivity | reflexivity].
    destruct k as [| | |am ver]; try reflexivity.
    destruct am; [|reflexivity]. destruct ver; [|reflexivity].
    assert (Hne : beqb (audience cfg) [] = false).
    { unfold cfg_wf in Hwf. apply andb_true_iff in Hwf as [_ Ha]. apply negb_true_iff. exact Ha. }
    unfold decide, validity_of_token. cbn [negb].
    cbv beta iota delta [vy_bearer vy_wellformed vy_alg vy_key vy_sig vy_exp vy_nbf vy_iat vy_aud
                         vy_iss vy_sub vy_sub_wf].
    rewrite (validate_parser cfg now c Hne).
    destruct (exp_ok now c) eqn:He; [|reflexivity].
    destruct (time_ok k_nbf now c) eqn:Hn; [|reflexivity].
    destruct (time_ok k_iat now c) eqn:Hi; [|reflexivity].
    destruct (aud_ok cfg c) eqn:Ha; [|reflexivity].
    rewrite (issuers_spec cfg now c He Hn).
    rewrite (subjects_spec cfg now c He Hn).
    cbn [andb negb].
    destruct (iss_ok cfg c); [|reflexivity].
    destruct (sub_ok cfg c); [|reflexivity].
    unfold sub_wf. simpl.
    destruct (cget k_sub c); reflexivity.
  Qed.

  (* what an acceptance implies, for EVERY configuration (no hypothesis) *)
  Lemma oidc_accept_facts cfg now vals p :
    oidc_authenticate parse_jwt cfg now vals = OAccept p ->
    exists t c,
      auth_from_md vals = MdToken t /\
      parse_jwt t = TokParsed AlgRS256 (KidFound true true) c /\
      exp_ok now c = true /\ time_ok k_nbf now c = true /\ time_ok k_iat now c = true /\
      aud_ok cfg c = true /\ iss_ok cfg c = true /\ sub_ok cfg c = true /\ sub_wf c = true.
  Proof.
    unfold oidc_authenticate.
    destruct (auth_from_md vals) as [| | |t]; try discriminate.
    destruct (parse_jwt t) as [|a k c] eqn:Ep; [discriminate|].
    destruct a; try discriminate.
    destruct k as [| | |am ver]; try discriminate.
    destruct am; [|discriminate]. destruct ver; [|discriminate]. cbn [negb].
    rewrite validate_parser_gen.
    destruct (exp_ok now c) eqn:He; [|discriminate].
    destruct (time_ok k_nbf now c) eqn:Hn; [|discriminate].
    destruct (time_ok k_iat now c) eqn:Hi; [|discriminate].
    destruct (verify_aud c [audience cfg]) eqn:Ha; [|discriminate].
    rewrite (issuers_spec cfg now c He Hn).
    rewrite (subjects_spec cfg now c He Hn).
    cbn [andb negb].
    destruct (iss_ok cfg c) eqn:His; [|discriminate].
    destruct (sub_ok cfg c) eqn:Hsu; [|discriminate]. cbn [negb].
    intro Hacc. exists t, c.
    split; [reflexivity|]. split; [exact Ep|].
    split; [exact He|]. split; [exact Hn|]. split; [exact Hi|].
    split; [apply (verify_aud_sound cfg c Ha)|].
    split; [exact His|]. split; [exact Hsu|].
    unfold sub_wf. destruct (cget k_sub c); try discriminate; reflexivity.
  Qed.

  (* the principal handed to the request context when the token is accepted *)
  Theorem oidc_accept_principal cfg now vals p :
    oidc_authenticate parse_jwt cfg now vals = OAccept p ->
    exists t a k c,
      auth_from_md vals = MdToken t /\ parse_jwt t = TokParsed a k c /\
      p_subject p = match cget k_sub c with JStr s => s | _ => [] end /\
      p_client_id p = client_id (client_id_claims cfg) c /\
      p_scopes p = scopes_of c.
  Proof.
    unfold oidc_authenticate.
    destruct (auth_from_md vals) as [| | |t]; try discriminate.
    destruct (parse_jwt t) as [|a k c] eqn:Ep; [discriminate|].
    destruct a; try discriminate.
    destruct k as [| | |am ver]; try discriminate.
    destruct (negb am); [discriminate|]. destruct (negb ver); [discriminate|].
    destruct (negb (validate (parser_validator cfg) now c)); [discriminate|].
    destruct (negb (existsb _ _)); [discriminate|].
    match goal with |- (if ?b then _ else _) = _ -> _ => destruct b; [discriminate|] end.
    intro Hacc. exists t, AlgRS256, (KidFound am ver), c.
    split; [reflexivity|]. split; [exact Ep|].
    destruct (cget k_sub c); try discriminate; inversion Hacc; subst; simpl;
      repeat split; reflexivity.
  Qed.

  Theorem oidc_missing_bearer_iff cfg now vals :
    oidc_authenticate parse_jwt cfg now vals = OMissingBearer <->
    (forall t, auth_from_md vals <> MdToken t).
  Proof.
    split.
    - intros Hx t Ht. unfold oidc_authenticate in Hx. rewrite Ht in Hx.
      destruct (parse_jwt t) as [|a k c]; [discriminate|].
      destruct a; try discriminate.
      destruct k as [| | |am ver]; try discriminate.
      destruct (negb am); [discriminate|]. destruct (negb ver); [discriminate|].
      destruct (negb (validate (parser_validator cfg) now c)); [discriminate|].
      destruct (negb (existsb _ _)); [discriminate|].
      match type of Hx with (if ?b then _ else _) = _ => destruct b; [discriminate|] end.
      destruct (cget k_sub c); discriminate.
    - intro Hx. unfold oidc_authenticate.
      destruct (auth_from_md vals) as [| | |t]; try reflexivity.
      exfalso. apply (Hx t). reflexivity.
  Qed.

  (* every outcome falls in exactly one of the three observable classes, and the bearer
     check has precedence over everything that depends on the token *)
  Theorem oidc_class_precedence cfg now vals :
    oidc_class (oidc_authenticate parse_jwt cfg now vals)
    = if vy_bearer (validity_of parse_jwt cfg now vals)
      then (if accepted (oidc_authenticate parse_jwt cfg now vals) then 0 else 2)
      else 1.
  Proof.
    unfold oidc_authenticate, validity_of.
    destruct (auth_from_md vals) as [| | |t]; try reflexivity.
    assert (Hb : forall tk, vy_bearer (validity_of_token cfg now true tk) = true)
      by (intros [|]; reflexivity).
    rewrite Hb.
    match goal with |- oidc_class ?o = _ => destruct o eqn:Eo end; try reflexivity.
    exfalso. revert Eo.
    destruct (parse_jwt t) as [|a k c]; [discriminate|].
    destruct a; try discriminate.
    destruct k as [| | |am ver]; try discriminate.
    destruct (negb am); [discriminate|]. destruct (negb ver); [discriminate|].
    destruct (negb (validate (parser_validator cfg) now c)); [discriminate|].
    destruct (negb (existsb _ _)); [discriminate|].
    match goal with |- (if ?b then _ else _) = _ -> _ => destruct b; [discriminate|] end.
    destruct (cget k_sub c); discriminate.
  Qed.
End OidcProofs.

(* ------------------------------------------------------------------------------------ *)
(* reading the record: each boolean field is the claim the property text talks about    *)
(* (an empty string names nothing: neither as a claim value nor as a configured entry)  *)

Definition exp_valid (now : Z) (c : claims) : Prop :=
  exists e, cget k_exp c = JNum e /\ e <> 0%Z /\ (now < e)%Z.

Definition not_in_future (k : bytes) (now : Z) (c : claims) : Prop :=
  cget k c = JAbsent \/ exists z, cget k c = JNum z /\ (z = 0%Z \/ (z <= now)%Z).

Definition aud_names (cfg : oidc_cfg) (c : claims) : Prop :=
  cget k_aud c = JStr (audience cfg) \/
  exists l, cget k_aud c = JStrs l /\ In (audience cfg) l.

Definition iss_names (cfg : oidc_cfg) (c : claims) : Prop :=
  exists s, cget k_iss c = JStr s /\ s <> [] /\ In s (main_issuer cfg :: issuer_aliases cfg).

Definition sub_allowed (cfg : oidc_cfg) (c : claims) : Prop :=
  subjects cfg = [] \/ exists s, cget k_sub c = JStr s /\ s <> [] /\ In s (subjects cfg).

Definition sub_wellformed (c : claims) : Prop :=
  cget k_sub c = JAbsent \/ exists s, cget k_sub c = JStr s.

Lemma exp_ok_iff now c : exp_ok now c = true <-> exp_valid now c.
Proof.
  unfold exp_ok, exp_valid. destruct (cget k_exp c) as [| s | z | l | |];
    try (split; [discriminate | intros [e [He _]]; discriminate]).
  rewrite andb_true_iff, negb_true_iff, Z.eqb_neq, Z.ltb_lt. split.
  - intros [H1 H2]. exists z. auto.
  - intros [e [He [H1 H2]]]. inversion He; subst. auto.
Qed.

Lemma time_ok_iff k now c : time_ok k now c = true <-> not_in_future k now c.
Proof.
  unfold time_ok, not_in_future. destruct (cget k c) as [| s | z | l | |];
    try (split; [discriminate | intros [Hx | [z' [Hx _]]]; discriminate]).
  - split; [left; reflexivity | reflexivity].
  - rewrite orb_true_iff, Z.eqb_eq, Z.leb_le. split.
    + intro Hz. right. exists z. auto.
    + intros [Hx | [z' [Hx Hz]]]; [discriminate|]. inversion Hx; subst. exact Hz.
Qed.

Lemma aud_ok_iff cfg c : aud_ok cfg c = true <-> aud_names cfg c.
Proof.
  unfold aud_ok, aud_names. destruct (cget k_aud c) as [| s | z | l | |];
    try (split; [discriminate | intros [Hx | [l' [Hx _]]]; discriminate]).
  - rewrite beqb_eq. split.
    + intro Hs. subst. left. reflexivity.
    + intros [Hx | [l' [Hx _]]]; [inversion Hx; reflexivity | discriminate].
  - rewrite bmem_In. split.
    + intro Hin. right. exists l. auto.
    + intros [Hx | [l' [Hx Hin]]]; [discriminate|]. inversion Hx; subst. exact Hin.
Qed.

Lemma iss_ok_iff cfg c : iss_ok cfg c = true <-> iss_names cfg c.
Proof.
  unfold iss_ok, iss_names. destruct (cget k_iss c) as [| s | z | l | |];
    try (split; [discriminate | intros [s' [Hx _]]; discriminate]).
  rewrite andb_true_iff, negb_true_iff, beqb_neq, bmem_In. split.
  - intros [Hne Hin]. exists s. auto.
  - intros [s' [Hx [Hne Hin]]]. inversion Hx; subst. auto.
Qed.

Lemma sub_ok_iff cfg c : sub_ok cfg c = true <-> sub_allowed cfg c.
Proof.
  unfold sub_ok, sub_allowed. destruct (subjects cfg) as [|s0 ss] eqn:Es.
  - split; [left; reflexivity | reflexivity].
  - destruct (cget k_sub c) as [| s | z | l | |];
      try (split; [discriminate | intros [Hx | [s' [Hx _]]]; discriminate]).
    rewrite andb_true_iff, negb_true_iff, beqb_neq, bmem_In. split.
    + intros [Hne Hin]. right. exists s. auto.
    + intros [Hx | [s' [Hx [Hne Hin]]]]; [discriminate|]. inversion Hx; subst. auto.
Qed.

Lemma sub_wf_iff c : sub_wf c = true <-> sub_wellformed c.
Proof.
  unfold sub_wf, sub_wellformed. destruct (cget k_sub c) as [| s | z | l | |];
    try (split; [discriminate | intros [Hx | [s' Hx]]; discriminate]).
  - split; [left; reflexivity | reflexivity].
  - split; [right; exists s; reflexivity | reflexivity].
Qed.

(* ------------------------------------------------------------------------------------ *)
(* the property                                                                          *)

(* the property text over concrete claims *)
Definition oidc_property (parse_jwt : bytes -> token) (cfg : oidc_cfg) (now : Z)
           (vals : list bytes) : Prop :=
  exists t c,
    auth_from_md vals = MdToken t /\
    parse_jwt t = TokParsed AlgRS256 (KidFound true true) c /\
    exp_valid now c /\ not_in_future k_iat now c /\ aud_names cfg c /\
    iss_names cfg c /\ sub_allowed cfg c.

(* what the code decides, over concrete claims: the property text plus two conditions *)
Definition oidc_code_accepts (parse_jwt : bytes -> token) (cfg : oidc_cfg) (now : Z)
           (vals : list bytes) : Prop :=
  exists t c,
    auth_from_md vals = MdToken t /\
    parse_jwt t = TokParsed AlgRS256 (KidFound true true) c /\
    exp_valid now c /\ not_in_future k_nbf now c /\ not_in_future k_iat now c /\
    aud_names cfg c /\ iss_names cfg c /\ sub_allowed cfg c /\ sub_wellformed c.

Section OidcProperty.
  Variable parse_jwt : bytes -> token.

  Lemma decide_iff cfg now vals :
    decide (validity_of parse_jwt cfg now vals) = true <-> oidc_code_accepts parse_jwt cfg now vals.
  Proof.
    unfold validity_of, oidc_code_accepts.
    destruct (auth_from_md vals) as [| | |t];
      try (split; [discriminate | intros [t' [c' [Hx _]]]; discriminate]).
    destruct (parse_jwt t) as [|a k c] eqn:Ep.
    - split; [discriminate|]. intros [t' [c' [Hx [Hy _]]]]. inversion Hx; subst t'.
      rewrite Ep in Hy. discriminate.
    - unfold decide, validity_of_token.
      cbv beta iota delta [vy_bearer vy_wellformed vy_alg vy_key vy_sig vy_exp vy_nbf vy_iat vy_aud
                           vy_iss vy_sub vy_sub_wf].
      rewrite !andb_true_iff.
      rewrite exp_ok_iff, !time_ok_iff, aud_ok_iff, iss_ok_iff, sub_ok_iff, sub_wf_iff.
      split.
      + intros [[[[[[[[[[[_ _] Ha] Hk] Hs] He] Hn] Hi] Hau] His] Hsu] Hwf].
        exists t, c. destruct a; try discriminate.
        destruct k as [| | |am ver]; try discriminate. subst am ver.
        repeat split; auto.
      + intros [t' [c' [Hx [Hy [He [Hn [Hi [Hau [His [Hsu Hwf]]]]]]]]]].
        inversion Hx; subst t'. rewrite Ep in Hy. inversion Hy; subst.
        repeat split; auto.
  Qed.

  Lemma property_literal_iff cfg now vals :
    property_literal (validity_of parse_jwt cfg now vals) = true <->
    oidc_property parse_jwt cfg now vals.
  Proof.
    unfold validity_of, oidc_property.
    destruct (auth_from_md vals) as [| | |t];
      try (split; [discriminate | intros [t' [c' [Hx _]]]; discriminate]).
    destruct (parse_jwt t) as [|a k c] eqn:Ep.
    - split; [discriminate|]. intros [t' [c' [Hx [Hy _]]]]. inversion Hx; subst t'.
      rewrite Ep in Hy. discriminate.
    - unfold property_literal, validity_of_token.
      cbv beta iota delta [vy_bearer vy_wellformed vy_alg vy_key vy_sig vy_exp vy_nbf vy_iat vy_aud
                           vy_iss vy_sub vy_sub_wf].
      rewrite !andb_true_iff.
      rewrite exp_ok_iff, time_ok_iff, aud_ok_iff, iss_ok_iff, sub_ok_iff.
      split.
      + intros [[[[[[[[[_ _] Ha] Hk] Hs] He] Hi] Hau] His] Hsu].
        exists t, c. destruct a; try discriminate.
        destruct k as [| | |am ver]; try discriminate. subst am ver.
        repeat split; auto.
      + intros [t' [c' [Hx [Hy [He [Hi [Hau [His Hsu]]]]]]]].
        inversion Hx; subst t'. rewrite Ep in Hy. inversion Hy; subst.
        repeat split; auto.
  Qed.

  Lemma record_meaning cfg now vals :
    (decide (validity_of parse_jwt cfg now vals) = true <-> oidc_code_accepts parse_jwt cfg now vals) /\
    (property_literal (validity_of parse_jwt cfg now vals) = true <-> oidc_property parse_jwt cfg now vals).
  Proof. split; [apply decide_iff | apply property_literal_iff]. Qed.

  (* exact characterisation of what the code accepts, for every configuration the
     constructor lets through, every clock value, every header list and every token *)
  Theorem oidc_accept_iff cfg now vals :
    cfg_wf cfg = true ->
    ((exists p, oidc_authenticate parse_jwt cfg now vals = OAccept p) <->
     oidc_code_accepts parse_jwt cfg now vals).
  Proof.
    intro Hwf. rewrite <- decide_iff, <- (oidc_decision_table parse_jwt cfg now vals Hwf).
    destruct (oidc_authenticate parse_jwt cfg now vals) as [p| |r]; simpl.
    - split; [reflexivity | intros _; exists p; reflexivity].
    - split; [intros [p Hp]; discriminate | discriminate].
    - split; [intros [p Hp]; discriminate | discriminate].
  Qed.

  (* soundness w.r.t. the property text, full strength: EVERY configuration (also those the
     constructor would refuse), every clock value, header list and token *)
  Theorem oidc_sound cfg now vals :
    (exists p, oidc_authenticate parse_jwt cfg now vals = OAccept p) ->
    oidc_property parse_jwt cfg now vals.
  Proof.
    intros [p Hacc].
    destruct (oidc_accept_facts parse_jwt cfg now vals p Hacc)
      as [t [c [Hx [Hy [He [Hn [Hi [Hau [His [Hsu Hwf]]]]]]]]]].
    exists t, c. split; [exact Hx|]. split; [exact Hy|].
    split; [apply exp_ok_iff; exact He|].
    split; [apply time_ok_iff; exact Hi|].
    split; [apply aud_ok_iff; exact Hau|].
    split; [apply iss_ok_iff; exact His | apply sub_ok_iff; exact Hsu].
  Qed.

  (* completeness w.r.t. the property text: needs the two extra conditions the code imposes
     (nbf not in the future, sub a string when present) *)
  Theorem oidc_complete_partial cfg now vals :
    cfg_wf cfg = true ->
    oidc_property parse_jwt cfg now vals ->
    (forall t c, auth_from_md vals = MdToken t ->
                 parse_jwt t = TokParsed AlgRS256 (KidFound true true) c ->
                 not_in_future k_nbf now c /\ sub_wellformed c) ->
    exists p, oidc_authenticate parse_jwt cfg now vals = OAccept p.
  Proof.
    intros Hwf [t [c [Hx [Hy [He [Hi [Hau [His Hsu]]]]]]]] Hextra.
    apply (oidc_accept_iff cfg now vals Hwf).
    destruct (Hextra t c Hx Hy) as [Hn Hw].
    exists t, c. repeat split; auto.
  Qed.

  (* both together: on tokens without nbf-in-the-future / non-string sub, accepted exactly
     when the property text says so *)
  Theorem oidc_exact_partial cfg now vals :
    cfg_wf cfg = true ->
    extra_ok (validity_of parse_jwt cfg now vals) = true ->
    (accepted (oidc_authenticate parse_jwt cfg now vals)
     = property_literal (validity_of parse_jwt cfg now vals)).
  Proof.
    intros Hwf Hex. rewrite (oidc_decision_table parse_jwt cfg now vals Hwf).
    unfold extra_ok in Hex. apply andb_true_iff in Hex as [Hn Hw].
    unfold decide, property_literal. rewrite Hn, Hw.
    destruct (vy_bearer _), (vy_wellformed _), (vy_alg _), (vy_key _), (vy_sig _), (vy_exp _),
      (vy_iat _), (vy_aud _), (vy_iss _), (vy_sub _); reflexivity.
  Qed.
End OidcProperty.

(* ------------------------------------------------------------------------------------ *)
(* witnesses                                                                             *)

Definition s_main : bytes := [109].            (* "m" *)
Definition s_aud : bytes := [97].              (* "a" *)
Definition s_evil : bytes := [101; 118; 105; 108]. (* "evil" *)
Definition s_alice : bytes := [97; 108; 105; 99; 101].
Definition hdr (t : bytes) : list bytes := [s_bearer ++ c_space :: t].

Definition w_claims (iss sub : jv) (extra : claims) : claims :=
  (k_exp, JNum 2000) :: (k_aud, JStr s_aud) :: (k_iss, iss) :: (k_sub, sub) :: extra.

Definition w_parse (c : claims) : bytes -> token :=
  fun _ => TokParsed AlgRS256 (KidFound true true) c.

Definition w_cfg (aliases subs : list bytes) : oidc_cfg :=
  {| main_issuer := s_main; issuer_aliases := aliases; audience := s_aud;
     subjects := subs; client_id_claims := [k_azp; k_client_id] |}.

(* regression examples for the two repaired findings (8b29193): an empty alias / subject entry
   matches nothing.  Before the fix both tokens were accepted. *)
Example ex_empty_alias_matches_nothing :
  oidc_authenticate (w_parse (w_claims (JStr s_evil) JAbsent [])) (w_cfg [[]] []) 1000%Z (hdr [120])
  = OInvalid RIssuer /\
  oidc_authenticate (w_parse (w_claims (JStr []) JAbsent [])) (w_cfg [[]] []) 1000%Z (hdr [120])
  = OInvalid RIssuer /\
  oidc_authenticate (w_parse (w_claims JAbsent JAbsent [])) (w_cfg [[]] []) 1000%Z (hdr [120])
  = OInvalid RIssuer.
Proof. vm_compute. auto. Qed.

Example ex_empty_subject_matches_nothing :
  oidc_authenticate (w_parse (w_claims (JStr s_main) (JStr s_evil) [])) (w_cfg [] [s_alice; []])
                    1000%Z (hdr [120])
  = OInvalid RSubject /\
  oidc_authenticate (w_parse (w_claims (JStr s_main) JAbsent [])) (w_cfg [] [[]]) 1000%Z (hdr [120])
  = OInvalid RSubject /\
  accepted (oidc_authenticate (w_parse (w_claims (JStr s_main) (JStr s_alice) []))
                              (w_cfg [] [s_alice; []]) 1000%Z (hdr [120])) = true.
Proof. vm_compute. auto. Qed.

(* the code is stricter than the text in two places: nbf in the future, non-string sub *)
Theorem oidc_complete_refuted_nbf :
  exists parse cfg now vals,
    cfg_wf cfg = true /\
    property_literal (validity_of parse cfg now vals) = true /\
    accepted (oidc_authenticate parse cfg now vals) = false.
Proof.
  exists (w_parse (w_claims (JStr s_main) (JStr s_alice) [(k_nbf, JNum 1500)])),
         (w_cfg [] [s_alice]), 1000%Z, (hdr [120]).
  vm_compute. auto.
Qed.

Theorem oidc_complete_refuted_sub_type :
  exists parse cfg now vals,
    cfg_wf cfg = true /\
    property_literal (validity_of parse cfg now vals) = true /\
    accepted (oidc_authenticate parse cfg now vals) = false.
Proof.
  exists (w_parse (w_claims (JStr s_main) (JNum 7) [])), (w_cfg [] []), 1000%Z, (hdr [120]).
  vm_compute. auto.
Qed.

(* the constructor guarantees cfg_wf *)
Theorem oidc_new_wf main aliases aud subs cic cfg :
  oidc_new main aliases aud subs cic = Some cfg -> cfg_wf cfg = true.
Proof.
  unfold oidc_new, cfg_wf.
  destruct (beqb main []) eqn:Em; [discriminate|].
  destruct (beqb aud []) eqn:Ea; [discriminate|].
  intro Hc. inversion Hc; subst; simpl. rewrite Em, Ea. reflexivity.
Qed.

(* ------------------------------------------------------------------------------------ *)
(* statelessness: authentication is a function of (configuration, header values, clock)  *)
(* only.  Whatever was presented before, the i-th answer of a history is the single-call *)
(* answer at time t_i.  This is what the driver's history cases check on the real        *)
(* middleware (a token cached while valid must not stay accepted after its exp).         *)

Theorem oidc_stateless (parse_jwt : bytes -> token) cfg h i c :
  nth_error h i = Some c ->
  nth_error (oidc_run parse_jwt cfg h) i = Some (oidc_authenticate parse_jwt cfg (fst c) (snd c)).
Proof.
  intro Hn. unfold oidc_run.
  exact (map_nth_error (fun c => oidc_authenticate parse_jwt cfg (fst c) (snd c)) i h Hn).
Qed.

Theorem psk_stateless (H : bytes -> bytes) h i c :
  nth_error h i = Some c ->
  nth_error (psk_run H h) i
  = Some (match psk_new H (fst c) with
          | None => None
          | Some hs => Some (psk_authenticate H hs (snd c))
          end).
Proof.
  intro Hn. unfold psk_run.
  exact (map_nth_error (fun c => match psk_new H (fst c) with
                                 | None => None
                                 | Some hs => Some (psk_authenticate H hs (snd c))
                                 end) i h Hn).
Qed.

Lemma nth_error_middle {A} (l1 : list A) x l2 : nth_error (l1 ++ x :: l2) (length l1) = Some x.
Proof. induction l1 as [|y l1 IH]; simpl; [reflexivity | exact IH]. Qed.

(* the answer to a call does not depend on the calls before or after it *)
Theorem authn_stateless :
  (forall (parse_jwt : bytes -> token) cfg h1 h1' c h2 h2',
     nth_error (oidc_run parse_jwt cfg (h1 ++ c :: h2)) (length h1)
     = nth_error (oidc_run parse_jwt cfg (h1' ++ c :: h2')) (length h1')) /\
  (forall (H : bytes -> bytes) h1 h1' c h2 h2',
     nth_error (psk_run H (h1 ++ c :: h2)) (length h1)
     = nth_error (psk_run H (h1' ++ c :: h2')) (length h1')).
Proof.
  split; intros.
  - rewrite (oidc_stateless parse_jwt cfg _ _ c (nth_error_middle h1 c h2)).
    rewrite (oidc_stateless parse_jwt cfg _ _ c (nth_error_middle h1' c h2')). reflexivity.
  - rewrite (psk_stateless H _ _ c (nth_error_middle h1 c h2)).
    rewrite (psk_stateless H _ _ c (nth_error_middle h1' c h2')). reflexivity.
Qed.

(* ------------------------------------------------------------------------------------ *)
(* non-vacuity                                                                           *)

Example ex_accept :
  accepted (oidc_authenticate (w_parse (w_claims (JStr s_main) (JStr s_alice) []))
                              (w_cfg [] [s_alice]) 1000%Z (hdr [120])) = true.
Proof. vm_compute. reflexivity. Qed.

Example ex_expired :
  oidc_authenticate (w_parse (w_claims (JStr s_main) (JStr s_alice) []))
                    (w_cfg [] [s_alice]) 2000%Z (hdr [120]) = OInvalid RClaims.
Proof. vm_compute. reflexivity. Qed.

Example ex_cfg_wf : cfg_wf (w_cfg [] [s_alice]) = true.
Proof. vm_compute. auto. Qed.

Example ex_header_case :
  auth_from_md [[98; 69; 65; 82; 101; 114; 32; 120; 32; 121]] = MdToken [120; 32; 121].
Proof. vm_compute. reflexivity. Qed.

Example ex_header_no_space : auth_from_md [s_bearer] = MdBadString.
Proof. vm_compute. reflexivity. Qed.

Example ex_dup_claim_last_wins :
  cget k_exp [(k_exp, JNum 1); (k_exp, JNum 2)] = JNum 2.
Proof. vm_compute. reflexivity. Qed.

Example ex_psk :
  let H := fun b : bytes => 7 :: b in
  psk_new H [[1]; [2; 3]] = Some [[7; 1]; [7; 2; 3]] /\
  psk_authenticate H [[7; 1]; [7; 2; 3]] (hdr [2; 3]) = PskAccept /\
  psk_authenticate H [[7; 1]; [7; 2; 3]] (hdr [2]) = PskUnauthenticated /\
  psk_authenticate H [[7; 1]; [7; 2; 3]] [] = PskMissingBearer.
Proof. vm_compute. auto. Qed.

Example ex_inj_on : inj_on (fun b : bytes => 7 :: b) [[2; 3]; [1]; [2; 3]].
Proof. intros a b _ _ Heq. inversion Heq. reflexivity. Qed.
