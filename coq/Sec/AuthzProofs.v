(* C26 — lemmas about Sec/Authz.v (for all grant oracles, claims, methods, stores, module
   lists, write requests and store sets) and computations over the tables regenerated from the
   Go source (Generated/C26Tables.v: finite, so vm_compute over them is a complete check). *)
From OFGA Require Import Base.Bytes Generated.C26Tables Sec.Authz Sec.AuthzHandlers.
From Coq Require Import String Bool Lia.
Open Scope N_scope.

(* ------------------------------------------------------------------------------------ *)
(* The regenerated relation table                                                        *)

Lemma all_api_methods_complete : forall m : api_method, In m all_api_methods.
Proof. intro m; destruct m; vm_compute; tauto. Qed.

Lemma relation_table_total_b :
  forallb (fun m => match relation_of m with Some _ => true | None => false end) all_api_methods = true.
Proof. vm_compute. reflexivity. Qed.

Lemma relation_table_total : forall m : api_method, exists r, relation_of m = Some r.
Proof.
  intro m.
  pose proof relation_table_total_b as H.
  rewrite forallb_forall in H.
  specialize (H m (all_api_methods_complete m)).
  destruct (relation_of m) as [r|]; [exists r; reflexivity | discriminate].
Qed.

(* the transcribed switch agrees, method by method, with the hand-written reading *)
Lemma relation_table_spec : forall m : api_method, relation_of m = Some (spec_relation m).
Proof. intro m; destruct m; reflexivity. Qed.

(* the transcription in Sec/Authz.v IS the source: API methods (in order, by string value), the
   relation each clause of getRelation returns, the relation constants, the module limit *)
Lemma relation_table_matches_source : gen_relation_table = model_relation_table.
Proof. vm_compute. reflexivity. Qed.

Lemma api_methods_match_source : map snd gen_api_methods = map api_method_bytes all_api_methods.
Proof. vm_compute. reflexivity. Qed.

Lemma relations_match_source : map snd gen_relations = map relation_bytes all_relations.
Proof. vm_compute. reflexivity. Qed.

Lemma max_modules_matches_source : gen_max_modules = max_modules_in_request.
Proof. vm_compute. reflexivity. Qed.

(* every API method of the source has a clause in the switch *)
Lemma source_relation_table_total :
  forallb (fun e => match snd e with Some _ => true | None => false end) gen_relation_table = true.
Proof. vm_compute. reflexivity. Qed.

Lemma all_relations_complete : forall r : relation, In r all_relations.
Proof. intro r; destruct r; vm_compute; tauto. Qed.

Lemma no_unknown_shapes : c26_unknown = [].
Proof. vm_compute. reflexivity. Qed.

Lemma max_modules_is_one : max_modules_in_request = 1.
Proof. vm_compute. reflexivity. Qed.

(* ------------------------------------------------------------------------------------ *)
(* Authorize                                                                             *)

Definition granted (g : grant_oracle) (c : client) (r : relation) (s : store_id)
           (mods : list module_name) : Prop :=
  g c r (OStore s) = Some true \/
  (mods <> [] /\ N.of_nat (List.length mods) <= max_modules_in_request /\
   forall m, In m mods -> g c r (OModule s m) = Some true).

Lemma check_claims_some cl c : check_claims cl = Some c <-> cl = Claims c /\ c <> [].
Proof.
  destruct cl as [|[|b t]]; simpl; split.
  - discriminate.
  - intros [H _]; discriminate.
  - discriminate.
  - intros [H Hn]. inversion H; subst. contradiction.
  - intro H; inversion H; subst. split; [reflexivity | discriminate].
  - intros [H _]. inversion H; subst. reflexivity.
Qed.

Lemma check_claims_none cl : check_claims cl = None <-> cl = NoClaims \/ cl = Claims [].
Proof.
  destruct cl as [|[|b t]]; simpl; split; auto.
  - discriminate.
  - intros [H|H]; discriminate.
Qed.

Lemma module_authorize_allow g c r s mods :
  module_authorize g c r s mods = Allow <->
  forall m, In m mods -> g c r (OModule s m) = Some true.
Proof.
  induction mods as [|a rest IH]; simpl.
  - split; [intros _ m []| reflexivity].
  - unfold individual. destruct (g c r (OModule s a)) as [[|]|] eqn:E.
    + rewrite IH. split.
      * intros H m [<-|Hm]; auto.
      * intros H m Hm. apply H. right; exact Hm.
    + split; [discriminate|]. intro H. specialize (H a (or_introl eq_refl)). congruence.
    + split; [discriminate|]. intro H. specialize (H a (or_introl eq_refl)). congruence.
Qed.

Lemma module_authorize_cases g c r s mods :
  module_authorize g c r s mods = Allow \/
  module_authorize g c r s mods = Deny DModuleNotAllowed \/
  module_authorize g c r s mods = Deny DModuleError.
Proof.
  induction mods as [|a rest IH]; simpl; auto.
  destruct (individual g c r (OModule s a)); auto.
Qed.

Lemma authorize_with_relation g c r m s mods :
  c <> [] -> relation_of m = Some r ->
  (authorize g (Claims c) m s mods = Allow <-> granted g c r s mods).
Proof.
  intros Hc Hr. unfold authorize.
  assert (Hcl : check_claims (Claims c) = Some c) by (apply check_claims_some; auto).
  rewrite Hcl, Hr. unfold individual, granted.
  destruct (g c r (OStore s)) as [[|]|] eqn:E.
  - split; auto.
  - destruct mods as [|x rest].
    + split; [discriminate|]. intros [H|[H _]]; [discriminate | contradiction].
    + destruct (max_modules_in_request <? N.of_nat (List.length (x :: rest))) eqn:L.
      * split; [discriminate|]. apply N.ltb_lt in L.
        intros [H|[_ [H _]]]; [discriminate | lia].
      * apply N.ltb_ge in L. rewrite module_authorize_allow. split.
        -- intro H. right. split; [discriminate|]. split; assumption.
        -- intros [H|[_ [_ H]]]; [discriminate | exact H].
  - destruct mods as [|x rest].
    + split; [discriminate|]. intros [H|[H _]]; [discriminate | contradiction].
    + destruct (max_modules_in_request <? N.of_nat (List.length (x :: rest))) eqn:L.
      * split; [discriminate|]. apply N.ltb_lt in L.
        intros [H|[_ [H _]]]; [discriminate | lia].
      * apply N.ltb_ge in L. rewrite module_authorize_allow. split.
        -- intro H. right. split; [discriminate|]. split; assumption.
        -- intros [H|[_ [_ H]]]; [discriminate | exact H].
Qed.

(* Authorize = ok  <=>  a client id is present and the control store grants the method's
   relation on the store, or on each of the (non-empty, at most max) modules *)
Lemma authorize_iff_granted g cl m s mods :
  authorize g cl m s mods = Allow <->
  exists c, cl = Claims c /\ c <> [] /\ granted g c (spec_relation m) s mods.
Proof.
  split.
  - intro H. destruct (check_claims cl) as [c|] eqn:Hc.
    + apply check_claims_some in Hc. destruct Hc as [-> Hne].
      exists c. split; [reflexivity|]. split; [exact Hne|].
      apply (authorize_with_relation g c (spec_relation m) m s mods Hne (relation_table_spec m)).
      exact H.
    + unfold authorize in H. rewrite Hc in H. discriminate.
  - intros [c [-> [Hne Hg]]].
    apply (authorize_with_relation g c (spec_relation m) m s mods Hne (relation_table_spec m)).
    exact Hg.
Qed.

Lemma granted_b_iff g c r s mods : granted_b g c r s mods = true <-> granted g c r s mods.
Proof.
  unfold granted_b, granted.
  destruct (g c r (OStore s)) as [[|]|] eqn:E.
  - split; auto.
  - destruct mods as [|x rest].
    + split; [discriminate|]. intros [H|[H _]]; [discriminate|contradiction].
    + rewrite andb_true_iff, N.leb_le, forallb_forall. split.
      * intros [Hl Hf]. right. split; [discriminate|]. split; [exact Hl|].
        intros m Hm. specialize (Hf m Hm). destruct (g c r (OModule s m)) as [[|]|]; congruence.
      * intros [H|[_ [Hl Hf]]]; [discriminate|]. split; [exact Hl|].
        intros m Hm. rewrite (Hf m Hm). reflexivity.
  - destruct mods as [|x rest].
    + split; [discriminate|]. intros [H|[H _]]; [discriminate|contradiction].
    + rewrite andb_true_iff, N.leb_le, forallb_forall. split.
      * intros [Hl Hf]. right. split; [discriminate|]. split; [exact Hl|].
        intros m Hm. specialize (Hf m Hm). destruct (g c r (OModule s m)) as [[|]|]; congruence.
      * intros [H|[_ [Hl Hf]]]; [discriminate|]. split; [exact Hl|].
        intros m Hm. rewrite (Hf m Hm). reflexivity.
Qed.

(* the executable specification used by the oracle is the same predicate *)
Lemma spec_allowed_is_authorize g cl m s mods :
  spec_allowed g cl m s mods = is_allow (authorize g cl m s mods).
Proof.
  destruct (spec_allowed g cl m s mods) eqn:S.
  - assert (A : authorize g cl m s mods = Allow).
    { apply authorize_iff_granted. unfold spec_allowed in S.
      destruct cl as [|[|b c]]; try discriminate.
      exists (b :: c). split; [reflexivity|]. split; [discriminate|].
      apply granted_b_iff. exact S. }
    rewrite A. reflexivity.
  - destruct (authorize g cl m s mods) eqn:A; [|reflexivity].
    apply authorize_iff_granted in A. destruct A as [c [-> [Hne Hg]]].
    apply granted_b_iff in Hg. unfold spec_allowed in S.
    destruct c as [|b c]; [contradiction|]. congruence.
Qed.

Lemma spec_write_allowed_is_write_authorize g cl s ls :
  spec_write_allowed g cl s ls = is_allow (write_authorize g cl s ls).
Proof.
  unfold spec_write_allowed, write_authorize.
  destruct (extract_modules ls []); [reflexivity|]. apply spec_allowed_is_authorize.
Qed.

Lemma authorize_system_iff g cl m :
  authorize_system g cl m = Allow <->
  exists c, cl = Claims c /\ c <> [] /\ g c (spec_relation m) OSystem = Some true.
Proof.
  unfold authorize_system. rewrite relation_table_spec. unfold individual. split.
  - destruct (check_claims cl) as [c|] eqn:Hc; [|discriminate].
    apply check_claims_some in Hc. destruct Hc as [-> Hne].
    destruct (g c (spec_relation m) OSystem) as [[|]|] eqn:E; try discriminate.
    intros _. exists c. auto.
  - intros [c [-> [Hne Hg]]].
    assert (Hc : check_claims (Claims c) = Some c) by (apply check_claims_some; auto).
    rewrite Hc, Hg. reflexivity.
Qed.

Lemma create_store_iff g cl :
  authorize_create_store g cl = Allow <->
  exists c, cl = Claims c /\ c <> [] /\ g c R_CanCallCreateStore OSystem = Some true.
Proof. exact (authorize_system_iff g cl M_CreateStore). Qed.

Lemma spec_system_allowed_is_authorize_system g cl m :
  spec_system_allowed g cl m = is_allow (authorize_system g cl m).
Proof.
  destruct (authorize_system g cl m) eqn:A.
  - apply authorize_system_iff in A. destruct A as [c [-> [Hne Hg]]].
    destruct c as [|b c]; [contradiction|]. simpl. rewrite Hg. reflexivity.
  - simpl. destruct (spec_system_allowed g cl m) eqn:S; [|reflexivity].
    unfold spec_system_allowed in S. destruct cl as [|[|b c]]; try discriminate.
    assert (A' : authorize_system g (Claims (b :: c)) m = Allow).
    { apply authorize_system_iff. exists (b :: c). split; [reflexivity|]. split; [discriminate|].
      destruct (g (b :: c) (spec_relation m) OSystem) as [[|]|]; congruence. }
    congruence.
Qed.

(* ------------------------------------------------------------------------------------ *)
(* Errors deny; missing client ids deny                                                  *)

Lemma store_error_denies g c m s :
  c <> [] -> g c (spec_relation m) (OStore s) = None ->
  authorize g (Claims c) m s [] = Deny DStoreError.
Proof.
  intros Hne Hg. unfold authorize.
  assert (Hc : check_claims (Claims c) = Some c) by (apply check_claims_some; auto).
  rewrite Hc, relation_table_spec. unfold individual. rewrite Hg. reflexivity.
Qed.

Lemma module_error_denies g cl m s mods x :
  (forall c, cl = Claims c -> g c (spec_relation m) (OStore s) <> Some true) ->
  In x mods ->
  (forall c, cl = Claims c -> g c (spec_relation m) (OModule s x) = None) ->
  is_allow (authorize g cl m s mods) = false.
Proof.
  intros Hs Hin Hx.
  destruct (authorize g cl m s mods) eqn:A; [|reflexivity].
  apply authorize_iff_granted in A. destruct A as [c [-> [Hne [Hg|[_ [_ Hg]]]]]].
  - exfalso. exact (Hs c eq_refl Hg).
  - specialize (Hg x Hin). rewrite (Hx c eq_refl) in Hg. discriminate.
Qed.

Lemma lookup_error_denies g cl s ls :
  extract_modules ls [] = MErr -> write_authorize g cl s ls = Deny DModuleLookup.
Proof. intro H. unfold write_authorize. rewrite H. reflexivity. Qed.

Lemma list_error_denies g la cl name all :
  (forall c, cl = Claims c -> g c (spec_relation M_ListStores) OSystem = None \/ la c = None) ->
  list_stores g la cl name all = LSDenied.
Proof.
  intro H. unfold list_stores, accessible_stores.
  destruct (authorize_system g cl M_ListStores) eqn:A; [|reflexivity].
  apply authorize_system_iff in A. destruct A as [c [-> [Hne Hg]]].
  assert (Hc : check_claims (Claims c) = Some c) by (apply check_claims_some; auto).
  rewrite Hc. destruct (H c eq_refl) as [E|E]; [congruence|]. rewrite E. reflexivity.
Qed.

Lemma error_denies :
  (forall g c m s, c <> [] -> g c (spec_relation m) (OStore s) = None ->
     authorize g (Claims c) m s [] = Deny DStoreError) /\
  (forall g cl m s mods x,
     (forall c, cl = Claims c -> g c (spec_relation m) (OStore s) <> Some true) ->
     In x mods ->
     (forall c, cl = Claims c -> g c (spec_relation m) (OModule s x) = None) ->
     is_allow (authorize g cl m s mods) = false) /\
  (forall g cl s ls, extract_modules ls [] = MErr -> write_authorize g cl s ls = Deny DModuleLookup) /\
  (forall g la cl name all,
     (forall c, cl = Claims c -> g c (spec_relation M_ListStores) OSystem = None \/ la c = None) ->
     list_stores g la cl name all = LSDenied).
Proof.
  split; [exact store_error_denies|]. split; [exact module_error_denies|].
  split; [exact lookup_error_denies | exact list_error_denies].
Qed.

Lemma no_client_id_denied g la cl :
  cl = NoClaims \/ cl = Claims [] ->
  (forall m s mods, authorize g cl m s mods = Deny DNoClient) /\
  (forall s ls, is_allow (write_authorize g cl s ls) = false) /\
  authorize_create_store g cl = Deny DNoClient /\
  (forall name all, list_stores g la cl name all = LSDenied).
Proof.
  intro H. apply check_claims_none in H.
  split; [|split; [|split]].
  - intros m s mods. unfold authorize. rewrite H. reflexivity.
  - intros s ls. unfold write_authorize. destruct (extract_modules ls []); [reflexivity|].
    unfold authorize. rewrite H. reflexivity.
  - unfold authorize_create_store, authorize_system. rewrite H. reflexivity.
  - intros name all. unfold list_stores, accessible_stores, authorize_system. rewrite H. reflexivity.
Qed.

(* ------------------------------------------------------------------------------------ *)
(* Faults: a failing or cancelled authorization check never yields Allow                  *)

Lemma granted_with_fault g F c r s mods :
  granted (with_fault g F) c r s mods -> granted g c r s mods.
Proof.
  unfold granted, with_fault. intros [H|[Hn [Hl Hm]]].
  - left. destruct (F (OStore s)); [discriminate | exact H].
  - right. split; [exact Hn|]. split; [exact Hl|].
    intros m Hin. specialize (Hm m Hin). destruct (F (OModule s m)); [discriminate | exact Hm].
Qed.

(* whatever set of checks fails: a call that the control store does not authorize is not
   authorized by the failures *)
Lemma fault_never_grants g F cl m s mods :
  authorize (with_fault g F) cl m s mods = Allow -> authorize g cl m s mods = Allow.
Proof.
  rewrite !authorize_iff_granted. intros [c [Hc [Hne Hg]]].
  exists c. split; [exact Hc|]. split; [exact Hne|]. exact (granted_with_fault g F c _ s mods Hg).
Qed.

(* every check the decision rests on failing: denied, whatever the control store would say *)
Lemma failing_checks_deny g F cl m s mods :
  F (OStore s) = true -> (forall x, In x mods -> F (OModule s x) = true) ->
  is_allow (authorize (with_fault g F) cl m s mods) = false.
Proof.
  intros Hs Hm. destruct (authorize (with_fault g F) cl m s mods) eqn:A; [|reflexivity].
  apply authorize_iff_granted in A. destruct A as [c [_ [_ [H|[Hn [_ H]]]]]].
  - unfold with_fault in H. rewrite Hs in H. discriminate.
  - destruct mods as [|x r]; [contradiction|].
    specialize (H x (or_introl eq_refl)). unfold with_fault in H.
    rewrite (Hm x (or_introl eq_refl)) in H. discriminate.
Qed.

(* the failing check is a module check and there is no store-level grant: denied *)
Lemma failing_module_check_denies g F cl m s mods x :
  (forall c, cl = Claims c -> g c (spec_relation m) (OStore s) <> Some true) ->
  In x mods -> F (OModule s x) = true ->
  is_allow (authorize (with_fault g F) cl m s mods) = false.
Proof.
  intros Hs Hin Hx. apply (module_error_denies (with_fault g F) cl m s mods x); auto.
  - intros c Hc. unfold with_fault. destruct (F (OStore s)); [discriminate | exact (Hs c Hc)].
  - intros c _. unfold with_fault. rewrite Hx. reflexivity.
Qed.

Lemma write_fault_never_grants g k from cl s ls :
  write_authorize_fault g k from cl s ls = Allow -> write_authorize g cl s ls = Allow.
Proof.
  unfold write_authorize_fault, write_authorize, authorize_fault.
  destruct (extract_modules ls []); [discriminate|]. apply fault_never_grants.
Qed.

Lemma system_fault_never_grants g F cl m :
  authorize_system (with_fault g F) cl m = Allow -> authorize_system g cl m = Allow.
Proof.
  rewrite !authorize_system_iff. intros [c [Hc [Hne Hg]]]. exists c. split; [exact Hc|]. split; [exact Hne|].
  unfold with_fault in Hg. destruct (F OSystem); [discriminate | exact Hg].
Qed.

(* ------------------------------------------------------------------------------------ *)
(* Writes and modules                                                                    *)

Definition is_moduleless (l : mod_lookup) : bool :=
  match l with LModule [] => true | _ => false end.

Lemma extract_modules_moduleless ls acc :
  existsb is_moduleless ls = true ->
  extract_modules ls acc = MErr \/ extract_modules ls acc = MMods [].
Proof.
  revert acc. induction ls as [|l rest IH]; simpl; intros acc H; [discriminate|].
  destruct l as [| |[|b m]]; auto.
Qed.

(* a write that touches a type without module, or more than the maximum number of modules,
   passes only with the store-level grant *)
Lemma module_write_confined g c s ls :
  write_authorize g (Claims c) s ls = Allow ->
  (existsb is_moduleless ls = true \/
   exists ms, extract_modules ls [] = MMods ms /\ max_modules_in_request < N.of_nat (List.length ms)) ->
  g c R_CanCallWrite (OStore s) = Some true.
Proof.
  unfold write_authorize. intros HA Hc.
  destruct (extract_modules ls []) as [|ms] eqn:E; [discriminate|].
  apply authorize_iff_granted in HA. destruct HA as [c' [Hc' [Hne [Hg|[Hnn [Hl Hm]]]]]];
    inversion Hc'; subst c'.
  - exact Hg.
  - exfalso. destruct Hc as [Hml|[ms' [E' Hlt]]].
    + destruct (extract_modules_moduleless ls [] Hml) as [E2|E2]; rewrite E in E2;
        [discriminate | inversion E2; subst; contradiction].
    + inversion E'; subst. lia.
Qed.

(* full characterisation of the write decision *)
Lemma write_authorize_iff g cl s ls :
  write_authorize g cl s ls = Allow <->
  exists ms c, extract_modules ls [] = MMods ms /\ cl = Claims c /\ c <> [] /\
               granted g c R_CanCallWrite s ms.
Proof.
  unfold write_authorize. destruct (extract_modules ls []) as [|ms] eqn:E.
  - split; [discriminate|]. intros [ms [c [H _]]]. discriminate.
  - rewrite authorize_iff_granted. split.
    + intros [c [H1 [H2 H3]]]. exists ms, c. auto.
    + intros [ms' [c [H0 [H1 [H2 H3]]]]]. inversion H0; subst. exists c. auto.
Qed.

(* ------------------------------------------------------------------------------------ *)
(* ListStores                                                                            *)

Lemma backend_list_stores_subset ids name all st :
  ids <> [] -> In st (backend_list_stores ids name all) -> In (fst st) ids /\ In st all.
Proof.
  intros Hne. unfold backend_list_stores.
  destruct ids as [|i rest]; [contradiction|].
  assert (K : In st (flat_map (fun id => filter (fun st0 => beqb (fst st0) id) all) (i :: rest)) ->
              In (fst st) (i :: rest) /\ In st all).
  { intro H. apply in_flat_map in H. destruct H as [id [Hid Hf]].
    apply filter_In in Hf. destruct Hf as [Ha Hb]. apply beqb_eq in Hb. simpl in Hb. subst id. split; [exact Hid | exact Ha]. }
  destruct name as [|n0 nr]; [exact K|].
  intro H. apply filter_In in H. destruct H as [H _]. apply K. exact H.
Qed.

Lemma backend_list_stores_in_all ids name all st :
  In st (backend_list_stores ids name all) -> In st all.
Proof.
  destruct ids as [|i rest].
  - unfold backend_list_stores. destruct name; [auto|]. intro H. apply filter_In in H. tauto.
  - intro H. apply (backend_list_stores_subset (i :: rest) name all st); [discriminate | exact H].
Qed.

Lemma bmem_In x l : bmem x l = true <-> In x l.
Proof.
  induction l as [|y r IH]; simpl.
  - split; [discriminate | intros []].
  - rewrite orb_true_iff, IH, beqb_eq. split; intros [H|H]; auto.
Qed.

(* both backends return the same set of stores for every id list (ids of stores that do not
   exist, duplicates and the empty list included) *)
Lemma backend_list_stores_same_members ids name all st :
  In st (backend_list_stores ids name all) <-> In st (backend_list_stores_sqlite ids name all).
Proof.
  unfold backend_list_stores, backend_list_stores_sqlite.
  assert (K : In st (match ids with [] => all | _ :: _ => flat_map (fun id => filter (fun st0 => beqb (fst st0) id) all) ids end)
              <-> In st (match ids with [] => all | _ :: _ => filter (fun st0 => bmem (fst st0) ids) all end)).
  { destruct ids as [|i rest]; [tauto|].
    rewrite in_flat_map, filter_In, bmem_In. split.
    - intros [id [Hid Hf]]. apply filter_In in Hf. destruct Hf as [Ha Hb].
      apply beqb_eq in Hb. subst id. split; [exact Ha | exact Hid].
    - intros [Ha Hi]. exists (fst st). split; [exact Hi|].
      apply filter_In. split; [exact Ha | apply beqb_refl]. }
  destruct name as [|n0 nr]; [exact K|].
  rewrite !filter_In, K. tauto.
Qed.

(* what the id filter returns, for ANY id list that is not empty: exactly the live stores
   (name filter applied) whose id is in the list; ids of stores that no longer exist select
   nothing, however many there are *)
Lemma backend_list_stores_exact ids name all st :
  ids <> [] ->
  (In st (backend_list_stores ids name all) <->
   In st all /\ In (fst st) ids /\ (name = [] \/ snd st = name)).
Proof.
  intro Hne. unfold backend_list_stores. destruct ids as [|i rest]; [contradiction|].
  assert (K : In st (flat_map (fun id => filter (fun st0 => beqb (fst st0) id) all) (i :: rest))
              <-> In st all /\ In (fst st) (i :: rest)).
  { rewrite in_flat_map. split.
    - intros [id [Hid Hf]]. apply filter_In in Hf. destruct Hf as [Ha Hb].
      apply beqb_eq in Hb. subst id. split; [exact Ha | exact Hid].
    - intros [Ha Hi]. exists (fst st). split; [exact Hi|].
      apply filter_In. split; [exact Ha | apply beqb_refl]. }
  destruct name as [|n0 nr].
  - rewrite K. split; [intros [A B]; auto | intros [A [B _]]; auto].
  - rewrite filter_In, K, beqb_eq. split.
    + intros [[A B] C]. auto.
    + intros [A [B [C|C]]]; [discriminate | auto].
Qed.

Lemma list_stores_requires_list_grant g la cl name all ids :
  list_stores g la cl name all = LSStores ids ->
  exists c, cl = Claims c /\ c <> [] /\ g c R_CanCallListStores OSystem = Some true /\
            exists acc, la c = Some acc.
Proof.
  unfold list_stores, accessible_stores.
  destruct (authorize_system g cl M_ListStores) eqn:A; [|discriminate].
  apply authorize_system_iff in A. destruct A as [c [-> [Hne Hg]]].
  assert (Hc : check_claims (Claims c) = Some c) by (apply check_claims_some; auto).
  rewrite Hc. destruct (la c) as [acc|] eqn:L; [|discriminate].
  intros _. exists c. split; [reflexivity|]. split; [exact Hne|]. split; [exact Hg|].
  exists acc. exact L.
Qed.

Lemma handler_list_stores_subset ids name all st :
  In st (handler_list_stores backend_list_stores (Some ids) name all) ->
  In (fst st) ids /\ In st all.
Proof.
  destruct ids as [|i rest]; simpl; [intros []|].
  intro H. apply (backend_list_stores_subset (i :: rest) name all st); [discriminate | exact H].
Qed.

(* returned ⊆ accessible ∩ live, for EVERY accessible list: empty, naming stores that were
   deleted or never existed, longer than the live list *)
Lemma list_stores_subset g la cl name all acc ids :
  accessible_stores g la cl = Some acc ->
  list_stores g la cl name all = LSStores ids ->
  forall s, In s ids -> In s acc /\ In s (map fst all).
Proof.
  intros Ha. unfold list_stores. rewrite Ha. intro H. inversion H; subst. clear H.
  intros s Hs. apply in_map_iff in Hs. destruct Hs as [st [<- Hst]].
  destruct (handler_list_stores_subset acc name all st Hst) as [A B].
  split; [exact A | apply in_map; exact B].
Qed.

Lemma list_stores_empty_accessible g la cl name all :
  accessible_stores g la cl = Some [] -> list_stores g la cl name all = LSStores [].
Proof. intro Ha. unfold list_stores. rewrite Ha. reflexivity. Qed.

Lemma list_stores_sqlite_same_members g la cl name all :
  match list_stores g la cl name all, list_stores_sqlite g la cl name all with
  | LSDenied, LSDenied => True
  | LSStores a, LSStores b => forall s, In s a <-> In s b
  | _, _ => False
  end.
Proof.
  unfold list_stores, list_stores_sqlite. destruct (accessible_stores g la cl) as [acc|]; [|exact I].
  destruct acc as [|i rest]; [simpl; tauto|].
  intro s. simpl handler_list_stores. rewrite !in_map_iff.
  split; intros [st [E H]]; exists st; (split; [exact E|]);
    apply backend_list_stores_same_members; exact H.
Qed.

(* "ListStores returns only stores the caller may get", when ListObjects on the control store
   is sound for Check (every listed store passes the can_call_get_store check) *)
Lemma list_stores_gettable g la c name all acc ids :
  accessible_stores g la (Claims c) = Some acc ->
  (forall s, In s acc -> g c R_CanCallGetStore (OStore s) = Some true) ->
  list_stores g la (Claims c) name all = LSStores ids ->
  forall s, In s ids -> authorize g (Claims c) M_GetStore s [] = Allow.
Proof.
  intros Ha Hsound Hl s Hs.
  destruct (list_stores_subset g la (Claims c) name all acc ids Ha Hl s Hs) as [Hin _].
  apply authorize_iff_granted. exists c. split; [reflexivity|]. split.
  - unfold accessible_stores in Ha.
    destruct (authorize_system g (Claims c) M_ListStores) eqn:A; [|discriminate].
    apply authorize_system_iff in A. destruct A as [c' [Hc' [Hne' _]]]. inversion Hc'; subst. exact Hne'.
  - left. simpl. apply Hsound. exact Hin.
Qed.

Lemma In_skipn {A} (x : A) n l : In x (skipn n l) -> In x l.
Proof.
  revert l. induction n as [|n IH]; intros l H; [exact H|].
  destruct l as [|a r]; [exact H|]. right. apply IH. exact H.
Qed.

(* listing from any continuation token (an honest one, one left over from before a revocation,
   a forged one), on either backend: every returned store is accessible and live *)
Lemma list_stores_from_subset sq g la cl name all p acc ids :
  accessible_stores g la cl = Some acc ->
  list_stores_from sq g la cl name all p = LSStores ids ->
  forall s, In s ids -> In s acc /\ In s (map fst all).
Proof.
  intros Ha. unfold list_stores_from. rewrite Ha.
  destruct acc as [|a0 r0]; [intro H; inversion H; intros s []|].
  intro H. inversion H; subst. clear H. intros s Hs.
  apply in_map_iff in Hs. destruct Hs as [st [<- Hst]].
  assert (K : In st (backend_list_stores_sqlite (a0 :: r0) name all)).
  { destruct sq.
    - unfold page_from_sqlite in Hst.
      apply backend_list_stores_same_members in Hst.
      apply (backend_list_stores_exact (a0 :: r0) name (skipn p all) st) in Hst; [|discriminate].
      destruct Hst as [A [B C]].
      apply backend_list_stores_same_members.
      apply (backend_list_stores_exact (a0 :: r0) name all st); [discriminate|].
      split; [exact (In_skipn st p all A) | split; assumption].
    - unfold page_from_memory in Hst. exact (In_skipn st p _ Hst). }
  apply backend_list_stores_same_members in K.
  destruct (backend_list_stores_subset (a0 :: r0) name all st) as [A B]; [discriminate | exact K |].
  split; [exact A | apply in_map; exact B].
Qed.

(* the backends still read an empty id list as "no filter"; the skip / no-access-control path
   (nil list) relies on it *)
Lemma handler_list_stores_nil_unfiltered name all :
  handler_list_stores backend_list_stores None name all = backend_list_stores [] name all.
Proof. reflexivity. Qed.

(* historical witness of F9 (repaired by c075cf0): client "l" may list stores and nothing else,
   the authorizer's answer is the empty list, stores "A" and "B" exist *)
Definition f9_client : client := [108].
Definition f9_g : grant_oracle :=
  fun c r o => match r, o with R_CanCallListStores, OSystem => Some true | _, _ => Some false end.
Definition f9_la : list_oracle := fun _ => Some [].
Definition f9_all : list (store_id * bytes) := [([65], [97]); ([66], [98])].

(* ------------------------------------------------------------------------------------ *)
(* The regenerated handler table                                                         *)

Definition is_guarded_authz (c : c26_call) : bool :=
  match c with
  | CAuthz _ _ g => g
  | CWriteAuthz g => g
  | CCreateStoreAuthz g => g
  | CAccessibleStores g => g
  | _ => false
  end.

(* meaning of the boolean: every command / datastore call of the body comes after a guarded
   authorization call; in strict mode every model resolution too; nothing is unrecognised *)
Lemma calls_ok_sound strict so cs : forall authed,
  calls_ok strict so authed cs = true ->
  forall pre c post, cs = pre ++ c :: post ->
    (match c with
     | CData _ => authed = true \/ existsb is_guarded_authz pre = true
     | CResolveModel => strict = true -> authed = true \/ existsb is_guarded_authz pre = true
     | CUnknown _ => False
     | CDelegate h _ => so h = true
     | _ => True
     end).
Proof.
  induction cs as [|x rest IH]; intros authed H pre c post E.
  - destruct pre; discriminate.
  - destruct pre as [|p pre'].
    + simpl in E. inversion E; subst x rest. clear E.
      destruct c; simpl in H; auto.
      * apply andb_true_iff in H. destruct H as [H _].
        intro Hs. subst strict. simpl in H. rewrite orb_false_r in H. auto.
      * apply andb_true_iff in H. destruct H as [H _]. auto.
      * apply andb_true_iff in H. tauto.
      * discriminate.
    + simpl in E. inversion E; subst p rest. clear E.
      assert (K : forall a', calls_ok strict so a' (pre' ++ c :: post) = true ->
                  match c with
                  | CData _ => a' = true \/ existsb is_guarded_authz pre' = true
                  | CResolveModel => strict = true -> a' = true \/ existsb is_guarded_authz pre' = true
                  | CUnknown _ => False
                  | CDelegate h _ => so h = true
                  | _ => True
                  end).
      { intros a' Ha. exact (IH a' Ha pre' c post eq_refl). }
      destruct x; simpl in H.
      * specialize (K authed H). destruct c; auto; simpl; tauto.
      * specialize (K (authed || guarded)%bool H). simpl.
        destruct c; auto.
        -- intro Hs. destruct (K Hs) as [K1|K1]; [|rewrite K1, orb_true_r; auto].
           apply orb_true_iff in K1. destruct K1 as [K1|K1]; [auto | rewrite K1; auto].
        -- destruct K as [K1|K1]; [|rewrite K1, orb_true_r; auto].
           apply orb_true_iff in K1. destruct K1 as [K1|K1]; [auto | rewrite K1; auto].
      * specialize (K (authed || guarded)%bool H). simpl.
        destruct c; auto.
        -- intro Hs. destruct (K Hs) as [K1|K1]; [|rewrite K1, orb_true_r; auto].
           apply orb_true_iff in K1. destruct K1 as [K1|K1]; [auto | rewrite K1; auto].
        -- destruct K as [K1|K1]; [|rewrite K1, orb_true_r; auto].
           apply orb_true_iff in K1. destruct K1 as [K1|K1]; [auto | rewrite K1; auto].
      * specialize (K (authed || guarded)%bool H). simpl.
        destruct c; auto.
        -- intro Hs. destruct (K Hs) as [K1|K1]; [|rewrite K1, orb_true_r; auto].
           apply orb_true_iff in K1. destruct K1 as [K1|K1]; [auto | rewrite K1; auto].
        -- destruct K as [K1|K1]; [|rewrite K1, orb_true_r; auto].
           apply orb_true_iff in K1. destruct K1 as [K1|K1]; [auto | rewrite K1; auto].
      * specialize (K (authed || guarded)%bool H). simpl.
        destruct c; auto.
        -- intro Hs. destruct (K Hs) as [K1|K1]; [|rewrite K1, orb_true_r; auto].
           apply orb_true_iff in K1. destruct K1 as [K1|K1]; [auto | rewrite K1; auto].
        -- destruct K as [K1|K1]; [|rewrite K1, orb_true_r; auto].
           apply orb_true_iff in K1. destruct K1 as [K1|K1]; [auto | rewrite K1; auto].
      * apply andb_true_iff in H. destruct H as [_ H].
        specialize (K authed H). destruct c; auto; simpl; tauto.
      * apply andb_true_iff in H. destruct H as [_ H].
        specialize (K authed H). destruct c; auto; simpl; tauto.
      * apply andb_true_iff in H. destruct H as [_ H].
        specialize (K authed H). destruct c; auto; simpl; tauto.
      * discriminate.
Qed.

Lemma every_handler_authorizes_before_commands_b :
  forallb authorizes_before_commands c26_handlers = true.
Proof. vm_compute. reflexivity. Qed.

Lemma every_handler_authorizes_before_commands :
  forall h, In h c26_handlers -> authorizes_before_commands h = true.
Proof. apply forallb_forall. exact every_handler_authorizes_before_commands_b. Qed.

Lemma every_handler_authorizes_first_partial_b :
  forallb (fun h => tr_model_read_before_authz h || authorizes_first h)%bool c26_handlers = true.
Proof. vm_compute. reflexivity. Qed.

(* full statement: forall h in the table, authorizes_first h = true.  Missing part: the handlers
   that resolve the store's model before they authorize (trigger flag) — refuted below. *)
Lemma every_handler_authorizes_first_partial :
  forall h, In h c26_handlers -> tr_model_read_before_authz h = false -> authorizes_first h = true.
Proof.
  intros h Hin Ht.
  pose proof every_handler_authorizes_first_partial_b as H.
  rewrite forallb_forall in H. specialize (H h Hin). rewrite Ht in H. exact H.
Qed.

Lemma every_handler_authorizes_first_refuted :
  exists h, In h c26_handlers /\ h_store_scoped h = true /\
            tr_model_read_before_authz h = true /\ authorizes_first h = false.
Proof.
  destruct (find_handler "Write" c26_handlers) as [h|] eqn:E; [|vm_compute in E; discriminate].
  exists h. vm_compute in E. inversion E; subst h. clear E.
  split; [vm_compute; tauto|]. vm_compute. auto.
Qed.

(* exactly these handlers carry the trigger *)
Lemma model_read_before_authz_handlers :
  map h_name (filter tr_model_read_before_authz c26_handlers) = ["ActionSearch"; "Write"]%string.
Proof. vm_compute. reflexivity. Qed.

Lemma handlers_check_own_method_b : forallb checks_own_method c26_handlers = true.
Proof. vm_compute. reflexivity. Qed.

Lemma handlers_check_own_method :
  forall h, In h c26_handlers -> checks_own_method h = true.
Proof. apply forallb_forall. exact handlers_check_own_method_b. Qed.

Lemma handlers_without_own_authz_reviewed :
  handlers_without_own_authz = spec_handlers_without_own_authz.
Proof. vm_compute. reflexivity. Qed.

Lemma authz_helpers_reviewed : c26_authz_helpers = spec_authz_helpers.
Proof. vm_compute. reflexivity. Qed.

(* the store-scoped handlers; the correspondence driver calls every one of them *)
Definition spec_store_scoped : list string :=
  ["WriteAssertions"; "ReadAssertions"; "ReadAuthorizationModel"; "WriteAuthorizationModel";
   "ReadAuthorizationModels"; "Evaluation"; "Evaluations"; "SubjectSearch"; "ResourceSearch";
   "ActionSearch"; "GetConfiguration"; "BatchCheck"; "Check"; "Expand"; "ListObjects";
   "StreamedListObjects"; "ListUsers"; "Read"; "ReadChanges"; "DeleteStore"; "GetStore";
   "Write"]%string.

Lemma store_scoped_handlers_reviewed :
  map h_name (filter h_store_scoped c26_handlers) = spec_store_scoped.
Proof. vm_compute. reflexivity. Qed.

Lemma unscoped_handlers_reviewed :
  map h_name (filter (fun h => negb (h_store_scoped h)) c26_handlers) = ["CreateStore"; "ListStores"]%string.
Proof. vm_compute. reflexivity. Qed.

(* the pinned lists the extracted oracle reads are what the regenerated handler table says *)
Lemma pinned_handlers_match_source :
  map (fun h => bytes_of_string (h_name h)) (filter h_store_scoped c26_handlers) = spec_store_scoped_handlers /\
  map (fun h => bytes_of_string (h_name h)) (filter tr_model_read_before_authz c26_handlers) = spec_model_first_handlers.
Proof. vm_compute. split; reflexivity. Qed.

Lemma list_stores_empty_guard_present : c26_list_stores_empty_guard = true.
Proof. vm_compute. reflexivity. Qed.
