(* C26 — predicates over the handler table that gen_c26 regenerates from pkg/server/*.go
   (Generated/C26Tables.v).  Definitions only; not extracted (the oracle uses the pinned lists of
   Sec/Authz.v, which AuthzProofs.v proves equal to what this table says). *)
From OFGA Require Import Base.Bytes Generated.C26Tables Sec.Authz.
From Coq Require Import String Ascii.
Open Scope N_scope.


Fixpoint find_handler (n : string) (hs : list c26_handler) : option c26_handler :=
  match hs with
  | [] => None
  | h :: r => if String.eqb (h_name h) n then Some h else find_handler n r
  end.

(* [strict] = resolving the store's authorization model (s.resolveTypesystem, a datastore read
   that also sets the model-id response header) counts as data access.
   [authed] becomes true after a *guarded* authz call: a top-level statement whose error is
   returned immediately.  A call of another RPC handler is not a data access of this handler;
   the callee must itself pass ([self_ok]). *)
Fixpoint calls_ok (strict : bool) (self_ok : string -> bool) (authed : bool)
         (cs : list c26_call) : bool :=
  match cs with
  | [] => true
  | c :: r =>
    match c with
    | CValidate => calls_ok strict self_ok authed r
    | CAuthz _ _ g => calls_ok strict self_ok (authed || g) r
    | CWriteAuthz g => calls_ok strict self_ok (authed || g) r
    | CCreateStoreAuthz g => calls_ok strict self_ok (authed || g) r
    | CAccessibleStores g => calls_ok strict self_ok (authed || g) r
    | CResolveModel => (authed || negb strict) && calls_ok strict self_ok authed r
    | CData _ => authed && calls_ok strict self_ok authed r
    | CDelegate h _ => self_ok h && calls_ok strict self_ok authed r
    | CUnknown _ => false
    end
  end.

Fixpoint handler_ok (fuel : nat) (strict : bool) (n : string) : bool :=
  match fuel with
  | O => false
  | S f =>
    match find_handler n c26_handlers with
    | None => false
    | Some h => calls_ok strict (handler_ok f strict) false (h_calls h)
    end
  end.

Definition handler_fuel : nat := S (List.length c26_handlers).

(* authz call precedes every command / datastore call and every model resolution *)
Definition authorizes_first (h : c26_handler) : bool := handler_ok handler_fuel true (h_name h).
(* authz call precedes every command / datastore call (model resolution may come first) *)
Definition authorizes_before_commands (h : c26_handler) : bool := handler_ok handler_fuel false (h_name h).

(* trigger: the handler (or a handler it calls) resolves the model before it authorizes *)
Definition tr_model_read_before_authz (h : c26_handler) : bool :=
  authorizes_before_commands h && negb (authorizes_first h).

(* every checkAuthz call of handler H names apimethod.H and the request's own store id *)
Definition checks_own_method (h : c26_handler) : bool :=
  forallb (fun c => match c with
                    | CAuthz m st _ => String.eqb m (h_name h) && String.eqb st "req.GetStoreId()"
                    | _ => true
                    end) (h_calls h).

Definition is_authz_call (c : c26_call) : bool :=
  match c with
  | CAuthz _ _ _ | CWriteAuthz _ | CCreateStoreAuthz _ | CAccessibleStores _ => true
  | _ => false
  end.

Definition delegates_of (h : c26_handler) : list string :=
  flat_map (fun c => match c with CDelegate n _ => [n] | _ => [] end) (h_calls h).

Definition touches_data (h : c26_handler) : bool :=
  existsb (fun c => match c with CData _ | CResolveModel | CUnknown _ => true | _ => false end) (h_calls h).

(* handlers with no authz call of their own *)
Definition handlers_without_own_authz : list (string * list string * bool) :=
  map (fun h => (h_name h, delegates_of h, touches_data h))
      (filter (fun h => negb (existsb is_authz_call (h_calls h))) c26_handlers).

(* hand-written review list: the AuthZEN front-ends call the core handlers; GetConfiguration
   returns configuration only *)
Definition spec_handlers_without_own_authz : list (string * list string * bool) :=
  [("Evaluation", ["Check"], false);
   ("Evaluations", ["Evaluation"; "Check"; "BatchCheck"], false);
   ("SubjectSearch", ["ListUsers"], false);
   ("ResourceSearch", ["StreamedListObjects"], false);
   ("ActionSearch", ["BatchCheck"], true);
   ("GetConfiguration", [], false)]%string.

Definition spec_authz_helpers : list (string * bool * list string) :=
  [("checkAuthz", true, ["Authorize"]);
   ("checkCreateStoreAuthz", true, ["AuthorizeCreateStore"]);
   ("getAccessibleStores", true, ["AuthorizeListStores"; "ListAuthorizedStores"]);
   ("checkWriteAuthz", true, ["GetModulesForWriteRequest"; "->checkAuthz"])]%string.


Fixpoint bytes_of_string (s : string) : bytes :=
  match s with
  | EmptyString => []
  | String a r => N_of_ascii a :: bytes_of_string r
  end.

(* the transcription of Sec/Authz.v, in the shape of the regenerated tables *)
Definition model_relation_table : list (list N * option (list N)) :=
  map (fun m => (api_method_bytes m, option_map relation_bytes (relation_of m))) all_api_methods.
