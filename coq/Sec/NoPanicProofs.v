(* Proofs for Sec/NoPanic.v (C19).  Every theorem is either a [no_panic_*] fact that holds for
   ALL inputs (with the exact precondition where one is needed) or a [_refuted] fact with the
   input that makes the Go code panic. *)
From OFGA Require Import Base.Bytes Sec.NoPanic.
From OFGA Require Store.Paging Codec.KeyEnc Codec.KeyEncProofs Codec.KeySortProofs
  Codec.TupleStr Codec.TupleStrProofs Base.Utf8.
From Coq Require Import ZArith Lia Permutation ZifyBool ZifyN ZifyNat.
Open Scope N_scope.

(* ================================================================== *)
(* 1a. slice expressions: exact preconditions                           *)
(* ================================================================== *)

Lemma zlen_nonneg {A} (s : list A) : (0 <= zlen s)%Z.
Proof. unfold zlen. lia. Qed.

Theorem no_panic_slice_from_iff {A} (s : list A) lo :
  slice_from s lo <> Panic <-> (0 <= lo <= zlen s)%Z.
Proof.
  unfold slice_from. destruct ((0 <=? lo) && (lo <=? zlen s))%Z eqn:E.
  - split; [intros _; lia | intros _ H; discriminate H].
  - split; [intro H; exfalso; apply H; reflexivity | intro H; exfalso; lia].
Qed.

Theorem no_panic_slice_to_iff {A} (s : list A) hi :
  slice_to s hi <> Panic <-> (0 <= hi <= zlen s)%Z.
Proof.
  unfold slice_to. destruct ((0 <=? hi) && (hi <=? zlen s))%Z eqn:E.
  - split; [intros _; lia | intros _ H; discriminate H].
  - split; [intro H; exfalso; apply H; reflexivity | intro H; exfalso; lia].
Qed.

Theorem no_panic_slice_from_to_iff {A} (s : list A) lo hi :
  slice_from_to s lo hi <> Panic <-> (0 <= lo <= hi /\ hi <= zlen s)%Z.
Proof.
  unfold slice_from_to. destruct ((0 <=? lo) && (lo <=? hi) && (hi <=? zlen s))%Z eqn:E.
  - split; [intros _; lia | intros _ H; discriminate H].
  - split; [intro H; exfalso; apply H; reflexivity | intro H; exfalso; lia].
Qed.

Theorem no_panic_index_at_iff {A} (s : list A) i :
  index_at s i <> Panic <-> (0 <= i < zlen s)%Z.
Proof.
  unfold index_at, zlen. destruct (0 <=? i)%Z eqn:E.
  - destruct (nth_error s (Z.to_nat i)) eqn:En.
    + split; [intros _ | intros _ H; discriminate H].
      assert (Z.to_nat i < length s)%nat by (apply nth_error_Some; congruence). lia.
    + apply nth_error_None in En. split; [intro H; exfalso; apply H; reflexivity | lia].
  - split; [intro H; exfalso; apply H; reflexivity | lia].
Qed.

Theorem no_panic_set_at_iff {A} (s : list A) i x :
  set_at s i x <> Panic <-> (0 <= i < zlen s)%Z.
Proof.
  unfold set_at. destruct ((0 <=? i) && (i <? zlen s))%Z eqn:E.
  - split; [intros _; lia | intros _ H; discriminate H].
  - split; [intro H; exfalso; apply H; reflexivity | intro H; exfalso; lia].
Qed.

Lemma slice_from_ok {A} (s : list A) lo : (0 <= lo <= zlen s)%Z ->
  slice_from s lo = Ok (skipn (Z.to_nat lo) s).
Proof. intro H. unfold slice_from. replace ((0 <=? lo) && (lo <=? zlen s))%Z with true by lia. reflexivity. Qed.

Lemma slice_to_ok {A} (s : list A) hi : (0 <= hi <= zlen s)%Z ->
  slice_to s hi = Ok (firstn (Z.to_nat hi) s).
Proof. intro H. unfold slice_to. replace ((0 <=? hi) && (hi <=? zlen s))%Z with true by lia. reflexivity. Qed.

Lemma slice_from_to_ok {A} (s : list A) lo hi : (0 <= lo <= hi)%Z -> (hi <= zlen s)%Z ->
  slice_from_to s lo hi = Ok (firstn (Z.to_nat (hi - lo)) (skipn (Z.to_nat lo) s)).
Proof.
  intros H1 H2. unfold slice_from_to.
  replace ((0 <=? lo) && (lo <=? hi) && (hi <=? zlen s))%Z with true by lia. reflexivity.
Qed.

(* slices never run out of model fuel: they are not recursive *)
Lemma slice_from_no_fuel {A} (s : list A) lo : slice_from s lo <> OutOfFuel.
Proof. unfold slice_from. destruct ((0 <=? lo) && (lo <=? zlen s))%Z; discriminate. Qed.
Lemma slice_to_no_fuel {A} (s : list A) hi : slice_to s hi <> OutOfFuel.
Proof. unfold slice_to. destruct ((0 <=? hi) && (hi <=? zlen s))%Z; discriminate. Qed.

(* ================================================================== *)
(* 1b. the paging slices of the memory backend                          *)
(* ================================================================== *)

Lemma zlen_skipn {A} (s : list A) k : (k <= length s)%nat -> zlen (skipn k s) = (zlen s - Z.of_nat k)%Z.
Proof. intro H. unfold zlen. rewrite skipn_length. lia. Qed.

(* memory.go read() as repaired: the exact precondition.  The only panic left is a negative page
   size (together with a non-negative offset), which the command layer cannot produce. *)
Theorem no_panic_iff {A} (matches : list A) (from to : Z) :
  page_slice matches from to <> Panic <-> (from < 0 \/ 0 <= to)%Z.
Proof.
  unfold page_slice. pose proof (zlen_nonneg matches) as Hn.
  destruct (from <? 0)%Z eqn:Ef; [split; [intros _; lia | intros _ H; discriminate H]|].
  set (from' := Z.min from (zlen matches)).
  rewrite slice_from_ok by (unfold from'; lia). cbn [bind].
  set (m := skipn (Z.to_nat from') matches). pose proof (zlen_nonneg m) as Hm.
  destruct (negb (to =? 0) && (to <? zlen m))%Z eqn:Et.
  - destruct (Z.ltb to 0) eqn:Etn.
    + unfold slice_to. replace ((0 <=? to) && (to <=? zlen m))%Z with false by lia.
      simpl. split; [intro H; exfalso; apply H; reflexivity | lia].
    + rewrite slice_to_ok by lia. simpl. split; [lia | intros _ H; discriminate H].
  - split; [intros _; lia | intros _ H; discriminate H].
Qed.

Theorem page_slice_no_fuel {A} (matches : list A) from to : page_slice matches from to <> OutOfFuel.
Proof.
  unfold page_slice. destruct (from <? 0)%Z; [discriminate|].
  unfold slice_from. destruct ((0 <=? _) && _)%Z; cbn [bind]; [|discriminate].
  destruct (negb (to =? 0) && _)%Z; [|discriminate].
  unfold slice_to. destruct ((0 <=? to) && _)%Z; discriminate.
Qed.

(* a negative offset is rejected before any slicing *)
Theorem page_slice_negative_offset {A} (matches : list A) from to :
  (from < 0)%Z -> page_slice matches from to = Ok None.
Proof. intro H. unfold page_slice. replace (from <? 0)%Z with true by lia. reflexivity. Qed.

(* what the page is when the offset is inside the listing *)
Theorem page_slice_in_range {A} (matches : list A) from to :
  (0 <= from <= zlen matches)%Z -> (0 < to)%Z ->
  page_slice matches from to =
  Ok (Some (firstn (Z.to_nat to) (skipn (Z.to_nat from) matches),
            if (to <? zlen matches - from)%Z then Some (Paging.wrap64 (from + to)) else None)).
Proof.
  intros Hf Ht. unfold page_slice.
  replace (from <? 0)%Z with false by lia.
  replace (Z.min from (zlen matches)) with from by lia.
  rewrite slice_from_ok by lia. cbn [bind].
  assert (Hl : zlen (skipn (Z.to_nat from) matches) = (zlen matches - from)%Z)
    by (rewrite zlen_skipn; unfold zlen in *; lia).
  rewrite Hl.
  destruct (to <? zlen matches - from)%Z eqn:E.
  - replace (negb (to =? 0))%Z with true by lia. cbn [andb].
    rewrite slice_to_ok by lia. reflexivity.
  - replace (negb (to =? 0) && false)%Z with false by (destruct (negb (to =? 0)%Z); reflexivity).
    f_equal. f_equal. f_equal. symmetry. apply firstn_all2. unfold zlen in *. lia.
Qed.

(* an offset beyond the end is the empty last page (it used to restart from the first page) *)
Theorem page_slice_beyond_end {A} (matches : list A) from to :
  (zlen matches < from)%Z -> (0 <= to)%Z -> page_slice matches from to = Ok (Some ([], None)).
Proof.
  intros Hf Ht. unfold page_slice. pose proof (zlen_nonneg matches) as Hn.
  replace (from <? 0)%Z with false by lia.
  replace (Z.min from (zlen matches)) with (zlen matches) by lia.
  rewrite slice_from_ok by lia. cbn [bind].
  assert (He : skipn (Z.to_nat (zlen matches)) matches = []) by (unfold zlen; rewrite Nat2Z.id; apply skipn_all).
  rewrite He.
  replace (negb (to =? 0) && (to <? zlen (@nil A)))%Z with false by (unfold zlen; cbn [length]; lia).
  reflexivity.
Qed.

(* the clamped slices of ReadAuthorizationModels / ListStores never panic, whatever the token
   offset and the page size *)
Theorem no_panic_page_clamped {A} (rows : list A) (from ps : Z) :
  exists r, page_clamped rows from ps = Ok r.
Proof.
  unfold page_clamped. pose proof (zlen_nonneg rows) as Hn.
  set (page_size := if (0 <? ps)%Z then ps else 50%Z).
  assert (Hp : (0 < page_size)%Z) by (unfold page_size; destruct (0 <? ps)%Z eqn:E; lia).
  rewrite slice_from_to_ok by lia. cbn [bind]. eexists. reflexivity.
Qed.

Theorem no_panic_changes_slice {A} (all : list A) (ps : Z) :
  exists r, changes_slice all ps = Ok r.
Proof.
  unfold changes_slice. pose proof (zlen_nonneg all) as Hn.
  set (page_size := if (0 <? ps)%Z then ps else 50%Z).
  assert (Hp : (0 < page_size)%Z) by (unfold page_size; destruct (0 <? ps)%Z eqn:E; lia).
  destruct (zlen all <? page_size)%Z eqn:E; rewrite slice_to_ok by lia; eexists; reflexivity.
Qed.

(* the page size that reaches the storage layer is always positive ... *)
Lemma page_size_opt_pos ps : (0 < Z.of_N (Paging.page_size_opt ps))%Z.
Proof. unfold Paging.page_size_opt, Paging.default_page_size. destruct (0 <? ps)%Z eqn:E; lia. Qed.

(* ... so at the command level NO request makes ReadPage panic: the full-strength statement that
   finding F5 refuted holds for the repaired code, for every listing, page size and token *)
Theorem no_panic_read_request {A} (matches : list A) (req_ps : Z) (tok : bytes) :
  read_request_mem matches req_ps tok <> Panic.
Proof.
  unfold read_request_mem, read_page_mem.
  pose proof (page_size_opt_pos req_ps) as Hps.
  set (ps := Z.of_N (Paging.page_size_opt req_ps)) in *.
  assert (Hcore : forall u, match Paging.parse_from u with
                            | Some z => page_slice matches z ps
                            | None => Ok None
                            end <> Panic).
  { intro u. destruct (Paging.parse_from u) as [z|]; [|discriminate].
    apply no_panic_iff. lia. }
  destruct tok as [|c tok']; [apply (Hcore [])|].
  destruct (Paging.deserialize (c :: tok')) as [[u ty]|]; [apply Hcore | discriminate].
Qed.

(* the tokens that used to panic are answered with an error *)
Theorem read_request_rejects_negative_offset {A} (matches : list A) (req_ps : Z) (tok : bytes) :
  negative_offset_token tok = true -> read_request_mem matches req_ps tok = Ok None.
Proof.
  unfold negative_offset_token, read_request_mem, read_page_mem.
  destruct tok as [|c tok']; [discriminate|].
  destruct (Paging.deserialize (c :: tok')) as [[u ty]|]; [|discriminate].
  destruct (Paging.parse_from u) as [z|]; [|discriminate].
  intro Hz. apply page_slice_negative_offset. lia.
Qed.

(* ================================================================== *)
(* 2. PbValue.WriteTo: the explicit-stack walk                           *)
(* ================================================================== *)
Section WalkProofs.
Import KeyEnc KeyEncProofs.

Definition iframe := (path * frame)%type.
Definition erase (st : list iframe) : list frame := map snd st.

Lemma erase_app a b : erase (a ++ b) = erase a ++ erase b.
Proof. apply map_app. Qed.

Lemma erase_number {B} p i (l : list B) : map snd (number p i l) = l.
Proof. revert i. induction l as [|x l IH]; intro i; simpl; [reflexivity|]. rewrite IH. reflexivity. Qed.

Lemma number_length {B} p i (l : list B) : length (number p i l) = length l.
Proof. revert i. induction l as [|x l IH]; intro i; simpl; [reflexivity|]. rewrite IH. reflexivity. Qed.

(* (a) what a frame emits = its header followed by what its children emit *)
Lemma frame_bytes_unfold (f : frame) :
  frame_bytes f = frame_header f ++ flat_map frame_bytes (pb_children (snd f)).
Proof.
  destruct f as [k v]. unfold frame_bytes, frame_header. cbn [fst snd].
  destruct v as [ |b|s|b| |l|fs]; cbn [pb_children flat_map]; rewrite ?app_nil_r; try reflexivity.
  - rewrite enc_pb_list, flat_map_map, <- app_assoc. reflexivity.
  - rewrite enc_pb_struct, flat_map_map, <- app_assoc. f_equal.
    rewrite (Permutation_length (sort_fields_perm fs)). reflexivity.
Qed.

(* (b) sizes *)
Lemma frames_size_children v : (S (frames_size (pb_children v)) = pb_size v)%nat.
Proof.
  destruct v; try reflexivity.
  - cbn [pb_children]. rewrite frames_size_list. reflexivity.
  - cbn [pb_children]. rewrite frames_size_struct, pb_size_struct.
    rewrite (list_sum_perm _ _ (Permutation_map (fun kv => pb_size (snd kv)) (sort_fields_perm fs))).
    reflexivity.
Qed.

Lemma frames_size_cons f (st : list frame) :
  frames_size (f :: st) = (pb_size (snd f) + frames_size st)%nat.
Proof. reflexivity. Qed.

Lemma length_le_frames_size (st : list frame) : (length st <= frames_size st)%nat.
Proof.
  induction st as [|f st IH]; [apply Nat.le_refl|].
  rewrite frames_size_cons. pose proof (pb_size_pos (snd f)) as Hp. simpl. lia.
Qed.

(* (c) shapes and paths *)
Lemma shape_struct fs :
  shape (PStruct fs) = Rose (map (fun kv => shape (snd kv)) (sort_fields fs)).
Proof.
  cbn [shape]. f_equal. unfold sort_fields.
  rewrite <- (KeySortProofs.go_isort_map (fun kv : bytes * pbval => (fst kv, shape (snd kv))) kless kless);
    [|reflexivity].
  rewrite map_map. reflexivity.
Qed.

Lemma shape_children v : shape v = Rose (map (fun f => shape (snd f)) (pb_children v)).
Proof.
  destruct v; try reflexivity.
  - cbn [shape pb_children]. rewrite map_map. reflexivity.
  - rewrite shape_struct. cbn [pb_children]. rewrite map_map. reflexivity.
Qed.

Fixpoint rpaths_l (i : nat) (cs : list rose) : list path :=
  match cs with
  | [] => []
  | c :: r => map (cons i) (rpaths c) ++ rpaths_l (S i) r
  end.

Lemma rpaths_unfold cs : rpaths (Rose cs) = [] :: rpaths_l 0 cs.
Proof.
  reflexivity.
Qed.

Definition frame_paths (pf : iframe) : list path :=
  map (app (fst pf)) (rpaths (shape (snd (snd pf)))).
Definition forest_paths (st : list iframe) : list path := flat_map frame_paths st.

Lemma forest_paths_app a b : forest_paths (a ++ b) = forest_paths a ++ forest_paths b.
Proof. apply flat_map_app. Qed.

Lemma forest_paths_number p : forall (l : list frame) i,
  forest_paths (number p i l) = map (app p) (rpaths_l i (map (fun f => shape (snd f)) l)).
Proof.
  induction l as [|f l IH]; intro i; [reflexivity|].
  cbn [number map rpaths_l forest_paths flat_map]. fold (forest_paths (number p (S i) l)).
  rewrite IH, map_app. f_equal.
  unfold frame_paths. cbn [fst snd]. rewrite map_map. apply map_ext.
  intro q. rewrite <- app_assoc. reflexivity.
Qed.

Lemma frame_paths_unfold p f :
  frame_paths (p, f) = p :: forest_paths (number p 0 (pb_children (snd f))).
Proof.
  unfold frame_paths. cbn [fst snd]. rewrite (shape_children (snd f)), rpaths_unfold.
  cbn [map]. rewrite app_nil_r. f_equal. symmetry. apply forest_paths_number.
Qed.

(* (d) the generalised invariant of the loop *)
Lemma walk_i_correct fuel : forall stack acc vis maxh,
  (frames_size (erase stack) <= fuel)%nat ->
  exists m,
    walk_i fuel stack acc vis maxh =
      Some (mk_wres (acc ++ flat_map frame_bytes (erase stack)) (vis ++ forest_paths stack) m) /\
    (maxh <= m)%nat /\ (m <= Nat.max maxh (frames_size (erase stack)))%nat.
Proof.
  induction fuel as [|fu IH]; intros stack acc vis maxh Hsz.
  - destruct stack as [|[p f] st].
    + exists maxh. cbn. rewrite !app_nil_r. repeat split; lia.
    + exfalso. cbn [erase map snd] in Hsz. rewrite frames_size_cons in Hsz.
      pose proof (pb_size_pos (snd f)) as Hp. lia.
  - destruct stack as [|[p f] st].
    + exists maxh. cbn. rewrite !app_nil_r. repeat split; lia.
    + cbn [erase map snd] in Hsz. fold (erase st) in Hsz. rewrite frames_size_cons in Hsz.
      pose proof (frames_size_children (snd f)) as Hch.
      set (st' := number p 0 (pb_children (snd f)) ++ st).
      assert (Her : erase st' = pb_children (snd f) ++ erase st).
      { unfold st'. rewrite erase_app. unfold erase at 1. rewrite erase_number. reflexivity. }
      assert (Hsz' : (frames_size (erase st') <= fu)%nat).
      { rewrite Her, frames_size_app. lia. }
      destruct (IH st' (acc ++ frame_header f) (vis ++ [p]) (Nat.max maxh (length st')) Hsz')
        as [m [Hw [Hlo Hhi]]].
      exists m. split; [|split].
      * cbn [walk_i]. fold st'. rewrite Hw. f_equal. f_equal.
        -- (* bytes: header ++ children ++ rest = frame_bytes f ++ rest *)
           rewrite Her. cbn [erase map snd flat_map]. fold (erase st).
           rewrite flat_map_app, (frame_bytes_unfold f), <- !app_assoc. reflexivity.
        -- (* visits *)
           cbn [forest_paths flat_map]. fold (forest_paths st).
           rewrite frame_paths_unfold. unfold st'. rewrite forest_paths_app.
           rewrite <- !app_assoc. reflexivity.
      * lia.
      * assert (Hlen : (length st' <= frames_size (erase st'))%nat).
        { rewrite <- (map_length snd st'). apply length_le_frames_size. }
        rewrite Her, frames_size_app in Hlen, Hhi.
        cbn [erase map snd]. fold (erase st). rewrite frames_size_cons.
        lia.
Qed.

(* (e) path facts *)
Section RoseInd.
  Variable P : rose -> Prop.
  Hypothesis Hrose : forall cs, Forall P cs -> P (Rose cs).
  Fixpoint rose_ind' (t : rose) : P t :=
    match t with
    | Rose cs => Hrose cs ((fix go_l (l : list rose) : Forall P l :=
                              match l with
                              | [] => Forall_nil P
                              | c :: r => Forall_cons c (rose_ind' c) (go_l r)
                              end) cs)
    end.
End RoseInd.

Lemma rpaths_l_length cs : Forall (fun t => length (rpaths t) = rsize t) cs ->
  forall i, length (rpaths_l i cs) = list_sum (map rsize cs).
Proof.
  induction 1 as [|c r Hc Hr IH]; intro i; [reflexivity|].
  cbn [rpaths_l map list_sum]. rewrite app_length, map_length, IH. unfold path in *. rewrite Hc. reflexivity.
Qed.

Theorem rpaths_length t : length (rpaths t) = rsize t.
Proof.
  induction t as [cs IH] using rose_ind'.
  rewrite rpaths_unfold. cbn [length rsize]. f_equal. apply rpaths_l_length. exact IH.
Qed.

Lemma rpaths_l_head cs : forall i q, In q (rpaths_l i cs) ->
  exists j r, q = j :: r /\ (i <= j)%nat.
Proof.
  induction cs as [|c r IH]; intros i q Hin; [destruct Hin|].
  cbn [rpaths_l] in Hin. apply in_app_or in Hin as [Hin|Hin].
  - apply in_map_iff in Hin as [r' [<- _]]. exists i, r'. split; [reflexivity|lia].
  - destruct (IH _ _ Hin) as [j [r' [-> Hle]]]. exists j, r'. split; [reflexivity|lia].
Qed.

Lemma nodup_app {X} (a b : list X) :
  NoDup a -> NoDup b -> (forall x, In x a -> In x b -> False) -> NoDup (a ++ b).
Proof.
  induction 1 as [|x a Hx Ha IH]; intros Hb Hdis; [exact Hb|].
  cbn [app]. constructor.
  - intro Hin. apply in_app_or in Hin as [Hin|Hin]; [exact (Hx Hin)|].
    apply (Hdis x); [left; reflexivity | exact Hin].
  - apply IH; [exact Hb|]. intros y Hy1 Hy2. apply (Hdis y); [right; exact Hy1 | exact Hy2].
Qed.

Lemma rpaths_l_nodup cs : Forall (fun t => NoDup (rpaths t)) cs -> forall i, NoDup (rpaths_l i cs).
Proof.
  induction 1 as [|c r Hc Hr IH]; intro i; [constructor|].
  cbn [rpaths_l]. apply nodup_app.
  - apply FinFun.Injective_map_NoDup; [|exact Hc]. intros a b Hab. injection Hab as Hab. exact Hab.
  - apply IH.
  - intros q Hq1 Hq2. apply in_map_iff in Hq1 as [r' [<- _]].
    destruct (rpaths_l_head _ _ _ Hq2) as [j [r'' [Heq Hle]]]. injection Heq as Hj _. lia.
Qed.

(* every node is listed once *)
Theorem rpaths_nodup t : NoDup (rpaths t).
Proof.
  induction t as [cs IH] using rose_ind'.
  rewrite rpaths_unfold. constructor.
  - intro Hin. destruct (rpaths_l_head _ _ _ Hin) as [j [r [Heq _]]]. discriminate Heq.
  - apply rpaths_l_nodup. exact IH.
Qed.

Lemma rsize_shape v : rsize (shape v) = pb_size v.
Proof.
  induction v as [ | | | | |l IH|fs IH] using pbval_ind'; try reflexivity.
  - cbn [shape rsize pb_size]. f_equal. rewrite map_map. f_equal.
    induction IH as [|x l Hx Hl IHl]; [reflexivity|]. cbn [map]. rewrite Hx, IHl. reflexivity.
  - rewrite shape_struct, pb_size_struct. cbn [rsize]. f_equal. rewrite map_map.
    rewrite <- (list_sum_perm _ _ (Permutation_map (fun kv => pb_size (snd kv)) (sort_fields_perm fs))).
    f_equal.
    assert (Hs : Forall (fun kv => rsize (shape (snd kv)) = pb_size (snd kv)) (sort_fields fs)).
    { apply Forall_forall. intros kv Hin. rewrite Forall_forall in IH. apply IH.
      apply (Permutation_in _ (sort_fields_perm fs)). exact Hin. }
    induction Hs as [|x l Hx Hl IHl]; [reflexivity|]. cbn [map]. rewrite Hx, IHl. reflexivity.
Qed.

(* (f) the theorems about WriteTo *)

(* the walk never runs out of the model's fuel (= node count), for every value *)
Theorem no_panic_pb_write v : exists r, pb_write_i v = Ok r.
Proof.
  unfold pb_write_i.
  destruct (walk_i_correct (pb_size v) [([], (None, v))] [] [] 1%nat) as [m [Hw _]].
  - cbn. lia.
  - rewrite Hw. eexists. reflexivity.
Qed.

(* the emitted bytes are the recursive specification of C24 *)
Theorem walk_eq_recursive v r : pb_write_i v = Ok r -> wr_bytes r = enc_pb v.
Proof.
  unfold pb_write_i.
  destruct (walk_i_correct (pb_size v) [([], (None, v))] [] [] 1%nat) as [m [Hw _]]; [cbn; lia|].
  rewrite Hw. intro H. injection H as <-. cbn [wr_bytes erase map snd flat_map].
  unfold frame_bytes. cbn [fst snd]. rewrite app_nil_r. reflexivity.
Qed.

(* hence the instrumented walk emits what C24's model of the same loop (KeyEnc.pb_walk, tied to the
   code byte for byte by the C24 run) emits *)
Theorem walk_agrees_with_c24 v r : pb_write_i v = Ok r -> pb_write_outcome v = Bytes (wr_bytes r).
Proof. intro H. rewrite (walk_eq_recursive v r H). apply pb_write_total. Qed.

(* the nodes are popped in pre-order, each exactly once *)
Theorem walk_visits_each_node_once v r : pb_write_i v = Ok r ->
  wr_visits r = rpaths (shape v) /\ NoDup (wr_visits r) /\ length (wr_visits r) = pb_size v.
Proof.
  unfold pb_write_i.
  destruct (walk_i_correct (pb_size v) [([], (None, v))] [] [] 1%nat) as [m [Hw _]]; [cbn; lia|].
  rewrite Hw. intro H. injection H as <-. cbn [wr_visits app forest_paths flat_map].
  rewrite app_nil_r. unfold frame_paths. cbn [fst snd].
  assert (Hid : map (app (@nil nat)) (rpaths (shape v)) = rpaths (shape v)).
  { rewrite <- (map_id (rpaths (shape v))) at 2. apply map_ext. reflexivity. }
  rewrite Hid. split; [reflexivity|]. split; [apply rpaths_nodup|].
  rewrite rpaths_length. apply rsize_shape.
Qed.

(* the Go slice `stack` never holds more frames than the value has nodes *)
Theorem stack_height_le_nodes v r : pb_write_i v = Ok r -> (1 <= wr_maxh r <= pb_size v)%nat.
Proof.
  unfold pb_write_i.
  destruct (walk_i_correct (pb_size v) [([], (None, v))] [] [] 1%nat) as [m [Hw [Hlo Hhi]]]; [cbn; lia|].
  rewrite Hw. intro H. injection H as <-. cbn [wr_maxh].
  cbn [erase map snd] in Hhi. rewrite frames_size_cons in Hhi. cbn [snd] in Hhi.
  change (frames_size []) with 0%nat in Hhi.
  pose proof (pb_size_pos v) as Hp. lia.
Qed.

(* non-vacuity of the stack bound: a flat list reaches the bound minus one, a chain stays at 1 *)
Example stack_height_reached :
  option_map wr_maxh (match pb_write_i (PList [PNull; PNull; PNull; PNull]) with Ok r => Some r | _ => None end)
  = Some 4%nat /\
  option_map wr_maxh (match pb_write_i (PList [PList [PList [PList [PNull]]]]) with Ok r => Some r | _ => None end)
  = Some 1%nat.
Proof. split; vm_compute; reflexivity. Qed.
End WalkProofs.

(* ================================================================== *)
(* 3. depth-guarded and structural recursion                            *)
(* ================================================================== *)

Section DepthGuardProofs.
  Context {A R : Type}.
  Variable limit : nat.
  Variable too_deep : R.
  Variable body : (A -> go R) -> A -> go R.
  (* an activation has no other source of divergence than its nested calls: if every nested call
     returns (a value or a panic), the activation returns *)
  Hypothesis body_returns : forall self a,
    (forall a', self a' <> OutOfFuel) -> body self a <> OutOfFuel.

  (* A recursion that checks `depth >= limit` at entry and passes depth+1 to its nested calls
     never has more than limit - depth + 1 activations on the stack: that much fuel (fuel is
     handed down, not threaded, so it counts nesting, not the number of calls) always suffices,
     for every argument and every body. *)
  Theorem depth_guarded_recursion_terminates : forall fuel depth a,
    (limit - depth < fuel)%nat -> guarded limit too_deep body fuel depth a <> OutOfFuel.
  Proof.
    induction fuel as [|f IH]; intros depth a Hf; [lia|].
    cbn [guarded]. destruct (Nat.leb limit depth) eqn:El; [discriminate|].
    apply Nat.leb_gt in El. apply body_returns. intro a'. apply IH. lia.
  Qed.

  (* at the limit the guard answers without running the body *)
  Theorem depth_guard_fires : forall fuel depth a, (limit <= depth)%nat ->
    guarded limit too_deep body (S fuel) depth a = Ok too_deep.
  Proof.
    intros fuel depth a H. cbn [guarded]. apply Nat.leb_le in H. rewrite H. reflexivity.
  Qed.
End DepthGuardProofs.

Section DepthGuardExt.
  Context {A R : Type}.
  Variable limit : nat.
  Variable too_deep : R.
  Variable body : (A -> go R) -> A -> go R.
  (* with enough fuel the answer does not depend on the fuel: the model's budget is not observable *)
  Hypothesis body_ext : forall s1 s2 a, (forall a', s1 a' = s2 a') -> body s1 a = body s2 a.

  Theorem depth_guarded_fuel_irrelevant : forall f1 f2 depth a,
    (limit - depth < f1)%nat -> (limit - depth < f2)%nat ->
    guarded limit too_deep body f1 depth a = guarded limit too_deep body f2 depth a.
  Proof.
    induction f1 as [|f1 IH]; intros f2 depth a H1 H2; [lia|].
    destruct f2 as [|f2]; [lia|].
    cbn [guarded]. destruct (Nat.leb limit depth) eqn:El; [reflexivity|].
    apply Nat.leb_gt in El. apply body_ext. intro a'. apply IH; lia.
  Qed.

End DepthGuardExt.

(* non-vacuity: a body that always recurses twice (an infinite binary call tree without the guard)
   returns with fuel limit+1 *)
Example depth_guard_example :
  guarded 25 0%nat (fun self (a : nat) => bind (self (S a)) (fun x => bind (self (a + 2)%nat) (fun y => Ok (x + y)%nat)))
          26 22 0%nat = Ok 0%nat.
Proof. vm_compute. reflexivity. Qed.

(* structural recursion over a nested message: the number of simultaneously active calls is the
   nesting depth, and the nesting depth is bounded by half the wire size *)
Lemma fold_max_le (cs : list rose) c : In c cs ->
  (rdepth c <= fold_right (fun c d => Nat.max (rdepth c) d) 0 cs)%nat.
Proof.
  induction cs as [|x cs IH]; intro Hin; [destruct Hin|].
  cbn [fold_right]. destruct Hin as [->|Hin]; [lia|]. specialize (IH Hin). lia.
Qed.

Theorem struct_walk_depth : forall fuel t, (rdepth t <= fuel)%nat ->
  struct_walk fuel t = Ok (rdepth t).
Proof.
  induction fuel as [|f IH]; intros [cs] Hd; [cbn [rdepth] in Hd; lia|].
  cbn [struct_walk rdepth].
  assert (Hall : forall c, In c cs -> (rdepth c <= f)%nat).
  { intros c Hin. pose proof (fold_max_le cs c Hin) as Hle. cbn [rdepth] in Hd. lia. }
  assert (Hfold : fold_right (fun c acc => bind (struct_walk f c) (fun d => bind acc (fun e => Ok (Nat.max d e))))
                             (Ok 0%nat) cs
                  = Ok (fold_right (fun c d => Nat.max (rdepth c) d) 0%nat cs)).
  { clear Hd. induction cs as [|c cs IHcs]; [reflexivity|].
    cbn [fold_right]. rewrite IHcs by (intros c' Hc'; apply Hall; right; exact Hc').
    rewrite IH by (apply Hall; left; reflexivity). reflexivity. }
  rewrite Hfold. reflexivity.
Qed.

Theorem nesting_le_half_wire_size t : (2 * (rdepth t - 1) <= wire_min t)%nat.
Proof.
  induction t as [cs IH] using rose_ind'.
  cbn [rdepth wire_min]. rewrite Nat.sub_succ, Nat.sub_0_r.
  induction IH as [|c cs Hc Hcs IHcs]; [cbn; lia|].
  cbn [fold_right]. destruct c as [cs']. cbn [rdepth] in *. rewrite Nat.sub_succ, Nat.sub_0_r in Hc.
  lia.
Qed.

(* the two together: a structural recursion over a message of at most [n] wire bytes returns
   with fuel n/2 + 1, i.e. it never nests deeper than that *)
Theorem no_panic_struct_walk t n : (wire_min t <= n)%nat ->
  struct_walk (S (n / 2)) t = Ok (rdepth t) /\ (rdepth t <= S (n / 2))%nat.
Proof.
  intro Hn. pose proof (nesting_le_half_wire_size t) as Hw.
  assert (Hd : (rdepth t <= S (n / 2))%nat).
  { assert (rdepth t - 1 <= n / 2)%nat by (apply Nat.div_le_lower_bound; lia). lia. }
  split; [apply struct_walk_depth; exact Hd | exact Hd].
Qed.

Example nesting_example :
  let t := Rose [Rose [Rose []; Rose [Rose []]]] in
  rdepth t = 4%nat /\ wire_min t = 8%nat /\ struct_walk 4 t = Ok 4%nat /\ struct_walk 3 t = OutOfFuel.
Proof. vm_compute. repeat split; reflexivity. Qed.

(* ================================================================== *)
(* 4. pkg/tuple string splitting with its index arithmetic              *)
(* ================================================================== *)
Section TupleProofs.
Import TupleStr.

Lemma index_byte_range c s : (-1 <= index_byte c s < zlen s)%Z \/ (s = [] /\ index_byte c s = (-1)%Z).
Proof.
  induction s as [|x s IH]; [right; split; reflexivity|]. left.
  cbn [index_byte]. unfold zlen in *. cbn [length].
  destruct (x =? c); [lia|].
  destruct (index_byte c s <? 0)%Z eqn:E; destruct IH as [IH|[-> IH]]; cbn [length] in *; lia.
Qed.

Lemma index_byte_cut c s :
  match cut c s with
  | Some (a, b) => index_byte c s = zlen a
  | None => index_byte c s = (-1)%Z
  end.
Proof.
  induction s as [|x s IH]; [reflexivity|].
  cbn [cut index_byte]. destruct (x =? c) eqn:E; [reflexivity|].
  destruct (cut c s) as [[a b]|].
  - rewrite IH. unfold zlen. cbn [length]. replace (Z.of_nat (length a) <? 0)%Z with false by lia. lia.
  - rewrite IH. reflexivity.
Qed.

Lemma last_index_byte_cut c s :
  match cut_last c s with
  | Some (a, b) => last_index_byte c s = zlen a
  | None => last_index_byte c s = (-1)%Z
  end.
Proof.
  induction s as [|x s IH]; [reflexivity|].
  cbn [cut_last last_index_byte]. destruct (cut_last c s) as [[a b]|].
  - rewrite IH. unfold zlen. cbn [length]. replace (0 <=? Z.of_nat (length a))%Z with true by lia. lia.
  - rewrite IH. cbn. destruct (x =? c); reflexivity.
Qed.

Lemma firstn_app_exact {X} (a b : list X) : firstn (length a) (a ++ b) = a.
Proof. rewrite firstn_app, Nat.sub_diag, firstn_all. cbn. apply app_nil_r. Qed.

Lemma skipn_app_exact {X} (a b : list X) : skipn (length a) (a ++ b) = b.
Proof. rewrite skipn_app, Nat.sub_diag, skipn_all. reflexivity. Qed.

(* SplitObject never panics, on any byte string, and is the function C29 reasons about *)
Theorem no_panic_split_object s : split_object_go s = Ok (split_object s).
Proof.
  unfold split_object_go, split_object.
  pose proof (index_byte_cut c_colon s) as Hi.
  destruct (cut c_colon s) as [[a b]|] eqn:Ec.
  - apply cut_some in Ec as [-> _]. rewrite Hi.
    replace (zlen a =? -1)%Z with false by (unfold zlen; lia).
    rewrite slice_from_to_ok by (unfold zlen; rewrite ?app_length; cbn [length]; lia).
    cbn [bind]. rewrite slice_from_ok by (unfold zlen; rewrite ?app_length; cbn [length]; lia).
    cbn [bind]. unfold zlen. rewrite Z.sub_0_r, Nat2Z.id. cbn [skipn Z.to_nat].
    rewrite firstn_app_exact.
    replace (Z.to_nat (Z.of_nat (length a) + 1)) with (length (a ++ [c_colon])) by (rewrite app_length; cbn; lia).
    replace (a ++ c_colon :: b) with ((a ++ [c_colon]) ++ b) by (rewrite <- app_assoc; reflexivity).
    rewrite skipn_app_exact. reflexivity.
  - rewrite Hi. reflexivity.
Qed.

(* SplitObjectRelation never panics *)
Theorem no_panic_split_object_relation s : split_object_relation_go s = Ok (split_object_relation s).
Proof.
  unfold split_object_relation_go, split_object_relation.
  pose proof (last_index_byte_cut c_hash s) as Hi.
  destruct (cut_last c_hash s) as [[a b]|] eqn:Ec.
  - apply cut_last_some in Ec as [-> _]. rewrite Hi.
    replace (zlen a =? -1)%Z with false by (unfold zlen; lia).
    assert (Hf : slice_from_to (a ++ c_hash :: b) 0 (zlen a) = Ok a).
    { rewrite slice_from_to_ok by (unfold zlen; rewrite ?app_length; cbn [length]; lia).
      unfold zlen. rewrite Z.sub_0_r, Nat2Z.id. cbn [skipn Z.to_nat]. rewrite firstn_app_exact. reflexivity. }
    rewrite Hf. cbn [bind].
    destruct (zlen a =? zlen (a ++ c_hash :: b) - 1)%Z eqn:El.
    + (* trailing '#': empty relation *)
      assert (b = []) as ->.
      { unfold zlen in El. rewrite app_length in El. cbn [length] in El.
        destruct b; [reflexivity|]. cbn [length] in El. lia. }
      reflexivity.
    + rewrite slice_from_ok by (unfold zlen; rewrite ?app_length; cbn [length]; lia).
      cbn [bind]. unfold zlen.
      replace (Z.to_nat (Z.of_nat (length a) + 1)) with (length (a ++ [c_hash])) by (rewrite app_length; cbn; lia).
      replace (a ++ c_hash :: b) with ((a ++ [c_hash]) ++ b) by (rewrite <- app_assoc; reflexivity).
      rewrite skipn_app_exact. reflexivity.
  - rewrite Hi. reflexivity.
Qed.

Theorem no_panic_to_user_parts u : to_user_parts_go u = Ok (to_user_parts u).
Proof.
  unfold to_user_parts_go, to_user_parts. rewrite no_panic_split_object_relation. cbn [bind].
  destruct (split_object_relation u) as [o r]. rewrite no_panic_split_object. cbn [bind].
  destruct (split_object o) as [t id]. reflexivity.
Qed.

(* FromUserParts: the buffer is always pre ++ zeros with w = len(pre) *)
Lemma zlen_app {X} (a b : list X) : zlen (a ++ b) = (zlen a + zlen b)%Z.
Proof. unfold zlen. rewrite app_length. lia. Qed.
Lemma zlen_repeat {X} (x : X) k : zlen (repeat x k) = Z.of_nat k.
Proof. unfold zlen. rewrite repeat_length. reflexivity. Qed.

Lemma set_nth_app {X} (pre : list X) y rest x :
  set_nth (pre ++ y :: rest) (length pre) x = pre ++ x :: rest.
Proof. induction pre as [|p pre IH]; [reflexivity|]. cbn [app length set_nth]. rewrite IH. reflexivity. Qed.

Lemma set_at_buf (pre : bytes) k x :
  set_at (pre ++ repeat 0 (S k)) (zlen pre) x = Ok (pre ++ x :: repeat 0 k).
Proof.
  unfold set_at. rewrite zlen_app, zlen_repeat.
  replace ((0 <=? zlen pre) && (zlen pre <? zlen pre + Z.of_nat (S k)))%Z with true by (unfold zlen; lia).
  unfold zlen. rewrite Nat2Z.id. cbn [repeat]. rewrite set_nth_app. reflexivity.
Qed.

Lemma copy_at_buf (pre : bytes) k (src : bytes) : (length src <= k)%nat ->
  copy_at (pre ++ repeat 0 k) (zlen pre) src =
  Ok ((pre ++ src) ++ repeat 0 (k - length src), zlen (pre ++ src)).
Proof.
  intro Hk. unfold copy_at.
  rewrite slice_from_ok by (rewrite zlen_app, zlen_repeat; unfold zlen; lia).
  cbn [bind]. unfold zlen at 1 2. rewrite Nat2Z.id, skipn_app_exact, firstn_app_exact.
  unfold copy_into. rewrite repeat_length.
  replace (Nat.min k (length src)) with (length src) by lia.
  rewrite firstn_all.
  assert (Hs : skipn (length src) (repeat 0 k) = repeat 0 (k - length src)).
  { replace k with (length src + (k - length src))%nat at 1 by lia.
    rewrite repeat_app. rewrite <- (repeat_length 0 (length src)) at 1. apply skipn_app_exact. }
  rewrite Hs, <- app_assoc. f_equal. f_equal. rewrite zlen_app. unfold zlen. lia.
Qed.

Lemma slice_to_buf (pre : bytes) k : slice_to (pre ++ repeat 0 k) (zlen pre) = Ok pre.
Proof.
  rewrite slice_to_ok by (rewrite zlen_app, zlen_repeat; unfold zlen; lia).
  unfold zlen. rewrite Nat2Z.id, firstn_app_exact. reflexivity.
Qed.

(* FromUserParts never panics: every buf[w] write and every buf[w:] slice is inside the buffer,
   for all three strings; the result is the function C29 reasons about *)
Theorem no_panic_from_user_parts t id r : from_user_parts_go t id r = Ok (from_user_parts t id r).
Proof.
  unfold from_user_parts_go, from_user_parts.
  set (size := (zlen t + zlen id + zlen r + 2)%Z).
  assert (Hsz : Z.to_nat size = (length t + length id + length r + 2)%nat) by (unfold size, zlen; lia).
  rewrite Hsz. unfold copy_into at 1. rewrite repeat_length.
  replace (Nat.min (length t + length id + length r + 2) (length t)) with (length t) by lia.
  rewrite firstn_all.
  assert (Hs0 : skipn (length t) (repeat 0 (length t + length id + length r + 2))
                = repeat 0 (length id + length r + 2)).
  { replace (length t + length id + length r + 2)%nat with (length t + (length id + length r + 2))%nat by lia.
    rewrite repeat_app. rewrite <- (repeat_length 0 (length t)) at 1. apply skipn_app_exact. }
  rewrite Hs0. fold (zlen t).
  destruct t as [|c t'].
  - (* no type: no ':' *)
    cbn [zlen length Z.of_nat Z.ltb andb bind app].
    replace ((0 <? 0) && (0 <? size))%Z with false by reflexivity. cbn [bind].
    pose proof (copy_at_buf [] (length id + length r + 2) id) as Hc. cbn [app zlen length Z.of_nat] in Hc.
    rewrite Hc by lia. cbn [bind]. clear Hc.
    destruct r as [|d r'].
    + replace (0 <? zlen (@nil N))%Z with false by reflexivity. cbn [bind]. rewrite slice_to_buf. rewrite !app_nil_r. reflexivity.
    + replace (0 <? zlen (d :: r'))%Z with true by (unfold zlen; cbn [length]; lia).
      replace (length id + length (d :: r') + 2 - length id)%nat with (S (length (d :: r') + 1)) by lia.
      rewrite set_at_buf. cbn [bind].
      replace (id ++ c_hash :: repeat 0 (length (d :: r') + 1)) with ((id ++ [c_hash]) ++ repeat 0 (length (d :: r') + 1))
        by (rewrite <- app_assoc; reflexivity).
      replace (zlen id + 1)%Z with (zlen (id ++ [c_hash])) by (rewrite zlen_app; reflexivity).
      rewrite copy_at_buf by lia. cbn [bind]. rewrite slice_to_buf.
      rewrite <- !app_assoc. reflexivity.
  - replace ((0 <? zlen (c :: t')) && (zlen (c :: t') <? size))%Z with true by (unfold size, zlen; cbn [length]; lia).
    replace (length id + length r + 2)%nat with (S (length id + length r + 1)) by lia.
    rewrite set_at_buf. cbn [bind].
    set (pre := (c :: t') ++ [c_colon]).
    replace ((c :: t') ++ c_colon :: repeat 0 (length id + length r + 1)) with (pre ++ repeat 0 (length id + length r + 1))
      by (unfold pre; rewrite <- app_assoc; reflexivity).
    replace (zlen (c :: t') + 1)%Z with (zlen pre) by (unfold pre; rewrite zlen_app; reflexivity).
    rewrite copy_at_buf by lia. cbn [bind].
    destruct r as [|d r'].
    + replace (0 <? zlen (@nil N))%Z with false by reflexivity. cbn [bind]. rewrite slice_to_buf. unfold pre. rewrite !app_nil_r. reflexivity.
    + replace (0 <? zlen (d :: r'))%Z with true by (unfold zlen; cbn [length]; lia).
      replace (length id + length (d :: r') + 1 - length id)%nat with (S (length (d :: r'))) by lia.
      rewrite set_at_buf. cbn [bind].
      replace ((pre ++ id) ++ c_hash :: repeat 0 (length (d :: r')))
        with (((pre ++ id) ++ [c_hash]) ++ repeat 0 (length (d :: r'))) by (rewrite <- !app_assoc; reflexivity).
      replace (zlen (pre ++ id) + 1)%Z with (zlen ((pre ++ id) ++ [c_hash])) by (rewrite (zlen_app (pre ++ id)); reflexivity).
      rewrite copy_at_buf by lia. cbn [bind]. rewrite slice_to_buf.
      unfold pre. rewrite <- !app_assoc. reflexivity.
Qed.

(* the rune decoder (for _, c := range s) never reads past the end of the string: the width it
   reports, minus the lead byte, fits in what is left (C29, Codec/TupleStrProofs.v) *)
Theorem no_oob_rune_decode b0 rest :
  (1 <= snd (Utf8.decode1 b0 rest) <= S (length rest))%nat.
Proof.
  pose proof (TupleStrProofs.decode1_width_le b0 rest) as H1.
  pose proof (Utf8.decode1_width_pos b0 rest) as H2. lia.
Qed.
End TupleProofs.

(* ================================================================== *)
(* 5. hasCycle: the number of calls                                     *)
(* ================================================================== *)

Lemma diamond_length n : length (diamond n) = S n.
Proof. unfold diamond. rewrite app_length, map_length, seq_length. cbn. lia. Qed.

Lemma diamond_nth_inner n i : (i < n)%nat ->
  nth_error (diamond n) i = Some (RNode [RComputed (N.of_nat (S i)); RComputed (N.of_nat (S i))]).
Proof.
  intro H. unfold diamond. rewrite nth_error_app1 by (rewrite map_length, seq_length; exact H).
  rewrite nth_error_map. rewrite (nth_error_nth' _ 0%nat) by (rewrite seq_length; exact H).
  rewrite seq_nth by exact H. reflexivity.
Qed.

Lemma diamond_nth_last n : nth_error (diamond n) n = Some RThis.
Proof.
  unfold diamond. rewrite nth_error_app2 by (rewrite map_length, seq_length; lia).
  rewrite map_length, seq_length, Nat.sub_diag. reflexivity.
Qed.

Lemma diamond_calls_pos k : 1 <= diamond_calls k.
Proof. destruct k; cbn [diamond_calls]; lia. Qed.

Lemma existsb_eqb_false x l : (forall y, In y l -> y < x) -> existsb (N.eqb x) l = false.
Proof.
  intro H. induction l as [|y l IH]; [reflexivity|].
  cbn [existsb]. rewrite IH by (intros z Hz; apply H; right; exact Hz).
  assert (y < x) by (apply H; left; reflexivity).
  replace (N.eqb x y) with false by lia. reflexivity.
Qed.

(* the walk from e_{n-k}: exactly diamond_calls k calls, for every budget that allows them *)
Lemma has_cycle_diamond n : forall k, (k <= n)%nat ->
  forall fuel visited b r,
    (2 * k + 1 <= fuel)%nat -> diamond_calls k <= b ->
    (forall y, In y visited -> y < N.of_nat (n - k)) ->
    nth_error (diamond n) (n - k) = Some r ->
    has_cycle fuel (diamond n) (N.of_nat (n - k)) r visited b = (HNo, b - diamond_calls k).
Proof.
  induction k as [|k IH]; intros Hk fuel visited b r Hf Hb Hv Hr.
  - rewrite Nat.sub_0_r in Hr. rewrite diamond_nth_last in Hr. injection Hr as <-.
    destruct fuel as [|f]; [lia|]. cbn [has_cycle diamond_calls] in *.
    replace (b =? 0) with false by lia. reflexivity.
  - assert (Hi : (n - S k < n)%nat) by lia.
    rewrite (diamond_nth_inner n _ Hi) in Hr. injection Hr as <-.
    replace (S (n - S k)) with (n - k)%nat by lia.
    pose proof (diamond_calls_pos k) as Hpos.
    cbn [diamond_calls] in Hb.
    destruct fuel as [|f]; [lia|]. cbn [has_cycle].
    replace (b =? 0) with false by lia.
    change (N.pos (Pos.of_succ_nat (n - S k))) with (N.of_nat (S (n - S k))).
    replace (S (n - S k)) with (n - k)%nat by lia.
    (* the two children are the same computed userset *)
    assert (Hchild : forall b', 1 + diamond_calls k <= b' ->
              has_cycle f (diamond n) (N.of_nat (n - S k)) (RComputed (N.of_nat (n - k)))
                        (N.of_nat (n - S k) :: visited) b'
              = (HNo, b' - 1 - diamond_calls k)).
    { intros b' Hb'. destruct f as [|f']; [lia|]. cbn [has_cycle].
      replace (b' =? 0) with false by lia.
      rewrite existsb_eqb_false.
      2:{ intros y [<-|[<-|Hy]]; [lia|lia|]. specialize (Hv y Hy). lia. }
      rewrite Nat2N.id.
      destruct (nth_error (diamond n) (n - k)) as [r'|] eqn:En.
      2:{ exfalso. apply nth_error_None in En. rewrite diamond_length in En. lia. }
      rewrite (IH ltac:(lia) f' _ (b' - 1) r'); [reflexivity | lia | lia | | reflexivity].
      intros y [<-|[<-|Hy]]; [lia|lia|]. specialize (Hv y Hy). lia. }
    rewrite Hchild by lia. rewrite Hchild by lia.
    f_equal. cbn [diamond_calls]. lia.
Qed.

(* THE FULL-STRENGTH STATEMENT one wants of a validator is that its cost is bounded by a
   polynomial in the size of the model.  For hasCycle as coded it is false: the valid model
   [diamond n] has n+1 relations and 3n+1 rewrite nodes, and validating its first relation
   alone takes 2^(n+2) - 3 calls. *)
Theorem hascycle_calls_diamond n b : diamond_calls n <= b ->
  has_cycle (2 * n + 1) (diamond n) 0 (RNode [RComputed 1; RComputed 1]) [] b
  = (HNo, b - diamond_calls n) \/ n = 0%nat.
Proof.
  intro Hb. destruct n as [|n']; [right; reflexivity|left].
  pose proof (has_cycle_diamond (S n') (S n') (Nat.le_refl _) (2 * S n' + 1) [] b
                                (RNode [RComputed 1; RComputed 1])) as H.
  rewrite Nat.sub_diag in H. apply H; [lia | exact Hb | intros y [] |].
  apply (diamond_nth_inner (S n') 0). lia.
Qed.

Lemma diamond_calls_closed k : diamond_calls k = 2 ^ (N.of_nat k + 2) - 3.
Proof.
  induction k as [|k IH]; [reflexivity|].
  cbn [diamond_calls]. rewrite IH.
  replace (N.of_nat (S k) + 2) with (N.succ (N.of_nat k + 2)) by lia.
  rewrite N.pow_succ_r by lia.
  assert (4 <= 2 ^ (N.of_nat k + 2)).
  { rewrite N.pow_add_r. change (2 ^ 2) with 4. pose proof (N.pow_nonzero 2 (N.of_nat k)). lia. }
  lia.
Qed.

Theorem diamond_calls_exponential k : 2 ^ N.of_nat k <= diamond_calls k.
Proof.
  rewrite diamond_calls_closed, N.pow_add_r. change (2 ^ 2) with 4.
  pose proof (N.pow_nonzero 2 (N.of_nat k)). lia.
Qed.

Lemma list_sum_map_const {X} (f : X -> nat) c l : (forall x, f x = c) ->
  list_sum (map f l) = (c * length l)%nat.
Proof.
  intro H. induction l as [|x l IH]; [simpl; lia|].
  simpl. rewrite IH, H. lia.
Qed.

Lemma diamond_nodes n : list_sum (map rw_nodes (diamond n)) = (3 * n + 1)%nat.
Proof.
  unfold diamond. rewrite map_app, list_sum_app, map_map.
  rewrite (list_sum_map_const _ 3) by reflexivity. rewrite seq_length. simpl. lia.
Qed.

(* a concrete witness: 19 relations, 55 rewrite nodes, more than 100000 calls *)
Theorem model_validation_cost_refuted :
  exists tab : reltab,
    length tab = 19%nat /\ list_sum (map rw_nodes tab) = 55%nat /\
    fst (model_cost 100 [tab] 100000) = HBudget.
Proof. exists (diamond 18). repeat split; vm_compute; reflexivity. Qed.

(* ================================================================== *)
(* 6. recovery of panics raised below the handlers                      *)
(* ================================================================== *)

(* RecoverFromPanic never panics itself, whatever the panic value *)
Theorem recover_never_repanics (v : pvalue) : recover_to_error v <> Panic.
Proof. discriminate. Qed.

(* the r.(error) variant does, exactly for the values that are not errors *)
Theorem recover_assert_variant_repanics_iff (v : pvalue) :
  recover_to_error_assert v = Panic <-> implements_error v = false.
Proof. unfold recover_to_error_assert. destruct (implements_error v); split; congruence. Qed.

Theorem recover_never_repanics_assert_variant_refuted : exists v, recover_to_error_assert v = Panic.
Proof. exists PVString. reflexivity. Qed.

(* a pipeline worker turns every panic into an error ... *)
Theorem pipeline_worker_captures_every_panic (v : pvalue) : fate_of SPipeline v = FError.
Proof. reflexivity. Qed.

(* ... with the variant, a string or struct panic kills the process *)
Theorem pipeline_worker_captures_every_panic_assert_variant_refuted :
  exists v, fate_of_assert_variant SPipeline v = FDies.
Proof. exists PVString. reflexivity. Qed.

(* THE FULL-STRENGTH STATEMENT: no panic below the handlers kills the process.  As coded it holds
   exactly under the handler, a panics.Try and a pipeline worker; it is refuted for the goroutines
   of ListObjectsQuery.evaluate / reverse expand (and any goroutine without its own recovery) *)
Theorem process_survives_iff (s : psite) (v : pvalue) :
  fate_of s v <> FDies <-> (s <> SEvaluate /\ s <> SOther).
Proof.
  destruct s; cbn; split.
  all: try (intros _; split; discriminate).
  all: try (intros _; discriminate).
  all: try (intro H; exfalso; apply H; reflexivity).
  all: intros [H1 H2] _; first [apply H1; reflexivity | apply H2; reflexivity].
Qed.

Theorem process_survives_refuted : exists s v, fate_of s v = FDies.
Proof. exists SEvaluate, PVError. reflexivity. Qed.
