(* C27 — authentication decision logic of
     internal/authn/presharedkey/presharedkey.go
     internal/authn/oidc/oidc.go            (Authenticate, NewRemoteOidcAuthenticator)
     internal/middleware/authn/authn.go     (AuthFunc: passes the result through unchanged)
   together with the two library routines whose *options* the anchored code chooses:
     grpcauth.AuthFromMD (go-grpc-middleware v2.3.3)  -> [auth_from_md]
     jwt.Validator.Validate (golang-jwt v5.3.1)       -> [validate]
   Definitions only.  What is NOT modelled (external behaviour, Section variables):
   SHA-256 ([H]) and the map "JWT string -> (alg, key lookup, signature verdict, claims)"
   ([parse_jwt]: base64/JSON decoding, JWKS lookup by kid, RSA verification). *)
From OFGA Require Import Base.Bytes.
From Coq Require Import ZArith.

(* ------------------------------------------------------------------------------------ *)
(* grpcauth.AuthFromMD(ctx, "Bearer")                                                   *)
(*   vals := metadata.ValueFromIncomingContext(ctx, "authorization")                    *)
(*   len(vals)==0 -> error; scheme, token, found := strings.Cut(vals[0], " ")           *)
(*   !found -> error; !strings.EqualFold(scheme, "Bearer") -> error; return token       *)
(* strings.EqualFold against the constant "Bearer": none of b,e,a,r has a non-ASCII     *)
(* simple-fold partner (only k and s have: U+212A, U+017F), so EqualFold is ASCII       *)
(* case-insensitive byte equality here.                                                 *)

Definition ascii_lower (b : N) : N :=
  if (65 <=? b) && (b <=? 90) then b + 32 else b.

Definition eq_fold_ascii (a b : bytes) : bool :=
  beqb (map ascii_lower a) (map ascii_lower b).

Definition s_bearer : bytes := [66; 101; 97; 114; 101; 114].

Inductive md_result :=
| MdNoHeader
| MdBadString
| MdWrongScheme
| MdToken (t : bytes).

Definition auth_from_md (vals : list bytes) : md_result :=
  match vals with
  | [] => MdNoHeader
  | v :: _ =>
    match cut c_space v with
    | None => MdBadString
    | Some (scheme, tok) =>
      if eq_fold_ascii scheme s_bearer then MdToken tok else MdWrongScheme
    end
  end.

(* ------------------------------------------------------------------------------------ *)
(* Pre-shared keys                                                                      *)

(* crypto/subtle.ConstantTimeCompare: 0 when lengths differ, otherwise OR of XORs == 0  *)
Fixpoint ct_acc (x y : bytes) (v : N) : N :=
  match x, y with
  | a :: x', b :: y' => ct_acc x' y' (N.lor v (N.lxor a b))
  | _, _ => v
  end.

Definition ct_compare (x y : bytes) : N :=
  if Nat.eqb (length x) (length y)
  then (if N.eqb (ct_acc x y 0) 0 then 1 else 0)
  else 0.

Inductive psk_outcome := PskAccept | PskMissingBearer | PskUnauthenticated.

Section Preshared.
  Variable H : bytes -> bytes.   (* sha256.Sum256 *)

  (* NewPresharedKeyAuthenticator: at least one key; stores the digests *)
  Definition psk_new (keys : list bytes) : option (list bytes) :=
    match keys with
    | [] => None
    | _ => Some (map H keys)
    end.

  (* for _, kh := range hashes { matched |= ConstantTimeCompare(tokenHash, kh) } *)
  Definition psk_matched (hashes : list bytes) (th : bytes) : N :=
    fold_left (fun m kh => N.lor m (ct_compare th kh)) hashes 0.

  Definition psk_authenticate (hashes : list bytes) (vals : list bytes) : psk_outcome :=
    match auth_from_md vals with
    | MdToken t =>
      if N.eqb (psk_matched hashes (H t)) 1 then PskAccept else PskUnauthenticated
    | _ => PskMissingBearer
    end.

  (* a history of calls, each against the authenticator built from the key list then in
     force (the instance is rebuilt when the configuration changes): the answers *)
  Definition psk_run (h : list (list bytes * list bytes)) : list (option psk_outcome) :=
    map (fun c => match psk_new (fst c) with
                  | None => None
                  | Some hs => Some (psk_authenticate hs (snd c))
                  end) h.
End Preshared.

(* ------------------------------------------------------------------------------------ *)
(* JWT claims as decoded by encoding/json into jwt.MapClaims                            *)

Inductive jv :=
| JAbsent                     (* key not in the map *)
| JStr (s : bytes)            (* string *)
| JNum (z : Z)                (* float64 holding an integer number of seconds *)
| JStrs (l : list bytes)      (* []any whose elements are all strings *)
| JBadList                    (* []any with a non-string element *)
| JOther.                     (* null, bool, object *)

Definition claims := list (bytes * jv).

(* map lookup; for duplicate keys encoding/json keeps the last value *)
Fixpoint cget (k : bytes) (c : claims) : jv :=
  match c with
  | [] => JAbsent
  | (k', v) :: c' =>
    match cget k c' with
    | JAbsent => if beqb k' k then v else JAbsent
    | w => w
    end
  end.

Definition k_exp : bytes := [101; 120; 112].
Definition k_nbf : bytes := [110; 98; 102].
Definition k_iat : bytes := [105; 97; 116].
Definition k_aud : bytes := [97; 117; 100].
Definition k_iss : bytes := [105; 115; 115].
Definition k_sub : bytes := [115; 117; 98].
Definition k_azp : bytes := [97; 122; 112].
Definition k_client_id : bytes := [99; 108; 105; 101; 110; 116; 95; 105; 100].
Definition k_scope : bytes := [115; 99; 111; 112; 101].

(* membership of a string in a list of strings (slices.Contains) *)
Definition bmem (s : bytes) (l : list bytes) : bool := existsb (fun x => beqb x s) l.

(* ------------------------------------------------------------------------------------ *)
(* jwt.Validator (v5.3.1), leeway 0, timeFunc nil, requireNbf false, expectAllAud false *)

Record validator := {
  v_require_exp : bool;
  v_verify_iat : bool;
  v_expected_aud : list bytes;
  v_expected_iss : bytes;
  v_expected_sub : bytes
}.

Inductive ndate := NdNone | NdAt (z : Z) | NdErr.

(* MapClaims.parseNumericDate: missing -> nil; float64 0 -> nil; float64 -> date;
   any other type -> ErrInvalidType *)
Definition parse_numeric_date (v : jv) : ndate :=
  match v with
  | JAbsent => NdNone
  | JNum z => if Z.eqb z 0 then NdNone else NdAt z
  | _ => NdErr
  end.

(* [now] is the clock reading in whole seconds (floor); NumericDate values are truncated
   to seconds, so  now.Before(exp) <-> floor(now) < exp  and
   !now.Before(iat) <-> iat <= floor(now). *)
Definition verify_exp (now : Z) (c : claims) (required : bool) : bool :=
  match parse_numeric_date (cget k_exp c) with
  | NdErr => false
  | NdNone => negb required
  | NdAt e => Z.ltb now e
  end.

Definition verify_nbf (now : Z) (c : claims) : bool :=
  match parse_numeric_date (cget k_nbf c) with
  | NdErr => false
  | NdNone => true
  | NdAt n => Z.leb n now
  end.

Definition verify_iat (now : Z) (c : claims) : bool :=
  match parse_numeric_date (cget k_iat c) with
  | NdErr => false
  | NdNone => true
  | NdAt i => Z.leb i now
  end.

(* MapClaims.parseClaimsString *)
Definition parse_claim_strings (v : jv) : option (list bytes) :=
  match v with
  | JStr s => Some [s]
  | JStrs l => Some l
  | JBadList => None
  | _ => Some []
  end.

(* verifyAudience with expectAllAud = false; called only when cmp is non-empty, hence
   the claim is required *)
Definition verify_aud (c : claims) (cmp : list bytes) : bool :=
  match parse_claim_strings (cget k_aud c) with
  | None => false
  | Some aud =>
    let empty := match aud with
                 | [] => true
                 | [a] => beqb a []
                 | _ => false
                 end in
    if empty then false
    else existsb (fun a => bmem a cmp) aud
  end.

(* MapClaims.parseString *)
Definition parse_string (v : jv) : option bytes :=
  match v with
  | JAbsent => Some []
  | JStr s => Some s
  | _ => None
  end.

(* verifyIssuer / verifySubject with required = true (an empty claim counts as missing) *)
Definition verify_str (k : bytes) (c : claims) (cmp : bytes) : bool :=
  match parse_string (cget k c) with
  | None => false
  | Some s => if beqb s [] then false else beqb s cmp
  end.

(* Validator.Validate(claims) == nil  (errors are collected, not short-circuited) *)
Definition validate (v : validator) (now : Z) (c : claims) : bool :=
  verify_exp now c (v_require_exp v)
  && verify_nbf now c
  && (if v_verify_iat v then verify_iat now c else true)
  && (match v_expected_aud v with [] => true | _ => verify_aud c (v_expected_aud v) end)
  && (if beqb (v_expected_iss v) [] then true else verify_str k_iss c (v_expected_iss v))
  && (if beqb (v_expected_sub v) [] then true else verify_str k_sub c (v_expected_sub v)).

(* ------------------------------------------------------------------------------------ *)
(* OIDC                                                                                 *)

Inductive alg :=
| AlgRS256
| AlgOther           (* a registered method other than RS256: HS*, RS384/512, PS*, ES*, none *)
| AlgUnavailable.    (* header alg missing, not a string, or not a registered method *)

(* keyfunc.JWKS.Keyfunc followed by SigningMethodRS256.Verify *)
Inductive kidres :=
| KidAbsent
| KidNotString
| KidUnknown
| KidFound (alg_match : bool) (verifies : bool).
  (* alg_match: the JWK has no "alg" or it equals the header alg;
     verifies: RSASSA-PKCS1-v1_5/SHA-256 verification under that key succeeds *)

Inductive token :=
| TokMalformed                                    (* segments / base64 / JSON *)
| TokParsed (a : alg) (k : kidres) (c : claims).

Record oidc_cfg := {
  main_issuer : bytes;
  issuer_aliases : list bytes;
  audience : bytes;
  subjects : list bytes;
  client_id_claims : list bytes
}.

(* NewRemoteOidcAuthenticator (the JWKS fetch is outside the model) *)
Definition oidc_new (main : bytes) (aliases : list bytes) (aud : bytes)
           (subs : list bytes) (cic : list bytes) : option oidc_cfg :=
  if beqb main [] then None
  else if beqb aud [] then None
  else Some {| main_issuer := main; issuer_aliases := aliases; audience := aud;
               subjects := subs;
               client_id_claims := match cic with
                                   | [] => [k_azp; k_client_id]
                                   | _ => cic
                                   end |}.

Record principal := {
  p_subject : bytes;
  p_client_id : bytes;
  p_scopes : list bytes      (* the keys put into the Scopes map, in Split order *)
}.

Inductive reason :=
| RMalformed | RAlgUnavailable | RAlgNotAllowed | RKey | RSignature
| RClaims | RIssuer | RSubject | RSubType.

Inductive oidc_outcome :=
| OAccept (p : principal)
| OMissingBearer
| OInvalid (r : reason).     (* always the same error value errInvalidClaims *)

Definition parser_validator (cfg : oidc_cfg) : validator :=
  {| v_require_exp := true; v_verify_iat := true; v_expected_aud := [audience cfg];
     v_expected_iss := []; v_expected_sub := [] |}.

Definition issuer_validator (i : bytes) : validator :=
  {| v_require_exp := false; v_verify_iat := false; v_expected_aud := [];
     v_expected_iss := i; v_expected_sub := [] |}.

Definition subject_validator (s : bytes) : validator :=
  {| v_require_exp := false; v_verify_iat := false; v_expected_aud := [];
     v_expected_iss := []; v_expected_sub := s |}.

(* strings.Split(s, " ") *)
Fixpoint split (sep : N) (s : bytes) : list bytes :=
  match s with
  | [] => [[]]
  | x :: s' =>
    if N.eqb x sep then [] :: split sep s'
    else match split sep s' with
         | h :: t => (x :: h) :: t
         | [] => [[x]]
         end
  end.

(* for _, k := range ClientIDClaims { clientID, ok = claims[k].(string); if ok {break} } *)
Fixpoint client_id (ks : list bytes) (c : claims) : bytes :=
  match ks with
  | [] => []
  | k :: ks' =>
    match cget k c with
    | JStr s => s
    | _ => client_id ks' c
    end
  end.

Definition scopes_of (c : claims) : list bytes :=
  match cget k_scope c with
  | JStr s => split c_space s
  | _ => []
  end.

Section Oidc.
  Variable parse_jwt : bytes -> token.

  Definition oidc_authenticate (cfg : oidc_cfg) (now : Z) (vals : list bytes) : oidc_outcome :=
    match auth_from_md vals with
    | MdToken t =>
      match parse_jwt t with
      | TokMalformed => OInvalid RMalformed
      | TokParsed a k c =>
        match a with
        | AlgUnavailable => OInvalid RAlgUnavailable
        | AlgOther => OInvalid RAlgNotAllowed
        | AlgRS256 =>
          match k with
          | KidAbsent => OInvalid RKey
          | KidNotString => OInvalid RKey
          | KidUnknown => OInvalid RKey
          | KidFound am ver =>
            if negb am then OInvalid RKey
            else if negb ver then OInvalid RSignature
            else if negb (validate (parser_validator cfg) now c) then OInvalid RClaims
            (* since 8b29193 both ContainsFunc closures return false for an empty entry
               (jwt.WithIssuer("") / jwt.WithSubject("") would switch the check off); the
               main issuer is never empty (constructor), as coded an empty one matches nothing *)
            else if negb (existsb (fun i => if beqb i [] then false
                                            else validate (issuer_validator i) now c)
                                  (main_issuer cfg :: issuer_aliases cfg))
                 then OInvalid RIssuer
            else if match subjects cfg with
                    | [] => false
                    | _ => negb (existsb (fun s => if beqb s [] then false
                                                   else validate (subject_validator s) now c)
                                         (subjects cfg))
                    end
                 then OInvalid RSubject
            else match cget k_sub c with
                 | JAbsent =>
                   OAccept {| p_subject := [];
                              p_client_id := client_id (client_id_claims cfg) c;
                              p_scopes := scopes_of c |}
                 | JStr s =>
                   OAccept {| p_subject := s;
                              p_client_id := client_id (client_id_claims cfg) c;
                              p_scopes := scopes_of c |}
                 | _ => OInvalid RSubType
                 end
          end
        end
      end
    | _ => OMissingBearer
    end.

  (* a history of calls (clock reading, header values) against one authenticator *)
  Definition oidc_run (cfg : oidc_cfg) (h : list (Z * list bytes)) : list oidc_outcome :=
    map (fun c => oidc_authenticate cfg (fst c) (snd c)) h.
End Oidc.

Definition accepted (o : oidc_outcome) : bool :=
  match o with OAccept _ => true | _ => false end.

(* observable error class: 0 accepted, 1 bearer token missing, 2 invalid claims *)
Definition oidc_class (o : oidc_outcome) : N :=
  match o with OAccept _ => 0 | OMissingBearer => 1 | OInvalid _ => 2 end.

Definition psk_class (o : psk_outcome) : N :=
  match o with PskAccept => 0 | PskMissingBearer => 1 | PskUnauthenticated => 2 end.

(* ------------------------------------------------------------------------------------ *)
(* The claim-validity record and the decision table                                      *)

Record validity := {
  vy_bearer : bool;      (* an authorization header with scheme Bearer is present *)
  vy_wellformed : bool;  (* the token decodes *)
  vy_alg : bool;         (* header alg is RS256 *)
  vy_key : bool;         (* kid names a key of the JWKS usable with that alg *)
  vy_sig : bool;         (* the signature verifies under that key *)
  vy_exp : bool;         (* exp is present and now < exp *)
  vy_nbf : bool;         (* nbf absent or nbf <= now *)
  vy_iat : bool;         (* iat absent or iat <= now *)
  vy_aud : bool;         (* aud names the configured audience *)
  vy_iss : bool;         (* iss is non-empty and is the main issuer or an alias *)
  vy_sub : bool;         (* no subjects configured, or sub is non-empty and one of them *)
  vy_sub_wf : bool       (* sub absent or a string *)
}.

Definition time_ok (k : bytes) (now : Z) (c : claims) : bool :=
  match cget k c with
  | JAbsent => true
  | JNum z => Z.eqb z 0 || Z.leb z now
  | _ => false
  end.

Definition exp_ok (now : Z) (c : claims) : bool :=
  match cget k_exp c with
  | JNum e => negb (Z.eqb e 0) && Z.ltb now e
  | _ => false
  end.

Definition aud_ok (cfg : oidc_cfg) (c : claims) : bool :=
  match cget k_aud c with
  | JStr a => beqb a (audience cfg)
  | JStrs l => bmem (audience cfg) l
  | _ => false
  end.

Definition iss_ok (cfg : oidc_cfg) (c : claims) : bool :=
  match cget k_iss c with
  | JStr s => negb (beqb s []) && bmem s (main_issuer cfg :: issuer_aliases cfg)
  | _ => false
  end.

Definition sub_ok (cfg : oidc_cfg) (c : claims) : bool :=
  match subjects cfg with
  | [] => true
  | _ => match cget k_sub c with
         | JStr s => negb (beqb s []) && bmem s (subjects cfg)
         | _ => false
         end
  end.

Definition sub_wf (c : claims) : bool :=
  match cget k_sub c with
  | JAbsent => true
  | JStr _ => true
  | _ => false
  end.

Definition validity_of_token (cfg : oidc_cfg) (now : Z) (bearer : bool) (t : token) : validity :=
  match t with
  | TokMalformed =>
    {| vy_bearer := bearer; vy_wellformed := false; vy_alg := false; vy_key := false;
       vy_sig := false; vy_exp := false; vy_nbf := false; vy_iat := false; vy_aud := false;
       vy_iss := false; vy_sub := false; vy_sub_wf := false |}
  | TokParsed a k c =>
    {| vy_bearer := bearer; vy_wellformed := true;
       vy_alg := match a with AlgRS256 => true | _ => false end;
       vy_key := match k with KidFound am _ => am | _ => false end;
       vy_sig := match k with KidFound _ ver => ver | _ => false end;
       vy_exp := exp_ok now c;
       vy_nbf := time_ok k_nbf now c;
       vy_iat := time_ok k_iat now c;
       vy_aud := aud_ok cfg c;
       vy_iss := iss_ok cfg c;
       vy_sub := sub_ok cfg c;
       vy_sub_wf := sub_wf c |}
  end.

Section OidcValidity.
  Variable parse_jwt : bytes -> token.

  Definition validity_of (cfg : oidc_cfg) (now : Z) (vals : list bytes) : validity :=
    match auth_from_md vals with
    | MdToken t => validity_of_token cfg now true (parse_jwt t)
    | _ => validity_of_token cfg now false TokMalformed
    end.
End OidcValidity.

(* what the code decides, as a function of the record *)
Definition decide (v : validity) : bool :=
  vy_bearer v && vy_wellformed v && vy_alg v && vy_key v && vy_sig v
  && vy_exp v && vy_nbf v && vy_iat v && vy_aud v
  && vy_iss v && vy_sub v
  && vy_sub_wf v.

(* the property text, literally *)
Definition property_literal (v : validity) : bool :=
  vy_bearer v && vy_wellformed v && vy_alg v && vy_key v && vy_sig v
  && vy_exp v && vy_iat v && vy_aud v && vy_iss v && vy_sub v.

(* the two conditions the code adds to the property text (it is stricter there) *)
Definition extra_ok (v : validity) : bool := vy_nbf v && vy_sub_wf v.

(* what NewRemoteOidcAuthenticator guarantees *)
Definition cfg_wf (cfg : oidc_cfg) : bool :=
  negb (beqb (main_issuer cfg) []) && negb (beqb (audience cfg) []).
