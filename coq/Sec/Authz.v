(* C26 — API access control (experimental `enable-access-control`), decision logic of
     internal/authz/authz.go      Authorize, AuthorizeCreateStore, AuthorizeListStores,
                                  ListAuthorizedStores, GetModulesForWriteRequest,
                                  extractModulesFromTuples, individualAuthorize, moduleAuthorize,
                                  checkAuthClaims
     pkg/server/server.go         checkAuthz, checkWriteAuthz, checkCreateStoreAuthz,
                                  getAccessibleStores (error => ErrUnauthorizedResponse)
     pkg/server/stores.go         ListStores (empty accessible list => empty page, fix c075cf0;
                                  otherwise passes the accessible ids to the query)
     pkg/server/commands/list_stores.go + pkg/storage/memory/memory.go:847 (sqlite.go:1091)
                                  the IDs filter: `len(options.IDs) > 0`, i.e. empty = no filter
   Definitions only, self-contained (the extracted oracle depends on this file alone).  The
   API-method -> relation switch, the relation constants and the module limit are transcribed
   here; Generated/C26Tables.v (tool harness/cmd/gen_c26) re-reads them and the call order of
   every RPC handler from the Go source on every run, and Sec/AuthzProofs.v proves that the
   transcription and the pinned handler lists below agree with the regenerated facts.

   What is NOT modelled (enters as a function argument, universally quantified in the theorems):
   - the answer of the access-control store: [g client relation object] is the result of the
     server's own Check on the access-control store with the contextual tuples that authz.go
     attaches (Some b = allowed b, None = Check returned an error);
   - [la client]: the answer of ListObjects(type store, relation can_call_get_store) on the
     access-control store (None = error);
   - the typesystem of the target store: a write request arrives as the list of per-tuple module
     lookups (type missing / relation missing / module name, [] = no module). *)
From OFGA Require Import Base.Bytes.
Open Scope N_scope.

(* internal/utils/apimethod: the API methods, in source order *)
Inductive api_method :=
| M_ReadAuthorizationModel | M_ReadAuthorizationModels | M_Read | M_Write | M_ListObjects
| M_StreamedListObjects | M_Check | M_BatchCheck | M_ListUsers | M_WriteAssertions
| M_ReadAssertions | M_WriteAuthorizationModel | M_ListStores | M_CreateStore | M_GetStore
| M_DeleteStore | M_Expand | M_ReadChanges.

Definition all_api_methods : list api_method :=
  [M_ReadAuthorizationModel; M_ReadAuthorizationModels; M_Read; M_Write; M_ListObjects;
   M_StreamedListObjects; M_Check; M_BatchCheck; M_ListUsers; M_WriteAssertions;
   M_ReadAssertions; M_WriteAuthorizationModel; M_ListStores; M_CreateStore; M_GetStore;
   M_DeleteStore; M_Expand; M_ReadChanges].

(* the string value of each constant ("Read", "Write", ...) as bytes *)
Definition api_method_bytes (m : api_method) : bytes :=
  match m with
  | M_ReadAuthorizationModel => [82; 101; 97; 100; 65; 117; 116; 104; 111; 114; 105; 122; 97; 116; 105; 111; 110; 77; 111; 100; 101; 108]
  | M_ReadAuthorizationModels => [82; 101; 97; 100; 65; 117; 116; 104; 111; 114; 105; 122; 97; 116; 105; 111; 110; 77; 111; 100; 101; 108; 115]
  | M_Read => [82; 101; 97; 100]
  | M_Write => [87; 114; 105; 116; 101]
  | M_ListObjects => [76; 105; 115; 116; 79; 98; 106; 101; 99; 116; 115]
  | M_StreamedListObjects => [83; 116; 114; 101; 97; 109; 101; 100; 76; 105; 115; 116; 79; 98; 106; 101; 99; 116; 115]
  | M_Check => [67; 104; 101; 99; 107]
  | M_BatchCheck => [66; 97; 116; 99; 104; 67; 104; 101; 99; 107]
  | M_ListUsers => [76; 105; 115; 116; 85; 115; 101; 114; 115]
  | M_WriteAssertions => [87; 114; 105; 116; 101; 65; 115; 115; 101; 114; 116; 105; 111; 110; 115]
  | M_ReadAssertions => [82; 101; 97; 100; 65; 115; 115; 101; 114; 116; 105; 111; 110; 115]
  | M_WriteAuthorizationModel => [87; 114; 105; 116; 101; 65; 117; 116; 104; 111; 114; 105; 122; 97; 116; 105; 111; 110; 77; 111; 100; 101; 108]
  | M_ListStores => [76; 105; 115; 116; 83; 116; 111; 114; 101; 115]
  | M_CreateStore => [67; 114; 101; 97; 116; 101; 83; 116; 111; 114; 101]
  | M_GetStore => [71; 101; 116; 83; 116; 111; 114; 101]
  | M_DeleteStore => [68; 101; 108; 101; 116; 101; 83; 116; 111; 114; 101]
  | M_Expand => [69; 120; 112; 97; 110; 100]
  | M_ReadChanges => [82; 101; 97; 100; 67; 104; 97; 110; 103; 101; 115]
  end.

(* internal/authz/authz.go: the CanCall* relation constants, in source order *)
Inductive relation :=
| R_CanCallReadAuthorizationModels | R_CanCallRead | R_CanCallWrite | R_CanCallListObjects
| R_CanCallCheck | R_CanCallListUsers | R_CanCallWriteAssertions | R_CanCallReadAssertions
| R_CanCallWriteAuthorizationModels | R_CanCallListStores | R_CanCallCreateStore
| R_CanCallGetStore | R_CanCallDeleteStore | R_CanCallExpand | R_CanCallReadChanges.

Definition all_relations : list relation :=
  [R_CanCallReadAuthorizationModels; R_CanCallRead; R_CanCallWrite; R_CanCallListObjects;
   R_CanCallCheck; R_CanCallListUsers; R_CanCallWriteAssertions; R_CanCallReadAssertions;
   R_CanCallWriteAuthorizationModels; R_CanCallListStores; R_CanCallCreateStore;
   R_CanCallGetStore; R_CanCallDeleteStore; R_CanCallExpand; R_CanCallReadChanges].

Definition s_can_call_ : bytes := [99; 97; 110; 95; 99; 97; 108; 108; 95].

(* "can_call_" ++ suffix *)
Definition relation_bytes (r : relation) : bytes :=
  s_can_call_ ++
  match r with
  | R_CanCallReadAuthorizationModels => [114; 101; 97; 100; 95; 97; 117; 116; 104; 111; 114; 105; 122; 97; 116; 105; 111; 110; 95; 109; 111; 100; 101; 108; 115]
  | R_CanCallRead => [114; 101; 97; 100]
  | R_CanCallWrite => [119; 114; 105; 116; 101]
  | R_CanCallListObjects => [108; 105; 115; 116; 95; 111; 98; 106; 101; 99; 116; 115]
  | R_CanCallCheck => [99; 104; 101; 99; 107]
  | R_CanCallListUsers => [108; 105; 115; 116; 95; 117; 115; 101; 114; 115]
  | R_CanCallWriteAssertions => [119; 114; 105; 116; 101; 95; 97; 115; 115; 101; 114; 116; 105; 111; 110; 115]
  | R_CanCallReadAssertions => [114; 101; 97; 100; 95; 97; 115; 115; 101; 114; 116; 105; 111; 110; 115]
  | R_CanCallWriteAuthorizationModels => [119; 114; 105; 116; 101; 95; 97; 117; 116; 104; 111; 114; 105; 122; 97; 116; 105; 111; 110; 95; 109; 111; 100; 101; 108; 115]
  | R_CanCallListStores => [108; 105; 115; 116; 95; 115; 116; 111; 114; 101; 115]
  | R_CanCallCreateStore => [99; 114; 101; 97; 116; 101; 95; 115; 116; 111; 114; 101; 115]
  | R_CanCallGetStore => [103; 101; 116; 95; 115; 116; 111; 114; 101]
  | R_CanCallDeleteStore => [100; 101; 108; 101; 116; 101; 95; 115; 116; 111; 114; 101]
  | R_CanCallExpand => [101; 120; 112; 97; 110; 100]
  | R_CanCallReadChanges => [114; 101; 97; 100; 95; 99; 104; 97; 110; 103; 101; 115]
  end.

(* Authorizer.getRelation: the switch, transcribed (None = the default clause: error).
   AuthzProofs.relation_table_matches_source compares it, name by name, with the switch that
   gen_c26 reads from the source on every run. *)
Definition relation_of (m : api_method) : option relation :=
  match m with
  | M_ReadAuthorizationModel => Some R_CanCallReadAuthorizationModels
  | M_ReadAuthorizationModels => Some R_CanCallReadAuthorizationModels
  | M_Read => Some R_CanCallRead
  | M_Write => Some R_CanCallWrite
  | M_ListObjects => Some R_CanCallListObjects
  | M_StreamedListObjects => Some R_CanCallListObjects
  | M_Check => Some R_CanCallCheck
  | M_BatchCheck => Some R_CanCallCheck
  | M_ListUsers => Some R_CanCallListUsers
  | M_WriteAssertions => Some R_CanCallWriteAssertions
  | M_ReadAssertions => Some R_CanCallReadAssertions
  | M_WriteAuthorizationModel => Some R_CanCallWriteAuthorizationModels
  | M_ListStores => Some R_CanCallListStores
  | M_CreateStore => Some R_CanCallCreateStore
  | M_GetStore => Some R_CanCallGetStore
  | M_DeleteStore => Some R_CanCallDeleteStore
  | M_Expand => Some R_CanCallExpand
  | M_ReadChanges => Some R_CanCallReadChanges
  end.

(* const MaxModulesInRequest = 1 *)
Definition max_modules_in_request : N := 1.

Definition client := bytes.
Definition store_id := bytes.
Definition module_name := bytes.

(* authclaims.AuthClaimsFromContext: no claims in the context / claims with a client id *)
Inductive claims :=
| NoClaims
| Claims (client_id : client).

(* objects of the access-control model that authz.go asks about *)
Inductive ac_object :=
| OSystem                                   (* system:fga, no contextual tuples *)
| OStore (s : store_id)                     (* store:<s>, + contextual system:fga#system@store:<s> *)
| OModule (s : store_id) (m : module_name). (* module:<s>|<m>, + contextual store and system tuples *)

Definition grant_oracle := client -> relation -> ac_object -> option bool.
Definition list_oracle := client -> option (list store_id).

Inductive deny_reason :=
| DNoClient          (* "client ID not found in context or is empty" *)
| DNoRelation        (* getRelation: unknown API method *)
| DStoreNotAllowed   (* "check returned not allowed" on the store, no modules in the request *)
| DStoreError        (* "check returned error" on the store, no modules in the request *)
| DTooManyModules    (* more than MaxModulesInRequest modules and no store-level grant *)
| DModuleNotAllowed
| DModuleError
| DModuleLookup.     (* GetModulesForWriteRequest failed (type / relation not in the model) *)

Inductive decision :=
| Allow
| Deny (why : deny_reason).

Definition is_allow (d : decision) : bool :=
  match d with Allow => true | Deny _ => false end.

(* checkAuthClaims: `!found || claims.ClientID == ""` *)
Definition check_claims (cl : claims) : option client :=
  match cl with
  | NoClaims => None
  | Claims [] => None
  | Claims c => Some c
  end.

(* individualAuthorize: Check error => error; !allowed => error; else nil *)
Inductive ind_result := IndOk | IndNotAllowed | IndError.

Definition individual (g : grant_oracle) (c : client) (r : relation) (o : ac_object) : ind_result :=
  match g c r o with
  | Some true => IndOk
  | Some false => IndNotAllowed
  | None => IndError
  end.

(* moduleAuthorize: one goroutine per module, every failure is sent to a channel, the first
   error read from the channel is returned.  Which failure is reported when several modules
   fail depends on the schedule; the model reports the first failing module in list order.
   Only Allow/Deny is observable (checkAuthz maps every error to the same response). *)
Fixpoint module_authorize (g : grant_oracle) (c : client) (r : relation) (s : store_id)
         (mods : list module_name) : decision :=
  match mods with
  | [] => Allow
  | m :: rest =>
    match individual g c r (OModule s m) with
    | IndOk => module_authorize g c r s rest
    | IndNotAllowed => Deny DModuleNotAllowed
    | IndError => Deny DModuleError
    end
  end.

(* Authorizer.Authorize *)
Definition authorize (g : grant_oracle) (cl : claims) (m : api_method) (s : store_id)
           (mods : list module_name) : decision :=
  match check_claims cl with
  | None => Deny DNoClient
  | Some c =>
    match relation_of m with
    | None => Deny DNoRelation
    | Some r =>
      match individual g c r (OStore s) with
      | IndOk => Allow
      | top =>
        match mods with
        | [] => Deny (match top with IndError => DStoreError | _ => DStoreNotAllowed end)
        | _ :: _ =>
          (* len(modules) > MaxModulesInRequest *)
          if max_modules_in_request <? N.of_nat (List.length mods)
          then Deny DTooManyModules
          else module_authorize g c r s mods
        end
      end
    end
  end.

(* AuthorizeCreateStore / AuthorizeListStores: one check on system:fga *)
Definition authorize_system (g : grant_oracle) (cl : claims) (m : api_method) : decision :=
  match check_claims cl with
  | None => Deny DNoClient
  | Some c =>
    match relation_of m with
    | None => Deny DNoRelation
    | Some r =>
      match individual g c r OSystem with
      | IndOk => Allow
      | IndNotAllowed => Deny DStoreNotAllowed
      | IndError => Deny DStoreError
      end
    end
  end.

Definition authorize_create_store (g : grant_oracle) (cl : claims) : decision :=
  authorize_system g cl M_CreateStore.

(* ------------------------------------------------------------------------------------ *)
(* Faults while deciding: a check of the control store that fails (error returned, request   *)
(* context cancelled / deadline exceeded while the check runs).  individualAuthorize turns    *)
(* every error of the server's Check into an error, so a failing check is the answer None.    *)

Definition with_fault (g : grant_oracle) (faulty : ac_object -> bool) : grant_oracle :=
  fun c r o => if faulty o then None else g c r o.

(* the checks of one Authorize call, numbered in the order they are issued: #1 the store (or
   system) object, #2.. the module objects (issued only when #1 did not succeed, the request
   names modules and they are at most the limit; concurrently, so which module gets which
   number is schedule-dependent -- the decision is not: any failing module check denies).
   [fault_at k from n]: the k-th check fails ([from] = false) or every check from the k-th on
   fails ([from] = true: the request context was cancelled at that moment); n = number of modules *)
Definition fault_at (k : N) (from : bool) (nmods : nat) (o : ac_object) : bool :=
  match o with
  | OSystem | OStore _ => (k =? 1)
  | OModule _ _ => if from then (1 <=? k) && (k <=? 1 + N.of_nat nmods)
                   else (2 <=? k) && (k <=? 1 + N.of_nat nmods)
  end.

Definition authorize_fault (g : grant_oracle) (k : N) (from : bool) (cl : claims) (m : api_method)
           (s : store_id) (mods : list module_name) : decision :=
  authorize (with_fault g (fault_at k from (List.length mods))) cl m s mods.

(* ------------------------------------------------------------------------------------ *)
(* Write: GetModulesForWriteRequest / extractModulesFromTuples                           *)

(* per tuple (writes first, then deletes):
   typesys.GetTypeDefinition(type) missing                      -> LTypeNotFound
   parser.GetModuleForObjectTypeRelation: relation not in type  -> LNoRelation
   otherwise the relation's module, else the type's module      -> LModule m   ([] = none) *)
Inductive mod_lookup :=
| LTypeNotFound
| LNoRelation
| LModule (m : module_name).

Inductive mods_result :=
| MErr
| MMods (ms : list module_name).

Fixpoint bmem (x : bytes) (l : list bytes) : bool :=
  match l with
  | [] => false
  | y :: r => beqb x y || bmem x r
  end.

(* the Go code collects a map (set) of modules; an error stops with an error; the first tuple
   whose type has no module stops with `nil, nil` (later tuples are not looked at) *)
Fixpoint extract_modules (ls : list mod_lookup) (acc : list module_name) : mods_result :=
  match ls with
  | [] => MMods acc
  | LTypeNotFound :: _ => MErr
  | LNoRelation :: _ => MErr
  | LModule [] :: _ => MMods []
  | LModule m :: r => extract_modules r (if bmem m acc then acc else acc ++ [m])
  end.

(* checkWriteAuthz *)
Definition write_authorize (g : grant_oracle) (cl : claims) (s : store_id)
           (ls : list mod_lookup) : decision :=
  match extract_modules ls [] with
  | MErr => Deny DModuleLookup
  | MMods ms => authorize g cl M_Write s ms
  end.

(* ------------------------------------------------------------------------------------ *)
(* ListStores                                                                            *)

(* getAccessibleStores: AuthorizeListStores, then ListAuthorizedStores; any error => denied *)
Definition accessible_stores (g : grant_oracle) (la : list_oracle) (cl : claims)
  : option (list store_id) :=
  match authorize_system g cl M_ListStores with
  | Deny _ => None
  | Allow =>
    match check_claims cl with
    | None => None
    | Some c => la c
    end
  end.

(* memory.go ListStores: `if len(options.IDs) > 0 { for id in IDs { for st in stores { id == st.id } } }`
   then the name filter `options.Name != ""`.  Sorting and paging are not modelled: the
   correspondence reads all pages and compares sorted id lists. *)
Definition backend_list_stores (ids : list store_id) (name : bytes)
           (all : list (store_id * bytes)) : list (store_id * bytes) :=
  let by_id :=
    match ids with
    | [] => all
    | _ :: _ => flat_map (fun id => filter (fun st => beqb (fst st) id) all) ids
    end in
  match name with
  | [] => by_id
  | _ :: _ => filter (fun st => beqb (snd st) name) by_id
  end.

(* sqlite.go ListStores: `if len(options.IDs) > 0 { WHERE id IN (IDs) }`, `deleted_at IS NULL`
   (the live list [all] holds undeleted stores only), then the name filter *)
Definition backend_list_stores_sqlite (ids : list store_id) (name : bytes)
           (all : list (store_id * bytes)) : list (store_id * bytes) :=
  let by_id :=
    match ids with
    | [] => all
    | _ :: _ => filter (fun st => bmem (fst st) ids) all
    end in
  match name with
  | [] => by_id
  | _ :: _ => filter (fun st => beqb (snd st) name) by_id
  end.

Inductive ls_result :=
| LSDenied
| LSStores (ids : list store_id).

(* Server.ListStores (pkg/server/stores.go, after fix c075cf0).  [ids] is what getAccessibleStores
   returned: None = nil slice (access control off / skip-authz context: no filter), Some l = the
   authorizer's list.  `if storeIDs != nil && len(storeIDs) == 0 { return empty page }` comes
   before the query, so the backends never see an empty non-nil list from this handler. *)
Definition handler_list_stores (backend : list store_id -> bytes -> list (store_id * bytes) -> list (store_id * bytes))
           (ids : option (list store_id)) (name : bytes) (all : list (store_id * bytes))
  : list (store_id * bytes) :=
  match ids with
  | Some [] => []
  | Some l => backend l name all
  | None => backend [] name all
  end.

(* under access control: denied, or the handler applied to the authorizer's (non-nil) list *)
Definition list_stores (g : grant_oracle) (la : list_oracle) (cl : claims) (name : bytes)
           (all : list (store_id * bytes)) : ls_result :=
  match accessible_stores g la cl with
  | None => LSDenied
  | Some ids => LSStores (map fst (handler_list_stores backend_list_stores (Some ids) name all))
  end.

Definition list_stores_sqlite (g : grant_oracle) (la : list_oracle) (cl : claims) (name : bytes)
           (all : list (store_id * bytes)) : ls_result :=
  match accessible_stores g la cl with
  | None => LSDenied
  | Some ids => LSStores (map fst (handler_list_stores backend_list_stores_sqlite (Some ids) name all))
  end.

Definition write_authorize_fault (g : grant_oracle) (k : N) (from : bool) (cl : claims) (s : store_id)
           (ls : list mod_lookup) : decision :=
  match extract_modules ls [] with
  | MErr => Deny DModuleLookup
  | MMods ms => authorize_fault g k from cl M_Write s ms
  end.

(* did the k-th check get issued at all (the fault fired)?  #1 always (given a client id);
   #2.. only when the store-level check did not succeed and the module branch is entered *)
Definition fault_fires (g : grant_oracle) (k : N) (cl : claims) (m : api_method) (s : store_id)
           (mods : list module_name) : bool :=
  match check_claims cl, relation_of m with
  | Some c, Some r =>
    if k =? 1 then true
    else match individual g c r (OStore s) with
         | IndOk => false
         | _ => match mods with
                | [] => false
                | _ :: _ => negb (max_modules_in_request <? N.of_nat (List.length mods)) &&
                            (2 <=? k) && (k <=? 1 + N.of_nat (List.length mods))
                end
         end
  | _, _ => false
  end.

(* ListStores with a continuation token, as the stores of [all] are listed in id order:
   sqlite: WHERE id >= From, i.e. the suffix of the live list from position [p] on, then the id
   filter; memory: the id filter, the result sorted by id, then the offset [p] into it.  [all] is
   the live store list in id order; the memory filter is written order-preserving here (the code
   sorts after its nested scan; same members: backend_list_stores_same_members). *)
Definition page_from_sqlite (ids : list store_id) (name : bytes) (all : list (store_id * bytes)) (p : nat)
  : list (store_id * bytes) := backend_list_stores_sqlite ids name (skipn p all).
Definition page_from_memory (ids : list store_id) (name : bytes) (all : list (store_id * bytes)) (p : nat)
  : list (store_id * bytes) := skipn p (backend_list_stores_sqlite ids name all).

(* the handler, everything from the token to the last page *)
Definition list_stores_from (sqlite : bool) (g : grant_oracle) (la : list_oracle) (cl : claims)
           (name : bytes) (all : list (store_id * bytes)) (p : nat) : ls_result :=
  match accessible_stores g la cl with
  | None => LSDenied
  | Some [] => LSStores []
  | Some ids => LSStores (map fst (if sqlite then page_from_sqlite ids name all p
                                   else page_from_memory ids name all p))
  end.

(* historical: the handler before c075cf0 passed the list straight to the backend *)
Definition list_stores_pre_c075cf0 (g : grant_oracle) (la : list_oracle) (cl : claims) (name : bytes)
           (all : list (store_id * bytes)) : ls_result :=
  match accessible_stores g la cl with
  | None => LSDenied
  | Some ids => LSStores (map fst (backend_list_stores ids name all))
  end.

(* ------------------------------------------------------------------------------------ *)
(* The property's own reading (specification side).  The relation of a method is written  *)
(* here by hand, independently of the switch in authz.go; AuthzProofs.relation_table_spec *)
(* proves that the regenerated switch agrees with it.                                     *)

Definition spec_relation (m : api_method) : relation :=
  match m with
  | M_ReadAuthorizationModel => R_CanCallReadAuthorizationModels
  | M_ReadAuthorizationModels => R_CanCallReadAuthorizationModels
  | M_Read => R_CanCallRead
  | M_Write => R_CanCallWrite
  | M_ListObjects => R_CanCallListObjects
  | M_StreamedListObjects => R_CanCallListObjects
  | M_Check => R_CanCallCheck
  | M_BatchCheck => R_CanCallCheck
  | M_ListUsers => R_CanCallListUsers
  | M_WriteAssertions => R_CanCallWriteAssertions
  | M_ReadAssertions => R_CanCallReadAssertions
  | M_WriteAuthorizationModel => R_CanCallWriteAuthorizationModels
  | M_ListStores => R_CanCallListStores
  | M_CreateStore => R_CanCallCreateStore
  | M_GetStore => R_CanCallGetStore
  | M_DeleteStore => R_CanCallDeleteStore
  | M_Expand => R_CanCallExpand
  | M_ReadChanges => R_CanCallReadChanges
  end.

(* "the access-control store grants the caller the relation on that store, or (modules ≠ [],
   at most MaxModulesInRequest of them) on each module" *)
Definition granted_b (g : grant_oracle) (c : client) (r : relation) (s : store_id)
           (mods : list module_name) : bool :=
  match g c r (OStore s) with
  | Some true => true
  | _ =>
    match mods with
    | [] => false
    | _ :: _ =>
      (N.of_nat (List.length mods) <=? max_modules_in_request) &&
      forallb (fun m => match g c r (OModule s m) with Some true => true | _ => false end) mods
    end
  end.

Definition spec_allowed (g : grant_oracle) (cl : claims) (m : api_method) (s : store_id)
           (mods : list module_name) : bool :=
  match cl with
  | Claims (b :: c) => granted_b g (b :: c) (spec_relation m) s mods
  | _ => false
  end.

Definition spec_write_allowed (g : grant_oracle) (cl : claims) (s : store_id)
           (ls : list mod_lookup) : bool :=
  match extract_modules ls [] with
  | MErr => false
  | MMods ms => spec_allowed g cl M_Write s ms
  end.

Definition spec_system_allowed (g : grant_oracle) (cl : claims) (m : api_method) : bool :=
  match cl with
  | Claims (b :: c) => match g (b :: c) (spec_relation m) OSystem with Some true => true | _ => false end
  | _ => false
  end.

(* ------------------------------------------------------------------------------------ *)
(* Lookups by the byte strings that the Go driver writes                                  *)

Fixpoint find_by_bytes {A} (name : A -> list N) (b : bytes) (l : list A) : option A :=
  match l with
  | [] => None
  | x :: r => if beqb (name x) b then Some x else find_by_bytes name b r
  end.

Definition method_of_bytes (b : bytes) : option api_method :=
  find_by_bytes api_method_bytes b all_api_methods.
Definition relation_of_bytes (b : bytes) : option relation :=
  find_by_bytes relation_bytes b all_relations.

(* ------------------------------------------------------------------------------------ *)
(* Pinned facts about the RPC handlers of pkg/server (names as bytes).  Hand-written; proved  *)
(* equal to what the regenerated handler table says (AuthzProofs.pinned_handlers_match_source) *)

Definition hname (l : list N) : bytes := l.

(* handlers whose request names a store (req.GetStoreId()) *)
Definition spec_store_scoped_handlers : list bytes :=
  [ [87; 114; 105; 116; 101; 65; 115; 115; 101; 114; 116; 105; 111; 110; 115];
    [82; 101; 97; 100; 65; 115; 115; 101; 114; 116; 105; 111; 110; 115];
    [82; 101; 97; 100; 65; 117; 116; 104; 111; 114; 105; 122; 97; 116; 105; 111; 110; 77; 111; 100; 101; 108];
    [87; 114; 105; 116; 101; 65; 117; 116; 104; 111; 114; 105; 122; 97; 116; 105; 111; 110; 77; 111; 100; 101; 108];
    [82; 101; 97; 100; 65; 117; 116; 104; 111; 114; 105; 122; 97; 116; 105; 111; 110; 77; 111; 100; 101; 108; 115];
    [69; 118; 97; 108; 117; 97; 116; 105; 111; 110];
    [69; 118; 97; 108; 117; 97; 116; 105; 111; 110; 115];
    [83; 117; 98; 106; 101; 99; 116; 83; 101; 97; 114; 99; 104];
    [82; 101; 115; 111; 117; 114; 99; 101; 83; 101; 97; 114; 99; 104];
    [65; 99; 116; 105; 111; 110; 83; 101; 97; 114; 99; 104];
    [71; 101; 116; 67; 111; 110; 102; 105; 103; 117; 114; 97; 116; 105; 111; 110];
    [66; 97; 116; 99; 104; 67; 104; 101; 99; 107];
    [67; 104; 101; 99; 107];
    [69; 120; 112; 97; 110; 100];
    [76; 105; 115; 116; 79; 98; 106; 101; 99; 116; 115];
    [83; 116; 114; 101; 97; 109; 101; 100; 76; 105; 115; 116; 79; 98; 106; 101; 99; 116; 115];
    [76; 105; 115; 116; 85; 115; 101; 114; 115];
    [82; 101; 97; 100];
    [82; 101; 97; 100; 67; 104; 97; 110; 103; 101; 115];
    [68; 101; 108; 101; 116; 101; 83; 116; 111; 114; 101];
    [71; 101; 116; 83; 116; 111; 114; 101];
    [87; 114; 105; 116; 101] ].

(* the only handlers that resolve the store's authorization model before they authorize
   (known finding model_read_before_authz): ActionSearch, Write.  Any other handler doing so is
   a property violation. *)
Definition spec_model_first_handlers : list bytes :=
  [ [65; 99; 116; 105; 111; 110; 83; 101; 97; 114; 99; 104]; [87; 114; 105; 116; 101] ].

Definition handler_store_scoped_b (n : bytes) : bool := bmem n spec_store_scoped_handlers.
Definition handler_known_b (n : bytes) : bool := bmem n spec_store_scoped_handlers.
Definition handler_model_read_before_authz_b (n : bytes) : bool := bmem n spec_model_first_handlers.
