(* C26 — API access control (experimental `enable-access-control`), decision logic of
     internal/authz/authz.go      Authorize, AuthorizeCreateStore, AuthorizeListStores,
                                  ListAuthorizedStores, GetModulesForWriteRequest,
                                  extractModulesFromTuples, individualAuthorize, moduleAuthorize,
                                  checkAuthClaims
     pkg/server/server.go         checkAuthz, checkWriteAuthz, checkCreateStoreAuthz,
                                  getAccessibleStores (error => ErrUnauthorizedResponse)
     pkg/server/stores.go         ListStores (empty accessible list => empty page, fix c075cf0;
                                  otherwise passes the accessible ids to the query)
     pkg/server/commands/list_stores.go + pkg/storage/memory/memory.go:847 (sqlite.go:1091)
                                  the IDs filter: `len(options.IDs) > 0`, i.e. empty = no filter
   Definitions only.  The API-method -> relation table, the relation constants, the module limit
   and the per-handler call order are NOT written here: they are regenerated from the Go source
   on every run (Generated/C26Tables.v, tool harness/cmd/gen_c26).

   What is NOT modelled (enters as a function argument, universally quantified in the theorems):
   - the answer of the access-control store: [g client relation object] is the result of the
     server's own Check on the access-control store with the contextual tuples that authz.go
     attaches (Some b = allowed b, None = Check returned an error);
   - [la client]: the answer of ListObjects(type store, relation can_call_get_store) on the
     access-control store (None = error);
   - the typesystem of the target store: a write request arrives as the list of per-tuple module
     lookups (type missing / relation missing / module name, [] = no module). *)
From OFGA Require Import Base.Bytes Generated.C26Tables.
From Coq Require Import String Ascii.
Open Scope N_scope.

Definition client := bytes.
Definition store_id := bytes.
Definition module_name := bytes.

(* authclaims.AuthClaimsFromContext: no claims in the context / claims with a client id *)
Inductive claims :=
| NoClaims
| Claims (client_id : client).

(* objects of the access-control model that authz.go asks about *)
Inductive ac_object :=
| OSystem                                   (* system:fga, no contextual tuples *)
| OStore (s : store_id)                     (* store:<s>, + contextual system:fga#system@store:<s> *)
| OModule (s : store_id) (m : module_name). (* module:<s>|<m>, + contextual store and system tuples *)

Definition grant_oracle := client -> relation -> ac_object -> option bool.
Definition list_oracle := client -> option (list store_id).

Inductive deny_reason :=
| DNoClient          (* "client ID not found in context or is empty" *)
| DNoRelation        (* getRelation: unknown API method *)
| DStoreNotAllowed   (* "check returned not allowed" on the store, no modules in the request *)
| DStoreError        (* "check returned error" on the store, no modules in the request *)
| DTooManyModules    (* more than MaxModulesInRequest modules and no store-level grant *)
| DModuleNotAllowed
| DModuleError
| DModuleLookup.     (* GetModulesForWriteRequest failed (type / relation not in the model) *)

Inductive decision :=
| Allow
| Deny (why : deny_reason).

Definition is_allow (d : decision) : bool :=
  match d with Allow => true | Deny _ => false end.

(* checkAuthClaims: `!found || claims.ClientID == ""` *)
Definition check_claims (cl : claims) : option client :=
  match cl with
  | NoClaims => None
  | Claims [] => None
  | Claims c => Some c
  end.

(* individualAuthorize: Check error => error; !allowed => error; else nil *)
Inductive ind_result := IndOk | IndNotAllowed | IndError.

Definition individual (g : grant_oracle) (c : client) (r : relation) (o : ac_object) : ind_result :=
  match g c r o with
  | Some true => IndOk
  | Some false => IndNotAllowed
  | None => IndError
  end.

(* moduleAuthorize: one goroutine per module, every failure is sent to a channel, the first
   error read from the channel is returned.  Which failure is reported when several modules
   fail depends on the schedule; the model reports the first failing module in list order.
   Only Allow/Deny is observable (checkAuthz maps every error to the same response). *)
Fixpoint module_authorize (g : grant_oracle) (c : client) (r : relation) (s : store_id)
         (mods : list module_name) : decision :=
  match mods with
  | [] => Allow
  | m :: rest =>
    match individual g c r (OModule s m) with
    | IndOk => module_authorize g c r s rest
    | IndNotAllowed => Deny DModuleNotAllowed
    | IndError => Deny DModuleError
    end
  end.

(* Authorizer.Authorize *)
Definition authorize (g : grant_oracle) (cl : claims) (m : api_method) (s : store_id)
           (mods : list module_name) : decision :=
  match check_claims cl with
  | None => Deny DNoClient
  | Some c =>
    match relation_of m with
    | None => Deny DNoRelation
    | Some r =>
      match individual g c r (OStore s) with
      | IndOk => Allow
      | top =>
        match mods with
        | [] => Deny (match top with IndError => DStoreError | _ => DStoreNotAllowed end)
        | _ :: _ =>
          (* len(modules) > MaxModulesInRequest *)
          if max_modules_in_request <? N.of_nat (List.length mods)
          then Deny DTooManyModules
          else module_authorize g c r s mods
        end
      end
    end
  end.

(* AuthorizeCreateStore / AuthorizeListStores: one check on system:fga *)
Definition authorize_system (g : grant_oracle) (cl : claims) (m : api_method) : decision :=
  match check_claims cl with
  | None => Deny DNoClient
  | Some c =>
    match relation_of m with
    | None => Deny DNoRelation
    | Some r =>
      match individual g c r OSystem with
      | IndOk => Allow
      | IndNotAllowed => Deny DStoreNotAllowed
      | IndError => Deny DStoreError
      end
    end
  end.

Definition authorize_create_store (g : grant_oracle) (cl : claims) : decision :=
  authorize_system g cl M_CreateStore.

(* ------------------------------------------------------------------------------------ *)
(* Write: GetModulesForWriteRequest / extractModulesFromTuples                           *)

(* per tuple (writes first, then deletes):
   typesys.GetTypeDefinition(type) missing                      -> LTypeNotFound
   parser.GetModuleForObjectTypeRelation: relation not in type  -> LNoRelation
   otherwise the relation's module, else the type's module      -> LModule m   ([] = none) *)
Inductive mod_lookup :=
| LTypeNotFound
| LNoRelation
| LModule (m : module_name).

Inductive mods_result :=
| MErr
| MMods (ms : list module_name).

Fixpoint bmem (x : bytes) (l : list bytes) : bool :=
  match l with
  | [] => false
  | y :: r => beqb x y || bmem x r
  end.

(* the Go code collects a map (set) of modules; an error stops with an error; the first tuple
   whose type has no module stops with `nil, nil` (later tuples are not looked at) *)
Fixpoint extract_modules (ls : list mod_lookup) (acc : list module_name) : mods_result :=
  match ls with
  | [] => MMods acc
  | LTypeNotFound :: _ => MErr
  | LNoRelation :: _ => MErr
  | LModule [] :: _ => MMods []
  | LModule m :: r => extract_modules r (if bmem m acc then acc else acc ++ [m])
  end.

(* checkWriteAuthz *)
Definition write_authorize (g : grant_oracle) (cl : claims) (s : store_id)
           (ls : list mod_lookup) : decision :=
  match extract_modules ls [] with
  | MErr => Deny DModuleLookup
  | MMods ms => authorize g cl M_Write s ms
  end.

(* ------------------------------------------------------------------------------------ *)
(* ListStores                                                                            *)

(* getAccessibleStores: AuthorizeListStores, then ListAuthorizedStores; any error => denied *)
Definition accessible_stores (g : grant_oracle) (la : list_oracle) (cl : claims)
  : option (list store_id) :=
  match authorize_system g cl M_ListStores with
  | Deny _ => None
  | Allow =>
    match check_claims cl with
    | None => None
    | Some c => la c
    end
  end.

(* memory.go ListStores: `if len(options.IDs) > 0 { for id in IDs { for st in stores { id == st.id } } }`
   then the name filter `options.Name != ""`.  Sorting and paging are not modelled: the
   correspondence reads all pages and compares sorted id lists. *)
Definition backend_list_stores (ids : list store_id) (name : bytes)
           (all : list (store_id * bytes)) : list (store_id * bytes) :=
  let by_id :=
    match ids with
    | [] => all
    | _ :: _ => flat_map (fun id => filter (fun st => beqb (fst st) id) all) ids
    end in
  match name with
  | [] => by_id
  | _ :: _ => filter (fun st => beqb (snd st) name) by_id
  end.

(* sqlite.go ListStores: `if len(options.IDs) > 0 { WHERE id IN (IDs) }`, `deleted_at IS NULL`
   (the live list [all] holds undeleted stores only), then the name filter *)
Definition backend_list_stores_sqlite (ids : list store_id) (name : bytes)
           (all : list (store_id * bytes)) : list (store_id * bytes) :=
  let by_id :=
    match ids with
    | [] => all
    | _ :: _ => filter (fun st => bmem (fst st) ids) all
    end in
  match name with
  | [] => by_id
  | _ :: _ => filter (fun st => beqb (snd st) name) by_id
  end.

Inductive ls_result :=
| LSDenied
| LSStores (ids : list store_id).

(* Server.ListStores (pkg/server/stores.go, after fix c075cf0).  [ids] is what getAccessibleStores
   returned: None = nil slice (access control off / skip-authz context: no filter), Some l = the
   authorizer's list.  `if storeIDs != nil && len(storeIDs) == 0 { return empty page }` comes
   before the query, so the backends never see an empty non-nil list from this handler. *)
Definition handler_list_stores (backend : list store_id -> bytes -> list (store_id * bytes) -> list (store_id * bytes))
           (ids : option (list store_id)) (name : bytes) (all : list (store_id * bytes))
  : list (store_id * bytes) :=
  match ids with
  | Some [] => []
  | Some l => backend l name all
  | None => backend [] name all
  end.

(* under access control: denied, or the handler applied to the authorizer's (non-nil) list *)
Definition list_stores (g : grant_oracle) (la : list_oracle) (cl : claims) (name : bytes)
           (all : list (store_id * bytes)) : ls_result :=
  match accessible_stores g la cl with
  | None => LSDenied
  | Some ids => LSStores (map fst (handler_list_stores backend_list_stores (Some ids) name all))
  end.

Definition list_stores_sqlite (g : grant_oracle) (la : list_oracle) (cl : claims) (name : bytes)
           (all : list (store_id * bytes)) : ls_result :=
  match accessible_stores g la cl with
  | None => LSDenied
  | Some ids => LSStores (map fst (handler_list_stores backend_list_stores_sqlite (Some ids) name all))
  end.

(* historical: the handler before c075cf0 passed the list straight to the backend *)
Definition list_stores_pre_c075cf0 (g : grant_oracle) (la : list_oracle) (cl : claims) (name : bytes)
           (all : list (store_id * bytes)) : ls_result :=
  match accessible_stores g la cl with
  | None => LSDenied
  | Some ids => LSStores (map fst (backend_list_stores ids name all))
  end.

(* ------------------------------------------------------------------------------------ *)
(* The property's own reading (specification side).  The relation of a method is written  *)
(* here by hand, independently of the switch in authz.go; AuthzProofs.relation_table_spec *)
(* proves that the regenerated switch agrees with it.                                     *)

Definition spec_relation (m : api_method) : relation :=
  match m with
  | M_ReadAuthorizationModel => R_CanCallReadAuthorizationModels
  | M_ReadAuthorizationModels => R_CanCallReadAuthorizationModels
  | M_Read => R_CanCallRead
  | M_Write => R_CanCallWrite
  | M_ListObjects => R_CanCallListObjects
  | M_StreamedListObjects => R_CanCallListObjects
  | M_Check => R_CanCallCheck
  | M_BatchCheck => R_CanCallCheck
  | M_ListUsers => R_CanCallListUsers
  | M_WriteAssertions => R_CanCallWriteAssertions
  | M_ReadAssertions => R_CanCallReadAssertions
  | M_WriteAuthorizationModel => R_CanCallWriteAuthorizationModels
  | M_ListStores => R_CanCallListStores
  | M_CreateStore => R_CanCallCreateStore
  | M_GetStore => R_CanCallGetStore
  | M_DeleteStore => R_CanCallDeleteStore
  | M_Expand => R_CanCallExpand
  | M_ReadChanges => R_CanCallReadChanges
  end.

(* "the access-control store grants the caller the relation on that store, or (modules ≠ [],
   at most MaxModulesInRequest of them) on each module" *)
Definition granted_b (g : grant_oracle) (c : client) (r : relation) (s : store_id)
           (mods : list module_name) : bool :=
  match g c r (OStore s) with
  | Some true => true
  | _ =>
    match mods with
    | [] => false
    | _ :: _ =>
      (N.of_nat (List.length mods) <=? max_modules_in_request) &&
      forallb (fun m => match g c r (OModule s m) with Some true => true | _ => false end) mods
    end
  end.

Definition spec_allowed (g : grant_oracle) (cl : claims) (m : api_method) (s : store_id)
           (mods : list module_name) : bool :=
  match cl with
  | Claims (b :: c) => granted_b g (b :: c) (spec_relation m) s mods
  | _ => false
  end.

Definition spec_write_allowed (g : grant_oracle) (cl : claims) (s : store_id)
           (ls : list mod_lookup) : bool :=
  match extract_modules ls [] with
  | MErr => false
  | MMods ms => spec_allowed g cl M_Write s ms
  end.

Definition spec_system_allowed (g : grant_oracle) (cl : claims) (m : api_method) : bool :=
  match cl with
  | Claims (b :: c) => match g (b :: c) (spec_relation m) OSystem with Some true => true | _ => false end
  | _ => false
  end.

(* ------------------------------------------------------------------------------------ *)
(* The regenerated handler table: who authorizes before touching data                     *)

Fixpoint find_handler (n : string) (hs : list c26_handler) : option c26_handler :=
  match hs with
  | [] => None
  | h :: r => if String.eqb (h_name h) n then Some h else find_handler n r
  end.

(* [strict] = resolving the store's authorization model (s.resolveTypesystem, a datastore read
   that also sets the model-id response header) counts as data access.
   [authed] becomes true after a *guarded* authz call: a top-level statement whose error is
   returned immediately.  A call of another RPC handler is not a data access of this handler;
   the callee must itself pass ([self_ok]). *)
Fixpoint calls_ok (strict : bool) (self_ok : string -> bool) (authed : bool)
         (cs : list c26_call) : bool :=
  match cs with
  | [] => true
  | c :: r =>
    match c with
    | CValidate => calls_ok strict self_ok authed r
    | CAuthz _ _ g => calls_ok strict self_ok (authed || g) r
    | CWriteAuthz g => calls_ok strict self_ok (authed || g) r
    | CCreateStoreAuthz g => calls_ok strict self_ok (authed || g) r
    | CAccessibleStores g => calls_ok strict self_ok (authed || g) r
    | CResolveModel => (authed || negb strict) && calls_ok strict self_ok authed r
    | CData _ => authed && calls_ok strict self_ok authed r
    | CDelegate h _ => self_ok h && calls_ok strict self_ok authed r
    | CUnknown _ => false
    end
  end.

Fixpoint handler_ok (fuel : nat) (strict : bool) (n : string) : bool :=
  match fuel with
  | O => false
  | S f =>
    match find_handler n c26_handlers with
    | None => false
    | Some h => calls_ok strict (handler_ok f strict) false (h_calls h)
    end
  end.

Definition handler_fuel : nat := S (List.length c26_handlers).

(* authz call precedes every command / datastore call and every model resolution *)
Definition authorizes_first (h : c26_handler) : bool := handler_ok handler_fuel true (h_name h).
(* authz call precedes every command / datastore call (model resolution may come first) *)
Definition authorizes_before_commands (h : c26_handler) : bool := handler_ok handler_fuel false (h_name h).

(* trigger: the handler (or a handler it calls) resolves the model before it authorizes *)
Definition tr_model_read_before_authz (h : c26_handler) : bool :=
  authorizes_before_commands h && negb (authorizes_first h).

(* every checkAuthz call of handler H names apimethod.H and the request's own store id *)
Definition checks_own_method (h : c26_handler) : bool :=
  forallb (fun c => match c with
                    | CAuthz m st _ => String.eqb m (h_name h) && String.eqb st "req.GetStoreId()"
                    | _ => true
                    end) (h_calls h).

Definition is_authz_call (c : c26_call) : bool :=
  match c with
  | CAuthz _ _ _ | CWriteAuthz _ | CCreateStoreAuthz _ | CAccessibleStores _ => true
  | _ => false
  end.

Definition delegates_of (h : c26_handler) : list string :=
  flat_map (fun c => match c with CDelegate n _ => [n] | _ => [] end) (h_calls h).

Definition touches_data (h : c26_handler) : bool :=
  existsb (fun c => match c with CData _ | CResolveModel | CUnknown _ => true | _ => false end) (h_calls h).

(* handlers with no authz call of their own *)
Definition handlers_without_own_authz : list (string * list string * bool) :=
  map (fun h => (h_name h, delegates_of h, touches_data h))
      (filter (fun h => negb (existsb is_authz_call (h_calls h))) c26_handlers).

(* hand-written review list: the AuthZEN front-ends call the core handlers; GetConfiguration
   returns configuration only *)
Definition spec_handlers_without_own_authz : list (string * list string * bool) :=
  [("Evaluation", ["Check"], false);
   ("Evaluations", ["Evaluation"; "Check"; "BatchCheck"], false);
   ("SubjectSearch", ["ListUsers"], false);
   ("ResourceSearch", ["StreamedListObjects"], false);
   ("ActionSearch", ["BatchCheck"], true);
   ("GetConfiguration", [], false)]%string.

Definition spec_authz_helpers : list (string * bool * list string) :=
  [("checkAuthz", true, ["Authorize"]);
   ("checkCreateStoreAuthz", true, ["AuthorizeCreateStore"]);
   ("getAccessibleStores", true, ["AuthorizeListStores"; "ListAuthorizedStores"]);
   ("checkWriteAuthz", true, ["GetModulesForWriteRequest"; "->checkAuthz"])]%string.

(* ------------------------------------------------------------------------------------ *)
(* Lookups by the byte strings that the Go driver writes                                  *)

Fixpoint find_by_bytes {A} (name : A -> list N) (b : bytes) (l : list A) : option A :=
  match l with
  | [] => None
  | x :: r => if beqb (name x) b then Some x else find_by_bytes name b r
  end.

Definition method_of_bytes (b : bytes) : option api_method :=
  find_by_bytes api_method_bytes b all_api_methods.
Definition relation_of_bytes (b : bytes) : option relation :=
  find_by_bytes relation_bytes b all_relations.

Fixpoint bytes_of_string (s : string) : bytes :=
  match s with
  | EmptyString => []
  | String a r => N_of_ascii a :: bytes_of_string r
  end.

(* per handler: (name, (store-scoped, (model read before authz, authorizes first))).  The table is
   stored in computed form so that the extracted oracle does not depend on Coq strings;
   AuthzProofs.handler_flags_computed proves it equal to its definition. *)
Definition handler_flags_def : list (bytes * (bool * (bool * bool))) :=
  map (fun h => (bytes_of_string (h_name h),
                 (h_store_scoped h, (tr_model_read_before_authz h, authorizes_first h))))
      c26_handlers.
Definition handler_flags : list (bytes * (bool * (bool * bool))) :=
  Eval vm_compute in handler_flags_def.

Fixpoint find_flags (n : bytes) (l : list (bytes * (bool * (bool * bool)))) : option (bool * (bool * bool)) :=
  match l with
  | [] => None
  | (k, v) :: r => if beqb k n then Some v else find_flags n r
  end.

Definition handler_known_b (n : bytes) : bool :=
  match find_flags n handler_flags with Some _ => true | None => false end.
Definition handler_store_scoped_b (n : bytes) : bool :=
  match find_flags n handler_flags with Some (a, _) => a | None => false end.
Definition handler_model_read_before_authz_b (n : bytes) : bool :=
  match find_flags n handler_flags with Some (_, (b, _)) => b | None => false end.
Definition handler_authorizes_first_b (n : bytes) : bool :=
  match find_flags n handler_flags with Some (_, (_, c)) => c | None => false end.
