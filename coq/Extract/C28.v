(* Extraction of the C28 model.  Directives used: exactly those of ExtrOcamlBasic. *)
Require Extraction.
Require Import ExtrOcamlBasic.
From OFGA Require Import Codec.Token.
Extraction Language OCaml.
Extraction "c28_model.ml"
  b64_encode b64_decode is_b64_byte bytes_ok serialize deserialize
  gcm_encrypt gcm_decrypt enc_encode enc_decode read_changes_resume read_resume issue_token gcm_b64.
