(* Extraction of the C21 model.  Directives used: exactly those of ExtrOcamlBasic. *)
Require Extraction.
Require Import ExtrOcamlBasic.
From OFGA Require Import Conc.StatusPool Conc.CycleGroup.
From Coq Require Import NArith.
(* N.of_nat is extracted only so that the number types used by ocaml/conv.ml exist *)
Extraction Language OCaml.
Extraction "c21_model.ml"
  new_pool m_register m_inc m_dec m_set m_wait joined_pool
  new_group g_join join_seq g_signal_ready g_inc g_dec g_wake g_sleep_returns g_wait g_next
  g_string g_node nxt is_leader
  N.of_nat
  init step run run_rr final canon_log workload msize all_tids std_done rec_done edge_closed.
