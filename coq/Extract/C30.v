(* Extraction of the Expand model and of the executable specification check. *)
Require Extraction.
Require Import ExtrOcamlBasic.
From OFGA Require Import Query.Expand.
Extraction Language OCaml.
Extraction "c30_model.ml" expand_top expand_rw check_tree valid_for_read ctx_tuple_err skeleton shape read_valid tuplesets_defined get_relation length.
