(* Extraction of the C15 model (same roots as C12: one model serves both) (memory write, command validation, sqlite transaction, spec).
   Directives used: exactly those of ExtrOcamlBasic. *)
Require Extraction.
Require Import ExtrOcamlBasic.
From OFGA Require Import Store.Memory Store.SqlTxn.
Extraction Language OCaml.
Extraction "c15_model.ml"
  mem_write mem_cmd_write read_changes obs_tuples obs_log empty_state
  sql_write_c sql_cmd_write_c sql_obs_tuples sql_obs_log sql_read_changes lrow_obs eng_empty
  spec_write cmd_validate wf_request wf_store wf_key nodup_keys req_keys key_eqb
  trig_mem_ctx trig_partial_match trig_sql_ctx obs_change type_ok
  read_changes_cmd follow_tokens sql_read_page sql_follow_tokens.
