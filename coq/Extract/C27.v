(* Extraction of the C27 model.  Directives used: exactly those of ExtrOcamlBasic. *)
Require Extraction.
Require Import ExtrOcamlBasic.
From OFGA Require Import Base.Bytes Sec.Authn.
Extraction Language OCaml.
Extraction "c27_model.ml"
  auth_from_md ct_compare psk_new psk_authenticate psk_class
  oidc_new oidc_authenticate oidc_class accepted validity_of decide property_literal extra_ok
  cfg_wf bmem beqb oidc_run psk_run.
