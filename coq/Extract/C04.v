(* Extraction for C04: the combined-reader model, the reference semantics, the default-engine
   algorithm model (for the trigger flags of the C01 findings) and the C04 trigger predicates;
   the ListUsers algorithm model of C06 (outcome set and triggers) to attribute a ListUsers difference. *)
Require Extraction.
Require Import ExtrOcamlBasic.
From OFGA Require Import Check.V1 Check.CtxTriggers Query.ListUsers Store.CombinedReader.
Extraction Language OCaml.
Extraction "c04_model.ml"
  combined_read_over combined_read_user_tuple_over combined_read_userset_tuples_over combined_rswu_over
  sorted_result_ok_over ctx_rswu_part combined_read_page
  read read_user_tuple read_userset_tuples rswu rswu_sorted
  read_shape_ok rut_shape_ok usersets_shape_ok rswu_shape_ok keys_unique disjoint_keys objs_unique tuple_eqb
  index_by_user index_by_object
  lfp atomval stratified check_top valid_for_read
  lenient_cond wild_direct_conflict model_recursive
  list_users.
