(* Extraction for C05: the reference semantics and the default-engine Check model (as C01) plus
   the evaluate / limit layer of ListObjects instantiated on interned object numbers. *)
Require Extraction.
Require Import ExtrOcamlBasic.
From OFGA Require Import Check.V1 Query.ListObjects.
Extraction Language OCaml.
Extraction "c05_model.ml" lfp atomval stratified check_top valid_for_read final_levels
  evaluate_nat nofurther_sound_nat complete_nat nodupb_nat same_set_nat attempts_nat distinct_objs_nat execute_nat pipeline_recv_nat.
