(* Extraction of the C11 model.  Directives used: exactly those of ExtrOcamlBasic. *)
Require Extraction.
Require Import ExtrOcamlBasic.
From OFGA Require Import Cache.Controller.
Extraction Language OCaml.
Extraction "c11_model.ml"
  init_state step run_ops run_outs out_src fresh_atb view touches cfg_ok hist_ok req_ok forest_flat qleaf
  s_now s_db s_ic s_qc s_cl s_mk s_run s_done markers_of_write markers_of_key.
