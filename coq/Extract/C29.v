(* Extraction of the C29 model.  Directives used: exactly those of ExtrOcamlBasic. *)
Require Extraction.
Require Import ExtrOcamlBasic.
From OFGA Require Import Codec.TupleStr.
Extraction Language OCaml.
Extraction "c29_model.ml"
  split_object split_object_relation is_valid_object is_valid_relation is_valid_userid
  is_valid_userset is_valid_user is_wildcard is_typed_wildcard user_type_is_userset
  to_user_parts string_to_user_proto parse_tuple_string get_type get_relation
  from_user_parts build_object to_object_relation_string tuple_key_to_string
  user_proto_to_string is_self_defining userset_match_type_and_relation typed_public_wildcard.
