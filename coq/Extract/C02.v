(* Extraction for C02: reference semantics + default-engine model (as C01) and the strategy
   models (fast-path set operations, weight2, recursive BFS). *)
Require Extraction.
Require Import ExtrOcamlBasic.
From OFGA Require Import Check.V1 Check.V1Weight2 Check.V1Recursive Check.V1FastPathSource.
Extraction Language OCaml.
Extraction "c02_model.ml" lfp atomval stratified check_top valid_for_read final_levels
  fp_union_c fp_inter_c fp_diff_c weight2 rec_check bfs rec_fast ssortedb lvals rvals intersects left_ok right_ok source_impl cond_chunk.
