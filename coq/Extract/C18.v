(* Extraction of the C18 model (write-time tuple validation) for the oracle. *)
Require Extraction.
Require Import ExtrOcamlBasic.
From OFGA Require Import Sem.ValidWrite.
Extraction "c18_model.ml"
  validate_tuple validate_write valid_for_write valid_ctx_tuple implicit ctx_size
  allowed_raw lax_cond_raw lax_nocond_raw parse self_pointing
  env_wf restr_wf tupleset_direct cds_wf rt_wf no_cond_kind_mix
  write_cmd key_of.
