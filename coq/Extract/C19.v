(* Extraction of the C19 model.  Directives used: exactly those of ExtrOcamlBasic. *)
Require Extraction.
Require Import ExtrOcamlBasic.
From OFGA Require Import Sec.NoPanic.
From OFGA Require Store.Paging Codec.KeyEnc.
Extraction Language OCaml.
Extraction "c19_model.ml"
  read_request_mem read_page_mem negative_offset_token page_clamped changes_slice page_slice
  pb_write_i KeyEnc.enc_pb KeyEnc.pb_size rpaths shape rsize
  to_user_parts_go split_object_go split_object_relation_go from_user_parts_go
  model_cost has_cycle rw_nodes struct_walk rdepth wire_min
  fate_of recover_to_error
  Paging.itoa Paging.parse_from Paging.deserialize.
