(* Extraction of the C13 models.  Directives used: exactly those of ExtrOcamlBasic. *)
Require Extraction.
Require Import ExtrOcamlBasic.
From OFGA Require Import Store.ReadSpec Store.MemoryRead Store.SqlRead Store.ReadFlags.
Extraction Language OCaml.
Extraction "c13_model.ml"
  read_spec read_user_tuple_spec read_userset_tuples_spec rswu_spec
  memory_read memory_read_user_tuple memory_read_userset_tuples memory_rswu
  sql_read sql_read_user_tuple sql_read_userset_tuples sql_rswu
  wf_store keys_unique wf_read_filter key_full wf_usersets_filter
  flag_read_all_ignores_conditions
  flag_rswu_duplicate_user_filter flag_rswu_empty_object_ids
  obs
  length (* keeps the datatype nat in the module: ocaml/conv.ml refers to it *).
