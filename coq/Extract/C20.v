(* Extraction of the default-engine algorithm model together with the fuel bounds and the
   closure predicate of the termination theorems (Props/C20.v). *)
Require Extraction.
Require Import ExtrOcamlBasic.
From OFGA Require Import Check.V1 Check.V1Proofs Check.V1Termination.
Extraction Language OCaml.
Extraction "c20_model.ml" check_top max_rels universe_closed amem valid_for_read.
