(* Extraction of the C23 models.  Directives used: exactly those of ExtrOcamlBasic. *)
Require Extraction.
Require Import ExtrOcamlBasic.
From OFGA Require Import Cache.IterAdapters Cache.SharedIter.
Extraction Language OCaml.
Extraction "c23_model.ml"
  src_of src_obs src_next src_head src_stop run nexts static_run error_next
  concat_init concat_next concat_head concat_stop concat_obs
  merge_init merge_next merge_head merge_stop merge_obs
  apply_filters cf_init cf_next cf_head gf_head cf_stop cf_obs
  one_init one_stop_once one_stop_always one_obs flt_next flt_head val_next val_head map_next map_head
  skip_to comb_init comb_next comb_head comb_stop comb_obs
  oc_init oc_next oc_head oc_stop oc_obs
  fc_init fc_next fc_head fc_stop fc_obs to_channel
  streams_run streams_obs fan_in_sched is_interleaving
  sys_init sys_run ds_init ds_step ds_run ds_obs ideal clean_prefix term_err.
