(* Extraction of the C24 model.  Directives used: exactly those of ExtrOcamlBasic. *)
Require Extraction.
Require Import ExtrOcamlBasic.
From OFGA Require Import Codec.Varint Codec.KeyEnc.
Extraction Language OCaml.
Extraction "c24_model.ml"
  uvarint le64 enc_ser ser_wf enc_pb pb_write_outcome pb_write pb_write_opt pb_wf pb_keys_unique
  enc_tuple tk_less sort_tuples tk_tie tie_free tk_wf inv_bytes
  pkey_bytes pkey_wf pkey_domain pkey_store
  rswu_stage1 rut_stage1 read_stage1 rswu_key rut_key read_key invariant_key batch_key edge_key
  uf_wf ref_wf uf_str ref_str sort_strings oid_values.
