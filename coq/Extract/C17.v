(* Extraction of the C17 model.  Directives used: exactly those of ExtrOcamlBasic. *)
Require Extraction.
Require Import ExtrOcamlBasic.
From OFGA Require Import Store.Assertions Store.Models.
Extraction Language OCaml.
Extraction "c17_model.ml"
  t_mem_trace t_sql_trace t_spec_trace t_trace_ok t_ids_increasing t_mem_btrace t_sql_btrace
  t_crun t_all_own_store t_all_fresh t_leaders_fresh t_some_joined tbody_eqb is_ulid bltb.
