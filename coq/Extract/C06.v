(* Extraction of the ListUsers algorithm model, the reference semantics and the default-engine
   Check model (used to classify the individual re-checks). *)
Require Extraction.
Require Import ExtrOcamlBasic.
From OFGA Require Import Check.V1 Query.ListUsers.
Extraction Language OCaml.
Extraction "c06_model.ml" lfp atomval stratified check_top valid_for_read final_levels
  list_users list_users_nkeys list_users_may validate lu_union lu_inter lu_excl resolve den.
