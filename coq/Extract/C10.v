(* Extraction of the C10 replay model.  Directives used: exactly those of ExtrOcamlBasic. *)
Require Extraction.
Require Import ExtrOcamlBasic.
From OFGA Require Import Cache.Consistency.
Extraction Language OCaml.
Extraction "c10_model.ml" replay predictions rs0 mkR mkReq Nat.add.
