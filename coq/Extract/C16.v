(* Extraction of the C16 model.  Directives used: exactly those of ExtrOcamlBasic. *)
Require Extraction.
Require Import ExtrOcamlBasic.
From OFGA Require Import Store.Assertions Store.Models Store.Stores.
Extraction Language OCaml.
Extraction "c16_model.ml" t_strace sql_ttrace t_outs_on t_on_store store_ok rel_viewer rel_editor Nat.add.
