(* Extraction of the C25 model.  Directives used: exactly those of ExtrOcamlBasic. *)
Require Extraction.
Require Import ExtrOcamlBasic.
From OFGA Require Import Sem.Cond.
Extraction Language OCaml.
Extraction "c25_model.ml"
  evaluate_tuple_condition evaluate convert spec_convert as_interface eval_flag conv_flag
  num_rounded num_inexact merge lookup parse_bigf compiles eval dy_compare fcompare ctx_size.
