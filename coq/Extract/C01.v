(* Extraction of the reference semantics and of the default-engine algorithm model. *)
Require Extraction.
Require Import ExtrOcamlBasic.
From OFGA Require Import Check.V1.
Extraction Language OCaml.
Extraction "c01_model.ml" lfp atomval stratified check_top valid_for_read final_levels.
