(* Extraction of the C26 model.  Directives used: exactly those of ExtrOcamlBasic.
   Depends on the model file Sec/Authz.v only (not on the regenerated facts, not on proofs): the
   oracle is available to the search phase also when a proof over Generated/C26Tables.v breaks. *)
Require Extraction.
Require Import ExtrOcamlBasic.
From OFGA Require Import Sec.Authz.
Extraction Language OCaml.
Extraction "c26_model.ml"
  authorize write_authorize authorize_create_store authorize_system list_stores list_stores_sqlite accessible_stores
  list_stores_pre_c075cf0 list_stores_from authorize_fault write_authorize_fault fault_fires with_fault fault_at extract_modules is_allow
  spec_allowed spec_write_allowed spec_system_allowed spec_relation relation_of
  method_of_bytes relation_of_bytes relation_bytes api_method_bytes all_api_methods all_relations
  handler_known_b handler_store_scoped_b handler_model_read_before_authz_b
  max_modules_in_request.
