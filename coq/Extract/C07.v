(* Extraction of the C07 model (Query/Batch.v) and of the default-engine algorithm model
   (Check/V1.v: the set of outcomes one Check may produce, used as tolerance for scheduler-
   dependent outcomes).  Directives used: exactly those of ExtrOcamlBasic. *)
Require Extraction.
Require Import ExtrOcamlBasic.
From OFGA Require Import Check.V1 Query.Batch.
Extraction Language OCaml.
Extraction "c07_model.ml"
  rec_batch rec_api_batch rec_no_key_collision rec_check_respects id_pattern_ok api_code
  outcome_eqb check_top.
