(* Extraction of the AuthZEN endpoint model. *)
Require Extraction.
Require Import ExtrOcamlBasic.
From OFGA Require Import Query.Authzen.
Extraction Language OCaml.
Extraction "c32_model.ml" evaluation evaluations subject_search resource_search action_search
  merge_properties_to_context build_check_request model_id_from_header lookup length subject_search_map resource_search_map.
