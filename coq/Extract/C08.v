(* Extraction of the Check query cache model (Check/QueryCache.v), the default-engine algorithm
   model and the reference semantics. *)
Require Extraction.
Require Import ExtrOcamlBasic.
From OFGA Require Import Check.V1 Check.QueryCache.
Extraction Language OCaml.
Extraction "c08_model.ml" lfp atomval stratified check_top valid_for_read
  resolve_top check_nc unfold run_requests run_history cstore clook
  succs reach v2_visited_hazard.
