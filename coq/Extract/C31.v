(* Extraction of the C31 model.  Directives used: exactly those of ExtrOcamlBasic. *)
Require Extraction.
Require Import ExtrOcamlBasic.
From OFGA Require Import Store.Assertions.
Extraction Language OCaml.
Extraction "c31_model.ml"
  mem_d_trace sql_d_trace mem_s_trace sql_s_trace d_trace_ok s_trace_ok pipe_collision
  dops_store_ok asrts_eqb is_ulid d_expected s_expected.
