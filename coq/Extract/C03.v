(* Extraction for C03: reference semantics + default-engine algorithm model (as for C01), the
   v2breaking detector model, the C03 contract, the deviation-naming semantics variants. *)
Require Extraction.
Require Import ExtrOcamlBasic.
From OFGA Require Import Check.V1 Check.V2Breaking Check.V2Contract Check.V2Sem.
Extraction Language OCaml.
Extraction "c03_model.ml" lfp atomval stratified check_top valid_for_read final_levels
  check_reason excl_reason reason_from_error terminal_raw terminal_mapped documented_error
  server_fallback server_final server_reason kind_of c03_ok clause1 clause2 clause3
  lfp_q atomval_q noquirks keep_last_recursive has_two_recursive swallow strip_ttu_userset has_ttu_userset strict_cond has_lax_cond is_tupleset.
