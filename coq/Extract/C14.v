(* Extraction of the C14 model.  Directives used: exactly those of ExtrOcamlBasic. *)
Require Extraction.
Require Import ExtrOcamlBasic.
From OFGA Require Import Store.Paging.
Extraction Language OCaml.
Extraction "c14_model.ml"
  read_mem read_sql changes_mem changes_sql stores_mem stores_sql models_mem models_sql
  follow follow_changes with_b64 read_tk_ok
  strictly_sorted nodupb ulid_parse norm_key page_size_opt atoi itoa
  read_sql_f stores_sql_f models_sql_f changes_sql_f keyset_fault_in_range storage_from desc.
