(* Extraction of the C22 models.  Directives used: exactly those of ExtrOcamlBasic. *)
Require Extraction.
Require Import ExtrOcamlBasic.
From OFGA Require Import Conc.FifoSpec Conc.Mpmc Conc.Mpsc Conc.Medium.
Extraction Language OCaml.
Extraction "c22_model.ml"
  spec_step chan0 run_spec
  init step run run_strict run_thread size lost_wakeup_state multi_receiver thread_idle_done
  lw_progs lw_sched
  minit mstep mrun mrun_thread consumer_stuck prods_idle next_of_tail
  minit_medium med_step med_step_alt send_live queue_send_live recv_live.
