(* Extraction of the C09 model.  Directives used: exactly those of ExtrOcamlBasic. *)
Require Extraction.
Require Import ExtrOcamlBasic.
From OFGA Require Import Cache.CachedIter Cache.CachedIterAdmit Cache.CachedIterShared.
Extraction Language OCaml.
Extraction "c09_model.ml"
  init_state step run kf_of bypass elide reconstruct minimal reconstruct2 strip_ts consistent consistent2
  decode alist_get it_key it_out it_live st_clock st_cache st_iters st_writes st_sf st_srv st_inval
  mi_phase mi_buf hi_items ainit astep arun aout_ok aout_leak sh_init sh_step sh_inner_stopped.
