(* Reference semantics of Check (spec layer): Kleene three-valued least fixpoint of the model's
   rewrites over the tuples, computed stratum by stratum (strata w.r.t. "occurs under the
   subtract branch of a difference").  Independent of any implementation strategy. *)
From OFGA Require Export Sem.Valid.
Open Scope N_scope.

Definition atom := (obj * rid)%type.
Definition atom_eqb (a b : atom) : bool := obj_eqb (fst a) (fst b) && N.eqb (snd a) (snd b).

Definition valuation := list (atom * b3).
Fixpoint vget (v : valuation) (a : atom) : b3 :=
  match v with
  | [] => F
  | (b, x) :: v' => if atom_eqb a b then x else vget v' a
  end.

Section Sem.
  Variable m : model.
  Variable conds : list cid.
  Variable store : list tuple.      (* stored and contextual tuples together *)
  Variable subj : subject.          (* the request's user *)

  Definition vtuples : list tuple := filter (valid_for_read m conds) store.

  Definition tuples_of (o : obj) (r : rid) : list tuple :=
    filter (fun t => obj_eqb (t_obj t) o && N.eqb (t_rel t) r) vtuples.

  (* value of an atom, with the reflexive base case for userset subjects
     (object#relation@object#relation holds by definition) *)
  Definition atomval (v : valuation) (o : obj) (r : rid) : b3 :=
    if subject_eqb subj (SSet o r) then T else vget v (o, r).

  (* one tuple's contribution to a direct assignment *)
  Definition direct1 (v : valuation) (t : tuple) : b3 :=
    if subject_eqb (t_sub t) subj then t_ceval t
    else match t_sub t with
         | SWild ty => match subj with
                       | SObj so => if N.eqb (otype so) ty then t_ceval t else F
                       | _ => F
                       end
         | SSet o' r' => and3 (t_ceval t) (atomval v o' r')
         | SObj _ => F
         end.

  Definition ttu1 (v : valuation) (c : rid) (t : tuple) : b3 :=
    match t_sub t with
    | SObj o' => if rel_defined m (otype o') c then and3 (t_ceval t) (atomval v o' c) else F
    | _ => F
    end.

  Fixpoint eval_rw (v : valuation) (o : obj) (r : rid) (rw : rewrite) : b3 :=
    match rw with
    | This => or3_list (map (direct1 v) (tuples_of o r))
    | Computed r' => atomval v o r'
    | TTU ts c => or3_list (map (ttu1 v c) (tuples_of o ts))
    | Union l => or3_list ((fix go (l : list rewrite) := match l with [] => [] | x :: l' => eval_rw v o r x :: go l' end) l)
    | Inter l => and3_list ((fix go (l : list rewrite) := match l with [] => [] | x :: l' => eval_rw v o r x :: go l' end) l)
    | Diff b s => diff3 (eval_rw v o r b) (eval_rw v o r s)
    end.

  Definition eval_atom (v : valuation) (a : atom) : b3 :=
    match get_relation m (otype (fst a)) (snd a) with
    | Some rd => eval_rw v (fst a) (snd a) (rd_rw rd)
    | None => F
    end.

  (* ---- strata ---- *)
  (* dependencies of a rewrite of type t: (type, relation, under-negation) *)
  Definition restr_usersets (rs : list restriction) : list (tid * rid) :=
    flat_map (fun d => match r_kind d with RSet r => [(r_type d, r)] | _ => [] end) rs.
  Definition restr_objtypes (rs : list restriction) : list tid :=
    flat_map (fun d => match r_kind d with RObj => [r_type d] | _ => [] end) rs.

  Fixpoint deps (t : tid) (self : reldef) (neg : bool) (rw : rewrite) : list (tid * rid * bool) :=
    match rw with
    | This => map (fun p => (fst p, snd p, neg)) (restr_usersets (rd_restr self))
    | Computed r' => [(t, r', neg)]
    | TTU ts c =>
        match get_relation m t ts with
        | Some tsd => flat_map (fun t' => if rel_defined m t' c then [(t', c, neg)] else []) (restr_objtypes (rd_restr tsd))
        | None => []
        end
    | Union l | Inter l => (fix go (l : list rewrite) := match l with [] => [] | x :: l' => deps t self neg x ++ go l' end) l
    | Diff b s => deps t self neg b ++ deps t self true s
    end.

  Definition levels := list (tid * rid * nat).
  Fixpoint lvl_get (L : levels) (t : tid) (r : rid) : nat :=
    match L with
    | [] => O
    | (t', r', n) :: L' => if N.eqb t t' && N.eqb r r' then n else lvl_get L' t r
    end.

  Definition all_rels : list (tid * reldef) :=
    flat_map (fun d => map (fun rd => (td_type d, rd)) (td_rels d)) m.

  Definition lvl_step (L : levels) : levels :=
    map (fun p : tid * reldef =>
           let '(t, rd) := p in
           (t, rd_rel rd,
            fold_right Nat.max O
              (map (fun d : tid * rid * bool => let '(t', r', neg) := d in
                      (lvl_get L t' r' + (if neg then 1 else 0))%nat)
                   (deps t rd false (rd_rw rd))))) all_rels.

  Fixpoint iter_lvl (n : nat) (L : levels) : levels :=
    match n with O => L | S k => iter_lvl k (lvl_step L) end.

  Definition nrels : nat := length all_rels.
  Definition final_levels : levels := iter_lvl (S nrels) [].

  (* "without negation through recursion": the level computation has reached a fixpoint *)
  Definition levels_eqb (A B : levels) : bool :=
    forallb (fun p : tid * rid * nat => let '(t, r, n) := p in Nat.eqb (lvl_get B t r) n) A.
  Definition stratified : bool := levels_eqb final_levels (lvl_step final_levels).

  (* ---- least fixpoint, stratum by stratum ---- *)
  Variable atoms : list atom.       (* universe: every (object, defined relation) that can matter *)

  Definition atoms_at (k : nat) : list atom :=
    filter (fun a => Nat.eqb (lvl_get final_levels (otype (fst a)) (snd a)) k) atoms.

  (* recompute the atoms of stratum k under v; other atoms keep their value *)
  Definition step_at (k : nat) (v : valuation) : valuation :=
    map (fun a => (a, eval_atom v a)) (atoms_at k) ++
    filter (fun p => negb (existsb (atom_eqb (fst p)) (atoms_at k))) v.

  Definition val_eqb_on (l : list atom) (v w : valuation) : bool :=
    forallb (fun a => b3_eqb (vget v a) (vget w a)) l.

  (* iterate until nothing changes (fuel bounds the number of rounds) *)
  Fixpoint lfp_at (k : nat) (fuel : nat) (v : valuation) : valuation * bool :=
    match fuel with
    | O => (v, false)
    | S f => let v' := step_at k v in
             if val_eqb_on (atoms_at k) v v' then (v', true) else lfp_at k f v'
    end.

  Definition max_level : nat := fold_right Nat.max O (map (fun p : tid * rid * nat => snd p) final_levels).

  (* strata 0..K in order; every stratum starts from F (absent = F) *)
  Fixpoint run_strata (k : nat) (todo : nat) (fuel : nat) (v : valuation) : valuation * bool :=
    match todo with
    | O => (v, true)
    | S n => let '(v', ok) := lfp_at k fuel v in
             let '(v'', ok') := run_strata (S k) n fuel v' in
             (v'', ok && ok')
    end.

  Definition round_fuel : nat := S (S (2 * length atoms)).
  Definition lfp : valuation * bool := run_strata O (S max_level) round_fuel [].

  (* the answer of the reference semantics for object#relation *)
  Definition holds3 (o : obj) (r : rid) : b3 := atomval (fst lfp) o r.
  Definition converged : bool := snd lfp.
End Sem.
