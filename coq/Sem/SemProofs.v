(* Well-formedness of the reference semantics (Sem/Semantics.v):
   - the boolean equalities reflect equality; the valuation after one step;
   - lfp_at returns a fixpoint of the stratum's step operator whenever it reports convergence;
   - positive fragment (no Diff): eval_rw is monotone in the valuation and in the tuple set,
     the iteration from below converges within the fuel the semantics uses (measure argument on
     the chain F < E < T) and yields the LEAST (pre-)fixpoint;
   - holds3 depends on the store only through the valid tuples, up to permutation;
   - positive fragment: holds3 is monotone in the tuple set. *)
From Coq Require Import List Bool Arith NArith Lia Permutation.
From OFGA Require Import Sem.B3 Sem.B3Proofs Sem.Vocab Sem.Valid Sem.Semantics.
Import ListNotations.
Open Scope N_scope.

(* ================================================================== *)
(* 0. boolean equalities                                               *)
(* ================================================================== *)

Lemma obj_eqb_eq : forall a b, obj_eqb a b = true <-> a = b.
Proof.
  intros [ta ia] [tb ib]; unfold obj_eqb; simpl. rewrite andb_true_iff, !N.eqb_eq. split.
  - intros [H1 H2]; subst; reflexivity.
  - intro H; inversion H; auto.
Qed.
Lemma obj_eqb_refl : forall a, obj_eqb a a = true.
Proof. intro a; apply obj_eqb_eq; reflexivity. Qed.

Lemma subject_eqb_eq : forall a b, subject_eqb a b = true <-> a = b.
Proof.
  intros a b; destruct a as [x|x|x r], b as [y|y|y s]; simpl;
    try (split; intro H; discriminate H).
  - rewrite obj_eqb_eq. split; intro H; [subst; reflexivity | inversion H; reflexivity].
  - rewrite N.eqb_eq. split; intro H; [subst; reflexivity | inversion H; reflexivity].
  - rewrite andb_true_iff, obj_eqb_eq, N.eqb_eq. split.
    + intros [H1 H2]; subst; reflexivity.
    + intro H; inversion H; auto.
Qed.
Lemma subject_eqb_refl : forall a, subject_eqb a a = true.
Proof. intro a; apply subject_eqb_eq; reflexivity. Qed.

Lemma atom_eqb_eq : forall a b, atom_eqb a b = true <-> a = b.
Proof.
  intros [oa ra] [ob rb]; unfold atom_eqb; simpl. rewrite andb_true_iff, obj_eqb_eq, N.eqb_eq. split.
  - intros [H1 H2]; subst; reflexivity.
  - intro H; inversion H; auto.
Qed.
Lemma atom_eqb_refl : forall a, atom_eqb a a = true.
Proof. intro a; apply atom_eqb_eq; reflexivity. Qed.

Lemma existsb_atom_In : forall a l, existsb (atom_eqb a) l = true <-> In a l.
Proof.
  intros a l; rewrite existsb_exists; split.
  - intros [x [Hx He]]. apply atom_eqb_eq in He. subst x. exact Hx.
  - intro H. exists a. split; [exact H | apply atom_eqb_refl].
Qed.

(* ================================================================== *)
(* 1. induction principle and unfolding lemmas for rewrites             *)
(* ================================================================== *)

Section RewriteInd.
  Variable P : rewrite -> Prop.
  Hypothesis HThis : P This.
  Hypothesis HComputed : forall r, P (Computed r).
  Hypothesis HTTU : forall a c, P (TTU a c).
  Hypothesis HUnion : forall l, Forall P l -> P (Union l).
  Hypothesis HInter : forall l, Forall P l -> P (Inter l).
  Hypothesis HDiff : forall b s, P b -> P s -> P (Diff b s).

  Fixpoint rewrite_ind' (rw : rewrite) : P rw :=
    match rw with
    | This => HThis
    | Computed r => HComputed r
    | TTU a c => HTTU a c
    | Union l => HUnion l ((fix go (l : list rewrite) : Forall P l :=
                              match l with
                              | [] => Forall_nil P
                              | x :: l' => Forall_cons x (rewrite_ind' x) (go l')
                              end) l)
    | Inter l => HInter l ((fix go (l : list rewrite) : Forall P l :=
                              match l with
                              | [] => Forall_nil P
                              | x :: l' => Forall_cons x (rewrite_ind' x) (go l')
                              end) l)
    | Diff b s => HDiff b s (rewrite_ind' b) (rewrite_ind' s)
    end.
End RewriteInd.

(* the positive fragment: no difference anywhere *)
Fixpoint positive_rw (rw : rewrite) : bool :=
  match rw with
  | This | Computed _ | TTU _ _ => true
  | Union l | Inter l =>
      (fix all (l : list rewrite) : bool :=
         match l with [] => true | x :: l' => positive_rw x && all l' end) l
  | Diff _ _ => false
  end.

Lemma positive_Union : forall l, positive_rw (Union l) = forallb positive_rw l.
Proof. intro l; simpl; induction l as [|x l IH]; simpl; [reflexivity | rewrite IH; reflexivity]. Qed.
Lemma positive_Inter : forall l, positive_rw (Inter l) = forallb positive_rw l.
Proof. intro l; simpl; induction l as [|x l IH]; simpl; [reflexivity | rewrite IH; reflexivity]. Qed.

Definition positive_model (m : model) : bool :=
  forallb (fun p : tid * reldef => positive_rw (rd_rw (snd p))) (all_rels m).

Lemma find_rel_In : forall l r rd, find_rel l r = Some rd -> In rd l /\ rd_rel rd = r.
Proof.
  induction l as [|d l IH]; simpl; intros r rd H; [discriminate H|].
  destruct (N.eqb (rd_rel d) r) eqn:He.
  - inversion H; subst. apply N.eqb_eq in He. auto.
  - destruct (IH _ _ H) as [H1 H2]. auto.
Qed.
Lemma find_type_In : forall m t d, find_type m t = Some d -> In d m /\ td_type d = t.
Proof.
  induction m as [|d' m IH]; simpl; intros t d H; [discriminate H|].
  destruct (N.eqb (td_type d') t) eqn:He.
  - inversion H; subst. apply N.eqb_eq in He. auto.
  - destruct (IH _ _ H) as [H1 H2]. auto.
Qed.

Lemma get_relation_all_rels : forall m t r rd,
  get_relation m t r = Some rd -> In (t, rd) (all_rels m).
Proof.
  intros m t r rd H. unfold get_relation in H.
  destruct (find_type m t) as [d|] eqn:Hd; [|discriminate H].
  apply find_type_In in Hd. destruct Hd as [Hin Ht].
  apply find_rel_In in H. destruct H as [Hr _].
  unfold all_rels. apply in_flat_map. exists d. split; [exact Hin|].
  apply in_map_iff. exists rd. rewrite Ht. auto.
Qed.

Lemma positive_model_rel : forall m t r rd,
  positive_model m = true -> get_relation m t r = Some rd -> positive_rw (rd_rw rd) = true.
Proof.
  intros m t r rd Hp H. unfold positive_model in Hp. rewrite forallb_forall in Hp.
  apply (Hp (t, rd)). eapply get_relation_all_rels; exact H.
Qed.

(* ================================================================== *)
(* 2. eval_rw: unfolding, congruence, monotonicity                     *)
(* ================================================================== *)

Section Eval.
  Variable m : model.
  Variable conds : list cid.
  Variable subj : subject.

  Lemma eval_rw_Union : forall store v o r l,
    eval_rw m conds store subj v o r (Union l) =
    or3_list (map (eval_rw m conds store subj v o r) l).
  Proof.
    intros store v o r l; reflexivity.
  Qed.
  Lemma eval_rw_Inter : forall store v o r l,
    eval_rw m conds store subj v o r (Inter l) =
    and3_list (map (eval_rw m conds store subj v o r) l).
  Proof.
    intros store v o r l; reflexivity.
  Qed.

  (* two stores are interchangeable when every (object, relation) read returns the same valid
     tuples up to order *)
  Definition store_equiv (s1 s2 : list tuple) : Prop :=
    forall o r, Permutation (tuples_of m conds s1 o r) (tuples_of m conds s2 o r).

  Definition vext (v w : valuation) : Prop := forall a, vget v a = vget w a.

  Lemma atomval_ext : forall v w o r, vext v w -> atomval subj v o r = atomval subj w o r.
  Proof. intros v w o r H; unfold atomval. destruct (subject_eqb subj (SSet o r)); [reflexivity | apply H]. Qed.

  Lemma direct1_ext : forall v w t, vext v w -> direct1 subj v t = direct1 subj w t.
  Proof.
    intros v w t H; unfold direct1. destruct (subject_eqb (t_sub t) subj); [reflexivity|].
    destruct (t_sub t) as [x|x|x r]; try reflexivity. rewrite (atomval_ext v w x r H); reflexivity.
  Qed.
  Lemma ttu1_ext : forall v w c t, vext v w -> ttu1 m subj v c t = ttu1 m subj w c t.
  Proof.
    intros v w c t H; unfold ttu1. destruct (t_sub t) as [x|x|x r]; try reflexivity.
    destruct (rel_defined m (otype x) c); [|reflexivity]. rewrite (atomval_ext v w x c H); reflexivity.
  Qed.

  Lemma map_ext_all : forall (A B : Type) (f g : A -> B) l, (forall x, f x = g x) -> map f l = map g l.
  Proof. intros A B f g l H; induction l as [|x l IH]; simpl; [reflexivity | rewrite H, IH; reflexivity]. Qed.

  Lemma map_Forall_eq : forall (A B : Type) (f g : A -> B) l,
    Forall (fun x => f x = g x) l -> map f l = map g l.
  Proof. intros A B f g l H; induction H as [|x l Hx Hl IH]; simpl; [reflexivity | rewrite Hx, IH; reflexivity]. Qed.

  (* the value of a rewrite depends on the store only through store_equiv and on the valuation
     only through vget *)
  Lemma eval_rw_congr : forall s1 s2 v w,
    store_equiv s1 s2 -> vext v w ->
    forall o r rw, eval_rw m conds s1 subj v o r rw = eval_rw m conds s2 subj w o r rw.
  Proof.
    intros s1 s2 v w Hs Hv o r rw. induction rw as [|r'|ts c|l IH|l IH|b s IHb IHs] using rewrite_ind'.
    - simpl. rewrite (map_ext_all _ _ (direct1 subj v) (direct1 subj w)) by (intro t; apply direct1_ext; exact Hv).
      apply or3_list_perm. apply Permutation_map. apply Hs.
    - simpl. apply atomval_ext; exact Hv.
    - simpl. rewrite (map_ext_all _ _ (ttu1 m subj v c) (ttu1 m subj w c)) by (intro t; apply ttu1_ext; exact Hv).
      apply or3_list_perm. apply Permutation_map. apply Hs.
    - rewrite !eval_rw_Union. f_equal. apply map_Forall_eq. exact IH.
    - rewrite !eval_rw_Inter. f_equal. apply map_Forall_eq. exact IH.
    - simpl. rewrite IHb, IHs. reflexivity.
  Qed.

  Lemma eval_atom_congr : forall s1 s2 v w a,
    store_equiv s1 s2 -> vext v w ->
    eval_atom m conds s1 subj v a = eval_atom m conds s2 subj w a.
  Proof.
    intros s1 s2 v w a Hs Hv. unfold eval_atom.
    destruct (get_relation m (otype (fst a)) (snd a)); [|reflexivity].
    apply eval_rw_congr; assumption.
  Qed.

  Lemma store_equiv_refl : forall s, store_equiv s s.
  Proof. intros s o r; apply Permutation_refl. Qed.

  (* ---- monotonicity (positive fragment) ---- *)
  Definition vle (v w : valuation) : Prop := forall a, le3 (vget v a) (vget w a) = true.

  (* s2 has at least the valid tuples of s1 *)
  Definition store_incl (s1 s2 : list tuple) : Prop :=
    forall o r, incl (tuples_of m conds s1 o r) (tuples_of m conds s2 o r).

  Lemma store_incl_refl : forall s, store_incl s s.
  Proof. intros s o r; apply incl_refl. Qed.

  Lemma atomval_mono : forall v w o r, vle v w -> le3 (atomval subj v o r) (atomval subj w o r) = true.
  Proof. intros v w o r H; unfold atomval. destruct (subject_eqb subj (SSet o r)); [reflexivity | apply H]. Qed.

  Lemma direct1_mono : forall v w t, vle v w -> le3 (direct1 subj v t) (direct1 subj w t) = true.
  Proof.
    intros v w t H; unfold direct1. destruct (subject_eqb (t_sub t) subj); [apply le3_refl|].
    destruct (t_sub t) as [x|x|x r]; try apply le3_refl.
    apply and3_mono; [apply le3_refl | apply atomval_mono; exact H].
  Qed.
  Lemma ttu1_mono : forall v w c t, vle v w -> le3 (ttu1 m subj v c t) (ttu1 m subj w c t) = true.
  Proof.
    intros v w c t H; unfold ttu1. destruct (t_sub t) as [x|x|x r]; try apply le3_refl.
    destruct (rel_defined m (otype x) c); [|apply le3_refl].
    apply and3_mono; [apply le3_refl | apply atomval_mono; exact H].
  Qed.

  Lemma Forall2_map_le : forall (A : Type) (f g : A -> b3) l,
    Forall (fun x => le3 (f x) (g x) = true) l ->
    Forall2 (fun a b => le3 a b = true) (map f l) (map g l).
  Proof. intros A f g l H; induction H as [|x l Hx Hl IH]; simpl; constructor; assumption. Qed.

  Theorem eval_rw_mono : forall s1 s2 v w,
    store_incl s1 s2 -> vle v w ->
    forall o r rw, positive_rw rw = true ->
    le3 (eval_rw m conds s1 subj v o r rw) (eval_rw m conds s2 subj w o r rw) = true.
  Proof.
    intros s1 s2 v w Hs Hv o r rw. induction rw as [|r'|ts c|l IH|l IH|b s IHb IHs] using rewrite_ind'; intro Hp.
    - simpl. eapply le3_trans.
      + apply or3_list_map_mono. intros t _. apply direct1_mono. exact Hv.
      + apply or3_list_incl_le. apply incl_map. apply Hs.
    - simpl. apply atomval_mono; exact Hv.
    - simpl. eapply le3_trans.
      + apply or3_list_map_mono. intros t _. apply (ttu1_mono v w c t Hv).
      + apply or3_list_incl_le. apply incl_map. apply Hs.
    - rewrite !eval_rw_Union. rewrite positive_Union, forallb_forall in Hp.
      apply or3_list_mono. apply Forall2_map_le. rewrite Forall_forall in *.
      intros x Hx. apply IH; [exact Hx | apply Hp; exact Hx].
    - rewrite !eval_rw_Inter. rewrite positive_Inter, forallb_forall in Hp.
      apply and3_list_mono. apply Forall2_map_le. rewrite Forall_forall in *.
      intros x Hx. apply IH; [exact Hx | apply Hp; exact Hx].
    - discriminate Hp.
  Qed.

  Lemma eval_atom_mono : forall s1 s2 v w a,
    positive_model m = true -> store_incl s1 s2 -> vle v w ->
    le3 (eval_atom m conds s1 subj v a) (eval_atom m conds s2 subj w a) = true.
  Proof.
    intros s1 s2 v w a Hp Hs Hv. unfold eval_atom.
    destruct (get_relation m (otype (fst a)) (snd a)) as [rd|] eqn:Hr; [|reflexivity].
    apply eval_rw_mono; try assumption. eapply positive_model_rel; eassumption.
  Qed.
End Eval.

(* ================================================================== *)
(* 3. the iteration                                                    *)
(* ================================================================== *)

Lemma vget_map_app_in : forall (f : atom -> b3) L rest a,
  In a L -> vget (map (fun a => (a, f a)) L ++ rest) a = f a.
Proof.
  intros f L rest a; induction L as [|b L IH]; simpl; intro H; [destruct H|].
  destruct (atom_eqb a b) eqn:He.
  - apply atom_eqb_eq in He. subst b. reflexivity.
  - destruct H as [H|H]; [subst b; rewrite atom_eqb_refl in He; discriminate He | apply IH; exact H].
Qed.

Lemma vget_map_app_notin : forall (f : atom -> b3) L rest a,
  existsb (atom_eqb a) L = false -> vget (map (fun a => (a, f a)) L ++ rest) a = vget rest a.
Proof.
  intros f L rest a; induction L as [|b L IH]; simpl; intro H; [reflexivity|].
  apply orb_false_iff in H. destruct H as [H1 H2]. rewrite H1. apply IH; exact H2.
Qed.

Lemma vget_filter_notin : forall L v a,
  existsb (atom_eqb a) L = false ->
  vget (filter (fun p : atom * b3 => negb (existsb (atom_eqb (fst p)) L)) v) a = vget v a.
Proof.
  intros L v a H; induction v as [|[b x] v IH]; simpl; [reflexivity|].
  destruct (existsb (atom_eqb b) L) eqn:Hb; simpl.
  - destruct (atom_eqb a b) eqn:He; [|exact IH].
    apply atom_eqb_eq in He. subst b. rewrite H in Hb; discriminate Hb.
  - rewrite IH. reflexivity.
Qed.

Section Iter.
  Variable m : model.
  Variable conds : list cid.
  Variable store : list tuple.
  Variable subj : subject.
  Variable atoms : list atom.

  Local Notation step := (step_at m conds store subj atoms).
  Local Notation evala := (eval_atom m conds store subj).
  Local Notation L := (atoms_at m atoms).

  (* the valuation after one round *)
  Lemma vget_step_at : forall k v a,
    vget (step k v) a = if existsb (atom_eqb a) (L k) then evala v a else vget v a.
  Proof.
    intros k v a; unfold step_at. destruct (existsb (atom_eqb a) (L k)) eqn:H.
    - apply existsb_atom_In in H. apply vget_map_app_in; exact H.
    - rewrite vget_map_app_notin by exact H. apply vget_filter_notin; exact H.
  Qed.

  Lemma val_eqb_on_true : forall l v w,
    val_eqb_on l v w = true <-> (forall a, In a l -> vget v a = vget w a).
  Proof.
    intros l v w; unfold val_eqb_on; rewrite forallb_forall. split; intros H a Ha.
    - apply b3_eqb_eq. apply H; exact Ha.
    - apply b3_eqb_eq. apply H; exact Ha.
  Qed.

  (* when the round changes nothing on the stratum, it changes nothing at all *)
  Lemma step_at_stable_ext : forall k v,
    val_eqb_on (L k) v (step k v) = true -> vext v (step k v).
  Proof.
    intros k v H a. rewrite val_eqb_on_true in H. rewrite vget_step_at.
    destruct (existsb (atom_eqb a) (L k)) eqn:Ha; [|reflexivity].
    apply existsb_atom_In in Ha. rewrite (H a Ha), vget_step_at.
    apply existsb_atom_In in Ha. rewrite Ha. reflexivity.
  Qed.

  (* lfp_at reports convergence only at a fixpoint of the stratum's step operator *)
  Theorem lfp_at_fixpoint : forall k fuel v v',
    lfp_at m conds store subj atoms k fuel v = (v', true) ->
    forall a, vget (step k v') a = vget v' a.
  Proof.
    intros k fuel; induction fuel as [|f IH]; intros v v' H a; simpl in H; [inversion H|].
    destruct (val_eqb_on (L k) v (step k v)) eqn:He.
    - inversion H; subst v'. clear H.
      pose proof (step_at_stable_ext k v He) as Hx.
      rewrite (vget_step_at k (step k v)), (vget_step_at k v).
      destruct (existsb (atom_eqb a) (L k)); [|reflexivity].
      symmetry. apply eval_atom_congr; [apply store_equiv_refl | exact Hx].
    - eapply IH; exact H.
  Qed.

  Corollary lfp_at_fixpoint_eval : forall k fuel v v',
    lfp_at m conds store subj atoms k fuel v = (v', true) ->
    forall a, In a (L k) -> evala v' a = vget v' a.
  Proof.
    intros k fuel v v' H a Ha. rewrite <- (lfp_at_fixpoint k fuel v v' H a), vget_step_at.
    apply existsb_atom_In in Ha. rewrite Ha. reflexivity.
  Qed.

  (* atoms outside the stratum keep their value through lfp_at *)
  Lemma lfp_at_outside : forall k fuel v a,
    existsb (atom_eqb a) (L k) = false ->
    vget (fst (lfp_at m conds store subj atoms k fuel v)) a = vget v a.
  Proof.
    intros k fuel; induction fuel as [|f IH]; intros v a Ha; simpl; [reflexivity|].
    destruct (val_eqb_on (L k) v (step k v)); simpl.
    - rewrite vget_step_at, Ha. reflexivity.
    - rewrite IH by exact Ha. rewrite vget_step_at, Ha. reflexivity.
  Qed.

  (* ---- measure ---- *)
  Fixpoint msum (v : valuation) (l : list atom) : nat :=
    match l with [] => O | a :: l' => (rank3 (vget v a) + msum v l')%nat end.

  Lemma msum_bound : forall v l, (msum v l <= 2 * length l)%nat.
  Proof.
    intros v l; induction l as [|a l IH]; simpl; [lia|].
    pose proof (rank3_max (vget v a)). lia.
  Qed.

  Lemma msum_le : forall v w l,
    (forall a, In a l -> le3 (vget v a) (vget w a) = true) -> (msum v l <= msum w l)%nat.
  Proof.
    intros v w l; induction l as [|a l IH]; simpl; intro H; [lia|].
    assert (H1 : (rank3 (vget v a) <= rank3 (vget w a))%nat) by (apply rank3_le; apply H; auto).
    assert (H2 : (msum v l <= msum w l)%nat) by (apply IH; intros b Hb; apply H; auto).
    lia.
  Qed.

  Lemma msum_lt : forall v w l,
    (forall a, In a l -> le3 (vget v a) (vget w a) = true) ->
    val_eqb_on l v w = false -> (msum v l < msum w l)%nat.
  Proof.
    intros v w l; induction l as [|a l IH]; simpl; intros H He; [discriminate He|].
    assert (H1 : (rank3 (vget v a) <= rank3 (vget w a))%nat) by (apply rank3_le; apply H; auto).
    assert (H2 : (msum v l <= msum w l)%nat) by (apply msum_le; intros b Hb; apply H; auto).
    apply andb_false_iff in He. destruct He as [He|He].
    - assert (H3 : (rank3 (vget v a) < rank3 (vget w a))%nat) by (apply rank3_lt; [apply H; auto | exact He]).
      lia.
    - assert (H3 : (msum v l < msum w l)%nat) by (apply IH; [intros b Hb; apply H; auto | exact He]).
      lia.
  Qed.

  Hypothesis Hpos : positive_model m = true.

  Lemma step_at_mono : forall k v w, vle v w -> vle (step k v) (step k w).
  Proof.
    intros k v w H a. rewrite !vget_step_at. destruct (existsb (atom_eqb a) (L k)).
    - apply eval_atom_mono; [exact Hpos | apply store_incl_refl | exact H].
    - apply H.
  Qed.

  (* positive fragment: starting below its own image, the iteration is an increasing chain in a
     finite order, so it stabilises before the fuel runs out *)
  Lemma lfp_at_converges_gen : forall k fuel v,
    vle v (step k v) ->
    (2 * length (L k) < fuel + msum v (L k))%nat ->
    snd (lfp_at m conds store subj atoms k fuel v) = true.
  Proof.
    intros k fuel; induction fuel as [|f IH]; intros v Hv Hf.
    - pose proof (msum_bound v (L k)). lia.
    - simpl. destruct (val_eqb_on (L k) v (step k v)) eqn:He; [reflexivity|].
      apply IH.
      + apply step_at_mono; exact Hv.
      + assert (Hlt : (msum v (L k) < msum (step k v) (L k))%nat).
        { apply msum_lt; [intros a _; apply Hv | exact He]. }
        lia.
  Qed.

  Lemma vle_nil : forall w, vle [] w.
  Proof. intros w a; reflexivity. Qed.

  Lemma atoms_at_length : forall k, (length (L k) <= length atoms)%nat.
  Proof.
    intro k; unfold atoms_at. induction atoms as [|a l IH]; simpl; [lia|].
    destruct (Nat.eqb (lvl_get (final_levels m) (otype (fst a)) (snd a)) k); simpl; lia.
  Qed.

  Theorem lfp_at_converges : forall k fuel,
    (2 * length (L k) + 1 <= fuel)%nat ->
    snd (lfp_at m conds store subj atoms k fuel []) = true.
  Proof.
    intros k fuel Hf. apply lfp_at_converges_gen; [apply vle_nil | lia].
  Qed.

  Corollary lfp_at_converges_round_fuel : forall k,
    snd (lfp_at m conds store subj atoms k (round_fuel atoms) []) = true.
  Proof.
    intro k. apply lfp_at_converges. pose proof (atoms_at_length k). unfold round_fuel. lia.
  Qed.

  (* the result is below every pre-fixpoint of the stratum that is above the start *)
  Theorem lfp_at_least : forall k fuel v w,
    vle v w ->
    (forall a, In a (L k) -> le3 (evala w a) (vget w a) = true) ->
    vle (fst (lfp_at m conds store subj atoms k fuel v)) w.
  Proof.
    intros k fuel; induction fuel as [|f IH]; intros v w Hv Hw; simpl; [exact Hv|].
    assert (Hs : vle (step k v) w).
    { intro a. rewrite vget_step_at. destruct (existsb (atom_eqb a) (L k)) eqn:Ha; [|apply Hv].
      apply existsb_atom_In in Ha. eapply le3_trans; [|apply Hw; exact Ha].
      apply eval_atom_mono; [exact Hpos | apply store_incl_refl | exact Hv]. }
    destruct (val_eqb_on (L k) v (step k v)); simpl; [exact Hs | apply IH; assumption].
  Qed.
End Iter.

(* ================================================================== *)
(* 4. positive models have a single stratum                            *)
(* ================================================================== *)

Section Levels.
  Variable m : model.

  Lemma deps_positive : forall t self rw d,
    positive_rw rw = true -> In d (deps m t self false rw) -> snd d = false.
  Proof.
    intros t self rw d. induction rw as [|r'|ts c|l IH|l IH|b s IHb IHs] using rewrite_ind'; intros Hp Hd.
    - simpl in Hd. apply in_map_iff in Hd. destruct Hd as [p [Hp' _]]. subst d. reflexivity.
    - simpl in Hd. destruct Hd as [Hd|[]]. subst d. reflexivity.
    - simpl in Hd. destruct (get_relation m t ts) as [tsd|]; [|destruct Hd].
      apply in_flat_map in Hd. destruct Hd as [t' [_ Hd]].
      destruct (rel_defined m t' c); [|destruct Hd]. destruct Hd as [Hd|[]]. subst d. reflexivity.
    - rewrite positive_Union, forallb_forall in Hp. simpl in Hd.
      induction l as [|x l IHl]; [destruct Hd|].
      apply in_app_iff in Hd. inversion IH as [|x' l' Hx Hl]; subst. destruct Hd as [Hd|Hd].
      + apply Hx; [apply Hp; left; reflexivity | exact Hd].
      + apply IHl; [exact Hl | intros y Hy; apply Hp; right; exact Hy | exact Hd].
    - rewrite positive_Inter, forallb_forall in Hp. simpl in Hd.
      induction l as [|x l IHl]; [destruct Hd|].
      apply in_app_iff in Hd. inversion IH as [|x' l' Hx Hl]; subst. destruct Hd as [Hd|Hd].
      + apply Hx; [apply Hp; left; reflexivity | exact Hd].
      + apply IHl; [exact Hl | intros y Hy; apply Hp; right; exact Hy | exact Hd].
    - discriminate Hp.
  Qed.

  Definition levels_zero (Lv : levels) : Prop := forall p, In p Lv -> snd p = O.

  Lemma lvl_get_zero : forall Lv t r, levels_zero Lv -> lvl_get Lv t r = O.
  Proof.
    induction Lv as [|[[t' r'] n] Lv IH]; intros t r H; simpl; [reflexivity|].
    destruct (N.eqb t t' && N.eqb r r').
    - apply (H (t', r', n)). left; reflexivity.
    - apply IH. intros p Hp; apply H; right; exact Hp.
  Qed.

  Lemma fold_max_zero : forall l, (forall x, In x l -> x = O) -> fold_right Nat.max O l = O.
  Proof.
    induction l as [|x l IH]; simpl; intro H; [reflexivity|].
    rewrite (H x (or_introl eq_refl)), IH; [reflexivity | intros y Hy; apply H; right; exact Hy].
  Qed.

  Hypothesis Hpos : positive_model m = true.

  Lemma lvl_step_zero : forall Lv, levels_zero Lv -> levels_zero (lvl_step m Lv).
  Proof.
    intros Lv HL p Hp. unfold lvl_step in Hp. apply in_map_iff in Hp.
    destruct Hp as [[t rd] [Hp Hin]]. subst p. simpl.
    apply fold_max_zero. intros x Hx. apply in_map_iff in Hx.
    destruct Hx as [[[t' r'] neg] [Hx Hd]]. subst x.
    rewrite (lvl_get_zero Lv t' r' HL).
    assert (Hn : neg = false).
    { apply (deps_positive t rd (rd_rw rd) (t', r', neg)); [|exact Hd].
      unfold positive_model in Hpos. rewrite forallb_forall in Hpos. apply (Hpos (t, rd) Hin). }
    subst neg. reflexivity.
  Qed.

  Lemma iter_lvl_zero : forall n Lv, levels_zero Lv -> levels_zero (iter_lvl m n Lv).
  Proof.
    induction n as [|n IH]; intros Lv H; simpl; [exact H | apply IH, lvl_step_zero, H].
  Qed.

  Lemma final_levels_zero : levels_zero (final_levels m).
  Proof. unfold final_levels. apply iter_lvl_zero. intros p []. Qed.

  Lemma positive_max_level : max_level m = O.
  Proof.
    unfold max_level. apply fold_max_zero. intros x Hx. apply in_map_iff in Hx.
    destruct Hx as [p [Hx Hp]]. subst x. apply final_levels_zero; exact Hp.
  Qed.

  Lemma positive_stratified : stratified m = true.
  Proof.
    unfold stratified, levels_eqb. apply forallb_forall. intros [[t r] n] Hp.
    pose proof (final_levels_zero _ Hp) as Hn. simpl in Hn. subst n.
    rewrite (lvl_get_zero _ t r (lvl_step_zero _ final_levels_zero)). reflexivity.
  Qed.

  Lemma positive_atoms_at_0 : forall atoms, atoms_at m atoms O = atoms.
  Proof.
    intro atoms. unfold atoms_at. induction atoms as [|a l IH]; simpl; [reflexivity|].
    rewrite (lvl_get_zero _ _ _ final_levels_zero). simpl. rewrite IH. reflexivity.
  Qed.

  (* so the reference semantics of a positive model is one least-fixpoint computation *)
  Lemma positive_lfp : forall conds store subj atoms,
    lfp m conds store subj atoms =
    (fst (lfp_at m conds store subj atoms O (round_fuel atoms) []),
     snd (lfp_at m conds store subj atoms O (round_fuel atoms) []) && true).
  Proof.
    intros conds store subj atoms. unfold lfp. rewrite positive_max_level.
    cbn [run_strata].
    destruct (lfp_at m conds store subj atoms O (round_fuel atoms) []) as [v ok]. reflexivity.
  Qed.

  Theorem converged_positive : forall conds store subj atoms,
    converged m conds store subj atoms = true.
  Proof.
    intros conds store subj atoms. unfold converged. rewrite positive_lfp. cbn [fst snd].
    rewrite (lfp_at_converges_round_fuel m conds store subj atoms Hpos O). reflexivity.
  Qed.

  (* the positive model's lfp valuation is a fixpoint on the universe ... *)
  Theorem positive_lfp_fixpoint : forall conds store subj atoms a,
    In a atoms ->
    eval_atom m conds store subj (fst (lfp m conds store subj atoms)) a =
    vget (fst (lfp m conds store subj atoms)) a.
  Proof.
    intros conds store subj atoms a Ha. rewrite positive_lfp. cbn [fst snd].
    destruct (lfp_at m conds store subj atoms O (round_fuel atoms) []) as [v ok] eqn:Hl.
    assert (Hok : ok = true).
    { pose proof (lfp_at_converges_round_fuel m conds store subj atoms Hpos O) as Hc.
      rewrite Hl in Hc. exact Hc. }
    subst ok. simpl. eapply lfp_at_fixpoint_eval; [exact Hl|].
    rewrite positive_atoms_at_0. exact Ha.
  Qed.

  (* ... and the least pre-fixpoint on the universe *)
  Theorem lfp_least : forall conds store subj atoms w,
    (forall a, In a atoms -> le3 (eval_atom m conds store subj w a) (vget w a) = true) ->
    vle (fst (lfp m conds store subj atoms)) w.
  Proof.
    intros conds store subj atoms w Hw. rewrite positive_lfp. cbn [fst snd].
    apply lfp_at_least; [exact Hpos | apply vle_nil |].
    rewrite positive_atoms_at_0. exact Hw.
  Qed.

  (* atoms outside the universe stay F *)
  Lemma positive_lfp_outside : forall conds store subj atoms a,
    ~ In a atoms -> vget (fst (lfp m conds store subj atoms)) a = F.
  Proof.
    intros conds store subj atoms a Ha. rewrite positive_lfp. cbn [fst snd].
    rewrite lfp_at_outside; [reflexivity|].
    rewrite positive_atoms_at_0. destruct (existsb (atom_eqb a) atoms) eqn:He; [|reflexivity].
    apply existsb_atom_In in He. contradiction.
  Qed.
End Levels.

(* ================================================================== *)
(* 5. dependence on the store                                          *)
(* ================================================================== *)

Section Store.
  Variable m : model.
  Variable conds : list cid.
  Variable subj : subject.
  Variable atoms : list atom.

  Lemma step_at_store_equiv : forall s1 s2 k v w,
    store_equiv m conds s1 s2 -> v = w ->
    step_at m conds s1 subj atoms k v = step_at m conds s2 subj atoms k w.
  Proof.
    intros s1 s2 k v w Hs Hv. subst w. unfold step_at. f_equal.
    apply map_ext_in. intros a _. f_equal.
    apply eval_atom_congr; [exact Hs | intro b; reflexivity].
  Qed.

  Lemma lfp_at_store_equiv : forall s1 s2 k fuel v,
    store_equiv m conds s1 s2 ->
    lfp_at m conds s1 subj atoms k fuel v = lfp_at m conds s2 subj atoms k fuel v.
  Proof.
    intros s1 s2 k fuel; induction fuel as [|f IH]; intros v Hs; simpl; [reflexivity|].
    rewrite (step_at_store_equiv s1 s2 k v v Hs eq_refl).
    destruct (val_eqb_on (atoms_at m atoms k) v (step_at m conds s2 subj atoms k v)); [reflexivity|].
    apply IH; exact Hs.
  Qed.

  Lemma run_strata_store_equiv : forall s1 s2 todo k fuel v,
    store_equiv m conds s1 s2 ->
    run_strata m conds s1 subj atoms k todo fuel v = run_strata m conds s2 subj atoms k todo fuel v.
  Proof.
    intros s1 s2 todo; induction todo as [|n IH]; intros k fuel v Hs; simpl; [reflexivity|].
    rewrite (lfp_at_store_equiv s1 s2 k fuel v Hs).
    destruct (lfp_at m conds s2 subj atoms k fuel v) as [v' ok].
    rewrite (IH (S k) fuel v' Hs). reflexivity.
  Qed.

  (* the reference semantics sees the store only through the valid tuples of each
     (object, relation), up to order -- for EVERY model (with or without difference) *)
  Theorem lfp_store_equiv : forall s1 s2,
    store_equiv m conds s1 s2 -> lfp m conds s1 subj atoms = lfp m conds s2 subj atoms.
  Proof. intros s1 s2 Hs. unfold lfp. apply run_strata_store_equiv; exact Hs. Qed.

  Theorem holds3_store_equiv : forall s1 s2 o r,
    store_equiv m conds s1 s2 ->
    holds3 m conds s1 subj atoms o r = holds3 m conds s2 subj atoms o r.
  Proof. intros s1 s2 o r Hs. unfold holds3. rewrite (lfp_store_equiv s1 s2 Hs). reflexivity. Qed.

  Lemma store_equiv_of_vtuples_perm : forall s1 s2,
    Permutation (vtuples m conds s1) (vtuples m conds s2) -> store_equiv m conds s1 s2.
  Proof.
    intros s1 s2 H o r. unfold tuples_of.
    (* filter respects Permutation *)
    induction H as [|x l l' P IH|x y l|l l' l'' P1 IH1 P2 IH2]; simpl.
    - apply Permutation_refl.
    - destruct (obj_eqb (t_obj x) o && N.eqb (t_rel x) r); [apply perm_skip|]; exact IH.
    - destruct (obj_eqb (t_obj y) o && N.eqb (t_rel y) r), (obj_eqb (t_obj x) o && N.eqb (t_rel x) r);
        try apply Permutation_refl. apply perm_swap.
    - eapply Permutation_trans; eassumption.
  Qed.

  Lemma filter_perm : forall (A : Type) (f : A -> bool) l l',
    Permutation l l' -> Permutation (filter f l) (filter f l').
  Proof.
    intros A f l l' H; induction H as [|x l l' P IH|x y l|l l' l'' P1 IH1 P2 IH2]; simpl.
    - apply Permutation_refl.
    - destruct (f x); [apply perm_skip|]; exact IH.
    - destruct (f y), (f x); try apply Permutation_refl. apply perm_swap.
    - eapply Permutation_trans; eassumption.
  Qed.

  (* order of the store is irrelevant (spec side of "contextual tuples = stored tuples") *)
  Theorem holds3_store_perm : forall s1 s2 o r,
    Permutation s1 s2 ->
    holds3 m conds s1 subj atoms o r = holds3 m conds s2 subj atoms o r.
  Proof.
    intros s1 s2 o r H. apply holds3_store_equiv. apply store_equiv_of_vtuples_perm.
    unfold vtuples. apply filter_perm; exact H.
  Qed.

  Theorem converged_store_perm : forall s1 s2,
    Permutation s1 s2 -> converged m conds s1 subj atoms = converged m conds s2 subj atoms.
  Proof.
    intros s1 s2 H. unfold converged. rewrite (lfp_store_equiv s1 s2); [reflexivity|].
    apply store_equiv_of_vtuples_perm. unfold vtuples. apply filter_perm; exact H.
  Qed.

  (* tuples that are not valid for the model are invisible, wherever they sit in the store *)
  Theorem holds3_invalid_ignored : forall s1 bad s2 o r,
    (forall t, In t bad -> valid_for_read m conds t = false) ->
    holds3 m conds (s1 ++ bad ++ s2) subj atoms o r = holds3 m conds (s1 ++ s2) subj atoms o r.
  Proof.
    intros s1 bad s2 o r Hb. apply holds3_store_equiv. apply store_equiv_of_vtuples_perm.
    unfold vtuples. rewrite !filter_app.
    assert (Hn : filter (valid_for_read m conds) bad = []).
    { induction bad as [|t bad IH]; simpl; [reflexivity|].
      rewrite (Hb t (or_introl eq_refl)). apply IH. intros t' Ht'; apply Hb; right; exact Ht'. }
    rewrite Hn. simpl. apply Permutation_refl.
  Qed.

  Corollary holds3_filter_valid : forall s o r,
    holds3 m conds (filter (valid_for_read m conds) s) subj atoms o r = holds3 m conds s subj atoms o r.
  Proof.
    intros s o r. apply holds3_store_equiv. apply store_equiv_of_vtuples_perm.
    unfold vtuples. induction s as [|t s IH]; simpl; [apply Permutation_refl|].
    destruct (valid_for_read m conds t) eqn:Hv; simpl; [rewrite Hv; apply perm_skip|]; exact IH.
  Qed.

  (* ---- positive fragment: more tuples, more (or equally many) answers ---- *)
  Hypothesis Hpos : positive_model m = true.

  Lemma store_incl_app : forall s extra, store_incl m conds s (s ++ extra).
  Proof.
    intros s extra o r t Ht. unfold tuples_of, vtuples in *. rewrite !filter_app.
    apply in_or_app. left. exact Ht.
  Qed.

  Theorem lfp_mono_tuples : forall s1 s2,
    store_incl m conds s1 s2 ->
    vle (fst (lfp m conds s1 subj atoms)) (fst (lfp m conds s2 subj atoms)).
  Proof.
    intros s1 s2 Hs. apply lfp_least; [exact Hpos|].
    intros a Ha. rewrite <- (positive_lfp_fixpoint m Hpos conds s2 subj atoms a Ha).
    apply eval_atom_mono; [exact Hpos | exact Hs | intro b; apply le3_refl].
  Qed.

  Theorem holds3_mono_tuples : forall s1 s2 o r,
    store_incl m conds s1 s2 ->
    le3 (holds3 m conds s1 subj atoms o r) (holds3 m conds s2 subj atoms o r) = true.
  Proof.
    intros s1 s2 o r Hs. unfold holds3. apply atomval_mono. apply lfp_mono_tuples; exact Hs.
  Qed.

  Corollary holds3_mono_add : forall s extra o r,
    le3 (holds3 m conds s subj atoms o r) (holds3 m conds (s ++ extra) subj atoms o r) = true.
  Proof. intros s extra o r. apply holds3_mono_tuples. apply store_incl_app. Qed.
End Store.

(* ================================================================== *)
(* 6. the universe of atoms                                            *)
(* ================================================================== *)
(* lfp only assigns atoms of the universe it is given.  A universe is adequate when it is closed
   under "another relation of the same object", contains the atom of every valid tuple and every
   relation of a userset subject's object; then (for models without an empty intersection, whose
   value would be T on every object) atoms outside the universe evaluate to F and the lfp
   valuation is a fixpoint on ALL atoms. *)

Definition defined_rels (m : model) (t : tid) : list rid :=
  match find_type m t with Some d => map rd_rel (td_rels d) | None => [] end.

Lemma find_rel_none : forall l r, find_rel l r = None -> ~ In r (map rd_rel l).
Proof.
  induction l as [|d l IH]; simpl; intros r H; [intros []|].
  destruct (N.eqb (rd_rel d) r) eqn:He; [discriminate H|].
  intros [Hd|Hd]; [apply N.eqb_neq in He; contradiction | exact (IH r H Hd)].
Qed.

Lemma rel_defined_In : forall m t r, rel_defined m t r = true -> In r (defined_rels m t).
Proof.
  intros m t r H. unfold rel_defined, get_relation, defined_rels in *.
  destruct (find_type m t) as [d|]; [|discriminate H].
  destruct (find_rel (td_rels d) r) as [rd|] eqn:Hr; [|discriminate H].
  apply find_rel_In in Hr. destruct Hr as [Hin Hr]. apply in_map_iff. exists rd; auto.
Qed.

Fixpoint no_empty_inter (rw : rewrite) : bool :=
  match rw with
  | This | Computed _ | TTU _ _ => true
  | Union l =>
      (fix all (l : list rewrite) : bool :=
         match l with [] => true | x :: l' => no_empty_inter x && all l' end) l
  | Inter l =>
      match l with [] => false | _ => true end &&
      (fix all (l : list rewrite) : bool :=
         match l with [] => true | x :: l' => no_empty_inter x && all l' end) l
  | Diff b s => no_empty_inter b && no_empty_inter s
  end.

Lemma no_empty_inter_Union : forall l, no_empty_inter (Union l) = forallb no_empty_inter l.
Proof. intro l; simpl; induction l as [|x l IH]; simpl; [reflexivity | rewrite IH; reflexivity]. Qed.
Lemma no_empty_inter_Inter : forall l,
  no_empty_inter (Inter l) = match l with [] => false | _ => true end && forallb no_empty_inter l.
Proof.
  intro l. reflexivity.
Qed.

Definition no_empty_inter_model (m : model) : bool :=
  forallb (fun p : tid * reldef => no_empty_inter (rd_rw (snd p))) (all_rels m).

Definition universe_ok (m : model) (conds : list cid) (store : list tuple) (subj : subject)
           (atoms : list atom) : bool :=
  forallb (fun a : atom =>
             forallb (fun r' => existsb (atom_eqb (fst a, r')) atoms)
                     (defined_rels m (otype (fst a)))) atoms &&
  forallb (fun t => existsb (atom_eqb (t_obj t, t_rel t)) atoms) (vtuples m conds store) &&
  match subj with
  | SSet o _ => forallb (fun r' => existsb (atom_eqb (o, r')) atoms) (defined_rels m (otype o))
  | _ => true
  end.

Section Universe.
  Variable m : model.
  Variable conds : list cid.
  Variable store : list tuple.
  Variable subj : subject.
  Variable atoms : list atom.
  Hypothesis Hu : universe_ok m conds store subj atoms = true.

  Lemma universe_obj_closed : forall o r r',
    In (o, r) atoms -> rel_defined m (otype o) r' = true -> In (o, r') atoms.
  Proof.
    intros o r r' Hin Hd. unfold universe_ok in Hu.
    apply andb_true_iff in Hu. destruct Hu as [Hu12 _].
    apply andb_true_iff in Hu12. destruct Hu12 as [Hu1 _].
    rewrite forallb_forall in Hu1. specialize (Hu1 (o, r) Hin). simpl in Hu1.
    rewrite forallb_forall in Hu1. apply existsb_atom_In. apply Hu1. apply rel_defined_In; exact Hd.
  Qed.

  Lemma universe_tuples : forall t, In t (vtuples m conds store) -> In (t_obj t, t_rel t) atoms.
  Proof.
    intros t Ht. unfold universe_ok in Hu.
    apply andb_true_iff in Hu. destruct Hu as [Hu12 _].
    apply andb_true_iff in Hu12. destruct Hu12 as [_ Hu2].
    rewrite forallb_forall in Hu2. apply existsb_atom_In. apply Hu2; exact Ht.
  Qed.

  Lemma universe_subject : forall o r0 r',
    subj = SSet o r0 -> rel_defined m (otype o) r' = true -> In (o, r') atoms.
  Proof.
    intros o r0 r' Hs Hd. unfold universe_ok in Hu.
    apply andb_true_iff in Hu. destruct Hu as [_ Hu3]. rewrite Hs in Hu3.
    rewrite forallb_forall in Hu3. apply existsb_atom_In. apply Hu3. apply rel_defined_In; exact Hd.
  Qed.

  Lemma tuples_of_In : forall t o r,
    In t (tuples_of m conds store o r) ->
    In t (vtuples m conds store) /\ t_obj t = o /\ t_rel t = r.
  Proof.
    intros t o r H. unfold tuples_of in H. apply filter_In in H. destruct H as [H1 H2].
    apply andb_true_iff in H2. destruct H2 as [H2 H3].
    apply obj_eqb_eq in H2. apply N.eqb_eq in H3. auto.
  Qed.

  (* an object none of whose defined relations is in the universe *)
  Section Outside.
    Variable v : valuation.
    Hypothesis Hv : forall a, ~ In a atoms -> vget v a = F.
    Variable o : obj.
    Variable r : rid.
    Hypothesis Hdef : rel_defined m (otype o) r = true.
    Hypothesis Hout : ~ In (o, r) atoms.

    Lemma outside_all : forall r', ~ In (o, r') atoms.
    Proof. intros r' H. apply Hout. eapply universe_obj_closed; eassumption. Qed.

    Lemma outside_tuples_of : forall r', tuples_of m conds store o r' = [].
    Proof.
      intro r'. destruct (tuples_of m conds store o r') as [|t l] eqn:Ht; [reflexivity|].
      exfalso. assert (Hin : In t (tuples_of m conds store o r')) by (rewrite Ht; left; reflexivity).
      apply tuples_of_In in Hin. destruct Hin as [Hin [Ho Hr]].
      apply (outside_all r'). rewrite <- Ho, <- Hr. apply universe_tuples; exact Hin.
    Qed.

    Lemma outside_atomval : forall r', atomval subj v o r' = F.
    Proof.
      intro r'. unfold atomval. destruct (subject_eqb subj (SSet o r')) eqn:Hs.
      - exfalso. apply subject_eqb_eq in Hs. apply Hout. eapply universe_subject; eassumption.
      - apply Hv. apply outside_all.
    Qed.

    Lemma outside_eval_rw : forall rw,
      no_empty_inter rw = true -> eval_rw m conds store subj v o r rw = F.
    Proof.
      intro rw. induction rw as [|r'|ts c|l IH|l IH|b s IHb IHs] using rewrite_ind'; intro Hn.
      - simpl. rewrite outside_tuples_of. reflexivity.
      - simpl. apply outside_atomval.
      - simpl. rewrite outside_tuples_of. reflexivity.
      - rewrite eval_rw_Union. rewrite no_empty_inter_Union, forallb_forall in Hn.
        apply or3_list_F_iff. intros x Hx. apply in_map_iff in Hx. destruct Hx as [y [Hy Hin]].
        subst x. rewrite Forall_forall in IH. apply IH; [exact Hin | apply Hn; exact Hin].
      - rewrite eval_rw_Inter. rewrite no_empty_inter_Inter in Hn.
        apply andb_true_iff in Hn. destruct Hn as [Hne Hn]. rewrite forallb_forall in Hn.
        destruct l as [|x l]; [discriminate Hne|].
        apply and3_list_F_iff. simpl. left. rewrite Forall_forall in IH.
        apply IH; [left; reflexivity | apply Hn; left; reflexivity].
      - simpl in Hn. apply andb_true_iff in Hn. destruct Hn as [Hb _].
        simpl. rewrite (IHb Hb). reflexivity.
    Qed.
  End Outside.

  Hypothesis Hne : no_empty_inter_model m = true.

  Lemma outside_eval_atom : forall v a,
    (forall b, ~ In b atoms -> vget v b = F) -> ~ In a atoms ->
    eval_atom m conds store subj v a = F.
  Proof.
    intros v [o r] Hv Ha. unfold eval_atom. simpl.
    destruct (get_relation m (otype o) r) as [rd|] eqn:Hr; [|reflexivity].
    apply outside_eval_rw; try assumption.
    - unfold rel_defined. rewrite Hr. reflexivity.
    - unfold no_empty_inter_model in Hne. rewrite forallb_forall in Hne.
      apply (Hne (otype o, rd)). eapply get_relation_all_rels; exact Hr.
  Qed.

  Hypothesis Hpos : positive_model m = true.

  (* the reference valuation of a positive model is a fixpoint on ALL atoms *)
  Theorem positive_lfp_fixpoint_all : forall a,
    eval_atom m conds store subj (fst (lfp m conds store subj atoms)) a =
    vget (fst (lfp m conds store subj atoms)) a.
  Proof.
    intro a. destruct (existsb (atom_eqb a) atoms) eqn:Ha.
    - apply existsb_atom_In in Ha. apply positive_lfp_fixpoint; assumption.
    - assert (Hnin : ~ In a atoms).
      { intro H. apply existsb_atom_In in H. rewrite H in Ha. discriminate Ha. }
      rewrite (positive_lfp_outside m Hpos conds store subj atoms a Hnin).
      apply outside_eval_atom; [|exact Hnin].
      intros b Hb. apply positive_lfp_outside; assumption.
  Qed.
End Universe.
