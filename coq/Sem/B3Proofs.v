(* Algebra of Kleene's strong three-valued logic (Sem/B3.v): the facts that make the reference
   semantics independent of evaluation order and that make its positive fragment monotone. *)
From Coq Require Import List Bool Permutation.
From OFGA Require Import Sem.B3.
Import ListNotations.

Ltac b3_crush H :=
  simpl; split; intro H; auto;
  try discriminate H;
  try (destruct H as [H|H]; discriminate H);
  try (let H1 := fresh "H" in let H2 := fresh "H" in
       destruct H as [H1 H2]; try discriminate H1; discriminate H2).

(* ---- b3_eqb reflects equality ---- *)
Lemma b3_eqb_eq : forall a b, b3_eqb a b = true <-> a = b.
Proof. intros a b; destruct a, b; simpl; split; intro H; try reflexivity; discriminate H. Qed.

Lemma b3_eqb_refl : forall a, b3_eqb a a = true.
Proof. intro a; destruct a; reflexivity. Qed.

(* ---- or3 / and3: commutative idempotent monoids with absorbing elements ---- *)
Lemma or3_comm : forall a b, or3 a b = or3 b a.
Proof. intros a b; destruct a, b; reflexivity. Qed.
Lemma and3_comm : forall a b, and3 a b = and3 b a.
Proof. intros a b; destruct a, b; reflexivity. Qed.

Lemma or3_assoc : forall a b c, or3 a (or3 b c) = or3 (or3 a b) c.
Proof. intros a b c; destruct a, b, c; reflexivity. Qed.
Lemma and3_assoc : forall a b c, and3 a (and3 b c) = and3 (and3 a b) c.
Proof. intros a b c; destruct a, b, c; reflexivity. Qed.

Lemma or3_idem : forall a, or3 a a = a.
Proof. intro a; destruct a; reflexivity. Qed.
Lemma and3_idem : forall a, and3 a a = a.
Proof. intro a; destruct a; reflexivity. Qed.

Lemma or3_F_l : forall a, or3 F a = a.
Proof. intro a; destruct a; reflexivity. Qed.
Lemma or3_F_r : forall a, or3 a F = a.
Proof. intro a; destruct a; reflexivity. Qed.
Lemma and3_T_l : forall a, and3 T a = a.
Proof. intro a; destruct a; reflexivity. Qed.
Lemma and3_T_r : forall a, and3 a T = a.
Proof. intro a; destruct a; reflexivity. Qed.

Lemma or3_T_l : forall a, or3 T a = T.
Proof. intro a; destruct a; reflexivity. Qed.
Lemma or3_T_r : forall a, or3 a T = T.
Proof. intro a; destruct a; reflexivity. Qed.
Lemma and3_F_l : forall a, and3 F a = F.
Proof. intro a; destruct a; reflexivity. Qed.
Lemma and3_F_r : forall a, and3 a F = F.
Proof. intro a; destruct a; reflexivity. Qed.

(* lattice absorption and distributivity (Kleene algebra) *)
Lemma or3_and3_absorb : forall a b, or3 a (and3 a b) = a.
Proof. intros a b; destruct a, b; reflexivity. Qed.
Lemma and3_or3_absorb : forall a b, and3 a (or3 a b) = a.
Proof. intros a b; destruct a, b; reflexivity. Qed.
Lemma and3_or3_distr : forall a b c, and3 a (or3 b c) = or3 (and3 a b) (and3 a c).
Proof. intros a b c; destruct a, b, c; reflexivity. Qed.
Lemma or3_and3_distr : forall a b c, or3 a (and3 b c) = and3 (or3 a b) (or3 a c).
Proof. intros a b c; destruct a, b, c; reflexivity. Qed.

(* inversion: when is the result decided *)
Lemma or3_T_iff : forall a b, or3 a b = T <-> a = T \/ b = T.
Proof. intros a b; destruct a, b; b3_crush H. Qed.
Lemma or3_F_iff : forall a b, or3 a b = F <-> a = F /\ b = F.
Proof. intros a b; destruct a, b; b3_crush H. Qed.
Lemma and3_T_iff : forall a b, and3 a b = T <-> a = T /\ b = T.
Proof. intros a b; destruct a, b; b3_crush H. Qed.
Lemma and3_F_iff : forall a b, and3 a b = F <-> a = F \/ b = F.
Proof. intros a b; destruct a, b; b3_crush H. Qed.

(* ---- negation ---- *)
Lemma not3_invol : forall a, not3 (not3 a) = a.
Proof. intro a; destruct a; reflexivity. Qed.
Lemma de_morgan_or3 : forall a b, not3 (or3 a b) = and3 (not3 a) (not3 b).
Proof. intros a b; destruct a, b; reflexivity. Qed.
Lemma de_morgan_and3 : forall a b, not3 (and3 a b) = or3 (not3 a) (not3 b).
Proof. intros a b; destruct a, b; reflexivity. Qed.
Lemma diff3_de_morgan : forall b s, not3 (diff3 b s) = or3 (not3 b) s.
Proof. intros b s; destruct b, s; reflexivity. Qed.
Lemma diff3_T_iff : forall b s, diff3 b s = T <-> b = T /\ s = F.
Proof. intros b s; destruct b, s; b3_crush H. Qed.
Lemma diff3_F_iff : forall b s, diff3 b s = F <-> b = F \/ s = T.
Proof. intros b s; destruct b, s; b3_crush H. Qed.

(* ---- the truth order F < E < T is a partial (indeed total) order ---- *)
Lemma le3_refl : forall a, le3 a a = true.
Proof. intro a; destruct a; reflexivity. Qed.
Lemma le3_trans : forall a b c, le3 a b = true -> le3 b c = true -> le3 a c = true.
Proof. intros a b c; destruct a, b, c; simpl; intros H1 H2; try reflexivity; try discriminate H1; discriminate H2. Qed.
Lemma le3_antisym : forall a b, le3 a b = true -> le3 b a = true -> a = b.
Proof. intros a b; destruct a, b; simpl; intros H1 H2; try reflexivity; try discriminate H1; discriminate H2. Qed.
Lemma le3_total : forall a b, le3 a b = true \/ le3 b a = true.
Proof. intros a b; destruct a, b; simpl; auto. Qed.
Lemma le3_F_l : forall a, le3 F a = true.
Proof. intro a; destruct a; reflexivity. Qed.
Lemma le3_T_r : forall a, le3 a T = true.
Proof. intro a; destruct a; reflexivity. Qed.
Lemma le3_T_l : forall a, le3 T a = true -> a = T.
Proof. intro a; destruct a; simpl; intro H; try reflexivity; discriminate H. Qed.
Lemma le3_F_r : forall a, le3 a F = true -> a = F.
Proof. intro a; destruct a; simpl; intro H; try reflexivity; discriminate H. Qed.

(* or3 / and3 are join / meet of the truth order *)
Lemma or3_ub_l : forall a b, le3 a (or3 a b) = true.
Proof. intros a b; destruct a, b; reflexivity. Qed.
Lemma or3_ub_r : forall a b, le3 b (or3 a b) = true.
Proof. intros a b; destruct a, b; reflexivity. Qed.
Lemma or3_lub : forall a b c, le3 a c = true -> le3 b c = true -> le3 (or3 a b) c = true.
Proof. intros a b c; destruct a, b, c; simpl; intros H1 H2; try reflexivity; try discriminate H1; discriminate H2. Qed.
Lemma and3_lb_l : forall a b, le3 (and3 a b) a = true.
Proof. intros a b; destruct a, b; reflexivity. Qed.
Lemma and3_lb_r : forall a b, le3 (and3 a b) b = true.
Proof. intros a b; destruct a, b; reflexivity. Qed.
Lemma and3_glb : forall a b c, le3 c a = true -> le3 c b = true -> le3 c (and3 a b) = true.
Proof. intros a b c; destruct a, b, c; simpl; intros H1 H2; try reflexivity; try discriminate H1; discriminate H2. Qed.

(* ---- monotonicity ---- *)
Lemma or3_mono : forall a a' b b',
  le3 a a' = true -> le3 b b' = true -> le3 (or3 a b) (or3 a' b') = true.
Proof. intros a a' b b'; destruct a, a', b, b'; simpl; intros H1 H2; try reflexivity; try discriminate H1; discriminate H2. Qed.
Lemma and3_mono : forall a a' b b',
  le3 a a' = true -> le3 b b' = true -> le3 (and3 a b) (and3 a' b') = true.
Proof. intros a a' b b'; destruct a, a', b, b'; simpl; intros H1 H2; try reflexivity; try discriminate H1; discriminate H2. Qed.
Lemma not3_anti : forall a b, le3 a b = true -> le3 (not3 b) (not3 a) = true.
Proof. intros a b; destruct a, b; simpl; intro H; try reflexivity; discriminate H. Qed.
(* difference: monotone in the base, antitone in the subtract *)
Lemma diff3_mono_anti : forall b b' s s',
  le3 b b' = true -> le3 s' s = true -> le3 (diff3 b s) (diff3 b' s') = true.
Proof. intros b b' s s' H1 H2. unfold diff3. apply and3_mono; [exact H1 | apply not3_anti; exact H2]. Qed.

(* ---- n-ary folds ---- *)
Lemma or3_list_app : forall l1 l2, or3_list (l1 ++ l2) = or3 (or3_list l1) (or3_list l2).
Proof.
  intros l1 l2; induction l1 as [|x l1 IH]; simpl.
  - symmetry; apply or3_F_l.
  - unfold or3_list in *; simpl; rewrite IH; apply or3_assoc.
Qed.
Lemma and3_list_app : forall l1 l2, and3_list (l1 ++ l2) = and3 (and3_list l1) (and3_list l2).
Proof.
  intros l1 l2; induction l1 as [|x l1 IH]; simpl.
  - symmetry; apply and3_T_l.
  - unfold and3_list in *; simpl; rewrite IH; apply and3_assoc.
Qed.

Lemma or3_list_cons : forall x l, or3_list (x :: l) = or3 x (or3_list l).
Proof. reflexivity. Qed.
Lemma and3_list_cons : forall x l, and3_list (x :: l) = and3 x (and3_list l).
Proof. reflexivity. Qed.

(* arrival order of the children is irrelevant *)
Theorem or3_list_perm : forall l l', Permutation l l' -> or3_list l = or3_list l'.
Proof.
  intros l l' P; induction P as [|x l l' P IH|x y l|l l' l'' P1 IH1 P2 IH2].
  - reflexivity.
  - rewrite !or3_list_cons, IH; reflexivity.
  - rewrite !or3_list_cons, !or3_assoc, (or3_comm y x); reflexivity.
  - rewrite IH1; exact IH2.
Qed.
Theorem and3_list_perm : forall l l', Permutation l l' -> and3_list l = and3_list l'.
Proof.
  intros l l' P; induction P as [|x l l' P IH|x y l|l l' l'' P1 IH1 P2 IH2].
  - reflexivity.
  - rewrite !and3_list_cons, IH; reflexivity.
  - rewrite !and3_list_cons, !and3_assoc, (and3_comm y x); reflexivity.
  - rewrite IH1; exact IH2.
Qed.

(* characterisation of the n-ary folds by membership *)
Lemma or3_list_T_iff : forall l, or3_list l = T <-> In T l.
Proof.
  induction l as [|x l IH].
  - split; [intro H; discriminate H | intros []].
  - rewrite or3_list_cons, or3_T_iff, IH. simpl. split; intros [H|H]; auto.
Qed.
Lemma or3_list_F_iff : forall l, or3_list l = F <-> (forall x, In x l -> x = F).
Proof.
  induction l as [|x l IH].
  - split; [intros _ y [] | reflexivity].
  - rewrite or3_list_cons, or3_F_iff, IH. split.
    + intros [H1 H2] y [Hy|Hy]; [subst; reflexivity | apply H2; exact Hy].
    + intro H; split; [apply H; left; reflexivity | intros y Hy; apply H; right; exact Hy].
Qed.
Lemma and3_list_T_iff : forall l, and3_list l = T <-> (forall x, In x l -> x = T).
Proof.
  induction l as [|x l IH].
  - split; [intros _ y [] | reflexivity].
  - rewrite and3_list_cons, and3_T_iff, IH. split.
    + intros [H1 H2] y [Hy|Hy]; [subst; reflexivity | apply H2; exact Hy].
    + intro H; split; [apply H; left; reflexivity | intros y Hy; apply H; right; exact Hy].
Qed.
Lemma and3_list_F_iff : forall l, and3_list l = F <-> In F l.
Proof.
  induction l as [|x l IH].
  - split; [intro H; discriminate H | intros []].
  - rewrite and3_list_cons, and3_F_iff, IH. simpl. split; intros [H|H]; auto.
Qed.

(* every element is below the disjunction / above the conjunction *)
Lemma or3_list_ub : forall l x, In x l -> le3 x (or3_list l) = true.
Proof.
  induction l as [|y l IH]; intros x H; [destruct H|].
  rewrite or3_list_cons. destruct H as [H|H].
  - subst; apply or3_ub_l.
  - eapply le3_trans; [apply IH; exact H | apply or3_ub_r].
Qed.
Lemma and3_list_lb : forall l x, In x l -> le3 (and3_list l) x = true.
Proof.
  induction l as [|y l IH]; intros x H; [destruct H|].
  rewrite and3_list_cons. destruct H as [H|H].
  - subst; apply and3_lb_l.
  - eapply le3_trans; [apply and3_lb_r | apply IH; exact H].
Qed.

(* pointwise monotonicity of the folds *)
Lemma or3_list_mono : forall l l',
  Forall2 (fun a b => le3 a b = true) l l' -> le3 (or3_list l) (or3_list l') = true.
Proof.
  intros l l' H; induction H as [|a b l l' Hab Hl IH]; [reflexivity|].
  rewrite !or3_list_cons; apply or3_mono; assumption.
Qed.
Lemma and3_list_mono : forall l l',
  Forall2 (fun a b => le3 a b = true) l l' -> le3 (and3_list l) (and3_list l') = true.
Proof.
  intros l l' H; induction H as [|a b l l' Hab Hl IH]; [reflexivity|].
  rewrite !and3_list_cons; apply and3_mono; assumption.
Qed.
Lemma or3_list_map_mono : forall (A : Type) (f g : A -> b3) (l : list A),
  (forall x, In x l -> le3 (f x) (g x) = true) ->
  le3 (or3_list (map f l)) (or3_list (map g l)) = true.
Proof.
  intros A f g l H; apply or3_list_mono. induction l as [|x l IH]; simpl; constructor.
  - apply H; left; reflexivity.
  - apply IH; intros y Hy; apply H; right; exact Hy.
Qed.
(* more disjuncts can only raise the value *)
Lemma or3_list_app_le : forall l1 l2, le3 (or3_list l1) (or3_list (l1 ++ l2)) = true.
Proof. intros l1 l2; rewrite or3_list_app; apply or3_ub_l. Qed.
Lemma or3_list_incl_le : forall l l', incl l l' -> le3 (or3_list l) (or3_list l') = true.
Proof.
  induction l as [|x l IH]; intros l' H; [apply le3_F_l|].
  rewrite or3_list_cons; apply or3_lub.
  - apply or3_list_ub; apply H; left; reflexivity.
  - apply IH; intros y Hy; apply H; right; exact Hy.
Qed.

(* rank in the chain F < E < T (measure for the fixpoint iteration) *)
Definition rank3 (a : b3) : nat := match a with F => 0 | E => 1 | T => 2 end.
Lemma rank3_le : forall a b, le3 a b = true -> rank3 a <= rank3 b.
Proof. intros a b; destruct a, b; simpl; intro H; try discriminate H; auto. Qed.
Lemma rank3_lt : forall a b, le3 a b = true -> b3_eqb a b = false -> rank3 a < rank3 b.
Proof. intros a b; destruct a, b; simpl; intros H1 H2; try discriminate H1; try discriminate H2; auto. Qed.
Lemma rank3_max : forall a, rank3 a <= 2.
Proof. intro a; destruct a; simpl; auto. Qed.

(* ---- information order: E ("not evaluated") is refined by every value ---- *)
(* An outcome e refines to the true value t when it is either undetermined or equal to t.  The
   Kleene connectives are monotone in this order: replacing an undetermined operand by its true
   value never flips a decision already taken.  (This is why an error reported by one child --
   depth exceeded, condition not evaluable -- can never corrupt a decision of the parent.) *)
Definition refines (e t : b3) : Prop := e = E \/ e = t.

Lemma refines_refl : forall t, refines t t.
Proof. intro t; right; reflexivity. Qed.
Lemma refines_E : forall t, refines E t.
Proof. intro t; left; reflexivity. Qed.
Lemma refines_decided : forall e t, refines e t -> e <> E -> e = t.
Proof. intros e t [H|H] Hn; [contradiction | exact H]. Qed.

Lemma or3_refines : forall a a' b b', refines a a' -> refines b b' -> refines (or3 a b) (or3 a' b').
Proof.
  intros a a' b b' [Ha|Ha] [Hb|Hb]; subst; unfold refines;
    destruct a'; destruct b'; simpl; auto; destruct a; simpl; auto; destruct b; simpl; auto.
Qed.
Lemma and3_refines : forall a a' b b', refines a a' -> refines b b' -> refines (and3 a b) (and3 a' b').
Proof.
  intros a a' b b' [Ha|Ha] [Hb|Hb]; subst; unfold refines;
    destruct a'; destruct b'; simpl; auto; destruct a; simpl; auto; destruct b; simpl; auto.
Qed.
Lemma not3_refines : forall a a', refines a a' -> refines (not3 a) (not3 a').
Proof. intros a a' [Ha|Ha]; subst; unfold refines; simpl; auto. Qed.
Lemma diff3_refines : forall a a' b b', refines a a' -> refines b b' -> refines (diff3 a b) (diff3 a' b').
Proof. intros a a' b b' Ha Hb. unfold diff3. apply and3_refines; [exact Ha | apply not3_refines; exact Hb]. Qed.

Lemma or3_list_refines : forall l l', Forall2 refines l l' -> refines (or3_list l) (or3_list l').
Proof.
  intros l l' H; induction H as [|a b l l' Hab Hl IH]; [apply refines_refl|].
  rewrite !or3_list_cons; apply or3_refines; assumption.
Qed.
Lemma and3_list_refines : forall l l', Forall2 refines l l' -> refines (and3_list l) (and3_list l').
Proof.
  intros l l' H; induction H as [|a b l l' Hab Hl IH]; [apply refines_refl|].
  rewrite !and3_list_cons; apply and3_refines; assumption.
Qed.
