(* Write-time tuple validation (C18), definitions only; proofs in Sem/ValidProofs.v.

   CODE SIDE (as coded, on the strings of the request):
     internal/validation/validation.go   ValidateTupleForWrite = ValidateUserObjectRelation
                                         (ValidateUser, ValidateObject, ValidateRelation) +
                                         ValidateTupleForRead (Sem/Valid.v) + the context checks of
                                         validateCondition (ValidateStruct, CastContextToTypedParameters,
                                         unknown parameter names)
     pkg/server/commands/write.go        validateWriteRequest (per tuple: ValidateTupleForWrite,
                                         validateNotImplicit, context size limit; deletes: IsValidUser;
                                         duplicates; entity limit), Execute (options, datastore.Write)
     pkg/server/commands/check_command.go validateCheckRequest: contextual tuples go through
                                         ValidateTupleForWrite ONLY (no validateNotImplicit, no size limit)
   The string predicates are those of Codec/TupleStr.v (C29).

   SPEC SIDE (written from the property text only): [parse] reads a request tuple by the documented
   grammar (type:id | type:* | type:id#relation, names looked up) and [allowed_tuple] says when the
   model allows it: object type and relation exist; ONE restriction of the relation matches the user
   (type and form) AND carries the tuple's condition (or none); tupleset relations receive concrete
   objects only; the condition is defined, the context fits the declared parameter types, the size
   limit holds; the user is not the tuple's own object#relation.

   Names are interned by the harness: [ntable] maps the strings to the numbers of Sem/Vocab.v. *)
From OFGA Require Export Sem.Valid Codec.TupleStr.
Open Scope N_scope.

(* ------------------------------------------------------------------------------------------ *)
(* Names                                                                                       *)

Definition ntable := list (bytes * N).

Fixpoint nlookup (tb : ntable) (s : bytes) : option N :=
  match tb with
  | [] => None
  | (k, v) :: tb' => if beqb k s then Some v else nlookup tb' s
  end.

Record env := { e_types : ntable; e_rels : ntable; e_conds : ntable }.

(* ------------------------------------------------------------------------------------------ *)
(* Condition parameters and context values (by kind)                                           *)

Inductive ptype :=
| PBool | PString | PInt | PUint | PDouble | PDuration | PTimestamp | PIpaddr | PAny
| PList (t : ptype) | PMap (t : ptype).

(* classes of string values: decimal integer (sign), decimal dyadic fraction, duration,
   RFC 3339 timestamp, IP address, any other text *)
Inductive sclass := SInt (nonneg : bool) | SFrac | SText | SDur | STime | SIp.

(* google.protobuf.Value by kind.  KNum integral nonneg: a float64 of small magnitude.
   KCtl: a string value or a nested key that contains a control character. *)
Inductive vkind :=
| KNull | KBool
| KNum (integral nonneg : bool)
| KStr (c : sclass)
| KList (l : list vkind)
| KMap (l : list vkind)
| KCtl.

Definition params := list (bytes * ptype).
Definition cdefs := list (cid * params).
Definition context := list (bytes * vkind).

Fixpoint plookup {A : Type} (k : bytes) (l : list (bytes * A)) : option A :=
  match l with
  | [] => None
  | (k', v) :: l' => if beqb k' k then Some v else plookup k l'
  end.

Fixpoint cd_lookup (c : cid) (cds : cdefs) : option params :=
  match cds with
  | [] => None
  | (c', ps) :: cds' => if N.eqb c' c then Some ps else cd_lookup c cds'
  end.

Definition cond_ids (cds : cdefs) : list cid := map fst cds.

(* the converters of internal/condition/types, by kind *)
Fixpoint fits (t : ptype) (k : vkind) {struct k} : bool :=
  match t with
  | PAny => true
  | PBool => match k with KBool => true | _ => false end
  | PString => match k with KStr _ => true | _ => false end
  | PInt => match k with KNum i _ => i | KStr (SInt _) => true | _ => false end
  | PUint => match k with KNum i p => i && p | KStr (SInt p) => p | _ => false end
  | PDouble => match k with KNum _ _ => true | KStr (SInt _) => true | KStr SFrac => true | _ => false end
  | PDuration => match k with KStr SDur => true | _ => false end
  | PTimestamp => match k with KStr STime => true | _ => false end
  | PIpaddr => match k with KStr SIp => true | _ => false end
  | PList t' => match k with KList l => forallb (fits t') l | _ => false end
  | PMap t' => match k with KMap l => forallb (fits t') l | _ => false end
  end.

(* ValidateStruct: a forbidden (control) character anywhere in the value *)
Fixpoint has_ctl (k : vkind) : bool :=
  match k with
  | KCtl => true
  | KList l => existsb has_ctl l
  | KMap l => existsb has_ctl l
  | _ => false
  end.

(* utils.ContainsForbiddenChars *)
Definition forbidden (s : bytes) : bool := existsb is_control (runes s).

(* ------------------------------------------------------------------------------------------ *)
(* Request tuples                                                                              *)

Record wcond := { wc_name : bytes; wc_ctx : context; wc_size : N (* proto.Size of the context *) }.
Record rtuple := { rt_obj : bytes; rt_rel : bytes; rt_user : bytes; rt_cond : option wcond }.

(* error classes: *tuple.InvalidTupleError with cause TypeNotFoundError / RelationNotFoundError /
   any other cause, and *tuple.InvalidConditionalTupleError *)
Inductive verr := ETypeNotFound | ERelNotFound | EInvalidTuple | EInvalidCond.
Definition vres := option verr.          (* None = accepted *)

Definition accepted (r : vres) : bool := match r with None => true | Some _ => false end.

Definition verr_eqb (a b : verr) : bool :=
  match a, b with
  | ETypeNotFound, ETypeNotFound | ERelNotFound, ERelNotFound
  | EInvalidTuple, EInvalidTuple | EInvalidCond, EInvalidCond => true
  | _, _ => false
  end.

(* ========================================================================================== *)
(* CODE SIDE                                                                                   *)
(* ========================================================================================== *)

Section Coded.
Variable e : env.
Variable m : model.
Variable cds : cdefs.

(* typesys.GetTypeDefinition(name) *)
Definition type_of_name (s : bytes) : option tid :=
  match nlookup (e_types e) s with
  | Some t => match find_type m t with Some _ => Some t | None => None end
  | None => None
  end.

(* typesys.GetRelation(typeName, relName): ErrObjectTypeUndefined | ErrRelationUndefined | found *)
Inductive relres := RTypeUndef | RRelUndef | RFound (t : tid) (r : rid) (rd : reldef).

Definition lookup_relation (tn rn : bytes) : relres :=
  match type_of_name tn with
  | None => RTypeUndef
  | Some t =>
      match nlookup (e_rels e) rn with
      | None => RRelUndef
      | Some r => match Vocab.get_relation m t r with
                  | Some rd => RFound t r rd
                  | None => RRelUndef
                  end
      end
  end.

(* ValidateUser (schema 1.1) *)
Definition validate_user (u : bytes) : vres :=
  if negb (is_valid_user u) then Some EInvalidTuple
  else
    let isobj := is_valid_object u in
    let isset := is_valid_userset u in
    let uo := fst (split_object_relation u) in
    let ur := snd (split_object_relation u) in
    let ut := get_type uo in
    if negb isobj && negb isset then Some EInvalidTuple
    else match type_of_name ut with
         | None => Some ETypeNotFound
         | Some _ =>
             if isset then
               match lookup_relation ut ur with
               | RTypeUndef => Some ETypeNotFound
               | RRelUndef => Some ERelNotFound
               | RFound _ _ _ => None
               end
             else None
         end.

(* ValidateObject *)
Definition validate_object (o : bytes) : vres :=
  if negb (is_valid_object o) then Some EInvalidTuple
  else if beqb (snd (split_object o)) wildcard then Some EInvalidTuple
  else match type_of_name (fst (split_object o)) with
       | None => Some ETypeNotFound
       | Some _ => None
       end.

(* ValidateRelation *)
Definition validate_relation (o r : bytes) : vres :=
  if negb (is_valid_relation r) then Some EInvalidTuple
  else match lookup_relation (get_type o) r with
       | RTypeUndef => Some ETypeNotFound
       | RRelUndef => Some ERelNotFound
       | RFound _ _ _ => None
       end.

(* ValidateUserObjectRelation: user, then object, then relation *)
Definition validate_uor (w : rtuple) : vres :=
  match validate_user (rt_user w) with
  | Some x => Some x
  | None => match validate_object (rt_obj w) with
            | Some x => Some x
            | None => validate_relation (rt_obj w) (rt_rel w)
            end
  end.

Definition nget (tb : ntable) (s : bytes) : N :=
  match nlookup tb s with Some v => v | None => 0 end.

(* the user string as a subject of Sem/Vocab.v (object ids play no role in validation).  The
   order of the tests is the one of validateTypeRestrictions: IsObjectRelation, IsTypedWildcard,
   otherwise an object. *)
Definition subject_of_user (u : bytes) : subject :=
  let uo := fst (split_object_relation u) in
  let ur := snd (split_object_relation u) in
  let t := nget (e_types e) (get_type uo) in
  if is_valid_userset u then SSet {| otype := t; oid := 0 |} (nget (e_rels e) ur)
  else if is_typed_wildcard u then SWild t
  else SObj {| otype := t; oid := 0 |}.

Definition vtuple_of (w : rtuple) (c : cid) : tuple :=
  {| t_obj := {| otype := nget (e_types e) (get_type (rt_obj w)); oid := 0 |};
     t_rel := nget (e_rels e) (rt_rel w);
     t_sub := subject_of_user (rt_user w);
     t_cond := c;
     t_ceval := T |}.

(* ValidateStruct + CastContextToTypedParameters + "found invalid context parameter" *)
Definition cast_ok (ps : params) (ctx : context) : bool :=
  match ctx with
  | [] => true                                         (* len(contextMap) == 0 => nil, nil *)
  | _ => match ps with
         | [] => false                                 (* no parameters defined for the condition *)
         | _ => forallb (fun p => match plookup (fst p) ctx with
                                  | None => true      (* parameter not provided: skipped *)
                                  | Some v => fits (snd p) v
                                  end) ps
         end
  end.

Definition ctx_ok (ps : params) (ctx : context) : bool :=
  forallb (fun kv => negb (forbidden (fst kv)) && negb (has_ctl (snd kv))) ctx &&
  cast_ok ps ctx &&
  forallb (fun kv => match plookup (fst kv) ps with Some _ => true | None => false end) ctx.

(* ValidateTupleForRead on a well-formed tuple, staged as the code: tupleset restrictions and
   type restrictions fail with InvalidTupleError, everything in validateCondition with
   InvalidConditionalTupleError.  The first two stages and the restriction part of the third are
   the functions of Sem/Valid.v. *)
Definition tupleset_stage (rd : reldef) (t : tuple) : bool :=
  if is_tupleset m (otype (t_obj t)) (t_rel t)
  then is_this (rd_rw rd) && match t_sub t with SObj _ => true | _ => false end
  else true.

Definition validate_read (w : rtuple) : vres :=
  let t0 := vtuple_of w 0 in
  match Vocab.get_relation m (otype (t_obj t0)) (t_rel t0) with
  | None => Some EInvalidTuple             (* unreachable after validate_uor *)
  | Some rd =>
      if negb (tupleset_stage rd t0) then Some EInvalidTuple
      else if negb (type_restr_ok (rd_restr rd) (t_sub t0)) then Some EInvalidTuple
      else match rt_cond w with
           | None => if nocond_ok (rd_restr rd) (t_sub t0) then None else Some EInvalidCond
           | Some wc =>
               if forbidden (wc_name wc) then Some EInvalidCond
               else match nlookup (e_conds e) (wc_name wc) with
                    | None => Some EInvalidCond                      (* undefined condition *)
                    | Some c =>
                        match cd_lookup c cds with
                        | None => Some EInvalidCond                  (* undefined condition *)
                        | Some ps =>
                            if N.eqb c 0 then Some EInvalidCond
                            else if negb (cond_ok (cond_ids cds) (rd_restr rd) (t_sub t0) c)
                            then Some EInvalidCond
                            else if ctx_ok ps (wc_ctx wc) then None else Some EInvalidCond
                        end
                    end
           end
  end.

(* ValidateTupleForWrite: what a contextual tuple goes through *)
Definition validate_tuple (w : rtuple) : vres :=
  match validate_uor w with
  | Some x => Some x
  | None => validate_read w
  end.

(* validateNotImplicit *)
Definition implicit (w : rtuple) : bool :=
  beqb (rt_rel w) (snd (split_object_relation (rt_user w))) &&
  beqb (rt_obj w) (fst (split_object_relation (rt_user w))).

Definition ctx_size (w : rtuple) : N :=
  match rt_cond w with Some wc => wc_size wc | None => 0 end.

(* one element of `writes` in validateWriteRequest *)
Definition validate_write (limit : N) (w : rtuple) : vres :=
  match validate_tuple w with
  | Some x => Some x
  | None => if implicit w then Some EInvalidTuple
            else if limit <? ctx_size w then Some EInvalidTuple
            else None
  end.

Definition valid_for_write (limit : N) (w : rtuple) : bool := accepted (validate_write limit w).
Definition valid_ctx_tuple (w : rtuple) : bool := accepted (validate_tuple w).

End Coded.

(* a validator session: the tuples are validated one after the other (one typesystem instance,
   one Write request, one list of contextual tuples); the model has no state to carry along *)
Definition validate_seq (e : env) (m : model) (cds : cdefs) (limit : N) (ws : list rtuple) : list bool :=
  map (valid_for_write e m cds limit) ws.

Definition validate_ctx_seq (e : env) (m : model) (cds : cdefs) (ws : list rtuple) : list bool :=
  map (valid_ctx_tuple e m cds) ws.

(* ------------------------------------------------------------------------------------------ *)
(* The Write command over a simple store: order of operations                                  *)

Record skey := { k_obj : bytes; k_rel : bytes; k_user : bytes }.
Definition skey_eqb (a b : skey) : bool :=
  beqb (k_obj a) (k_obj b) && beqb (k_rel a) (k_rel b) && beqb (k_user a) (k_user b).

(* stored tuple: key + condition name ([] = none) *)
Definition store := list (skey * bytes).

Definition key_of (w : rtuple) : skey := {| k_obj := rt_obj w; k_rel := rt_rel w; k_user := rt_user w |}.
Definition cname_of (w : rtuple) : bytes := match rt_cond w with Some wc => wc_name wc | None => [] end.

Definition has_key (k : skey) (s : store) : bool := existsb (fun x => skey_eqb (fst x) k) s.
Definition kmem (k : skey) (l : list skey) : bool := existsb (skey_eqb k) l.

(* on_duplicate / on_missing: "" or "error", "ignore", anything else *)
Inductive wopt := OError | OIgnore | OBad.

(* result classes = the gRPC codes of the command *)
Inductive wres :=
| WOk
| WInvalidInput        (* ErrInvalidWriteInput: no deletes and no writes *)
| WValidation          (* validation_error *)
| WDuplicate           (* cannot_allow_duplicate_tuples_in_one_request *)
| WLimit               (* exceeded_entity_limit *)
| WFailedInput.        (* write_failed_due_to_invalid_input: the datastore refused *)

(* calls on the datastore, in order *)
Inductive dscall :=
| DsReadModel
| DsWrite (deletes : list skey) (writes : list rtuple).

(* validateNoDuplicatesAndCorrectSize keys its map by tuple.TupleKeyToString *)
Definition key_str (k : skey) : bytes := tuple_key_to_string (k_obj k) (k_rel k) (k_user k).

Fixpoint first_dup (seen : list bytes) (l : list bytes) : bool :=
  match l with
  | [] => false
  | k :: l' => existsb (beqb k) seen || first_dup (k :: seen) l'
  end.

(* datastore.Write (transactional; deletes first): refused, or the new contents.
   OIgnore skips a delete that is missing and a write whose key is present. *)
Definition ds_write (od om : wopt) (s : store) (deletes : list skey) (writes : list rtuple) : option store :=
  let miss := existsb (fun k => negb (has_key k s)) deletes in
  let dupl := existsb (fun w => has_key (key_of w) s) writes in
  if miss && match om with OIgnore => false | _ => true end then None
  else if dupl && match od with OIgnore => false | _ => true end then None
  else
    let kept := filter (fun x => negb (kmem (fst x) deletes)) s in
    let fresh := filter (fun w => negb (has_key (key_of w) kept)) writes in
    Some (kept ++ map (fun w => (key_of w, cname_of w)) fresh).

Section Command.
Variable e : env.
Variable m : model.
Variable cds : cdefs.
Variable limit : N.          (* conditionContextByteLimit *)
Variable maxw : N.           (* datastore.MaxTuplesPerWrite() *)

(* validateWriteRequest *)
Definition validate_request (deletes : list skey) (writes : list rtuple) : wres * list dscall :=
  match deletes, writes with
  | [], [] => (WInvalidInput, [])
  | _, _ =>
      let calls := match writes with [] => [] | _ => [DsReadModel] end in
      if negb (forallb (valid_for_write e m cds limit) writes) then (WValidation, calls)
      else if negb (forallb (fun k => is_valid_user (k_user k)) deletes) then (WValidation, calls)
      else if first_dup [] (map key_str (deletes ++ map key_of writes)) then (WDuplicate, calls)
      else if maxw <? N.of_nat (length deletes + length writes) then (WLimit, calls)
      else (WOk, calls)
  end.

(* Execute: result, datastore calls in order, store afterwards *)
Definition write_cmd (od om : wopt) (s : store) (deletes : list skey) (writes : list rtuple)
  : wres * list dscall * store :=
  match validate_request deletes writes with
  | (WOk, calls) =>
      match od, om with
      | OBad, _ | _, OBad => (WValidation, calls, s)
      | _, _ =>
          match ds_write od om s deletes writes with
          | None => (WFailedInput, calls ++ [DsWrite deletes writes], s)
          | Some s' => (WOk, calls ++ [DsWrite deletes writes], s')
          end
      end
  | (r, calls) => (r, calls, s)
  end.

End Command.

(* ========================================================================================== *)
(* SPEC SIDE                                                                                   *)
(* ========================================================================================== *)

(* "no control character and none of bad" (the documented grammar of C29) *)
Definition cleanb (bad : list N) (s : bytes) : bool :=
  forallb (fun c => negb (is_control c) && negb (mem c bad)) (runes s).

Definition nonempty (s : bytes) : bool := match s with [] => false | _ => true end.

Definition id_chars : list N := [c_hash; c_colon; c_space].
Definition setid_chars : list N := [c_hash; c_colon; c_space; c_star].
Definition rel_chars : list N := [c_hash; c_colon; c_at; c_space; c_star].

(* a request tuple read by the grammar *)
Inductive wuser :=
| WObj (t : tid) (id : bytes)
| WWild (t : tid)
| WSet (t : tid) (id : bytes) (r : rid).

Record wtuple := {
  w_ot : tid; w_oid : bytes; w_rel : rid; w_user : wuser;
  w_cond : option (cid * context * N)        (* condition, context, context size *)
}.

Definition wuser_type (u : wuser) : tid := match u with WObj t _ | WWild t | WSet t _ _ => t end.
Definition wuser_kind (u : wuser) : rkind := match u with WObj _ _ => RObj | WWild _ => RWild | WSet _ _ r => RSet r end.
Definition w_cid (w : wtuple) : cid := match w_cond w with Some (c, _, _) => c | None => 0 end.

Section Spec.
Variable e : env.

(* "type:id" : a known type name, a non-empty id without '#', ':', ' ' and control characters *)
Definition p_object (s : bytes) : option (tid * bytes) :=
  match cut c_colon s with
  | Some (tn, id) =>
      match nlookup (e_types e) tn with
      | Some t => if nonempty id && cleanb id_chars id then Some (t, id) else None
      | None => None
      end
  | None => None
  end.

(* "type:id" | "type:*" | "type:id#relation" (no '*' in the id of a userset) *)
Definition p_user (s : bytes) : option wuser :=
  match cut c_hash s with
  | None =>
      match p_object s with
      | Some (t, id) => if beqb id wildcard then Some (WWild t) else Some (WObj t id)
      | None => None
      end
  | Some (o, rn) =>
      match p_object o, nlookup (e_rels e) rn with
      | Some (t, id), Some r => if cleanb setid_chars id then Some (WSet t id r) else None
      | _, _ => None
      end
  end.

Definition p_cond (c : option wcond) : option (option (cid * context * N)) :=
  match c with
  | None => Some None
  | Some wc => match nlookup (e_conds e) (wc_name wc) with
               | Some ci => Some (Some (ci, wc_ctx wc, wc_size wc))
               | None => None
               end
  end.

Definition parse (w : rtuple) : option wtuple :=
  match p_object (rt_obj w), nlookup (e_rels e) (rt_rel w), p_user (rt_user w), p_cond (rt_cond w) with
  | Some (t, id), Some r, Some u, Some c =>
      if beqb id wildcard then None
      else Some {| w_ot := t; w_oid := id; w_rel := r; w_user := u; w_cond := c |}
  | _, _, _, _ => None
  end.

End Spec.

Section Allowed.
Variable m : model.
Variable cds : cdefs.

(* THE restriction that lets the tuple in: it matches the user's type and form and carries the
   tuple's condition (0 = none) *)
Definition restr_allows (u : wuser) (c : cid) (d : restriction) : bool :=
  N.eqb (r_type d) (wuser_type u) && kind_eqb (r_kind d) (wuser_kind u) && N.eqb (r_cond d) c.

(* every provided value belongs to a declared parameter and fits its type; no control characters *)
Definition ctx_fits (ps : params) (ctx : context) : bool :=
  forallb (fun kv =>
    negb (forbidden (fst kv)) && negb (has_ctl (snd kv)) &&
    match plookup (fst kv) ps with Some t => fits t (snd kv) | None => false end) ctx.

Definition self_pointing (w : wtuple) : bool :=
  match w_user w with
  | WSet t id r => N.eqb t (w_ot w) && beqb id (w_oid w) && N.eqb r (w_rel w)
  | _ => false
  end.

Definition concrete (u : wuser) : bool := match u with WObj _ _ => true | _ => false end.

Definition cond_clause (limit : N) (w : wtuple) : bool :=
  match w_cond w with
  | None => true
  | Some (c, ctx, size) =>
      negb (N.eqb c 0) &&
      match cd_lookup c cds with Some ps => ctx_fits ps ctx | None => false end &&
      (size <=? limit)
  end.

Definition allowed_tuple (limit : N) (w : wtuple) : bool :=
  match Vocab.get_relation m (w_ot w) (w_rel w) with
  | None => false
  | Some rd =>
      existsb (restr_allows (w_user w) (w_cid w)) (rd_restr rd) &&
      (if is_tupleset m (w_ot w) (w_rel w) then concrete (w_user w) else true) &&
      cond_clause limit w &&
      negb (self_pointing w)
  end.

(* --- the two ways in which the code is laxer (DESIGN.md F4), as predicates of the tuple ------ *)

(* the user has a restriction of its type and form, none of them carries the condition, but a
   restriction of the same type and ANOTHER form does *)
Definition cond_any_restriction_of_type (rs : list restriction) (u : wuser) (c : cid) : bool :=
  negb (N.eqb c 0) &&
  existsb (fun d => N.eqb (r_type d) (wuser_type u) && kind_eqb (r_kind d) (wuser_kind u)) rs &&
  negb (existsb (restr_allows u c) rs) &&
  existsb (fun d => N.eqb (r_type d) (wuser_type u) && N.eqb (r_cond d) c) rs.

(* an unconditioned userset whose own restrictions all carry a condition passes through an
   unconditioned plain restriction [type] of the same type *)
Definition nocond_via_plain_restriction (rs : list restriction) (u : wuser) (c : cid) : bool :=
  N.eqb c 0 &&
  match u with
  | WSet _ _ _ =>
      existsb (fun d => N.eqb (r_type d) (wuser_type u) && kind_eqb (r_kind d) (wuser_kind u)) rs &&
      negb (existsb (restr_allows u 0) rs) &&
      existsb (fun d => N.eqb (r_type d) (wuser_type u) && kind_eqb (r_kind d) RObj && N.eqb (r_cond d) 0) rs
  | _ => false
  end.

(* [allowed_tuple] with the restriction clause replaced *)
Definition allowed_with (clause : list restriction -> wuser -> cid -> bool) (limit : N) (w : wtuple) : bool :=
  match Vocab.get_relation m (w_ot w) (w_rel w) with
  | None => false
  | Some rd =>
      clause (rd_restr rd) (w_user w) (w_cid w) &&
      (if is_tupleset m (w_ot w) (w_rel w) then concrete (w_user w) else true) &&
      cond_clause limit w &&
      negb (self_pointing w)
  end.

Definition lax_cond (limit : N) (w : wtuple) : bool := allowed_with cond_any_restriction_of_type limit w.
Definition lax_nocond (limit : N) (w : wtuple) : bool := allowed_with nocond_via_plain_restriction limit w.

(* --- hypotheses on the model (boolean; every model accepted by the model validator satisfies
       the first three) ---------------------------------------------------------------------- *)

(* restrictions name defined types, and usersets name relations defined on them *)
Definition restr_wf_one (d : restriction) : bool :=
  match find_type m (r_type d) with
  | None => false
  | Some _ => match r_kind d with RSet r => rel_defined m (r_type d) r | _ => true end
  end.

Definition all_reldefs : list (tid * reldef) :=
  flat_map (fun td => map (fun rd => (td_type td, rd)) (td_rels td)) m.

Definition restr_wf : bool :=
  forallb (fun x => forallb restr_wf_one (rd_restr (snd x))) all_reldefs.

(* a relation used as a tupleset is a direct relation *)
Definition tupleset_direct : bool :=
  forallb (fun x => if is_tupleset m (fst x) (rd_rel (snd x)) then is_this (rd_rw (snd x)) else true) all_reldefs.

(* the laxity cannot show: whenever a relation offers a user type under two different forms, every
   condition (or "none") offered under one form is offered under the other *)
Definition no_mix_rs (rs : list restriction) : bool :=
  forallb (fun d1 => forallb (fun d2 =>
    if N.eqb (r_type d1) (r_type d2) && negb (kind_eqb (r_kind d1) (r_kind d2))
    then existsb (fun d3 => N.eqb (r_type d3) (r_type d2) && kind_eqb (r_kind d3) (r_kind d2) &&
                            N.eqb (r_cond d3) (r_cond d1)) rs
    else true) rs) rs.

Definition no_cond_kind_mix : bool :=
  forallb (fun x => no_mix_rs (rd_restr (snd x))) all_reldefs.

End Allowed.

(* hypotheses on the name tables (the harness interns injectively; model names are identifiers) *)
Fixpoint nodupb (l : list N) : bool :=
  match l with
  | [] => true
  | x :: l' => negb (existsb (N.eqb x) l') && nodupb l'
  end.

Definition names_ok (bad : list N) (tb : ntable) : bool :=
  forallb (fun kv => nonempty (fst kv) && cleanb bad (fst kv)) tb.

Definition env_wf (e : env) : bool :=
  names_ok id_chars (e_types e) && names_ok rel_chars (e_rels e) &&
  nodupb (map snd (e_types e)) && nodupb (map snd (e_rels e)) &&
  forallb (fun kv => negb (forbidden (fst kv))) (e_conds e).

(* representation invariants: parameter lists and contexts are maps (distinct keys) *)
Fixpoint keys_nodup {A : Type} (l : list (bytes * A)) : bool :=
  match l with
  | [] => true
  | (k, _) :: l' => negb (existsb (fun kv => beqb (fst kv) k) l') && keys_nodup l'
  end.

Definition cds_wf (cds : cdefs) : bool := forallb (fun x => keys_nodup (snd x)) cds.

Definition rt_wf (w : rtuple) : bool :=
  match rt_cond w with Some wc => keys_nodup (wc_ctx wc) | None => true end.

(* ------------------------------------------------------------------------------------------ *)
(* What the oracle calls                                                                       *)

Definition allowed_raw (e : env) (m : model) (cds : cdefs) (limit : N) (w : rtuple) : bool :=
  match parse e w with Some t => allowed_tuple m cds limit t | None => false end.

Definition lax_cond_raw (e : env) (m : model) (cds : cdefs) (limit : N) (w : rtuple) : bool :=
  match parse e w with Some t => lax_cond m cds limit t | None => false end.

Definition lax_nocond_raw (e : env) (m : model) (cds : cdefs) (limit : N) (w : rtuple) : bool :=
  match parse e w with Some t => lax_nocond m cds limit t | None => false end.

(* a userset pointing at itself, otherwise allowed (contextual tuples: not refused by the code) *)
Definition self_only_raw (e : env) (m : model) (cds : cdefs) (limit : N) (w : rtuple) : bool :=
  match parse e w with
  | Some t => self_pointing t
  | None => false
  end.

Definition model_hyps (m : model) : bool := restr_wf m && tupleset_direct m.
