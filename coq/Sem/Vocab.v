(* Shared vocabulary of the relationship model (schema 1.1).  All names are interned as N by the
   harness; condition id 0 means "no condition". *)
From Coq Require Export NArith List Bool.
From OFGA Require Export Sem.B3.
Export ListNotations.
Open Scope N_scope.

Definition tid := N.
Definition rid := N.
Definition cid := N.

Record obj := { otype : tid; oid : N }.
Definition obj_eqb (a b : obj) : bool := N.eqb (otype a) (otype b) && N.eqb (oid a) (oid b).

Inductive subject :=
| SObj (o : obj)
| SWild (t : tid)
| SSet (o : obj) (r : rid).

Definition subject_eqb (a b : subject) : bool :=
  match a, b with
  | SObj x, SObj y => obj_eqb x y
  | SWild x, SWild y => N.eqb x y
  | SSet x r, SSet y s => obj_eqb x y && N.eqb r s
  | _, _ => false
  end.

Definition subject_type (s : subject) : tid :=
  match s with SObj o => otype o | SWild t => t | SSet o _ => otype o end.

(* t_ceval: outcome of the tuple's condition under the request context (T when unconditioned);
   it is an input of the relation semantics (C25 is about how it is computed). *)
Record tuple := { t_obj : obj; t_rel : rid; t_sub : subject; t_cond : cid; t_ceval : b3 }.

Inductive rewrite :=
| This
| Computed (r : rid)
| TTU (tupleset computed : rid)
| Union (l : list rewrite)
| Inter (l : list rewrite)
| Diff (b s : rewrite).

Inductive rkind := RObj | RWild | RSet (r : rid).
Record restriction := { r_type : tid; r_kind : rkind; r_cond : cid }.

Record reldef := { rd_rel : rid; rd_rw : rewrite; rd_restr : list restriction }.
Record typedef := { td_type : tid; td_rels : list reldef }.
Definition model := list typedef.

Fixpoint find_type (m : model) (t : tid) : option typedef :=
  match m with
  | [] => None
  | d :: m' => if N.eqb (td_type d) t then Some d else find_type m' t
  end.

Fixpoint find_rel (l : list reldef) (r : rid) : option reldef :=
  match l with
  | [] => None
  | d :: l' => if N.eqb (rd_rel d) r then Some d else find_rel l' r
  end.

Definition get_relation (m : model) (t : tid) (r : rid) : option reldef :=
  match find_type m t with Some d => find_rel (td_rels d) r | None => None end.

Definition rel_defined (m : model) (t : tid) (r : rid) : bool :=
  match get_relation m t r with Some _ => true | None => false end.

(* is relation r of type t used as the tupleset of some TTU in one of t's relations? *)
Fixpoint rw_uses_tupleset (ts : rid) (rw : rewrite) : bool :=
  match rw with
  | This | Computed _ => false
  | TTU a _ => N.eqb a ts
  | Union l | Inter l => (fix any (l : list rewrite) := match l with [] => false | x :: l' => rw_uses_tupleset ts x || any l' end) l
  | Diff b s => rw_uses_tupleset ts b || rw_uses_tupleset ts s
  end.

Definition is_tupleset (m : model) (t : tid) (r : rid) : bool :=
  match find_type m t with
  | Some d => existsb (fun rd => rw_uses_tupleset r (rd_rw rd)) (td_rels d)
  | None => false
  end.
