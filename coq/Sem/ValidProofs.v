(* Proofs about write-time tuple validation (C18): Sem/ValidWrite.v.
   A. name tables and list helpers
   B. the string side: ValidateUserObjectRelation accepts exactly the tuples that [parse] reads
      (with the grammar theorems of C29) and whose names are defined in the model
   C. the restriction clause as coded = the strict clause or one of the two laxities (F4)
   D. context typing: the coded three-step check = [ctx_fits] on maps
   E. valid_for_write = allowed_raw || lax_cond_raw || lax_nocond_raw   (exact), its corollaries
   F. the link with Sem/Valid.v (valid_for_read)
   G. the Write command: a rejected write changes nothing; contextual tuples *)
From OFGA Require Import Sem.ValidWrite Codec.TupleStrProofs.
From Coq Require Import ZifyBool ZifyN ZifyNat Lia Permutation.
Open Scope N_scope.

(* ------------------------------------------------------------------------------------------ *)
(* A. helpers                                                                                  *)

Lemma existsb_ext_in {A : Type} (f g : A -> bool) l :
  (forall x, In x l -> f x = g x) -> existsb f l = existsb g l.
Proof.
  induction l as [|x l IH]; intro H; cbn [existsb]; [reflexivity|].
  rewrite (H x (or_introl eq_refl)), IH; [reflexivity|]. intros y Hy. apply H. right. exact Hy.
Qed.

Lemma existsb_or {A : Type} (f g : A -> bool) l :
  existsb (fun x => f x || g x) l = existsb f l || existsb g l.
Proof.
  induction l as [|x l IH]; cbn [existsb]; [reflexivity|]. rewrite IH.
  destruct (f x), (g x), (existsb f l), (existsb g l); reflexivity.
Qed.

Lemma existsb_impl {A : Type} (f g : A -> bool) l :
  (forall x, f x = true -> g x = true) -> existsb f l = true -> existsb g l = true.
Proof.
  intros H Hf. apply existsb_exists in Hf as (x & Hin & Hx). apply existsb_exists.
  exists x. split; [exact Hin | apply H; exact Hx].
Qed.

Lemma forallb_ext_in {A : Type} (f g : A -> bool) l :
  (forall x, In x l -> f x = g x) -> forallb f l = forallb g l.
Proof.
  induction l as [|x l IH]; intro H; cbn [forallb]; [reflexivity|].
  rewrite (H x (or_introl eq_refl)), IH; [reflexivity|]. intros y Hy. apply H. right. exact Hy.
Qed.

Lemma kind_eqb_eq a b : kind_eqb a b = true <-> a = b.
Proof.
  destruct a as [| |r], b as [| |s]; cbn [kind_eqb]; split; intro H; try reflexivity; try discriminate.
  - apply N.eqb_eq in H. subst. reflexivity.
  - inversion H; subst. apply N.eqb_refl.
Qed.

Lemma kind_eqb_refl a : kind_eqb a a = true.
Proof. apply kind_eqb_eq. reflexivity. Qed.

Lemma nonempty_true s : nonempty s = true <-> s <> [].
Proof. destruct s; cbn [nonempty]; split; intro H; congruence. Qed.

Lemma nlookup_in tb s v : nlookup tb s = Some v -> In (s, v) tb.
Proof.
  induction tb as [|[k x] tb IH]; cbn [nlookup]; [discriminate|].
  destruct (beqb k s) eqn:E.
  - intro H. inversion H; subst. apply beqb_eq in E. subst. left. reflexivity.
  - intro H. right. apply IH. exact H.
Qed.

Lemma nodupb_notin x l : nodupb (x :: l) = true -> ~ In x l.
Proof.
  cbn [nodupb]. intros H Hin. apply andb_true_iff in H as [H _]. apply negb_true_iff in H.
  assert (existsb (N.eqb x) l = true) as E.
  { apply existsb_exists. exists x. split; [exact Hin | apply N.eqb_refl]. }
  congruence.
Qed.

Lemma nlookup_inj tb a b x :
  nodupb (map snd tb) = true -> nlookup tb a = Some x -> nlookup tb b = Some x -> a = b.
Proof.
  induction tb as [|[k v] tb IH]; cbn [nlookup map snd]; [discriminate|].
  intros Hnd Ha Hb.
  assert (Hnotin := nodupb_notin _ _ Hnd).
  cbn [nodupb] in Hnd. apply andb_true_iff in Hnd as [_ Hnd].
  destruct (beqb k a) eqn:Ea, (beqb k b) eqn:Eb.
  - apply beqb_eq in Ea, Eb. congruence.
  - inversion Ha; subst. exfalso. apply Hnotin.
    apply nlookup_in in Hb. apply (in_map snd) in Hb. exact Hb.
  - inversion Hb; subst. exfalso. apply Hnotin.
    apply nlookup_in in Ha. apply (in_map snd) in Ha. exact Ha.
  - apply IH; assumption.
Qed.

Lemma names_ok_lookup bad tb s v :
  names_ok bad tb = true -> nlookup tb s = Some v -> s <> [] /\ cleanb bad s = true.
Proof.
  intros Hok Hl. apply nlookup_in in Hl. unfold names_ok in Hok.
  rewrite forallb_forall in Hok. specialize (Hok _ Hl). cbn [fst] in Hok.
  apply andb_true_iff in Hok as [H1 H2]. apply nonempty_true in H1. auto.
Qed.

Lemma cleanb_clean bad s : cleanb bad s = clean bad s.
Proof. reflexivity. Qed.

Lemma cleanb_sub bad bad' s :
  (forall c, In c bad' -> In c bad) -> cleanb bad s = true -> cleanb bad' s = true.
Proof.
  intros Hsub H. unfold cleanb in *. rewrite forallb_forall in *. intros c Hc.
  specialize (H c Hc). apply andb_true_iff in H as [H1 H2]. rewrite H1. cbn [andb].
  apply negb_true_iff in H2. apply negb_true_iff.
  destruct (mem c bad') eqn:E; [|reflexivity].
  apply mem_In in E. apply Hsub in E. apply mem_In in E. congruence.
Qed.

Lemma cleanb_nomem bad s c : cleanb bad s = true -> In c bad -> c < 128 -> mem c s = false.
Proof. intros H Hin Hc. exact (clean_no_byte bad s c H Hin Hc). Qed.

(* ------------------------------------------------------------------------------------------ *)
(* B. the string side                                                                          *)

Definition obj_shape (s tn id : bytes) : Prop :=
  s = tn ++ c_colon :: id /\ tn <> [] /\ id <> [] /\
  cleanb id_chars tn = true /\ cleanb id_chars id = true.

Definition set_shape (s tn id rn : bytes) : Prop :=
  s = (tn ++ c_colon :: id) ++ c_hash :: rn /\ tn <> [] /\ id <> [] /\ rn <> [] /\
  cleanb id_chars tn = true /\ cleanb setid_chars id = true /\ cleanb setid_chars rn = true.

Lemma valid_object_shape s : is_valid_object s = true <-> exists tn id, obj_shape s tn id.
Proof. exact (is_valid_object_iff s). Qed.

Lemma valid_userset_shape s : is_valid_userset s = true <-> exists tn id rn, set_shape s tn id rn.
Proof.
  rewrite is_valid_userset_iff. unfold set_shape. split.
  - intros (t & id & r & -> & H). exists t, id, r. split; [|exact H].
    rewrite <- app_assoc. reflexivity.
  - intros (t & id & r & -> & H). exists t, id, r. split; [|exact H].
    rewrite <- app_assoc. reflexivity.
Qed.

Lemma in_id_chars_colon : In c_colon id_chars. Proof. right; left; reflexivity. Qed.
Lemma in_id_chars_hash : In c_hash id_chars. Proof. left; reflexivity. Qed.
Lemma in_setid_chars_hash : In c_hash setid_chars. Proof. left; reflexivity. Qed.
Lemma in_setid_chars_colon : In c_colon setid_chars. Proof. right; left; reflexivity. Qed.
Lemma setid_sub_id : forall c, In c id_chars -> In c setid_chars.
Proof. intros c [<-|[<-|[<-|[]]]]; cbn; auto. Qed.
Lemma rel_sub_setid : forall c, In c setid_chars -> In c rel_chars.
Proof. intros c [<-|[<-|[<-|[<-|[]]]]]; cbn; auto 6. Qed.
Lemma rel_sub_badrel : forall c, In c bad_rel -> In c rel_chars.
Proof. intros c [<-|[<-|[<-|[<-|[]]]]]; cbn; auto 6. Qed.

Lemma obj_shape_facts s tn id : obj_shape s tn id ->
  cut c_colon s = Some (tn, id) /\ split_object s = (tn, id) /\ mem c_hash s = false /\
  mem c_colon id = false.
Proof.
  intros (-> & Ht & Hid & Hct & Hcid).
  assert (mem c_colon tn = false) as Hm by (apply (cleanb_nomem id_chars); [exact Hct | exact in_id_chars_colon | reflexivity]).
  assert (cut c_colon (tn ++ c_colon :: id) = Some (tn, id)) as Hcut by (apply cut_app; exact Hm).
  repeat split.
  - exact Hcut.
  - unfold split_object. rewrite Hcut. reflexivity.
  - rewrite mem_app. cbn [mem].
    rewrite (cleanb_nomem id_chars tn c_hash Hct in_id_chars_hash eq_refl).
    rewrite (cleanb_nomem id_chars id c_hash Hcid in_id_chars_hash eq_refl). reflexivity.
  - apply (cleanb_nomem id_chars); [exact Hcid | exact in_id_chars_colon | reflexivity].
Qed.

Lemma cut_obj_shape s tn id :
  cut c_colon s = Some (tn, id) -> tn <> [] -> cleanb id_chars tn = true ->
  nonempty id && cleanb id_chars id = true -> obj_shape s tn id.
Proof.
  intros Hcut Ht Hct H. apply andb_true_iff in H as [H1 H2]. apply nonempty_true in H1.
  apply cut_some in Hcut as [-> _]. repeat split; assumption.
Qed.

Section Strings.
Variable e : env.
Variable m : model.
Hypothesis Hwf : env_wf e = true.

Lemma wf_types : names_ok id_chars (e_types e) = true.
Proof. unfold env_wf in Hwf. repeat (apply andb_true_iff in Hwf as [Hwf ?]). exact Hwf. Qed.
Lemma wf_rels : names_ok rel_chars (e_rels e) = true.
Proof. unfold env_wf in Hwf. repeat (apply andb_true_iff in Hwf as [Hwf ?]). assumption. Qed.
Lemma wf_types_inj : nodupb (map snd (e_types e)) = true.
Proof. unfold env_wf in Hwf. repeat (apply andb_true_iff in Hwf as [Hwf ?]). assumption. Qed.
Lemma wf_rels_inj : nodupb (map snd (e_rels e)) = true.
Proof. unfold env_wf in Hwf. repeat (apply andb_true_iff in Hwf as [Hwf ?]). assumption. Qed.
Lemma wf_conds : forallb (fun kv => negb (forbidden (fst kv))) (e_conds e) = true.
Proof. unfold env_wf in Hwf. repeat (apply andb_true_iff in Hwf as [Hwf ?]). assumption. Qed.

(* p_object reads exactly the valid object strings whose type name is known *)
Lemma p_object_iff s t id :
  p_object e s = Some (t, id) <-> exists tn, obj_shape s tn id /\ nlookup (e_types e) tn = Some t.
Proof.
  unfold p_object. split.
  - destruct (cut c_colon s) as [[tn id']|] eqn:Hcut; [|discriminate].
    destruct (nlookup (e_types e) tn) as [t'|] eqn:Hl; [|discriminate].
    destruct (nonempty id' && cleanb id_chars id') eqn:Hid; [|discriminate].
    intro H. inversion H; subst. exists tn. split; [|exact Hl].
    destruct (names_ok_lookup _ _ _ _ wf_types Hl) as [Hne Hcl].
    apply cut_obj_shape; assumption.
  - intros (tn & Hsh & Hl). destruct (obj_shape_facts _ _ _ Hsh) as (Hcut & _).
    rewrite Hcut, Hl. destruct Hsh as (_ & _ & Hid & _ & Hcid).
    apply nonempty_true in Hid. rewrite Hid, Hcid. reflexivity.
Qed.

Lemma p_object_valid s t id : p_object e s = Some (t, id) ->
  is_valid_object s = true /\ split_object s = (fst (split_object s), id) /\
  nlookup (e_types e) (fst (split_object s)) = Some t /\ mem c_hash s = false.
Proof.
  intro H. apply p_object_iff in H as (tn & Hsh & Hl).
  destruct (obj_shape_facts _ _ _ Hsh) as (_ & Hsp & Hh & _).
  split; [apply valid_object_shape; exists tn, id; exact Hsh|].
  rewrite Hsp. cbn [fst]. auto.
Qed.

(* ValidateObject *)
Lemma validate_object_iff o :
  validate_object e m o = None <->
  exists t id, p_object e o = Some (t, id) /\ id <> wildcard /\ find_type m t <> None.
Proof.
  unfold validate_object. split.
  - destruct (is_valid_object o) eqn:Hv; cbn [negb]; [|discriminate].
    apply valid_object_shape in Hv as (tn & id & Hsh).
    destruct (obj_shape_facts _ _ _ Hsh) as (_ & Hsp & _). rewrite Hsp. cbn [fst snd].
    destruct (beqb id wildcard) eqn:Hw; [discriminate|].
    unfold type_of_name. destruct (nlookup (e_types e) tn) as [t|] eqn:Hl; [|discriminate].
    destruct (find_type m t) eqn:Hf; [|discriminate]. intros _.
    exists t, id. repeat split.
    + apply p_object_iff. exists tn. auto.
    + intro E. apply beqb_eq in E. congruence.
    + congruence.
  - intros (t & id & Hp & Hid & Hf). destruct (p_object_valid _ _ _ Hp) as (Hv & Hsp & Hl & _).
    rewrite Hv. cbn [negb]. rewrite Hsp. cbn [fst snd].
    destruct (beqb id wildcard) eqn:Hw; [apply beqb_eq in Hw; contradiction|].
    unfold type_of_name. rewrite Hl. destruct (find_type m t); [reflexivity|contradiction].
Qed.

Lemma known_rel_valid rn r : nlookup (e_rels e) rn = Some r ->
  is_valid_relation rn = true /\ rn <> [] /\ cleanb setid_chars rn = true.
Proof.
  intro Hl. destruct (names_ok_lookup _ _ _ _ wf_rels Hl) as [Hne Hcl]. repeat split.
  - apply is_valid_relation_iff. split; [exact Hne|].
    rewrite <- cleanb_clean. exact (cleanb_sub _ _ _ rel_sub_badrel Hcl).
  - exact Hne.
  - exact (cleanb_sub _ _ _ rel_sub_setid Hcl).
Qed.

(* ValidateRelation, the object being valid with a defined type *)
Lemma validate_relation_iff o rn t id :
  p_object e o = Some (t, id) -> find_type m t <> None ->
  (validate_relation e m o rn = None <->
   exists r, nlookup (e_rels e) rn = Some r /\ rel_defined m t r = true).
Proof.
  intros Hp Hf. destruct (p_object_valid _ _ _ Hp) as (_ & Hsp & Hl & _).
  unfold validate_relation, lookup_relation, type_of_name, get_type. rewrite Hl.
  destruct (find_type m t) eqn:Hft; [|contradiction]. unfold rel_defined. split.
  - destruct (is_valid_relation rn); cbn [negb]; [|discriminate].
    destruct (nlookup (e_rels e) rn) as [r|]; [|discriminate].
    destruct (Vocab.get_relation m t r) eqn:Hg; [|discriminate]. intros _.
    exists r. rewrite Hg. auto.
  - intros (r & Hr & Hd). destruct (known_rel_valid _ _ Hr) as (Hv & _). rewrite Hv, Hr. cbn [negb].
    destruct (Vocab.get_relation m t r); [reflexivity|discriminate].
Qed.

(* ---- users ---- *)

Definition subj_of_wuser (u : wuser) : subject :=
  match u with
  | WObj t _ => SObj {| otype := t; oid := 0 |}
  | WWild t => SWild t
  | WSet t _ r => SSet {| otype := t; oid := 0 |} r
  end.

Lemma set_shape_facts s tn id rn : set_shape s tn id rn ->
  cut c_hash s = Some (tn ++ c_colon :: id, rn) /\
  split_object_relation s = (tn ++ c_colon :: id, rn) /\
  obj_shape (tn ++ c_colon :: id) tn id /\ mem c_hash s = true.
Proof.
  intros (-> & Ht & Hid & Hr & Hct & Hcid & Hcr).
  assert (cleanb id_chars id = true) as Hcid' by exact (cleanb_sub _ _ _ setid_sub_id Hcid).
  assert (obj_shape (tn ++ c_colon :: id) tn id) as Hsh by (repeat split; assumption).
  destruct (obj_shape_facts _ _ _ Hsh) as (_ & _ & Hnh & _).
  assert (mem c_hash rn = false) as Hrh
    by (apply (cleanb_nomem setid_chars); [exact Hcr | exact in_setid_chars_hash | reflexivity]).
  split; [|split; [|split]].
  - apply cut_app. exact Hnh.
  - unfold split_object_relation. rewrite (cut_last_app _ _ _ Hrh). reflexivity.
  - exact Hsh.
  - rewrite mem_app. cbn [mem]. rewrite N.eqb_refl. cbn [orb]. apply orb_true_r.
Qed.

Lemma nohash_not_userset s : mem c_hash s = false -> is_valid_userset s = false.
Proof.
  intro H. destruct (is_valid_userset s) eqn:E; [|reflexivity].
  apply valid_userset_shape in E as (tn & id & rn & Hsh).
  destruct (set_shape_facts _ _ _ _ Hsh) as (_ & _ & _ & Hh). congruence.
Qed.

Lemma nohash_split s : mem c_hash s = false -> split_object_relation s = (s, []).
Proof.
  intro H. unfold split_object_relation. apply cut_last_none in H. rewrite H. reflexivity.
Qed.

Lemma hash_not_object s : mem c_hash s = true -> is_valid_object s = false.
Proof.
  intro H. destruct (is_valid_object s) eqn:E; [|reflexivity].
  apply valid_object_no_hash in E. congruence.
Qed.

(* p_user reads exactly the users ValidateUser lets through (names known) *)
Lemma p_user_obj s t id :
  p_object e s = Some (t, id) ->
  p_user e s = Some (if beqb id wildcard then WWild t else WObj t id).
Proof.
  intro Hp. destruct (p_object_valid _ _ _ Hp) as (_ & _ & _ & Hh).
  unfold p_user. apply cut_none in Hh. rewrite Hh, Hp. destruct (beqb id wildcard); reflexivity.
Qed.

Lemma p_user_set s tn id rn t r :
  set_shape s tn id rn -> nlookup (e_types e) tn = Some t -> nlookup (e_rels e) rn = Some r ->
  p_user e s = Some (WSet t id r).
Proof.
  intros Hsh Ht Hr. destruct (set_shape_facts _ _ _ _ Hsh) as (Hcut & _ & Hosh & _).
  unfold p_user. rewrite Hcut.
  assert (p_object e (tn ++ c_colon :: id) = Some (t, id)) as Hp
    by (apply p_object_iff; exists tn; auto).
  rewrite Hp, Hr. destruct Hsh as (_ & _ & _ & _ & _ & Hcid & _). rewrite Hcid. reflexivity.
Qed.

Lemma p_user_inv s u : p_user e s = Some u ->
  (exists t id, p_object e s = Some (t, id) /\ u = (if beqb id wildcard then WWild t else WObj t id)) \/
  (exists tn id rn t r, set_shape s tn id rn /\ nlookup (e_types e) tn = Some t /\
                        nlookup (e_rels e) rn = Some r /\ u = WSet t id r).
Proof.
  unfold p_user. destruct (cut c_hash s) as [[o rn]|] eqn:Hcut.
  - destruct (p_object e o) as [[t id]|] eqn:Hp; [|discriminate].
    destruct (nlookup (e_rels e) rn) as [r|] eqn:Hr; [|discriminate].
    destruct (cleanb setid_chars id) eqn:Hcid; [|discriminate].
    intro H. inversion H; subst. right.
    apply p_object_iff in Hp as (tn & Hsh & Ht).
    destruct (known_rel_valid _ _ Hr) as (_ & Hne & Hcr).
    exists tn, id, rn, t, r. repeat split; try assumption.
    + apply cut_some in Hcut as [-> _]. destruct Hsh as (-> & _). reflexivity.
    + destruct Hsh as (_ & H1 & _). exact H1.
    + destruct Hsh as (_ & _ & H1 & _). exact H1.
    + destruct Hsh as (_ & _ & _ & H1 & _). exact H1.
  - destruct (p_object e s) as [[t id]|] eqn:Hp; [|discriminate].
    intro H. left. exists t, id. split; [reflexivity|].
    destruct (beqb id wildcard); inversion H; reflexivity.
Qed.

(* the subject the code derives from a user string that [p_user] reads *)
Lemma subject_of_p_user s u : p_user e s = Some u -> subject_of_user e s = subj_of_wuser u.
Proof.
  intro H. apply p_user_inv in H as [(t & id & Hp & ->)|(tn & id & rn & t & r & Hsh & Ht & Hr & ->)].
  - destruct (p_object_valid _ _ _ Hp) as (_ & Hsp & Hl & Hh).
    unfold subject_of_user. rewrite (nohash_not_userset _ Hh), (nohash_split _ Hh). cbn [fst snd].
    unfold get_type, nget. rewrite Hl. unfold is_typed_wildcard. rewrite Hsp.
    apply p_object_iff in Hp as (tn & Hsh & _).
    destruct (obj_shape_facts _ _ _ Hsh) as (_ & Hsp' & _). rewrite Hsp'. cbn [fst].
    destruct Hsh as (_ & Htn & _). destruct tn as [|c tn]; [contradiction|].
    cbn [beqb negb andb]. destruct (beqb id wildcard); reflexivity.
  - destruct (set_shape_facts _ _ _ _ Hsh) as (_ & Hsor & Hosh & _).
    destruct (obj_shape_facts _ _ _ Hosh) as (_ & Hsp & _).
    unfold subject_of_user.
    assert (is_valid_userset s = true) as Hv by (apply valid_userset_shape; exists tn, id, rn; exact Hsh).
    rewrite Hv, Hsor. cbn [fst snd]. unfold get_type, nget. rewrite Hsp. cbn [fst]. rewrite Ht, Hr.
    reflexivity.
Qed.

(* ValidateUser *)
Lemma validate_user_iff u :
  validate_user e m u = None <->
  exists wu, p_user e u = Some wu /\ find_type m (wuser_type wu) <> None /\
             (forall t id r, wu = WSet t id r -> rel_defined m t r = true).
Proof.
  unfold validate_user. split.
  - destruct (is_valid_user u) eqn:Hvu; cbn [negb]; [|discriminate].
    destruct (is_valid_object u) eqn:Hvo.
    + (* object or typed wildcard *)
      cbn [negb andb].
      assert (Hh := valid_object_no_hash _ Hvo).
      rewrite (nohash_not_userset _ Hh), (nohash_split _ Hh). cbn [fst snd].
      apply valid_object_shape in Hvo as (tn & id & Hsh).
      destruct (obj_shape_facts _ _ _ Hsh) as (_ & Hsp & _). unfold get_type. rewrite Hsp. cbn [fst].
      unfold type_of_name. destruct (nlookup (e_types e) tn) as [t|] eqn:Hl; [|discriminate].
      destruct (find_type m t) eqn:Hf; [|discriminate]. intros _.
      assert (p_object e u = Some (t, id)) as Hp by (apply p_object_iff; exists tn; auto).
      exists (if beqb id wildcard then WWild t else WObj t id). split; [apply p_user_obj; exact Hp|].
      split.
      * destruct (beqb id wildcard); cbn [wuser_type]; congruence.
      * intros t' id' r' E. destruct (beqb id wildcard); discriminate.
    + destruct (is_valid_userset u) eqn:Hvs; cbn [negb andb]; [|discriminate].
      apply valid_userset_shape in Hvs as (tn & id & rn & Hsh).
      destruct (set_shape_facts _ _ _ _ Hsh) as (_ & Hsor & Hosh & _).
      destruct (obj_shape_facts _ _ _ Hosh) as (_ & Hsp & _).
      rewrite Hsor. cbn [fst snd]. unfold get_type. rewrite Hsp. cbn [fst].
      unfold lookup_relation.
      destruct (type_of_name e m tn) as [t|] eqn:Ht; [|discriminate].
      destruct (nlookup (e_rels e) rn) as [r|] eqn:Hr; [|discriminate].
      destruct (Vocab.get_relation m t r) eqn:Hg; [|discriminate]. intros _.
      unfold type_of_name in Ht. destruct (nlookup (e_types e) tn) as [t'|] eqn:Hl; [|discriminate].
      destruct (find_type m t') eqn:Hf; [|discriminate]. inversion Ht; subst t'.
      exists (WSet t id r). split; [exact (p_user_set _ _ _ _ _ _ Hsh Hl Hr)|]. split.
      * cbn [wuser_type]. congruence.
      * intros t' id' r' E. inversion E; subst. unfold rel_defined. rewrite Hg. reflexivity.
  - intros (wu & Hp & Hf & Hrel).
    apply p_user_inv in Hp as [(t & id & Hp & ->)|(tn & id & rn & t & r & Hsh & Ht & Hr & ->)].
    + destruct (p_object_valid _ _ _ Hp) as (Hvo & Hsp & Hl & Hh).
      unfold is_valid_user. rewrite Hvo. rewrite !orb_true_r. cbn [negb andb].
      rewrite (nohash_split _ Hh). cbn [fst snd]. unfold get_type, type_of_name. rewrite Hl.
      rewrite (nohash_not_userset _ Hh).
      assert (find_type m t <> None) as Hf' by (destruct (beqb id wildcard); exact Hf).
      destruct (find_type m t); [reflexivity|contradiction].
    + assert (is_valid_userset u = true) as Hvs by (apply valid_userset_shape; exists tn, id, rn; exact Hsh).
      destruct (set_shape_facts _ _ _ _ Hsh) as (_ & Hsor & Hosh & Hh).
      destruct (obj_shape_facts _ _ _ Hosh) as (_ & Hsp & _).
      unfold is_valid_user. rewrite Hvs, (hash_not_object _ Hh). rewrite !orb_true_r. cbn [negb andb].
      rewrite Hsor. cbn [fst snd]. unfold get_type. rewrite Hsp. cbn [fst].
      unfold lookup_relation, type_of_name. rewrite Ht. cbn [wuser_type] in Hf.
      destruct (find_type m t); [|contradiction]. rewrite Hr.
      specialize (Hrel t id r eq_refl). unfold rel_defined in Hrel.
      destruct (Vocab.get_relation m t r); [reflexivity|discriminate].
Qed.

(* validateNotImplicit = "the user is the tuple's own object#relation" *)
Lemma implicit_self w t :
  parse e w = Some t -> implicit w = self_pointing t.
Proof.
  unfold parse. destruct (p_object e (rt_obj w)) as [[ot oid]|] eqn:Hpo; [|discriminate].
  destruct (nlookup (e_rels e) (rt_rel w)) as [r|] eqn:Hr; [|discriminate].
  destruct (p_user e (rt_user w)) as [u|] eqn:Hpu; [|discriminate].
  destruct (p_cond e (rt_cond w)) as [c|]; [|discriminate].
  destruct (beqb oid wildcard); [discriminate|]. intro H. inversion H; subst t. clear H.
  unfold implicit, self_pointing. cbn [w_user w_ot w_oid w_rel].
  destruct (known_rel_valid _ _ Hr) as (_ & Hrne & _).
  apply p_user_inv in Hpu as [(t & id & Hp & ->)|(tn & id & rn & t & r' & Hsh & Ht & Hr' & ->)].
  - destruct (p_object_valid _ _ _ Hp) as (_ & _ & _ & Hh). rewrite (nohash_split _ Hh). cbn [fst snd].
    assert (beqb (rt_rel w) [] = false) as E.
    { destruct (beqb (rt_rel w) []) eqn:E; [apply beqb_eq in E; contradiction|reflexivity]. }
    rewrite E. cbn [andb]. destruct (beqb id wildcard); reflexivity.
  - destruct (set_shape_facts _ _ _ _ Hsh) as (_ & Hsor & Hosh & _). rewrite Hsor. cbn [fst snd].
    apply p_object_iff in Hpo as (otn & Hosh' & Hot).
    destruct (obj_shape_facts _ _ _ Hosh) as (Hcut1 & _).
    destruct (obj_shape_facts _ _ _ Hosh') as (Hcut2 & _).
    destruct (beqb (rt_rel w) rn) eqn:E1.
    + apply beqb_eq in E1. subst rn. rewrite Hr in Hr'. inversion Hr'; subst r'. rewrite N.eqb_refl.
      destruct (beqb (rt_obj w) (tn ++ c_colon :: id)) eqn:E2.
      * apply beqb_eq in E2. rewrite E2 in Hcut2. rewrite Hcut1 in Hcut2. inversion Hcut2; subst.
        rewrite Hot in Ht. inversion Ht; subst. rewrite N.eqb_refl, beqb_refl. reflexivity.
      * destruct (N.eqb t ot) eqn:E3; [|reflexivity]. destruct (beqb id oid) eqn:E4; [|reflexivity].
        apply N.eqb_eq in E3. apply beqb_eq in E4. subst.
        assert (tn = otn) by (apply (nlookup_inj _ _ _ _ wf_types_inj Ht Hot)). subst.
        destruct Hosh' as (E & _). rewrite E, beqb_refl in E2. discriminate.
    + cbn [andb]. destruct (N.eqb r' r) eqn:E3; [|rewrite andb_false_r; reflexivity].
      apply N.eqb_eq in E3. subst.
      assert (rn = rt_rel w) by (apply (nlookup_inj _ _ _ _ wf_rels_inj Hr' Hr)). subst.
      rewrite beqb_refl in E1. discriminate.
Qed.

End Strings.

(* ------------------------------------------------------------------------------------------ *)
(* C. the restriction clause                                                                   *)

Definition strict_clause (rs : list restriction) (u : wuser) (c : cid) : bool :=
  existsb (restr_allows u c) rs.

(* validateTypeRestrictions + the restriction part of validateCondition, on a parsed user *)
Definition coded_clause (rs : list restriction) (u : wuser) (c : cid) : bool :=
  type_restr_ok rs (subj_of_wuser u) &&
  (if N.eqb c 0 then nocond_ok rs (subj_of_wuser u)
   else existsb (fun d => N.eqb (r_type d) (wuser_type u) && N.eqb (r_cond d) c) rs).

Definition form_match (u : wuser) (d : restriction) : bool :=
  N.eqb (r_type d) (wuser_type u) && kind_eqb (r_kind d) (wuser_kind u).

Lemma type_restr_ok_form rs u : type_restr_ok rs (subj_of_wuser u) = existsb (form_match u) rs.
Proof. unfold type_restr_ok, form_match. destruct u; reflexivity. Qed.

Lemma nocond_ok_char rs u :
  nocond_ok rs (subj_of_wuser u) =
  strict_clause rs u 0 ||
  match u with
  | WSet _ _ _ => existsb (fun d => N.eqb (r_type d) (wuser_type u) && kind_eqb (r_kind d) RObj && N.eqb (r_cond d) 0) rs
  | _ => false
  end.
Proof.
  unfold nocond_ok, strict_clause, restr_allows. destruct u as [t id|t|t id r]; cbn [subj_of_wuser wuser_type wuser_kind subject_type otype].
  - rewrite orb_false_r. apply existsb_ext_in. intros d _.
    destruct (r_kind d), (N.eqb (r_cond d) 0), (N.eqb (r_type d) t); reflexivity.
  - rewrite orb_false_r. apply existsb_ext_in. intros d _.
    destruct (r_kind d), (N.eqb (r_cond d) 0), (N.eqb (r_type d) t); reflexivity.
  - rewrite <- existsb_or. apply existsb_ext_in. intros d _.
    destruct (r_kind d) as [| |r0]; cbn [kind_eqb];
      destruct (N.eqb (r_cond d) 0), (N.eqb (r_type d) t); try destruct (N.eqb r0 r); reflexivity.
Qed.

Lemma strict_form rs u c : strict_clause rs u c = true -> existsb (form_match u) rs = true.
Proof.
  apply existsb_impl. intros d H. unfold restr_allows in H. unfold form_match.
  apply andb_true_iff in H as [H _]. exact H.
Qed.

Lemma strict_cond rs u c : strict_clause rs u c = true ->
  existsb (fun d => N.eqb (r_type d) (wuser_type u) && N.eqb (r_cond d) c) rs = true.
Proof.
  apply existsb_impl. intros d H. unfold restr_allows in H.
  apply andb_true_iff in H as [H H2]. apply andb_true_iff in H as [H1 _]. rewrite H1, H2. reflexivity.
Qed.

(* the clause as coded = the strict clause, or one of the two laxities *)
Theorem coded_clause_char rs u c :
  coded_clause rs u c =
  strict_clause rs u c || cond_any_restriction_of_type rs u c || nocond_via_plain_restriction rs u c.
Proof.
  unfold coded_clause, cond_any_restriction_of_type, nocond_via_plain_restriction.
  rewrite type_restr_ok_form. fold (form_match u). fold (strict_clause rs u c). fold (strict_clause rs u 0).
  destruct (N.eqb c 0) eqn:Ec; cbn [negb andb].
  - apply N.eqb_eq in Ec. subst c. rewrite orb_false_r, nocond_ok_char.
    destruct (strict_clause rs u 0) eqn:Es.
    + rewrite (strict_form _ _ _ Es). reflexivity.
    + cbn [orb negb]. destruct u; cbn [andb]; rewrite ?andb_false_r; try reflexivity.
      rewrite andb_true_r. reflexivity.
  - rewrite orb_false_r. destruct (strict_clause rs u c) eqn:Es.
    + rewrite (strict_form _ _ _ Es), (strict_cond _ _ _ Es). reflexivity.
    + cbn [orb negb]. rewrite andb_true_r. reflexivity.
Qed.

Theorem strict_implies_coded rs u c : strict_clause rs u c = true -> coded_clause rs u c = true.
Proof. intro H. rewrite coded_clause_char, H. reflexivity. Qed.

(* under no_mix_rs the laxities cannot show *)
Lemma no_mix_no_cond_any rs u c : no_mix_rs rs = true -> cond_any_restriction_of_type rs u c = false.
Proof.
  intro Hmix. unfold cond_any_restriction_of_type.
  destruct (N.eqb c 0); cbn [negb andb]; [reflexivity|].
  destruct (existsb (fun d => N.eqb (r_type d) (wuser_type u) && kind_eqb (r_kind d) (wuser_kind u)) rs) eqn:E1; cbn [andb]; [|reflexivity].
  destruct (existsb (restr_allows u c) rs) eqn:E2; cbn [negb andb]; [reflexivity|].
  destruct (existsb (fun d => N.eqb (r_type d) (wuser_type u) && N.eqb (r_cond d) c) rs) eqn:E3; [|reflexivity].
  exfalso.
  apply existsb_exists in E1 as (d1 & Hin1 & H1). apply andb_true_iff in H1 as [H1t H1k].
  apply existsb_exists in E3 as (d2 & Hin2 & H2). apply andb_true_iff in H2 as [H2t H2c].
  apply N.eqb_eq in H1t, H2t, H2c. apply kind_eqb_eq in H1k.
  assert (existsb (restr_allows u c) rs = true) as Hcontra; [|congruence].
  destruct (kind_eqb (r_kind d2) (wuser_kind u)) eqn:Ek.
  - apply existsb_exists. exists d2. split; [exact Hin2|]. unfold restr_allows.
    rewrite H2t, H2c, Ek, !N.eqb_refl. reflexivity.
  - unfold no_mix_rs in Hmix. rewrite forallb_forall in Hmix. specialize (Hmix d2 Hin2).
    rewrite forallb_forall in Hmix. specialize (Hmix d1 Hin1).
    rewrite H2t, H1t, N.eqb_refl, H1k, Ek in Hmix. cbn [negb andb] in Hmix.
    apply existsb_exists in Hmix as (d3 & Hin3 & H3).
    apply andb_true_iff in H3 as [H3 H3c]. apply andb_true_iff in H3 as [H3t H3k].
    apply existsb_exists. exists d3. split; [exact Hin3|]. unfold restr_allows.
    apply N.eqb_eq in H3t, H3c. rewrite H3t, H3k, H3c, H2c, !N.eqb_refl. reflexivity.
Qed.

Lemma no_mix_no_nocond_via rs u c : no_mix_rs rs = true -> nocond_via_plain_restriction rs u c = false.
Proof.
  intro Hmix. unfold nocond_via_plain_restriction.
  destruct (N.eqb c 0); cbn [andb]; [|reflexivity].
  destruct u as [t id|t|t id r]; try reflexivity.
  set (u := WSet t id r).
  destruct (existsb (fun d => N.eqb (r_type d) (wuser_type u) && kind_eqb (r_kind d) (wuser_kind u)) rs) eqn:E1; cbn [andb]; [|reflexivity].
  destruct (existsb (restr_allows u 0) rs) eqn:E2; cbn [negb andb]; [reflexivity|].
  destruct (existsb (fun d => N.eqb (r_type d) (wuser_type u) && kind_eqb (r_kind d) RObj && N.eqb (r_cond d) 0) rs) eqn:E3; [|reflexivity].
  exfalso.
  apply existsb_exists in E1 as (d1 & Hin1 & H1). apply andb_true_iff in H1 as [H1t H1k].
  apply existsb_exists in E3 as (d2 & Hin2 & H2). apply andb_true_iff in H2 as [H2 H2c].
  apply andb_true_iff in H2 as [H2t H2k].
  apply N.eqb_eq in H1t, H2t, H2c. apply kind_eqb_eq in H1k, H2k.
  assert (existsb (restr_allows u 0) rs = true) as Hcontra; [|congruence].
  unfold no_mix_rs in Hmix. rewrite forallb_forall in Hmix. specialize (Hmix d2 Hin2).
  rewrite forallb_forall in Hmix. specialize (Hmix d1 Hin1).
  rewrite H2t, H1t, N.eqb_refl, H1k, H2k in Hmix. cbn [wuser_kind u kind_eqb negb andb] in Hmix.
  apply existsb_exists in Hmix as (d3 & Hin3 & H3).
  apply andb_true_iff in H3 as [H3 H3c]. apply andb_true_iff in H3 as [H3t H3k].
  apply existsb_exists. exists d3. split; [exact Hin3|]. unfold restr_allows.
  apply N.eqb_eq in H3t, H3c. rewrite H3t, H3c, H2c. cbn [wuser_kind u]. rewrite H3k, !N.eqb_refl. reflexivity.
Qed.

(* ------------------------------------------------------------------------------------------ *)
(* D. context typing on maps                                                                   *)

Lemma plookup_some_in {A : Type} k (l : list (bytes * A)) v : plookup k l = Some v -> In (k, v) l.
Proof.
  induction l as [|[k' v'] l IH]; cbn [plookup]; [discriminate|].
  destruct (beqb k' k) eqn:E.
  - intro H. inversion H; subst. apply beqb_eq in E. subst. left. reflexivity.
  - intro H. right. apply IH. exact H.
Qed.

Lemma plookup_in_nodup {A : Type} k (l : list (bytes * A)) v :
  keys_nodup l = true -> In (k, v) l -> plookup k l = Some v.
Proof.
  induction l as [|[k' v'] l IH]; cbn [keys_nodup plookup]; [intros _ []|].
  intros Hnd [Hin|Hin].
  - inversion Hin; subst. rewrite beqb_refl. reflexivity.
  - apply andb_true_iff in Hnd as [Hn Hnd]. destruct (beqb k' k) eqn:E.
    + exfalso. apply beqb_eq in E. subst k'. apply negb_true_iff in Hn.
      assert (existsb (fun kv : bytes * A => beqb (fst kv) k) l = true) as X.
      { apply existsb_exists. exists (k, v). split; [exact Hin|]. cbn [fst]. apply beqb_refl. }
      congruence.
    + apply IH; assumption.
Qed.

Theorem ctx_ok_fits ps ctx :
  keys_nodup ps = true -> keys_nodup ctx = true -> ctx_ok ps ctx = ctx_fits ps ctx.
Proof.
  intros Hps Hctx. apply eq_true_iff_eq. unfold ctx_ok, ctx_fits. split.
  - intro H. apply andb_true_iff in H as [H HK]. apply andb_true_iff in H as [HA HC].
    rewrite forallb_forall in *. intros [k v] Hin. cbn [fst snd].
    specialize (HA _ Hin). cbn [fst snd] in HA. rewrite HA. cbn [andb].
    specialize (HK _ Hin). cbn [fst] in HK.
    destruct (plookup k ps) as [t|] eqn:Hl; [|discriminate].
    apply plookup_some_in in Hl.
    unfold cast_ok in HC. destruct ctx as [|kv0 ctx']; [destruct Hin|].
    destruct ps as [|p0 ps']; [destruct Hl|].
    rewrite forallb_forall in HC. specialize (HC _ Hl). cbn [fst snd] in HC.
    rewrite (plookup_in_nodup _ _ _ Hctx Hin) in HC. exact HC.
  - intro H. rewrite forallb_forall in H. rewrite !andb_true_iff. repeat split.
    + rewrite forallb_forall. intros kv Hin. specialize (H _ Hin). destruct kv as [k v].
      apply andb_true_iff in H as [H _]. exact H.
    + unfold cast_ok. destruct ctx as [|[k0 v0] ctx'] eqn:Ectx; [reflexivity|].
      destruct ps as [|p0 ps'] eqn:Eps.
      * specialize (H (k0, v0) (or_introl eq_refl)). cbn [fst snd plookup] in H.
        rewrite andb_false_r in H. discriminate.
      * rewrite forallb_forall. intros [k' t'] Hp. cbn [fst snd].
        destruct (plookup k' ((k0, v0) :: ctx')) as [v'|] eqn:Hl; [|reflexivity].
        apply plookup_some_in in Hl. specialize (H _ Hl). cbn [fst snd] in H.
        rewrite (plookup_in_nodup _ _ _ Hps Hp) in H.
        apply andb_true_iff in H as [_ H]. exact H.
    + rewrite forallb_forall. intros [k v] Hin. specialize (H _ Hin). cbn [fst snd] in *.
      destruct (plookup k ps); [reflexivity|]. rewrite andb_false_r in H. discriminate.
Qed.

(* ------------------------------------------------------------------------------------------ *)
(* F. the read-time part is Sem/Valid.v                                                        *)

Lemma cd_lookup_in c cds ps : cd_lookup c cds = Some ps -> In (c, ps) cds.
Proof.
  induction cds as [|[c' ps'] cds IH]; cbn [cd_lookup]; [discriminate|].
  destruct (N.eqb c' c) eqn:E.
  - intro H. inversion H; subst. apply N.eqb_eq in E. subst. left. reflexivity.
  - intro H. right. apply IH. exact H.
Qed.

Lemma cd_lookup_ids c cds ps : cd_lookup c cds = Some ps -> existsb (N.eqb c) (cond_ids cds) = true.
Proof.
  intro H. apply cd_lookup_in in H. apply existsb_exists. exists c. split; [|apply N.eqb_refl].
  unfold cond_ids. change c with (fst (c, ps)). apply in_map. exact H.
Qed.

(* ValidateTupleForRead as staged in ValidWrite.v accepts exactly what valid_for_read accepts,
   plus the context checks that Valid.v leaves out *)
Theorem validate_read_valid_for_read e m cds w :
  accepted (validate_read e m cds w) =
  match rt_cond w with
  | None => valid_for_read m (cond_ids cds) (vtuple_of e w 0)
  | Some wc =>
      match nlookup (e_conds e) (wc_name wc) with
      | None => false
      | Some c =>
          match cd_lookup c cds with
          | None => false
          | Some ps => negb (forbidden (wc_name wc)) && negb (N.eqb c 0) &&
                       valid_for_read m (cond_ids cds) (vtuple_of e w c) && ctx_ok ps (wc_ctx wc)
          end
      end
  end.
Proof.
  unfold validate_read, valid_for_read, tupleset_stage.
  cbn [vtuple_of t_obj t_rel t_sub t_cond otype].
  generalize (subject_of_user e (rt_user w)). intro s.
  generalize (nget (e_types e) (get_type (rt_obj w))). intro ot.
  generalize (nget (e_rels e) (rt_rel w)). intro r.
  destruct (Vocab.get_relation m ot r) as [rd|].
  - set (TS := if is_tupleset m ot r then is_this (rd_rw rd) && match s with SObj _ => true | _ => false end else true).
    destruct TS; cbn [negb andb].
    + destruct (type_restr_ok (rd_restr rd) s); cbn [negb andb].
      * destruct (rt_cond w) as [wc|].
        -- destruct (forbidden (wc_name wc)); cbn [negb andb].
           ++ destruct (nlookup (e_conds e) (wc_name wc)) as [c|]; [|reflexivity].
              destruct (cd_lookup c cds); reflexivity.
           ++ destruct (nlookup (e_conds e) (wc_name wc)) as [c|]; [|reflexivity].
              destruct (cd_lookup c cds) as [ps|]; [|reflexivity].
              destruct (N.eqb c 0); cbn [negb andb]; [reflexivity|].
              destruct (cond_ok (cond_ids cds) (rd_restr rd) s c); cbn [negb andb]; [|reflexivity].
              destruct (ctx_ok ps (wc_ctx wc)); reflexivity.
        -- cbn. destruct (nocond_ok (rd_restr rd) s); reflexivity.
      * destruct (rt_cond w) as [wc|]; [|reflexivity].
        destruct (nlookup (e_conds e) (wc_name wc)) as [c|]; [|reflexivity].
        destruct (cd_lookup c cds); [|reflexivity]. rewrite !andb_false_r. reflexivity.
    + destruct (rt_cond w) as [wc|]; [|reflexivity].
      destruct (nlookup (e_conds e) (wc_name wc)) as [c|]; [|reflexivity].
      destruct (cd_lookup c cds); [|reflexivity]. rewrite !andb_false_r. reflexivity.
  - destruct (rt_cond w) as [wc|]; [|reflexivity].
    destruct (nlookup (e_conds e) (wc_name wc)) as [c|]; [|reflexivity].
    destruct (cd_lookup c cds); [|reflexivity]. rewrite !andb_false_r. reflexivity.
Qed.

(* ------------------------------------------------------------------------------------------ *)
(* E. what the validators accept, exactly                                                      *)

Definition t_size (t : wtuple) : N := match w_cond t with Some (_, _, s) => s | None => 0 end.

Lemma find_type_in m t d : find_type m t = Some d -> In d m /\ td_type d = t.
Proof.
  induction m as [|d' m IH]; cbn [find_type]; [discriminate|].
  destruct (N.eqb (td_type d') t) eqn:E.
  - intro H. inversion H; subst. apply N.eqb_eq in E. split; [left; reflexivity|exact E].
  - intro H. destruct (IH H) as [H1 H2]. split; [right; exact H1|exact H2].
Qed.

Lemma find_rel_in l r rd : find_rel l r = Some rd -> In rd l /\ rd_rel rd = r.
Proof.
  induction l as [|d' l IH]; cbn [find_rel]; [discriminate|].
  destruct (N.eqb (rd_rel d') r) eqn:E.
  - intro H. inversion H; subst. apply N.eqb_eq in E. split; [left; reflexivity|exact E].
  - intro H. destruct (IH H) as [H1 H2]. split; [right; exact H1|exact H2].
Qed.

Lemma get_relation_in m t r rd :
  Vocab.get_relation m t r = Some rd -> In (t, rd) (all_reldefs m) /\ rd_rel rd = r.
Proof.
  unfold Vocab.get_relation. destruct (find_type m t) as [d|] eqn:Hf; [|discriminate].
  intro H. apply find_type_in in Hf as [Hd Ht]. apply find_rel_in in H as [Hrd Hr].
  split; [|exact Hr]. unfold all_reldefs. apply in_flat_map. exists d. split; [exact Hd|].
  rewrite <- Ht. apply (in_map (fun rd0 => (td_type d, rd0))). exact Hrd.
Qed.

Section Main.
Variable e : env.
Variable m : model.
Variable cds : cdefs.
Hypothesis Hwf : env_wf e = true.
Hypothesis Hrwf : restr_wf m = true.
Hypothesis Hts : tupleset_direct m = true.
Hypothesis Hcds : cds_wf cds = true.

Definition core (clause : list restriction -> wuser -> cid -> bool) (limit : N) (t : wtuple) : bool :=
  match Vocab.get_relation m (w_ot t) (w_rel t) with
  | None => false
  | Some rd =>
      clause (rd_restr rd) (w_user t) (w_cid t) &&
      (if is_tupleset m (w_ot t) (w_rel t) then concrete (w_user t) else true) &&
      cond_clause cds limit t
  end.

Lemma allowed_with_core clause limit t :
  allowed_with m cds clause limit t = core clause limit t && negb (self_pointing t).
Proof. unfold allowed_with, core. destruct (Vocab.get_relation m (w_ot t) (w_rel t)); reflexivity. Qed.

Lemma core_limit clause limit t :
  core clause limit t = core clause (t_size t) t && (t_size t <=? limit).
Proof.
  unfold core, cond_clause, t_size. destruct (Vocab.get_relation m (w_ot t) (w_rel t)) as [rd|]; [|reflexivity].
  destruct (w_cond t) as [[[c ctx] s]|].
  - rewrite N.leb_refl. rewrite andb_true_r, !andb_assoc. reflexivity.
  - assert (0 <=? limit = true) as E by (apply N.leb_le; lia). rewrite E.
    change (0 <=? 0) with true. rewrite !andb_true_r. reflexivity.
Qed.

Lemma ts_direct ot r rd :
  Vocab.get_relation m ot r = Some rd -> is_tupleset m ot r = true -> is_this (rd_rw rd) = true.
Proof.
  intros Hg Hi. apply get_relation_in in Hg as [Hin Hr]. unfold tupleset_direct in Hts.
  rewrite forallb_forall in Hts. specialize (Hts _ Hin). cbn [fst snd] in Hts.
  rewrite Hr, Hi in Hts. exact Hts.
Qed.

Lemma vtuple_of_facts w ot oid r u c :
  p_object e (rt_obj w) = Some (ot, oid) -> nlookup (e_rels e) (rt_rel w) = Some r ->
  p_user e (rt_user w) = Some u ->
  vtuple_of e w c = {| t_obj := {| otype := ot; oid := 0 |}; t_rel := r;
                       t_sub := subj_of_wuser u; t_cond := c; t_ceval := T |}.
Proof.
  intros Hpo Hr Hpu. unfold vtuple_of.
  destruct (p_object_valid e Hwf _ _ _ Hpo) as (_ & _ & Hl & _).
  unfold nget at 1 2. unfold get_type. rewrite Hl, Hr. rewrite (subject_of_p_user e Hwf _ _ Hpu).
  reflexivity.
Qed.

Lemma valid_for_read_struct conds ot r u c :
  valid_for_read m conds {| t_obj := {| otype := ot; oid := 0 |}; t_rel := r;
                            t_sub := subj_of_wuser u; t_cond := c; t_ceval := T |} =
  match Vocab.get_relation m ot r with
  | None => false
  | Some rd =>
      (if is_tupleset m ot r then is_this (rd_rw rd) && concrete u else true) &&
      existsb (form_match u) (rd_restr rd) &&
      (if N.eqb c 0 then nocond_ok (rd_restr rd) (subj_of_wuser u)
       else existsb (N.eqb c) conds &&
            existsb (fun d => N.eqb (r_type d) (wuser_type u) && N.eqb (r_cond d) c) (rd_restr rd))
  end.
Proof.
  unfold valid_for_read, cond_ok. cbn [t_obj t_rel t_sub t_cond otype].
  destruct (Vocab.get_relation m ot r) as [rd|]; [|reflexivity].
  rewrite type_restr_ok_form. destruct u; reflexivity.
Qed.

Lemma known_cond_clean n c : nlookup (e_conds e) n = Some c -> forbidden n = false.
Proof.
  intro H. apply nlookup_in in H. assert (X := wf_conds e Hwf). rewrite forallb_forall in X.
  specialize (X _ H). cbn [fst] in X. apply negb_true_iff in X. exact X.
Qed.

Lemma cds_params_nodup c ps : cd_lookup c cds = Some ps -> keys_nodup ps = true.
Proof.
  intro H. apply cd_lookup_in in H. unfold cds_wf in Hcds. rewrite forallb_forall in Hcds.
  exact (Hcds _ H).
Qed.

(* ValidateTupleForWrite (what a contextual tuple goes through) on the parsed tuple *)
Theorem valid_ctx_struct w : rt_wf w = true ->
  valid_ctx_tuple e m cds w =
  match parse e w with Some t => core coded_clause (t_size t) t | None => false end.
Proof.
  intro Hrt. unfold valid_ctx_tuple, validate_tuple.
  destruct (validate_uor e m w) as [x|] eqn:Huor.
  - (* refused by ValidateUserObjectRelation *)
    cbn [accepted]. destruct (parse e w) as [t|] eqn:Hp; [|reflexivity].
    destruct (core coded_clause (t_size t) t) eqn:Hc; [exfalso|reflexivity].
    unfold parse in Hp.
    destruct (p_object e (rt_obj w)) as [[ot oid]|] eqn:Hpo; [|discriminate].
    destruct (nlookup (e_rels e) (rt_rel w)) as [r|] eqn:Hr; [|discriminate].
    destruct (p_user e (rt_user w)) as [u|] eqn:Hpu; [|discriminate].
    destruct (p_cond e (rt_cond w)) as [pc|]; [|discriminate].
    destruct (beqb oid wildcard) eqn:Hw; [discriminate|]. inversion Hp; subst t. clear Hp.
    unfold core in Hc. cbn [w_ot w_rel w_user] in Hc.
    destruct (Vocab.get_relation m ot r) as [rd|] eqn:Hg; [|discriminate].
    apply andb_true_iff in Hc as [Hc _]. apply andb_true_iff in Hc as [Hcl _].
    unfold coded_clause in Hcl. apply andb_true_iff in Hcl as [Htr _].
    rewrite type_restr_ok_form in Htr. apply existsb_exists in Htr as (d & Hin & Hd).
    unfold form_match in Hd. apply andb_true_iff in Hd as [Hdt Hdk].
    apply N.eqb_eq in Hdt. apply kind_eqb_eq in Hdk.
    destruct (get_relation_in _ _ _ _ Hg) as [Hall _].
    unfold restr_wf in Hrwf. rewrite forallb_forall in Hrwf. specialize (Hrwf _ Hall). cbn [snd] in Hrwf.
    rewrite forallb_forall in Hrwf. specialize (Hrwf _ Hin). unfold restr_wf_one in Hrwf.
    assert (find_type m ot <> None) as Hfo.
    { unfold Vocab.get_relation in Hg. destruct (find_type m ot); [discriminate|discriminate]. }
    assert (validate_user e m (rt_user w) = None) as Hvu.
    { apply (validate_user_iff e m Hwf). exists u. split; [exact Hpu|]. rewrite <- Hdt. split.
      - destruct (find_type m (r_type d)); [discriminate|discriminate].
      - intros t' id' r' E. subst u. cbn [wuser_kind] in Hdk. cbn [wuser_type] in Hdt.
        rewrite Hdk in Hrwf. destruct (find_type m (r_type d)); [|discriminate].
        rewrite <- Hdt. exact Hrwf. }
    assert (validate_object e m (rt_obj w) = None) as Hvo.
    { apply (validate_object_iff e m Hwf). exists ot, oid. repeat split; try assumption.
      intro E. rewrite E, beqb_refl in Hw. discriminate. }
    assert (validate_relation e m (rt_obj w) (rt_rel w) = None) as Hvr.
    { apply (validate_relation_iff e m Hwf _ _ _ _ Hpo Hfo). exists r. split; [exact Hr|].
      unfold rel_defined. rewrite Hg. reflexivity. }
    unfold validate_uor in Huor. rewrite Hvu, Hvo, Hvr in Huor. discriminate.
  - (* well-formed *)
    unfold validate_uor in Huor.
    destruct (validate_user e m (rt_user w)) eqn:Hu; [discriminate|].
    destruct (validate_object e m (rt_obj w)) eqn:Ho; [discriminate|].
    apply (validate_user_iff e m Hwf) in Hu as (u & Hpu & Hfu & Hru).
    apply (validate_object_iff e m Hwf) in Ho as (ot & oid & Hpo & Hne & Hfo).
    apply (validate_relation_iff e m Hwf _ _ _ _ Hpo Hfo) in Huor as (r & Hr & Hrd).
    rewrite validate_read_valid_for_read.
    unfold parse. rewrite Hpo, Hr, Hpu.
    assert (beqb oid wildcard = false) as Hw.
    { destruct (beqb oid wildcard) eqn:E; [apply beqb_eq in E; contradiction|reflexivity]. }
    rewrite Hw. unfold rel_defined in Hrd.
    destruct (Vocab.get_relation m ot r) as [rd|] eqn:Hg; [|discriminate].
    assert (is_tupleset m ot r = true -> is_this (rd_rw rd) = true) as Hdir by (apply ts_direct; exact Hg).
    unfold rt_wf in Hrt.
    destruct (rt_cond w) as [wc|] eqn:Hc; cbn [p_cond].
    + destruct (nlookup (e_conds e) (wc_name wc)) as [c|] eqn:Hn; [|reflexivity].
      rewrite (vtuple_of_facts _ _ _ _ _ c Hpo Hr Hpu), valid_for_read_struct.
      unfold core, t_size, cond_clause, coded_clause. cbn [w_ot w_rel w_user w_cid w_cond].
      rewrite Hg, type_restr_ok_form, (known_cond_clean _ _ Hn). cbn [negb andb].
      destruct (cd_lookup c cds) as [ps|] eqn:Hps.
      * rewrite (cd_lookup_ids _ _ _ Hps), (ctx_ok_fits _ _ (cds_params_nodup _ _ Hps) Hrt), N.leb_refl.
        destruct (N.eqb c 0); cbn [negb andb]; [rewrite !andb_false_r; reflexivity|].
        destruct (is_tupleset m ot r); [rewrite (Hdir eq_refl)|];
          destruct (concrete u), (existsb (form_match u) (rd_restr rd)),
            (existsb (fun d => N.eqb (r_type d) (wuser_type u) && N.eqb (r_cond d) c) (rd_restr rd)),
            (ctx_fits ps (wc_ctx wc)); reflexivity.
      * rewrite !andb_false_r. reflexivity.
    + rewrite (vtuple_of_facts _ _ _ _ _ 0 Hpo Hr Hpu), valid_for_read_struct.
      unfold core, t_size, cond_clause, coded_clause. cbn [w_ot w_rel w_user w_cid w_cond N.eqb].
      rewrite Hg, type_restr_ok_form.
      destruct (is_tupleset m ot r); [rewrite (Hdir eq_refl)|];
        destruct (concrete u), (existsb (form_match u) (rd_restr rd)),
          (nocond_ok (rd_restr rd) (subj_of_wuser u)); reflexivity.
Qed.

Lemma parsed_size w t : parse e w = Some t -> ctx_size w = t_size t.
Proof.
  unfold parse. destruct (p_object e (rt_obj w)) as [[ot oid]|]; [|discriminate].
  destruct (nlookup (e_rels e) (rt_rel w)); [|discriminate].
  destruct (p_user e (rt_user w)); [|discriminate].
  unfold p_cond, ctx_size, t_size. destruct (rt_cond w) as [wc|].
  - destruct (nlookup (e_conds e) (wc_name wc)); [|discriminate].
    destruct (beqb oid wildcard); [discriminate|]. intro H. inversion H. reflexivity.
  - destruct (beqb oid wildcard); [discriminate|]. intro H. inversion H. reflexivity.
Qed.

(* what distinguishes Write from a contextual tuple: validateNotImplicit and the size limit *)
Theorem write_vs_ctx limit w :
  valid_for_write e m cds limit w =
  valid_ctx_tuple e m cds w && negb (implicit w) && (ctx_size w <=? limit).
Proof.
  unfold valid_for_write, valid_ctx_tuple, validate_write.
  destruct (validate_tuple e m cds w); [reflexivity|]. cbn [accepted andb].
  destruct (implicit w); [reflexivity|]. cbn [negb andb].
  rewrite N.leb_antisym. destruct (limit <? ctx_size w); reflexivity.
Qed.

Theorem valid_write_struct limit w : rt_wf w = true ->
  valid_for_write e m cds limit w =
  match parse e w with Some t => allowed_with m cds coded_clause limit t | None => false end.
Proof.
  intro Hrt. rewrite write_vs_ctx, (valid_ctx_struct _ Hrt).
  destruct (parse e w) as [t|] eqn:Hp; [|reflexivity].
  rewrite (implicit_self e Hwf _ _ Hp), (parsed_size _ _ Hp), allowed_with_core.
  rewrite (core_limit coded_clause limit t).
  destruct (core coded_clause (t_size t) t), (self_pointing t), (t_size t <=? limit); reflexivity.
Qed.

Lemma allowed_with_or f g limit t :
  allowed_with m cds (fun rs u c => f rs u c || g rs u c) limit t =
  allowed_with m cds f limit t || allowed_with m cds g limit t.
Proof.
  unfold allowed_with. destruct (Vocab.get_relation m (w_ot t) (w_rel t)) as [rd|]; [|reflexivity].
  destruct (f (rd_restr rd) (w_user t) (w_cid t)), (g (rd_restr rd) (w_user t) (w_cid t)),
    (if is_tupleset m (w_ot t) (w_rel t) then concrete (w_user t) else true),
    (cond_clause cds limit t), (self_pointing t); reflexivity.
Qed.

Lemma allowed_with_ext f g limit t :
  (forall rs u c, f rs u c = g rs u c) -> allowed_with m cds f limit t = allowed_with m cds g limit t.
Proof.
  intro H. unfold allowed_with. destruct (Vocab.get_relation m (w_ot t) (w_rel t)); [|reflexivity].
  rewrite H. reflexivity.
Qed.

Lemma allowed_tuple_strict limit t : allowed_tuple m cds limit t = allowed_with m cds strict_clause limit t.
Proof. reflexivity. Qed.

(* THE characterisation: Write accepts exactly the allowed tuples and the two laxities *)
Theorem valid_for_write_exact limit w : rt_wf w = true ->
  valid_for_write e m cds limit w =
  allowed_raw e m cds limit w || lax_cond_raw e m cds limit w || lax_nocond_raw e m cds limit w.
Proof.
  intro Hrt. rewrite (valid_write_struct _ _ Hrt). unfold allowed_raw, lax_cond_raw, lax_nocond_raw.
  destruct (parse e w) as [t|]; [|reflexivity].
  rewrite (allowed_with_ext _ _ _ _ coded_clause_char).
  rewrite (allowed_with_or (fun rs u c => strict_clause rs u c || cond_any_restriction_of_type rs u c)
                           nocond_via_plain_restriction).
  rewrite (allowed_with_or strict_clause cond_any_restriction_of_type).
  reflexivity.
Qed.

(* the same for contextual tuples: additionally no self rule and no size limit *)
Theorem valid_ctx_exact w : rt_wf w = true ->
  valid_ctx_tuple e m cds w =
  match parse e w with
  | Some t => core strict_clause (t_size t) t || core cond_any_restriction_of_type (t_size t) t ||
              core nocond_via_plain_restriction (t_size t) t
  | None => false
  end.
Proof.
  intro Hrt. rewrite (valid_ctx_struct _ Hrt). destruct (parse e w) as [t|]; [|reflexivity].
  unfold core. destruct (Vocab.get_relation m (w_ot t) (w_rel t)) as [rd|]; [|reflexivity].
  rewrite coded_clause_char.
  destruct (strict_clause (rd_restr rd) (w_user t) (w_cid t)),
    (cond_any_restriction_of_type (rd_restr rd) (w_user t) (w_cid t)),
    (nocond_via_plain_restriction (rd_restr rd) (w_user t) (w_cid t)),
    (if is_tupleset m (w_ot t) (w_rel t) then concrete (w_user t) else true),
    (cond_clause cds (t_size t) t); reflexivity.
Qed.

(* completeness: everything the property allows is accepted *)
Theorem allowed_implies_valid limit w : rt_wf w = true ->
  allowed_raw e m cds limit w = true -> valid_for_write e m cds limit w = true.
Proof. intros Hrt H. rewrite (valid_for_write_exact _ _ Hrt), H. reflexivity. Qed.

Lemma no_mix_at t rd :
  no_cond_kind_mix m = true -> Vocab.get_relation m (w_ot t) (w_rel t) = Some rd ->
  no_mix_rs (rd_restr rd) = true.
Proof.
  intros Hmix Hg. apply get_relation_in in Hg as [Hin _]. unfold no_cond_kind_mix in Hmix.
  rewrite forallb_forall in Hmix. exact (Hmix _ Hin).
Qed.

Theorem no_mix_no_lax limit w : no_cond_kind_mix m = true ->
  lax_cond_raw e m cds limit w = false /\ lax_nocond_raw e m cds limit w = false.
Proof.
  intro Hmix. unfold lax_cond_raw, lax_nocond_raw, lax_cond, lax_nocond, allowed_with.
  destruct (parse e w) as [t|]; [|split; reflexivity].
  destruct (Vocab.get_relation m (w_ot t) (w_rel t)) as [rd|] eqn:Hg; [|split; reflexivity].
  rewrite (no_mix_no_cond_any _ _ _ (no_mix_at _ _ Hmix Hg)).
  rewrite (no_mix_no_nocond_via _ _ _ (no_mix_at _ _ Hmix Hg)). split; reflexivity.
Qed.

(* soundness where the laxity cannot show *)
Theorem valid_iff_allowed_no_mix limit w : rt_wf w = true -> no_cond_kind_mix m = true ->
  valid_for_write e m cds limit w = allowed_raw e m cds limit w.
Proof.
  intros Hrt Hmix. rewrite (valid_for_write_exact _ _ Hrt).
  destruct (no_mix_no_lax limit w Hmix) as [H1 H2]. rewrite H1, H2, !orb_false_r. reflexivity.
Qed.

End Main.

(* ------------------------------------------------------------------------------------------ *)
(* G. the Write command: validation precedes every datastore write                             *)

Definition w_result (x : wres * list dscall * store) : wres := fst (fst x).
Definition w_calls (x : wres * list dscall * store) : list dscall := snd (fst x).
Definition w_store (x : wres * list dscall * store) : store := snd x.

Definition is_ds_write (c : dscall) : bool := match c with DsWrite _ _ => true | DsReadModel => false end.

Section Cmd.
Variable e : env.
Variable m : model.
Variable cds : cdefs.
Variable limit maxw : N.

Lemma validate_request_calls deletes writes :
  existsb is_ds_write (snd (validate_request e m cds limit maxw deletes writes)) = false.
Proof.
  unfold validate_request.
  destruct deletes as [|d ds], writes as [|w ws]; cbn [snd existsb];
    repeat match goal with |- context [if ?b then _ else _] => destruct b end; reflexivity.
Qed.

(* any refusal leaves the store as it was *)
Theorem rejected_write_changes_nothing od om s deletes writes :
  w_result (write_cmd e m cds limit maxw od om s deletes writes) <> WOk ->
  w_store (write_cmd e m cds limit maxw od om s deletes writes) = s.
Proof.
  unfold write_cmd, w_result, w_store.
  destruct (validate_request e m cds limit maxw deletes writes) as [r calls].
  destruct r; cbn [fst snd]; try reflexivity.
  destruct od, om; cbn [fst snd]; try reflexivity;
    destruct (ds_write _ _ s deletes writes); cbn [fst snd]; intro H; try reflexivity; contradiction.
Qed.

Lemma forallb_false_in {A : Type} (f : A -> bool) l x : In x l -> f x = false -> forallb f l = false.
Proof.
  intros Hin Hf. destruct (forallb f l) eqn:E; [|reflexivity].
  rewrite forallb_forall in E. rewrite (E _ Hin) in Hf. discriminate.
Qed.

(* one invalid tuple: validation_error, no datastore write is issued, nothing changes *)
Theorem invalid_tuple_rejects_request od om s deletes writes w :
  In w writes -> valid_for_write e m cds limit w = false ->
  w_result (write_cmd e m cds limit maxw od om s deletes writes) = WValidation /\
  w_store (write_cmd e m cds limit maxw od om s deletes writes) = s /\
  existsb is_ds_write (w_calls (write_cmd e m cds limit maxw od om s deletes writes)) = false.
Proof.
  intros Hin Hbad. unfold write_cmd, validate_request, w_result, w_store, w_calls.
  rewrite (forallb_false_in _ _ _ Hin Hbad). cbn [negb].
  destruct deletes as [|d ds], writes as [|w0 ws]; try destruct Hin; cbn [fst snd existsb is_ds_write orb];
    repeat split; reflexivity.
Qed.

(* a datastore write is issued only after every tuple passed validation *)
Theorem ds_write_only_after_validation od om s deletes writes :
  existsb is_ds_write (w_calls (write_cmd e m cds limit maxw od om s deletes writes)) = true ->
  forallb (valid_for_write e m cds limit) writes = true /\
  forallb (fun k => is_valid_user (k_user k)) deletes = true.
Proof.
  unfold write_cmd, w_calls.
  assert (Hc := validate_request_calls deletes writes).
  destruct (validate_request e m cds limit maxw deletes writes) as [r calls] eqn:Hv. cbn [snd] in Hc.
  destruct r; cbn [fst snd]; try (intro H; congruence).
  intros _. unfold validate_request in Hv.
  destruct (forallb (valid_for_write e m cds limit) writes); cbn [negb] in Hv.
  - destruct (forallb (fun k => is_valid_user (k_user k)) deletes); cbn [negb] in Hv.
    + split; reflexivity.
    + destruct deletes, writes; inversion Hv.
  - destruct deletes, writes; inversion Hv.
Qed.

Theorem accepted_write_all_valid od om s deletes writes w :
  w_result (write_cmd e m cds limit maxw od om s deletes writes) = WOk ->
  In w writes -> valid_for_write e m cds limit w = true.
Proof.
  intros Hok Hin. destruct (valid_for_write e m cds limit w) eqn:E; [reflexivity|].
  destruct (invalid_tuple_rejects_request od om s deletes writes w Hin E) as [H _]. congruence.
Qed.

End Cmd.

(* validation has no memory: in any sequence of validations the answer for a tuple is the answer of
   the single call, whatever was validated before or after it; a request's verdict does not depend
   on the position of the invalid tuple *)
Theorem validate_seq_stateless e m cds limit (before after : list rtuple) (w : rtuple) :
  nth (length before) (validate_seq e m cds limit (before ++ w :: after)) false =
  valid_for_write e m cds limit w /\
  nth (length before) (validate_ctx_seq e m cds (before ++ w :: after)) false =
  valid_ctx_tuple e m cds w.
Proof.
  unfold validate_seq, validate_ctx_seq. rewrite !map_app. cbn [map].
  rewrite !app_nth2 by (rewrite map_length; apply Nat.le_refl).
  rewrite !map_length, Nat.sub_diag. split; reflexivity.
Qed.

Theorem request_verdict_position_free e m cds limit maxw od om s deletes (before after : list rtuple) w :
  valid_for_write e m cds limit w = false ->
  w_result (write_cmd e m cds limit maxw od om s deletes (before ++ w :: after)) = WValidation /\
  w_store (write_cmd e m cds limit maxw od om s deletes (before ++ w :: after)) = s.
Proof.
  intro H. destruct (invalid_tuple_rejects_request e m cds limit maxw od om s deletes (before ++ w :: after) w) as (H1 & H2 & _).
  - apply in_or_app. right. left. reflexivity.
  - exact H.
  - split; assumption.
Qed.

(* the verdict of the per-tuple stage of a request is the CONJUNCTION of the individual verdicts,
   hence independent of the order of the tuples *)
Lemma forallb_perm {A : Type} (f : A -> bool) l l' : Permutation.Permutation l l' -> forallb f l = forallb f l'.
Proof.
  induction 1 as [|x l l' _ IH|x y l|l l' l'' _ IH1 _ IH2]; cbn [forallb].
  - reflexivity.
  - rewrite IH. reflexivity.
  - destruct (f x), (f y); reflexivity.
  - rewrite IH1. exact IH2.
Qed.

Definition tuples_pass (e : env) (m : model) (cds : cdefs) (limit : N) (deletes : list skey) (writes : list rtuple) : bool :=
  forallb (valid_for_write e m cds limit) writes && forallb (fun k => is_valid_user (k_user k)) deletes.

Theorem batch_validity_is_conjunction e m cds limit maxw deletes writes :
  (deletes <> [] \/ writes <> []) ->
  (tuples_pass e m cds limit deletes writes = false <->
   fst (validate_request e m cds limit maxw deletes writes) = WValidation).
Proof.
  intro Hne. unfold tuples_pass, validate_request.
  destruct (forallb (valid_for_write e m cds limit) writes);
    destruct (forallb (fun k => is_valid_user (k_user k)) deletes); cbn [andb negb].
  - destruct deletes, writes; try (destruct Hne; congruence);
      repeat match goal with |- context [if ?b then _ else _] => destruct b end; cbn [fst]; split; intro H; congruence.
  - destruct deletes, writes; try (destruct Hne; congruence); cbn [fst]; split; reflexivity.
  - destruct deletes, writes; try (destruct Hne; congruence); cbn [fst]; split; reflexivity.
  - destruct deletes, writes; try (destruct Hne; congruence); cbn [fst]; split; reflexivity.
Qed.

Theorem batch_validity_order_free e m cds limit deletes deletes' writes writes' :
  Permutation.Permutation writes writes' -> Permutation.Permutation deletes deletes' ->
  tuples_pass e m cds limit deletes writes = tuples_pass e m cds limit deletes' writes'.
Proof.
  intros Hw Hd. unfold tuples_pass. rewrite (forallb_perm _ _ _ Hw), (forallb_perm _ _ _ Hd). reflexivity.
Qed.

(* ------------------------------------------------------------------------------------------ *)
(* H. witnesses (closed by computation)                                                        *)

Module Witness.
Import Coq.Strings.String Coq.Strings.Ascii.

Definition bs (s : string) : bytes := List.map N_of_ascii (list_ascii_of_string s).

(* type user
   type group   define member: [user]
   type doc     define viewer: [user, user:* with cnd, group, group#member with cnd, doc#viewer]
                define parent: [doc]      define inherited: viewer from parent
   condition cnd(x: int) *)
Definition we : env :=
  {| e_types := [(bs "user", 1); (bs "doc", 2); (bs "group", 3)];
     e_rels := [(bs "viewer", 1); (bs "member", 2); (bs "parent", 3); (bs "inherited", 4)];
     e_conds := [(bs "cnd", 1)] |}.

Definition mk_r (t : tid) (k : rkind) (c : cid) : restriction := {| r_type := t; r_kind := k; r_cond := c |}.

Definition wm : model :=
  [ {| td_type := 1; td_rels := [] |};
    {| td_type := 3; td_rels := [ {| rd_rel := 2; rd_rw := This; rd_restr := [mk_r 1 RObj 0] |} ] |};
    {| td_type := 2; td_rels :=
         [ {| rd_rel := 1; rd_rw := This;
              rd_restr := [mk_r 1 RObj 0; mk_r 1 RWild 1; mk_r 3 RObj 0; mk_r 3 (RSet 2) 1; mk_r 2 (RSet 1) 0] |};
           {| rd_rel := 3; rd_rw := This; rd_restr := [mk_r 2 RObj 0] |};
           {| rd_rel := 4; rd_rw := TTU 3 1; rd_restr := [] |} ] |} ].

Definition wcds : cdefs := [(1, [(bs "x", PInt)])].

Definition mk_t (o r u : string) (c : option wcond) : rtuple :=
  {| rt_obj := bs o; rt_rel := bs r; rt_user := bs u; rt_cond := c |}.

Definition cnd_x1 (size : N) : option wcond :=
  Some {| wc_name := bs "cnd"; wc_ctx := [(bs "x", KNum true true)]; wc_size := size |}.

(* F4: user:a WITH cnd although only user:* carries cnd *)
Definition w_f4 : rtuple := mk_t "doc:1" "viewer" "user:a" (cnd_x1 11).
(* an unconditioned userset although group#member requires cnd: passes through [group] *)
Definition w_plain : rtuple := mk_t "doc:1" "viewer" "group:1#member" None.
(* a userset pointing at itself *)
Definition w_self : rtuple := mk_t "doc:1" "viewer" "doc:1#viewer" None.
(* an allowed conditioned tuple, once within and once beyond a limit of 64 bytes *)
Definition w_ok : rtuple := mk_t "doc:1" "viewer" "user:*" (cnd_x1 11).
Definition w_big : rtuple := mk_t "doc:1" "viewer" "user:*" (cnd_x1 100).
(* a wildcard on a tupleset relation, an unknown type, a mistyped context *)
Definition w_ts : rtuple := mk_t "doc:1" "parent" "doc:*" None.
Definition w_ghost : rtuple := mk_t "doc:1" "viewer" "ghost:1" None.
Definition w_badctx : rtuple :=
  mk_t "doc:1" "viewer" "user:*"
       (Some {| wc_name := bs "cnd"; wc_ctx := [(bs "x", KStr SText)]; wc_size := 12 |}).

Definition s_doc_1 : bytes := bs "doc:1".
Definition s_doc_wild : bytes := bs "doc:*".
Definition s_ghost_1 : bytes := bs "ghost:1".
Definition s_group_1_member : bytes := bs "group:1#member".
Definition s_user_wild : bytes := bs "user:*".
Definition s_group_wild_member : bytes := bs "group:*#member".
Definition s_star : bytes := bs "*".
Definition s_group_1_viewer : bytes := bs "group:1#viewer".

Definition hyps (w : rtuple) : bool :=
  env_wf we && restr_wf wm && tupleset_direct wm && cds_wf wcds && rt_wf w.

Lemma hyps_hold : forallb hyps [w_f4; w_plain; w_self; w_ok; w_big; w_ts; w_ghost; w_badctx] = true.
Proof. vm_compute. reflexivity. Qed.

Lemma f4_accepted_not_allowed :
  valid_for_write we wm wcds 64 w_f4 = true /\ allowed_raw we wm wcds 64 w_f4 = false /\
  lax_cond_raw we wm wcds 64 w_f4 = true.
Proof. vm_compute. repeat split. Qed.

Lemma plain_accepted_not_allowed :
  valid_for_write we wm wcds 64 w_plain = true /\ allowed_raw we wm wcds 64 w_plain = false /\
  lax_nocond_raw we wm wcds 64 w_plain = true.
Proof. vm_compute. repeat split. Qed.

Lemma self_ctx_accepted :
  valid_ctx_tuple we wm wcds w_self = true /\ valid_for_write we wm wcds 64 w_self = false /\
  allowed_raw we wm wcds 64 w_self = false.
Proof. vm_compute. repeat split. Qed.

Lemma big_ctx_accepted :
  valid_ctx_tuple we wm wcds w_big = true /\ valid_for_write we wm wcds 64 w_big = false /\
  allowed_raw we wm wcds 64 w_big = false.
Proof. vm_compute. repeat split. Qed.

Lemma ok_accepted :
  valid_for_write we wm wcds 64 w_ok = true /\ allowed_raw we wm wcds 64 w_ok = true /\
  valid_ctx_tuple we wm wcds w_ok = true.
Proof. vm_compute. repeat split. Qed.

Lemma rejected_classes :
  validate_write we wm wcds 64 w_ts = Some EInvalidTuple /\
  validate_write we wm wcds 64 w_ghost = Some ETypeNotFound /\
  validate_write we wm wcds 64 w_badctx = Some EInvalidCond /\
  validate_write we wm wcds 64 (mk_t "doc:1" "owner" "user:a" None) = Some ERelNotFound /\
  validate_write we wm wcds 64 (mk_t "doc:1" "viewer" "anne" None) = Some EInvalidTuple /\
  validate_write we wm wcds 64 (mk_t "doc:*" "viewer" "user:a" None) = Some EInvalidTuple /\
  validate_write we wm wcds 64 (mk_t "doc:1" "viewer" "user:*" None) = Some EInvalidCond.
Proof. vm_compute. repeat split. Qed.

(* a model without kind mix that still has conditions and all three forms *)
Definition wm2 : model :=
  [ {| td_type := 1; td_rels := [] |};
    {| td_type := 3; td_rels := [ {| rd_rel := 2; rd_rw := This; rd_restr := [mk_r 1 RObj 0] |} ] |};
    {| td_type := 2; td_rels :=
         [ {| rd_rel := 1; rd_rw := This;
              rd_restr := [mk_r 1 RObj 0; mk_r 1 RObj 1; mk_r 1 RWild 1; mk_r 1 RWild 0; mk_r 3 (RSet 2) 1] |} ] |} ].

Lemma wm2_no_mix : restr_wf wm2 && tupleset_direct wm2 && no_cond_kind_mix wm2 = true /\
                   no_cond_kind_mix wm = false.
Proof. vm_compute. split; reflexivity. Qed.

Lemma wm2_examples :
  valid_for_write we wm2 wcds 64 w_f4 = true /\ allowed_raw we wm2 wcds 64 w_f4 = true /\
  valid_for_write we wm2 wcds 64 w_plain = false /\ allowed_raw we wm2 wcds 64 w_plain = false.
Proof. vm_compute. repeat split. Qed.

(* the command on a store that already holds one tuple *)
Definition st0 : store := [({| k_obj := bs "doc:9"; k_rel := bs "viewer"; k_user := bs "user:z" |}, [])].

Lemma cmd_examples :
  (* a batch with one bad tuple: refused before any datastore write *)
  write_cmd we wm wcds 64 10 OError OError st0 [] [w_ok; w_f4; w_ghost] = (WValidation, [DsReadModel], st0) /\
  (* a good batch *)
  w_result (write_cmd we wm wcds 64 10 OError OError st0 [] [w_ok]) = WOk /\
  List.length (w_store (write_cmd we wm wcds 64 10 OError OError st0 [] [w_ok])) = 2%nat /\
  (* the same tuple twice in one request *)
  w_result (write_cmd we wm wcds 64 10 OError OError st0 [] [w_ok; w_ok]) = WDuplicate /\
  (* over the entity limit *)
  w_result (write_cmd we wm wcds 64 1 OError OError st0 [key_of w_ts] [w_ok]) = WLimit /\
  (* deleting a tuple that is not there: the datastore refuses, nothing changes *)
  write_cmd we wm wcds 64 10 OError OError st0 [key_of w_ok] [] =
    (WFailedInput, [DsWrite [key_of w_ok] []], st0) /\
  (* an unknown option is refused after validation, before the datastore *)
  write_cmd we wm wcds 64 10 OBad OError st0 [] [w_ok] = (WValidation, [DsReadModel], st0) /\
  write_cmd we wm wcds 64 10 OError OError st0 [] [] = (WInvalidInput, [], st0).
Proof. vm_compute. repeat split. Qed.

End Witness.

(* contextual tuples follow the rules of Write whenever the two extra rules of Write are moot *)
Theorem ctx_same_rules_when_moot e m cds limit w :
  implicit w = false -> ctx_size w <=? limit = true ->
  valid_ctx_tuple e m cds w = valid_for_write e m cds limit w.
Proof.
  intros Hi Hs. rewrite write_vs_ctx, Hi, Hs. cbn [negb]. rewrite !andb_true_r. reflexivity.
Qed.

(* ------------------------------------------------------------------------------------------ *)
(* I. the full statement is false of the faithful model                                        *)

Definition all_hyps (e : env) (m : model) (cds : cdefs) (w : rtuple) : bool :=
  env_wf e && restr_wf m && tupleset_direct m && cds_wf cds && rt_wf w.

(* F4: a conditioned tuple is accepted because ANOTHER form of the user's type carries the condition *)
Theorem validate_condition_refuted :
  exists e m cds limit w,
    all_hyps e m cds w = true /\
    valid_for_write e m cds limit w = true /\ allowed_raw e m cds limit w = false /\
    lax_cond_raw e m cds limit w = true.
Proof.
  exists Witness.we, Witness.wm, Witness.wcds, 64, Witness.w_f4. vm_compute. repeat split.
Qed.

(* an unconditioned userset is accepted through a plain restriction of its type *)
Theorem validate_nocond_refuted :
  exists e m cds limit w,
    all_hyps e m cds w = true /\
    valid_for_write e m cds limit w = true /\ allowed_raw e m cds limit w = false /\
    lax_nocond_raw e m cds limit w = true.
Proof.
  exists Witness.we, Witness.wm, Witness.wcds, 64, Witness.w_plain. vm_compute. repeat split.
Qed.

(* contextual tuples: a userset pointing at itself, and a context beyond the size limit, are
   accepted although Write refuses them and the property does not allow them *)
Theorem ctx_tuple_same_rules_refuted :
  exists e m cds limit w1 w2,
    all_hyps e m cds w1 = true /\ all_hyps e m cds w2 = true /\
    valid_ctx_tuple e m cds w1 = true /\ valid_for_write e m cds limit w1 = false /\
    allowed_raw e m cds limit w1 = false /\ implicit w1 = true /\
    valid_ctx_tuple e m cds w2 = true /\ valid_for_write e m cds limit w2 = false /\
    allowed_raw e m cds limit w2 = false /\ (limit <? ctx_size w2) = true.
Proof.
  exists Witness.we, Witness.wm, Witness.wcds, 64, Witness.w_self, Witness.w_big.
  vm_compute. repeat split.
Qed.
