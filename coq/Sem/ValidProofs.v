(* Proofs about write-time tuple validation (C18): Sem/ValidWrite.v.
   A. name tables and list helpers
   B. the string side: ValidateUserObjectRelation accepts exactly the tuples that [parse] reads
      (with the grammar theorems of C29) and whose names are defined in the model
   C. the restriction clause as coded = the strict clause or one of the two laxities (F4)
   D. context typing: the coded three-step check = [ctx_fits] on maps
   E. valid_for_write = allowed_raw || lax_cond_raw || lax_nocond_raw   (exact), its corollaries
   F. the link with Sem/Valid.v (valid_for_read)
   G. the Write command: a rejected write changes nothing; contextual tuples *)
From OFGA Require Import Sem.ValidWrite Codec.TupleStrProofs.
From Coq Require Import ZifyBool ZifyN ZifyNat Lia.
Open Scope N_scope.

(* ------------------------------------------------------------------------------------------ *)
(* A. helpers                                                                                  *)

Lemma existsb_ext_in {A : Type} (f g : A -> bool) l :
  (forall x, In x l -> f x = g x) -> existsb f l = existsb g l.
Proof.
  induction l as [|x l IH]; intro H; cbn [existsb]; [reflexivity|].
  rewrite (H x (or_introl eq_refl)), IH; [reflexivity|]. intros y Hy. apply H. right. exact Hy.
Qed.

Lemma existsb_or {A : Type} (f g : A -> bool) l :
  existsb (fun x => f x || g x) l = existsb f l || existsb g l.
Proof.
  induction l as [|x l IH]; cbn [existsb]; [reflexivity|]. rewrite IH.
  destruct (f x), (g x), (existsb f l), (existsb g l); reflexivity.
Qed.

Lemma existsb_impl {A : Type} (f g : A -> bool) l :
  (forall x, f x = true -> g x = true) -> existsb f l = true -> existsb g l = true.
Proof.
  intros H Hf. apply existsb_exists in Hf as (x & Hin & Hx). apply existsb_exists.
  exists x. split; [exact Hin | apply H; exact Hx].
Qed.

Lemma forallb_ext_in {A : Type} (f g : A -> bool) l :
  (forall x, In x l -> f x = g x) -> forallb f l = forallb g l.
Proof.
  induction l as [|x l IH]; intro H; cbn [forallb]; [reflexivity|].
  rewrite (H x (or_introl eq_refl)), IH; [reflexivity|]. intros y Hy. apply H. right. exact Hy.
Qed.

Lemma kind_eqb_eq a b : kind_eqb a b = true <-> a = b.
Proof.
  destruct a as [| |r], b as [| |s]; cbn [kind_eqb]; split; intro H; try reflexivity; try discriminate.
  - apply N.eqb_eq in H. subst. reflexivity.
  - inversion H; subst. apply N.eqb_refl.
Qed.

Lemma kind_eqb_refl a : kind_eqb a a = true.
Proof. apply kind_eqb_eq. reflexivity. Qed.

Lemma nonempty_true s : nonempty s = true <-> s <> [].
Proof. destruct s; cbn [nonempty]; split; intro H; congruence. Qed.

Lemma nlookup_in tb s v : nlookup tb s = Some v -> In (s, v) tb.
Proof.
  induction tb as [|[k x] tb IH]; cbn [nlookup]; [discriminate|].
  destruct (beqb k s) eqn:E.
  - intro H. inversion H; subst. apply beqb_eq in E. subst. left. reflexivity.
  - intro H. right. apply IH. exact H.
Qed.

Lemma nodupb_notin x l : nodupb (x :: l) = true -> ~ In x l.
Proof.
  cbn [nodupb]. intros H Hin. apply andb_true_iff in H as [H _]. apply negb_true_iff in H.
  assert (existsb (N.eqb x) l = true) as E.
  { apply existsb_exists. exists x. split; [exact Hin | apply N.eqb_refl]. }
  congruence.
Qed.

Lemma nlookup_inj tb a b x :
  nodupb (map snd tb) = true -> nlookup tb a = Some x -> nlookup tb b = Some x -> a = b.
Proof.
  induction tb as [|[k v] tb IH]; cbn [nlookup map snd]; [discriminate|].
  intros Hnd Ha Hb.
  assert (Hnotin := nodupb_notin _ _ Hnd).
  cbn [nodupb] in Hnd. apply andb_true_iff in Hnd as [_ Hnd].
  destruct (beqb k a) eqn:Ea, (beqb k b) eqn:Eb.
  - apply beqb_eq in Ea, Eb. congruence.
  - inversion Ha; subst. exfalso. apply Hnotin.
    apply nlookup_in in Hb. apply (in_map snd) in Hb. exact Hb.
  - inversion Hb; subst. exfalso. apply Hnotin.
    apply nlookup_in in Ha. apply (in_map snd) in Ha. exact Ha.
  - apply IH; assumption.
Qed.

Lemma names_ok_lookup bad tb s v :
  names_ok bad tb = true -> nlookup tb s = Some v -> s <> [] /\ cleanb bad s = true.
Proof.
  intros Hok Hl. apply nlookup_in in Hl. unfold names_ok in Hok.
  rewrite forallb_forall in Hok. specialize (Hok _ Hl). cbn [fst] in Hok.
  apply andb_true_iff in Hok as [H1 H2]. apply nonempty_true in H1. auto.
Qed.

Lemma cleanb_clean bad s : cleanb bad s = clean bad s.
Proof. reflexivity. Qed.

Lemma cleanb_sub bad bad' s :
  (forall c, In c bad' -> In c bad) -> cleanb bad s = true -> cleanb bad' s = true.
Proof.
  intros Hsub H. unfold cleanb in *. rewrite forallb_forall in *. intros c Hc.
  specialize (H c Hc). apply andb_true_iff in H as [H1 H2]. rewrite H1. cbn [andb].
  apply negb_true_iff in H2. apply negb_true_iff.
  destruct (mem c bad') eqn:E; [|reflexivity].
  apply mem_In in E. apply Hsub in E. apply mem_In in E. congruence.
Qed.

Lemma cleanb_nomem bad s c : cleanb bad s = true -> In c bad -> c < 128 -> mem c s = false.
Proof. intros H Hin Hc. exact (clean_no_byte bad s c H Hin Hc). Qed.

(* ------------------------------------------------------------------------------------------ *)
(* B. the string side                                                                          *)

Definition obj_shape (s tn id : bytes) : Prop :=
  s = tn ++ c_colon :: id /\ tn <> [] /\ id <> [] /\
  cleanb id_chars tn = true /\ cleanb id_chars id = true.

Definition set_shape (s tn id rn : bytes) : Prop :=
  s = (tn ++ c_colon :: id) ++ c_hash :: rn /\ tn <> [] /\ id <> [] /\ rn <> [] /\
  cleanb id_chars tn = true /\ cleanb setid_chars id = true /\ cleanb setid_chars rn = true.

Lemma valid_object_shape s : is_valid_object s = true <-> exists tn id, obj_shape s tn id.
Proof. exact (is_valid_object_iff s). Qed.

Lemma valid_userset_shape s : is_valid_userset s = true <-> exists tn id rn, set_shape s tn id rn.
Proof.
  rewrite is_valid_userset_iff. unfold set_shape. split.
  - intros (t & id & r & -> & H). exists t, id, r. split; [|exact H].
    rewrite <- app_assoc. reflexivity.
  - intros (t & id & r & -> & H). exists t, id, r. split; [|exact H].
    rewrite <- app_assoc. reflexivity.
Qed.

Lemma in_id_chars_colon : In c_colon id_chars. Proof. right; left; reflexivity. Qed.
Lemma in_id_chars_hash : In c_hash id_chars. Proof. left; reflexivity. Qed.
Lemma in_setid_chars_hash : In c_hash setid_chars. Proof. left; reflexivity. Qed.
Lemma in_setid_chars_colon : In c_colon setid_chars. Proof. right; left; reflexivity. Qed.
Lemma setid_sub_id : forall c, In c id_chars -> In c setid_chars.
Proof. intros c [<-|[<-|[<-|[]]]]; cbn; auto. Qed.
Lemma rel_sub_setid : forall c, In c setid_chars -> In c rel_chars.
Proof. intros c [<-|[<-|[<-|[<-|[]]]]]; cbn; auto 6. Qed.
Lemma rel_sub_badrel : forall c, In c bad_rel -> In c rel_chars.
Proof. intros c [<-|[<-|[<-|[<-|[]]]]]; cbn; auto 6. Qed.

Lemma obj_shape_facts s tn id : obj_shape s tn id ->
  cut c_colon s = Some (tn, id) /\ split_object s = (tn, id) /\ mem c_hash s = false /\
  mem c_colon id = false.
Proof.
  intros (-> & Ht & Hid & Hct & Hcid).
  assert (mem c_colon tn = false) as Hm by (apply (cleanb_nomem id_chars); [exact Hct | exact in_id_chars_colon | reflexivity]).
  assert (cut c_colon (tn ++ c_colon :: id) = Some (tn, id)) as Hcut by (apply cut_app; exact Hm).
  repeat split.
  - exact Hcut.
  - unfold split_object. rewrite Hcut. reflexivity.
  - rewrite mem_app. cbn [mem].
    rewrite (cleanb_nomem id_chars tn c_hash Hct in_id_chars_hash eq_refl).
    rewrite (cleanb_nomem id_chars id c_hash Hcid in_id_chars_hash eq_refl). reflexivity.
  - apply (cleanb_nomem id_chars); [exact Hcid | exact in_id_chars_colon | reflexivity].
Qed.

Lemma cut_obj_shape s tn id :
  cut c_colon s = Some (tn, id) -> tn <> [] -> cleanb id_chars tn = true ->
  nonempty id && cleanb id_chars id = true -> obj_shape s tn id.
Proof.
  intros Hcut Ht Hct H. apply andb_true_iff in H as [H1 H2]. apply nonempty_true in H1.
  apply cut_some in Hcut as [-> _]. repeat split; assumption.
Qed.

Section Strings.
Variable e : env.
Variable m : model.
Hypothesis Hwf : env_wf e = true.

Lemma wf_types : names_ok id_chars (e_types e) = true.
Proof. unfold env_wf in Hwf. repeat (apply andb_true_iff in Hwf as [Hwf ?]). exact Hwf. Qed.
Lemma wf_rels : names_ok rel_chars (e_rels e) = true.
Proof. unfold env_wf in Hwf. repeat (apply andb_true_iff in Hwf as [Hwf ?]). assumption. Qed.
Lemma wf_types_inj : nodupb (map snd (e_types e)) = true.
Proof. unfold env_wf in Hwf. repeat (apply andb_true_iff in Hwf as [Hwf ?]). assumption. Qed.
Lemma wf_rels_inj : nodupb (map snd (e_rels e)) = true.
Proof. unfold env_wf in Hwf. repeat (apply andb_true_iff in Hwf as [Hwf ?]). assumption. Qed.
Lemma wf_conds : forallb (fun kv => negb (forbidden (fst kv))) (e_conds e) = true.
Proof. unfold env_wf in Hwf. repeat (apply andb_true_iff in Hwf as [Hwf ?]). assumption. Qed.

(* p_object reads exactly the valid object strings whose type name is known *)
Lemma p_object_iff s t id :
  p_object e s = Some (t, id) <-> exists tn, obj_shape s tn id /\ nlookup (e_types e) tn = Some t.
Proof.
  unfold p_object. split.
  - destruct (cut c_colon s) as [[tn id']|] eqn:Hcut; [|discriminate].
    destruct (nlookup (e_types e) tn) as [t'|] eqn:Hl; [|discriminate].
    destruct (nonempty id' && cleanb id_chars id') eqn:Hid; [|discriminate].
    intro H. inversion H; subst. exists tn. split; [|exact Hl].
    destruct (names_ok_lookup _ _ _ _ wf_types Hl) as [Hne Hcl].
    apply cut_obj_shape; assumption.
  - intros (tn & Hsh & Hl). destruct (obj_shape_facts _ _ _ Hsh) as (Hcut & _).
    rewrite Hcut, Hl. destruct Hsh as (_ & _ & Hid & _ & Hcid).
    apply nonempty_true in Hid. rewrite Hid, Hcid. reflexivity.
Qed.

Lemma p_object_valid s t id : p_object e s = Some (t, id) ->
  is_valid_object s = true /\ split_object s = (fst (split_object s), id) /\
  nlookup (e_types e) (fst (split_object s)) = Some t /\ mem c_hash s = false.
Proof.
  intro H. apply p_object_iff in H as (tn & Hsh & Hl).
  destruct (obj_shape_facts _ _ _ Hsh) as (_ & Hsp & Hh & _).
  split; [apply valid_object_shape; exists tn, id; exact Hsh|].
  rewrite Hsp. cbn [fst]. auto.
Qed.

(* ValidateObject *)
Lemma validate_object_iff o :
  validate_object e m o = None <->
  exists t id, p_object e o = Some (t, id) /\ id <> wildcard /\ find_type m t <> None.
Proof.
  unfold validate_object. split.
  - destruct (is_valid_object o) eqn:Hv; cbn [negb]; [|discriminate].
    apply valid_object_shape in Hv as (tn & id & Hsh).
    destruct (obj_shape_facts _ _ _ Hsh) as (_ & Hsp & _). rewrite Hsp. cbn [fst snd].
    destruct (beqb id wildcard) eqn:Hw; [discriminate|].
    unfold type_of_name. destruct (nlookup (e_types e) tn) as [t|] eqn:Hl; [|discriminate].
    destruct (find_type m t) eqn:Hf; [|discriminate]. intros _.
    exists t, id. repeat split.
    + apply p_object_iff. exists tn. auto.
    + intro E. apply beqb_eq in E. congruence.
    + congruence.
  - intros (t & id & Hp & Hid & Hf). destruct (p_object_valid _ _ _ Hp) as (Hv & Hsp & Hl & _).
    rewrite Hv. cbn [negb]. rewrite Hsp. cbn [fst snd].
    destruct (beqb id wildcard) eqn:Hw; [apply beqb_eq in Hw; contradiction|].
    unfold type_of_name. rewrite Hl. destruct (find_type m t); [reflexivity|contradiction].
Qed.

Lemma known_rel_valid rn r : nlookup (e_rels e) rn = Some r ->
  is_valid_relation rn = true /\ rn <> [] /\ cleanb setid_chars rn = true.
Proof.
  intro Hl. destruct (names_ok_lookup _ _ _ _ wf_rels Hl) as [Hne Hcl]. repeat split.
  - apply is_valid_relation_iff. split; [exact Hne|].
    rewrite <- cleanb_clean. exact (cleanb_sub _ _ _ rel_sub_badrel Hcl).
  - exact Hne.
  - exact (cleanb_sub _ _ _ rel_sub_setid Hcl).
Qed.

(* ValidateRelation, the object being valid with a defined type *)
Lemma validate_relation_iff o rn t id :
  p_object e o = Some (t, id) -> find_type m t <> None ->
  (validate_relation e m o rn = None <->
   exists r, nlookup (e_rels e) rn = Some r /\ rel_defined m t r = true).
Proof.
  intros Hp Hf. destruct (p_object_valid _ _ _ Hp) as (_ & Hsp & Hl & _).
  unfold validate_relation, lookup_relation, type_of_name, get_type. rewrite Hl.
  destruct (find_type m t) eqn:Hft; [|contradiction]. unfold rel_defined. split.
  - destruct (is_valid_relation rn); cbn [negb]; [|discriminate].
    destruct (nlookup (e_rels e) rn) as [r|]; [|discriminate].
    destruct (Vocab.get_relation m t r) eqn:Hg; [|discriminate]. intros _.
    exists r. rewrite Hg. auto.
  - intros (r & Hr & Hd). destruct (known_rel_valid _ _ Hr) as (Hv & _). rewrite Hv, Hr. cbn [negb].
    destruct (Vocab.get_relation m t r); [reflexivity|discriminate].
Qed.

(* ---- users ---- *)

Definition subj_of_wuser (u : wuser) : subject :=
  match u with
  | WObj t _ => SObj {| otype := t; oid := 0 |}
  | WWild t => SWild t
  | WSet t _ r => SSet {| otype := t; oid := 0 |} r
  end.

Lemma set_shape_facts s tn id rn : set_shape s tn id rn ->
  cut c_hash s = Some (tn ++ c_colon :: id, rn) /\
  split_object_relation s = (tn ++ c_colon :: id, rn) /\
  obj_shape (tn ++ c_colon :: id) tn id /\ mem c_hash s = true.
Proof.
  intros (-> & Ht & Hid & Hr & Hct & Hcid & Hcr).
  assert (cleanb id_chars id = true) as Hcid' by exact (cleanb_sub _ _ _ setid_sub_id Hcid).
  assert (obj_shape (tn ++ c_colon :: id) tn id) as Hsh by (repeat split; assumption).
  destruct (obj_shape_facts _ _ _ Hsh) as (_ & _ & Hnh & _).
  assert (mem c_hash rn = false) as Hrh
    by (apply (cleanb_nomem setid_chars); [exact Hcr | exact in_setid_chars_hash | reflexivity]).
  split; [|split; [|split]].
  - apply cut_app. exact Hnh.
  - unfold split_object_relation. rewrite (cut_last_app _ _ _ Hrh). reflexivity.
  - exact Hsh.
  - rewrite mem_app. cbn [mem]. rewrite N.eqb_refl. cbn [orb]. apply orb_true_r.
Qed.

Lemma nohash_not_userset s : mem c_hash s = false -> is_valid_userset s = false.
Proof.
  intro H. destruct (is_valid_userset s) eqn:E; [|reflexivity].
  apply valid_userset_shape in E as (tn & id & rn & Hsh).
  destruct (set_shape_facts _ _ _ _ Hsh) as (_ & _ & _ & Hh). congruence.
Qed.

Lemma nohash_split s : mem c_hash s = false -> split_object_relation s = (s, []).
Proof.
  intro H. unfold split_object_relation. apply cut_last_none in H. rewrite H. reflexivity.
Qed.

Lemma hash_not_object s : mem c_hash s = true -> is_valid_object s = false.
Proof.
  intro H. destruct (is_valid_object s) eqn:E; [|reflexivity].
  apply valid_object_no_hash in E. congruence.
Qed.

(* p_user reads exactly the users ValidateUser lets through (names known) *)
Lemma p_user_obj s t id :
  p_object e s = Some (t, id) ->
  p_user e s = Some (if beqb id wildcard then WWild t else WObj t id).
Proof.
  intro Hp. destruct (p_object_valid _ _ _ Hp) as (_ & _ & _ & Hh).
  unfold p_user. apply cut_none in Hh. rewrite Hh, Hp. destruct (beqb id wildcard); reflexivity.
Qed.

Lemma p_user_set s tn id rn t r :
  set_shape s tn id rn -> nlookup (e_types e) tn = Some t -> nlookup (e_rels e) rn = Some r ->
  p_user e s = Some (WSet t id r).
Proof.
  intros Hsh Ht Hr. destruct (set_shape_facts _ _ _ _ Hsh) as (Hcut & _ & Hosh & _).
  unfold p_user. rewrite Hcut.
  assert (p_object e (tn ++ c_colon :: id) = Some (t, id)) as Hp
    by (apply p_object_iff; exists tn; auto).
  rewrite Hp, Hr. destruct Hsh as (_ & _ & _ & _ & _ & Hcid & _). rewrite Hcid. reflexivity.
Qed.

Lemma p_user_inv s u : p_user e s = Some u ->
  (exists t id, p_object e s = Some (t, id) /\ u = (if beqb id wildcard then WWild t else WObj t id)) \/
  (exists tn id rn t r, set_shape s tn id rn /\ nlookup (e_types e) tn = Some t /\
                        nlookup (e_rels e) rn = Some r /\ u = WSet t id r).
Proof.
  unfold p_user. destruct (cut c_hash s) as [[o rn]|] eqn:Hcut.
  - destruct (p_object e o) as [[t id]|] eqn:Hp; [|discriminate].
    destruct (nlookup (e_rels e) rn) as [r|] eqn:Hr; [|discriminate].
    destruct (cleanb setid_chars id) eqn:Hcid; [|discriminate].
    intro H. inversion H; subst. right.
    apply p_object_iff in Hp as (tn & Hsh & Ht).
    destruct (known_rel_valid _ _ Hr) as (_ & Hne & Hcr).
    exists tn, id, rn, t, r. repeat split; try assumption.
    + apply cut_some in Hcut as [-> _]. destruct Hsh as (-> & _). reflexivity.
    + destruct Hsh as (_ & H1 & _). exact H1.
    + destruct Hsh as (_ & _ & H1 & _). exact H1.
    + destruct Hsh as (_ & _ & _ & H1 & _). exact H1.
  - destruct (p_object e s) as [[t id]|] eqn:Hp; [|discriminate].
    intro H. left. exists t, id. split; [reflexivity|].
    destruct (beqb id wildcard); inversion H; reflexivity.
Qed.

(* the subject the code derives from a user string that [p_user] reads *)
Lemma subject_of_p_user s u : p_user e s = Some u -> subject_of_user e s = subj_of_wuser u.
Proof.
  intro H. apply p_user_inv in H as [(t & id & Hp & ->)|(tn & id & rn & t & r & Hsh & Ht & Hr & ->)].
  - destruct (p_object_valid _ _ _ Hp) as (_ & Hsp & Hl & Hh).
    unfold subject_of_user. rewrite (nohash_not_userset _ Hh), (nohash_split _ Hh). cbn [fst snd].
    unfold get_type, nget. rewrite Hl. unfold is_typed_wildcard. rewrite Hsp.
    apply p_object_iff in Hp as (tn & Hsh & _).
    destruct (obj_shape_facts _ _ _ Hsh) as (_ & Hsp' & _). rewrite Hsp'. cbn [fst].
    destruct Hsh as (_ & Htn & _). destruct tn as [|c tn]; [contradiction|].
    cbn [beqb negb andb]. destruct (beqb id wildcard); reflexivity.
  - destruct (set_shape_facts _ _ _ _ Hsh) as (_ & Hsor & Hosh & _).
    destruct (obj_shape_facts _ _ _ Hosh) as (_ & Hsp & _).
    unfold subject_of_user.
    assert (is_valid_userset s = true) as Hv by (apply valid_userset_shape; exists tn, id, rn; exact Hsh).
    rewrite Hv, Hsor. cbn [fst snd]. unfold get_type, nget. rewrite Hsp. cbn [fst]. rewrite Ht, Hr.
    reflexivity.
Qed.

(* ValidateUser *)
Lemma validate_user_iff u :
  validate_user e m u = None <->
  exists wu, p_user e u = Some wu /\ find_type m (wuser_type wu) <> None /\
             (forall t id r, wu = WSet t id r -> rel_defined m t r = true).
Proof.
  unfold validate_user. split.
  - destruct (is_valid_user u) eqn:Hvu; cbn [negb]; [|discriminate].
    destruct (is_valid_object u) eqn:Hvo.
    + (* object or typed wildcard *)
      cbn [negb andb].
      assert (Hh := valid_object_no_hash _ Hvo).
      rewrite (nohash_not_userset _ Hh), (nohash_split _ Hh). cbn [fst snd].
      apply valid_object_shape in Hvo as (tn & id & Hsh).
      destruct (obj_shape_facts _ _ _ Hsh) as (_ & Hsp & _). unfold get_type. rewrite Hsp. cbn [fst].
      unfold type_of_name. destruct (nlookup (e_types e) tn) as [t|] eqn:Hl; [|discriminate].
      destruct (find_type m t) eqn:Hf; [|discriminate]. intros _.
      assert (p_object e u = Some (t, id)) as Hp by (apply p_object_iff; exists tn; auto).
      exists (if beqb id wildcard then WWild t else WObj t id). split; [apply p_user_obj; exact Hp|].
      split.
      * destruct (beqb id wildcard); cbn [wuser_type]; congruence.
      * intros t' id' r' E. destruct (beqb id wildcard); discriminate.
    + destruct (is_valid_userset u) eqn:Hvs; cbn [negb andb]; [|discriminate].
      apply valid_userset_shape in Hvs as (tn & id & rn & Hsh).
      destruct (set_shape_facts _ _ _ _ Hsh) as (_ & Hsor & Hosh & _).
      destruct (obj_shape_facts _ _ _ Hosh) as (_ & Hsp & _).
      rewrite Hsor. cbn [fst snd]. unfold get_type. rewrite Hsp. cbn [fst].
      unfold lookup_relation.
      destruct (type_of_name e m tn) as [t|] eqn:Ht; [|discriminate].
      destruct (nlookup (e_rels e) rn) as [r|] eqn:Hr; [|discriminate].
      destruct (Vocab.get_relation m t r) eqn:Hg; [|discriminate]. intros _.
      unfold type_of_name in Ht. destruct (nlookup (e_types e) tn) as [t'|] eqn:Hl; [|discriminate].
      destruct (find_type m t') eqn:Hf; [|discriminate]. inversion Ht; subst t'.
      exists (WSet t id r). split; [exact (p_user_set _ _ _ _ _ _ Hsh Hl Hr)|]. split.
      * cbn [wuser_type]. congruence.
      * intros t' id' r' E. inversion E; subst. unfold rel_defined. rewrite Hg. reflexivity.
  - intros (wu & Hp & Hf & Hrel).
    apply p_user_inv in Hp as [(t & id & Hp & ->)|(tn & id & rn & t & r & Hsh & Ht & Hr & ->)].
    + destruct (p_object_valid _ _ _ Hp) as (Hvo & Hsp & Hl & Hh).
      unfold is_valid_user. rewrite Hvo. rewrite !orb_true_r. cbn [negb andb].
      rewrite (nohash_split _ Hh). cbn [fst snd]. unfold get_type, type_of_name. rewrite Hl.
      rewrite (nohash_not_userset _ Hh).
      assert (find_type m t <> None) as Hf' by (destruct (beqb id wildcard); exact Hf).
      destruct (find_type m t); [reflexivity|contradiction].
    + assert (is_valid_userset u = true) as Hvs by (apply valid_userset_shape; exists tn, id, rn; exact Hsh).
      destruct (set_shape_facts _ _ _ _ Hsh) as (_ & Hsor & Hosh & Hh).
      destruct (obj_shape_facts _ _ _ Hosh) as (_ & Hsp & _).
      unfold is_valid_user. rewrite Hvs, (hash_not_object _ Hh). rewrite !orb_true_r. cbn [negb andb].
      rewrite Hsor. cbn [fst snd]. unfold get_type. rewrite Hsp. cbn [fst].
      unfold lookup_relation, type_of_name. rewrite Ht. cbn [wuser_type] in Hf.
      destruct (find_type m t); [|contradiction]. rewrite Hr.
      specialize (Hrel t id r eq_refl). unfold rel_defined in Hrel.
      destruct (Vocab.get_relation m t r); [reflexivity|discriminate].
Qed.

(* validateNotImplicit = "the user is the tuple's own object#relation" *)
Lemma implicit_self w t :
  parse e w = Some t -> implicit w = self_pointing t.
Proof.
  unfold parse. destruct (p_object e (rt_obj w)) as [[ot oid]|] eqn:Hpo; [|discriminate].
  destruct (nlookup (e_rels e) (rt_rel w)) as [r|] eqn:Hr; [|discriminate].
  destruct (p_user e (rt_user w)) as [u|] eqn:Hpu; [|discriminate].
  destruct (p_cond e (rt_cond w)) as [c|]; [|discriminate].
  destruct (beqb oid wildcard); [discriminate|]. intro H. inversion H; subst t. clear H.
  unfold implicit, self_pointing. cbn [w_user w_ot w_oid w_rel].
  destruct (known_rel_valid _ _ Hr) as (_ & Hrne & _).
  apply p_user_inv in Hpu as [(t & id & Hp & ->)|(tn & id & rn & t & r' & Hsh & Ht & Hr' & ->)].
  - destruct (p_object_valid _ _ _ Hp) as (_ & _ & _ & Hh). rewrite (nohash_split _ Hh). cbn [fst snd].
    assert (beqb (rt_rel w) [] = false) as E.
    { destruct (beqb (rt_rel w) []) eqn:E; [apply beqb_eq in E; contradiction|reflexivity]. }
    rewrite E. cbn [andb]. destruct (beqb id wildcard); reflexivity.
  - destruct (set_shape_facts _ _ _ _ Hsh) as (_ & Hsor & Hosh & _). rewrite Hsor. cbn [fst snd].
    apply p_object_iff in Hpo as (otn & Hosh' & Hot).
    destruct (obj_shape_facts _ _ _ Hosh) as (Hcut1 & _).
    destruct (obj_shape_facts _ _ _ Hosh') as (Hcut2 & _).
    destruct (beqb (rt_rel w) rn) eqn:E1.
    + apply beqb_eq in E1. subst rn. rewrite Hr in Hr'. inversion Hr'; subst r'. rewrite N.eqb_refl.
      destruct (beqb (rt_obj w) (tn ++ c_colon :: id)) eqn:E2.
      * apply beqb_eq in E2. rewrite E2 in Hcut2. rewrite Hcut1 in Hcut2. inversion Hcut2; subst.
        rewrite Hot in Ht. inversion Ht; subst. rewrite N.eqb_refl, beqb_refl. reflexivity.
      * destruct (N.eqb t ot) eqn:E3; [|reflexivity]. destruct (beqb id oid) eqn:E4; [|reflexivity].
        apply N.eqb_eq in E3. apply beqb_eq in E4. subst.
        assert (tn = otn) by (apply (nlookup_inj _ _ _ _ wf_types_inj Ht Hot)). subst.
        destruct Hosh' as (E & _). rewrite E, beqb_refl in E2. discriminate.
    + cbn [andb]. destruct (N.eqb r' r) eqn:E3; [|rewrite andb_false_r; reflexivity].
      apply N.eqb_eq in E3. subst.
      assert (rn = rt_rel w) by (apply (nlookup_inj _ _ _ _ wf_rels_inj Hr' Hr)). subst.
      rewrite beqb_refl in E1. discriminate.
Qed.

End Strings.
