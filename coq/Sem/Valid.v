(* Read-time tuple validity, transcribed from internal/validation/validation.go
   (ValidateTupleForRead = validateTuplesetRestrictions + validateTypeRestrictions +
   validateCondition, AS CODED: e.g. a conditioned tuple is accepted when ANY restriction of the
   same user type carries that condition).  The stored context is assumed well-typed for its
   condition (generator invariant; C18/C25 cover context typing). *)
From OFGA Require Export Sem.Vocab.
Open Scope N_scope.

Definition kind_eqb (a b : rkind) : bool :=
  match a, b with
  | RObj, RObj | RWild, RWild => true
  | RSet r, RSet s => N.eqb r s
  | _, _ => false
  end.

Definition subject_kind (s : subject) : rkind :=
  match s with SObj _ => RObj | SWild _ => RWild | SSet _ r => RSet r end.

(* validateTypeRestrictions *)
Definition type_restr_ok (rs : list restriction) (s : subject) : bool :=
  existsb (fun d => N.eqb (r_type d) (subject_type s) && kind_eqb (r_kind d) (subject_kind s)) rs.

(* validateCondition, unconditioned tuple *)
Definition nocond_ok (rs : list restriction) (s : subject) : bool :=
  existsb (fun d =>
    N.eqb (r_cond d) 0 && N.eqb (r_type d) (subject_type s) &&
    match r_kind d with
    | RSet r => match s with SSet _ r' => N.eqb r r' | _ => false end
    | RWild => match s with SWild _ => true | _ => false end
    | RObj => match s with SWild _ => false | _ => true end
    end) rs.

(* validateCondition, conditioned tuple *)
Definition cond_ok (conds : list cid) (rs : list restriction) (s : subject) (c : cid) : bool :=
  existsb (N.eqb c) conds &&
  existsb (fun d => N.eqb (r_type d) (subject_type s) && N.eqb (r_cond d) c) rs.

Definition is_this (rw : rewrite) : bool := match rw with This => true | _ => false end.

Definition valid_for_read (m : model) (conds : list cid) (t : tuple) : bool :=
  let ot := otype (t_obj t) in
  match get_relation m ot (t_rel t) with
  | None => false
  | Some rd =>
      (if is_tupleset m ot (t_rel t)
       then is_this (rd_rw rd) && match t_sub t with SObj _ => true | _ => false end
       else true) &&
      type_restr_ok (rd_restr rd) (t_sub t) &&
      (if N.eqb (t_cond t) 0 then nocond_ok (rd_restr rd) (t_sub t)
       else cond_ok conds (rd_restr rd) (t_sub t) (t_cond t))
  end.
