(* Executable model of condition evaluation (C25):
     internal/condition/eval/eval.go      EvaluateTupleCondition
     internal/condition/condition.go      EvaluableCondition.{Compile,CastContextToTypedParameters,Evaluate}
     internal/condition/types/*.go        the converters per declared parameter type
   and of the FRAGMENT of CEL (cel-go v0.29) that the property is proved on:
     parameter types  bool, string, int, uint, double, list<scalar>, map<scalar>
     expressions      literals, parameter references, == != < <= > >= on equal scalar types,
                      && || !, `in` (list literal / list parameter / map parameter), map["key"].
   Definitions only; proofs are in CondProofs.v.

   Numbers.  A float64 / big.Float value is a dyadic rational m * 2^e (fnum / bigf).  A decimal
   string is read as math/big.Float.Parse(base 10, prec 64, ToNearestEven) reads it: the syntax
   (scan_number) yields (+-) mant * 2^e2 * 5^e5 with the mantissa digits as an exact integer, and
   the value is that fraction correctly rounded once to 64 bits (round_frac; the power of five is
   exact up to the table size 5^27 and pow5's 128/192-bit approximation beyond, coded_parts).
   The property's reading (spec_convert) uses the same syntax and the exact fraction. *)
From OFGA Require Export Base.Bytes.
From Coq Require Export ZArith.
Open Scope Z_scope.

(* ------------------------------------------------------------------------------------------ *)
(* Types and values                                                                            *)

Inductive ptype :=
| TBool | TString | TInt | TUint | TDouble
| TList (t : ptype) | TMap (t : ptype)
| TTimestamp | TDuration | TIpaddr | TAny
| TBad.                      (* a type reference DecodeParameterType rejects *)

(* float64 as delivered by structpb: m * 2^e, or NaN / +-Inf *)
Inductive fnum := FNaN | FInf (neg : bool) | FFin (m e : Z).

(* google.protobuf.Value *)
Inductive jval :=
| JNull | JBool (b : bool) | JNum (f : fnum) | JStr (s : bytes)
| JList (l : list jval) | JMap (l : list (bytes * jval)).

(* typed parameter values handed to CEL *)
Inductive cval :=
| VBool (b : bool) | VStr (s : bytes) | VInt (z : Z) | VUint (z : Z) | VDouble (f : fnum)
| VList (l : list cval) | VMap (l : list (bytes * cval))
| VOpaque | VAny.

Definition ctx := list (bytes * jval).

Fixpoint lookup {A : Type} (k : bytes) (m : list (bytes * A)) : option A :=
  match m with
  | [] => None
  | (k', v) :: m' => if beqb k k' then Some v else lookup k m'
  end.

Definition has_key {A : Type} (k : bytes) (m : list (bytes * A)) : bool :=
  match lookup k m with Some _ => true | None => false end.

Fixpoint remove_key {A : Type} (k : bytes) (m : list (bytes * A)) : list (bytes * A) :=
  match m with
  | [] => []
  | (k', v) :: m' => if beqb k k' then remove_key k m' else (k', v) :: remove_key k m'
  end.

(* m[k] = v on a Go map *)
Definition set_key {A : Type} (k : bytes) (v : A) (m : list (bytes * A)) : list (bytes * A) :=
  (k, v) :: remove_key k m.

(* Evaluate: clone(contextMaps[0]) then maps.Copy(clone, later) : the later map overwrites.
   EvaluateTupleCondition passes [request context, tuple context].  (A context is a map: its keys
   are distinct; on an association list with a repeated key the first binding is the one that
   [lookup] sees, and the fold keeps exactly that one.) *)
Definition merge (req stored : ctx) : ctx :=
  fold_right (fun kv m => set_key (fst kv) (snd kv) m) req stored.

(* ------------------------------------------------------------------------------------------ *)
(* structpb.Value.AsInterface: NaN and infinities become strings                               *)

Definition s_NaN : bytes := [78; 97; 78]%N.
Definition s_Infinity : bytes := [73; 110; 102; 105; 110; 105; 116; 121]%N.
Definition s_mInfinity : bytes := (45 :: s_Infinity)%N.

Fixpoint as_interface (v : jval) : jval :=
  match v with
  | JNum FNaN => JStr s_NaN
  | JNum (FInf false) => JStr s_Infinity
  | JNum (FInf true) => JStr s_mInfinity
  | JList l => JList (map as_interface l)
  | JMap l => JMap (map (fun kv => match kv with (k, x) => (k, as_interface x) end) l)
  | _ => v
  end.

(* ------------------------------------------------------------------------------------------ *)
(* Dyadic arithmetic                                                                           *)

Definition max_int64 : Z := 9223372036854775807.
Definition min_int64 : Z := -9223372036854775808.
Definition max_uint64 : Z := 18446744073709551615.

(* big.Float.IsInt / Int64 on m * 2^e *)
Definition is_int (m e : Z) : bool := if 0 <=? e then true else (m mod 2 ^ (- e) =? 0).
Definition int_val (m e : Z) : Z := if 0 <=? e then m * 2 ^ e else m / 2 ^ (- e).

(* big.Float.Int64 / Uint64 of an integer: the accuracy is Exact iff the value is in the range
   (otherwise the clamped bound is returned with Above / Below) *)
Definition z_in_range (lo hi z : Z) : bool := (lo <=? z) && (z <=? hi).

(* big.Float value *)
Inductive bigf := BInf (neg : bool) | BFin (m e : Z).

(* Correct rounding (to nearest, ties to even) of the positive rational n/d to prec bits:
   (m, e, exact) with m * 2^e the rounded value. *)
Definition round_frac (prec n d : Z) : Z * Z * bool :=
  let k := Z.log2 n - Z.log2 d in
  let s := prec + 2 - k in
  let num := if 0 <=? s then n * 2 ^ s else n in
  let den := if 0 <=? s then d else d * 2 ^ (- s) in
  let q := num / den in
  let sticky := negb (num mod den =? 0) in
  let dd := Z.log2 q + 1 - prec in
  if dd <=? 0 then (q, - s, negb sticky)
  else
    let hi := q / 2 ^ dd in
    let lo := q mod 2 ^ dd in
    let half := 2 ^ (dd - 1) in
    let up := (half <? lo) || ((lo =? half) && (sticky || Z.odd hi)) in
    ((if up then hi + 1 else hi), dd - s, (lo =? 0) && negb sticky).

(* Float.pow5: the table up to 5^27 is exact; above, z (128 bits) and f (192 bits) are rounded
   after every multiplication.  Values are pairs (m, e) = m * 2^e. *)
Definition mul_round (prec : Z) (a b : Z * Z) : Z * Z :=
  let '(m, e, _) := round_frac prec (fst a * fst b) 1 in (m, e + snd a + snd b).

Fixpoint pow5_loop (n : positive) (z f : Z * Z) : Z * Z :=
  match n with
  | xH => mul_round 128 z f
  | xO n' => pow5_loop n' z (mul_round 192 f f)
  | xI n' => pow5_loop n' (mul_round 128 z f) (mul_round 192 f f)
  end.

Definition pow5 (n : Z) : Z * Z :=
  if n <=? 27 then (5 ^ n, 0)
  else match n - 27 with
       | Zpos p => pow5_loop p (5 ^ 27, 0) (5, 0)
       | _ => (5 ^ n, 0)
       end.

(* mant * 2^e2 * 5^e5 as a fraction (numerator, denominator) *)
Definition exact_parts (mant e2 e5 : Z) : Z * Z :=
  (mant * 2 ^ Z.max e2 0 * 5 ^ Z.max e5 0, 2 ^ Z.max (- e2) 0 * 5 ^ Z.max (- e5) 0).

(* the fraction that Float.scan rounds: the power of five is exact up to the table size, and
   pow5's approximation beyond; the flag says which *)
Definition coded_parts (mant e2 e5 : Z) : Z * Z * bool :=
  if Z.abs e5 <=? 27 then (exact_parts mant e2 e5, true)
  else
    let '(pm, pe) := pow5 (Z.abs e5) in
    if 0 <? e5 then (mant * pm * 2 ^ Z.max (e2 + pe) 0, 2 ^ Z.max (- (e2 + pe)) 0, false)
    else (mant * 2 ^ Z.max (e2 - pe) 0, pm * 2 ^ Z.max (pe - e2) 0, false).

(* ------------------------------------------------------------------------------------------ *)
(* big.ParseFloat(s, 10, 64, ToNearestEven)                                                    *)

Definition is_digit (c : N) : bool := ((48 <=? c) && (c <=? 57))%N.
Definition digit_val (c : N) : Z := Z.of_N c - 48.

(* nat.scan, base 10, fracOk: digits with at most one '.', stops at the first other byte *)
Fixpoint scan_mant (s : bytes) (frac_ok : bool) (acc count : Z) (dp : option Z)
  : Z * Z * option Z * bytes :=
  match s with
  | [] => (acc, count, dp, [])
  | c :: s' =>
      if (c =? 46)%N && frac_ok then scan_mant s' false acc count (Some count)
      else if is_digit c then scan_mant s' frac_ok (acc * 10 + digit_val c) (count + 1) dp
      else (acc, count, dp, s)
  end.

Fixpoint scan_digits (s : bytes) (acc count : Z) : Z * Z * bytes :=
  match s with
  | [] => (acc, count, [])
  | c :: s' => if is_digit c then scan_digits s' (acc * 10 + digit_val c) (count + 1)
               else (acc, count, s)
  end.

(* scanExponent(base2ok = true, sepOk = false): (exponent, binary?, rest) or no digits *)
Definition scan_exp (s : bytes) : option (Z * bool * bytes) :=
  match s with
  | [] => Some (0, false, [])
  | c :: s' =>
      let is_e := ((c =? 101) || (c =? 69))%N in
      let is_p := ((c =? 112) || (c =? 80))%N in
      if is_e || is_p then
        let '(neg, s2) := match s' with
                          | c2 :: r => if (c2 =? 43)%N then (false, r)
                                       else if (c2 =? 45)%N then (true, r) else (false, s')
                          | [] => (false, s')
                          end in
        let '(v, n, rest) := scan_digits s2 0 0 in
        if n =? 0 then None else Some ((if neg then - v else v), is_p, rest)
      else Some (0, false, s)
  end.

Definition s_Inf : bytes := [73; 110; 102]%N.
Definition s_inf : bytes := [105; 110; 102]%N.

(* the syntax of Float.Parse: what the string denotes, before any rounding *)
Inductive scanres :=
| ScErr                               (* not a number: ParseFloat returns an error *)
| ScOut                               (* outside the modelled range (|exponent| > 400 or > 80 digits) *)
| ScInf (neg : bool)
| ScNum (neg : bool) (mant e2 e5 : Z). (* (+-) mant * 2^e2 * 5^e5, mant >= 0 *)

Definition scan_number (s : bytes) : scanres :=
  if beqb s s_Inf || beqb s s_inf then ScInf false
  else match s with
  | [] => ScErr
  | c :: s' =>
      if ((c =? 43) || (c =? 45))%N && (beqb s' s_Inf || beqb s' s_inf) then ScInf (c =? 45)%N
      else
        let '(neg, s1) := if (c =? 45)%N then (true, s') else if (c =? 43)%N then (false, s') else (false, s) in
        let '(mant, count, dp, rest) := scan_mant s1 true 0 0 None in
        if count =? 0 then ScErr else
        match scan_exp rest with
        | None => ScErr
        | Some (ex, b2, rest') =>
            match rest' with
            | _ :: _ => ScErr
            | [] =>
                if (80 <? count) || (400 <? Z.abs ex) then ScOut
                else
                  let fc := match dp with Some p => p - count | None => 0 end in
                  ScNum neg mant (fc + ex) (if b2 then fc else fc + ex)
            end
        end
  end.

Inductive pres :=
| PErr
| POut
| POk (b : bigf) (exact : bool).     (* the big.Float, and whether it is the exact value *)

Definition parse_bigf (s : bytes) : pres :=
  match scan_number s with
  | ScErr => PErr
  | ScOut => POut
  | ScInf n => POk (BInf n) true
  | ScNum neg mant e2 e5 =>
      if mant =? 0 then POk (BFin 0 0) true
      else
        let '(n, d, px) := coded_parts mant e2 e5 in
        let '(m, e, x) := round_frac 64 n d in
        POk (BFin (if neg then - m else m) e) (x && px)
  end.

(* ------------------------------------------------------------------------------------------ *)
(* float64 representability (big.Float.Float64 returns Exact)                                  *)

Fixpoint ptz (p : positive) : Z := match p with xO p' => 1 + ptz p' | _ => 0 end.
Definition tz (m : Z) : Z := match m with Z0 => 0 | Zpos p => ptz p | Zneg p => ptz p end.

(* canonical form: odd mantissa (or 0 * 2^0) *)
Definition fcanon (m e : Z) : Z * Z :=
  if m =? 0 then (0, 0) else (m / 2 ^ tz m, e + tz m).

Definition f64_exact (m e : Z) : bool :=
  let '(m', e') := fcanon m e in
  if m' =? 0 then true
  else let bits := Z.log2 (Z.abs m') + 1 in
       (-1074 <=? e') && (bits <=? 53) && (e' + bits <=? 1024).

(* numeric comparison of m1*2^e1 and m2*2^e2 *)
Definition dy_compare (m1 e1 m2 e2 : Z) : comparison :=
  let e := Z.min e1 e2 in Z.compare (m1 * 2 ^ (e1 - e)) (m2 * 2 ^ (e2 - e)).

Definition fcompare (a b : fnum) : option comparison :=
  match a, b with
  | FNaN, _ | _, FNaN => None
  | FInf na, FInf nb => Some (if Bool.eqb na nb then Eq else if na then Lt else Gt)
  | FInf na, FFin _ _ => Some (if na then Lt else Gt)
  | FFin _ _, FInf nb => Some (if nb then Gt else Lt)
  | FFin m1 e1, FFin m2 e2 => Some (dy_compare m1 e1 m2 e2)
  end.

(* ------------------------------------------------------------------------------------------ *)
(* The converters of internal/condition/types                                                  *)

Inductive cres :=
| COk (v : cval)
| CErr                        (* the converter returns an error *)
| CPanic                      (* big.NewFloat(NaN) *)
| COut.                       (* string outside the modelled range *)

(* int64:  !IsInt() => error ; numericValue, accuracy := Int64() ; accuracy != Exact => error
   (as repaired by fd0d452; before, the accuracy was dropped and the clamped bound returned) *)
Definition conv_int_bigf (b : bigf) : cres :=
  match b with
  | BInf _ => CErr
  | BFin m e =>
      if is_int m e then
        let z := int_val m e in if z_in_range min_int64 max_int64 z then COk (VInt z) else CErr
      else CErr
  end.

(* uint64: !IsInt() => error ; Sign() < 0 => error ; Uint64() accuracy != Exact => error *)
Definition conv_uint_bigf (b : bigf) : cres :=
  match b with
  | BInf _ => CErr
  | BFin m e =>
      if is_int m e then
        if m <? 0 then CErr
        else let z := int_val m e in if z_in_range 0 max_uint64 z then COk (VUint z) else CErr
      else CErr
  end.

Definition conv_double_bigf (b : bigf) : cres :=
  match b with
  | BInf n => COk (VDouble (FInf n))
  | BFin m e => if f64_exact m e then COk (VDouble (FFin m e)) else CErr
  end.

(* numericTypeConverterFunc[T]: float64 -> big.NewFloat ; string -> big.ParseFloat ; else error.
   (value.(T) succeeds only for T = float64: structpb never yields int64/uint64.) *)
Definition conv_numeric (k : bigf -> cres) (v : jval) : cres :=
  match v with
  | JNum FNaN => CPanic
  | JNum (FInf n) => k (BInf n)
  | JNum (FFin m e) => k (BFin m e)
  | JStr s => match parse_bigf s with PErr => CErr | POut => COut | POk b _ => k b end
  | _ => CErr
  end.

Definition conv_double (v : jval) : cres :=
  match v with
  | JNum f => COk (VDouble f)
  | _ => conv_numeric conv_double_bigf v
  end.

Fixpoint conv_all (f : jval -> cres) (l : list jval) : cres :=
  match l with
  | [] => COk (VList [])
  | x :: r =>
      match f x with
      | COk cx => match conv_all f r with
                  | COk (VList cr) => COk (VList (cx :: cr))
                  | COk _ => CErr
                  | other => other
                  end
      | other => other
      end
  end.

Fixpoint conv_all_kv (f : jval -> cres) (l : list (bytes * jval)) : cres :=
  match l with
  | [] => COk (VMap [])
  | (k, x) :: r =>
      match f x with
      | COk cx => match conv_all_kv f r with
                  | COk (VMap cr) => COk (VMap ((k, cx) :: cr))
                  | COk _ => CErr
                  | other => other
                  end
      | other => other
      end
  end.

Section Ext.
(* time.Parse(RFC3339) / time.ParseDuration / netip.ParseAddr accept the string (0 / 1 / 2) *)
Variable ext : N -> bytes -> bool.

Definition conv_ext (k : N) (v : jval) : cres :=
  match v with JStr s => if ext k s then COk VOpaque else CErr | _ => CErr end.

Fixpoint convert (t : ptype) (v : jval) : cres :=
  match t with
  | TBool => match v with JBool b => COk (VBool b) | _ => CErr end
  | TString => match v with JStr s => COk (VStr s) | _ => CErr end
  | TInt => conv_numeric conv_int_bigf v
  | TUint => conv_numeric conv_uint_bigf v
  | TDouble => conv_double v
  | TList t' => match v with JList l => conv_all (convert t') l | _ => CErr end
  | TMap t' => match v with JMap l => conv_all_kv (convert t') l | _ => CErr end
  | TTimestamp => conv_ext 0%N v
  | TDuration => conv_ext 1%N v
  | TIpaddr => conv_ext 2%N v
  | TAny => COk VAny
  | TBad => CErr
  end.

(* --- what the property asks for: the exact value or an error ------------------------------ *)

(* exact value of a scanned decimal string as a fraction num/den, den > 0 *)
Inductive sres := SErr | SOut | SInf (neg : bool) | SFrac (num den : Z).

Definition scan_exact (s : bytes) : sres :=
  match scan_number s with
  | ScErr => SErr
  | ScOut => SOut
  | ScInf n => SInf n
  | ScNum neg mant e2 e5 =>
      let '(n, d) := exact_parts mant e2 e5 in SFrac (if neg then - n else n) d
  end.

(* the exact numeric value of a context value, as a fraction *)
Definition dy_frac (m e : Z) : Z * Z := (m * 2 ^ Z.max e 0, 2 ^ Z.max (- e) 0).

Definition exact_frac (v : jval) : sres :=
  match v with
  | JNum (FFin m e) => let '(n, d) := dy_frac m e in SFrac n d
  | JNum (FInf n) => SInf n
  | JStr s => scan_exact s
  | _ => SErr
  end.

Definition spec_int (lo hi : Z) (mk : Z -> cval) (v : jval) : cres :=
  match exact_frac v with
  | SFrac n d => if n mod d =? 0 then
                   let z := n / d in if (lo <=? z) && (z <=? hi) then COk (mk z) else CErr
                 else CErr
  | SOut => COut
  | _ => CErr
  end.

Fixpoint spec_convert (t : ptype) (v : jval) : cres :=
  match t with
  | TInt => match v with JNum FNaN => CPanic | _ => spec_int min_int64 max_int64 VInt v end
  | TUint => match v with JNum FNaN => CPanic | _ => spec_int 0 max_uint64 VUint v end
  | TList t' => match v with JList l => conv_all (spec_convert t') l | _ => CErr end
  | TMap t' => match v with JMap l => conv_all_kv (spec_convert t') l | _ => CErr end
  | _ => convert t v
  end.

(* --- finding triggers, computed by the model ---------------------------------------------- *)

(* the decimal string is not exactly representable in the 64 bits ParseFloat keeps *)
Definition num_inexact (v : jval) : bool :=
  match v with
  | JStr s => match parse_bigf s with POk _ x => negb x | _ => false end
  | _ => false
  end.

(* the decimal string was rounded to 64 bits and then passed IsInt *)
Definition num_rounded (v : jval) : bool :=
  match v with
  | JStr s => match parse_bigf s with
              | POk (BFin m e) x => negb x && is_int m e
              | _ => false
              end
  | _ => false
  end.

Fixpoint conv_flag (fl : jval -> bool) (t : ptype) (v : jval) : bool :=
  match t with
  | TInt | TUint => fl v
  | TList t' => match v with JList l => existsb (conv_flag fl t') l | _ => false end
  | TMap t' => match v with JMap l => existsb (fun kv => conv_flag fl t' (snd kv)) l | _ => false end
  | _ => false
  end.

End Ext.

(* ------------------------------------------------------------------------------------------ *)
(* The CEL fragment                                                                            *)

Inductive cmpop := OEq | ONe | OLt | OLe | OGt | OGe.

Inductive expr :=
| EBool (b : bool) | EStr (s : bytes) | EInt (z : Z) | EUint (z : Z) | EDouble (f : fnum)
| EParam (n : bytes)
| ECmp (op : cmpop) (a b : expr)
| EAnd (a b : expr) | EOr (a b : expr) | ENot (a : expr)
| EIn (a b : expr)
| EListLit (l : list cval)          (* non-empty list of scalar literals of one type *)
| EIdx (m k : expr).

(* outcome of evaluating a sub-expression: value, unknown (a declared parameter is absent,
   cel.OptPartialEval), or runtime error *)
Inductive vres := ROk (v : cval) | RUnk | RErr.

(* four-valued logic of evalAnd / evalOr *)
Inductive b4 := B4T | B4F | B4U | B4E.

Definition to_b4 (r : vres) : b4 :=
  match r with
  | ROk (VBool true) => B4T
  | ROk (VBool false) => B4F
  | ROk _ => B4E                    (* MaybeNoSuchOverloadErr *)
  | RUnk => B4U
  | RErr => B4E
  end.

Definition of_b4 (b : b4) : vres :=
  match b with B4T => ROk (VBool true) | B4F => ROk (VBool false) | B4U => RUnk | B4E => RErr end.

(* evalAnd: any false => false; else any unknown => unknown; else any error => error; else true *)
Definition and4 (a b : b4) : b4 :=
  match a, b with
  | B4F, _ | _, B4F => B4F
  | B4U, _ | _, B4U => B4U
  | B4E, _ | _, B4E => B4E
  | B4T, B4T => B4T
  end.

Definition or4 (a b : b4) : b4 :=
  match a, b with
  | B4T, _ | _, B4T => B4T
  | B4U, _ | _, B4U => B4U
  | B4E, _ | _, B4E => B4E
  | B4F, B4F => B4F
  end.

Definition not4 (a : b4) : b4 :=
  match a with B4T => B4F | B4F => B4T | B4U => B4U | B4E => B4E end.

Fixpoint bcompare (a b : bytes) : comparison :=
  match a, b with
  | [], [] => Eq
  | [], _ :: _ => Lt
  | _ :: _, [] => Gt
  | x :: a', y :: b' => match N.compare x y with Eq => bcompare a' b' | c => c end
  end.

Definition cmp_holds (op : cmpop) (c : comparison) : bool :=
  match op, c with
  | OEq, Eq => true | OEq, _ => false
  | ONe, Eq => false | ONe, _ => true
  | OLt, Lt => true | OLt, _ => false
  | OLe, Gt => false | OLe, _ => true
  | OGt, Gt => true | OGt, _ => false
  | OGe, Lt => false | OGe, _ => true
  end.

Definition bool_compare (a b : bool) : comparison :=
  match a, b with false, true => Lt | true, false => Gt | _, _ => Eq end.

(* comparison of two scalar values of the same type; None = incomparable kinds *)
Definition scalar_compare (x y : cval) : option (option comparison) :=
  match x, y with
  | VBool a, VBool b => Some (Some (bool_compare a b))
  | VStr a, VStr b => Some (Some (bcompare a b))
  | VInt a, VInt b => Some (Some (Z.compare a b))
  | VUint a, VUint b => Some (Some (Z.compare a b))
  | VDouble a, VDouble b => Some (fcompare a b)
  | _, _ => None
  end.

Definition cmp_vals (op : cmpop) (x y : cval) : vres :=
  match scalar_compare x y with
  | Some (Some c) => ROk (VBool (cmp_holds op c))
  | Some None =>                        (* NaN *)
      match op with OEq => ROk (VBool false) | ONe => ROk (VBool true) | _ => RErr end
  | None =>
      match op with OEq => ROk (VBool false) | ONe => ROk (VBool true) | _ => RErr end
  end.

Definition veq (x y : cval) : bool :=
  match scalar_compare x y with Some (Some Eq) => true | _ => false end.

Definition in_val (x y : cval) : vres :=
  match y with
  | VList l => ROk (VBool (existsb (veq x) l))
  | VMap l => match x with VStr k => ROk (VBool (has_key k l)) | _ => RErr end
  | _ => RErr
  end.

Definition idx_val (m k : cval) : vres :=
  match m, k with
  | VMap l, VStr s => match lookup s l with Some v => ROk v | None => RErr end   (* no such key *)
  | _, _ => RErr
  end.

(* evalBinary / evalEq / evalNe: the left operand's unknown/error is returned first *)
Definition strict2 (f : cval -> cval -> vres) (a b : vres) : vres :=
  match a with
  | ROk x => match b with ROk y => f x y | other => other end
  | other => other
  end.

Definition env := list (bytes * cval).

Fixpoint eval (g : env) (e : expr) : vres :=
  match e with
  | EBool b => ROk (VBool b)
  | EStr s => ROk (VStr s)
  | EInt z => ROk (VInt z)
  | EUint z => ROk (VUint z)
  | EDouble f => ROk (VDouble f)
  | EParam n => match lookup n g with Some v => ROk v | None => RUnk end
  | ECmp op a b => strict2 (cmp_vals op) (eval g a) (eval g b)
  | EAnd a b => of_b4 (and4 (to_b4 (eval g a)) (to_b4 (eval g b)))
  | EOr a b => of_b4 (or4 (to_b4 (eval g a)) (to_b4 (eval g b)))
  | ENot a => of_b4 (not4 (to_b4 (eval g a)))
  | EIn a b => strict2 in_val (eval g a) (eval g b)
  | EListLit l => ROk (VList l)
  | EIdx m k => strict2 idx_val (eval g m) (eval g k)
  end.

(* --- the type checker (the part of cel's checker the fragment needs) ----------------------- *)

Inductive ety := YBool | YStr | YInt | YUint | YDouble | YList (t : ety) | YMap (t : ety).

Fixpoint ety_eqb (a b : ety) : bool :=
  match a, b with
  | YBool, YBool | YStr, YStr | YInt, YInt | YUint, YUint | YDouble, YDouble => true
  | YList x, YList y => ety_eqb x y
  | YMap x, YMap y => ety_eqb x y
  | _, _ => false
  end.

Definition is_scalar (t : ety) : bool :=
  match t with YList _ | YMap _ => false | _ => true end.

(* parameter types of the fragment *)
Definition ety_of_ptype (t : ptype) : option ety :=
  match t with
  | TBool => Some YBool | TString => Some YStr | TInt => Some YInt | TUint => Some YUint
  | TDouble => Some YDouble
  | TList t' => match t' with
                | TBool => Some (YList YBool) | TString => Some (YList YStr) | TInt => Some (YList YInt)
                | TUint => Some (YList YUint) | TDouble => Some (YList YDouble) | _ => None end
  | TMap t' => match t' with
               | TBool => Some (YMap YBool) | TString => Some (YMap YStr) | TInt => Some (YMap YInt)
               | TUint => Some (YMap YUint) | TDouble => Some (YMap YDouble) | _ => None end
  | _ => None
  end.

Definition ety_of_lit (v : cval) : option ety :=
  match v with
  | VBool _ => Some YBool | VStr _ => Some YStr | VInt _ => Some YInt | VUint _ => Some YUint
  | VDouble _ => Some YDouble | _ => None
  end.

Definition list_lit_type (l : list cval) : option ety :=
  match l with
  | [] => None
  | x :: r => match ety_of_lit x with
              | Some t => if forallb (fun y => match ety_of_lit y with Some t' => ety_eqb t t' | None => false end) r
                          then Some (YList t) else None
              | None => None
              end
  end.

Definition params := list (bytes * ptype).

Fixpoint type_of (ps : params) (e : expr) : option ety :=
  match e with
  | EBool _ => Some YBool | EStr _ => Some YStr | EInt _ => Some YInt | EUint _ => Some YUint
  | EDouble _ => Some YDouble
  | EParam n => match lookup n ps with Some t => ety_of_ptype t | None => None end
  | ECmp _ a b => match type_of ps a, type_of ps b with
                  | Some ta, Some tb => if is_scalar ta && ety_eqb ta tb then Some YBool else None
                  | _, _ => None
                  end
  | EAnd a b | EOr a b => match type_of ps a, type_of ps b with
                          | Some YBool, Some YBool => Some YBool
                          | _, _ => None
                          end
  | ENot a => match type_of ps a with Some YBool => Some YBool | _ => None end
  | EIn a b => match type_of ps a, type_of ps b with
               | Some ta, Some (YList tb) => if ety_eqb ta tb then Some YBool else None
               | Some YStr, Some (YMap _) => Some YBool
               | _, _ => None
               end
  | EListLit l => list_lit_type l
  | EIdx m k => match type_of ps m, type_of ps k with
                | Some (YMap t), Some YStr => Some t
                | _, _ => None
                end
  end.

Fixpoint ptype_ok (t : ptype) : bool :=
  match t with TBad => false | TList t' => ptype_ok t' | TMap t' => ptype_ok t' | _ => true end.

(* ------------------------------------------------------------------------------------------ *)
(* EvaluableCondition and EvaluateTupleCondition                                               *)

Record condition := { c_name : bytes; c_params : params; c_expr : expr }.

(* Compile: every parameter type decodes, the expression type-checks with output type bool *)
Definition compiles (c : condition) : bool :=
  forallb (fun p => ptype_ok (snd p)) (c_params c) &&
  match type_of (c_params c) (c_expr c) with Some YBool => true | _ => false end.

Inductive errc := ENotFound | ECompile | EType | EMissing | ERuntime.

Inductive castres := CastOk (g : env) | CastErr | CastPanic | CastOut.

Section Eval.
(* the conversion function: [convert ext] for the code, [spec_convert ext] for the property *)
Variable conv : ptype -> jval -> cres.

(* the loop of CastContextToTypedParameters over the declared parameters *)
Fixpoint cast_params (ps : params) (m : ctx) : castres :=
  match ps with
  | [] => CastOk []
  | (n, t) :: ps' =>
      match lookup n m with
      | None => cast_params ps' m
      | Some v =>
          match conv t (as_interface v) with
          | COk cv => match cast_params ps' m with CastOk g => CastOk ((n, cv) :: g) | other => other end
          | CErr => CastErr
          | CPanic => CastPanic
          | COut => CastOut
          end
      end
  end.

Definition cast (ps : params) (m : ctx) : castres :=
  match m with
  | [] => CastOk []                           (* len(contextMap) == 0 => nil, nil *)
  | _ => match ps with
         | [] => CastErr                      (* "no parameters defined for the condition" *)
         | _ => cast_params ps m
         end
  end.

Inductive eres := EvOk (met : bool) (missing : list bytes) | EvErr (c : errc) | EvPanic | EvOut.

Definition missing_params (ps : params) (g : env) : list bytes :=
  filter (fun n => negb (has_key n g)) (map fst ps).

Definition evaluate (c : condition) (req stored : ctx) : eres :=
  if negb (compiles c) then EvErr ECompile else
  match cast (c_params c) (merge req stored) with
  | CastErr => EvErr EType
  | CastPanic => EvPanic
  | CastOut => EvOut
  | CastOk g =>
      let missing := missing_params (c_params c) g in
      match eval g (c_expr c) with
      | RErr => EvErr ERuntime
      | RUnk => EvOk false missing
      | ROk (VBool b) => EvOk b missing
      | ROk _ => EvErr ERuntime
      end
  end.

Inductive tres := TMet | TNotMet | TErr (c : errc) | TPanic | TOut.

(* tname: the name in the tuple's condition; ec: the condition the caller found in the model *)
Definition evaluate_tuple_condition (tname : bytes) (stored : ctx) (ec : option condition) (req : ctx) : tres :=
  match tname with
  | [] => TMet
  | _ =>
      match ec with
      | None => TErr ENotFound
      | Some c =>
          if negb (beqb tname (c_name c)) then TErr ENotFound else
          match evaluate c req stored with
          | EvErr e => TErr e
          | EvPanic => TPanic
          | EvOut => TOut
          | EvOk met missing =>
              match missing with
              | _ :: _ => TErr EMissing
              | [] => if met then TMet else TNotMet
              end
          end
      end
  end.

End Eval.

(* any conversion in this evaluation hit the trigger [fl] *)
Definition eval_flag (fl : jval -> bool) (c : condition) (req stored : ctx) : bool :=
  let m := merge req stored in
  match m with
  | [] => false
  | _ => existsb (fun p => match lookup (fst p) m with
                           | Some v => conv_flag fl (snd p) (as_interface v)
                           | None => false end) (c_params c)
  end.

(* number of entries of a context (keeps [nat] among the extracted datatypes) *)
Definition ctx_size (m : ctx) : nat := length m.
