(* Kleene's strong three-valued logic.  E = "cannot be evaluated". *)
From Coq Require Export List Bool.
Export ListNotations.

Inductive b3 := T | F | E.

Definition b3_eqb (a b : b3) : bool :=
  match a, b with T, T | F, F | E, E => true | _, _ => false end.

Definition or3 (a b : b3) : b3 :=
  match a, b with
  | T, _ | _, T => T
  | F, F => F
  | _, _ => E
  end.

Definition and3 (a b : b3) : b3 :=
  match a, b with
  | F, _ | _, F => F
  | T, T => T
  | _, _ => E
  end.

Definition not3 (a : b3) : b3 := match a with T => F | F => T | E => E end.
Definition diff3 (b s : b3) : b3 := and3 b (not3 s).

Definition or3_list (l : list b3) : b3 := fold_right or3 F l.
Definition and3_list (l : list b3) : b3 := fold_right and3 T l.

Definition of_bool (b : bool) : b3 := if b then T else F.

(* truth order F < E < T (used for least fixpoints of the positive fragment) *)
Definition le3 (a b : b3) : bool :=
  match a, b with
  | F, _ => true
  | E, E | E, T => true
  | T, T => true
  | _, _ => false
  end.
