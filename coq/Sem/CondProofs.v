(* Proofs about the condition-evaluation model Sem/Cond.v (C25). *)
From OFGA Require Import Sem.Cond.
From Coq Require Import ZArith Lia Bool List.
Import ListNotations.
Open Scope Z_scope.

(* ========================================================================================== *)
(* 1. The four-valued logic of && / || : evaluation order is irrelevant                        *)

Lemma and4_comm a b : and4 a b = and4 b a.
Proof. destruct a, b; reflexivity. Qed.
Lemma or4_comm a b : or4 a b = or4 b a.
Proof. destruct a, b; reflexivity. Qed.
Lemma and4_assoc a b c : and4 a (and4 b c) = and4 (and4 a b) c.
Proof. destruct a, b, c; reflexivity. Qed.
Lemma or4_assoc a b c : or4 a (or4 b c) = or4 (or4 a b) c.
Proof. destruct a, b, c; reflexivity. Qed.
Lemma and4_false_absorbs a : and4 B4F a = B4F /\ and4 a B4F = B4F.
Proof. destruct a; split; reflexivity. Qed.
Lemma or4_true_absorbs a : or4 B4T a = B4T /\ or4 a B4T = B4T.
Proof. destruct a; split; reflexivity. Qed.
Lemma and4_true_neutral a : and4 B4T a = a.
Proof. destruct a; reflexivity. Qed.
Lemma or4_false_neutral a : or4 B4F a = a.
Proof. destruct a; reflexivity. Qed.
Lemma not4_involutive a : not4 (not4 a) = a.
Proof. destruct a; reflexivity. Qed.
Lemma de_morgan_and a b : not4 (and4 a b) = or4 (not4 a) (not4 b).
Proof. destruct a, b; reflexivity. Qed.
Lemma de_morgan_or a b : not4 (or4 a b) = and4 (not4 a) (not4 b).
Proof. destruct a, b; reflexivity. Qed.
Lemma and4_idem a : and4 a a = a.
Proof. destruct a; reflexivity. Qed.
Lemma or4_idem a : or4 a a = a.
Proof. destruct a; reflexivity. Qed.

Lemma to_of_b4 b : to_b4 (of_b4 b) = b.
Proof. destruct b; reflexivity. Qed.

(* on expressions: operands of && and || may be swapped and regrouped *)
Lemma eval_and_comm g a b : eval g (EAnd a b) = eval g (EAnd b a).
Proof. simpl. rewrite and4_comm. reflexivity. Qed.
Lemma eval_or_comm g a b : eval g (EOr a b) = eval g (EOr b a).
Proof. simpl. rewrite or4_comm. reflexivity. Qed.
Lemma eval_and_assoc g a b c : eval g (EAnd a (EAnd b c)) = eval g (EAnd (EAnd a b) c).
Proof. simpl. rewrite !to_of_b4, and4_assoc. reflexivity. Qed.
Lemma eval_or_assoc g a b c : eval g (EOr a (EOr b c)) = eval g (EOr (EOr a b) c).
Proof. simpl. rewrite !to_of_b4, or4_assoc. reflexivity. Qed.

(* CEL's error absorption: a false conjunct / a true disjunct decides, whatever the other
   operand does (error, unknown, non-bool) *)
Lemma eval_and_false_absorbs g a b :
  eval g a = ROk (VBool false) -> eval g (EAnd a b) = ROk (VBool false) /\ eval g (EAnd b a) = ROk (VBool false).
Proof.
  intro H. simpl. rewrite H. simpl. split; [reflexivity|].
  destruct (to_b4 (eval g b)); reflexivity.
Qed.
Lemma eval_or_true_absorbs g a b :
  eval g a = ROk (VBool true) -> eval g (EOr a b) = ROk (VBool true) /\ eval g (EOr b a) = ROk (VBool true).
Proof.
  intro H. simpl. rewrite H. simpl. split; [reflexivity|].
  destruct (to_b4 (eval g b)); reflexivity.
Qed.

(* ========================================================================================== *)
(* 2. Context merge                                                                            *)

Lemma beqb_sym a b : beqb a b = beqb b a.
Proof.
  destruct (beqb a b) eqn:E1, (beqb b a) eqn:E2; try reflexivity.
  - apply beqb_eq in E1. subst. rewrite beqb_refl in E2. discriminate.
  - apply beqb_eq in E2. subst. rewrite beqb_refl in E1. discriminate.
Qed.

Lemma lookup_remove_key {A} (k k' : bytes) (m : list (bytes * A)) :
  lookup k (remove_key k' m) = if beqb k k' then None else lookup k m.
Proof.
  induction m as [|[k0 v0] m IH]; simpl.
  - destruct (beqb k k'); reflexivity.
  - destruct (beqb k' k0) eqn:E0.
    + rewrite IH. apply beqb_eq in E0. subst k0. destruct (beqb k k'); reflexivity.
    + simpl. rewrite IH. destruct (beqb k k') eqn:E1; [|reflexivity].
      apply beqb_eq in E1. subst k'. rewrite E0. reflexivity.
Qed.

Lemma lookup_set_key {A} (k k' : bytes) (v : A) (m : list (bytes * A)) :
  lookup k (set_key k' v m) = if beqb k k' then Some v else lookup k m.
Proof.
  unfold set_key. simpl. destruct (beqb k k') eqn:E; [reflexivity|].
  rewrite lookup_remove_key, E. reflexivity.
Qed.

(* the stored (tuple) context takes precedence, parameter by parameter *)
Lemma merge_stored_wins (req stored : ctx) (k : bytes) :
  lookup k (merge req stored) =
  match lookup k stored with Some v => Some v | None => lookup k req end.
Proof.
  unfold merge. induction stored as [|[k0 v0] st IH]; [reflexivity|].
  simpl fold_right. rewrite lookup_set_key. simpl. destruct (beqb k k0); [reflexivity|exact IH].
Qed.

Lemma merge_nil_l stored k : lookup k (merge [] stored) = lookup k stored.
Proof. rewrite merge_stored_wins. destruct (lookup k stored); reflexivity. Qed.

Lemma merge_empty_iff req stored : merge req stored = [] <-> req = [] /\ stored = [].
Proof.
  unfold merge. destruct stored as [|[k v] st]; simpl.
  - split; [intro H; auto | intros [H _]; exact H].
  - split; [discriminate | intros [_ H]; discriminate].
Qed.

(* ========================================================================================== *)
(* 3. Cast, missing parameters, and when a condition is met                                    *)

Definition is_failure (r : tres) : bool :=
  match r with TMet | TNotMet => false | _ => true end.

(* every declared parameter has a converted value *)
Definition all_present (ps : params) (g : env) : bool :=
  forallb (fun n => has_key n g) (map fst ps).

(* parameters an expression mentions *)
Fixpoint params_in (e : expr) : list bytes :=
  match e with
  | EParam n => [n]
  | ECmp _ a b | EAnd a b | EOr a b | EIn a b | EIdx a b => params_in a ++ params_in b
  | ENot a => params_in a
  | _ => []
  end.

Lemma has_key_cons {A} (n n0 : bytes) (v : A) (g : list (bytes * A)) :
  has_key n ((n0, v) :: g) = beqb n n0 || has_key n g.
Proof. unfold has_key. simpl. destruct (beqb n n0); reflexivity. Qed.

Lemma missing_nil_iff ps g : missing_params ps g = [] <-> all_present ps g = true.
Proof.
  unfold missing_params, all_present. induction (map fst ps) as [|n l IH]; simpl; [tauto|].
  destruct (has_key n g); simpl; [exact IH|]. split; discriminate.
Qed.

Section WithConv.
Variable conv : ptype -> jval -> cres.

Lemma cast_params_keys ps m : forall g n,
  cast_params conv ps m = CastOk g -> has_key n g = true -> has_key n m = true.
Proof.
  induction ps as [|[n0 t0] ps IH]; intros g n Hc Hk; simpl in Hc.
  - inversion Hc; subst. discriminate.
  - destruct (lookup n0 m) as [v|] eqn:El.
    + destruct (conv t0 (as_interface v)) as [cv| | |]; try discriminate.
      destruct (cast_params conv ps m) as [g'| | |] eqn:Ec; try discriminate.
      inversion Hc; subst. rewrite has_key_cons in Hk.
      destruct (beqb n n0) eqn:En.
      * apply beqb_eq in En. subst. unfold has_key. rewrite El. reflexivity.
      * simpl in Hk. eapply IH; eauto.
    + eapply IH; eauto.
Qed.

Lemma cast_keys ps m g n :
  cast conv ps m = CastOk g -> has_key n g = true -> has_key n m = true.
Proof.
  unfold cast. destruct m as [|kv m'].
  - intros H Hk. inversion H; subst. discriminate.
  - destruct ps as [|p ps']; [discriminate|]. apply cast_params_keys.
Qed.

(* the converted context: exactly the declared parameters that the merged context binds, each
   converted to its declared type *)
Lemma cast_params_lookup ps m : forall g,
  cast_params conv ps m = CastOk g ->
  forall n t, lookup n ps = Some t ->
  lookup n g = match lookup n m with
               | Some v => match conv t (as_interface v) with COk cv => Some cv | _ => None end
               | None => None
               end.
Proof.
  induction ps as [|[n0 t0] ps IH]; intros g Hc n t Hl; simpl in Hl; [discriminate|].
  simpl in Hc. destruct (beqb n n0) eqn:En.
  - inversion Hl; subst t0. apply beqb_eq in En. subst n0.
    destruct (lookup n m) as [v|] eqn:El.
    + destruct (conv t (as_interface v)) as [cv| | |]; try discriminate.
      destruct (cast_params conv ps m) as [g'| | |]; try discriminate.
      inversion Hc; subst. simpl. rewrite beqb_refl. reflexivity.
    + destruct (lookup n g) as [cv|] eqn:Eg; [|reflexivity].
      assert (Hk : has_key n m = true).
      { eapply cast_params_keys; eauto. unfold has_key. rewrite Eg. reflexivity. }
      unfold has_key in Hk. rewrite El in Hk. discriminate.
  - destruct (lookup n0 m) as [v0|] eqn:El0.
    + destruct (conv t0 (as_interface v0)) as [cv| | |]; try discriminate.
      destruct (cast_params conv ps m) as [g'| | |] eqn:Ec; try discriminate.
      inversion Hc; subst. simpl. rewrite En. eapply IH; eauto.
    + eapply IH; eauto.
Qed.

Lemma cast_lookup ps m g :
  cast conv ps m = CastOk g ->
  forall n t, lookup n ps = Some t ->
  lookup n g = match lookup n m with
               | Some v => match conv t (as_interface v) with COk cv => Some cv | _ => None end
               | None => None
               end.
Proof.
  unfold cast. destruct m as [|kv m'].
  - intros H n t _. inversion H; subst. reflexivity.
  - destruct ps as [|p ps']; [discriminate|]. apply cast_params_lookup.
Qed.

(* a conversion failure of any bound declared parameter makes the cast fail *)
Lemma cast_params_conv_error ps m n t v :
  In (n, t) ps -> lookup n m = Some v -> conv t (as_interface v) = CErr ->
  forall g, cast_params conv ps m <> CastOk g.
Proof.
  induction ps as [|[n0 t0] ps IH]; intros Hin Hl Hc g; [destruct Hin|].
  simpl. destruct Hin as [Heq|Hin].
  - inversion Heq; subst. rewrite Hl, Hc. discriminate.
  - destruct (lookup n0 m) as [v0|]; [|apply IH; assumption].
    destruct (conv t0 (as_interface v0)); try discriminate.
    destruct (cast_params conv ps m) as [g'| | |] eqn:Ec; try discriminate.
    exfalso. eapply IH; eauto.
Qed.

Lemma missing_nonempty ps g n :
  In n (map fst ps) -> has_key n g = false -> missing_params ps g <> [].
Proof.
  intros Hin Hk Hnil. unfold missing_params in Hnil.
  assert (Hf : In n (filter (fun n0 => negb (has_key n0 g)) (map fst ps))).
  { apply filter_In. split; [exact Hin|]. rewrite Hk. reflexivity. }
  rewrite Hnil in Hf. destruct Hf.
Qed.

(* A declared parameter that neither context binds makes the evaluation fail -- for every
   expression, also one that would short-circuit, and whatever else the contexts contain. *)
Theorem missing_param_is_error tname stored c req n :
  tname <> [] ->
  In n (map fst (c_params c)) ->
  lookup n (merge req stored) = None ->
  is_failure (evaluate_tuple_condition conv tname stored (Some c) req) = true.
Proof.
  intros Hname Hin Hl. unfold evaluate_tuple_condition.
  destruct tname as [|b tn]; [congruence|].
  destruct (negb (beqb (b :: tn) (c_name c))); [reflexivity|].
  unfold evaluate. destruct (negb (compiles c)); [reflexivity|].
  destruct (cast conv (c_params c) (merge req stored)) as [g| | |] eqn:Ec; try reflexivity.
  assert (Hk : has_key n g = false).
  { destruct (has_key n g) eqn:E; [|reflexivity].
    pose proof (cast_keys _ _ _ _ Ec E) as Hm. unfold has_key in Hm. rewrite Hl in Hm. discriminate. }
  pose proof (missing_nonempty _ _ _ Hin Hk) as Hne.
  destruct (eval g (c_expr c)) as [v| |]; try reflexivity.
  - destruct v; try reflexivity. destruct (missing_params (c_params c) g); [congruence|reflexivity].
  - destruct (missing_params (c_params c) g); [congruence|reflexivity].
Qed.

(* The result is "met" exactly when the tuple is unconditioned, or the named condition is the
   one supplied, compiles, every declared parameter is bound and converts, and the expression
   evaluates to true over the merged, converted context. *)
Theorem met_iff_true tname stored ec req :
  evaluate_tuple_condition conv tname stored ec req = TMet <->
  tname = [] \/
  exists c g, ec = Some c /\ beqb tname (c_name c) = true /\ compiles c = true /\
              cast conv (c_params c) (merge req stored) = CastOk g /\
              all_present (c_params c) g = true /\
              eval g (c_expr c) = ROk (VBool true).
Proof.
  unfold evaluate_tuple_condition. destruct tname as [|b tn].
  - split; [left; reflexivity | reflexivity].
  - split.
    + intro H. right. destruct ec as [c|]; [|discriminate].
      destruct (beqb (b :: tn) (c_name c)) eqn:En; simpl in H; [|discriminate].
      unfold evaluate in H. destruct (compiles c) eqn:Eco; simpl in H; [|discriminate].
      destruct (cast conv (c_params c) (merge req stored)) as [g| | |] eqn:Ec; try discriminate.
      exists c, g. repeat split; try assumption; try reflexivity.
      * apply missing_nil_iff.
        destruct (eval g (c_expr c)) as [v| |]; try discriminate;
          [destruct v; try discriminate|];
          destruct (missing_params (c_params c) g); try reflexivity; discriminate.
      * destruct (eval g (c_expr c)) as [v| |]; try discriminate.
        -- destruct v as [bv| | | | | | | |]; try discriminate.
           destruct (missing_params (c_params c) g); [|discriminate].
           destruct bv; [reflexivity|discriminate].
        -- destruct (missing_params (c_params c) g); discriminate.
    + intros [H|H]; [discriminate|].
      destruct H as (c & g & -> & En & Eco & Ec & Hall & Hev).
      rewrite En. simpl. unfold evaluate. rewrite Eco. simpl. rewrite Ec, Hev.
      apply missing_nil_iff in Hall. rewrite Hall. reflexivity.
Qed.

End WithConv.

(* ------------------------------------------------------------------------------------------ *)
(* With every declared parameter bound the evaluation is three-valued: no "unknown" remains    *)

Lemma strict2_unk f a b :
  (forall x y, f x y <> RUnk) -> strict2 f a b = RUnk -> a = RUnk \/ b = RUnk.
Proof.
  intros Hf H. destruct a as [x| |]; simpl in H; [|left; reflexivity|discriminate].
  destruct b as [y| |]; [|right; reflexivity|discriminate]. exfalso. eapply Hf; eauto.
Qed.

Lemma cmp_vals_not_unk op x y : cmp_vals op x y <> RUnk.
Proof.
  unfold cmp_vals. destruct (scalar_compare x y) as [[c|]|]; try discriminate; destruct op; discriminate.
Qed.
Lemma in_val_not_unk x y : in_val x y <> RUnk.
Proof. unfold in_val. destruct y; try discriminate. destruct x; discriminate. Qed.
Lemma idx_val_not_unk x y : idx_val x y <> RUnk.
Proof.
  unfold idx_val. destruct x as [| | | | | |lm| |]; try discriminate.
  destruct y as [|sk| | | | | | |]; try discriminate.
  destruct (lookup sk lm); discriminate.
Qed.

Lemma to_b4_unk r : to_b4 r = B4U -> r = RUnk.
Proof.
  destruct r as [v| |]; simpl; try discriminate; [|reflexivity].
  destruct v as [bv| | | | | | | |]; try discriminate. destruct bv; discriminate.
Qed.
Lemma of_b4_unk b : of_b4 b = RUnk -> b = B4U.
Proof. destruct b; simpl; try discriminate. reflexivity. Qed.
Lemma and4_unk a b : and4 a b = B4U -> a = B4U \/ b = B4U.
Proof. destruct a, b; simpl; try discriminate; auto. Qed.
Lemma or4_unk a b : or4 a b = B4U -> a = B4U \/ b = B4U.
Proof. destruct a, b; simpl; try discriminate; auto. Qed.
Lemma not4_unk a : not4 a = B4U -> a = B4U.
Proof. destruct a; simpl; try discriminate; auto. Qed.

(* "unknown" only comes from a parameter the converted context does not bind *)
Lemma eval_unknown_missing g e :
  eval g e = RUnk -> exists n, In n (params_in e) /\ lookup n g = None.
Proof.
  induction e as [b|s|z|z|f|n|op a IHa b IHb|a IHa b IHb|a IHa b IHb|a IHa|a IHa b IHb|l|m IHm k IHk];
    simpl; intro H; try discriminate.
  - destruct (lookup n g) eqn:E; [discriminate|]. exists n. split; [left; reflexivity|exact E].
  - apply strict2_unk in H; [|apply cmp_vals_not_unk].
    destruct H as [H|H]; [apply IHa in H|apply IHb in H]; destruct H as (n & Hin & Hl);
      exists n; split; auto; apply in_or_app; auto.
  - apply of_b4_unk, and4_unk in H. destruct H as [H|H]; apply to_b4_unk in H;
      [apply IHa in H|apply IHb in H]; destruct H as (n & Hin & Hl);
      exists n; split; auto; apply in_or_app; auto.
  - apply of_b4_unk, or4_unk in H. destruct H as [H|H]; apply to_b4_unk in H;
      [apply IHa in H|apply IHb in H]; destruct H as (n & Hin & Hl);
      exists n; split; auto; apply in_or_app; auto.
  - apply of_b4_unk, not4_unk, to_b4_unk in H. apply IHa in H. exact H.
  - apply strict2_unk in H; [|apply in_val_not_unk].
    destruct H as [H|H]; [apply IHa in H|apply IHb in H]; destruct H as (n & Hin & Hl);
      exists n; split; auto; apply in_or_app; auto.
  - apply strict2_unk in H; [|apply idx_val_not_unk].
    destruct H as [H|H]; [apply IHm in H|apply IHk in H]; destruct H as (n & Hin & Hl);
      exists n; split; auto; apply in_or_app; auto.
Qed.

(* a well-typed expression mentions declared parameters only *)
Lemma lookup_in_keys {A} n (ps : list (bytes * A)) t : lookup n ps = Some t -> In n (map fst ps).
Proof.
  induction ps as [|[n0 t0] ps IH]; simpl; [discriminate|].
  destruct (beqb n n0) eqn:E; [apply beqb_eq in E; subst; auto|auto].
Qed.

Lemma typed_params_declared ps e : forall t,
  type_of ps e = Some t -> forall n, In n (params_in e) -> In n (map fst ps).
Proof.
  induction e as [b|s|z|z|f|n|op a IHa b IHb|a IHa b IHb|a IHa b IHb|a IHa|a IHa b IHb|l|m IHm k IHk];
    simpl; intros t Ht n0 Hin; try (destruct Hin; fail).
  - destruct Hin as [<-|[]]. destruct (lookup n ps) eqn:E; [|discriminate]. eapply lookup_in_keys; eauto.
  - destruct (type_of ps a) eqn:Ea; [|discriminate]. destruct (type_of ps b) eqn:Eb; [|discriminate].
    apply in_app_or in Hin. destruct Hin; eauto.
  - destruct (type_of ps a) as [ta|] eqn:Ea; [|discriminate]. destruct (type_of ps b) eqn:Eb;
      [|destruct ta; discriminate].
    apply in_app_or in Hin. destruct Hin; eauto.
  - destruct (type_of ps a) as [ta|] eqn:Ea; [|discriminate]. destruct (type_of ps b) eqn:Eb;
      [|destruct ta; discriminate].
    apply in_app_or in Hin. destruct Hin; eauto.
  - destruct (type_of ps a) eqn:Ea; [|discriminate]. eauto.
  - destruct (type_of ps a) as [ta|] eqn:Ea; [|discriminate]. destruct (type_of ps b) eqn:Eb;
      [|destruct ta; discriminate].
    apply in_app_or in Hin. destruct Hin; eauto.
  - destruct (type_of ps m) as [ta|] eqn:Em; [|discriminate]. destruct (type_of ps k) eqn:Ek;
      [|destruct ta; discriminate].
    apply in_app_or in Hin. destruct Hin; eauto.
Qed.

Lemma eval_total_when_present c g :
  compiles c = true -> all_present (c_params c) g = true -> eval g (c_expr c) <> RUnk.
Proof.
  intros Hco Hall Hu. apply eval_unknown_missing in Hu. destruct Hu as (n & Hin & Hl).
  unfold compiles in Hco. apply andb_true_iff in Hco. destruct Hco as [_ Hty].
  destruct (type_of (c_params c) (c_expr c)) as [t|] eqn:Et; [|discriminate].
  pose proof (typed_params_declared _ _ _ Et _ Hin) as Hd.
  unfold all_present in Hall. rewrite forallb_forall in Hall. apply Hall in Hd.
  unfold has_key in Hd. rewrite Hl in Hd. discriminate.
Qed.

Section WithConv2.
Variable conv : ptype -> jval -> cres.

(* "not met" exactly when the expression evaluates to false over the merged, converted context *)
Theorem notmet_iff_false tname stored ec req :
  evaluate_tuple_condition conv tname stored ec req = TNotMet <->
  tname <> [] /\
  exists c g, ec = Some c /\ beqb tname (c_name c) = true /\ compiles c = true /\
              cast conv (c_params c) (merge req stored) = CastOk g /\
              all_present (c_params c) g = true /\
              eval g (c_expr c) = ROk (VBool false).
Proof.
  unfold evaluate_tuple_condition. destruct tname as [|b tn].
  - split; [discriminate | intros [H _]; congruence].
  - split.
    + intro H. split; [discriminate|]. destruct ec as [c|]; [|discriminate].
      destruct (beqb (b :: tn) (c_name c)) eqn:En; simpl in H; [|discriminate].
      unfold evaluate in H. destruct (compiles c) eqn:Eco; simpl in H; [|discriminate].
      destruct (cast conv (c_params c) (merge req stored)) as [g| | |] eqn:Ec; try discriminate.
      assert (Hall : all_present (c_params c) g = true).
      { apply missing_nil_iff.
        destruct (eval g (c_expr c)) as [v| |]; try discriminate;
          [destruct v; try discriminate|];
          destruct (missing_params (c_params c) g); try reflexivity; discriminate. }
      exists c, g. repeat split; try assumption; try reflexivity.
      pose proof (eval_total_when_present c g Eco Hall) as Hnu.
      destruct (eval g (c_expr c)) as [v| |]; try discriminate; [|congruence].
      destruct v as [bv| | | | | | | |]; try discriminate.
      destruct (missing_params (c_params c) g); [|discriminate].
      destruct bv; [discriminate|reflexivity].
    + intros [_ H].
      destruct H as (c & g & -> & En & Eco & Ec & Hall & Hev).
      rewrite En. simpl. unfold evaluate. rewrite Eco. simpl. rewrite Ec, Hev.
      apply missing_nil_iff in Hall. rewrite Hall. reflexivity.
Qed.

End WithConv2.

(* ========================================================================================== *)
(* 4. Numbers: the converters against the exact value of what the context carried              *)

(* the integer test / quotient on a fraction, as used by spec_int *)
Lemma frac_equiv_int n1 d1 n2 d2 :
  0 < d1 -> 0 < d2 -> n1 * d2 = n2 * d1 ->
  (n1 mod d1 =? 0) = (n2 mod d2 =? 0) /\ (n1 mod d1 = 0 -> n1 / d1 = n2 / d2).
Proof.
  intros H1 H2 Heq.
  assert (Hd : forall a da b db, 0 < da -> 0 < db -> a * db = b * da -> a mod da = 0 -> b mod db = 0 /\ a / da = b / db).
  { intros a da b db Ha Hb He Hm.
    apply Z.mod_divide in Hm; [|lia]. destruct Hm as [k Hk]. subst a.
    assert (b = k * db) by nia. subst b.
    split; [apply Z.mod_mul; lia|]. rewrite !Z.div_mul by lia. reflexivity. }
  split.
  - destruct (n1 mod d1 =? 0) eqn:E1; destruct (n2 mod d2 =? 0) eqn:E2; try reflexivity.
    + apply Z.eqb_eq in E1. destruct (Hd _ _ _ _ H1 H2 Heq E1) as [H _]. apply Z.eqb_neq in E2. contradiction.
    + apply Z.eqb_eq in E2. symmetry in Heq. destruct (Hd _ _ _ _ H2 H1 Heq E2) as [H _]. apply Z.eqb_neq in E1. contradiction.
  - intro Hm. apply (Hd _ _ _ _ H1 H2 Heq Hm).
Qed.

Lemma pow2_pos k : 0 < 2 ^ k \/ (k < 0 /\ 2 ^ k = 0).
Proof. destruct (Z.neg_nonneg_cases k) as [Hk|Hk]; [right; split; [lia|apply Z.pow_neg_r; lia] | left; apply Z.pow_pos_nonneg; lia]. Qed.

Lemma pow_max_pos b k : 0 < b -> 0 < b ^ Z.max k 0.
Proof. intro Hb. apply Z.pow_pos_nonneg; lia. Qed.

(* is_int / int_val of m*2^e against the fraction dy_frac m e *)
Lemma dy_frac_int m e :
  let '(n, d) := dy_frac m e in
  0 < d /\ is_int m e = (n mod d =? 0) /\ int_val m e = n / d.
Proof.
  unfold dy_frac, is_int, int_val. destruct (0 <=? e) eqn:E.
  - apply Z.leb_le in E. rewrite (Z.max_l e 0) by lia. rewrite (Z.max_r (- e) 0) by lia.
    simpl (2 ^ 0). rewrite Z.mod_1_r, Z.div_1_r. repeat split; try reflexivity; lia.
  - apply Z.leb_gt in E. rewrite (Z.max_r e 0) by lia. rewrite (Z.max_l (- e) 0) by lia.
    simpl (2 ^ 0). rewrite Z.mul_1_r. repeat split; try reflexivity. apply Z.pow_pos_nonneg; lia.
Qed.

(* when round_frac reports "exact", the result m * 2^e is the fraction n/d *)
Lemma round_frac_exact prec n d m e :
  0 < d -> round_frac prec n d = (m, e, true) ->
  m * 2 ^ Z.max e 0 * d = n * 2 ^ Z.max (- e) 0.
Proof.
  intros Hd. unfold round_frac.
  set (s := prec + 2 - (Z.log2 n - Z.log2 d)).
  set (num := if 0 <=? s then n * 2 ^ s else n).
  set (den := if 0 <=? s then d else d * 2 ^ (- s)).
  set (q := num / den).
  set (dd := Z.log2 q + 1 - prec).
  assert (Hden : 0 < den).
  { unfold den. destruct (0 <=? s) eqn:Es; [exact Hd|]. apply Z.leb_gt in Es.
    apply Z.mul_pos_pos; [exact Hd|]. apply Z.pow_pos_nonneg; lia. }
  assert (Hex : num mod den = 0 -> num = den * q).
  { intro Hm. unfold q. apply Z.div_exact; [lia|exact Hm]. }
  destruct (dd <=? 0) eqn:Edd.
  - intro H. assert (Hm := f_equal (fun t => fst (fst t)) H). assert (He := f_equal (fun t => snd (fst t)) H).
    assert (Hx := f_equal snd H). simpl in Hm, He, Hx. clear H. subst e. subst m.
    apply negb_true_iff, negb_false_iff, Z.eqb_eq in Hx. apply Hex in Hx.
    unfold num, den in Hx. destruct (0 <=? s) eqn:Es.
    + apply Z.leb_le in Es. rewrite (Z.max_r (- s) 0) by lia. rewrite Z.opp_involutive.
      rewrite (Z.max_l s 0) by lia. simpl (2 ^ 0). lia.
    + apply Z.leb_gt in Es. rewrite (Z.max_l (- s) 0) by lia. rewrite Z.opp_involutive.
      rewrite (Z.max_r s 0) by lia. simpl (2 ^ 0). lia.
  - apply Z.leb_gt in Edd. intro H. assert (Hm := f_equal (fun t => fst (fst t)) H). assert (He := f_equal (fun t => snd (fst t)) H).
    assert (Hx := f_equal snd H). simpl in Hm, He, Hx. clear H. subst e.
    apply andb_true_iff in Hx. destruct Hx as [Hlo Hst].
    apply Z.eqb_eq in Hlo. apply negb_true_iff, negb_false_iff, Z.eqb_eq in Hst. apply Hex in Hst.
    assert (Hhalf : 0 < 2 ^ (dd - 1)) by (apply Z.pow_pos_nonneg; lia).
    rewrite Hlo in Hm.
    assert (Hup : (2 ^ (dd - 1) <? 0) || ((0 =? 2 ^ (dd - 1)) && (negb (num mod den =? 0) || Z.odd (q / 2 ^ dd))) = false).
    { apply orb_false_iff. split; [apply Z.ltb_ge; lia|].
      apply andb_false_iff. left. apply Z.eqb_neq. lia. }
    rewrite Hup in Hm. clear Hup.
    assert (Hq : q = 2 ^ dd * (q / 2 ^ dd)).
    { pose proof (Z.div_mod q (2 ^ dd)) as Hdm. rewrite Hlo in Hdm.
      rewrite Z.add_0_r in Hdm. apply Hdm. apply Z.pow_nonzero; lia. }
    set (hi := q / 2 ^ dd) in *. subst m. clear Hlo.
    unfold num, den in Hst. destruct (0 <=? s) eqn:Es.
    + apply Z.leb_le in Es. destruct (Z.le_gt_cases s dd) as [Hsd|Hsd].
      * rewrite (Z.max_l (dd - s) 0) by lia. rewrite (Z.max_r (- (dd - s)) 0) by lia. simpl (2 ^ 0).
        assert (Hp : 2 ^ dd = 2 ^ (dd - s) * 2 ^ s) by (rewrite <- Z.pow_add_r by lia; f_equal; lia).
        rewrite Hq, Hp in Hst.
        assert (H2 : 0 < 2 ^ s) by (apply Z.pow_pos_nonneg; lia).
        apply (Z.mul_reg_r _ _ (2 ^ s)); [lia|]. lia.
      * rewrite (Z.max_r (dd - s) 0) by lia. rewrite (Z.max_l (- (dd - s)) 0) by lia. simpl (2 ^ 0).
        assert (Hp : 2 ^ s = 2 ^ (- (dd - s)) * 2 ^ dd) by (rewrite <- Z.pow_add_r by lia; f_equal; lia).
        rewrite Hq, Hp in Hst.
        assert (H2 : 0 < 2 ^ dd) by (apply Z.pow_pos_nonneg; lia).
        apply (Z.mul_reg_r _ _ (2 ^ dd)); [lia|]. lia.
    + apply Z.leb_gt in Es.
      rewrite (Z.max_l (dd - s) 0) by lia. rewrite (Z.max_r (- (dd - s)) 0) by lia. simpl (2 ^ 0).
      assert (Hp : 2 ^ (dd - s) = 2 ^ dd * 2 ^ (- s)) by (rewrite <- Z.pow_add_r by lia; f_equal; lia).
      rewrite Hp. rewrite Z.mul_1_r. rewrite Hst. rewrite Hq. ring.
Qed.

(* ------------------------------------------------------------------------------------------ *)
(* the converters against the exact value                                                      *)

Definition spec_frac (lo hi : Z) (mk : Z -> cval) (n d : Z) : cres :=
  if n mod d =? 0 then
    let z := n / d in if (lo <=? z) && (z <=? hi) then COk (mk z) else CErr
  else CErr.

Lemma spec_int_frac lo hi mk v :
  spec_int lo hi mk v =
  match exact_frac v with SFrac n d => spec_frac lo hi mk n d | SOut => COut | _ => CErr end.
Proof. reflexivity. Qed.

Lemma spec_frac_equiv lo hi mk n1 d1 n2 d2 :
  0 < d1 -> 0 < d2 -> n1 * d2 = n2 * d1 -> spec_frac lo hi mk n1 d1 = spec_frac lo hi mk n2 d2.
Proof.
  intros H1 H2 Heq. unfold spec_frac.
  destruct (frac_equiv_int _ _ _ _ H1 H2 Heq) as [Hb Hq]. rewrite <- Hb.
  destruct (n1 mod d1 =? 0) eqn:E; [|reflexivity].
  apply Z.eqb_eq in E. rewrite (Hq E). reflexivity.
Qed.

Lemma conv_int_bigf_spec m e :
  conv_int_bigf (BFin m e) = spec_frac min_int64 max_int64 VInt (fst (dy_frac m e)) (snd (dy_frac m e)).
Proof.
  pose proof (dy_frac_int m e) as H. destruct (dy_frac m e) as [n d]. simpl fst. simpl snd.
  destruct H as (Hd & Hi & Hv). unfold conv_int_bigf, spec_frac, z_in_range.
  rewrite <- Hi, <- Hv. reflexivity.
Qed.

Lemma int_val_neg m e : m < 0 -> is_int m e = true -> int_val m e < 0.
Proof.
  unfold is_int, int_val. intros Hm Hi. destruct (0 <=? e) eqn:E.
  - apply Z.leb_le in E. assert (0 < 2 ^ e) by (apply Z.pow_pos_nonneg; lia). nia.
  - apply Z.leb_gt in E. assert (0 < 2 ^ (- e)) by (apply Z.pow_pos_nonneg; lia).
    apply Z.div_lt_upper_bound; lia.
Qed.

Lemma int_val_nonneg m e : 0 <= m -> 0 <= int_val m e.
Proof.
  unfold int_val. intro Hm. destruct (0 <=? e) eqn:E.
  - apply Z.leb_le in E. assert (0 < 2 ^ e) by (apply Z.pow_pos_nonneg; lia). nia.
  - apply Z.leb_gt in E. assert (0 < 2 ^ (- e)) by (apply Z.pow_pos_nonneg; lia).
    apply Z.div_pos; lia.
Qed.

Lemma conv_uint_bigf_spec m e :
  conv_uint_bigf (BFin m e) = spec_frac 0 max_uint64 VUint (fst (dy_frac m e)) (snd (dy_frac m e)).
Proof.
  pose proof (dy_frac_int m e) as H. destruct (dy_frac m e) as [n d]. simpl fst. simpl snd.
  destruct H as (Hd & Hi & Hv). unfold conv_uint_bigf, spec_frac, z_in_range.
  rewrite <- Hi, <- Hv. destruct (is_int m e) eqn:Ei; [|reflexivity].
  destruct (m <? 0) eqn:Em; [|reflexivity].
  apply Z.ltb_lt in Em. pose proof (int_val_neg m e Em Ei) as Hneg.
  replace (0 <=? int_val m e) with false by (symmetry; apply Z.leb_gt; lia). reflexivity.
Qed.

Lemma exact_parts_den_pos mant e2 e5 : 0 < snd (exact_parts mant e2 e5).
Proof. unfold exact_parts. simpl. apply Z.mul_pos_pos; apply Z.pow_pos_nonneg; lia. Qed.

Lemma dy_frac_den_pos m e : 0 < snd (dy_frac m e).
Proof. unfold dy_frac. simpl. apply Z.pow_pos_nonneg; lia. Qed.

(* a string whose 64-bit parse is exact: the big.Float equals the exact value of the string *)
Lemma parse_exact_value s :
  num_inexact (JStr s) = false ->
  match parse_bigf s, scan_exact s with
  | PErr, SErr => True
  | POut, SOut => True
  | POk (BInf n) _, SInf n' => n = n'
  | POk (BFin m e) _, SFrac n d =>
      0 < d /\ fst (dy_frac m e) * d = n * snd (dy_frac m e)
  | _, _ => False
  end.
Proof.
  unfold num_inexact, parse_bigf, scan_exact. destruct (scan_number s) as [| |n|neg mant e2 e5]; auto.
  destruct (mant =? 0) eqn:Em.
  - intros _. apply Z.eqb_eq in Em. subst mant.
    pose proof (exact_parts_den_pos 0 e2 e5) as Hd. unfold exact_parts in *. simpl in *.
    split; [exact Hd|]. destruct neg; reflexivity.
  - unfold coded_parts. destruct (Z.abs e5 <=? 27).
    + pose proof (exact_parts_den_pos mant e2 e5) as Hd.
      destruct (exact_parts mant e2 e5) as [n d]. simpl in Hd.
      destruct (round_frac 64 n d) as [[m e] x] eqn:Er. rewrite andb_true_r. simpl.
      intro Hx. apply negb_false_iff in Hx. subst x.
      pose proof (round_frac_exact _ _ _ _ _ Hd Er) as Hv.
      split; [exact Hd|]. unfold dy_frac. simpl. destruct neg; lia.
    + destruct (pow5 (Z.abs e5)) as [pm pe]. destruct (0 <? e5).
      * destruct (round_frac 64 _ _) as [[m e] x]. rewrite andb_false_r. simpl. discriminate.
      * destruct (round_frac 64 _ _) as [[m e] x]. rewrite andb_false_r. simpl. discriminate.
Qed.

Lemma conv_numeric_spec (k : bigf -> cres) lo hi mk v :
  (forall m e, k (BFin m e) = spec_frac lo hi mk (fst (dy_frac m e)) (snd (dy_frac m e))) ->
  (forall n, k (BInf n) = CErr) ->
  num_inexact v = false ->
  conv_numeric k v = match v with JNum FNaN => CPanic | _ => spec_int lo hi mk v end.
Proof.
  intros Hk Hinf Hx. destruct v as [|b|f|s|l|l]; try reflexivity.
  - destruct f as [|n|m e]; [reflexivity|simpl; apply Hinf|].
    simpl. rewrite spec_int_frac. simpl. rewrite Hk. reflexivity.
  - rewrite spec_int_frac. simpl conv_numeric. simpl exact_frac.
    pose proof (parse_exact_value s Hx) as H.
    destruct (parse_bigf s) as [| |b x].
    + destruct (scan_exact s); try contradiction. reflexivity.
    + destruct (scan_exact s); try contradiction. reflexivity.
    + destruct b as [nb|m e]; destruct (scan_exact s) as [| |n'|n d]; try contradiction.
      * apply Hinf.
      * destruct H as [Hd Hv].
        rewrite Hk. apply spec_frac_equiv; [apply dy_frac_den_pos|exact Hd|exact Hv].
Qed.

Lemma existsb_false_in {A} (f : A -> bool) l x : existsb f l = false -> In x l -> f x = false.
Proof.
  intros H Hin. destruct (f x) eqn:E; [|reflexivity].
  assert (existsb f l = true) by (apply existsb_exists; exists x; auto). congruence.
Qed.

Lemma conv_all_ext f g l : (forall x, In x l -> f x = g x) -> conv_all f l = conv_all g l.
Proof.
  induction l as [|x r IH]; intro H; simpl; [reflexivity|].
  rewrite (H x) by (left; reflexivity). rewrite IH by (intros y Hy; apply H; right; exact Hy). reflexivity.
Qed.

Lemma conv_all_kv_ext f g l : (forall kv, In kv l -> f (snd kv) = g (snd kv)) -> conv_all_kv f l = conv_all_kv g l.
Proof.
  induction l as [|[k x] r IH]; intro H; simpl; [reflexivity|].
  pose proof (H (k, x) (or_introl eq_refl)) as Hx. simpl in Hx. rewrite Hx.
  rewrite IH by (intros y Hy; apply H; right; exact Hy). reflexivity.
Qed.

(* Values are converted to the declared type exactly, or the conversion fails -- PARTIAL: under
   the hypothesis that every decimal string given for an int/uint is exactly representable in
   the 64 bits big.ParseFloat keeps.  Without it the statement is false: see
   convert_fraction_rounded_refuted.  (The former second hypothesis "no Int64() clamp" is gone
   with the repair fd0d452 of finding F8.) *)
Theorem convert_exact_or_error_partial ext t : forall v,
  conv_flag num_inexact t v = false ->
  convert ext t v = spec_convert ext t v.
Proof.
  induction t as [| | | | |t IH|t IH| | | | |]; intros v Hx; try reflexivity.
  - simpl in *. apply conv_numeric_spec; auto using conv_int_bigf_spec.
  - simpl in *. apply conv_numeric_spec; auto using conv_uint_bigf_spec.
  - simpl in *. destruct v as [|b|f|s|l|l]; try reflexivity.
    apply conv_all_ext. intros x Hin. apply IH; eapply existsb_false_in; eauto.
  - simpl in *. destruct v as [|b|f|s|l|l]; try reflexivity.
    apply conv_all_kv_ext. intros kv Hin. apply IH.
    apply (existsb_false_in _ _ _ Hx Hin).
Qed.

Lemma convert_numeric_spec_int ext v :
  num_inexact v = false -> exact_frac v <> SErr ->
  convert ext TInt v = spec_int min_int64 max_int64 VInt v /\
  convert ext TUint v = spec_int 0 max_uint64 VUint v.
Proof.
  intros Hx Hf.
  rewrite (convert_exact_or_error_partial ext TInt v Hx), (convert_exact_or_error_partial ext TUint v Hx).
  simpl. destruct v as [|b|f|s|l|l]; try (split; reflexivity).
  destruct f as [|n|m e]; try (split; reflexivity). exfalso. apply Hf. reflexivity.
Qed.

(* in particular: an accepted int is the exact value of what the context carried *)
Corollary convert_int_exact_partial ext v z n d :
  num_inexact v = false ->
  convert ext TInt v = COk (VInt z) -> exact_frac v = SFrac n d ->
  n = z * d /\ min_int64 <= z <= max_int64.
Proof.
  intros Hx Hcv Hf.
  assert (Hne : exact_frac v <> SErr) by (rewrite Hf; discriminate).
  destruct (convert_numeric_spec_int ext v Hx Hne) as [Hs _]. rewrite Hs in Hcv. clear Hs.
  rewrite spec_int_frac, Hf in Hcv. unfold spec_frac in Hcv.
  destruct (n mod d =? 0) eqn:Em; [|discriminate]. apply Z.eqb_eq in Em.
  destruct ((min_int64 <=? n / d) && (n / d <=? max_int64)) eqn:Er; [|discriminate].
  inversion Hcv; subst z. apply andb_true_iff in Er. destruct Er as [E1 E2].
  apply Z.leb_le in E1. apply Z.leb_le in E2. split; [|lia].
  destruct (Z.eq_dec d 0) as [->|Hd].
  - rewrite Zmod_0_r in Em. lia.
  - pose proof (Z.div_mod n d Hd). lia.
Qed.

Lemma spec_frac_out_of_range lo hi mk n d :
  0 < d -> (n < lo * d \/ hi * d < n) -> spec_frac lo hi mk n d = CErr.
Proof.
  intros Hd Hr. unfold spec_frac. destruct (n mod d =? 0) eqn:Em; [|reflexivity].
  apply Z.eqb_eq in Em. apply Z.mod_divide in Em; [|lia]. destruct Em as [k Hk]. subst n.
  rewrite Z.div_mul by lia.
  destruct ((lo <=? k) && (k <=? hi)) eqn:Er; [|reflexivity].
  apply andb_true_iff in Er. destruct Er as [E1 E2]. apply Z.leb_le in E1. apply Z.leb_le in E2.
  exfalso. destruct Hr as [Hr|Hr]; nia.
Qed.

(* a value beyond the range of the declared integer type is a type error (it used to be clamped):
   exact value n/d below lo or above hi.  Hypothesis: the value was not inexactly parsed. *)
Theorem convert_out_of_range_is_error ext v n d :
  num_inexact v = false -> exact_frac v = SFrac n d -> 0 < d ->
  ((n < min_int64 * d \/ max_int64 * d < n) -> convert ext TInt v = CErr) /\
  ((n < 0 \/ max_uint64 * d < n) -> convert ext TUint v = CErr).
Proof.
  intros Hx Hf Hd.
  assert (Hne : exact_frac v <> SErr) by (rewrite Hf; discriminate).
  destruct (convert_numeric_spec_int ext v Hx Hne) as [Hi Hu]. rewrite Hi, Hu, !spec_int_frac, Hf.
  split; intro Hr; apply spec_frac_out_of_range; auto.
Qed.

(* every uint64, up to 2^64-1, converts to itself (values above MaxInt64 used to become MaxInt64) *)
Theorem convert_uint_full_range ext v z d :
  num_inexact v = false -> exact_frac v = SFrac (z * d) d -> 0 < d ->
  0 <= z <= max_uint64 ->
  convert ext TUint v = COk (VUint z).
Proof.
  intros Hx Hf Hd Hz.
  assert (Hne : exact_frac v <> SErr) by (rewrite Hf; discriminate).
  destruct (convert_numeric_spec_int ext v Hx Hne) as [_ Hu]. rewrite Hu, spec_int_frac, Hf.
  unfold spec_frac. rewrite Z.mod_mul by lia. simpl (0 =? 0). cbv iota.
  rewrite Z.div_mul by lia.
  replace (0 <=? z) with true by (symmetry; apply Z.leb_le; lia).
  replace (z <=? max_uint64) with true by (symmetry; apply Z.leb_le; lia). reflexivity.
Qed.

(* ------------------------------------------------------------------------------------------ *)
(* the whole evaluation against the property's reading of it                                   *)

Lemma cast_params_ext conv1 conv2 ps m :
  (forall n t v, In (n, t) ps -> lookup n m = Some v -> conv1 t (as_interface v) = conv2 t (as_interface v)) ->
  cast_params conv1 ps m = cast_params conv2 ps m.
Proof.
  induction ps as [|[n0 t0] ps IH]; intro H; simpl; [reflexivity|].
  rewrite IH by (intros n t v Hin; apply H; right; exact Hin).
  destruct (lookup n0 m) as [v|] eqn:El; [|reflexivity].
  rewrite (H n0 t0 v (or_introl eq_refl) El). reflexivity.
Qed.

Lemma evaluate_ext conv1 conv2 c req stored :
  (forall n t v, In (n, t) (c_params c) -> lookup n (merge req stored) = Some v ->
                 conv1 t (as_interface v) = conv2 t (as_interface v)) ->
  evaluate conv1 c req stored = evaluate conv2 c req stored.
Proof.
  intro H. unfold evaluate, cast. rewrite (cast_params_ext conv1 conv2 _ _ H). reflexivity.
Qed.

(* The code computes what the property describes (exact conversion or failure, stored context
   first, every declared parameter bound, met <=> true) -- PARTIAL: whenever no conversion of
   this evaluation took an inexactly parsed decimal string for an int/uint. *)
Theorem evaluate_matches_spec_partial ext tname stored ec req :
  (forall c, ec = Some c -> eval_flag num_inexact c req stored = false) ->
  evaluate_tuple_condition (convert ext) tname stored ec req =
  evaluate_tuple_condition (spec_convert ext) tname stored ec req.
Proof.
  intro Hf. unfold evaluate_tuple_condition. destruct tname as [|b0 tn]; [reflexivity|].
  destruct ec as [c|]; [|reflexivity]. pose proof (Hf c eq_refl) as Hx.
  rewrite (evaluate_ext (convert ext) (spec_convert ext) c req stored); [reflexivity|].
  intros n t v Hin Hl. unfold eval_flag in Hx. revert Hx Hl.
  destruct (merge req stored) as [|kv m']; [discriminate|]. intros Hx Hl.
  pose proof (existsb_false_in _ _ _ Hx Hin) as Hx1.
  cbv beta in Hx1. simpl fst in Hx1. simpl snd in Hx1. rewrite Hl in Hx1.
  apply convert_exact_or_error_partial; assumption.
Qed.

(* ------------------------------------------------------------------------------------------ *)
(* the refutations of the full-strength statements (findings)                                  *)

Definition no_ext : N -> bytes -> bool := fun _ _ => false.

(* HISTORICAL (finding F8, repaired by fd0d452): the int64 converter as it was, dropping the
   accuracy of big.Float.Int64().  Kept only to document what the repaired code no longer does. *)
Definition old_clamp64 (z : Z) : Z :=
  if z <? min_int64 then min_int64 else if max_int64 <? z then max_int64 else z.
Definition old_conv_int_bigf (b : bigf) : cres :=
  match b with
  | BInf _ => CErr
  | BFin m e => if is_int m e then COk (VInt (old_clamp64 (int_val m e))) else CErr
  end.
(* 1e19 = 19073486328125 * 2^19: MaxInt64 then, a type error now *)
Example historical_int_clamp :
  old_conv_int_bigf (BFin 19073486328125 19) = COk (VInt max_int64) /\
  convert no_ext TInt (JNum (FFin 19073486328125 19)) = CErr /\
  convert no_ext TUint (JNum (FFin 19073486328125 19)) = COk (VUint 10000000000000000000) /\
  convert no_ext TUint (JNum (FFin 57220458984375 19)) = CErr.   (* 3e19 *)
Proof. vm_compute. auto. Qed.
(* "18446744073709551615" for a uint: MaxInt64 then, itself now *)
Example historical_uint_max :
  convert no_ext TUint (JStr [49;56;52;52;54;55;52;52;48;55;51;55;48;57;53;53;49;54;49;53]%N) = COk (VUint max_uint64).
Proof. vm_compute. auto. Qed.

(* OPEN finding: "1.00000000000000000000000001" given for an int parameter becomes 1 *)
Definition s_one_and_a_bit : bytes :=
  [49;46;48;48;48;48;48;48;48;48;48;48;48;48;48;48;48;48;48;48;48;48;48;48;48;48;48;49]%N.
Theorem convert_fraction_rounded_refuted :
  convert no_ext TInt (JStr s_one_and_a_bit) = COk (VInt 1) /\
  spec_convert no_ext TInt (JStr s_one_and_a_bit) = CErr /\
  num_rounded (JStr s_one_and_a_bit) = true.
Proof. vm_compute. auto. Qed.

(* the condition  c1(y: int) { y == 1 }  is met by the request context y = "1.00000000000000000000000001" *)
Definition k_y : bytes := [121]%N.
Definition k_c1y : bytes := [99; 49]%N.
Definition cond_c1y : condition :=
  {| c_name := k_c1y; c_params := [(k_y, TInt)]; c_expr := ECmp OEq (EParam k_y) (EInt 1) |}.
Theorem met_iff_exact_true_refuted :
  evaluate_tuple_condition (convert no_ext) k_c1y [] (Some cond_c1y) [(k_y, JStr s_one_and_a_bit)] = TMet /\
  evaluate_tuple_condition (spec_convert no_ext) k_c1y [] (Some cond_c1y) [(k_y, JStr s_one_and_a_bit)] = TErr EType.
Proof. vm_compute. auto. Qed.

(* a bound declared parameter whose conversion fails makes the evaluation fail *)
Theorem conversion_failure_is_failure conv tname stored c req n t v :
  tname <> [] ->
  In (n, t) (c_params c) -> lookup n (merge req stored) = Some v -> conv t (as_interface v) = CErr ->
  is_failure (evaluate_tuple_condition conv tname stored (Some c) req) = true.
Proof.
  intros Hname Hin Hl Hc. unfold evaluate_tuple_condition.
  destruct tname as [|b0 tn]; [congruence|].
  destruct (negb (beqb (b0 :: tn) (c_name c))); [reflexivity|].
  unfold evaluate. destruct (negb (compiles c)); [reflexivity|].
  destruct (cast conv (c_params c) (merge req stored)) as [g| | |] eqn:Ec; try reflexivity.
  exfalso. unfold cast in Ec. destruct (merge req stored) as [|kv m'] eqn:Em; [discriminate|].
  destruct (c_params c) as [|p ps'] eqn:Ep; [discriminate|].
  eapply (cast_params_conv_error conv (p :: ps') (kv :: m')); eauto.
Qed.

(* no evaluation panics: structpb's AsInterface never hands a NaN to big.NewFloat *)
Lemma as_interface_no_nan_top v : forall f, as_interface v = JNum f -> f <> FNaN.
Proof.
  intros f H. destruct v as [|b|f0|s|l|l]; simpl in H; try discriminate.
  destruct f0 as [|n|m e]; [discriminate|destruct n; discriminate|]. inversion H. discriminate.
Qed.
