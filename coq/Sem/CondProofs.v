(* Proofs about the condition-evaluation model Sem/Cond.v (C25). *)
From OFGA Require Import Sem.Cond.
From Coq Require Import ZArith Lia Bool List.
Import ListNotations.
Open Scope Z_scope.

(* ========================================================================================== *)
(* 1. The four-valued logic of && / || : evaluation order is irrelevant                        *)

Lemma and4_comm a b : and4 a b = and4 b a.
Proof. destruct a, b; reflexivity. Qed.
Lemma or4_comm a b : or4 a b = or4 b a.
Proof. destruct a, b; reflexivity. Qed.
Lemma and4_assoc a b c : and4 a (and4 b c) = and4 (and4 a b) c.
Proof. destruct a, b, c; reflexivity. Qed.
Lemma or4_assoc a b c : or4 a (or4 b c) = or4 (or4 a b) c.
Proof. destruct a, b, c; reflexivity. Qed.
Lemma and4_false_absorbs a : and4 B4F a = B4F /\ and4 a B4F = B4F.
Proof. destruct a; split; reflexivity. Qed.
Lemma or4_true_absorbs a : or4 B4T a = B4T /\ or4 a B4T = B4T.
Proof. destruct a; split; reflexivity. Qed.
Lemma and4_true_neutral a : and4 B4T a = a.
Proof. destruct a; reflexivity. Qed.
Lemma or4_false_neutral a : or4 B4F a = a.
Proof. destruct a; reflexivity. Qed.
Lemma not4_involutive a : not4 (not4 a) = a.
Proof. destruct a; reflexivity. Qed.
Lemma de_morgan_and a b : not4 (and4 a b) = or4 (not4 a) (not4 b).
Proof. destruct a, b; reflexivity. Qed.
Lemma de_morgan_or a b : not4 (or4 a b) = and4 (not4 a) (not4 b).
Proof. destruct a, b; reflexivity. Qed.
Lemma and4_idem a : and4 a a = a.
Proof. destruct a; reflexivity. Qed.
Lemma or4_idem a : or4 a a = a.
Proof. destruct a; reflexivity. Qed.

Lemma to_of_b4 b : to_b4 (of_b4 b) = b.
Proof. destruct b; reflexivity. Qed.

(* on expressions: operands of && and || may be swapped and regrouped *)
Lemma eval_and_comm g a b : eval g (EAnd a b) = eval g (EAnd b a).
Proof. simpl. rewrite and4_comm. reflexivity. Qed.
Lemma eval_or_comm g a b : eval g (EOr a b) = eval g (EOr b a).
Proof. simpl. rewrite or4_comm. reflexivity. Qed.
Lemma eval_and_assoc g a b c : eval g (EAnd a (EAnd b c)) = eval g (EAnd (EAnd a b) c).
Proof. simpl. rewrite !to_of_b4, and4_assoc. reflexivity. Qed.
Lemma eval_or_assoc g a b c : eval g (EOr a (EOr b c)) = eval g (EOr (EOr a b) c).
Proof. simpl. rewrite !to_of_b4, or4_assoc. reflexivity. Qed.

(* CEL's error absorption: a false conjunct / a true disjunct decides, whatever the other
   operand does (error, unknown, non-bool) *)
Lemma eval_and_false_absorbs g a b :
  eval g a = ROk (VBool false) -> eval g (EAnd a b) = ROk (VBool false) /\ eval g (EAnd b a) = ROk (VBool false).
Proof.
  intro H. simpl. rewrite H. simpl. split; [reflexivity|].
  destruct (to_b4 (eval g b)); reflexivity.
Qed.
Lemma eval_or_true_absorbs g a b :
  eval g a = ROk (VBool true) -> eval g (EOr a b) = ROk (VBool true) /\ eval g (EOr b a) = ROk (VBool true).
Proof.
  intro H. simpl. rewrite H. simpl. split; [reflexivity|].
  destruct (to_b4 (eval g b)); reflexivity.
Qed.

(* ========================================================================================== *)
(* 2. Context merge                                                                            *)

Lemma beqb_sym a b : beqb a b = beqb b a.
Proof.
  destruct (beqb a b) eqn:E1, (beqb b a) eqn:E2; try reflexivity.
  - apply beqb_eq in E1. subst. rewrite beqb_refl in E2. discriminate.
  - apply beqb_eq in E2. subst. rewrite beqb_refl in E1. discriminate.
Qed.

Lemma lookup_remove_key {A} (k k' : bytes) (m : list (bytes * A)) :
  lookup k (remove_key k' m) = if beqb k k' then None else lookup k m.
Proof.
  induction m as [|[k0 v0] m IH]; simpl.
  - destruct (beqb k k'); reflexivity.
  - destruct (beqb k' k0) eqn:E0.
    + rewrite IH. apply beqb_eq in E0. subst k0. destruct (beqb k k'); reflexivity.
    + simpl. rewrite IH. destruct (beqb k k') eqn:E1; [|reflexivity].
      apply beqb_eq in E1. subst k'. rewrite E0. reflexivity.
Qed.

Lemma lookup_set_key {A} (k k' : bytes) (v : A) (m : list (bytes * A)) :
  lookup k (set_key k' v m) = if beqb k k' then Some v else lookup k m.
Proof.
  unfold set_key. simpl. destruct (beqb k k') eqn:E; [reflexivity|].
  rewrite lookup_remove_key, E. reflexivity.
Qed.

(* the stored (tuple) context takes precedence, parameter by parameter *)
Lemma merge_stored_wins (req stored : ctx) (k : bytes) :
  lookup k (merge req stored) =
  match lookup k stored with Some v => Some v | None => lookup k req end.
Proof.
  unfold merge. induction stored as [|[k0 v0] st IH]; [reflexivity|].
  simpl fold_right. rewrite lookup_set_key. simpl. destruct (beqb k k0); [reflexivity|exact IH].
Qed.

Lemma merge_nil_l stored k : lookup k (merge [] stored) = lookup k stored.
Proof. rewrite merge_stored_wins. destruct (lookup k stored); reflexivity. Qed.

Lemma merge_empty_iff req stored : merge req stored = [] <-> req = [] /\ stored = [].
Proof.
  unfold merge. destruct stored as [|[k v] st]; simpl.
  - split; [intro H; auto | intros [H _]; exact H].
  - split; [discriminate | intros [_ H]; discriminate].
Qed.

(* ========================================================================================== *)
(* 3. Cast, missing parameters, and when a condition is met                                    *)

Definition is_failure (r : tres) : bool :=
  match r with TMet | TNotMet => false | _ => true end.

(* every declared parameter has a converted value *)
Definition all_present (ps : params) (g : env) : bool :=
  forallb (fun n => has_key n g) (map fst ps).

(* parameters an expression mentions *)
Fixpoint params_in (e : expr) : list bytes :=
  match e with
  | EParam n => [n]
  | ECmp _ a b | EAnd a b | EOr a b | EIn a b | EIdx a b => params_in a ++ params_in b
  | ENot a => params_in a
  | _ => []
  end.

Lemma has_key_cons {A} (n n0 : bytes) (v : A) (g : list (bytes * A)) :
  has_key n ((n0, v) :: g) = beqb n n0 || has_key n g.
Proof. unfold has_key. simpl. destruct (beqb n n0); reflexivity. Qed.

Lemma missing_nil_iff ps g : missing_params ps g = [] <-> all_present ps g = true.
Proof.
  unfold missing_params, all_present. induction (map fst ps) as [|n l IH]; simpl; [tauto|].
  destruct (has_key n g); simpl; [exact IH|]. split; discriminate.
Qed.

Section WithConv.
Variable conv : ptype -> jval -> cres.

Lemma cast_params_keys ps m : forall g n,
  cast_params conv ps m = CastOk g -> has_key n g = true -> has_key n m = true.
Proof.
  induction ps as [|[n0 t0] ps IH]; intros g n Hc Hk; simpl in Hc.
  - inversion Hc; subst. discriminate.
  - destruct (lookup n0 m) as [v|] eqn:El.
    + destruct (conv t0 (as_interface v)) as [cv| | |]; try discriminate.
      destruct (cast_params conv ps m) as [g'| | |] eqn:Ec; try discriminate.
      inversion Hc; subst. rewrite has_key_cons in Hk.
      destruct (beqb n n0) eqn:En.
      * apply beqb_eq in En. subst. unfold has_key. rewrite El. reflexivity.
      * simpl in Hk. eapply IH; eauto.
    + eapply IH; eauto.
Qed.

Lemma cast_keys ps m g n :
  cast conv ps m = CastOk g -> has_key n g = true -> has_key n m = true.
Proof.
  unfold cast. destruct m as [|kv m'].
  - intros H Hk. inversion H; subst. discriminate.
  - destruct ps as [|p ps']; [discriminate|]. apply cast_params_keys.
Qed.

(* the converted context: exactly the declared parameters that the merged context binds, each
   converted to its declared type *)
Lemma cast_params_lookup ps m : forall g,
  cast_params conv ps m = CastOk g ->
  forall n t, lookup n ps = Some t ->
  lookup n g = match lookup n m with
               | Some v => match conv t (as_interface v) with COk cv => Some cv | _ => None end
               | None => None
               end.
Proof.
  induction ps as [|[n0 t0] ps IH]; intros g Hc n t Hl; simpl in Hl; [discriminate|].
  simpl in Hc. destruct (beqb n n0) eqn:En.
  - inversion Hl; subst t0. apply beqb_eq in En. subst n0.
    destruct (lookup n m) as [v|] eqn:El.
    + destruct (conv t (as_interface v)) as [cv| | |]; try discriminate.
      destruct (cast_params conv ps m) as [g'| | |]; try discriminate.
      inversion Hc; subst. simpl. rewrite beqb_refl. reflexivity.
    + destruct (lookup n g) as [cv|] eqn:Eg; [|reflexivity].
      assert (Hk : has_key n m = true).
      { eapply cast_params_keys; eauto. unfold has_key. rewrite Eg. reflexivity. }
      unfold has_key in Hk. rewrite El in Hk. discriminate.
  - destruct (lookup n0 m) as [v0|] eqn:El0.
    + destruct (conv t0 (as_interface v0)) as [cv| | |]; try discriminate.
      destruct (cast_params conv ps m) as [g'| | |] eqn:Ec; try discriminate.
      inversion Hc; subst. simpl. rewrite En. eapply IH; eauto.
    + eapply IH; eauto.
Qed.

Lemma cast_lookup ps m g :
  cast conv ps m = CastOk g ->
  forall n t, lookup n ps = Some t ->
  lookup n g = match lookup n m with
               | Some v => match conv t (as_interface v) with COk cv => Some cv | _ => None end
               | None => None
               end.
Proof.
  unfold cast. destruct m as [|kv m'].
  - intros H n t _. inversion H; subst. reflexivity.
  - destruct ps as [|p ps']; [discriminate|]. apply cast_params_lookup.
Qed.

(* a conversion failure of any bound declared parameter makes the cast fail *)
Lemma cast_params_conv_error ps m n t v :
  In (n, t) ps -> lookup n m = Some v -> conv t (as_interface v) = CErr ->
  forall g, cast_params conv ps m <> CastOk g.
Proof.
  induction ps as [|[n0 t0] ps IH]; intros Hin Hl Hc g; [destruct Hin|].
  simpl. destruct Hin as [Heq|Hin].
  - inversion Heq; subst. rewrite Hl, Hc. discriminate.
  - destruct (lookup n0 m) as [v0|]; [|apply IH; assumption].
    destruct (conv t0 (as_interface v0)); try discriminate.
    destruct (cast_params conv ps m) as [g'| | |] eqn:Ec; try discriminate.
    exfalso. eapply IH; eauto.
Qed.

Lemma missing_nonempty ps g n :
  In n (map fst ps) -> has_key n g = false -> missing_params ps g <> [].
Proof.
  intros Hin Hk Hnil. unfold missing_params in Hnil.
  assert (Hf : In n (filter (fun n0 => negb (has_key n0 g)) (map fst ps))).
  { apply filter_In. split; [exact Hin|]. rewrite Hk. reflexivity. }
  rewrite Hnil in Hf. destruct Hf.
Qed.

(* A declared parameter that neither context binds makes the evaluation fail -- for every
   expression, also one that would short-circuit, and whatever else the contexts contain. *)
Theorem missing_param_is_error tname stored c req n :
  tname <> [] ->
  In n (map fst (c_params c)) ->
  lookup n (merge req stored) = None ->
  is_failure (evaluate_tuple_condition conv tname stored (Some c) req) = true.
Proof.
  intros Hname Hin Hl. unfold evaluate_tuple_condition.
  destruct tname as [|b tn]; [congruence|].
  destruct (negb (beqb (b :: tn) (c_name c))); [reflexivity|].
  unfold evaluate. destruct (negb (compiles c)); [reflexivity|].
  destruct (cast conv (c_params c) (merge req stored)) as [g| | |] eqn:Ec; try reflexivity.
  assert (Hk : has_key n g = false).
  { destruct (has_key n g) eqn:E; [|reflexivity].
    pose proof (cast_keys _ _ _ _ Ec E) as Hm. unfold has_key in Hm. rewrite Hl in Hm. discriminate. }
  pose proof (missing_nonempty _ _ _ Hin Hk) as Hne.
  destruct (eval g (c_expr c)) as [v| |]; try reflexivity.
  - destruct v; try reflexivity. destruct (missing_params (c_params c) g); [congruence|reflexivity].
  - destruct (missing_params (c_params c) g); [congruence|reflexivity].
Qed.

(* The result is "met" exactly when the tuple is unconditioned, or the named condition is the
   one supplied, compiles, every declared parameter is bound and converts, and the expression
   evaluates to true over the merged, converted context. *)
Theorem met_iff_true tname stored ec req :
  evaluate_tuple_condition conv tname stored ec req = TMet <->
  tname = [] \/
  exists c g, ec = Some c /\ beqb tname (c_name c) = true /\ compiles c = true /\
              cast conv (c_params c) (merge req stored) = CastOk g /\
              all_present (c_params c) g = true /\
              eval g (c_expr c) = ROk (VBool true).
Proof.
  unfold evaluate_tuple_condition. destruct tname as [|b tn].
  - split; [left; reflexivity | reflexivity].
  - split.
    + intro H. right. destruct ec as [c|]; [|discriminate].
      destruct (beqb (b :: tn) (c_name c)) eqn:En; simpl in H; [|discriminate].
      unfold evaluate in H. destruct (compiles c) eqn:Eco; simpl in H; [|discriminate].
      destruct (cast conv (c_params c) (merge req stored)) as [g| | |] eqn:Ec; try discriminate.
      exists c, g. repeat split; try assumption; try reflexivity.
      * apply missing_nil_iff.
        destruct (eval g (c_expr c)) as [v| |]; try discriminate;
          [destruct v; try discriminate|];
          destruct (missing_params (c_params c) g); try reflexivity; discriminate.
      * destruct (eval g (c_expr c)) as [v| |]; try discriminate.
        -- destruct v; try discriminate.
           destruct (missing_params (c_params c) g); [|discriminate].
           destruct b0; [reflexivity|discriminate].
        -- destruct (missing_params (c_params c) g); discriminate.
    + intros [H|H]; [discriminate|].
      destruct H as (c & g & -> & En & Eco & Ec & Hall & Hev).
      rewrite En. simpl. unfold evaluate. rewrite Eco. simpl. rewrite Ec, Hev.
      apply missing_nil_iff in Hall. rewrite Hall. reflexivity.
Qed.

End WithConv.

(* ------------------------------------------------------------------------------------------ *)
(* With every declared parameter bound the evaluation is three-valued: no "unknown" remains    *)

Lemma strict2_unk f a b :
  (forall x y, f x y <> RUnk) -> strict2 f a b = RUnk -> a = RUnk \/ b = RUnk.
Proof.
  intros Hf H. destruct a as [x| |]; simpl in H; [|left; reflexivity|discriminate].
  destruct b as [y| |]; [|right; reflexivity|discriminate]. exfalso. eapply Hf; eauto.
Qed.

Lemma cmp_vals_not_unk op x y : cmp_vals op x y <> RUnk.
Proof.
  unfold cmp_vals. destruct (scalar_compare x y) as [[c|]|]; try discriminate; destruct op; discriminate.
Qed.
Lemma in_val_not_unk x y : in_val x y <> RUnk.
Proof. unfold in_val. destruct y; try discriminate. destruct x; discriminate. Qed.
Lemma idx_val_not_unk x y : idx_val x y <> RUnk.
Proof.
  unfold idx_val. destruct x; try discriminate. destruct y; try discriminate.
  destruct (lookup s l); discriminate.
Qed.

Lemma to_b4_unk r : to_b4 r = B4U -> r = RUnk.
Proof. destruct r as [v| |]; simpl; try discriminate; [|reflexivity]. destruct v; try discriminate. destruct b; discriminate. Qed.
Lemma of_b4_unk b : of_b4 b = RUnk -> b = B4U.
Proof. destruct b; simpl; try discriminate. reflexivity. Qed.
Lemma and4_unk a b : and4 a b = B4U -> a = B4U \/ b = B4U.
Proof. destruct a, b; simpl; try discriminate; auto. Qed.
Lemma or4_unk a b : or4 a b = B4U -> a = B4U \/ b = B4U.
Proof. destruct a, b; simpl; try discriminate; auto. Qed.
Lemma not4_unk a : not4 a = B4U -> a = B4U.
Proof. destruct a; simpl; try discriminate; auto. Qed.

(* "unknown" only comes from a parameter the converted context does not bind *)
Lemma eval_unknown_missing g e :
  eval g e = RUnk -> exists n, In n (params_in e) /\ lookup n g = None.
Proof.
  induction e as [b|s|z|z|f|n|op a IHa b IHb|a IHa b IHb|a IHa b IHb|a IHa|a IHa b IHb|l|m IHm k IHk];
    simpl; intro H; try discriminate.
  - destruct (lookup n g) eqn:E; [discriminate|]. exists n. split; [left; reflexivity|exact E].
  - apply strict2_unk in H; [|apply cmp_vals_not_unk].
    destruct H as [H|H]; [apply IHa in H|apply IHb in H]; destruct H as (n & Hin & Hl);
      exists n; split; auto; apply in_or_app; auto.
  - apply of_b4_unk, and4_unk in H. destruct H as [H|H]; apply to_b4_unk in H;
      [apply IHa in H|apply IHb in H]; destruct H as (n & Hin & Hl);
      exists n; split; auto; apply in_or_app; auto.
  - apply of_b4_unk, or4_unk in H. destruct H as [H|H]; apply to_b4_unk in H;
      [apply IHa in H|apply IHb in H]; destruct H as (n & Hin & Hl);
      exists n; split; auto; apply in_or_app; auto.
  - apply of_b4_unk, not4_unk, to_b4_unk in H. apply IHa in H. exact H.
  - apply strict2_unk in H; [|apply in_val_not_unk].
    destruct H as [H|H]; [apply IHa in H|apply IHb in H]; destruct H as (n & Hin & Hl);
      exists n; split; auto; apply in_or_app; auto.
  - apply strict2_unk in H; [|apply idx_val_not_unk].
    destruct H as [H|H]; [apply IHm in H|apply IHk in H]; destruct H as (n & Hin & Hl);
      exists n; split; auto; apply in_or_app; auto.
Qed.

(* a well-typed expression mentions declared parameters only *)
Lemma lookup_in_keys {A} n (ps : list (bytes * A)) t : lookup n ps = Some t -> In n (map fst ps).
Proof.
  induction ps as [|[n0 t0] ps IH]; simpl; [discriminate|].
  destruct (beqb n n0) eqn:E; [apply beqb_eq in E; subst; auto|auto].
Qed.

Lemma typed_params_declared ps e : forall t,
  type_of ps e = Some t -> forall n, In n (params_in e) -> In n (map fst ps).
Proof.
  induction e as [b|s|z|z|f|n|op a IHa b IHb|a IHa b IHb|a IHa b IHb|a IHa|a IHa b IHb|l|m IHm k IHk];
    simpl; intros t Ht n0 Hin; try (destruct Hin; fail).
  - destruct Hin as [<-|[]]. destruct (lookup n ps) eqn:E; [|discriminate]. eapply lookup_in_keys; eauto.
  - destruct (type_of ps a) eqn:Ea; [|discriminate]. destruct (type_of ps b) eqn:Eb; [|discriminate].
    apply in_app_or in Hin. destruct Hin; eauto.
  - destruct (type_of ps a) eqn:Ea; [|discriminate]. destruct (type_of ps b) eqn:Eb;
      [|destruct e; discriminate].
    apply in_app_or in Hin. destruct Hin; eauto.
  - destruct (type_of ps a) eqn:Ea; [|discriminate]. destruct (type_of ps b) eqn:Eb;
      [|destruct e; discriminate].
    apply in_app_or in Hin. destruct Hin; eauto.
  - destruct (type_of ps a) eqn:Ea; [|discriminate]. eauto.
  - destruct (type_of ps a) eqn:Ea; [|discriminate]. destruct (type_of ps b) eqn:Eb;
      [|destruct e; discriminate].
    apply in_app_or in Hin. destruct Hin; eauto.
  - destruct (type_of ps m) eqn:Em; [|discriminate]. destruct (type_of ps k) eqn:Ek;
      [|destruct e; discriminate].
    apply in_app_or in Hin. destruct Hin; eauto.
Qed.

Lemma eval_total_when_present c g :
  compiles c = true -> all_present (c_params c) g = true -> eval g (c_expr c) <> RUnk.
Proof.
  intros Hco Hall Hu. apply eval_unknown_missing in Hu. destruct Hu as (n & Hin & Hl).
  unfold compiles in Hco. apply andb_true_iff in Hco. destruct Hco as [_ Hty].
  destruct (type_of (c_params c) (c_expr c)) as [t|] eqn:Et; [|discriminate].
  pose proof (typed_params_declared _ _ _ Et _ Hin) as Hd.
  unfold all_present in Hall. rewrite forallb_forall in Hall. apply Hall in Hd.
  unfold has_key in Hd. rewrite Hl in Hd. discriminate.
Qed.

Section WithConv2.
Variable conv : ptype -> jval -> cres.

(* "not met" exactly when the expression evaluates to false over the merged, converted context *)
Theorem notmet_iff_false tname stored ec req :
  evaluate_tuple_condition conv tname stored ec req = TNotMet <->
  tname <> [] /\
  exists c g, ec = Some c /\ beqb tname (c_name c) = true /\ compiles c = true /\
              cast conv (c_params c) (merge req stored) = CastOk g /\
              all_present (c_params c) g = true /\
              eval g (c_expr c) = ROk (VBool false).
Proof.
  unfold evaluate_tuple_condition. destruct tname as [|b tn].
  - split; [discriminate | intros [H _]; congruence].
  - split.
    + intro H. split; [discriminate|]. destruct ec as [c|]; [|discriminate].
      destruct (beqb (b :: tn) (c_name c)) eqn:En; simpl in H; [|discriminate].
      unfold evaluate in H. destruct (compiles c) eqn:Eco; simpl in H; [|discriminate].
      destruct (cast conv (c_params c) (merge req stored)) as [g| | |] eqn:Ec; try discriminate.
      assert (Hall : all_present (c_params c) g = true).
      { apply missing_nil_iff.
        destruct (eval g (c_expr c)) as [v| |]; try discriminate;
          [destruct v; try discriminate|];
          destruct (missing_params (c_params c) g); try reflexivity; discriminate. }
      exists c, g. repeat split; try assumption; try reflexivity.
      pose proof (eval_total_when_present c g Eco Hall) as Hnu.
      destruct (eval g (c_expr c)) as [v| |]; try discriminate; [|congruence].
      destruct v; try discriminate.
      destruct (missing_params (c_params c) g); [|discriminate].
      destruct b0; [discriminate|reflexivity].
    + intros [_ H].
      destruct H as (c & g & -> & En & Eco & Ec & Hall & Hev).
      rewrite En. simpl. unfold evaluate. rewrite Eco. simpl. rewrite Ec, Hev.
      apply missing_nil_iff in Hall. rewrite Hall. reflexivity.
Qed.

End WithConv2.
