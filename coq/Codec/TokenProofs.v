(* Proofs about the continuation-token model (Codec/Token.v). *)
From OFGA Require Import Codec.Token Codec.Base64Proofs.
Open Scope N_scope.

(* ---- the "ulid|type" serializer ---- *)

(* the exact side condition of the round trip, as a boolean *)
Definition ulid_ok (u : bytes) : bool := negb (beqb u []) && negb (mem c_pipe u).

Lemma ulid_ok_spec u : ulid_ok u = true <-> u <> [] /\ mem c_pipe u = false.
Proof.
  unfold ulid_ok. rewrite andb_true_iff, !negb_true_iff. split; intros [H1 H2]; split; auto.
  - intros ->. discriminate.
  - destruct u; [congruence | reflexivity].
Qed.

Lemma serialize_some u t tok : serialize u t = Some tok <-> u <> [] /\ tok = u ++ c_pipe :: t.
Proof.
  unfold serialize. destruct u; split.
  - discriminate.
  - intros [H _]. congruence.
  - intro H. inversion H. split; [discriminate | reflexivity].
  - intros [_ ->]. reflexivity.
Qed.

Theorem token_roundtrip : forall u t,
  (exists tok, serialize u t = Some tok /\ deserialize tok = Some (u, t)) <->
  (u <> [] /\ mem c_pipe u = false).
Proof.
  intros u t. split.
  - intros (tok & Hs & Hd). apply serialize_some in Hs as [Hne ->]. split; [exact Hne|].
    unfold deserialize in Hd.
    destruct (cut c_pipe (u ++ c_pipe :: t)) as [[u' t']|] eqn:E; [|discriminate].
    destruct u'; [discriminate|]. inversion Hd; subst.
    apply cut_some in E as [_ Hm]. exact Hm.
  - intros [Hne Hm]. exists (u ++ c_pipe :: t). split.
    + apply serialize_some. auto.
    + unfold deserialize. rewrite (cut_app c_pipe u t Hm). destruct u; [congruence | reflexivity].
Qed.

Corollary token_roundtrip_ok : forall u t, ulid_ok u = true ->
  exists tok, serialize u t = Some tok /\ deserialize tok = Some (u, t).
Proof. intros u t H. apply token_roundtrip. apply ulid_ok_spec. exact H. Qed.

(* parse then print is always the identity *)
Theorem deserialize_serialize : forall tok u t,
  deserialize tok = Some (u, t) -> serialize u t = Some tok /\ ulid_ok u = true.
Proof.
  intros tok u t H. unfold deserialize in H.
  destruct (cut c_pipe tok) as [[u' t']|] eqn:E; [|discriminate].
  destruct u' as [|x u']; [discriminate|]. inversion H; subst.
  apply cut_some in E as [-> Hm]. split; [reflexivity|].
  apply ulid_ok_spec. split; [discriminate | exact Hm].
Qed.

Lemma deserialize_app u t : ulid_ok u = true -> deserialize (u ++ c_pipe :: t) = Some (u, t).
Proof.
  intro H. destruct (token_roundtrip_ok u t H) as (tok & Hs & Hd).
  apply serialize_some in Hs as [_ ->]. exact Hd.
Qed.

(* without the side condition the round trip fails: a '|' inside the first component moves the
   boundary ("a|b","c" comes back as "a","b|c") *)
Theorem token_roundtrip_unconditional_refuted :
  exists u t tok u' t', serialize u t = Some tok /\ deserialize tok = Some (u', t') /\ u' <> u.
Proof.
  exists [97; 124; 98], [99], [97; 124; 98; 124; 99], [97], [98; 124; 99].
  repeat split. discriminate.
Qed.

Example deserialize_empty : deserialize [] = None /\ deserialize [124; 120] = None /\
                            deserialize [120] = None /\ serialize [] [120] = None.
Proof. repeat split. Qed.

(* a ULID and a decimal offset (the two shapes the datastores produce) satisfy the side condition *)
Example ulid_ok_examples :
  ulid_ok [48;49;72;80;74;55;52;50;75;51;86;50;74;67;53;65;71;52;88;55;53;69;69;66;48;55] = true /\
  ulid_ok [52; 50] = true /\ ulid_ok [] = false /\ ulid_ok [97; 124; 98] = false.
Proof. repeat split. Qed.

(* ---- encoders ---- *)

Lemma bytes_ok_app a b : bytes_ok (a ++ b) = bytes_ok a && bytes_ok b.
Proof. unfold bytes_ok. apply forallb_app. Qed.

Lemma firstn_skipn_len (n : bytes) (x : bytes) k : length n = k ->
  firstn k (n ++ x) = n /\ skipn k (n ++ x) = x.
Proof.
  intros <-. split.
  - rewrite firstn_app, Nat.sub_diag, firstn_all. simpl. apply app_nil_r.
  - rewrite skipn_app, Nat.sub_diag, skipn_all. reflexivity.
Qed.

Section AEADProofs.
  Variable seal  : bytes -> bytes -> bytes.
  Variable aopen : bytes -> bytes -> option bytes.
  (* [issued n m]: the holder of the key has sealed plaintext [m] under nonce [n] *)
  Variable issued : bytes -> bytes -> Prop.

  (* correctness of the AEAD on what was sealed *)
  Hypothesis open_seal : forall n m, issued n m -> aopen n (seal n m) = Some m.

  Notation gcm_decrypt := (gcm_decrypt aopen).
  Notation gcm_encrypt := (gcm_encrypt seal).
  Notation enc_decode := (enc_decode aopen).
  Notation enc_encode := (enc_encode seal).
  Notation read_changes_resume := (read_changes_resume aopen).
  Notation read_resume := (read_resume aopen).
  Notation issue_token := (issue_token seal).

  (* -- round trips -- *)

  Lemma gcm_decrypt_encrypt n m : length n = nonce_size -> (m <> [] -> issued n m) ->
    gcm_decrypt (gcm_encrypt n m) = Some m.
  Proof.
    intros Hn Hi. destruct m as [|x m]; [reflexivity|].
    assert (Hiss : issued n (x :: m)) by (apply Hi; discriminate).
    unfold Token.gcm_encrypt, Token.gcm_decrypt.
    destruct (n ++ seal n (x :: m)) as [|y r] eqn:E.
    { apply (f_equal (@length N)) in E. rewrite app_length, Hn in E. discriminate. }
    rewrite <- E.
    replace (length (n ++ seal n (x :: m)) <? nonce_size)%nat with false
      by (rewrite app_length, Hn; symmetry; apply Nat.ltb_ge; lia).
    destruct (firstn_skipn_len n (seal n (x :: m)) nonce_size Hn) as [-> ->].
    apply open_seal. exact Hiss.
  Qed.

  (* what [data] has to satisfy for [e] to take it back: bytes for base64, sealed-by-the-key
     for GCM (the nonce is the one Encrypt drew) *)
  Fixpoint enc_pre (e : encoder) (n data : bytes) : Prop :=
    match e with
    | ENoop => True
    | EBase64 => bytes_ok data = true
    | EToken c inner =>
      (c = CGcm -> data <> [] -> issued n data) /\ enc_pre inner n (encrypt seal c n data)
    end.

  Theorem encoder_roundtrip : forall e n data, length n = nonce_size -> enc_pre e n data ->
    enc_decode e (enc_encode e n data) = Some data.
  Proof.
    induction e as [| |c inner IH]; intros n data Hn Hpre; cbn [Token.enc_encode Token.enc_decode].
    - reflexivity.
    - apply b64_decode_encode. exact Hpre.
    - destruct Hpre as [Hiss Hpre]. rewrite (IH n _ Hn Hpre).
      destruct c; cbn [encrypt decrypt]; [reflexivity|].
      apply gcm_decrypt_encrypt; [exact Hn | apply Hiss; reflexivity].
  Qed.

  (* the three encoders the code base builds *)
  Corollary encoder_roundtrip_noop : forall n data, enc_decode ENoop (enc_encode ENoop n data) = Some data.
  Proof. reflexivity. Qed.

  Corollary encoder_roundtrip_base64 : forall n data, bytes_ok data = true ->
    enc_decode EBase64 (enc_encode EBase64 n data) = Some data.
  Proof. intros n data H. apply b64_decode_encode. exact H. Qed.

  (* Seal returns a Go byte slice *)
  Hypothesis seal_bytes : forall n m, bytes_ok (seal n m) = true.

  Corollary encoder_roundtrip_gcm_b64 : forall n data,
    length n = nonce_size -> bytes_ok n = true -> (data <> [] -> issued n data) ->
    enc_decode gcm_b64 (enc_encode gcm_b64 n data) = Some data.
  Proof.
    intros n data Hn Hnb Hiss. apply encoder_roundtrip; [exact Hn|].
    split; [intros _; exact Hiss|]. cbn [enc_pre encrypt]. unfold Token.gcm_encrypt.
    destruct data; [reflexivity|]. rewrite bytes_ok_app, Hnb, seal_bytes. reflexivity.
  Qed.

  (* a position handed out in a response token comes back as the same position *)
  Theorem resume_issued_token : forall e n u t,
    length n = nonce_size -> ulid_ok u = true -> enc_pre e n (u ++ c_pipe :: t) ->
    read_changes_resume e t (issue_token e n u t) = RFrom u /\
    read_resume e (issue_token e n u t) = RFrom u.
  Proof.
    intros e n u t Hn Hu Hpre.
    unfold Token.issue_token, Token.read_changes_resume, Token.read_resume.
    destruct (token_roundtrip_ok u t Hu) as (tok & Hs & Hd).
    pose proof Hs as Hs'. apply serialize_some in Hs' as [Hne ->].
    rewrite Hs, (encoder_roundtrip e n _ Hn Hpre).
    destruct (u ++ c_pipe :: t) eqn:E; [destruct u; discriminate|].
    rewrite Hd, beqb_refl. auto.
  Qed.

  (* -- tampering -- *)

  (* AUTHENTICITY (the idealised AEAD): Open accepts nothing but what was sealed under the key *)
  Hypothesis authentic : forall n c m, aopen n c = Some m -> issued n m /\ c = seal n m.

  Lemma gcm_decrypt_authentic d m : gcm_decrypt d = Some m ->
    (d = [] /\ m = []) \/
    (exists n, length n = nonce_size /\ issued n m /\ d = n ++ seal n m).
  Proof.
    unfold Token.gcm_decrypt. destruct d as [|x d]; intro H.
    - left. inversion H. auto.
    - right. destruct (length (x :: d) <? nonce_size)%nat eqn:El; [discriminate|].
      apply Nat.ltb_ge in El. apply authentic in H as [Hi Hc].
      exists (firstn nonce_size (x :: d)). split; [|split].
      + apply firstn_length_le. exact El.
      + exact Hi.
      + rewrite <- Hc. symmetry. apply firstn_skipn.
  Qed.

  (* Whatever string [s] is presented: if the GCM token encoder decodes it to [m], then either
     the inner decoding of [s] is EMPTY (the len(data)==0 short cut of Decrypt, m = ""), or it is
     byte for byte nonce||Seal(nonce, m) for a plaintext [m] that was sealed under the key. *)
  Theorem tamper_rejected : forall inner s m,
    enc_decode (EToken CGcm inner) s = Some m ->
    (m = [] /\ enc_decode inner s = Some []) \/
    (exists n, length n = nonce_size /\ issued n m /\ enc_decode inner s = Some (n ++ seal n m)).
  Proof.
    intros inner s m H. cbn [Token.enc_decode decrypt] in H.
    destruct (Token.enc_decode aopen inner s) as [d|]; [|discriminate].
    apply gcm_decrypt_authentic in H as [[-> ->]|(n & Hn & Hi & ->)].
    - left. auto.
    - right. exists n. auto.
  Qed.

  (* contrapositive: a string whose inner decoding is neither empty nor an issued ciphertext is
     an error *)
  Corollary tamper_rejected_error : forall inner s d,
    enc_decode inner s = Some d -> d <> [] ->
    (forall n m, issued n m -> d <> n ++ seal n m) ->
    enc_decode (EToken CGcm inner) s = None.
  Proof.
    intros inner s d Hd Hne Hnot.
    destruct (enc_decode (EToken CGcm inner) s) as [m|] eqn:E; [|reflexivity].
    apply tamper_rejected in E as [[_ E]|(n & _ & Hi & E)]; rewrite Hd in E; inversion E; subst.
    - congruence.
    - exfalso. eapply Hnot; [exact Hi | reflexivity].
  Qed.

  (* server level: a request token resolves to a storage position only if that position (with
     the requested type) is the content of a token sealed under the key *)
  Theorem read_changes_position_authentic : forall inner ty s u,
    read_changes_resume (EToken CGcm inner) ty s = RFrom u ->
    exists n, length n = nonce_size /\ ulid_ok u = true /\ issued n (u ++ c_pipe :: ty) /\
              enc_decode inner s = Some (n ++ seal n (u ++ c_pipe :: ty)).
  Proof.
    intros inner ty s u H. unfold Token.read_changes_resume in H.
    destruct (enc_decode (EToken CGcm inner) s) as [[|x tok]|] eqn:E; try discriminate.
    destruct (deserialize (x :: tok)) as [[u' t']|] eqn:Ed; [|discriminate].
    destruct (beqb t' ty) eqn:Et; [|discriminate]. inversion H; subst u'.
    apply beqb_eq in Et. subst t'.
    apply deserialize_serialize in Ed as [Hs Hu]. apply serialize_some in Hs as [_ Hs].
    apply tamper_rejected in E as [[E _]|(n & Hn & Hi & E)]; [discriminate|].
    exists n. rewrite <- Hs. auto.
  Qed.

  Theorem read_position_authentic : forall inner s u,
    read_resume (EToken CGcm inner) s = RFrom u ->
    exists n t, length n = nonce_size /\ ulid_ok u = true /\ issued n (u ++ c_pipe :: t) /\
                enc_decode inner s = Some (n ++ seal n (u ++ c_pipe :: t)).
  Proof.
    intros inner s u H. unfold Token.read_resume in H.
    destruct (enc_decode (EToken CGcm inner) s) as [[|x tok]|] eqn:E; try discriminate.
    destruct (deserialize (x :: tok)) as [[u' t']|] eqn:Ed; [|discriminate].
    inversion H; subst u'.
    apply deserialize_serialize in Ed as [Hs Hu]. apply serialize_some in Hs as [_ Hs].
    apply tamper_rejected in E as [[E _]|(n & Hn & Hi & E)]; [discriminate|].
    exists n, t'. rewrite <- Hs. auto.
  Qed.

  (* "never some other position": when everything the server sealed is the serialisation of a
     position in [P], every string whatsoever resolves to an error, to the start, or to a
     position in [P] *)
  Theorem tamper_never_other_position : forall (P : bytes -> bytes -> Prop) inner ty s,
    (forall n m, issued n m -> exists u t, P u t /\ ulid_ok u = true /\ m = u ++ c_pipe :: t) ->
    match read_changes_resume (EToken CGcm inner) ty s with
    | RFrom u => P u ty
    | _ => True
    end.
  Proof.
    intros P inner ty s HP.
    destruct (read_changes_resume (EToken CGcm inner) ty s) as [| | |u] eqn:E; try exact I.
    apply read_changes_position_authentic in E as (n & _ & Hu & Hi & _).
    apply HP in Hi as (u' & t' & HPu & Hu' & Heq).
    assert (Hd : deserialize (u ++ c_pipe :: ty) = Some (u, ty)) by (apply deserialize_app; exact Hu).
    rewrite Heq, (deserialize_app u' t' Hu') in Hd. inversion Hd; subst. exact HPu.
  Qed.

  (* -- the unauthenticated short cut of Decrypt -- *)

  Theorem empty_bypass_is_start : forall inner ty s,
    enc_decode inner s = Some [] ->
    enc_decode (EToken CGcm inner) s = Some [] /\
    read_changes_resume (EToken CGcm inner) ty s = RStart /\
    read_resume (EToken CGcm inner) s = RStart.
  Proof.
    intros inner ty s H. unfold Token.read_changes_resume, Token.read_resume.
    cbn [Token.enc_decode decrypt]. rewrite H. cbn. auto.
  Qed.

  (* with base64 inside, the strings that take the short cut are exactly the CR/LF-only strings
     (the server never seals the empty plaintext: Encrypt short-cuts it as well) *)
  Theorem unauthenticated_accept_iff : forall s, (forall n, ~ issued n []) ->
    (enc_decode gcm_b64 s = Some [] <-> forallb is_nl s = true).
  Proof.
    intros s Hnone. split.
    - intro H. apply tamper_rejected in H as [[_ H]|(n & _ & Hi & _)].
      + apply b64_decode_empty_iff. exact H.
      + exfalso. exact (Hnone n Hi).
    - intro H. apply b64_decode_empty_iff in H.
      destruct (empty_bypass_is_start EBase64 [] s H) as [E _]. exact E.
  Qed.
End AEADProofs.

(* ---- the hypotheses are satisfiable (non-vacuity): a toy AEAD whose tag is the nonce ---- *)

Definition toy_seal (n m : bytes) : bytes := map (fun b => b mod 256) (m ++ n).
Definition toy_issued (log : list (bytes * bytes)) (n m : bytes) : Prop := In (n, m) log.
Fixpoint toy_open (log : list (bytes * bytes)) (n c : bytes) : option bytes :=
  match log with
  | [] => None
  | (n', m') :: log' => if beqb n n' && beqb c (toy_seal n' m') then Some m' else toy_open log' n c
  end.

Lemma toy_seal_bytes n m : bytes_ok (toy_seal n m) = true.
Proof.
  unfold toy_seal, bytes_ok. rewrite forallb_forall. intros x Hx.
  apply in_map_iff in Hx as (y & <- & _). unfold byte_ok. apply N.ltb_lt.
  apply N.mod_lt. discriminate.
Qed.

Lemma toy_authentic log n c m : toy_open log n c = Some m -> toy_issued log n m /\ c = toy_seal n m.
Proof.
  unfold toy_issued. induction log as [|[n' m'] log IH]; simpl; [discriminate|].
  destruct (beqb n n' && beqb c (toy_seal n' m')) eqn:E.
  - intro H. inversion H; subst. apply andb_true_iff in E as [E1 E2].
    apply beqb_eq in E1, E2. subst. auto.
  - intro H. apply IH in H as [H1 H2]. auto.
Qed.

(* the log must not seal two different plaintexts to the same (nonce, ciphertext): true of any
   real AEAD; for the toy one we simply use a one-entry log *)
Lemma toy_open_seal n0 m0 n m : toy_issued [(n0, m0)] n m -> toy_open [(n0, m0)] n (toy_seal n m) = Some m.
Proof.
  unfold toy_issued. simpl. intros [H|[]]. inversion H; subst. rewrite !beqb_refl. reflexivity.
Qed.

Definition ex_nonce : bytes := [1; 2; 3; 4; 5; 6; 7; 8; 9; 10; 11; 12].
Definition ex_ulid : bytes := [48; 49; 72; 80; 74; 55].     (* "01HPJ7" *)
Definition ex_type : bytes := [100; 111; 99].               (* "doc" *)
Definition ex_plain : bytes := ex_ulid ++ c_pipe :: ex_type.

(* the issued token resumes at its position; flipping one bit of its ciphertext, truncating it,
   or presenting the bare base64 of the plaintext is an error; CR/LF-only is the start *)
Example toy_token_behaviour :
  let log := [(ex_nonce, ex_plain)] in
  let tok := issue_token toy_seal gcm_b64 ex_nonce ex_ulid ex_type in
  read_changes_resume (toy_open log) gcm_b64 ex_type tok = RFrom ex_ulid /\
  read_changes_resume (toy_open log) gcm_b64 [120] tok = RMismatch /\
  read_changes_resume (toy_open log) gcm_b64 ex_type (tok ++ [10]) = RFrom ex_ulid /\
  read_changes_resume (toy_open log) gcm_b64 ex_type (66 :: tl tok) = RInvalid /\
  read_changes_resume (toy_open log) gcm_b64 ex_type (firstn 8 tok) = RInvalid /\
  read_changes_resume (toy_open log) gcm_b64 ex_type (b64_encode ex_plain) = RInvalid /\
  read_changes_resume (toy_open log) gcm_b64 ex_type [13; 10] = RStart /\
  read_changes_resume (toy_open log) EBase64 ex_type (b64_encode ex_plain) = RFrom ex_ulid.
Proof. vm_compute. repeat split. Qed.

(* instantiating the Section theorems with the toy AEAD: their hypotheses can all be met *)
Example tamper_rejected_toy : forall s m,
  enc_decode (toy_open [(ex_nonce, ex_plain)]) gcm_b64 s = Some m ->
  (m = [] /\ b64_decode s = Some []) \/
  (m = ex_plain /\ b64_decode s = Some (ex_nonce ++ toy_seal ex_nonce ex_plain)).
Proof.
  intros s m H.
  apply (tamper_rejected toy_seal (toy_open [(ex_nonce, ex_plain)]) (toy_issued [(ex_nonce, ex_plain)])
           (toy_authentic _)) in H as [H|(n & _ & Hi & H)].
  - left. exact H.
  - right. destruct Hi as [Hi|[]]. inversion Hi; subst. auto.
Qed.

Example encoder_roundtrip_toy :
  enc_decode (toy_open [(ex_nonce, ex_plain)]) gcm_b64 (enc_encode toy_seal gcm_b64 ex_nonce ex_plain)
  = Some ex_plain.
Proof.
  apply (encoder_roundtrip_gcm_b64 toy_seal (toy_open [(ex_nonce, ex_plain)])
           (toy_issued [(ex_nonce, ex_plain)]) (toy_open_seal _ _) toy_seal_bytes).
  - reflexivity.
  - reflexivity.
  - intros _. left. reflexivity.
Qed.

(* The STRING-level reading ("every accepted string is an issued token string") is false, also
   under the authenticity hypothesis: base64 decoding ignores CR/LF (and the unused bits of a
   padded quantum), so tok ++ "\n" is accepted.  It carries the same ciphertext and resolves to
   the same position (tamper_rejected speaks about ciphertext bytes for this reason). *)
Theorem token_string_uniqueness_refuted :
  exists seal aopen issued, aead_authentic seal aopen issued /\
  exists n u t s,
    s <> issue_token seal gcm_b64 n u t /\
    read_changes_resume aopen gcm_b64 t (issue_token seal gcm_b64 n u t) = RFrom u /\
    read_changes_resume aopen gcm_b64 t s = RFrom u.
Proof.
  exists toy_seal, (toy_open [(ex_nonce, ex_plain)]), (toy_issued [(ex_nonce, ex_plain)]).
  split; [exact (toy_authentic _)|].
  exists ex_nonce, ex_ulid, ex_type, (issue_token toy_seal gcm_b64 ex_nonce ex_ulid ex_type ++ [c_lf]).
  split; [|split].
  - intro H. apply (f_equal (@length N)) in H. rewrite app_length in H. simpl in H. lia.
  - vm_compute. reflexivity.
  - vm_compute. reflexivity.
Qed.
