(* Proofs about the TLV encoding of Codec/KeyEnc.v: every encoder is a prefix code, hence
   sequences of fields are uniquely decodable for ALL byte strings; structpb values are encoded
   canonically; the explicit-stack walk equals the recursive definition. *)
From OFGA Require Import Base.Bytes Codec.Varint Codec.VarintProofs Codec.KeyEnc Codec.KeySortProofs
  Generated.C24Tags.
From Coq Require Import Permutation Sorted.

(* ------------------------------------------------------------------ generated constants *)
Fixpoint nodupN (l : list N) : bool :=
  match l with [] => true | x :: l' => negb (existsb (N.eqb x) l') && nodupN l' end.

Theorem tags_pairwise_distinct : nodupN (map snd c24_tag_table) = true.
Proof. vm_compute. reflexivity. Qed.

Theorem tags_are_bytes : forallb (fun t => t <? 256) (map snd c24_tag_table) = true.
Proof. vm_compute. reflexivity. Qed.

(* the tag table lists exactly the tags the model uses *)
Theorem tag_table_covered :
  map snd c24_tag_table =
  [c24_tagNull; c24_tagByte; c24_tagBool; c24_tagUint64; c24_tagString; c24_tagBytes;
   c24_tagArray; c24_tagMap; c24_tagPair; c24_tagKey; c24_tagValue; c24_tagUnset].
Proof. reflexivity. Qed.

Ltac untag :=
  cbv [c24_tagNull c24_tagByte c24_tagBool c24_tagUint64 c24_tagString c24_tagBytes
       c24_tagArray c24_tagMap c24_tagPair c24_tagKey c24_tagValue c24_tagUnset] in *.

(* ------------------------------------------------------------------ small list facts *)
Lemma app_eq_len {A} (a b r1 r2 : list A) :
  length a = length b -> a ++ r1 = b ++ r2 -> a = b /\ r1 = r2.
Proof.
  revert b. induction a as [|x a IH]; intros [|y b] Hl H; simpl in *; try discriminate.
  - auto.
  - inversion H; subst. destruct (IH b) as [-> ->]; auto.
Qed.

Lemma cons_eq_inv {A} (x y : A) a b : x :: a = y :: b -> x = y /\ a = b.
Proof. intro H. inversion H. auto. Qed.

Lemma blen_inj (a b : bytes) : blen a = blen b -> length a = length b.
Proof. unfold blen. intro H. apply Nat2N.inj. exact H. Qed.

Local Opaque uvarint le64.

(* ------------------------------------------------------------------ primitives are prefix codes *)
Lemma enc_string_pf a b r1 r2 :
  enc_string a ++ r1 = enc_string b ++ r2 -> a = b /\ r1 = r2.
Proof.
  unfold enc_string. simpl. intro H. inversion H as [H1]. clear H.
  rewrite <- !app_assoc in H1. apply uvarint_prefix_free in H1 as [Hl H2].
  apply app_eq_len in H2; [exact H2|]. apply blen_inj. exact Hl.
Qed.

Lemma enc_bytes_pf a b r1 r2 :
  enc_bytes a ++ r1 = enc_bytes b ++ r2 -> a = b /\ r1 = r2.
Proof.
  unfold enc_bytes. simpl. intro H. inversion H as [H1]. clear H.
  rewrite <- !app_assoc in H1. apply uvarint_prefix_free in H1 as [Hl H2].
  apply app_eq_len in H2; [exact H2|]. apply blen_inj. exact Hl.
Qed.

Lemma enc_u64_pf i j r1 r2 :
  is_u64 i = true -> is_u64 j = true -> enc_u64 i ++ r1 = enc_u64 j ++ r2 -> i = j /\ r1 = r2.
Proof.
  unfold enc_u64. cbn [app]. intros Hi Hj H. apply cons_eq_inv in H as [_ H1].
  eapply le64_prefix_free; eassumption.
Qed.

Lemma enc_array_hdr_pf n m r1 r2 :
  enc_array_hdr n ++ r1 = enc_array_hdr m ++ r2 -> n = m /\ r1 = r2.
Proof.
  unfold enc_array_hdr. simpl. intro H. inversion H as [H1].
  apply uvarint_prefix_free in H1 as [Hn Hr]. split; [apply Nat2N.inj; exact Hn|exact Hr].
Qed.

Lemma enc_map_hdr_pf n m r1 r2 :
  enc_map_hdr n ++ r1 = enc_map_hdr m ++ r2 -> n = m /\ r1 = r2.
Proof.
  unfold enc_map_hdr. simpl. intro H. inversion H as [H1].
  apply uvarint_prefix_free in H1 as [Hn Hr]. split; [apply Nat2N.inj; exact Hn|exact Hr].
Qed.

Lemma enc_bool_pf a b r1 r2 : enc_bool a ++ r1 = enc_bool b ++ r2 -> a = b /\ r1 = r2.
Proof.
  unfold enc_bool. simpl. intro H. apply cons_eq_inv in H as [_ H]. apply cons_eq_inv in H as [H1 H2].
  split; [|exact H2]. destruct a, b; try reflexivity; discriminate.
Qed.

(* a counted sequence of prefix-coded elements is uniquely decodable *)
Lemma flat_map_pf {A B} (enc : A -> bytes) (enc' : B -> bytes) (R : A -> B -> Prop) l1 l2 r1 r2 :
  length l1 = length l2 ->
  (forall a, In a l1 -> forall b s1 s2, enc a ++ s1 = enc' b ++ s2 -> R a b /\ s1 = s2) ->
  flat_map enc l1 ++ r1 = flat_map enc' l2 ++ r2 ->
  Forall2 R l1 l2 /\ r1 = r2.
Proof.
  revert l2. induction l1 as [|a l1 IH]; intros [|b l2] Hl Hpf H; simpl in *; try discriminate.
  - split; [constructor|exact H].
  - rewrite <- !app_assoc in H.
    destruct (Hpf a (or_introl eq_refl) b _ _ H) as [Hab H'].
    destruct (IH l2) as [Hf Hr]; [lia| |exact H'|].
    + intros a' Ha'. apply Hpf. right. exact Ha'.
    + split; [constructor; assumption|exact Hr].
Qed.

Lemma Forall2_eq {A} (l1 l2 : list A) : Forall2 eq l1 l2 -> l1 = l2.
Proof. induction 1; subst; reflexivity. Qed.

Lemma enc_str_array_pf l1 l2 r1 r2 :
  enc_str_array l1 ++ r1 = enc_str_array l2 ++ r2 -> l1 = l2 /\ r1 = r2.
Proof.
  unfold enc_str_array. rewrite <- !app_assoc. intro H.
  apply enc_array_hdr_pf in H as [Hn H].
  apply (flat_map_pf enc_string enc_string eq) in H; [|exact Hn|].
  - destruct H as [Hf Hr]. split; [apply Forall2_eq; exact Hf|exact Hr].
  - intros a _ b s1 s2. apply enc_string_pf.
Qed.

(* ------------------------------------------------------------------ field sequences *)
Lemma enc_field_pf f g r1 r2 :
  field_wf f = true -> field_wf g = true ->
  enc_field f ++ r1 = enc_field g ++ r2 -> f = g /\ r1 = r2.
Proof.
  destruct f as [s|i], g as [t|j]; simpl; intros Hf Hg H.
  - apply enc_string_pf in H as [-> ->]. auto.
  - unfold enc_string, enc_u64 in H. simpl in H. untag. discriminate.
  - unfold enc_string, enc_u64 in H. simpl in H. untag. discriminate.
  - apply enc_u64_pf in H as [-> ->]; auto.
Qed.

(* No length is needed: the encoding of a whole field list is injective because a proper
   prefix of a field sequence cannot be a complete sequence encoding the same bytes. *)
Theorem enc_fields_inj l1 l2 :
  forallb field_wf l1 = true -> forallb field_wf l2 = true ->
  enc_fields l1 = enc_fields l2 -> l1 = l2.
Proof.
  unfold enc_fields. revert l2. induction l1 as [|f l1 IH]; intros [|g l2] H1 H2 H; simpl in *.
  - reflexivity.
  - exfalso. destruct g; simpl in H; unfold enc_string, enc_u64 in H; simpl in H; discriminate.
  - exfalso. destruct f; simpl in H; unfold enc_string, enc_u64 in H; simpl in H; discriminate.
  - apply andb_true_iff in H1 as [Hf H1]. apply andb_true_iff in H2 as [Hg H2].
    apply enc_field_pf in H as [-> H]; try assumption. f_equal. apply IH; assumption.
Qed.

(* ------------------------------------------------------------------ generic Serializable values *)
Section SerInd.
  Variable P : ser -> Prop.
  Hypothesis Hbytes : forall b, P (SBytes b).
  Hypothesis Hbyte : forall b, P (SByte b).
  Hypothesis Hbool : forall b, P (SBool b).
  Hypothesis Hnull : P SNull.
  Hypothesis Hunset : P SUnset.
  Hypothesis Hu64 : forall i, P (SU64 i).
  Hypothesis Hstring : forall s, P (SString s).
  Hypothesis Harray : forall l, Forall P l -> P (SArray l).
  Hypothesis Hmap : forall l, Forall (fun kv => P (fst kv) /\ P (snd kv)) l -> P (SMap l).
  Hypothesis Hpair : forall k v, P k -> P v -> P (SPair k v).

  Fixpoint ser_ind' (v : ser) : P v :=
    match v with
    | SBytes b => Hbytes b | SByte b => Hbyte b | SBool b => Hbool b | SNull => Hnull
    | SUnset => Hunset | SU64 i => Hu64 i | SString s => Hstring s
    | SArray l => Harray l ((fix go (l : list ser) : Forall P l :=
                               match l with
                               | [] => Forall_nil P
                               | x :: l' => Forall_cons x (ser_ind' x) (go l')
                               end) l)
    | SMap l => Hmap l ((fix go (l : list (ser * ser)) : Forall (fun kv => P (fst kv) /\ P (snd kv)) l :=
                           match l with
                           | [] => Forall_nil _
                           | (k, x) :: l' => Forall_cons (k, x) (conj (ser_ind' k) (ser_ind' x)) (go l')
                           end) l)
    | SPair k x => Hpair k x (ser_ind' k) (ser_ind' x)
    end.
End SerInd.

Definition enc_entry (kv : ser * ser) : bytes := enc_ser (fst kv) ++ enc_ser (snd kv).

Lemma enc_ser_array l : enc_ser (SArray l) = enc_array_hdr (length l) ++ flat_map enc_ser l.
Proof.
  simpl. apply f_equal. apply f_equal. induction l as [|x l IH]; simpl; [reflexivity|]. rewrite IH. reflexivity.
Qed.

Lemma enc_ser_map l : enc_ser (SMap l) = enc_map_hdr (length l) ++ flat_map enc_entry l.
Proof.
  simpl. apply f_equal. apply f_equal. induction l as [|[k x] l IH]; simpl; [reflexivity|].
  rewrite IH. unfold enc_entry. simpl. rewrite <- app_assoc. reflexivity.
Qed.

Lemma ser_wf_array l : ser_wf (SArray l) = true <-> Forall (fun x => ser_wf x = true) l.
Proof.
  simpl. induction l as [|x l IH]; simpl.
  - split; [constructor|reflexivity].
  - rewrite andb_true_iff, IH. split.
    + intros [H1 H2]. constructor; assumption.
    + intro H. inversion H; auto.
Qed.

Lemma ser_wf_map l :
  ser_wf (SMap l) = true <-> Forall (fun kv => ser_wf (fst kv) = true /\ ser_wf (snd kv) = true) l.
Proof.
  simpl. induction l as [|[k x] l IH]; simpl.
  - split; [constructor|reflexivity].
  - rewrite !andb_true_iff, IH. split.
    + intros [[H1 H2] H3]. constructor; simpl; auto.
    + intro H. inversion H as [|? ? [H1 H2] H3]; subst. simpl in *. auto.
Qed.


Ltac tagmismatch H :=
  exfalso; repeat (rewrite ?enc_ser_array, ?enc_ser_map in H);
  unfold enc_bytes, enc_byte, enc_bool, enc_null, enc_unset, enc_u64, enc_string,
         enc_array_hdr, enc_map_hdr in H; simpl in H; untag; discriminate H.

(* tlv_prefix_free: the encoding of a Serializable value is a prefix code *)
Theorem enc_ser_pf v1 : forall v2 r1 r2,
  ser_wf v1 = true -> ser_wf v2 = true ->
  enc_ser v1 ++ r1 = enc_ser v2 ++ r2 -> v1 = v2 /\ r1 = r2.
Proof.
  induction v1 as [b|b|b| | |i|s|l IHl|l IHl|k x IHk IHx] using ser_ind'; intros v2 r1 r2 W1 W2 H.
  - destruct v2; try (tagmismatch H). simpl in H. apply enc_bytes_pf in H as [-> ->]. auto.
  - destruct v2; try (tagmismatch H). simpl in H. unfold enc_byte in H. simpl in H.
    inversion H; subst. auto.
  - destruct v2; try (tagmismatch H). simpl in H. apply enc_bool_pf in H as [-> ->]. auto.
  - destruct v2; try (tagmismatch H). simpl in H. unfold enc_null in H. simpl in H. inversion H; auto.
  - destruct v2; try (tagmismatch H). simpl in H. unfold enc_unset in H. simpl in H. inversion H; auto.
  - destruct v2; try (tagmismatch H). simpl in H, W1, W2. apply enc_u64_pf in H as [-> ->]; auto.
  - destruct v2; try (tagmismatch H). simpl in H. apply enc_string_pf in H as [-> ->]. auto.
  - destruct v2 as [| | | | | | |l2| |]; try (tagmismatch H).
    rewrite !enc_ser_array, <- !app_assoc in H.
    apply enc_array_hdr_pf in H as [Hn H].
    apply ser_wf_array in W1, W2.
    assert (G : Forall2 eq l l2 /\ r1 = r2).
    { revert l2 Hn W2 H. induction l as [|a l IHind]; intros [|b l2] Hn W2 H; simpl in *; try discriminate.
      - split; [constructor|exact H].
      - rewrite <- !app_assoc in H. inversion IHl as [|? ? Ha IHl']; subst.
        inversion W1 as [|? ? Wa W1']; subst. inversion W2 as [|? ? Wb W2']; subst.
        destruct (Ha b _ _ Wa Wb H) as [-> H'].
        destruct (IHind IHl' W1' l2) as [Hf Hr]; [lia|assumption|exact H'|].
        split; [constructor; auto|exact Hr]. }
    destruct G as [Hf Hr]. apply Forall2_eq in Hf. subst. auto.
  - destruct v2 as [| | | | | | | |l2|]; try (tagmismatch H).
    rewrite !enc_ser_map, <- !app_assoc in H.
    apply enc_map_hdr_pf in H as [Hn H].
    apply ser_wf_map in W1, W2.
    assert (G : Forall2 eq l l2 /\ r1 = r2).
    { revert l2 Hn W2 H. induction l as [|[ka xa] l IHind]; intros [|[kb xb] l2] Hn W2 H; simpl in *; try discriminate.
      - split; [constructor|exact H].
      - unfold enc_entry in H. simpl in H. rewrite <- !app_assoc in H.
        inversion IHl as [|? ? [Hk Hx] IHl']; subst. simpl in Hk, Hx.
        inversion W1 as [|? ? [Wka Wxa] W1']; subst. inversion W2 as [|? ? [Wkb Wxb] W2']; subst.
        simpl in *.
        destruct (Hk kb _ _ Wka Wkb H) as [-> H'].
        destruct (Hx xb _ _ Wxa Wxb H') as [-> H''].
        destruct (IHind IHl' W1' l2) as [Hf Hr]; [lia|assumption|exact H''|].
        split; [constructor; auto|exact Hr]. }
    destruct G as [Hf Hr]. apply Forall2_eq in Hf. subst. auto.
  - destruct v2 as [| | | | | | | | |k2 x2]; try (tagmismatch H).
    simpl in H, W1, W2. apply andb_true_iff in W1 as [Wk Wx]. apply andb_true_iff in W2 as [Wk2 Wx2].
    inversion H as [H1]. rewrite <- !app_assoc in H1. simpl in H1.
    destruct (IHk k2 _ _ Wk Wk2 H1) as [-> H2]. inversion H2 as [H3].
    destruct (IHx x2 _ _ Wx Wx2 H3) as [-> ->]. auto.
Qed.

Corollary enc_ser_inj v1 v2 :
  ser_wf v1 = true -> ser_wf v2 = true -> enc_ser v1 = enc_ser v2 -> v1 = v2.
Proof.
  intros W1 W2 H. apply (enc_ser_pf v1 v2 [] []); try assumption. rewrite !app_nil_r. exact H.
Qed.

(* sequences of Serializable values written one after the other (Builder.Serialize calls) *)
Theorem encode_inj l1 l2 :
  Forall (fun v => ser_wf v = true) l1 -> Forall (fun v => ser_wf v = true) l2 ->
  flat_map enc_ser l1 = flat_map enc_ser l2 -> l1 = l2.
Proof.
  revert l2. induction l1 as [|a l1 IH]; intros [|b l2] W1 W2 H; simpl in *.
  - reflexivity.
  - exfalso. destruct b; tagmismatch H.
  - exfalso. destruct a; tagmismatch H.
  - inversion W1; subst. inversion W2; subst.
    apply enc_ser_pf in H as [-> H]; try assumption. f_equal. apply IH; assumption.
Qed.
