(* Proofs about the TLV encoding of Codec/KeyEnc.v: every encoder is a prefix code, hence
   sequences of fields are uniquely decodable for ALL byte strings; structpb values are encoded
   canonically; the explicit-stack walk equals the recursive definition. *)
From OFGA Require Import Base.Bytes Codec.Varint Codec.VarintProofs Codec.KeyEnc Codec.KeySortProofs
  Generated.C24Tags.
From Coq Require Import Permutation Sorted.

(* ------------------------------------------------------------------ generated constants *)
Fixpoint nodupN (l : list N) : bool :=
  match l with [] => true | x :: l' => negb (existsb (N.eqb x) l') && nodupN l' end.

Theorem tags_pairwise_distinct : nodupN (map snd c24_tag_table) = true.
Proof. vm_compute. reflexivity. Qed.

Theorem tags_are_bytes : forallb (fun t => t <? 256) (map snd c24_tag_table) = true.
Proof. vm_compute. reflexivity. Qed.

(* the tag table lists exactly the tags the model uses *)
Theorem tag_table_covered :
  map snd c24_tag_table =
  [c24_tagNull; c24_tagByte; c24_tagBool; c24_tagUint64; c24_tagString; c24_tagBytes;
   c24_tagArray; c24_tagMap; c24_tagPair; c24_tagKey; c24_tagValue; c24_tagUnset].
Proof. reflexivity. Qed.

Ltac untag :=
  cbv [c24_tagNull c24_tagByte c24_tagBool c24_tagUint64 c24_tagString c24_tagBytes
       c24_tagArray c24_tagMap c24_tagPair c24_tagKey c24_tagValue c24_tagUnset] in *.

(* ------------------------------------------------------------------ small list facts *)
Lemma app_eq_len {A} (a b r1 r2 : list A) :
  length a = length b -> a ++ r1 = b ++ r2 -> a = b /\ r1 = r2.
Proof.
  revert b. induction a as [|x a IH]; intros [|y b] Hl H; simpl in *; try discriminate.
  - auto.
  - inversion H; subst. destruct (IH b) as [-> ->]; auto.
Qed.

Lemma cons_eq_inv {A} (x y : A) a b : x :: a = y :: b -> x = y /\ a = b.
Proof. intro H. inversion H. auto. Qed.

Lemma blen_inj (a b : bytes) : blen a = blen b -> length a = length b.
Proof. unfold blen. intro H. apply Nat2N.inj. exact H. Qed.

Local Opaque uvarint le64.

(* ------------------------------------------------------------------ primitives are prefix codes *)
Lemma enc_string_pf a b r1 r2 :
  enc_string a ++ r1 = enc_string b ++ r2 -> a = b /\ r1 = r2.
Proof.
  unfold enc_string. simpl. intro H. inversion H as [H1]. clear H.
  rewrite <- !app_assoc in H1. apply uvarint_prefix_free in H1 as [Hl H2].
  apply app_eq_len in H2; [exact H2|]. apply blen_inj. exact Hl.
Qed.

Lemma enc_bytes_pf a b r1 r2 :
  enc_bytes a ++ r1 = enc_bytes b ++ r2 -> a = b /\ r1 = r2.
Proof.
  unfold enc_bytes. simpl. intro H. inversion H as [H1]. clear H.
  rewrite <- !app_assoc in H1. apply uvarint_prefix_free in H1 as [Hl H2].
  apply app_eq_len in H2; [exact H2|]. apply blen_inj. exact Hl.
Qed.

Lemma enc_u64_pf i j r1 r2 :
  is_u64 i = true -> is_u64 j = true -> enc_u64 i ++ r1 = enc_u64 j ++ r2 -> i = j /\ r1 = r2.
Proof.
  unfold enc_u64. cbn [app]. intros Hi Hj H. apply cons_eq_inv in H as [_ H1].
  eapply le64_prefix_free; eassumption.
Qed.

Lemma enc_array_hdr_pf n m r1 r2 :
  enc_array_hdr n ++ r1 = enc_array_hdr m ++ r2 -> n = m /\ r1 = r2.
Proof.
  unfold enc_array_hdr. simpl. intro H. inversion H as [H1].
  apply uvarint_prefix_free in H1 as [Hn Hr]. split; [apply Nat2N.inj; exact Hn|exact Hr].
Qed.

Lemma enc_map_hdr_pf n m r1 r2 :
  enc_map_hdr n ++ r1 = enc_map_hdr m ++ r2 -> n = m /\ r1 = r2.
Proof.
  unfold enc_map_hdr. simpl. intro H. inversion H as [H1].
  apply uvarint_prefix_free in H1 as [Hn Hr]. split; [apply Nat2N.inj; exact Hn|exact Hr].
Qed.

Lemma enc_bool_pf a b r1 r2 : enc_bool a ++ r1 = enc_bool b ++ r2 -> a = b /\ r1 = r2.
Proof.
  unfold enc_bool. simpl. intro H. apply cons_eq_inv in H as [_ H]. apply cons_eq_inv in H as [H1 H2].
  split; [|exact H2]. destruct a, b; try reflexivity; discriminate.
Qed.

(* a counted sequence of prefix-coded elements is uniquely decodable *)
Lemma flat_map_pf {A B} (enc : A -> bytes) (enc' : B -> bytes) (R : A -> B -> Prop) l1 l2 r1 r2 :
  length l1 = length l2 ->
  (forall a, In a l1 -> forall b, In b l2 -> forall s1 s2, enc a ++ s1 = enc' b ++ s2 -> R a b /\ s1 = s2) ->
  flat_map enc l1 ++ r1 = flat_map enc' l2 ++ r2 ->
  Forall2 R l1 l2 /\ r1 = r2.
Proof.
  revert l2. induction l1 as [|a l1 IH]; intros [|b l2] Hl Hpf H; simpl in *; try discriminate.
  - split; [constructor|exact H].
  - rewrite <- !app_assoc in H.
    destruct (Hpf a (or_introl eq_refl) b (or_introl eq_refl) _ _ H) as [Hab H'].
    destruct (IH l2) as [Hf Hr]; [lia| |exact H'|].
    + intros a' Ha' b' Hb'. apply Hpf; right; assumption.
    + split; [constructor; assumption|exact Hr].
Qed.

Lemma Forall2_eq {A} (l1 l2 : list A) : Forall2 eq l1 l2 -> l1 = l2.
Proof. induction 1; subst; reflexivity. Qed.

Lemma enc_str_array_pf l1 l2 r1 r2 :
  enc_str_array l1 ++ r1 = enc_str_array l2 ++ r2 -> l1 = l2 /\ r1 = r2.
Proof.
  unfold enc_str_array. rewrite <- !app_assoc. intro H.
  apply enc_array_hdr_pf in H as [Hn H].
  apply (flat_map_pf enc_string enc_string eq) in H; [|exact Hn|].
  - destruct H as [Hf Hr]. split; [apply Forall2_eq; exact Hf|exact Hr].
  - intros a _ b _ s1 s2. apply enc_string_pf.
Qed.

(* ------------------------------------------------------------------ field sequences *)
Lemma enc_field_pf f g r1 r2 :
  field_wf f = true -> field_wf g = true ->
  enc_field f ++ r1 = enc_field g ++ r2 -> f = g /\ r1 = r2.
Proof.
  destruct f as [s|i], g as [t|j]; simpl; intros Hf Hg H.
  - apply enc_string_pf in H as [-> ->]. auto.
  - unfold enc_string, enc_u64 in H. simpl in H. untag. discriminate.
  - unfold enc_string, enc_u64 in H. simpl in H. untag. discriminate.
  - apply enc_u64_pf in H as [-> ->]; auto.
Qed.

(* No length is needed: the encoding of a whole field list is injective because a proper
   prefix of a field sequence cannot be a complete sequence encoding the same bytes. *)
Theorem enc_fields_inj l1 l2 :
  forallb field_wf l1 = true -> forallb field_wf l2 = true ->
  enc_fields l1 = enc_fields l2 -> l1 = l2.
Proof.
  unfold enc_fields. revert l2. induction l1 as [|f l1 IH]; intros [|g l2] H1 H2 H; simpl in *.
  - reflexivity.
  - exfalso. destruct g; simpl in H; unfold enc_string, enc_u64 in H; simpl in H; discriminate.
  - exfalso. destruct f; simpl in H; unfold enc_string, enc_u64 in H; simpl in H; discriminate.
  - apply andb_true_iff in H1 as [Hf H1]. apply andb_true_iff in H2 as [Hg H2].
    apply enc_field_pf in H as [-> H]; try assumption. f_equal. apply IH; assumption.
Qed.

(* ------------------------------------------------------------------ generic Serializable values *)
Section SerInd.
  Variable P : ser -> Prop.
  Hypothesis Hbytes : forall b, P (SBytes b).
  Hypothesis Hbyte : forall b, P (SByte b).
  Hypothesis Hbool : forall b, P (SBool b).
  Hypothesis Hnull : P SNull.
  Hypothesis Hunset : P SUnset.
  Hypothesis Hu64 : forall i, P (SU64 i).
  Hypothesis Hstring : forall s, P (SString s).
  Hypothesis Harray : forall l, Forall P l -> P (SArray l).
  Hypothesis Hmap : forall l, Forall (fun kv => P (fst kv) /\ P (snd kv)) l -> P (SMap l).
  Hypothesis Hpair : forall k v, P k -> P v -> P (SPair k v).

  Fixpoint ser_ind' (v : ser) : P v :=
    match v with
    | SBytes b => Hbytes b | SByte b => Hbyte b | SBool b => Hbool b | SNull => Hnull
    | SUnset => Hunset | SU64 i => Hu64 i | SString s => Hstring s
    | SArray l => Harray l ((fix go (l : list ser) : Forall P l :=
                               match l with
                               | [] => Forall_nil P
                               | x :: l' => Forall_cons x (ser_ind' x) (go l')
                               end) l)
    | SMap l => Hmap l ((fix go (l : list (ser * ser)) : Forall (fun kv => P (fst kv) /\ P (snd kv)) l :=
                           match l with
                           | [] => Forall_nil _
                           | (k, x) :: l' => Forall_cons (k, x) (conj (ser_ind' k) (ser_ind' x)) (go l')
                           end) l)
    | SPair k x => Hpair k x (ser_ind' k) (ser_ind' x)
    end.
End SerInd.

Definition enc_entry (kv : ser * ser) : bytes := enc_ser (fst kv) ++ enc_ser (snd kv).

Lemma enc_ser_array l : enc_ser (SArray l) = enc_array_hdr (length l) ++ flat_map enc_ser l.
Proof. reflexivity. Qed.

Lemma enc_ser_map l : enc_ser (SMap l) = enc_map_hdr (length l) ++ flat_map enc_entry l.
Proof. reflexivity. Qed.

Lemma ser_wf_array l : ser_wf (SArray l) = true <-> Forall (fun x => ser_wf x = true) l.
Proof. simpl. rewrite forallb_forall, Forall_forall. reflexivity. Qed.

Lemma ser_wf_map l :
  ser_wf (SMap l) = true <-> Forall (fun kv => ser_wf (fst kv) = true /\ ser_wf (snd kv) = true) l.
Proof.
  simpl. rewrite forallb_forall, Forall_forall. split; intros H x Hx; specialize (H x Hx).
  - apply andb_true_iff in H. exact H.
  - apply andb_true_iff. exact H.
Qed.

Ltac tagmismatch H :=
  exfalso; repeat (rewrite ?enc_ser_array, ?enc_ser_map in H);
  unfold enc_bytes, enc_byte, enc_bool, enc_null, enc_unset, enc_u64, enc_string,
         enc_array_hdr, enc_map_hdr in H; simpl in H; untag; discriminate H.

(* tlv_prefix_free: the encoding of a Serializable value is a prefix code *)
Theorem enc_ser_pf v1 : forall v2 r1 r2,
  ser_wf v1 = true -> ser_wf v2 = true ->
  enc_ser v1 ++ r1 = enc_ser v2 ++ r2 -> v1 = v2 /\ r1 = r2.
Proof.
  induction v1 as [b|b|b| | |i|s|l IHl|l IHl|k x IHk IHx] using ser_ind'; intros v2 r1 r2 W1 W2 H.
  - destruct v2; try (tagmismatch H). simpl in H. apply enc_bytes_pf in H as [-> ->]. auto.
  - destruct v2; try (tagmismatch H). simpl in H. unfold enc_byte in H. simpl in H.
    inversion H; subst. auto.
  - destruct v2; try (tagmismatch H). simpl in H. apply enc_bool_pf in H as [-> ->]. auto.
  - destruct v2; try (tagmismatch H). simpl in H. unfold enc_null in H. simpl in H. inversion H; auto.
  - destruct v2; try (tagmismatch H). simpl in H. unfold enc_unset in H. simpl in H. inversion H; auto.
  - destruct v2; try (tagmismatch H). simpl in H, W1, W2. apply enc_u64_pf in H as [-> ->]; auto.
  - destruct v2; try (tagmismatch H). simpl in H. apply enc_string_pf in H as [-> ->]. auto.
  - destruct v2 as [| | | | | | |l2| |]; try (tagmismatch H).
    rewrite !enc_ser_array, <- !app_assoc in H.
    apply enc_array_hdr_pf in H as [Hn H].
    apply ser_wf_array in W1, W2.
    assert (G : Forall2 eq l l2 /\ r1 = r2).
    { revert l2 Hn W2 H. induction l as [|a l IHind]; intros [|b l2] Hn W2 H; simpl in *; try discriminate.
      - split; [constructor|exact H].
      - rewrite <- !app_assoc in H. inversion IHl as [|? ? Ha IHl']; subst.
        inversion W1 as [|? ? Wa W1']; subst. inversion W2 as [|? ? Wb W2']; subst.
        destruct (Ha b _ _ Wa Wb H) as [-> H'].
        destruct (IHind IHl' W1' l2) as [Hf Hr]; [lia|assumption|exact H'|].
        split; [constructor; auto|exact Hr]. }
    destruct G as [Hf Hr]. apply Forall2_eq in Hf. subst. auto.
  - destruct v2 as [| | | | | | | |l2|]; try (tagmismatch H).
    rewrite !enc_ser_map, <- !app_assoc in H.
    apply enc_map_hdr_pf in H as [Hn H].
    apply ser_wf_map in W1, W2.
    assert (G : Forall2 eq l l2 /\ r1 = r2).
    { revert l2 Hn W2 H. induction l as [|[ka xa] l IHind]; intros [|[kb xb] l2] Hn W2 H; simpl in *; try discriminate.
      - split; [constructor|exact H].
      - unfold enc_entry in H. simpl in H. rewrite <- !app_assoc in H.
        inversion IHl as [|? ? [Hk Hx] IHl']; subst. simpl in Hk, Hx.
        inversion W1 as [|? ? [Wka Wxa] W1']; subst. inversion W2 as [|? ? [Wkb Wxb] W2']; subst.
        simpl in *.
        destruct (Hk kb _ _ Wka Wkb H) as [-> H'].
        destruct (Hx xb _ _ Wxa Wxb H') as [-> H''].
        destruct (IHind IHl' W1' l2) as [Hf Hr]; [lia|assumption|exact H''|].
        split; [constructor; auto|exact Hr]. }
    destruct G as [Hf Hr]. apply Forall2_eq in Hf. subst. auto.
  - destruct v2 as [| | | | | | | | |k2 x2]; try (tagmismatch H).
    simpl in H, W1, W2. apply andb_true_iff in W1 as [Wk Wx]. apply andb_true_iff in W2 as [Wk2 Wx2].
    inversion H as [H1]. rewrite <- !app_assoc in H1. simpl in H1.
    destruct (IHk k2 _ _ Wk Wk2 H1) as [-> H2]. inversion H2 as [H3].
    destruct (IHx x2 _ _ Wx Wx2 H3) as [-> ->]. auto.
Qed.

Corollary enc_ser_inj v1 v2 :
  ser_wf v1 = true -> ser_wf v2 = true -> enc_ser v1 = enc_ser v2 -> v1 = v2.
Proof.
  intros W1 W2 H. apply (enc_ser_pf v1 v2 [] []); try assumption. rewrite !app_nil_r. exact H.
Qed.

(* sequences of Serializable values written one after the other (Builder.Serialize calls) *)
Theorem encode_inj l1 l2 :
  Forall (fun v => ser_wf v = true) l1 -> Forall (fun v => ser_wf v = true) l2 ->
  flat_map enc_ser l1 = flat_map enc_ser l2 -> l1 = l2.
Proof.
  revert l2. induction l1 as [|a l1 IH]; intros [|b l2] W1 W2 H; simpl in *.
  - reflexivity.
  - exfalso. destruct b; tagmismatch H.
  - exfalso. destruct a; tagmismatch H.
  - inversion W1; subst. inversion W2; subst.
    apply enc_ser_pf in H as [-> H]; try assumption. f_equal. apply IH; assumption.
Qed.

(* ------------------------------------------------------------------ structpb values *)
Section PbInd.
  Variable P : pbval -> Prop.
  Hypothesis Hnull : P PNull.
  Hypothesis Hnum : forall b, P (PNum b).
  Hypothesis Hstr : forall s, P (PStr s).
  Hypothesis Hbool : forall b, P (PBool b).
  Hypothesis Hunset : P PUnset.
  Hypothesis Hlist : forall l, Forall P l -> P (PList l).
  Hypothesis Hstruct : forall fs, Forall (fun kv => P (snd kv)) fs -> P (PStruct fs).

  Fixpoint pbval_ind' (v : pbval) : P v :=
    match v with
    | PNull => Hnull | PNum b => Hnum b | PStr s => Hstr s | PBool b => Hbool b | PUnset => Hunset
    | PList l => Hlist l ((fix go (l : list pbval) : Forall P l :=
                             match l with
                             | [] => Forall_nil P
                             | x :: l' => Forall_cons x (pbval_ind' x) (go l')
                             end) l)
    | PStruct fs => Hstruct fs ((fix go (l : list (bytes * pbval)) : Forall (fun kv => P (snd kv)) l :=
                                   match l with
                                   | [] => Forall_nil _
                                   | kv :: l' => Forall_cons kv (pbval_ind' (snd kv)) (go l')
                                   end) fs)
    end.
End PbInd.

(* semantic equality of two structpb values: equal up to the order of struct fields, at every depth *)
Inductive pb_equiv : pbval -> pbval -> Prop :=
| PE_null : pb_equiv PNull PNull
| PE_num b : pb_equiv (PNum b) (PNum b)
| PE_str s : pb_equiv (PStr s) (PStr s)
| PE_bool b : pb_equiv (PBool b) (PBool b)
| PE_unset : pb_equiv PUnset PUnset
| PE_list l1 l2 : Forall2 pb_equiv l1 l2 -> pb_equiv (PList l1) (PList l2)
| PE_struct fs1 fs2 fs1' fs2' :
    Permutation fs1 fs1' -> Permutation fs2 fs2' ->
    Forall2 (fun a b => fst a = fst b /\ pb_equiv (snd a) (snd b)) fs1' fs2' ->
    pb_equiv (PStruct fs1) (PStruct fs2).

Definition kv_bytes (kv : bytes * pbval) : bytes := enc_string (fst kv) ++ enc_pb (snd kv).
Definition ke_bytes (ke : bytes * bytes) : bytes := enc_string (fst ke) ++ snd ke.
Definition kenc (kv : bytes * pbval) : bytes * bytes := (fst kv, enc_pb (snd kv)).

Lemma flat_map_map {A B C} (f : B -> list C) (g : A -> B) l :
  flat_map f (map g l) = flat_map (fun x => f (g x)) l.
Proof. induction l as [|x l IH]; simpl; [reflexivity|]. rewrite IH. reflexivity. Qed.

Lemma enc_pb_list l : enc_pb (PList l) = enc_array_hdr (length l) ++ flat_map enc_pb l.
Proof. reflexivity. Qed.

Lemma enc_pb_struct fs :
  enc_pb (PStruct fs) = enc_map_hdr (length fs) ++ flat_map kv_bytes (sort_fields fs).
Proof.
  change (enc_pb (PStruct fs)) with
    (enc_map_hdr (length fs) ++ flat_map ke_bytes (go_isort kless (map kenc fs))).
  f_equal. unfold sort_fields.
  rewrite <- (go_isort_map kenc kless kless); [|reflexivity].
  rewrite flat_map_map. reflexivity.
Qed.

Lemma sort_fields_perm fs : Permutation (sort_fields fs) fs.
Proof. apply go_isort_perm. Qed.

Lemma pb_wf_list l : pb_wf (PList l) = true <-> Forall (fun x => pb_wf x = true) l.
Proof. simpl. rewrite forallb_forall, Forall_forall. reflexivity. Qed.

Lemma pb_wf_struct fs : pb_wf (PStruct fs) = true <-> Forall (fun kv => pb_wf (snd kv) = true) fs.
Proof. simpl. rewrite forallb_forall, Forall_forall. reflexivity. Qed.

Ltac pbmismatch H :=
  exfalso; rewrite ?enc_pb_list, ?enc_pb_struct in H;
  unfold enc_bool, enc_null, enc_unset, enc_u64, enc_string, enc_array_hdr, enc_map_hdr in H;
  simpl in H; untag; discriminate H.

(* the encoding is a prefix code, and equal encodings mean semantically equal values *)
Theorem enc_pb_pf v1 : forall v2 r1 r2,
  pb_wf v1 = true -> pb_wf v2 = true ->
  enc_pb v1 ++ r1 = enc_pb v2 ++ r2 -> pb_equiv v1 v2 /\ r1 = r2.
Proof.
  induction v1 as [ |b|s|b| |l IHl|fs IHfs] using pbval_ind'; intros v2 r1 r2 W1 W2 H.
  - destruct v2; try (pbmismatch H). simpl in H. unfold enc_null in H. simpl in H.
    apply cons_eq_inv in H as [_ H]. split; [constructor|exact H].
  - destruct v2; try (pbmismatch H). simpl in H, W1, W2.
    apply enc_u64_pf in H as [-> ->]; auto. split; [constructor|reflexivity].
  - destruct v2; try (pbmismatch H). simpl in H.
    apply enc_string_pf in H as [-> ->]. split; [constructor|reflexivity].
  - destruct v2; try (pbmismatch H). simpl in H.
    apply enc_bool_pf in H as [-> ->]. split; [constructor|reflexivity].
  - destruct v2; try (pbmismatch H). simpl in H. unfold enc_unset in H. simpl in H.
    apply cons_eq_inv in H as [_ H]. split; [constructor|exact H].
  - destruct v2 as [ | | | | |l2| ]; try (pbmismatch H).
    rewrite !enc_pb_list, <- !app_assoc in H.
    apply enc_array_hdr_pf in H as [Hn H].
    apply pb_wf_list in W1, W2.
    assert (G : Forall2 pb_equiv l l2 /\ r1 = r2).
    { revert l2 Hn W2 H. induction l as [|a l IHind]; intros [|b l2] Hn W2 H; simpl in *; try discriminate.
      - split; [constructor|exact H].
      - rewrite <- !app_assoc in H. inversion IHl as [|? ? Ha IHl']; subst.
        inversion W1 as [|? ? Wa W1']; subst. inversion W2 as [|? ? Wb W2']; subst.
        destruct (Ha b _ _ Wa Wb H) as [Hab H'].
        destruct (IHind IHl' W1' l2) as [Hf Hr]; [lia|assumption|exact H'|].
        split; [constructor; auto|exact Hr]. }
    destruct G as [Hf Hr]. split; [constructor; exact Hf|exact Hr].
  - destruct v2 as [ | | | | | |fs2]; try (pbmismatch H).
    rewrite !enc_pb_struct, <- !app_assoc in H.
    apply enc_map_hdr_pf in H as [Hn H].
    apply pb_wf_struct in W1, W2.
    assert (P1 := sort_fields_perm fs). assert (P2 := sort_fields_perm fs2).
    assert (IH' : Forall (fun kv => forall v2 r1 r2, pb_wf (snd kv) = true -> pb_wf v2 = true ->
                     enc_pb (snd kv) ++ r1 = enc_pb v2 ++ r2 -> pb_equiv (snd kv) v2 /\ r1 = r2)
                  (sort_fields fs)).
    { rewrite Forall_forall in *. intros kv Hkv. apply IHfs.
      eapply Permutation_in; [exact P1|exact Hkv]. }
    assert (W1' : Forall (fun kv => pb_wf (snd kv) = true) (sort_fields fs)).
    { rewrite Forall_forall in *. intros kv Hkv. apply W1. eapply Permutation_in; [exact P1|exact Hkv]. }
    assert (W2' : Forall (fun kv => pb_wf (snd kv) = true) (sort_fields fs2)).
    { rewrite Forall_forall in *. intros kv Hkv. apply W2. eapply Permutation_in; [exact P2|exact Hkv]. }
    assert (Hn' : length (sort_fields fs) = length (sort_fields fs2)).
    { rewrite (Permutation_length P1), (Permutation_length P2). exact Hn. }
    apply (flat_map_pf kv_bytes kv_bytes (fun a b => fst a = fst b /\ pb_equiv (snd a) (snd b))) in H.
    + destruct H as [Hf Hr]. split; [|exact Hr].
      eapply PE_struct; [apply Permutation_sym; exact P1|apply Permutation_sym; exact P2|exact Hf].
    + exact Hn'.
    + intros a Ha b Hb s1 s2 E. unfold kv_bytes in E. rewrite <- !app_assoc in E.
      apply enc_string_pf in E as [Ek E].
      rewrite Forall_forall in IH', W1', W2'.
      destruct (IH' a Ha (snd b) _ _ (W1' a Ha) (W2' b Hb) E) as [Hq Hs]. auto.
Qed.

Corollary enc_pb_inj v1 v2 :
  pb_wf v1 = true -> pb_wf v2 = true -> enc_pb v1 = enc_pb v2 -> pb_equiv v1 v2.
Proof.
  intros W1 W2 H. apply (enc_pb_pf v1 v2 [] []); try assumption. rewrite !app_nil_r. exact H.
Qed.

(* ---- canonicity: semantically equal values have equal encodings (map keys unique, as in Go) *)
Lemma nodupb_NoDup l : nodupb l = true -> NoDup l.
Proof.
  induction l as [|x l IH]; simpl; intro H; [constructor|].
  apply andb_true_iff in H as [H1 H2]. constructor; [|apply IH; exact H2].
  intro Hin. apply negb_true_iff in H1.
  assert (existsb (beqb x) l = true); [|congruence].
  apply existsb_exists. exists x. split; [exact Hin|apply beqb_refl].
Qed.

Lemma NoDup_nodupb l : NoDup l -> nodupb l = true.
Proof.
  induction 1 as [|x l Hx Hn IH]; simpl; [reflexivity|].
  rewrite IH, andb_true_r. apply negb_true_iff.
  destruct (existsb (beqb x) l) eqn:E; [|reflexivity]. exfalso.
  apply existsb_exists in E as [y [Hy E]]. apply beqb_eq in E. subst. contradiction.
Qed.

Lemma nodup_fst_inj {B} (l : list (bytes * B)) a b :
  NoDup (map fst l) -> In a l -> In b l -> fst a = fst b -> a = b.
Proof.
  induction l as [|x l IH]; simpl; intros Hn Ha Hb E; [contradiction|].
  inversion Hn as [|? ? Hx Hn']; subst.
  destruct Ha as [->|Ha], Hb as [->|Hb].
  - reflexivity.
  - exfalso. apply Hx. rewrite E. apply in_map. exact Hb.
  - exfalso. apply Hx. rewrite <- E. apply in_map. exact Ha.
  - apply IH; assumption.
Qed.

Definition kle {B} (a b : bytes * B) : Prop := ble (fst a) (fst b).

Lemma go_isort_kless_unique {B} (l1 l2 : list (bytes * B)) :
  Permutation l1 l2 -> NoDup (map fst l1) -> go_isort kless l1 = go_isort kless l2.
Proof.
  intros HP Hn. apply (go_isort_unique kless kle).
  - intros x y H. apply ble_of_blt. exact H.
  - intros x y H. apply ble_total. exact H.
  - intros x y z. apply ble_trans.
  - exact HP.
  - intros a b Ha Hb H1 H2. eapply nodup_fst_inj; try eassumption. apply ble_antisym; assumption.
Qed.

Lemma pb_keys_unique_struct fs :
  pb_keys_unique (PStruct fs) = true ->
  NoDup (map fst fs) /\ Forall (fun kv => pb_keys_unique (snd kv) = true) fs.
Proof.
  simpl. intro H. apply andb_true_iff in H as [H1 H2]. split.
  - apply nodupb_NoDup. exact H1.
  - rewrite Forall_forall. rewrite forallb_forall in H2. exact H2.
Qed.

Theorem enc_pb_equiv v1 : forall v2,
  pb_equiv v1 v2 -> pb_keys_unique v1 = true -> enc_pb v1 = enc_pb v2.
Proof.
  induction v1 as [ |b|s|b| |l IHl|fs IHfs] using pbval_ind'; intros v2 He Hu;
    inversion He as [ | | | | |l1x l2 Hf|fs1x fs2 fs1' fs2' P1 P2 Hf]; subst; try reflexivity.
  - (* lists *)
    rewrite !enc_pb_list.
    simpl in Hu. rewrite forallb_forall in Hu.
    assert (G : length l = length l2 /\ flat_map enc_pb l = flat_map enc_pb l2).
    { clear He. induction Hf as [|a b l l2 Hab Hf IHf]; simpl; [auto|].
      inversion IHl as [|? ? Ha IHl']; subst.
      destruct IHf as [Hlen Hfm]; [exact IHl'|intros x Hx; apply Hu; right; exact Hx|].
      split; [lia|]. rewrite Hfm. f_equal. apply Ha; [exact Hab|apply Hu; left; reflexivity]. }
    destruct G as [-> ->]. reflexivity.
  - (* structs *)
    apply pb_keys_unique_struct in Hu as [Hn Hu].
    change (enc_pb (PStruct fs)) with
      (enc_map_hdr (length fs) ++ flat_map ke_bytes (go_isort kless (map kenc fs))).
    change (enc_pb (PStruct fs2)) with
      (enc_map_hdr (length fs2) ++ flat_map ke_bytes (go_isort kless (map kenc fs2))).
    assert (Hm : map kenc fs1' = map kenc fs2').
    { assert (IH' : Forall (fun kv => forall v2, pb_equiv (snd kv) v2 ->
                               pb_keys_unique (snd kv) = true -> enc_pb (snd kv) = enc_pb v2) fs1').
      { rewrite Forall_forall in *. intros kv Hkv. apply IHfs.
        eapply Permutation_in; [apply Permutation_sym; exact P1|exact Hkv]. }
      assert (Hu' : Forall (fun kv => pb_keys_unique (snd kv) = true) fs1').
      { rewrite Forall_forall in *. intros kv Hkv. apply Hu.
        eapply Permutation_in; [apply Permutation_sym; exact P1|exact Hkv]. }
      clear P1 P2 He. induction Hf as [|a b l1 l2 [Hk Hab] Hf IHf]; simpl; [reflexivity|].
      inversion IH' as [|? ? Ha IH'']; subst. inversion Hu' as [|? ? Hua Hu'']; subst.
      rewrite IHf by assumption. f_equal. unfold kenc. rewrite Hk. f_equal. apply Ha; assumption. }
    assert (HP : Permutation (map kenc fs) (map kenc fs2)).
    { rewrite (Permutation_map kenc P1), (Permutation_map kenc P2), Hm. reflexivity. }
    assert (Hlen : length fs = length fs2).
    { rewrite <- (map_length kenc fs), <- (map_length kenc fs2). apply Permutation_length. exact HP. }
    rewrite Hlen. f_equal. f_equal.
    apply go_isort_kless_unique; [exact HP|].
    rewrite map_map. simpl. exact Hn.
Qed.

Lemma pb_equiv_refl v : pb_equiv v v.
Proof.
  induction v as [ |b|s|b| |l IHl|fs IHfs] using pbval_ind'; try constructor.
  - induction IHl; constructor; assumption.
  - eapply PE_struct; [reflexivity|reflexivity|].
    induction IHfs; constructor; auto.
Qed.

(* pbvalue_encode_canonical *)
Theorem pbvalue_encode_canonical v1 v2 :
  pb_wf v1 = true -> pb_wf v2 = true -> pb_keys_unique v1 = true ->
  (enc_pb v1 = enc_pb v2 <-> pb_equiv v1 v2).
Proof.
  intros W1 W2 U1. split.
  - apply enc_pb_inj; assumption.
  - intro H. apply enc_pb_equiv; assumption.
Qed.

(* without unique keys (impossible for a Go map) the order of equal keys would leak *)
Example enc_pb_dup_keys_not_canonical :
  exists fs1 fs2, Permutation fs1 fs2 /\ enc_pb (PStruct fs1) <> enc_pb (PStruct fs2).
Proof.
  exists [([97], PNull); ([97], PUnset)], [([97], PUnset); ([97], PNull)].
  split; [apply perm_swap|]. vm_compute. discriminate.
Qed.

(* ------------------------------------------------------------------ the stack walk = the recursive definition *)
Definition frame_bytes (f : frame) : bytes :=
  match fst f with Some s => enc_string s | None => [] end ++ enc_pb (snd f).
Definition frames_size (st : list frame) : nat := list_sum (map (fun f => pb_size (snd f)) st).

Lemma pb_size_pos v : (1 <= pb_size v)%nat.
Proof. destruct v; simpl; lia. Qed.

Lemma list_sum_perm l1 l2 : Permutation l1 l2 -> list_sum l1 = list_sum l2.
Proof. induction 1; simpl; lia. Qed.

Lemma frames_size_app a b : frames_size (a ++ b) = (frames_size a + frames_size b)%nat.
Proof. unfold frames_size. rewrite map_app, list_sum_app. reflexivity. Qed.

Lemma frames_size_list l : frames_size (map (fun x => (None, x)) l) = list_sum (map pb_size l).
Proof. unfold frames_size. rewrite map_map. reflexivity. Qed.

Lemma frames_size_struct (sf : list (bytes * pbval)) :
  frames_size (map (fun kv => (Some (fst kv), snd kv)) sf) = list_sum (map (fun kv => pb_size (snd kv)) sf).
Proof. unfold frames_size. rewrite map_map. reflexivity. Qed.

Lemma pb_size_list l : pb_size (PList l) = S (list_sum (map pb_size l)).
Proof. reflexivity. Qed.

Lemma pb_size_struct fs : pb_size (PStruct fs) = S (list_sum (map (fun kv => pb_size (snd kv)) fs)).
Proof. reflexivity. Qed.

Lemma frame_bytes_list l : flat_map (fun x => frame_bytes (None, x)) l = flat_map enc_pb l.
Proof. reflexivity. Qed.

Lemma frame_bytes_struct (sf : list (bytes * pbval)) :
  flat_map (fun kv => frame_bytes (Some (fst kv), snd kv)) sf = flat_map kv_bytes sf.
Proof. reflexivity. Qed.

Lemma concat_rev_cons (c : bytes) racc : concat (frev (c :: racc)) = concat (frev racc) ++ c.
Proof. rewrite !frev_rev. simpl. rewrite concat_app. simpl. rewrite app_nil_r. reflexivity. Qed.

Lemma pb_walk_correct fuel : forall stack racc,
  (frames_size stack <= fuel)%nat ->
  pb_walk fuel stack racc = Some (concat (frev racc) ++ flat_map frame_bytes stack).
Proof.
  induction fuel as [|f IH]; intros stack racc Hsz.
  - destruct stack as [|[k v] st]; simpl.
    + rewrite app_nil_r. reflexivity.
    + exfalso. unfold frames_size in Hsz. simpl in Hsz. assert (H := pb_size_pos v). lia.
  - destruct stack as [|[k v] st].
    + simpl. rewrite app_nil_r. reflexivity.
    + assert (Hsz' : (pb_size v + frames_size st <= S f)%nat) by exact Hsz.
      clear Hsz. rename Hsz' into Hsz. assert (Hp := pb_size_pos v).
      cbn [flat_map]. unfold frame_bytes at 1. cbn [fst snd].
      destruct v as [ |b|s|b| |l|fs]; cbn [pb_walk];
        try (rewrite IH by (simpl in Hsz; lia); rewrite !concat_rev_cons, <- !app_assoc; reflexivity).
      * (* list *)
        rewrite pb_size_list in Hsz.
        rewrite IH.
        -- f_equal. rewrite !concat_rev_cons.
           rewrite flat_map_app, flat_map_map, frame_bytes_list, enc_pb_list, <- !app_assoc.
           reflexivity.
        -- rewrite frames_size_app, frames_size_list. lia.
      * (* struct *)
        rewrite pb_size_struct in Hsz.
        rewrite IH.
        -- f_equal. rewrite !concat_rev_cons.
           rewrite flat_map_app, flat_map_map, frame_bytes_struct, enc_pb_struct, <- !app_assoc.
           rewrite (Permutation_length (sort_fields_perm fs)). reflexivity.
        -- rewrite frames_size_app, frames_size_struct.
           rewrite (list_sum_perm _ _ (Permutation_map (fun kv => pb_size (snd kv)) (sort_fields_perm fs))).
           lia.
Qed.

Theorem pb_write_total v : pb_write_outcome v = Bytes (enc_pb v).
Proof.
  unfold pb_write_outcome. rewrite pb_walk_correct.
  - simpl. unfold frame_bytes. simpl. rewrite app_nil_r. reflexivity.
  - unfold frames_size. simpl. lia.
Qed.

(* the iterative walk of PbValue.WriteTo computes exactly the recursive specification *)
Theorem pb_write_eq_rec v : pb_write v = enc_pb v.
Proof. unfold pb_write. rewrite pb_write_total. reflexivity. Qed.

Example pb_write_example :
  pb_write (PStruct [([98], PList [PBool true; PNull]); ([97], PStruct [([120], PStr [121])])])
  = [7; 2; 4; 1; 97; 7; 1; 4; 1; 120; 4; 1; 121; 4; 1; 98; 6; 2; 2; 1; 0].
Proof. vm_compute. reflexivity. Qed.
