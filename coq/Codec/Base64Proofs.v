(* Proofs about the base64 model (Codec/Base64.v). *)
From OFGA Require Import Codec.Base64.
From Coq Require Import ZArith ZifyBool ZifyN ZifyNat.
Open Scope N_scope.

Ltac Zify.zify_post_hook ::= Z.div_mod_to_equations.

(* ---- characters ---- *)

Lemma dec_enc_char v : v < 64 -> dec_char (enc_char v) = Some v.
Proof.
  intro Hv. unfold enc_char, dec_char.
  destruct (v <? 26) eqn:E1.
  - replace ((65 <=? 65 + v) && (65 + v <=? 90)) with true by lia. f_equal. lia.
  - destruct (v <? 52) eqn:E2.
    + replace ((65 <=? 71 + v) && (71 + v <=? 90)) with false by lia.
      replace ((97 <=? 71 + v) && (71 + v <=? 122)) with true by lia. f_equal. lia.
    + destruct (v <? 62) eqn:E3.
      * replace ((65 <=? v - 4) && (v - 4 <=? 90)) with false by lia.
        replace ((97 <=? v - 4) && (v - 4 <=? 122)) with false by lia.
        replace ((48 <=? v - 4) && (v - 4 <=? 57)) with true by lia. f_equal. lia.
      * destruct (v =? 62) eqn:E4.
        -- apply N.eqb_eq in E4. subst v. reflexivity.
        -- assert (v = 63) as -> by lia. reflexivity.
Qed.

Lemma dec_char_lt c v : dec_char c = Some v -> v < 64.
Proof.
  unfold dec_char. intro H.
  destruct ((65 <=? c) && (c <=? 90)) eqn:E1; [inversion H; lia|].
  destruct ((97 <=? c) && (c <=? 122)) eqn:E2; [inversion H; lia|].
  destruct ((48 <=? c) && (c <=? 57)) eqn:E3; [inversion H; lia|].
  destruct (c =? 45); [inversion H; lia|].
  destruct (c =? 95); [inversion H; lia|]. discriminate.
Qed.

(* decoding a character is injective, and its inverse is enc_char *)
Lemma enc_dec_char c v : dec_char c = Some v -> enc_char v = c.
Proof.
  unfold dec_char, enc_char. intro H.
  destruct ((65 <=? c) && (c <=? 90)) eqn:E1.
  { inversion H; subst v. replace (c - 65 <? 26) with true by lia. lia. }
  destruct ((97 <=? c) && (c <=? 122)) eqn:E2.
  { inversion H; subst v. replace (c - 71 <? 26) with false by lia.
    replace (c - 71 <? 52) with true by lia. lia. }
  destruct ((48 <=? c) && (c <=? 57)) eqn:E3.
  { inversion H; subst v. replace (c + 4 <? 26) with false by lia.
    replace (c + 4 <? 52) with false by lia. replace (c + 4 <? 62) with true by lia. lia. }
  destruct (c =? 45) eqn:E4; [inversion H; subst v; simpl; lia|].
  destruct (c =? 95) eqn:E5; [inversion H; subst v; simpl; lia|]. discriminate.
Qed.

Lemma dec_char_pad : dec_char c_pad = None.
Proof. reflexivity. Qed.

Lemma dec_char_nl c : is_nl c = true -> dec_char c = None.
Proof.
  unfold is_nl, c_lf, c_cr. intro H. apply orb_true_iff in H as [H|H]; apply N.eqb_eq in H; subst; reflexivity.
Qed.

(* ---- one quantum: the bit arithmetic ---- *)

Lemma sextet_bounds a b c : a < 256 -> b < 256 -> c < 256 ->
  a / 4 < 64 /\ (a mod 4) * 16 + b / 16 < 64 /\ (b mod 16) * 4 + c / 64 < 64 /\ c mod 64 < 64 /\
  (a mod 4) * 16 < 64 /\ (b mod 16) * 4 < 64.
Proof. intros. repeat split; lia. Qed.

Lemma quantum_out1 a b : a < 256 -> b < 256 -> out1 (a / 4) ((a mod 4) * 16 + b / 16) = a.
Proof. intros. unfold out1. lia. Qed.

Lemma quantum_out2 a b c : b < 256 -> c < 256 ->
  out2 ((a mod 4) * 16 + b / 16) ((b mod 16) * 4 + c / 64) = b.
Proof. intros. unfold out2. lia. Qed.

Lemma quantum_out3 b c : c < 256 -> out3 ((b mod 16) * 4 + c / 64) (c mod 64) = c.
Proof. intros. unfold out3. lia. Qed.

(* padded quanta: the missing input bytes count as zero *)
Lemma quantum_out1_pad a : a < 256 -> out1 (a / 4) ((a mod 4) * 16) = a.
Proof. intros. unfold out1. lia. Qed.

Lemma quantum_out2_pad a b : b < 256 -> out2 ((a mod 4) * 16 + b / 16) ((b mod 16) * 4) = b.
Proof. intros. unfold out2. lia. Qed.

(* ---- decode . encode = id ---- *)

Lemma list_ind3 (P : bytes -> Prop) :
  P [] -> (forall a, P [a]) -> (forall a b, P [a; b]) ->
  (forall a b c r, P r -> P (a :: b :: c :: r)) -> forall l, P l.
Proof.
  intros H0 H1 H2 H3. fix IH 1. intros [|a [|b [|c r]]].
  - exact H0.
  - apply H1.
  - apply H2.
  - apply H3. apply IH.
Qed.

Lemma dec_step_alpha st v s : v < 64 ->
  b64_dec st (enc_char v :: s) =
  match st with
  | Q0 => b64_dec (Q1 v) s
  | Q1 a => b64_dec (Q2 a v) s
  | Q2 a b => b64_dec (Q3 a b v) s
  | Q3 a b c => match b64_dec Q0 s with
                | Some r => Some (out1 a b :: out2 b c :: out3 c v :: r)
                | None => None
                end
  end.
Proof. intro Hv. simpl. rewrite (dec_enc_char v Hv). reflexivity. Qed.

Lemma dec_enc3 a b c s : a < 256 -> b < 256 -> c < 256 ->
  b64_dec Q0 (enc3 a b c ++ s) =
  match b64_dec Q0 s with Some r => Some (a :: b :: c :: r) | None => None end.
Proof.
  intros Ha Hb Hc.
  destruct (sextet_bounds a b c Ha Hb Hc) as (B0 & B1 & B2 & B3 & _).
  unfold enc3. cbn [app].
  rewrite (dec_step_alpha Q0 _ _ B0), (dec_step_alpha (Q1 _) _ _ B1),
          (dec_step_alpha (Q2 _ _) _ _ B2), (dec_step_alpha (Q3 _ _ _) _ _ B3).
  rewrite (quantum_out1 a b Ha Hb), (quantum_out2 a b c Hb Hc), (quantum_out3 b c Hc).
  reflexivity.
Qed.

Lemma bytes_ok_cons b bs : bytes_ok (b :: bs) = true <-> b < 256 /\ bytes_ok bs = true.
Proof.
  unfold bytes_ok, byte_ok. simpl. rewrite andb_true_iff, N.ltb_lt. tauto.
Qed.

(* THE round trip: for every byte list (every element a byte), all three padding cases *)
Theorem b64_decode_encode : forall bs, bytes_ok bs = true -> b64_decode (b64_encode bs) = Some bs.
Proof.
  unfold b64_decode.
  induction bs as [|a|a b|a b c r IH] using list_ind3; intro Hok.
  - reflexivity.
  - apply bytes_ok_cons in Hok as [Ha _].
    destruct (sextet_bounds a 0 0 Ha) as (B0 & _ & _ & _ & B4 & _); try lia.
    cbn [b64_encode].
    rewrite (dec_step_alpha Q0 _ _ B0), (dec_step_alpha (Q1 _) _ _ B4).
    cbn. rewrite (quantum_out1_pad a Ha). reflexivity.
  - apply bytes_ok_cons in Hok as [Ha Hok]. apply bytes_ok_cons in Hok as [Hb _].
    destruct (sextet_bounds a b 0 Ha Hb) as (B0 & B1 & _ & _ & _ & B5); try lia.
    cbn [b64_encode].
    rewrite (dec_step_alpha Q0 _ _ B0), (dec_step_alpha (Q1 _) _ _ B1),
            (dec_step_alpha (Q2 _ _) _ _ B5).
    cbn. rewrite (quantum_out1 a b Ha Hb), (quantum_out2_pad a b Hb). reflexivity.
  - apply bytes_ok_cons in Hok as [Ha Hok]. apply bytes_ok_cons in Hok as [Hb Hok].
    apply bytes_ok_cons in Hok as [Hc Hok].
    change (b64_encode (a :: b :: c :: r)) with (enc3 a b c ++ b64_encode r).
    rewrite (dec_enc3 a b c _ Ha Hb Hc), (IH Hok). reflexivity.
Qed.

(* ---- what the decoder accepts ---- *)

Lemma skip_nl_nil s : skip_nl s = [] <-> forallb is_nl s = true.
Proof.
  induction s as [|c s IH]; simpl; [tauto|].
  destruct (is_nl c); simpl; [exact IH|]. split; discriminate.
Qed.

Lemma skip_nl_cons s d r : skip_nl s = d :: r ->
  exists k, s = k ++ d :: r /\ forallb is_nl k = true /\ is_nl d = false.
Proof.
  induction s as [|c s IH]; simpl; [discriminate|].
  destruct (is_nl c) eqn:E.
  - intro H. destruct (IH H) as (k & -> & Hk & Hd). exists (c :: k). simpl. rewrite E. auto.
  - intro H. inversion H; subst. exists []. auto.
Qed.

Lemma forallb_nl_b64 k : forallb is_nl k = true -> forallb is_b64_byte k = true.
Proof.
  intro H. rewrite forallb_forall in *. intros x Hx. unfold is_b64_byte. rewrite (H x Hx).
  apply orb_true_r.
Qed.

(* a successfully decoded string consists of alphabet characters, '=', CR and LF only:
   any other byte anywhere makes Decode fail *)
Theorem b64_dec_accepts_only_b64_bytes : forall s st bs,
  b64_dec st s = Some bs -> forallb is_b64_byte s = true.
Proof.
  induction s as [|ch s IH]; intros st bs H; [reflexivity|].
  cbn [forallb]. cbn [b64_dec] in H. unfold is_b64_byte at 1, is_alpha.
  destruct (dec_char ch) as [v|] eqn:Ev.
  - cbn [orb andb].
    destruct st.
    + eapply IH; eassumption.
    + eapply IH; eassumption.
    + eapply IH; eassumption.
    + destruct (b64_dec Q0 s) eqn:E; [|discriminate]. eapply IH; eassumption.
  - cbn [orb]. destruct (is_nl ch) eqn:Enl.
    + rewrite orb_true_r. cbn [andb]. eapply IH; eassumption.
    + destruct (ch =? c_pad) eqn:Ep; [|discriminate]. cbn [orb andb].
      destruct st; try discriminate.
      * destruct (skip_nl s) as [|d s''] eqn:Es; [discriminate|].
        destruct (d =? c_pad) eqn:Ed; [|discriminate].
        destruct (skip_nl s'') eqn:Es2; [|discriminate].
        apply skip_nl_cons in Es as (k & -> & Hk & _).
        rewrite forallb_app. rewrite (forallb_nl_b64 k Hk). cbn [forallb andb].
        unfold is_b64_byte at 1. rewrite Ed, orb_true_r. cbn [orb andb].
        apply forallb_nl_b64. apply skip_nl_nil. exact Es2.
      * destruct (skip_nl s) eqn:Es; [|discriminate].
        apply forallb_nl_b64. apply skip_nl_nil. exact Es.
Qed.

Corollary b64_decode_rejects_non_alphabet : forall s c,
  In c s -> is_b64_byte c = false -> b64_decode s = None.
Proof.
  intros s c Hin Hc. destruct (b64_decode s) as [bs|] eqn:E; [|reflexivity].
  apply b64_dec_accepts_only_b64_bytes in E. rewrite forallb_forall in E.
  rewrite (E c Hin) in Hc. discriminate.
Qed.

(* ---- decoded output is a byte list ---- *)

Definition st_ok (st : qstate) : Prop :=
  match st with
  | Q0 => True | Q1 a => a < 64 | Q2 a b => a < 64 /\ b < 64 | Q3 a b c => a < 64 /\ b < 64 /\ c < 64
  end.

Lemma out_bounds a b c d : a < 64 -> b < 64 -> c < 64 -> d < 64 ->
  out1 a b < 256 /\ out2 b c < 256 /\ out3 c d < 256.
Proof. intros. unfold out1, out2, out3. repeat split; lia. Qed.

Lemma b64_dec_bytes_ok : forall s st bs, st_ok st -> b64_dec st s = Some bs -> bytes_ok bs = true.
Proof.
  induction s as [|ch s IH]; intros st bs Hst H; cbn [b64_dec] in H.
  - destruct st; try discriminate. inversion H. reflexivity.
  - destruct (dec_char ch) as [v|] eqn:Ev.
    + pose proof (dec_char_lt _ _ Ev) as Hv.
      destruct st; cbn [st_ok] in Hst.
      * eapply (IH (Q1 v)); [exact Hv | exact H].
      * eapply (IH (Q2 a v)); [split; assumption | exact H].
      * eapply (IH (Q3 a b v)); [destruct Hst; repeat split; assumption | exact H].
      * destruct (b64_dec Q0 s) as [r|] eqn:E; [|discriminate]. inversion H; subst.
        destruct Hst as (Ha & Hb & Hc).
        destruct (out_bounds a b c v Ha Hb Hc Hv) as (O1 & O2 & O3).
        apply bytes_ok_cons; split; [exact O1|]. apply bytes_ok_cons; split; [exact O2|].
        apply bytes_ok_cons; split; [exact O3|]. eapply (IH Q0); [exact I | exact E].
    + destruct (is_nl ch); [eapply IH; eassumption|].
      destruct (ch =? c_pad); [|discriminate].
      destruct st; try discriminate; cbn [st_ok] in Hst.
      * destruct (skip_nl s) as [|d s'']; [discriminate|].
        destruct (d =? c_pad); [|discriminate]. destruct (skip_nl s''); [|discriminate].
        inversion H; subst. destruct Hst as (Ha & Hb).
        destruct (out_bounds a b 0 0 Ha Hb) as (O1 & _); try lia.
        apply bytes_ok_cons; split; [exact O1 | reflexivity].
      * destruct (skip_nl s); [|discriminate]. inversion H; subst.
        destruct Hst as (Ha & Hb & Hc).
        destruct (out_bounds a b c 0 Ha Hb Hc) as (O1 & O2 & _); try lia.
        apply bytes_ok_cons; split; [exact O1|]. apply bytes_ok_cons; split; [exact O2 | reflexivity].
Qed.

Theorem b64_decode_bytes_ok : forall s bs, b64_decode s = Some bs -> bytes_ok bs = true.
Proof. intros s bs. apply b64_dec_bytes_ok. exact I. Qed.

(* ---- which strings decode to the empty byte string ---- *)

Lemma b64_dec_empty : forall s st, b64_dec st s = Some [] -> st = Q0 /\ forallb is_nl s = true.
Proof.
  induction s as [|ch s IH]; intros st H; cbn [b64_dec] in H.
  - destruct st; try discriminate. auto.
  - destruct (dec_char ch) as [v|] eqn:Ev.
    + destruct st.
      * apply IH in H as [H _]. discriminate.
      * apply IH in H as [H _]. discriminate.
      * apply IH in H as [H _]. discriminate.
      * destruct (b64_dec Q0 s); discriminate.
    + destruct (is_nl ch) eqn:Enl.
      * apply IH in H as [-> H]. cbn [forallb]. rewrite Enl. auto.
      * destruct (ch =? c_pad); [|discriminate].
        destruct st; try discriminate.
        -- destruct (skip_nl s) as [|d s'']; [discriminate|].
           destruct (d =? c_pad); [|discriminate]. destruct (skip_nl s''); discriminate.
        -- destruct (skip_nl s); discriminate.
Qed.

Lemma b64_dec_nl_only : forall s st, forallb is_nl s = true -> b64_dec st s = b64_dec st [].
Proof.
  induction s as [|ch s IH]; intros st H; [reflexivity|].
  cbn [forallb] in H. apply andb_true_iff in H as [Hc Hs].
  cbn [b64_dec]. rewrite (dec_char_nl ch Hc), Hc. apply IH. exact Hs.
Qed.

(* exactly the strings made of CR/LF only (the empty string included) decode to "" *)
Theorem b64_decode_empty_iff : forall s, b64_decode s = Some [] <-> forallb is_nl s = true.
Proof.
  intro s. unfold b64_decode. split.
  - intro H. apply b64_dec_empty in H. tauto.
  - intro H. rewrite (b64_dec_nl_only s Q0 H). reflexivity.
Qed.

(* ---- Decode is NOT injective: token strings are malleable at the base64 layer ---- *)

(* "QQ==", "QR==" (unused pad bits) and "QQ==\n", "Q\rQ==" (ignored CR/LF) all decode to "A" *)
Example b64_decode_not_injective :
  b64_decode [81; 81; 61; 61] = Some [65] /\
  b64_decode [81; 82; 61; 61] = Some [65] /\
  b64_decode [81; 81; 61; 61; 10] = Some [65] /\
  b64_decode [81; 13; 81; 61; 10; 61] = Some [65].
Proof. repeat split. Qed.

(* non-vacuity / sanity *)
Example b64_encode_foobar :
  b64_encode [102; 111; 111; 98; 97] = [90; 109; 57; 118; 89; 109; 69; 61] (* "Zm9vYmE=" *) /\
  b64_encode [251; 255] = [45; 95; 56; 61] (* "-_8=" *) /\
  b64_decode [90; 109; 57; 118; 89; 109; 69] = None (* missing padding *) /\
  b64_decode [90; 109; 57; 118; 89; 109; 69; 61; 65] = None (* trailing garbage *) /\
  b64_decode [90; 109; 43; 118] = None (* '+' is not in the URL alphabet *).
Proof. repeat split. Qed.
