From OFGA Require Import Base.Bytes Codec.Varint.
From Coq Require Import ZifyBool ZifyN ZifyNat.

Lemma pow128_succ f : 128 ^ N.of_nat (S f) = 128 * 128 ^ N.of_nat f.
Proof. rewrite Nat2N.inj_succ, N.pow_succ_r'. reflexivity. Qed.

(* every byte but the last has the continuation bit, the last one does not *)
Lemma uv_prefix_free f g x y r1 r2 :
  x < 128 ^ N.of_nat (S f) -> y < 128 ^ N.of_nat (S g) ->
  uv f x ++ r1 = uv g y ++ r2 -> x = y /\ r1 = r2.
Proof.
  revert g x y. induction f as [|f IH]; intros g x y Hx Hy H.
  - change (128 ^ N.of_nat 1) with 128 in Hx. simpl in H.
    destruct g as [|g]; simpl in H.
    + inversion H; auto.
    + destruct (y <? 128) eqn:E; simpl in H.
      * inversion H; auto.
      * inversion H as [[H1 H2]]. exfalso.
        assert (y mod 128 < 128) by (apply N.mod_lt; discriminate). lia.
  - rewrite pow128_succ in Hx. simpl in H.
    destruct (x <? 128) eqn:Ex.
    + destruct g as [|g]; simpl in H.
      * inversion H; auto.
      * destruct (y <? 128) eqn:Ey; simpl in H.
        -- inversion H; auto.
        -- inversion H as [[H1 H2]]. exfalso.
           assert (y mod 128 < 128) by (apply N.mod_lt; discriminate). lia.
    + destruct g as [|g]; simpl in H.
      * change (128 ^ N.of_nat 1) with 128 in Hy. inversion H as [[H1 H2]]. exfalso.
        assert (x mod 128 < 128) by (apply N.mod_lt; discriminate). lia.
      * rewrite pow128_succ in Hy.
        destruct (y <? 128) eqn:Ey; simpl in H.
        -- inversion H as [[H1 H2]]. exfalso.
           assert (x mod 128 < 128) by (apply N.mod_lt; discriminate). lia.
        -- inversion H as [[H1 H2]].
           assert (Hx' : x / 128 < 128 ^ N.of_nat (S f)).
           { apply N.div_lt_upper_bound; [discriminate|]. exact Hx. }
           assert (Hy' : y / 128 < 128 ^ N.of_nat (S g)).
           { apply N.div_lt_upper_bound; [discriminate|]. exact Hy. }
           destruct (IH g (x / 128) (y / 128) Hx' Hy' H2) as [Hq Hr].
           split; [|exact Hr].
           rewrite (N.div_mod x 128), (N.div_mod y 128) by discriminate.
           assert (x mod 128 = y mod 128) by lia. congruence.
Qed.

Lemma log2_fuel_bound x : x < 128 ^ N.of_nat (S (N.to_nat (N.log2 x))).
Proof.
  rewrite Nat2N.inj_succ, N2Nat.id.
  destruct (N.eq_dec x 0) as [->|Hx].
  - simpl. reflexivity.
  - assert (H := N.log2_spec x ltac:(lia)). destruct H as [_ H].
    eapply N.lt_le_trans; [exact H|].
    apply N.pow_le_mono_l. lia.
Qed.

Theorem uvarint_prefix_free x y r1 r2 :
  uvarint x ++ r1 = uvarint y ++ r2 -> x = y /\ r1 = r2.
Proof.
  unfold uvarint. apply uv_prefix_free; apply log2_fuel_bound.
Qed.

Corollary uvarint_inj x y : uvarint x = uvarint y -> x = y.
Proof.
  intro H. apply (uvarint_prefix_free x y [] []). rewrite !app_nil_r. exact H.
Qed.

(* the fuel is sufficient: the result does not depend on it once x < 128^(fuel+1) *)
Lemma uv_fuel_enough f g x :
  x < 128 ^ N.of_nat (S f) -> x < 128 ^ N.of_nat (S g) -> uv f x = uv g x.
Proof.
  revert g x. induction f as [|f IH]; intros g x Hf Hg.
  - change (128 ^ N.of_nat 1) with 128 in Hf. destruct g as [|g]; simpl; [reflexivity|].
    apply N.ltb_lt in Hf. rewrite Hf. reflexivity.
  - destruct g as [|g].
    + change (128 ^ N.of_nat 1) with 128 in Hg. simpl. apply N.ltb_lt in Hg. rewrite Hg. reflexivity.
    + simpl. destruct (x <? 128); [reflexivity|]. f_equal.
      rewrite pow128_succ in Hf, Hg.
      apply IH; apply N.div_lt_upper_bound; try discriminate; assumption.
Qed.

(* All bytes emitted are < 256 *)
Lemma uv_bytes_lt f x : Forall (fun b => b < 256) (uv f x) \/ 256 <= x.
Proof.
  destruct (N.lt_ge_cases x 256) as [H|H]; [left|right; exact H].
  revert x H. induction f as [|f IH]; intros x H; simpl.
  - constructor; [exact H|constructor].
  - destruct (x <? 128) eqn:E.
    + constructor; [exact H|constructor].
    + constructor.
      * assert (x mod 128 < 128) by (apply N.mod_lt; discriminate). lia.
      * apply IH. apply N.div_lt_upper_bound; [discriminate|]. lia.
Qed.

(* decoder round trip: unique decodability stated constructively *)
Lemma uv_decode_correct f x r k :
  x < 128 ^ N.of_nat (S f) -> (length (uv f x ++ r) <= k)%nat ->
  uv_decode k (uv f x ++ r) = Some (x, r).
Proof.
  revert x k. induction f as [|f IH]; intros x k Hx Hk.
  - change (128 ^ N.of_nat 1) with 128 in Hx. simpl in *.
    destruct k as [|k]; [lia|]. simpl. apply N.ltb_lt in Hx. rewrite Hx. reflexivity.
  - rewrite pow128_succ in Hx. simpl in *.
    destruct (x <? 128) eqn:E.
    + simpl in *. destruct k as [|k]; [lia|]. simpl. rewrite E. reflexivity.
    + simpl in *. destruct k as [|k]; [lia|]. simpl.
      assert (Hm : x mod 128 < 128) by (apply N.mod_lt; discriminate).
      assert (E2 : (x mod 128 + 128 <? 128) = false) by (apply N.ltb_ge; lia).
      rewrite E2. rewrite IH.
      * f_equal. f_equal.
        replace (x mod 128 + 128 - 128) with (x mod 128) by lia.
        rewrite N.mul_comm. symmetry. apply N.div_mod. discriminate.
      * apply N.div_lt_upper_bound; [discriminate|]. exact Hx.
      * lia.
Qed.

Theorem uvarint_decode_encode x r : uvarint_decode (uvarint x ++ r) = Some (x, r).
Proof.
  unfold uvarint_decode, uvarint. apply uv_decode_correct; [apply log2_fuel_bound|lia].
Qed.

(* ---- fixed-width little endian *)
Lemma le_bytes_length n i : length (le_bytes n i) = n.
Proof. revert i; induction n as [|n IH]; intro i; simpl; [reflexivity|]. rewrite IH. reflexivity. Qed.

Lemma le_bytes_prefix_free n i j r1 r2 :
  i < 256 ^ N.of_nat n -> j < 256 ^ N.of_nat n ->
  le_bytes n i ++ r1 = le_bytes n j ++ r2 -> i = j /\ r1 = r2.
Proof.
  revert i j. induction n as [|n IH]; intros i j Hi Hj H.
  - simpl in *. split; [lia|exact H].
  - rewrite Nat2N.inj_succ, N.pow_succ_r' in Hi, Hj. simpl in H.
    inversion H as [[H1 H2]].
    assert (Hi' : i / 256 < 256 ^ N.of_nat n) by (apply N.div_lt_upper_bound; [discriminate|exact Hi]).
    assert (Hj' : j / 256 < 256 ^ N.of_nat n) by (apply N.div_lt_upper_bound; [discriminate|exact Hj]).
    destruct (IH _ _ Hi' Hj' H2) as [Hq Hr]. split; [|exact Hr].
    rewrite (N.div_mod i 256), (N.div_mod j 256) by discriminate. congruence.
Qed.

Lemma le64_prefix_free i j r1 r2 :
  is_u64 i = true -> is_u64 j = true -> le64 i ++ r1 = le64 j ++ r2 -> i = j /\ r1 = r2.
Proof.
  unfold is_u64, le64. intros Hi Hj. apply N.ltb_lt in Hi, Hj.
  apply le_bytes_prefix_free; assumption.
Qed.

(* without the range hypothesis distinct numbers collide: the model reduces modulo 2^64 like Go *)
Example le64_wraps : le64 0 = le64 two64.
Proof. vm_compute. reflexivity. Qed.

Example uvarint_300 : uvarint 300 = [172; 2].
Proof. vm_compute. reflexivity. Qed.
Example uvarint_127_128 : uvarint 127 = [127] /\ uvarint 128 = [128; 1] /\ uvarint 0 = [0].
Proof. vm_compute. auto. Qed.
