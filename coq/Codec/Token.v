(* Executable model of the continuation-token pipeline (C28):
     pkg/encoder/token_serializer.go  (StringContinuationTokenSerializer: "ulid|type")
     pkg/encoder/encoder.go           (NoopEncoder)
     pkg/encoder/base64.go            (Base64Encoder, see Base64.v)
     pkg/encoder/token_encoder.go     (TokenEncoder = encrypter . encoder)
     pkg/encrypter/encrypter.go       (NoopEncrypter)
     pkg/encrypter/gcm_encrypter.go   (GCMEncrypter, including its len(data)==0 short cuts)
   and of the two places where the server turns a request token into a storage position and a
   storage position into a response token (pkg/server/commands/read_changes.go, read.go).
   Model only; proofs are in TokenProofs.v.

   AES-GCM itself (crypto/cipher) is external: it is a pair of Section variables
   [seal nonce plaintext] (= cipher.AEAD.Seal(nil, nonce, plaintext, nil), ciphertext||tag) and
   [aopen nonce ciphertext] (= cipher.AEAD.Open), for ONE fixed key.  The nonce that Encrypt
   draws from crypto/rand is an explicit argument. *)
From OFGA Require Export Codec.Base64.
Open Scope N_scope.

(* ---- StringContinuationTokenSerializer ---- *)

(* Serialize: error on empty ulid, else fmt.Sprintf("%s|%s", ulid, objType) *)
Definition serialize (u t : bytes) : option bytes :=
  match u with
  | [] => None
  | _ => Some (u ++ c_pipe :: t)
  end.

(* Deserialize: strings.Cut(token, "|"); error when there is no '|' or the ulid part is empty *)
Definition deserialize (tok : bytes) : option (bytes * bytes) :=
  match cut c_pipe tok with
  | Some (u, t) => match u with [] => None | _ => Some (u, t) end
  | None => None
  end.

(* ---- encrypters and encoders ---- *)

Inductive crypter := CNoop | CGcm.
Inductive encoder := ENoop | EBase64 | EToken (c : crypter) (inner : encoder).

Definition nonce_size : nat := 12.  (* cipher.NewGCM: standard nonce size *)

(* what a request token resolves to (server side, below) *)
Inductive resume :=
| RInvalid                (* ErrInvalidContinuationToken *)
| RMismatch               (* ErrMismatchObjectType (ReadChanges only) *)
| RStart                  (* empty decoded token: no position, read from the beginning *)
| RFrom (u : bytes).      (* Pagination.From handed to the datastore *)

Section AEAD.
  Variable seal  : bytes -> bytes -> bytes.
  Variable aopen : bytes -> bytes -> option bytes.

  (* GCMEncrypter.Encrypt: len(data)==0 -> data unchanged; else Seal(nonce, nonce, data, nil) *)
  Definition gcm_encrypt (nonce data : bytes) : bytes :=
    match data with
    | [] => []
    | _ => nonce ++ seal nonce data
    end.

  (* GCMEncrypter.Decrypt: len(data)==0 -> data unchanged, NO authentication;
     len(data) < NonceSize -> error; else Open(nil, data[:12], data[12:], nil) *)
  Definition gcm_decrypt (data : bytes) : option bytes :=
    match data with
    | [] => Some []
    | _ => if (length data <? nonce_size)%nat then None
           else aopen (firstn nonce_size data) (skipn nonce_size data)
    end.

  Definition encrypt (c : crypter) (nonce data : bytes) : bytes :=
    match c with CNoop => data | CGcm => gcm_encrypt nonce data end.
  Definition decrypt (c : crypter) (data : bytes) : option bytes :=
    match c with CNoop => Some data | CGcm => gcm_decrypt data end.

  (* Encoder.Encode (never fails once the nonce has been drawn) / Encoder.Decode *)
  Fixpoint enc_encode (e : encoder) (nonce data : bytes) : bytes :=
    match e with
    | ENoop => data
    | EBase64 => b64_encode data
    | EToken c inner => enc_encode inner nonce (encrypt c nonce data)
    end.

  Fixpoint enc_decode (e : encoder) (s : bytes) : option bytes :=
    match e with
    | ENoop => Some s
    | EBase64 => b64_decode s
    | EToken c inner =>
      match enc_decode inner s with
      | Some d => decrypt c d
      | None => None
      end
    end.

  (* ---- the server side ---- *)

  (* ReadChangesQuery.Execute up to the datastore call (no start_time in the request) *)
  Definition read_changes_resume (e : encoder) (req_type tokstr : bytes) : resume :=
    match enc_decode e tokstr with
    | None => RInvalid
    | Some [] => RStart
    | Some tok =>
      match deserialize tok with
      | None => RInvalid
      | Some (u, t) => if beqb t req_type then RFrom u else RMismatch
      end
    end.

  (* ReadQuery.Execute up to the datastore call: the type part is ignored *)
  Definition read_resume (e : encoder) (tokstr : bytes) : resume :=
    match enc_decode e tokstr with
    | None => RInvalid
    | Some [] => RStart
    | Some tok =>
      match deserialize tok with
      | None => RInvalid
      | Some (u, _) => RFrom u
      end
    end.

  (* response token for the datastore's continuation value [u] (len(contUlid)==0 -> "");
     ReadChanges passes the request's type, Read passes "" *)
  Definition issue_token (e : encoder) (nonce u t : bytes) : bytes :=
    match serialize u t with
    | None => []
    | Some tok => enc_encode e nonce tok
    end.
End AEAD.

(* the composition a server with a token encryption key runs *)
Definition gcm_b64 : encoder := EToken CGcm EBase64.

(* ---- what is assumed of the AEAD (used as hypotheses of the theorems, never as axioms) ----
   [issued n m]: the holder of the key has sealed plaintext [m] under nonce [n]. *)
Definition aead_bytes (seal : bytes -> bytes -> bytes) : Prop :=
  forall n m, bytes_ok (seal n m) = true.
Definition aead_correct (seal : bytes -> bytes -> bytes) (aopen : bytes -> bytes -> option bytes)
           (issued : bytes -> bytes -> Prop) : Prop :=
  forall n m, issued n m -> aopen n (seal n m) = Some m.
(* authenticity, idealised: Open accepts nothing but what was sealed under the key *)
Definition aead_authentic (seal : bytes -> bytes -> bytes) (aopen : bytes -> bytes -> option bytes)
           (issued : bytes -> bytes -> Prop) : Prop :=
  forall n c m, aopen n c = Some m -> issued n m /\ c = seal n m.
