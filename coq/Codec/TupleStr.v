(* Executable model of pkg/tuple/tuple.go string functions (C29).  Model only; proofs are in
   TupleStrProofs.v.  Strings are byte lists; rune iteration is Go-faithful (Base/Utf8.v). *)
From OFGA Require Export Base.Utf8.
Open Scope N_scope.

(* ---- splitting / building ---- *)

(* SplitObject: split at the first ':' ; no ':' => ("", s) *)
Definition split_object (s : bytes) : bytes * bytes :=
  match cut c_colon s with Some (t, id) => (t, id) | None => ([], s) end.

Definition build_object (t id : bytes) : bytes := t ++ c_colon :: id.

(* SplitObjectRelation: split at the last '#'; trailing '#' yields empty relation *)
Definition split_object_relation (s : bytes) : bytes * bytes :=
  match cut_last c_hash s with Some (o, r) => (o, r) | None => (s, []) end.

Definition to_object_relation_string (o r : bytes) : bytes := o ++ c_hash :: r.

Definition get_type (s : bytes) : bytes := fst (split_object s).
Definition get_relation (s : bytes) : bytes := snd (split_object_relation s).

Definition to_user_parts (u : bytes) : bytes * bytes * bytes :=
  let '(o, r) := split_object_relation u in
  let '(t, id) := split_object o in (t, id, r).

(* FromUserParts as coded: ':' only if the type is non-empty, '#' only if the relation is non-empty *)
Definition from_user_parts (t id r : bytes) : bytes :=
  (match t with [] => [] | _ => t ++ [c_colon] end) ++ id ++
  (match r with [] => [] | _ => c_hash :: r end).

Definition tuple_key_to_string (o r u : bytes) : bytes := o ++ c_hash :: r ++ c_at :: u.

(* ---- validity automata, over the Go rune sequence ---- *)

(* IsValidObject: state (0 before ':', 1 after), idLen>0 tracked as a bool; [first] = at byte index 0 *)
Fixpoint valid_object_go (rs : list N) (first : bool) (state : bool) (haveid : bool) : bool :=
  match rs with
  | [] => haveid
  | c :: rs' =>
      if is_control c then false
      else if N.eqb c c_hash || N.eqb c c_space then false
      else if N.eqb c c_colon then
             if state || first then false else valid_object_go rs' false true haveid
      else valid_object_go rs' false state (haveid || state)
  end.
Definition is_valid_object (s : bytes) : bool := valid_object_go (runes s) true false false.

Fixpoint valid_relation_go (rs : list N) (have : bool) : bool :=
  match rs with
  | [] => have
  | c :: rs' =>
      if is_control c then false
      else if N.eqb c c_hash || N.eqb c c_colon || N.eqb c c_at || N.eqb c c_space then false
      else valid_relation_go rs' true
  end.
Definition is_valid_relation (s : bytes) : bool := valid_relation_go (runes s) false.

Fixpoint valid_userid_go (rs : list N) (have : bool) : bool :=
  match rs with
  | [] => have
  | c :: rs' =>
      if is_control c then false
      else if N.eqb c c_hash || N.eqb c c_colon || N.eqb c c_space then false
      else valid_userid_go rs' true
  end.
Definition is_valid_userid (s : bytes) : bool := valid_userid_go (runes s) false.

(* IsValidUserset: state 0/1/2 ; idLen>0 and relLen>0 as bools *)
Fixpoint valid_userset_go (rs : list N) (first : bool) (state : nat) (haveid haverel : bool) : bool :=
  match rs with
  | [] => haverel
  | c :: rs' =>
      if is_control c then false
      else if N.eqb c c_colon then
             if (0 <? state)%nat || first then false else valid_userset_go rs' false 1%nat haveid haverel
      else if N.eqb c c_hash then
             if (1 <? state)%nat || negb haveid then false else valid_userset_go rs' false 2%nat haveid haverel
      else if N.eqb c c_space then false
      else if N.eqb c c_star then
             if (0 <? state)%nat then false else valid_userset_go rs' false state haveid haverel
      else match state with
           | 1%nat => valid_userset_go rs' false state true haverel
           | 2%nat => valid_userset_go rs' false state haveid true
           | _ => valid_userset_go rs' false state haveid haverel
           end
  end.
Definition is_valid_userset (s : bytes) : bool := valid_userset_go (runes s) true 0%nat false false.

Definition wildcard : bytes := [c_star].

Definition is_valid_user (s : bytes) : bool :=
  beqb s wildcard || is_valid_userid s || is_valid_object s || is_valid_userset s.

Definition is_typed_wildcard (s : bytes) : bool :=
  let '(t, id) := split_object s in negb (beqb t []) && beqb id wildcard.
Definition is_wildcard (s : bytes) : bool := beqb s wildcard || is_typed_wildcard s.
Definition typed_public_wildcard (t : bytes) : bytes := build_object t wildcard.

(* GetUserTypeFromUser: true = userset, false = user *)
Definition user_type_is_userset (s : bytes) : bool := is_valid_userset s || is_wildcard s.

(* ParseTupleString *)
Inductive parse_err := ENoHash | EBadObject | ENoAt | EBadRelation | EBadUser.
Definition parse_tuple_string (s : bytes) : (bytes * bytes * bytes) + parse_err :=
  match cut c_hash s with
  | None => inr ENoHash
  | Some (o, rhs) =>
      if negb (is_valid_object o) then inr EBadObject else
      match cut c_at rhs with
      | None => inr ENoAt
      | Some (r, u) =>
          if negb (is_valid_relation r) then inr EBadRelation
          else if negb (is_valid_user u) then inr EBadUser
          else inl (o, r, u)
      end
  end.

(* User proto <-> string *)
Inductive user_proto :=
| UObject (t id : bytes)
| UWildcard (t : bytes)
| UUserset (t id r : bytes).

Definition user_proto_to_string (u : user_proto) : bytes :=
  match u with
  | UWildcard t => t ++ [c_colon; c_star]
  | UUserset t id r => t ++ c_colon :: id ++ c_hash :: r
  | UObject t id => t ++ c_colon :: id
  end.

Definition string_to_user_proto (s : bytes) : user_proto :=
  let '(o, r) := split_object_relation s in
  let '(t, id) := split_object o in
  match r with
  | [] => if beqb id wildcard then UWildcard t else UObject t id
  | _ => UUserset t id r
  end.

Definition is_self_defining (o r u : bytes) : bool :=
  let '(uo, ur) := split_object_relation u in beqb r ur && beqb o uo.

Definition userset_match_type_and_relation (userset rel typ : bytes) : bool :=
  let '(t, _, r) := to_user_parts userset in beqb rel r && beqb typ t.
