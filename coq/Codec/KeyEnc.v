(* Model of pkg/storage/cache/keys (build.go, types.go, xtypes.go), pkg/tuple TupleKeys.Less,
   and the cache-key constructors of pkg/storage/{cache,keys}.go, internal/check/check.go
   (EdgeCacheKey), strategies.go / internal/graph/check.go (planner keys), request.go
   (contextual-tuple index keys), modelgraph / model_caching / typesystem resolver keys.
   Definitions only; bytes = list N.  Tag and prefix constants come from Generated/C24Tags.v
   (read from the Go source by harness/cmd/gen_c24 on every run). *)
From OFGA Require Import Base.Bytes Codec.Varint Generated.C24Tags.

(* ---------------------------------------------------------------- byte-string order *)
(* Go's < on strings: bytewise lexicographic, a proper prefix is smaller *)
Fixpoint bcmp (a b : bytes) : comparison :=
  match a, b with
  | [], [] => Eq
  | [], _ :: _ => Lt
  | _ :: _, [] => Gt
  | x :: a', y :: b' => match N.compare x y with Eq => bcmp a' b' | c => c end
  end.
Definition bltb (a b : bytes) : bool := match bcmp a b with Lt => true | _ => false end.

(* ---------------------------------------------------------------- sorting *)
(* sort.insertionSort as used by sort.Sort for n <= 12:
     for i := a+1; i < b; i++ { for j := i; j > a && less(j, j-1); j-- { swap(j, j-1) } }
   [rp] is the already sorted prefix, reversed (head = element j-1). *)
(* linear-time list reversal (List.rev is quadratic); KeySortProofs.frev_rev: frev l = rev l *)
Definition frev {A : Type} (l : list A) : list A := rev_append l [].
Arguments frev : simpl never.

Section Sort.
  Context {A : Type} (less : A -> A -> bool).
  Fixpoint ins_rev (x : A) (rp : list A) : list A :=
    match rp with
    | [] => [x]
    | y :: rp' => if less x y then y :: ins_rev x rp' else x :: rp
    end.
  Definition isort_rev (l : list A) : list A := fold_left (fun rp x => ins_rev x rp) l [].
  Definition go_isort (l : list A) : list A := frev (isort_rev l).
End Sort.

(* slices.Sort on []string (any correct sort gives this result: equal strings are identical) *)
Definition sort_strings (l : list bytes) : list bytes := go_isort bltb l.

(* ---------------------------------------------------------------- Builder.Encode* *)
Definition blen (s : bytes) : N := N.of_nat (length s).

Definition enc_bytes (b : bytes) : bytes := c24_tagBytes :: uvarint (blen b) ++ b.
Definition enc_byte (b : N) : bytes := [c24_tagByte; b].
Definition enc_null : bytes := [c24_tagNull].
Definition enc_unset : bytes := [c24_tagUnset].
Definition enc_string (s : bytes) : bytes := c24_tagString :: uvarint (blen s) ++ s.
Definition enc_bool (b : bool) : bytes := [c24_tagBool; if b then 1 else 0].
Definition enc_u64 (i : N) : bytes := c24_tagUint64 :: le64 i.
Definition enc_array_hdr (n : nat) : bytes := c24_tagArray :: uvarint (N.of_nat n).
Definition enc_map_hdr (n : nat) : bytes := c24_tagMap :: uvarint (N.of_nat n).

(* types.go: the generic Serializable values *)
Inductive ser :=
| SBytes (b : bytes) | SByte (b : N) | SBool (b : bool) | SNull | SUnset | SU64 (i : N)
| SString (s : bytes) | SArray (l : list ser) | SMap (l : list (ser * ser)) | SPair (k v : ser).

Fixpoint enc_ser (v : ser) : bytes :=
  match v with
  | SBytes b => enc_bytes b
  | SByte b => enc_byte b
  | SBool b => enc_bool b
  | SNull => enc_null
  | SUnset => enc_unset
  | SU64 i => enc_u64 i
  | SString s => enc_string s
  | SArray l => enc_array_hdr (length l) ++ flat_map enc_ser l
  | SMap l => enc_map_hdr (length l) ++ flat_map (fun kv => enc_ser (fst kv) ++ enc_ser (snd kv)) l
  | SPair k x => c24_tagPair :: c24_tagKey :: enc_ser k ++ c24_tagValue :: enc_ser x
  end.

Fixpoint ser_wf (v : ser) : bool :=
  match v with
  | SU64 i => is_u64 i
  | SArray l => forallb ser_wf l
  | SMap l => forallb (fun kv => ser_wf (fst kv) && ser_wf (snd kv)) l
  | SPair k x => ser_wf k && ser_wf x
  | _ => true
  end.

(* ---------------------------------------------------------------- structpb.Value *)
(* nil *Value, Value with no Kind: PUnset.  nil ListValue = PList [], nil Struct = PStruct [].
   PNum carries math.Float64bits of the number. *)
Inductive pbval :=
| PNull | PNum (bits : N) | PStr (s : bytes) | PBool (b : bool) | PUnset
| PList (l : list pbval) | PStruct (fs : list (bytes * pbval)).

Definition kless {B : Type} (a b : bytes * B) : bool := bltb (fst a) (fst b).

(* recursive specification: a struct is encoded as its (key, encoded value) pairs sorted by key *)
Fixpoint enc_pb (v : pbval) : bytes :=
  match v with
  | PNull => enc_null
  | PNum b => enc_u64 b
  | PStr s => enc_string s
  | PBool b => enc_bool b
  | PUnset => enc_unset
  | PList l => enc_array_hdr (length l) ++ flat_map enc_pb l
  | PStruct fs =>
      enc_map_hdr (length fs) ++
      flat_map (fun ke => enc_string (fst ke) ++ snd ke)
               (go_isort kless (map (fun kv => (fst kv, enc_pb (snd kv))) fs))
  end.

Fixpoint pb_size (v : pbval) : nat :=
  match v with
  | PList l => S (list_sum (map pb_size l))
  | PStruct fs => S (list_sum (map (fun kv => pb_size (snd kv)) fs))
  | _ => 1%nat
  end.

(* PbValue.WriteTo: the explicit-stack walk.  Head of [stack] = top.  A popped frame emits its
   key (if any), then its value header; containers push their children so that the first
   child is popped next. *)
Definition frame := (option bytes * pbval)%type.

Definition sort_fields (fs : list (bytes * pbval)) : list (bytes * pbval) := go_isort kless fs.

(* [racc] holds the chunks appended to the builder so far, most recent first (the builder's
   buffer is their concatenation in reverse order) *)
Fixpoint pb_walk (fuel : nat) (stack : list frame) (racc : list bytes) : option bytes :=
  match stack with
  | [] => Some (concat (frev racc))
  | (k, v) :: st =>
      match fuel with
      | O => None
      | S f =>
          let acc1 := match k with Some s => enc_string s | None => [] end :: racc in
          match v with
          | PNull => pb_walk f st (enc_null :: acc1)
          | PNum b => pb_walk f st (enc_u64 b :: acc1)
          | PStr s => pb_walk f st (enc_string s :: acc1)
          | PBool b => pb_walk f st (enc_bool b :: acc1)
          | PUnset => pb_walk f st (enc_unset :: acc1)
          | PList l =>
              pb_walk f (map (fun x => (None, x)) l ++ st) (enc_array_hdr (length l) :: acc1)
          | PStruct fs =>
              let sf := sort_fields fs in
              pb_walk f (map (fun kv => (Some (fst kv), snd kv)) sf ++ st)
                      (enc_map_hdr (length sf) :: acc1)
          end
      end
  end.

Inductive outcome := Bytes (b : bytes) | OutOfFuel.

Definition pb_write_outcome (v : pbval) : outcome :=
  match pb_walk (pb_size v) [(None, v)] [] with Some b => Bytes b | None => OutOfFuel end.

(* KeyEncProofs.pb_write_total: OutOfFuel is unreachable; [] is never returned by that branch *)
Definition pb_write (v : pbval) : bytes :=
  match pb_write_outcome v with Bytes b => b | OutOfFuel => [] end.

(* WriteTo on a nil PbValue pointer *)
Definition pb_write_opt (o : option pbval) : bytes :=
  match o with None => enc_unset | Some v => pb_write v end.

Fixpoint pb_wf (v : pbval) : bool :=
  match v with
  | PNum b => is_u64 b
  | PList l => forallb pb_wf l
  | PStruct fs => forallb (fun kv => pb_wf (snd kv)) fs
  | _ => true
  end.

Fixpoint nodupb (l : list bytes) : bool :=
  match l with [] => true | x :: l' => negb (existsb (beqb x) l') && nodupb l' end.

(* Go maps have unique keys *)
Fixpoint pb_keys_unique (v : pbval) : bool :=
  match v with
  | PList l => forallb pb_keys_unique l
  | PStruct fs => nodupb (map fst fs) && forallb (fun kv => pb_keys_unique (snd kv)) fs
  | _ => true
  end.

(* ---------------------------------------------------------------- Tuple.WriteTo, TupleKeys.Less *)
Definition fields := list (bytes * pbval).

Record tkey := mk_tkey {
  tk_obj : bytes; tk_rel : bytes; tk_user : bytes;
  tk_cond : option (bytes * fields)    (* name, context (nil context = []) *)
}.

Definition enc_tuple (t : tkey) : bytes :=
  enc_string (tk_obj t) ++ enc_string (tk_rel t) ++ enc_string (tk_user t) ++
  match tk_cond t with
  | None => []
  | Some (n, ctx) => enc_string n ++ pb_write (PStruct ctx)
  end.

Definition cond_name (t : tkey) : bytes := match tk_cond t with None => [] | Some (n, _) => n end.
Definition has_cond (t : tkey) : bool := match tk_cond t with None => false | Some _ => true end.

(* Less(i,j): note the final [true]: tuples that agree on object, relation, user and condition
   name are "less" than each other in both directions *)
Definition tk_less (a b : tkey) : bool :=
  if negb (beqb (tk_obj a) (tk_obj b)) then bltb (tk_obj a) (tk_obj b)
  else if negb (beqb (tk_rel a) (tk_rel b)) then bltb (tk_rel a) (tk_rel b)
  else if negb (beqb (tk_user a) (tk_user b)) then bltb (tk_user a) (tk_user b)
  else if (has_cond a || has_cond b) && negb (beqb (cond_name a) (cond_name b))
       then bltb (cond_name a) (cond_name b)
  else true.

Definition sort_tuples (l : list tkey) : list tkey := go_isort tk_less l.

Definition tk_wf (t : tkey) : bool :=
  match tk_cond t with None => true | Some (_, ctx) => pb_wf (PStruct ctx) end.
Definition tk_keys_unique (t : tkey) : bool :=
  match tk_cond t with None => true | Some (_, ctx) => pb_keys_unique (PStruct ctx) end.

(* two tuples the sort does not order *)
Definition tk_tie (a b : tkey) : bool := tk_less a b && tk_less b a.
(* ties are harmless when the tied tuples encode identically *)
Fixpoint tie_free (l : list tkey) : bool :=
  match l with
  | [] => true
  | a :: l' => forallb (fun b => negb (tk_tie a b) || beqb (enc_tuple a) (enc_tuple b)) l' && tie_free l'
  end.

(* ---------------------------------------------------------------- InvariantCacheKey *)
Definition inv_bytes (store model : bytes) (ctx : fields) (tuples : list tkey) : bytes :=
  enc_string store ++ enc_string model ++
  enc_array_hdr (length tuples) ++ flat_map enc_tuple (sort_tuples tuples) ++
  pb_write (PStruct ctx).

(* ---------------------------------------------------------------- keys that are field sequences *)
Inductive field := FS (s : bytes) | FU (i : N).
Definition enc_field (f : field) : bytes := match f with FS s => enc_string s | FU i => enc_u64 i end.
Definition enc_fields (l : list field) : bytes := flat_map enc_field l.
Definition field_wf (f : field) : bool := match f with FS _ => true | FU i => is_u64 i end.

(* inline string literals of the key constructors (KeyEncProofs.lits_ok ties them to their text) *)
Definition lit_INFINITE : bytes := [73; 78; 70; 73; 78; 73; 84; 69].
Definition lit_OR : bytes := [79; 82].
Definition lit_READ : bytes := [82; 69; 65; 68].
Definition lit_RSWU : bytes := [82; 83; 87; 85].
Definition lit_RUT : bytes := [82; 85; 84].
Definition lit_TS : bytes := [84; 83].
Definition lit_TTU : bytes := [84; 84; 85].
Definition lit_UOT : bytes := [85; 79; 84].
Definition lit_USERSET : bytes := [85; 83; 69; 82; 83; 69; 84].
Definition lit_V2 : bytes := [86; 50].

Inductive pkey :=
| KCheck (store obj rel user : bytes) (inv : N)
| KChangelog (store : bytes)
| KInvalidIter (store : bytes)
| KInvalidIterOR (store obj rel : bytes)
| KInvalidIterUOT (store user objtype : bytes)
| KEdge (store model obj user reldef : bytes) (etype : N) (tolabel tsrel : bytes) (inv : N)
| KModel (store model : bytes)
| KTypesystem (store model : bytes)
| KWeightedGraph (store model : bytes)
| KIterRead (store obj rel user : bytes) (suffix : N)
| KIterRSWU (store objtype rel : bytes) (suffix : N)
| KIterRUT (store obj rel : bytes) (suffix : N)
| KPlanV2Userset (store model objtype rel usertype userset : bytes)
| KPlanV2RecUserset (store model userset usertype : bytes)
| KPlanV2RecTTU (store model tsrel usertype : bytes)
| KPlanV2TTU (store model objtype rel usertype tsrel comprel : bytes)
| KPlanV1UsersetRec (store model objtype rel usertype : bytes)
| KPlanV1Userset (store model objtype rel usertype userset : bytes)
| KPlanV1TTU (store model objtype rel usertype tsrel comprel : bytes)
| KCtxByUser (user rel objtype : bytes)
| KCtxByObject (obj rel usertype : bytes).

Definition pkey_fields (k : pkey) : list field :=
  match k with
  | KCheck s o r u i => [FS c24_PrefixSubproblemCache; FS s; FS o; FS r; FS u; FU i]
  | KChangelog s => [FS c24_PrefixChangelogCache; FS s]
  | KInvalidIter s => [FS c24_PrefixInvalidIteratorCache; FS s]
  | KInvalidIterOR s o r => [FS c24_PrefixInvalidIteratorCache; FS lit_OR; FS s; FS o; FS r]
  | KInvalidIterUOT s u t => [FS c24_PrefixInvalidIteratorCache; FS lit_UOT; FS s; FS u; FS t]
  | KEdge s m o u rd et tl ts i =>
      [FS c24_PrefixEdgeCacheKey; FS s; FS m; FS o; FS u; FS rd; FU et; FS tl; FS ts; FU i]
  | KModel s m => [FS c24_ModelCacheKeyPrefix; FS s; FS m]
  | KTypesystem s m => [FS lit_TS; FS s; FS m]
  | KWeightedGraph s m => [FS c24_CacheKeyPrefix; FS s; FS m]
  | KIterRead s o r u x => [FS c24_PrefixIteratorCache; FS lit_READ; FS s; FS o; FS r; FS u; FU x]
  | KIterRSWU s t r x => [FS c24_PrefixIteratorCache; FS lit_RSWU; FS s; FS t; FS r; FU x]
  | KIterRUT s o r x => [FS c24_PrefixIteratorCache; FS lit_RUT; FS s; FS o; FS r; FU x]
  | KPlanV2Userset s m t r ut us =>
      [FS lit_V2; FS lit_USERSET; FS s; FS m; FS t; FS r; FS ut; FS us]
  | KPlanV2RecUserset s m us ut =>
      [FS lit_V2; FS lit_USERSET; FS s; FS m; FS us; FS ut; FS lit_INFINITE]
  | KPlanV2RecTTU s m ts ut =>
      [FS lit_V2; FS lit_TTU; FS s; FS m; FS ts; FS ut; FS lit_INFINITE]
  | KPlanV2TTU s m t r ut ts cr =>
      [FS lit_V2; FS lit_TTU; FS s; FS m; FS t; FS r; FS ut; FS ts; FS cr]
  | KPlanV1UsersetRec s m t r ut =>
      [FS lit_USERSET; FS s; FS m; FS t; FS r; FS ut; FS lit_INFINITE]
  | KPlanV1Userset s m t r ut us =>
      [FS lit_USERSET; FS s; FS m; FS t; FS r; FS ut; FS lit_USERSET; FS us]
  | KPlanV1TTU s m t r ut ts cr => [FS lit_TTU; FS s; FS m; FS t; FS r; FS ut; FS ts; FS cr]
  | KCtxByUser u r t => [FS u; FS r; FS t]
  | KCtxByObject o r t => [FS o; FS r; FS t]
  end.

Definition pkey_bytes (k : pkey) : bytes := enc_fields (pkey_fields k).
Definition pkey_wf (k : pkey) : bool := forallb field_wf (pkey_fields k).

(* which map the key lives in: 0 = the shared caches and the planner (worst case: one map),
   1 / 2 = the two request-local contextual-tuple indexes *)
Definition pkey_domain (k : pkey) : N :=
  match k with KCtxByUser _ _ _ => 1 | KCtxByObject _ _ _ => 2 | _ => 0 end.

Definition pkey_store (k : pkey) : option bytes :=
  match k with
  | KCheck s _ _ _ _ | KChangelog s | KInvalidIter s | KInvalidIterOR s _ _ | KInvalidIterUOT s _ _
  | KEdge s _ _ _ _ _ _ _ _ | KModel s _ | KTypesystem s _ | KWeightedGraph s _
  | KIterRead s _ _ _ _ | KIterRSWU s _ _ _ | KIterRUT s _ _ _
  | KPlanV2Userset s _ _ _ _ _ | KPlanV2RecUserset s _ _ _ | KPlanV2RecTTU s _ _ _
  | KPlanV2TTU s _ _ _ _ _ _ | KPlanV1UsersetRec s _ _ _ _ | KPlanV1Userset s _ _ _ _ _
  | KPlanV1TTU s _ _ _ _ _ _ => Some s
  | KCtxByUser _ _ _ | KCtxByObject _ _ _ => None
  end.

(* ---------------------------------------------------------------- iterator keys (pkg/storage/keys.go) *)
Definition enc_str_array (l : list bytes) : bytes :=
  enc_array_hdr (length l) ++ flat_map enc_string l.

(* copyObjectRelations: object, or object#relation when the relation is not empty *)
Definition uf_str (e : bytes * bytes) : bytes :=
  match snd e with [] => fst e | _ :: _ => fst e ++ c_hash :: snd e end.

(* copyRelationReferences *)
Inductive refkind := RRel (r : bytes) | RWild | RNone.
Definition ref_str (e : bytes * refkind) : bytes :=
  match snd e with
  | RRel r => fst e ++ c_hash :: r
  | RWild => fst e ++ [c_colon; c_star]
  | RNone => fst e
  end.

(* ObjectIDs: None = nil interface; Some l = the SortedSet's Values() (ascending, no duplicates) *)
Definition oid_values (o : option (list bytes)) : list bytes := match o with None => [] | Some l => l end.

Definition rswu_stage1 (uf : list (bytes * bytes)) (oids : option (list bytes)) (conds : list bytes) : bytes :=
  enc_str_array (sort_strings (map uf_str uf)) ++
  enc_str_array (oid_values oids) ++
  enc_str_array (sort_strings conds).

Definition rut_stage1 (refs : list (bytes * refkind)) (conds : list bytes) : bytes :=
  enc_str_array (sort_strings (map ref_str refs)) ++ enc_str_array (sort_strings conds).

Definition read_stage1 (conds : list bytes) : bytes := enc_str_array (sort_strings conds).

Section Hashed.
  Variable hash : bytes -> N.     (* keys.Digest (seeded xxhash64): out of scope *)

  Definition rswu_key (store objtype rel : bytes) uf oids conds : bytes :=
    pkey_bytes (KIterRSWU store objtype rel (hash (rswu_stage1 uf oids conds))).
  Definition rut_key (store obj rel : bytes) refs conds : bytes :=
    pkey_bytes (KIterRUT store obj rel (hash (rut_stage1 refs conds))).
  Definition read_key (store obj rel user : bytes) conds : bytes :=
    pkey_bytes (KIterRead store obj rel user (hash (read_stage1 conds))).

  Definition invariant_key (store model : bytes) (ctx : fields) (tuples : list tkey) : N :=
    hash (inv_bytes store model ctx tuples).

  (* generateCacheKeyFromCheck (BatchCheck de-duplication) = NewRequest's cacheKey *)
  Definition batch_key (store model obj rel user : bytes) (ctx : fields) (tuples : list tkey) : bytes :=
    pkey_bytes (KCheck store obj rel user (invariant_key store model ctx tuples)).

  Definition edge_key (store model obj user reldef : bytes) (etype : N) (tolabel tsrel : bytes)
             (ctx : fields) (tuples : list tkey) : bytes :=
    pkey_bytes (KEdge store model obj user reldef etype tolabel tsrel (invariant_key store model ctx tuples)).
End Hashed.

(* names_wellformed: object strings of a user filter / type names of a relation reference do
   not contain '#' (and type names no ':'), as model and tuple validation guarantee *)
Definition uf_wf (e : bytes * bytes) : bool := negb (mem c_hash (fst e)).
Definition ref_wf (e : bytes * refkind) : bool := negb (mem c_hash (fst e)) && negb (mem c_colon (fst e)).
