(* Byte-string order and the insertion sort of Codec/KeyEnc.v: permutation, sortedness,
   uniqueness of the sorted arrangement. *)
From OFGA Require Import Base.Bytes Codec.KeyEnc.
From Coq Require Import Permutation Sorted.

(* ------------------------------------------------------------------ bcmp *)
Lemma bcmp_eq a b : bcmp a b = Eq <-> a = b.
Proof.
  revert b. induction a as [|x a IH]; intros [|y b]; simpl; split; intro H;
    try reflexivity; try discriminate.
  - destruct (N.compare x y) eqn:E; try discriminate.
    apply N.compare_eq in E. subst. f_equal. apply IH. exact H.
  - inversion H; subst. rewrite N.compare_refl. apply IH. reflexivity.
Qed.

Lemma bcmp_refl a : bcmp a a = Eq.
Proof. apply bcmp_eq. reflexivity. Qed.

Lemma bcmp_antisym a b : bcmp b a = CompOpp (bcmp a b).
Proof.
  revert b. induction a as [|x a IH]; intros [|y b]; simpl; try reflexivity.
  rewrite (N.compare_antisym x y). destruct (N.compare x y); simpl; auto.
Qed.

Lemma bcmp_lt_trans a b c : bcmp a b = Lt -> bcmp b c = Lt -> bcmp a c = Lt.
Proof.
  revert b c. induction a as [|x a IH]; intros [|y b] [|z c]; simpl; intros H1 H2;
    try reflexivity; try discriminate.
  destruct (N.compare x y) eqn:Exy; try discriminate.
  - apply N.compare_eq in Exy. subst y.
    destruct (N.compare x z) eqn:Exz; try discriminate; try reflexivity.
    eapply IH; eassumption.
  - destruct (N.compare y z) eqn:Eyz; try discriminate.
    + apply N.compare_eq in Eyz. subst z. rewrite Exy. reflexivity.
    + assert (H : (x ?= z) = Lt).
      { apply N.compare_lt_iff. eapply N.lt_trans; apply N.compare_lt_iff; eassumption. }
      rewrite H. reflexivity.
Qed.

(* a <= b in Go's string order *)
Definition ble (a b : bytes) : Prop := bltb b a = false.

Lemma bltb_lt a b : bltb a b = true <-> bcmp a b = Lt.
Proof. unfold bltb. destruct (bcmp a b); split; intro; try discriminate; reflexivity. Qed.

Lemma ble_of_blt a b : bltb a b = true -> ble a b.
Proof.
  unfold ble. intro H. apply bltb_lt in H. unfold bltb. rewrite bcmp_antisym, H. reflexivity.
Qed.

Lemma ble_total a b : bltb a b = false -> ble b a.
Proof. unfold ble. auto. Qed.

Lemma ble_refl a : ble a a.
Proof. unfold ble, bltb. rewrite bcmp_refl. reflexivity. Qed.

Lemma ble_antisym a b : ble a b -> ble b a -> a = b.
Proof.
  unfold ble, bltb. intros H1 H2. apply bcmp_eq.
  rewrite (bcmp_antisym a b) in H1. destruct (bcmp a b); simpl in *; try discriminate; reflexivity.
Qed.

Lemma ble_trans a b c : ble a b -> ble b c -> ble a c.
Proof.
  unfold ble. intros H1 H2.
  destruct (bltb c a) eqn:E; [|reflexivity]. exfalso.
  apply bltb_lt in E.
  (* c < a; a <= b so c < b or ... *)
  destruct (bcmp a b) eqn:Eab.
  - apply bcmp_eq in Eab. subst. apply bltb_lt in E. congruence.
  - assert (bcmp c b = Lt) by (eapply bcmp_lt_trans; eassumption).
    apply bltb_lt in H. congruence.
  - unfold bltb in H1. rewrite bcmp_antisym, Eab in H1. discriminate.
Qed.

Lemma frev_rev {A} (l : list A) : frev l = rev l.
Proof. unfold frev. symmetry. apply rev_alt. Qed.

(* ------------------------------------------------------------------ insertion sort *)
Section SortProofs.
  Context {A : Type} (less : A -> A -> bool) (R : A -> A -> Prop).

  Lemma ins_rev_perm x rp : Permutation (ins_rev less x rp) (x :: rp).
  Proof.
    induction rp as [|y rp IH]; simpl; [reflexivity|].
    destruct (less x y); [|reflexivity].
    rewrite IH. apply perm_swap.
  Qed.

  Lemma isort_rev_perm_gen l acc : Permutation (fold_left (fun rp x => ins_rev less x rp) l acc) (l ++ acc).
  Proof.
    revert acc. induction l as [|x l IH]; intro acc; simpl; [reflexivity|].
    rewrite IH. rewrite ins_rev_perm. apply Permutation_sym, Permutation_middle.
  Qed.

  Lemma go_isort_perm l : Permutation (go_isort less l) l.
  Proof.
    unfold go_isort, isort_rev. rewrite frev_rev, <- Permutation_rev.
    rewrite isort_rev_perm_gen. rewrite app_nil_r. reflexivity.
  Qed.

  Lemma go_isort_length l : length (go_isort less l) = length l.
  Proof. apply Permutation_length, go_isort_perm. Qed.

  Hypothesis less_R : forall x y, less x y = true -> R x y.
  Hypothesis nless_R : forall x y, less x y = false -> R y x.
  Hypothesis R_trans : forall x y z, R x y -> R y z -> R x z.

  (* the reversed prefix is sorted downwards *)
  Lemma ins_rev_sorted x rp :
    StronglySorted (fun a b => R b a) rp -> StronglySorted (fun a b => R b a) (ins_rev less x rp).
  Proof.
    induction rp as [|y rp IH]; intro Hs; simpl.
    - constructor; constructor.
    - inversion Hs as [|? ? Hs' Hall]; subst.
      destruct (less x y) eqn:E.
      + constructor; [apply IH; exact Hs'|].
        apply Forall_forall. intros z Hz.
        apply (Permutation_in _ (ins_rev_perm x rp)) in Hz. destruct Hz as [<-|Hz].
        * apply less_R. exact E.
        * rewrite Forall_forall in Hall. apply Hall. exact Hz.
      + constructor; [exact Hs|].
        constructor; [apply nless_R; exact E|].
        apply Forall_forall. intros z Hz. rewrite Forall_forall in Hall.
        eapply R_trans; [apply Hall; exact Hz|apply nless_R; exact E].
  Qed.

  Lemma isort_rev_sorted_gen l acc :
    StronglySorted (fun a b => R b a) acc ->
    StronglySorted (fun a b => R b a) (fold_left (fun rp x => ins_rev less x rp) l acc).
  Proof.
    revert acc. induction l as [|x l IH]; intros acc Hs; simpl; [exact Hs|].
    apply IH. apply ins_rev_sorted. exact Hs.
  Qed.

  Lemma sorted_rev (l : list A) :
    StronglySorted (fun a b => R b a) l -> StronglySorted R (rev l).
  Proof.
    induction l as [|x l IH]; intro Hs; simpl; [constructor|].
    inversion Hs as [|? ? Hs' Hall]; subst.
    specialize (IH Hs').
    (* rev l ++ [x] with every element of l R-below x *)
    assert (G : forall m, StronglySorted R m -> Forall (fun y => R y x) m -> StronglySorted R (m ++ [x])).
    { induction m as [|y m IHm]; intros Hm Hf; simpl.
      - constructor; constructor.
      - inversion Hm; subst. inversion Hf; subst. constructor.
        + apply IHm; assumption.
        + apply Forall_app. split; [assumption|]. constructor; [assumption|constructor]. }
    apply G; [exact IH|]. apply Forall_rev. exact Hall.
  Qed.

  Lemma go_isort_sorted l : StronglySorted R (go_isort less l).
  Proof.
    unfold go_isort, isort_rev. rewrite frev_rev. apply sorted_rev. apply isort_rev_sorted_gen. constructor.
  Qed.
End SortProofs.

(* two sorted arrangements of the same multiset coincide when tied elements are equal *)
Lemma sorted_perm_eq {A} (R : A -> A -> Prop) (l1 l2 : list A) :
  StronglySorted R l1 -> StronglySorted R l2 -> Permutation l1 l2 ->
  (forall a b, In a l1 -> In b l1 -> R a b -> R b a -> a = b) ->
  l1 = l2.
Proof.
  revert l2. induction l1 as [|a t1 IH]; intros l2 H1 H2 HP Htie.
  - apply Permutation_nil in HP. subst. reflexivity.
  - destruct l2 as [|b t2].
    + apply Permutation_sym, Permutation_nil in HP. discriminate.
    + inversion H1 as [|? ? H1' Ha]; subst. inversion H2 as [|? ? H2' Hb]; subst.
      rewrite Forall_forall in Ha, Hb.
      assert (Eab : a = b).
      { assert (Ia : In a (b :: t2)) by (eapply Permutation_in; [exact HP|left; reflexivity]).
        assert (Ib : In b (a :: t1)) by (eapply Permutation_in; [apply Permutation_sym; exact HP|left; reflexivity]).
        destruct Ia as [->|Ia]; [reflexivity|]. destruct Ib as [->|Ib]; [reflexivity|].
        apply Htie; [left; reflexivity|right; exact Ib|apply Ha; exact Ib|apply Hb; exact Ia]. }
      subst b. f_equal. apply IH; try assumption.
      * eapply Permutation_cons_inv. exact HP.
      * intros x y Hx Hy. apply Htie; right; assumption.
Qed.

Section SortUnique.
  Context {A : Type} (less : A -> A -> bool) (R : A -> A -> Prop).
  Hypothesis less_R : forall x y, less x y = true -> R x y.
  Hypothesis nless_R : forall x y, less x y = false -> R y x.
  Hypothesis R_trans : forall x y z, R x y -> R y z -> R x z.

  Lemma go_isort_unique l1 l2 :
    Permutation l1 l2 ->
    (forall a b, In a l1 -> In b l1 -> R a b -> R b a -> a = b) ->
    go_isort less l1 = go_isort less l2.
  Proof.
    intros HP Htie. apply (sorted_perm_eq R).
    - apply go_isort_sorted; assumption.
    - apply go_isort_sorted; assumption.
    - rewrite !go_isort_perm. exact HP.
    - intros a b Ha Hb. apply Htie; eapply Permutation_in; try eassumption; apply go_isort_perm.
  Qed.

  (* any other sorted permutation (e.g. the one pdqsort produces) is the same list *)
  Lemma go_isort_any_sorted l s :
    Permutation s l -> StronglySorted R s ->
    (forall a b, In a l -> In b l -> R a b -> R b a -> a = b) ->
    s = go_isort less l.
  Proof.
    intros HP Hs Htie. apply (sorted_perm_eq R); try assumption.
    - apply go_isort_sorted; assumption.
    - rewrite go_isort_perm. exact HP.
    - intros a b Ha Hb. apply Htie; eapply Permutation_in; eassumption.
  Qed.
End SortUnique.

(* sorting commutes with a map that preserves the comparison *)
Lemma ins_rev_map {A B} (f : A -> B) (less : A -> A -> bool) (less' : B -> B -> bool) x rp :
  (forall a b, less' (f a) (f b) = less a b) ->
  map f (ins_rev less x rp) = ins_rev less' (f x) (map f rp).
Proof.
  intro H. induction rp as [|y rp IH]; simpl; [reflexivity|].
  rewrite H. destruct (less x y); simpl; [rewrite IH|]; reflexivity.
Qed.

Lemma go_isort_map {A B} (f : A -> B) (less : A -> A -> bool) (less' : B -> B -> bool) l :
  (forall a b, less' (f a) (f b) = less a b) ->
  map f (go_isort less l) = go_isort less' (map f l).
Proof.
  intro H. unfold go_isort, isort_rev. rewrite !frev_rev, map_rev. f_equal.
  assert (G : forall acc, map f (fold_left (fun rp x => ins_rev less x rp) l acc)
                          = fold_left (fun rp x => ins_rev less' x rp) (map f l) (map f acc)).
  { induction l as [|x l IH]; intro acc; simpl; [reflexivity|].
    rewrite IH. rewrite (ins_rev_map f less less'); [reflexivity|exact H]. }
  apply (G []).
Qed.

(* ------------------------------------------------------------------ sort_strings *)
Lemma sort_strings_perm l : Permutation (sort_strings l) l.
Proof. apply go_isort_perm. Qed.

Lemma sort_strings_sorted l : StronglySorted ble (sort_strings l).
Proof.
  apply go_isort_sorted.
  - apply ble_of_blt.
  - intros x y H. apply ble_total. exact H.
  - apply ble_trans.
Qed.

(* canonicity: equal up to order <-> equal after sorting *)
Theorem sort_strings_canonical l1 l2 : sort_strings l1 = sort_strings l2 <-> Permutation l1 l2.
Proof.
  split; intro H.
  - rewrite <- (sort_strings_perm l1), <- (sort_strings_perm l2), H. reflexivity.
  - apply (go_isort_unique bltb ble).
    + apply ble_of_blt.
    + intros x y E. apply ble_total. exact E.
    + apply ble_trans.
    + exact H.
    + intros a b _ _. apply ble_antisym.
Qed.

Example sort_strings_ex :
  sort_strings [[98]; [97; 98]; []; [97]] = [[]; [97]; [97; 98]; [98]].
Proof. vm_compute. reflexivity. Qed.
