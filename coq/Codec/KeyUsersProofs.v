(* Key-level theorems for C24 (and the C16 / C07 corollaries): tuple arrays, InvariantCacheKey,
   the field-sequence keys, the iterator keys, and the checks that tie the modelled layouts to
   the tables generated from the Go source. *)
From Coq Require Import String.
From OFGA Require Import Base.Bytes Codec.Varint Codec.VarintProofs Codec.KeyEnc Codec.KeySortProofs
  Codec.KeyEncProofs Generated.C24Tags.
From Coq Require Import Permutation Sorted.

Local Opaque uvarint le64.

(* ------------------------------------------------------------------ tuples *)
Definition ctx_equiv (c1 c2 : fields) : Prop := pb_equiv (PStruct c1) (PStruct c2).

Definition tuple_equiv (a b : tkey) : Prop :=
  tk_obj a = tk_obj b /\ tk_rel a = tk_rel b /\ tk_user a = tk_user b /\
  match tk_cond a, tk_cond b with
  | None, None => True
  | Some (n1, c1), Some (n2, c2) => n1 = n2 /\ ctx_equiv c1 c2
  | _, _ => False
  end.

Definition not_string_start (r : bytes) : Prop :=
  match r with [] => True | x :: _ => x <> c24_tagString end.

Lemma enc_string_cons s : exists tl, enc_string s = c24_tagString :: tl.
Proof. unfold enc_string. eexists. reflexivity. Qed.

Lemma pb_struct_cons c : exists tl, pb_write (PStruct c) = c24_tagMap :: tl.
Proof. rewrite pb_write_eq_rec, enc_pb_struct. unfold enc_map_hdr. eexists. reflexivity. Qed.

Lemma enc_string_starts s r : not_string_start (enc_string s ++ r) -> False.
Proof. destruct (enc_string_cons s) as [tl ->]. simpl. intro H. apply H. reflexivity. Qed.

Lemma pb_write_struct_start c r : not_string_start (pb_write (PStruct c) ++ r).
Proof. destruct (pb_struct_cons c) as [tl ->]. simpl. untag. discriminate. Qed.

Lemma string_vs_struct s c r1 r2 : enc_string s ++ r1 = pb_write (PStruct c) ++ r2 -> False.
Proof.
  destruct (enc_string_cons s) as [t1 ->]. destruct (pb_struct_cons c) as [t2 ->].
  rewrite <- !app_comm_cons. intro H. apply cons_eq_inv in H as [H _]. untag. discriminate.
Qed.

Lemma tk_wf_some t n c : tk_cond t = Some (n, c) -> tk_wf t = true -> pb_wf (PStruct c) = true.
Proof. unfold tk_wf. intros ->. auto. Qed.

Definition cond_bytes (t : tkey) : bytes :=
  match tk_cond t with None => [] | Some (n, ctx) => enc_string n ++ pb_write (PStruct ctx) end.

Lemma enc_tuple_unfold t :
  enc_tuple t = enc_string (tk_obj t) ++ enc_string (tk_rel t) ++ enc_string (tk_user t) ++ cond_bytes t.
Proof. reflexivity. Qed.

Lemma flat_map_cons {A B} (f : A -> list B) a l : flat_map f (a :: l) = f a ++ flat_map f l.
Proof. reflexivity. Qed.

(* tuple_array_inj: the 3-or-5-field layout is uniquely decodable inside a counted array,
   provided what follows the array does not start with a string tag *)
Theorem enc_tuples_pf ts1 : forall ts2 r1 r2,
  length ts1 = length ts2 ->
  Forall (fun t => tk_wf t = true) ts1 -> Forall (fun t => tk_wf t = true) ts2 ->
  not_string_start r1 -> not_string_start r2 ->
  flat_map enc_tuple ts1 ++ r1 = flat_map enc_tuple ts2 ++ r2 ->
  Forall2 tuple_equiv ts1 ts2 /\ r1 = r2.
Proof.
  induction ts1 as [|a ts1 IH]; intros [|b ts2] r1 r2 Hl W1 W2 N1 N2 H; simpl in Hl; try discriminate.
  - simpl in H. split; [constructor|exact H].
  - inversion W1 as [|? ? Wa W1']; subst. inversion W2 as [|? ? Wb W2']; subst.
    rewrite !flat_map_cons, !enc_tuple_unfold, <- !app_assoc in H.
    apply enc_string_pf in H as [Eo H]. apply enc_string_pf in H as [Er H].
    apply enc_string_pf in H as [Eu H].
    unfold cond_bytes in H.
    destruct (tk_cond a) as [[n1 c1]|] eqn:Ca, (tk_cond b) as [[n2 c2]|] eqn:Cb.
    + rewrite <- !app_assoc in H. apply enc_string_pf in H as [En H].
      rewrite !pb_write_eq_rec in H.
      apply enc_pb_pf in H as [Ec H];
        [|eapply tk_wf_some; eassumption|eapply tk_wf_some; eassumption].
      destruct (IH ts2 r1 r2) as [Hf Hr]; try assumption; [lia|].
      split; [|exact Hr]. constructor; [|exact Hf].
      unfold tuple_equiv. rewrite Ca, Cb. auto.
    + (* a carries a condition, b does not: b's successor would have to supply "name, map" *)
      exfalso. rewrite <- !app_assoc in H. rewrite app_nil_l in H.
      destruct ts2 as [|b' ts2].
      * simpl in H. rewrite <- H in N2. apply enc_string_starts in N2. exact N2.
      * rewrite flat_map_cons, enc_tuple_unfold, <- !app_assoc in H.
        apply enc_string_pf in H as [_ H]. symmetry in H. apply string_vs_struct in H. exact H.
    + exfalso. rewrite <- !app_assoc in H. rewrite app_nil_l in H.
      destruct ts1 as [|a' ts1].
      * simpl in H. rewrite H in N1. apply enc_string_starts in N1. exact N1.
      * rewrite flat_map_cons, enc_tuple_unfold, <- !app_assoc in H.
        apply enc_string_pf in H as [_ H]. apply string_vs_struct in H. exact H.
    + rewrite !app_nil_l in H.
      destruct (IH ts2 r1 r2) as [Hf Hr]; try assumption; [lia|].
      split; [|exact Hr]. constructor; [|exact Hf].
      unfold tuple_equiv. rewrite Ca, Cb. auto.
Qed.

(* the hypothesis on the follower is necessary: a string then a map after the array is ambiguous *)
Example tuple_array_needs_follower_condition :
  exists t1 t2 r1 r2, t1 <> t2 /\ enc_tuple t1 ++ r1 = enc_tuple t2 ++ r2.
Proof.
  exists (mk_tkey [111] [114] [117] None), (mk_tkey [111] [114] [117] (Some ([110], []))),
         (enc_string [110] ++ pb_write (PStruct [])), [].
  split; [discriminate|]. vm_compute. reflexivity.
Qed.

(* ------------------------------------------------------------------ TupleKeys.Less as a lexicographic comparison *)
Definition lexc (c1 c2 : comparison) : comparison := match c1 with Eq => c2 | _ => c1 end.

Definition skey (t : tkey) : bytes * bytes * bytes * bytes := (tk_obj t, tk_rel t, tk_user t, cond_name t).

Definition cmp4 (x y : bytes * bytes * bytes * bytes) : comparison :=
  match x, y with
  | (o1, r1, u1, n1), (o2, r2, u2, n2) =>
      lexc (bcmp o1 o2) (lexc (bcmp r1 r2) (lexc (bcmp u1 u2) (bcmp n1 n2)))
  end.

Definition le4 (x y : bytes * bytes * bytes * bytes) : Prop := cmp4 x y <> Gt.

Lemma beqb_bcmp a b : beqb a b = match bcmp a b with Eq => true | _ => false end.
Proof.
  destruct (bcmp a b) eqn:E.
  - apply bcmp_eq in E. subst. apply beqb_refl.
  - destruct (beqb a b) eqn:B; [|reflexivity]. apply beqb_eq in B. subst. rewrite bcmp_refl in E. discriminate.
  - destruct (beqb a b) eqn:B; [|reflexivity]. apply beqb_eq in B. subst. rewrite bcmp_refl in E. discriminate.
Qed.

Lemma no_cond_names a b : has_cond a || has_cond b = false -> cond_name a = cond_name b.
Proof.
  unfold has_cond, cond_name. destruct (tk_cond a) as [[? ?]|], (tk_cond b) as [[? ?]|]; simpl;
    intro H; try discriminate; reflexivity.
Qed.

Lemma tk_less_cmp4 a b :
  tk_less a b = match cmp4 (skey a) (skey b) with Gt => false | _ => true end.
Proof.
  unfold tk_less, skey, cmp4. rewrite !beqb_bcmp. unfold bltb.
  destruct (bcmp (tk_obj a) (tk_obj b)); simpl; try reflexivity.
  destruct (bcmp (tk_rel a) (tk_rel b)); simpl; try reflexivity.
  destruct (bcmp (tk_user a) (tk_user b)); simpl; try reflexivity.
  destruct (has_cond a || has_cond b) eqn:Hc; simpl.
  - destruct (bcmp (cond_name a) (cond_name b)); reflexivity.
  - apply no_cond_names in Hc. rewrite Hc, bcmp_refl. reflexivity.
Qed.

Lemma bcmp_le_trans x y z : bcmp x y <> Gt -> bcmp y z <> Gt -> bcmp x z <> Gt.
Proof.
  intros H1 H2 H3.
  assert (L1 : ble x y). { unfold ble, bltb. rewrite bcmp_antisym. destruct (bcmp x y); simpl; congruence. }
  assert (L2 : ble y z). { unfold ble, bltb. rewrite bcmp_antisym. destruct (bcmp y z); simpl; congruence. }
  assert (L3 := ble_trans _ _ _ L1 L2). unfold ble, bltb in L3. rewrite bcmp_antisym, H3 in L3. discriminate.
Qed.

Lemma lexc_le_trans x y z cxy cyz cxz :
  (cxy <> Gt -> cyz <> Gt -> cxz <> Gt) ->
  lexc (bcmp x y) cxy <> Gt -> lexc (bcmp y z) cyz <> Gt -> lexc (bcmp x z) cxz <> Gt.
Proof.
  intros Ht H1 H2. unfold lexc in *.
  destruct (bcmp x y) eqn:E1; try congruence.
  - apply bcmp_eq in E1. subst y.
    destruct (bcmp x z) eqn:E2; try congruence. auto.
  - destruct (bcmp y z) eqn:E2; try congruence.
    + apply bcmp_eq in E2. subst z. rewrite E1. discriminate.
    + rewrite (bcmp_lt_trans _ _ _ E1 E2). discriminate.
Qed.

Lemma le4_trans x y z : le4 x y -> le4 y z -> le4 x z.
Proof.
  destruct x as [[[o1 r1] u1] n1], y as [[[o2 r2] u2] n2], z as [[[o3 r3] u3] n3].
  unfold le4, cmp4. apply lexc_le_trans. apply lexc_le_trans. apply lexc_le_trans. apply bcmp_le_trans.
Qed.

Lemma cmp4_antisym x y : cmp4 y x = CompOpp (cmp4 x y).
Proof.
  destruct x as [[[o1 r1] u1] n1], y as [[[o2 r2] u2] n2]. unfold cmp4, lexc.
  rewrite (bcmp_antisym o1 o2), (bcmp_antisym r1 r2), (bcmp_antisym u1 u2), (bcmp_antisym n1 n2).
  destruct (bcmp o1 o2), (bcmp r1 r2), (bcmp u1 u2), (bcmp n1 n2); reflexivity.
Qed.

Lemma cmp4_eq x y : cmp4 x y = Eq -> x = y.
Proof.
  destruct x as [[[o1 r1] u1] n1], y as [[[o2 r2] u2] n2]. unfold cmp4, lexc.
  destruct (bcmp o1 o2) eqn:E1; try discriminate.
  destruct (bcmp r1 r2) eqn:E2; try discriminate.
  destruct (bcmp u1 u2) eqn:E3; try discriminate.
  intro E4. apply bcmp_eq in E1, E2, E3, E4. subst. reflexivity.
Qed.

Lemma le4_antisym x y : le4 x y -> le4 y x -> x = y.
Proof.
  unfold le4. intros H1 H2. rewrite cmp4_antisym in H2. apply cmp4_eq.
  destruct (cmp4 x y); simpl in *; congruence.
Qed.

Lemma le4_total x y : ~ le4 x y -> le4 y x.
Proof.
  unfold le4. intros H. rewrite cmp4_antisym. destruct (cmp4 x y); simpl; try discriminate.
  exfalso. apply H. discriminate.
Qed.

Definition tk_le (a b : tkey) : Prop := le4 (skey a) (skey b).

Lemma tk_less_le a b : tk_less a b = true <-> tk_le a b.
Proof.
  rewrite tk_less_cmp4. unfold tk_le, le4. destruct (cmp4 (skey a) (skey b)); split; intro H;
    try reflexivity; try discriminate; congruence.
Qed.

Lemma tk_tie_skey a b : tk_tie a b = true <-> skey a = skey b.
Proof.
  unfold tk_tie. rewrite andb_true_iff, !tk_less_le. split.
  - intros [H1 H2]. apply le4_antisym; assumption.
  - intro E. unfold tk_le. rewrite E. split; unfold le4;
      (assert (cmp4 (skey b) (skey b) = Eq) as ->; [|discriminate]);
      destruct (skey b) as [[[o r] u] n]; unfold cmp4; rewrite !bcmp_refl; reflexivity.
Qed.

(* sort.Sort's result with this Less is a sorted permutation (insertion-sort range) *)
Lemma sort_tuples_perm l : Permutation (sort_tuples l) l.
Proof. apply go_isort_perm. Qed.

Lemma sort_tuples_sorted l : StronglySorted tk_le (sort_tuples l).
Proof.
  apply go_isort_sorted.
  - intros x y H. apply tk_less_le. exact H.
  - intros x y H. apply le4_total. intro G. apply tk_less_le in G. congruence.
  - intros x y z. apply le4_trans.
Qed.

(* Less is not a strict order: it answers true in both directions on tied tuples *)
Example tk_less_not_strict : exists t, tk_less t t = true.
Proof. exists (mk_tkey [] [] [] None). reflexivity. Qed.

(* ------------------------------------------------------------------ InvariantCacheKey *)
Definition tuples_equiv (ts1 ts2 : list tkey) : Prop :=
  exists ts1', Permutation ts1 ts1' /\ Forall2 tuple_equiv ts1' ts2.

Lemma Forall2_perm_r {A B} (R : A -> B -> Prop) l1 l2 l2' :
  Forall2 R l1 l2 -> Permutation l2 l2' -> exists l1', Permutation l1 l1' /\ Forall2 R l1' l2'.
Proof.
  intros Hf HP. revert l1 Hf. induction HP as [|y l2 l2' HP IH|x y l2|l2 l2' l2'' HP1 IH1 HP2 IH2]; intros l1 Hf.
  - inversion Hf; subst. exists []. split; [reflexivity|constructor].
  - inversion Hf as [|a ? l1t ? Ha Hf']; subst.
    destruct (IH l1t Hf') as [l1' [P F]]. exists (a :: l1'). split; [constructor; exact P|constructor; assumption].
  - inversion Hf as [|a ? l1t ? Ha Hf']; subst. inversion Hf' as [|b ? l1tt ? Hb Hf'']; subst.
    exists (b :: a :: l1tt). split; [apply perm_swap|]. constructor; [exact Hb|]. constructor; assumption.
  - destruct (IH1 l1 Hf) as [m [P1 F1]]. destruct (IH2 m F1) as [m' [P2 F2]].
    exists m'. split; [eapply Permutation_trans; eassumption|exact F2].
Qed.

Lemma Forall2_len {A B} (R : A -> B -> Prop) l1 l2 : Forall2 R l1 l2 -> length l1 = length l2.
Proof. induction 1; simpl; congruence. Qed.

Definition inv_wf (ctx : fields) (ts : list tkey) : bool :=
  pb_wf (PStruct ctx) && forallb tk_wf ts.
Definition inv_keys_unique (ctx : fields) (ts : list tkey) : bool :=
  pb_keys_unique (PStruct ctx) && forallb tk_keys_unique ts.

Section AnySort.
  (* "=>" needs only that the sort returns a permutation: it holds for pdqsort as well *)
  Variable srt : list tkey -> list tkey.
  Hypothesis srt_perm : forall l, Permutation (srt l) l.

  Definition inv_bytes_with (store model : bytes) (ctx : fields) (tuples : list tkey) : bytes :=
    enc_string store ++ enc_string model ++
    enc_array_hdr (length tuples) ++ flat_map enc_tuple (srt tuples) ++ pb_write (PStruct ctx).

  Theorem inv_bytes_with_inj s1 m1 c1 ts1 s2 m2 c2 ts2 :
    inv_wf c1 ts1 = true -> inv_wf c2 ts2 = true ->
    inv_bytes_with s1 m1 c1 ts1 = inv_bytes_with s2 m2 c2 ts2 ->
    s1 = s2 /\ m1 = m2 /\ ctx_equiv c1 c2 /\ tuples_equiv ts1 ts2.
  Proof.
    unfold inv_wf, inv_bytes_with. intros W1 W2 H.
    apply andb_true_iff in W1 as [Wc1 Wt1]. apply andb_true_iff in W2 as [Wc2 Wt2].
    apply enc_string_pf in H as [-> H]. apply enc_string_pf in H as [-> H].
    apply enc_array_hdr_pf in H as [Hn H].
    assert (F1 : Forall (fun t => tk_wf t = true) (srt ts1)).
    { rewrite Forall_forall. rewrite forallb_forall in Wt1. intros t Ht. apply Wt1.
      eapply Permutation_in; [apply srt_perm|exact Ht]. }
    assert (F2 : Forall (fun t => tk_wf t = true) (srt ts2)).
    { rewrite Forall_forall. rewrite forallb_forall in Wt2. intros t Ht. apply Wt2.
      eapply Permutation_in; [apply srt_perm|exact Ht]. }
    rewrite <- (app_nil_r (pb_write (PStruct c1))), <- (app_nil_r (pb_write (PStruct c2))) in H.
    rewrite !app_assoc in H. rewrite <- !(app_assoc (flat_map enc_tuple _)) in H.
    apply enc_tuples_pf in H; try assumption.
    - destruct H as [Hf Hc]. rewrite !app_nil_r, !pb_write_eq_rec in Hc.
      split; [reflexivity|]. split; [reflexivity|]. split.
      + apply enc_pb_inj; assumption.
      + destruct (Forall2_perm_r _ _ _ _ Hf (srt_perm ts2)) as [l1' [P F]].
        exists l1'. split; [|exact F]. eapply Permutation_trans; [apply Permutation_sym, srt_perm|exact P].
    - rewrite (Permutation_length (srt_perm ts1)), (Permutation_length (srt_perm ts2)). exact Hn.
    - apply pb_write_struct_start.
    - apply pb_write_struct_start.
  Qed.
End AnySort.

Lemma inv_bytes_is_with store model ctx ts :
  inv_bytes store model ctx ts = inv_bytes_with sort_tuples store model ctx ts.
Proof. reflexivity. Qed.

(* invariant_key_sem, "=>": equal pre-hash bytes only for semantically equal inputs *)
Theorem invariant_key_inj s1 m1 c1 ts1 s2 m2 c2 ts2 :
  inv_wf c1 ts1 = true -> inv_wf c2 ts2 = true ->
  inv_bytes s1 m1 c1 ts1 = inv_bytes s2 m2 c2 ts2 ->
  s1 = s2 /\ m1 = m2 /\ ctx_equiv c1 c2 /\ tuples_equiv ts1 ts2.
Proof. rewrite !inv_bytes_is_with. apply inv_bytes_with_inj. apply sort_tuples_perm. Qed.

(* ---- "<=": canonicity, when tied tuples are identical *)
Definition ekey (t : tkey) : (bytes * bytes * bytes * bytes) * bytes := (skey t, enc_tuple t).
Definition eless (x y : (bytes * bytes * bytes * bytes) * bytes) : bool :=
  match cmp4 (fst x) (fst y) with Gt => false | _ => true end.
Definition ele (x y : (bytes * bytes * bytes * bytes) * bytes) : Prop := le4 (fst x) (fst y).

Lemma tie_free_spec l : tie_free l = true ->
  forall a b, In a l -> In b l -> tk_tie a b = true -> enc_tuple a = enc_tuple b.
Proof.
  induction l as [|x l IH]; simpl; intros H a b Ha Hb Ht; [contradiction|].
  apply andb_true_iff in H as [H1 H2]. rewrite forallb_forall in H1.
  destruct Ha as [->|Ha], Hb as [->|Hb].
  - reflexivity.
  - specialize (H1 b Hb). rewrite Ht in H1. simpl in H1. apply beqb_eq. exact H1.
  - assert (Ht' : tk_tie b a = true) by (unfold tk_tie in *; rewrite andb_comm; exact Ht).
    specialize (H1 a Ha). rewrite Ht' in H1. simpl in H1. symmetry. apply beqb_eq. exact H1.
  - apply IH; assumption.
Qed.

Lemma tuple_equiv_ekey a b :
  tuple_equiv a b -> tk_keys_unique a = true -> ekey a = ekey b.
Proof.
  unfold tuple_equiv, ekey, skey, tk_keys_unique, cond_name. rewrite !enc_tuple_unfold. unfold cond_bytes.
  intros [Eo [Er [Eu Ec]]] U. rewrite Eo, Er, Eu.
  destruct (tk_cond a) as [[n1 c1]|], (tk_cond b) as [[n2 c2]|]; try contradiction.
  - destruct Ec as [-> Ec]. rewrite !pb_write_eq_rec. rewrite (enc_pb_equiv _ _ Ec U). reflexivity.
  - reflexivity.
Qed.

Lemma sort_tuples_enc l :
  flat_map enc_tuple (sort_tuples l) = flat_map snd (go_isort eless (map ekey l)).
Proof.
  unfold sort_tuples. rewrite <- (go_isort_map ekey tk_less eless).
  - rewrite flat_map_map. reflexivity.
  - intros a b. unfold eless, ekey. simpl. symmetry. apply tk_less_cmp4.
Qed.

Theorem invariant_key_canonical s m c1 ts1 c2 ts2 :
  inv_keys_unique c1 ts1 = true -> tie_free ts1 = true ->
  ctx_equiv c1 c2 -> tuples_equiv ts1 ts2 ->
  inv_bytes s m c1 ts1 = inv_bytes s m c2 ts2.
Proof.
  unfold inv_keys_unique. intros U TF Ec [ts1' [P F]].
  apply andb_true_iff in U as [Uc Ut]. rewrite forallb_forall in Ut.
  unfold inv_bytes.
  assert (Hlen : length ts1 = length ts2).
  { rewrite (Permutation_length P). eapply Forall2_len. exact F. }
  assert (Hm : map ekey ts1' = map ekey ts2).
  { assert (Ut' : forall t, In t ts1' -> tk_keys_unique t = true).
    { intros t Ht. apply Ut. eapply Permutation_in; [apply Permutation_sym; exact P|exact Ht]. }
    clear P Hlen. revert Ut'. induction F as [|a b l1 l2 Hab F IH]; intro Ut'; simpl; [reflexivity|].
    rewrite IH.
    - f_equal. apply tuple_equiv_ekey; [exact Hab|apply Ut'; left; reflexivity].
    - intros t Ht. apply Ut'. right. exact Ht. }
  assert (HP : Permutation (map ekey ts1) (map ekey ts2)).
  { rewrite <- Hm. apply Permutation_map. exact P. }
  assert (Hs : go_isort eless (map ekey ts1) = go_isort eless (map ekey ts2)).
  { apply (go_isort_unique eless ele).
    - intros x y H. unfold eless in H. unfold ele, le4. destruct (cmp4 (fst x) (fst y)); congruence.
    - intros x y H. unfold eless in H. apply le4_total. unfold le4.
      destruct (cmp4 (fst x) (fst y)); try discriminate. intro G. apply G. reflexivity.
    - intros x y z. apply le4_trans.
    - exact HP.
    - intros x y Hx Hy H1 H2.
      apply in_map_iff in Hx as [a [<- Ha]]. apply in_map_iff in Hy as [b [<- Hb]].
      unfold ele, ekey in *. simpl in *.
      assert (Es : skey a = skey b) by (apply le4_antisym; assumption).
      rewrite Es. f_equal. apply (tie_free_spec ts1 TF a b Ha Hb). apply tk_tie_skey. exact Es. }
  rewrite !sort_tuples_enc, !pb_write_eq_rec, Hlen, Hs.
  rewrite (enc_pb_equiv _ _ Ec Uc). reflexivity.
Qed.

(* the same bytes for ANY sorted permutation, e.g. the one Go's pdqsort returns for more than
   12 tuples, when tied tuples encode identically *)
Theorem inv_bytes_any_sort ts sorted :
  Permutation sorted ts -> StronglySorted tk_le sorted -> tie_free ts = true ->
  flat_map enc_tuple sorted = flat_map enc_tuple (sort_tuples ts).
Proof.
  intros P S TF.
  assert (E : map ekey sorted = go_isort eless (map ekey ts)).
  { apply (go_isort_any_sorted eless ele).
    - intros x y H. unfold eless in H. unfold ele, le4. destruct (cmp4 (fst x) (fst y)); congruence.
    - intros x y H. unfold eless in H. apply le4_total. unfold le4.
      destruct (cmp4 (fst x) (fst y)); try discriminate. intro G. apply G. reflexivity.
    - intros x y z. apply le4_trans.
    - apply Permutation_map. exact P.
    - clear P TF. induction S as [|a l S IH Hall]; simpl; constructor; [exact IH|].
      rewrite Forall_forall in *. intros x Hx. apply in_map_iff in Hx as [b [<- Hb]].
      unfold ele, ekey. simpl. apply Hall. exact Hb.
    - intros x y Hx Hy H1 H2.
      apply in_map_iff in Hx as [a [<- Ha]]. apply in_map_iff in Hy as [b [<- Hb]].
      unfold ele, ekey in *. simpl in *.
      assert (Es : skey a = skey b) by (apply le4_antisym; assumption).
      rewrite Es. f_equal. apply (tie_free_spec ts TF a b Ha Hb). apply tk_tie_skey. exact Es. }
  rewrite sort_tuples_enc, <- E, flat_map_map. reflexivity.
Qed.

(* ... and without the tie hypothesis canonicity fails: the sort ignores condition contexts and
   Less answers true on ties, so two tuples differing only in context keep an input-dependent
   order (harmless: a cache miss) *)
Definition tie_t1 : tkey := mk_tkey [100] [114] [117] (Some ([99], [([120], PNum 1)])).
Definition tie_t2 : tkey := mk_tkey [100] [114] [117] (Some ([99], [([120], PNum 2)])).

Theorem invariant_key_canonical_refuted :
  exists s m c ts1 ts2,
    inv_wf c ts1 = true /\ inv_keys_unique c ts1 = true /\
    tuples_equiv ts1 ts2 /\ inv_bytes s m c ts1 <> inv_bytes s m c ts2.
Proof.
  exists [115], [109], [], [tie_t1; tie_t2], [tie_t2; tie_t1].
  split; [reflexivity|]. split; [reflexivity|]. split.
  - exists [tie_t2; tie_t1]. split; [apply perm_swap|].
    constructor; [|constructor; [|constructor]]; unfold tuple_equiv; simpl;
      repeat split; apply pb_equiv_refl.
  - vm_compute. discriminate.
Qed.

(* ------------------------------------------------------------------ keys that are field sequences *)
Fixpoint str (s : string) : bytes :=
  match s with EmptyString => [] | String c s' => Ascii.N_of_ascii c :: str s' end.

Theorem lits_ok :
  lit_INFINITE = str "INFINITE" /\ lit_OR = str "OR" /\ lit_READ = str "READ" /\ lit_RSWU = str "RSWU" /\
  lit_RUT = str "RUT" /\ lit_TS = str "TS" /\ lit_TTU = str "TTU" /\ lit_UOT = str "UOT" /\
  lit_USERSET = str "USERSET" /\ lit_V2 = str "V2".
Proof. vm_compute. repeat split. Qed.

(* the named prefix constants read from the Go source are pairwise distinct, and distinct from
   the inline first-field literals that share a map with them *)
Theorem prefixes_pairwise_distinct :
  nodupb (map snd c24_prefix_table ++ [lit_TS; lit_V2; lit_USERSET; lit_TTU]) = true.
Proof. vm_compute. reflexivity. Qed.

Theorem prefix_table_covered :
  map snd c24_prefix_table =
  [c24_CacheKeyPrefix; c24_ModelCacheKeyPrefix; c24_PrefixChangelogCache; c24_PrefixEdgeCacheKey;
   c24_PrefixInvalidIteratorCache; c24_PrefixIteratorCache; c24_PrefixSubproblemCache].
Proof. reflexivity. Qed.

Ltac unprefix :=
  cbv [c24_CacheKeyPrefix c24_ModelCacheKeyPrefix c24_PrefixChangelogCache c24_PrefixEdgeCacheKey
       c24_PrefixInvalidIteratorCache c24_PrefixIteratorCache c24_PrefixSubproblemCache
       lit_INFINITE lit_OR lit_READ lit_RSWU lit_RUT lit_TS lit_TTU lit_UOT lit_USERSET lit_V2] in *.

(* Every constructor, every pair of constructors: equal bytes only for the same constructor
   applied to the same arguments (within one map). *)
Theorem pkey_inj k1 k2 :
  pkey_wf k1 = true -> pkey_wf k2 = true -> pkey_domain k1 = pkey_domain k2 ->
  pkey_bytes k1 = pkey_bytes k2 -> k1 = k2.
Proof.
  unfold pkey_wf, pkey_bytes. intros W1 W2 D H.
  apply enc_fields_inj in H; [|exact W1|exact W2]. clear W1 W2.
  destruct k1, k2; cbn [pkey_domain] in D; try discriminate D; clear D;
    cbn [pkey_fields] in H; unprefix; try discriminate H;
    injection H; intros; subst; reflexivity.
Qed.

(* C16 store_in_every_key: for every key constructor that takes a store id, different stores
   give different keys *)
Corollary store_in_every_key k1 k2 :
  pkey_wf k1 = true -> pkey_wf k2 = true -> pkey_domain k1 = pkey_domain k2 ->
  pkey_bytes k1 = pkey_bytes k2 -> pkey_store k1 = pkey_store k2.
Proof. intros W1 W2 D H. rewrite (pkey_inj k1 k2 W1 W2 D H). reflexivity. Qed.

(* the two request-local index maps have no prefix; across maps the bytes may coincide *)
Example pkey_domains_matter :
  exists k1 k2, k1 <> k2 /\ pkey_bytes k1 = pkey_bytes k2.
Proof. exists (KCtxByUser [97] [98] [99]), (KCtxByObject [97] [98] [99]). split; [discriminate|reflexivity]. Qed.

(* check_key_inj *)
Theorem check_key_inj s1 o1 r1 u1 i1 s2 o2 r2 u2 i2 :
  is_u64 i1 = true -> is_u64 i2 = true ->
  pkey_bytes (KCheck s1 o1 r1 u1 i1) = pkey_bytes (KCheck s2 o2 r2 u2 i2) ->
  s1 = s2 /\ o1 = o2 /\ r1 = r2 /\ u1 = u2 /\ i1 = i2.
Proof.
  intros W1 W2 H. apply pkey_inj in H.
  - injection H; intros; subst; auto.
  - unfold pkey_wf. simpl. rewrite W1. reflexivity.
  - unfold pkey_wf. simpl. rewrite W2. reflexivity.
  - reflexivity.
Qed.

(* ------------------------------------------------------------------ iterator keys *)
Lemma Permutation_map_inj {A B} (f : A -> B) l1 l2 :
  (forall a b, In a l1 -> In b l2 -> f a = f b -> a = b) ->
  Permutation (map f l1) (map f l2) -> Permutation l1 l2.
Proof.
  intros Hinj HP. apply Permutation_map_inv in HP as [l3 [E P]].
  assert (l1 = l3).
  { assert (Hinj' : forall a b, In a l1 -> In b l3 -> f a = f b -> a = b).
    { intros a b Ha Hb. apply Hinj; [exact Ha|]. eapply Permutation_in; [apply Permutation_sym; exact P|exact Hb]. }
    clear P Hinj. revert l3 E Hinj'. induction l1 as [|a l1 IH]; intros [|b l3] E Hinj'; simpl in E; try discriminate.
    - reflexivity.
    - injection E as E1 E2. f_equal.
      + apply Hinj'; [left; reflexivity|left; reflexivity|exact E1].
      + apply IH; [exact E2|]. intros x y Hx Hy. apply Hinj'; right; assumption. }
  subst. apply Permutation_sym. exact P.
Qed.

Lemma mem_mid c t r : mem c (t ++ c :: r) = true.
Proof. apply mem_In. apply in_or_app. right. left. reflexivity. Qed.

Lemma uf_str_inj a b : uf_wf a = true -> uf_wf b = true -> uf_str a = uf_str b -> a = b.
Proof.
  destruct a as [o1 r1], b as [o2 r2]. unfold uf_wf, uf_str. simpl.
  intros W1 W2 H. apply negb_true_iff in W1, W2.
  destruct r1 as [|x1 r1], r2 as [|x2 r2].
  - congruence.
  - exfalso. subst o1. rewrite mem_mid in W1. discriminate.
  - exfalso. subst o2. rewrite mem_mid in W2. discriminate.
  - assert (C1 := cut_app c_hash o1 (x1 :: r1) W1). assert (C2 := cut_app c_hash o2 (x2 :: r2) W2).
    rewrite H in C1. rewrite C1 in C2. congruence.
Qed.

Lemma ref_str_inj a b : ref_wf a = true -> ref_wf b = true -> ref_str a = ref_str b -> a = b.
Proof.
  destruct a as [t1 k1], b as [t2 k2]. unfold ref_wf, ref_str. simpl.
  intros W1 W2 H. apply andb_true_iff in W1 as [H1 C1]. apply andb_true_iff in W2 as [H2 C2].
  apply negb_true_iff in H1, H2, C1, C2.
  assert (Hh : forall t r, mem c_hash (t ++ c_hash :: r) = true).
  { intros t r. apply mem_mid. }
  assert (Hw : forall t, mem c_hash t = false -> mem c_hash (t ++ [c_colon; c_star]) = false).
  { intros t Ht. rewrite mem_app, Ht. reflexivity. }
  assert (Hc : forall t, mem c_colon (t ++ [c_colon; c_star]) = true).
  { intros t. apply (mem_mid c_colon t [c_star]). }
  destruct k1 as [r1| |], k2 as [r2| |].
  - assert (E1 := cut_app c_hash t1 r1 H1). assert (E2 := cut_app c_hash t2 r2 H2).
    rewrite H in E1. rewrite E1 in E2. congruence.
  - exfalso. assert (E := Hh t1 r1). rewrite H, (Hw t2 H2) in E. discriminate.
  - exfalso. assert (E := Hh t1 r1). rewrite H, H2 in E. discriminate.
  - exfalso. assert (E := Hh t2 r2). rewrite <- H, (Hw t1 H1) in E. discriminate.
  - apply app_inv_tail in H. subst. reflexivity.
  - exfalso. assert (E := Hc t1). rewrite H, C2 in E. discriminate.
  - exfalso. assert (E := Hh t2 r2). rewrite <- H, H1 in E. discriminate.
  - exfalso. assert (E := Hc t2). rewrite <- H, C1 in E. discriminate.
  - subst. reflexivity.
Qed.

(* without names_wellformed the concatenation conflates entries *)
Example uf_str_conflates_ill_formed : uf_str ([97; 35; 98], []) = uf_str ([97], [98]).
Proof. reflexivity. Qed.
Example ref_str_conflates_ill_formed : ref_str ([97; 58; 42], RNone) = ref_str ([97], RWild).
Proof. reflexivity. Qed.

Definition is_empty_some (o : option (list bytes)) : bool :=
  match o with Some [] => true | _ => false end.

Lemma oid_values_inj o1 o2 :
  is_empty_some o1 = false -> is_empty_some o2 = false -> oid_values o1 = oid_values o2 -> o1 = o2.
Proof.
  destruct o1 as [[|x l]|], o2 as [[|y m]|]; simpl; intros H1 H2 H; try discriminate; congruence.
Qed.

Section HashedProofs.
  Variable hash : bytes -> N.
  Hypothesis hash_u64 : forall b, is_u64 (hash b) = true.

  (* ---- ReadStartingWithUserKey *)
  Theorem rswu_key_inj s1 t1 r1 uf1 o1 c1 s2 t2 r2 uf2 o2 c2 :
    (hash (rswu_stage1 uf1 o1 c1) = hash (rswu_stage1 uf2 o2 c2) ->
     rswu_stage1 uf1 o1 c1 = rswu_stage1 uf2 o2 c2) ->                        (* no_digest_collision *)
    rswu_key hash s1 t1 r1 uf1 o1 c1 = rswu_key hash s2 t2 r2 uf2 o2 c2 ->
    s1 = s2 /\ t1 = t2 /\ r1 = r2 /\
    Permutation (map uf_str uf1) (map uf_str uf2) /\ oid_values o1 = oid_values o2 /\ Permutation c1 c2.
  Proof.
    unfold rswu_key. intros NC H. apply pkey_inj in H;
      [|unfold pkey_wf; simpl; rewrite hash_u64; reflexivity
       |unfold pkey_wf; simpl; rewrite hash_u64; reflexivity|reflexivity].
    injection H as -> -> -> Hh. apply NC in Hh. unfold rswu_stage1 in Hh.
    apply enc_str_array_pf in Hh as [E1 Hh]. apply enc_str_array_pf in Hh as [E2 Hh].
    rewrite <- (app_nil_r (enc_str_array (sort_strings c1))),
            <- (app_nil_r (enc_str_array (sort_strings c2))) in Hh.
    apply enc_str_array_pf in Hh as [E3 _].
    repeat split; try assumption; apply sort_strings_canonical; assumption.
  Qed.

  Theorem rswu_key_canonical s t r uf1 o1 c1 uf2 o2 c2 :
    Permutation (map uf_str uf1) (map uf_str uf2) -> oid_values o1 = oid_values o2 -> Permutation c1 c2 ->
    rswu_key hash s t r uf1 o1 c1 = rswu_key hash s t r uf2 o2 c2.
  Proof.
    intros P1 E P2. unfold rswu_key, rswu_stage1.
    apply sort_strings_canonical in P1, P2. rewrite P1, P2, E. reflexivity.
  Qed.

  (* names_wellformed: entries themselves, not only their strings *)
  Theorem rswu_key_inj_wellformed s1 t1 r1 uf1 o1 c1 s2 t2 r2 uf2 o2 c2 :
    forallb uf_wf uf1 = true -> forallb uf_wf uf2 = true ->
    is_empty_some o1 = false -> is_empty_some o2 = false ->
    (hash (rswu_stage1 uf1 o1 c1) = hash (rswu_stage1 uf2 o2 c2) ->
     rswu_stage1 uf1 o1 c1 = rswu_stage1 uf2 o2 c2) ->
    rswu_key hash s1 t1 r1 uf1 o1 c1 = rswu_key hash s2 t2 r2 uf2 o2 c2 ->
    s1 = s2 /\ t1 = t2 /\ r1 = r2 /\ Permutation uf1 uf2 /\ o1 = o2 /\ Permutation c1 c2.
  Proof.
    intros W1 W2 N1 N2 NC H. apply rswu_key_inj in H as [Es [Et [Er [Pu [Eo Pc]]]]]; [|exact NC].
    repeat split; try assumption.
    - apply (Permutation_map_inj uf_str); [|exact Pu].
      rewrite forallb_forall in W1, W2. intros a b Ha Hb. apply uf_str_inj; auto.
    - apply oid_values_inj; assumption.
  Qed.

  (* the full-strength statement (ObjectIDs compared as given, nil distinct from empty) fails *)
  Theorem rswu_key_nil_empty_conflated s t r uf c :
    rswu_key hash s t r uf None c = rswu_key hash s t r uf (Some []) c.
  Proof. reflexivity. Qed.

  Theorem rswu_key_inj_refuted :
    exists s t r uf c o1 o2, o1 <> o2 /\ rswu_key hash s t r uf o1 c = rswu_key hash s t r uf o2 c.
  Proof. exists [], [], [], [], [], None, (Some []). split; [discriminate|reflexivity]. Qed.

  (* ---- ReadUsersetTuplesKey *)
  Theorem rut_key_inj s1 o1 r1 refs1 c1 s2 o2 r2 refs2 c2 :
    (hash (rut_stage1 refs1 c1) = hash (rut_stage1 refs2 c2) -> rut_stage1 refs1 c1 = rut_stage1 refs2 c2) ->
    rut_key hash s1 o1 r1 refs1 c1 = rut_key hash s2 o2 r2 refs2 c2 ->
    s1 = s2 /\ o1 = o2 /\ r1 = r2 /\
    Permutation (map ref_str refs1) (map ref_str refs2) /\ Permutation c1 c2.
  Proof.
    unfold rut_key. intros NC H. apply pkey_inj in H;
      [|unfold pkey_wf; simpl; rewrite hash_u64; reflexivity
       |unfold pkey_wf; simpl; rewrite hash_u64; reflexivity|reflexivity].
    injection H as -> -> -> Hh. apply NC in Hh. unfold rut_stage1 in Hh.
    apply enc_str_array_pf in Hh as [E1 Hh].
    rewrite <- (app_nil_r (enc_str_array (sort_strings c1))),
            <- (app_nil_r (enc_str_array (sort_strings c2))) in Hh.
    apply enc_str_array_pf in Hh as [E2 _].
    repeat split; try assumption; apply sort_strings_canonical; assumption.
  Qed.

  Theorem rut_key_canonical s o r refs1 c1 refs2 c2 :
    Permutation (map ref_str refs1) (map ref_str refs2) -> Permutation c1 c2 ->
    rut_key hash s o r refs1 c1 = rut_key hash s o r refs2 c2.
  Proof.
    intros P1 P2. unfold rut_key, rut_stage1.
    apply sort_strings_canonical in P1, P2. rewrite P1, P2. reflexivity.
  Qed.

  Theorem rut_key_inj_wellformed s1 o1 r1 refs1 c1 s2 o2 r2 refs2 c2 :
    forallb ref_wf refs1 = true -> forallb ref_wf refs2 = true ->
    (hash (rut_stage1 refs1 c1) = hash (rut_stage1 refs2 c2) -> rut_stage1 refs1 c1 = rut_stage1 refs2 c2) ->
    rut_key hash s1 o1 r1 refs1 c1 = rut_key hash s2 o2 r2 refs2 c2 ->
    s1 = s2 /\ o1 = o2 /\ r1 = r2 /\ Permutation refs1 refs2 /\ Permutation c1 c2.
  Proof.
    intros W1 W2 NC H. apply rut_key_inj in H as [Es [Eo [Er [Pr Pc]]]]; [|exact NC].
    repeat split; try assumption.
    apply (Permutation_map_inj ref_str); [|exact Pr].
    rewrite forallb_forall in W1, W2. intros a b Ha Hb. apply ref_str_inj; auto.
  Qed.

  (* ---- ReadKey *)
  Theorem read_key_inj s1 o1 r1 u1 c1 s2 o2 r2 u2 c2 :
    (hash (read_stage1 c1) = hash (read_stage1 c2) -> read_stage1 c1 = read_stage1 c2) ->
    read_key hash s1 o1 r1 u1 c1 = read_key hash s2 o2 r2 u2 c2 ->
    s1 = s2 /\ o1 = o2 /\ r1 = r2 /\ u1 = u2 /\ Permutation c1 c2.
  Proof.
    unfold read_key. intros NC H. apply pkey_inj in H;
      [|unfold pkey_wf; simpl; rewrite hash_u64; reflexivity
       |unfold pkey_wf; simpl; rewrite hash_u64; reflexivity|reflexivity].
    injection H as -> -> -> -> Hh. apply NC in Hh. unfold read_stage1 in Hh.
    rewrite <- (app_nil_r (enc_str_array (sort_strings c1))),
            <- (app_nil_r (enc_str_array (sort_strings c2))) in Hh.
    apply enc_str_array_pf in Hh as [E _].
    repeat split; try reflexivity. apply sort_strings_canonical. exact E.
  Qed.

  Theorem read_key_canonical s o r u c1 c2 :
    Permutation c1 c2 -> read_key hash s o r u c1 = read_key hash s o r u c2.
  Proof.
    intro P. unfold read_key, read_stage1. apply sort_strings_canonical in P. rewrite P. reflexivity.
  Qed.

  (* ---- sub-problem key / BatchCheck de-duplication key (C07) and v2 edge key *)
  Theorem batch_key_sem s1 m1 o1 r1 u1 c1 ts1 s2 m2 o2 r2 u2 c2 ts2 :
    inv_wf c1 ts1 = true -> inv_wf c2 ts2 = true ->
    (hash (inv_bytes s1 m1 c1 ts1) = hash (inv_bytes s2 m2 c2 ts2) ->
     inv_bytes s1 m1 c1 ts1 = inv_bytes s2 m2 c2 ts2) ->                       (* no_digest_collision *)
    batch_key hash s1 m1 o1 r1 u1 c1 ts1 = batch_key hash s2 m2 o2 r2 u2 c2 ts2 ->
    s1 = s2 /\ m1 = m2 /\ o1 = o2 /\ r1 = r2 /\ u1 = u2 /\ ctx_equiv c1 c2 /\ tuples_equiv ts1 ts2.
  Proof.
    unfold batch_key, invariant_key. intros W1 W2 NC H.
    apply check_key_inj in H as [Es [Eo [Er [Eu Ei]]]]; try apply hash_u64.
    apply NC in Ei. apply invariant_key_inj in Ei as [_ [Em [Ec Et]]]; try assumption.
    repeat split; assumption.
  Qed.

  Theorem batch_key_canonical s m o r u c1 ts1 c2 ts2 :
    inv_keys_unique c1 ts1 = true -> tie_free ts1 = true ->
    ctx_equiv c1 c2 -> tuples_equiv ts1 ts2 ->
    batch_key hash s m o r u c1 ts1 = batch_key hash s m o r u c2 ts2.
  Proof.
    intros U TF Ec Et. unfold batch_key, invariant_key.
    rewrite (invariant_key_canonical s m c1 ts1 c2 ts2 U TF Ec Et). reflexivity.
  Qed.

  Theorem edge_key_sem s1 m1 o1 u1 rd1 et1 tl1 tr1 c1 ts1 s2 m2 o2 u2 rd2 et2 tl2 tr2 c2 ts2 :
    is_u64 et1 = true -> is_u64 et2 = true ->
    inv_wf c1 ts1 = true -> inv_wf c2 ts2 = true ->
    (hash (inv_bytes s1 m1 c1 ts1) = hash (inv_bytes s2 m2 c2 ts2) ->
     inv_bytes s1 m1 c1 ts1 = inv_bytes s2 m2 c2 ts2) ->
    edge_key hash s1 m1 o1 u1 rd1 et1 tl1 tr1 c1 ts1 = edge_key hash s2 m2 o2 u2 rd2 et2 tl2 tr2 c2 ts2 ->
    s1 = s2 /\ m1 = m2 /\ o1 = o2 /\ u1 = u2 /\ rd1 = rd2 /\ et1 = et2 /\ tl1 = tl2 /\ tr1 = tr2 /\
    ctx_equiv c1 c2 /\ tuples_equiv ts1 ts2.
  Proof.
    unfold edge_key, invariant_key. intros E1 E2 W1 W2 NC H.
    apply pkey_inj in H;
      [|unfold pkey_wf; simpl; rewrite E1, hash_u64; reflexivity
       |unfold pkey_wf; simpl; rewrite E2, hash_u64; reflexivity|reflexivity].
    injection H as -> -> -> -> -> -> -> -> Hi.
    apply NC in Hi. apply invariant_key_inj in Hi as [_ [_ [Ec Et]]]; try assumption.
    repeat split; assumption.
  Qed.
End HashedProofs.

(* filter lists are treated as multisets: a duplicated entry changes the pre-hash bytes, although
   the stores interpret the lists as sets (harmless: a cache miss) *)
Theorem filter_set_semantics_refuted :
  exists c1 c2, (forall x, In x c1 <-> In x c2) /\ read_stage1 c1 <> read_stage1 c2.
Proof.
  exists [[99]], [[99]; [99]]. split.
  - intro x. simpl. tauto.
  - vm_compute. discriminate.
Qed.

(* ------------------------------------------------------------------ the layouts, as read from the Go source *)
Local Open Scope string_scope.

Theorem method_tags_as_modelled :
  c24_method_tags =
  [("EncodeArray", ""); ("EncodeArrayHeader", "tagArray"); ("EncodeBool", "tagBool");
   ("EncodeByte", "tagByte"); ("EncodeBytes", "tagBytes"); ("EncodeMap", "");
   ("EncodeMapHeader", "tagMap"); ("EncodeNull", "tagNull");
   ("EncodePair", "tagPair,tagKey,tagValue"); ("EncodeString", "tagString");
   ("EncodeUint64", "tagUint64"); ("EncodeUnset", "tagUnset")].
Proof. reflexivity. Qed.

Theorem filter_fields_as_modelled :
  c24_filter_fields =
  [("ReadFilter", ["Object"; "Relation"; "User"; "Conditions"]);
   ("ReadStartingWithUserFilter", ["ObjectType"; "Relation"; "UserFilter"; "ObjectIDs"; "Conditions"]);
   ("ReadUsersetTuplesFilter", ["Object"; "Relation"; "AllowedUserTypeRestrictions"; "Conditions"])].
Proof. reflexivity. Qed.

Definition S_ (a : string) := ("EncodeString", a).
Definition U_ (a : string) := ("EncodeUint64", a).

(* every function of /repo that calls keys.GetBuilder(), with its builder calls in order:
   "$Name" a named constant, "=lit" an inline literal, "@expr" an argument *)
Definition modelled_key_sites : list (string * list (string * string)) :=
  [("internal/check/check.go:EdgeCacheKey",
    [S_ "$PrefixEdgeCacheKey"; S_ "@req.GetStoreID()"; S_ "@req.GetAuthorizationModelID()";
     S_ "@req.GetTupleKey().GetObject()"; S_ "@req.GetTupleKey().GetUser()";
     S_ "@edge.GetRelationDefinition()"; U_ "@uint64(edge.GetEdgeType())";
     S_ "@edge.GetTo().GetUniqueLabel()"; S_ "@edge.GetTuplesetRelation()"; U_ "@req.GetInvariantCacheKey()"]);
   ("internal/check/request.go:ctxTuplesByObjectKey", [S_ "@objectID"; S_ "@relation"; S_ "@userType"]);
   ("internal/check/request.go:ctxTuplesByUserKey", [S_ "@userID"; S_ "@relation"; S_ "@objectType"]);
   ("internal/check/strategies.go:createRecursiveTTUPlanKey",
    [S_ "=V2"; S_ "=TTU"; S_ "@req.GetStoreID()"; S_ "@req.GetAuthorizationModelID()";
     S_ "@tuplesetRelation"; S_ "@req.GetUserType()"; S_ "=INFINITE"]);
   ("internal/check/strategies.go:createRecursiveUsersetPlanKey",
    [S_ "=V2"; S_ "=USERSET"; S_ "@req.GetStoreID()"; S_ "@req.GetAuthorizationModelID()";
     S_ "@userset"; S_ "@req.GetUserType()"; S_ "=INFINITE"]);
   ("internal/check/strategies.go:createTTUPlanKey",
    [S_ "=V2"; S_ "=TTU"; S_ "@req.GetStoreID()"; S_ "@req.GetAuthorizationModelID()";
     S_ "@req.GetObjectType()"; S_ "@req.GetTupleKey().GetRelation()"; S_ "@req.GetUserType()";
     S_ "@tuplesetRelation"; S_ "@computedRelation"]);
   ("internal/check/strategies.go:createUsersetPlanKey",
    [S_ "=V2"; S_ "=USERSET"; S_ "@req.GetStoreID()"; S_ "@req.GetAuthorizationModelID()";
     S_ "@req.GetObjectType()"; S_ "@req.GetTupleKey().GetRelation()"; S_ "@req.GetUserType()"; S_ "@userset"]);
   ("internal/graph/check.go:checkDirectUsersetTuples",
    [S_ "=USERSET"; S_ "@req.GetStoreID()"; S_ "@req.GetAuthorizationModelID()"; S_ "@objectType";
     S_ "@relation"; S_ "@userType"; S_ "=INFINITE"; ("Reset", ""); ("Write", "@keyPlanPrefix");
     S_ "=USERSET"; S_ "@userset.String()"]);
   ("internal/graph/check.go:checkTTU",
    [S_ "=TTU"; S_ "@req.GetStoreID()"; S_ "@req.GetAuthorizationModelID()"; S_ "@objectType";
     S_ "@relation"; S_ "@userType"; S_ "@tuplesetRelation"; S_ "@computedRelation"]);
   ("internal/modelgraph/resolver.go:CacheKey", [S_ "$CacheKeyPrefix"; S_ "@storeID"; S_ "@modelID"]);
   ("pkg/storage/cache.go:ChangelogCacheKey", [S_ "$PrefixChangelogCache"; S_ "@storeID"]);
   ("pkg/storage/cache.go:CheckCacheKey",
    [S_ "$PrefixSubproblemCache"; S_ "@storeID"; S_ "@object"; S_ "@relation"; S_ "@user"; U_ "@invariant"]);
   ("pkg/storage/cache.go:InvalidIteratorByObjectRelationCacheKey",
    [S_ "$PrefixInvalidIteratorCache"; S_ "=OR"; S_ "@storeID"; S_ "@object"; S_ "@relation"]);
   ("pkg/storage/cache.go:InvalidIteratorByUserObjectTypeCacheKey",
    [S_ "$PrefixInvalidIteratorCache"; S_ "=UOT"; S_ "@storeID"; S_ "@user"; S_ "@objectType"]);
   ("pkg/storage/cache.go:InvalidIteratorCacheKey", [S_ "$PrefixInvalidIteratorCache"; S_ "@storeID"]);
   ("pkg/storage/cache.go:InvariantCacheKey",
    [S_ "@storeID"; S_ "@modelID"; ("EncodeArray", "@ts"); ("Serialize", "@value");
     ("Write", "@builder.Bytes()"); ("Sum64", "")]);
   ("pkg/storage/keys.go:ReadKey",
    [("EncodeArray", "@a[:n]"); ("Write", "@builder.Bytes()"); ("Sum64", ""); ("Reset", "");
     S_ "$PrefixIteratorCache"; S_ "=READ"; S_ "@store"; S_ "@filter.Object"; S_ "@filter.Relation";
     S_ "@filter.User"; U_ "@suffix"]);
   ("pkg/storage/keys.go:ReadStartingWithUserKey",
    [("EncodeArray", "@a[:n]"); ("EncodeArray", "@a"); ("EncodeArray", "@a[:n]");
     ("Write", "@builder.Bytes()"); ("Sum64", ""); ("Reset", "");
     S_ "$PrefixIteratorCache"; S_ "=RSWU"; S_ "@store"; S_ "@filter.ObjectType"; S_ "@filter.Relation";
     U_ "@suffix"]);
   ("pkg/storage/keys.go:ReadUsersetTuplesKey",
    [("EncodeArray", "@a[:n]"); ("EncodeArray", "@a[:n]"); ("Write", "@builder.Bytes()"); ("Sum64", "");
     ("Reset", ""); S_ "$PrefixIteratorCache"; S_ "=RUT"; S_ "@store"; S_ "@filter.Object";
     S_ "@filter.Relation"; U_ "@suffix"]);
   ("pkg/storage/storagewrappers/model_caching.go:ModelCacheKey",
    [S_ "$ModelCacheKeyPrefix"; S_ "@storeID"; S_ "@modelID"]);
   ("pkg/typesystem/resolver.go:MemoizedTypesystemResolverFunc", [S_ "=TS"; S_ "@storeID"; S_ "@modelID"])].

(* C16: the list of key constructors is read from the source; a new or changed constructor
   breaks this equality until the model covers it *)
Theorem key_sites_as_modelled : c24_key_sites = modelled_key_sites.
Proof. reflexivity. Qed.
