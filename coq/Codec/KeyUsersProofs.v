(* Key-level theorems for C24 (and the C16 / C07 corollaries): tuple arrays, InvariantCacheKey,
   the field-sequence keys, the iterator keys, and the checks that tie the modelled layouts to
   the tables generated from the Go source. *)
From Coq Require Import String.
From OFGA Require Import Base.Bytes Codec.Varint Codec.VarintProofs Codec.KeyEnc Codec.KeySortProofs
  Codec.KeyEncProofs Generated.C24Tags.
From Coq Require Import Permutation Sorted.

Local Opaque uvarint le64.

(* ------------------------------------------------------------------ tuples *)
Definition ctx_equiv (c1 c2 : fields) : Prop := pb_equiv (PStruct c1) (PStruct c2).

Definition tuple_equiv (a b : tkey) : Prop :=
  tk_obj a = tk_obj b /\ tk_rel a = tk_rel b /\ tk_user a = tk_user b /\
  match tk_cond a, tk_cond b with
  | None, None => True
  | Some (n1, c1), Some (n2, c2) => n1 = n2 /\ ctx_equiv c1 c2
  | _, _ => False
  end.

Definition not_string_start (r : bytes) : Prop :=
  match r with [] => True | x :: _ => x <> c24_tagString end.

Lemma enc_string_cons s : exists tl, enc_string s = c24_tagString :: tl.
Proof. unfold enc_string. eexists. reflexivity. Qed.

Lemma pb_struct_cons c : exists tl, pb_write (PStruct c) = c24_tagMap :: tl.
Proof. rewrite pb_write_eq_rec, enc_pb_struct. unfold enc_map_hdr. eexists. reflexivity. Qed.

Lemma enc_string_starts s r : not_string_start (enc_string s ++ r) -> False.
Proof. destruct (enc_string_cons s) as [tl ->]. simpl. intro H. apply H. reflexivity. Qed.

Lemma pb_write_struct_start c r : not_string_start (pb_write (PStruct c) ++ r).
Proof. destruct (pb_struct_cons c) as [tl ->]. simpl. untag. discriminate. Qed.

Lemma string_vs_struct s c r1 r2 : enc_string s ++ r1 = pb_write (PStruct c) ++ r2 -> False.
Proof.
  destruct (enc_string_cons s) as [t1 ->]. destruct (pb_struct_cons c) as [t2 ->].
  rewrite <- !app_comm_cons. intro H. apply cons_eq_inv in H as [H _]. untag. discriminate.
Qed.

Lemma tk_wf_some t n c : tk_cond t = Some (n, c) -> tk_wf t = true -> pb_wf (PStruct c) = true.
Proof. unfold tk_wf. intros ->. auto. Qed.

Definition cond_bytes (t : tkey) : bytes :=
  match tk_cond t with None => [] | Some (n, ctx) => enc_string n ++ pb_write (PStruct ctx) end.

Lemma enc_tuple_unfold t :
  enc_tuple t = enc_string (tk_obj t) ++ enc_string (tk_rel t) ++ enc_string (tk_user t) ++ cond_bytes t.
Proof. reflexivity. Qed.

Lemma flat_map_cons {A B} (f : A -> list B) a l : flat_map f (a :: l) = f a ++ flat_map f l.
Proof. reflexivity. Qed.

(* tuple_array_inj: the 3-or-5-field layout is uniquely decodable inside a counted array,
   provided what follows the array does not start with a string tag *)
Theorem enc_tuples_pf ts1 : forall ts2 r1 r2,
  length ts1 = length ts2 ->
  Forall (fun t => tk_wf t = true) ts1 -> Forall (fun t => tk_wf t = true) ts2 ->
  not_string_start r1 -> not_string_start r2 ->
  flat_map enc_tuple ts1 ++ r1 = flat_map enc_tuple ts2 ++ r2 ->
  Forall2 tuple_equiv ts1 ts2 /\ r1 = r2.
Proof.
  induction ts1 as [|a ts1 IH]; intros [|b ts2] r1 r2 Hl W1 W2 N1 N2 H; simpl in Hl; try discriminate.
  - simpl in H. split; [constructor|exact H].
  - inversion W1 as [|? ? Wa W1']; subst. inversion W2 as [|? ? Wb W2']; subst.
    rewrite !flat_map_cons, !enc_tuple_unfold, <- !app_assoc in H.
    apply enc_string_pf in H as [Eo H]. apply enc_string_pf in H as [Er H].
    apply enc_string_pf in H as [Eu H].
    unfold cond_bytes in H.
    destruct (tk_cond a) as [[n1 c1]|] eqn:Ca, (tk_cond b) as [[n2 c2]|] eqn:Cb.
    + rewrite <- !app_assoc in H. apply enc_string_pf in H as [En H].
      rewrite !pb_write_eq_rec in H.
      apply enc_pb_pf in H as [Ec H];
        [|eapply tk_wf_some; eassumption|eapply tk_wf_some; eassumption].
      destruct (IH ts2 r1 r2) as [Hf Hr]; try assumption; [lia|].
      split; [|exact Hr]. constructor; [|exact Hf].
      unfold tuple_equiv. rewrite Ca, Cb. auto.
    + (* a carries a condition, b does not: b's successor would have to supply "name, map" *)
      exfalso. rewrite <- !app_assoc in H. rewrite app_nil_l in H.
      destruct ts2 as [|b' ts2].
      * simpl in H. rewrite <- H in N2. apply enc_string_starts in N2. exact N2.
      * rewrite flat_map_cons, enc_tuple_unfold, <- !app_assoc in H.
        apply enc_string_pf in H as [_ H]. symmetry in H. apply string_vs_struct in H. exact H.
    + exfalso. rewrite <- !app_assoc in H. rewrite app_nil_l in H.
      destruct ts1 as [|a' ts1].
      * simpl in H. rewrite H in N1. apply enc_string_starts in N1. exact N1.
      * rewrite flat_map_cons, enc_tuple_unfold, <- !app_assoc in H.
        apply enc_string_pf in H as [_ H]. apply string_vs_struct in H. exact H.
    + rewrite !app_nil_l in H.
      destruct (IH ts2 r1 r2) as [Hf Hr]; try assumption; [lia|].
      split; [|exact Hr]. constructor; [|exact Hf].
      unfold tuple_equiv. rewrite Ca, Cb. auto.
Qed.

(* the hypothesis on the follower is necessary: a string then a map after the array is ambiguous *)
Example tuple_array_needs_follower_condition :
  exists t1 t2 r1 r2, t1 <> t2 /\ enc_tuple t1 ++ r1 = enc_tuple t2 ++ r2.
Proof.
  exists (mk_tkey [111] [114] [117] None), (mk_tkey [111] [114] [117] (Some ([110], []))),
         (enc_string [110] ++ pb_write (PStruct [])), [].
  split; [discriminate|]. vm_compute. reflexivity.
Qed.

(* ------------------------------------------------------------------ TupleKeys.Less as a lexicographic comparison *)
Definition lexc (c1 c2 : comparison) : comparison := match c1 with Eq => c2 | _ => c1 end.

Definition skey (t : tkey) : bytes * bytes * bytes * bytes := (tk_obj t, tk_rel t, tk_user t, cond_name t).

Definition cmp4 (x y : bytes * bytes * bytes * bytes) : comparison :=
  match x, y with
  | (o1, r1, u1, n1), (o2, r2, u2, n2) =>
      lexc (bcmp o1 o2) (lexc (bcmp r1 r2) (lexc (bcmp u1 u2) (bcmp n1 n2)))
  end.

Definition le4 (x y : bytes * bytes * bytes * bytes) : Prop := cmp4 x y <> Gt.

Lemma beqb_bcmp a b : beqb a b = match bcmp a b with Eq => true | _ => false end.
Proof.
  destruct (bcmp a b) eqn:E.
  - apply bcmp_eq in E. subst. apply beqb_refl.
  - destruct (beqb a b) eqn:B; [|reflexivity]. apply beqb_eq in B. subst. rewrite bcmp_refl in E. discriminate.
  - destruct (beqb a b) eqn:B; [|reflexivity]. apply beqb_eq in B. subst. rewrite bcmp_refl in E. discriminate.
Qed.

Lemma no_cond_names a b : has_cond a || has_cond b = false -> cond_name a = cond_name b.
Proof.
  unfold has_cond, cond_name. destruct (tk_cond a) as [[? ?]|], (tk_cond b) as [[? ?]|]; simpl;
    intro H; try discriminate; reflexivity.
Qed.

Lemma tk_less_cmp4 a b :
  tk_less a b = match cmp4 (skey a) (skey b) with Gt => false | _ => true end.
Proof.
  unfold tk_less, skey, cmp4. rewrite !beqb_bcmp. unfold bltb.
  destruct (bcmp (tk_obj a) (tk_obj b)); simpl; try reflexivity.
  destruct (bcmp (tk_rel a) (tk_rel b)); simpl; try reflexivity.
  destruct (bcmp (tk_user a) (tk_user b)); simpl; try reflexivity.
  destruct (has_cond a || has_cond b) eqn:Hc; simpl.
  - destruct (bcmp (cond_name a) (cond_name b)); reflexivity.
  - apply no_cond_names in Hc. rewrite Hc, bcmp_refl. reflexivity.
Qed.

Lemma bcmp_le_trans x y z : bcmp x y <> Gt -> bcmp y z <> Gt -> bcmp x z <> Gt.
Proof.
  intros H1 H2 H3.
  assert (L1 : ble x y). { unfold ble, bltb. rewrite bcmp_antisym. destruct (bcmp x y); simpl; congruence. }
  assert (L2 : ble y z). { unfold ble, bltb. rewrite bcmp_antisym. destruct (bcmp y z); simpl; congruence. }
  assert (L3 := ble_trans _ _ _ L1 L2). unfold ble, bltb in L3. rewrite bcmp_antisym, H3 in L3. discriminate.
Qed.

Lemma lexc_le_trans x y z cxy cyz cxz :
  (cxy <> Gt -> cyz <> Gt -> cxz <> Gt) ->
  lexc (bcmp x y) cxy <> Gt -> lexc (bcmp y z) cyz <> Gt -> lexc (bcmp x z) cxz <> Gt.
Proof.
  intros Ht H1 H2. unfold lexc in *.
  destruct (bcmp x y) eqn:E1; try congruence.
  - apply bcmp_eq in E1. subst y.
    destruct (bcmp x z) eqn:E2; try congruence. auto.
  - destruct (bcmp y z) eqn:E2; try congruence.
    + apply bcmp_eq in E2. subst z. rewrite E1. discriminate.
    + rewrite (bcmp_lt_trans _ _ _ E1 E2). discriminate.
Qed.

Lemma le4_trans x y z : le4 x y -> le4 y z -> le4 x z.
Proof.
  destruct x as [[[o1 r1] u1] n1], y as [[[o2 r2] u2] n2], z as [[[o3 r3] u3] n3].
  unfold le4, cmp4. apply lexc_le_trans. apply lexc_le_trans. apply lexc_le_trans. apply bcmp_le_trans.
Qed.

Lemma cmp4_antisym x y : cmp4 y x = CompOpp (cmp4 x y).
Proof.
  destruct x as [[[o1 r1] u1] n1], y as [[[o2 r2] u2] n2]. unfold cmp4, lexc.
  rewrite (bcmp_antisym o1 o2), (bcmp_antisym r1 r2), (bcmp_antisym u1 u2), (bcmp_antisym n1 n2).
  destruct (bcmp o1 o2), (bcmp r1 r2), (bcmp u1 u2), (bcmp n1 n2); reflexivity.
Qed.

Lemma cmp4_eq x y : cmp4 x y = Eq -> x = y.
Proof.
  destruct x as [[[o1 r1] u1] n1], y as [[[o2 r2] u2] n2]. unfold cmp4, lexc.
  destruct (bcmp o1 o2) eqn:E1; try discriminate.
  destruct (bcmp r1 r2) eqn:E2; try discriminate.
  destruct (bcmp u1 u2) eqn:E3; try discriminate.
  intro E4. apply bcmp_eq in E1, E2, E3, E4. subst. reflexivity.
Qed.

Lemma le4_antisym x y : le4 x y -> le4 y x -> x = y.
Proof.
  unfold le4. intros H1 H2. rewrite cmp4_antisym in H2. apply cmp4_eq.
  destruct (cmp4 x y); simpl in *; congruence.
Qed.

Lemma le4_total x y : ~ le4 x y -> le4 y x.
Proof.
  unfold le4. intros H. rewrite cmp4_antisym. destruct (cmp4 x y); simpl; try discriminate.
  exfalso. apply H. discriminate.
Qed.

Definition tk_le (a b : tkey) : Prop := le4 (skey a) (skey b).

Lemma tk_less_le a b : tk_less a b = true <-> tk_le a b.
Proof.
  rewrite tk_less_cmp4. unfold tk_le, le4. destruct (cmp4 (skey a) (skey b)); split; intro H;
    try reflexivity; try discriminate; congruence.
Qed.

Lemma tk_tie_skey a b : tk_tie a b = true <-> skey a = skey b.
Proof.
  unfold tk_tie. rewrite andb_true_iff, !tk_less_le. split.
  - intros [H1 H2]. apply le4_antisym; assumption.
  - intro E. unfold tk_le. rewrite E. split; unfold le4;
      (assert (cmp4 (skey b) (skey b) = Eq) as ->; [|discriminate]);
      destruct (skey b) as [[[o r] u] n]; unfold cmp4; rewrite !bcmp_refl; reflexivity.
Qed.

(* sort.Sort's result with this Less is a sorted permutation (insertion-sort range) *)
Lemma sort_tuples_perm l : Permutation (sort_tuples l) l.
Proof. apply go_isort_perm. Qed.

Lemma sort_tuples_sorted l : StronglySorted tk_le (sort_tuples l).
Proof.
  apply go_isort_sorted.
  - intros x y H. apply tk_less_le. exact H.
  - intros x y H. apply le4_total. intro G. apply tk_less_le in G. congruence.
  - intros x y z. apply le4_trans.
Qed.

(* Less is not a strict order: it answers true in both directions on tied tuples *)
Example tk_less_not_strict : exists t, tk_less t t = true.
Proof. exists (mk_tkey [] [] [] None). reflexivity. Qed.
