(* Key-level theorems for C24 (and the C16 / C07 corollaries): tuple arrays, InvariantCacheKey,
   the field-sequence keys, the iterator keys, and the checks that tie the modelled layouts to
   the tables generated from the Go source. *)
From Coq Require Import String.
From OFGA Require Import Base.Bytes Codec.Varint Codec.VarintProofs Codec.KeyEnc Codec.KeySortProofs
  Codec.KeyEncProofs Generated.C24Tags.
From Coq Require Import Permutation Sorted.

Local Opaque uvarint le64.

(* ------------------------------------------------------------------ tuples *)
Definition ctx_equiv (c1 c2 : fields) : Prop := pb_equiv (PStruct c1) (PStruct c2).

Definition tuple_equiv (a b : tkey) : Prop :=
  tk_obj a = tk_obj b /\ tk_rel a = tk_rel b /\ tk_user a = tk_user b /\
  match tk_cond a, tk_cond b with
  | None, None => True
  | Some (n1, c1), Some (n2, c2) => n1 = n2 /\ ctx_equiv c1 c2
  | _, _ => False
  end.

Definition not_string_start (r : bytes) : Prop :=
  match r with [] => True | x :: _ => x <> c24_tagString end.

Lemma enc_string_cons s : exists tl, enc_string s = c24_tagString :: tl.
Proof. unfold enc_string. eexists. reflexivity. Qed.

Lemma pb_struct_cons c : exists tl, pb_write (PStruct c) = c24_tagMap :: tl.
Proof. rewrite pb_write_eq_rec, enc_pb_struct. unfold enc_map_hdr. eexists. reflexivity. Qed.

Lemma enc_string_starts s r : not_string_start (enc_string s ++ r) -> False.
Proof. destruct (enc_string_cons s) as [tl ->]. simpl. intro H. apply H. reflexivity. Qed.

Lemma pb_write_struct_start c r : not_string_start (pb_write (PStruct c) ++ r).
Proof. destruct (pb_struct_cons c) as [tl ->]. simpl. untag. discriminate. Qed.

Lemma string_vs_struct s c r1 r2 : enc_string s ++ r1 = pb_write (PStruct c) ++ r2 -> False.
Proof.
  destruct (enc_string_cons s) as [t1 ->]. destruct (pb_struct_cons c) as [t2 ->].
  rewrite <- !app_comm_cons. intro H. apply cons_eq_inv in H as [H _]. untag. discriminate.
Qed.

Lemma tk_wf_some t n c : tk_cond t = Some (n, c) -> tk_wf t = true -> pb_wf (PStruct c) = true.
Proof. unfold tk_wf. intros ->. auto. Qed.

Definition cond_bytes (t : tkey) : bytes :=
  match tk_cond t with None => [] | Some (n, ctx) => enc_string n ++ pb_write (PStruct ctx) end.

Lemma enc_tuple_unfold t :
  enc_tuple t = enc_string (tk_obj t) ++ enc_string (tk_rel t) ++ enc_string (tk_user t) ++ cond_bytes t.
Proof. reflexivity. Qed.

Lemma flat_map_cons {A B} (f : A -> list B) a l : flat_map f (a :: l) = f a ++ flat_map f l.
Proof. reflexivity. Qed.

(* tuple_array_inj: the 3-or-5-field layout is uniquely decodable inside a counted array,
   provided what follows the array does not start with a string tag *)
Theorem enc_tuples_pf ts1 : forall ts2 r1 r2,
  length ts1 = length ts2 ->
  Forall (fun t => tk_wf t = true) ts1 -> Forall (fun t => tk_wf t = true) ts2 ->
  not_string_start r1 -> not_string_start r2 ->
  flat_map enc_tuple ts1 ++ r1 = flat_map enc_tuple ts2 ++ r2 ->
  Forall2 tuple_equiv ts1 ts2 /\ r1 = r2.
Proof.
  induction ts1 as [|a ts1 IH]; intros [|b ts2] r1 r2 Hl W1 W2 N1 N2 H; simpl in Hl; try discriminate.
  - simpl in H. split; [constructor|exact H].
  - inversion W1 as [|? ? Wa W1']; subst. inversion W2 as [|? ? Wb W2']; subst.
    rewrite !flat_map_cons, !enc_tuple_unfold, <- !app_assoc in H.
    apply enc_string_pf in H as [Eo H]. apply enc_string_pf in H as [Er H].
    apply enc_string_pf in H as [Eu H].
    unfold cond_bytes in H.
    destruct (tk_cond a) as [[n1 c1]|] eqn:Ca, (tk_cond b) as [[n2 c2]|] eqn:Cb.
    + rewrite <- !app_assoc in H. apply enc_string_pf in H as [En H].
      rewrite !pb_write_eq_rec in H.
      apply enc_pb_pf in H as [Ec H];
        [|eapply tk_wf_some; eassumption|eapply tk_wf_some; eassumption].
      destruct (IH ts2 r1 r2) as [Hf Hr]; try assumption; [lia|].
      split; [|exact Hr]. constructor; [|exact Hf].
      unfold tuple_equiv. rewrite Ca, Cb. auto.
    + (* a carries a condition, b does not: b's successor would have to supply "name, map" *)
      exfalso. rewrite <- !app_assoc in H. rewrite app_nil_l in H.
      destruct ts2 as [|b' ts2].
      * simpl in H. rewrite <- H in N2. apply enc_string_starts in N2. exact N2.
      * rewrite flat_map_cons, enc_tuple_unfold, <- !app_assoc in H.
        apply enc_string_pf in H as [_ H]. symmetry in H. apply string_vs_struct in H. exact H.
    + exfalso. rewrite <- !app_assoc in H. rewrite app_nil_l in H.
      destruct ts1 as [|a' ts1].
      * simpl in H. rewrite H in N1. apply enc_string_starts in N1. exact N1.
      * rewrite flat_map_cons, enc_tuple_unfold, <- !app_assoc in H.
        apply enc_string_pf in H as [_ H]. apply string_vs_struct in H. exact H.
    + rewrite !app_nil_l in H.
      destruct (IH ts2 r1 r2) as [Hf Hr]; try assumption; [lia|].
      split; [|exact Hr]. constructor; [|exact Hf].
      unfold tuple_equiv. rewrite Ca, Cb. auto.
Qed.

(* the hypothesis on the follower is necessary: a string then a map after the array is ambiguous *)
Example tuple_array_needs_follower_condition :
  exists t1 t2 r1 r2, t1 <> t2 /\ enc_tuple t1 ++ r1 = enc_tuple t2 ++ r2.
Proof.
  exists (mk_tkey [111] [114] [117] None), (mk_tkey [111] [114] [117] (Some ([110], []))),
         (enc_string [110] ++ pb_write (PStruct [])), [].
  split; [discriminate|]. vm_compute. reflexivity.
Qed.

(* ------------------------------------------------------------------ TupleKeys.Less as a lexicographic comparison *)
Definition lexc (c1 c2 : comparison) : comparison := match c1 with Eq => c2 | _ => c1 end.

Definition skey (t : tkey) : bytes * bytes * bytes * bytes := (tk_obj t, tk_rel t, tk_user t, cond_name t).

Definition cmp4 (x y : bytes * bytes * bytes * bytes) : comparison :=
  match x, y with
  | (o1, r1, u1, n1), (o2, r2, u2, n2) =>
      lexc (bcmp o1 o2) (lexc (bcmp r1 r2) (lexc (bcmp u1 u2) (bcmp n1 n2)))
  end.

Definition le4 (x y : bytes * bytes * bytes * bytes) : Prop := cmp4 x y <> Gt.

Lemma beqb_bcmp a b : beqb a b = match bcmp a b with Eq => true | _ => false end.
Proof.
  destruct (bcmp a b) eqn:E.
  - apply bcmp_eq in E. subst. apply beqb_refl.
  - destruct (beqb a b) eqn:B; [|reflexivity]. apply beqb_eq in B. subst. rewrite bcmp_refl in E. discriminate.
  - destruct (beqb a b) eqn:B; [|reflexivity]. apply beqb_eq in B. subst. rewrite bcmp_refl in E. discriminate.
Qed.

Lemma no_cond_names a b : has_cond a || has_cond b = false -> cond_name a = cond_name b.
Proof.
  unfold has_cond, cond_name. destruct (tk_cond a) as [[? ?]|], (tk_cond b) as [[? ?]|]; simpl;
    intro H; try discriminate; reflexivity.
Qed.

Lemma tk_less_cmp4 a b :
  tk_less a b = match cmp4 (skey a) (skey b) with Gt => false | _ => true end.
Proof.
  unfold tk_less, skey, cmp4. rewrite !beqb_bcmp. unfold bltb.
  destruct (bcmp (tk_obj a) (tk_obj b)); simpl; try reflexivity.
  destruct (bcmp (tk_rel a) (tk_rel b)); simpl; try reflexivity.
  destruct (bcmp (tk_user a) (tk_user b)); simpl; try reflexivity.
  destruct (has_cond a || has_cond b) eqn:Hc; simpl.
  - destruct (bcmp (cond_name a) (cond_name b)); reflexivity.
  - apply no_cond_names in Hc. rewrite Hc, bcmp_refl. reflexivity.
Qed.

Lemma bcmp_le_trans x y z : bcmp x y <> Gt -> bcmp y z <> Gt -> bcmp x z <> Gt.
Proof.
  intros H1 H2 H3.
  assert (L1 : ble x y). { unfold ble, bltb. rewrite bcmp_antisym. destruct (bcmp x y); simpl; congruence. }
  assert (L2 : ble y z). { unfold ble, bltb. rewrite bcmp_antisym. destruct (bcmp y z); simpl; congruence. }
  assert (L3 := ble_trans _ _ _ L1 L2). unfold ble, bltb in L3. rewrite bcmp_antisym, H3 in L3. discriminate.
Qed.

Lemma lexc_le_trans x y z cxy cyz cxz :
  (cxy <> Gt -> cyz <> Gt -> cxz <> Gt) ->
  lexc (bcmp x y) cxy <> Gt -> lexc (bcmp y z) cyz <> Gt -> lexc (bcmp x z) cxz <> Gt.
Proof.
  intros Ht H1 H2. unfold lexc in *.
  destruct (bcmp x y) eqn:E1; try congruence.
  - apply bcmp_eq in E1. subst y.
    destruct (bcmp x z) eqn:E2; try congruence. auto.
  - destruct (bcmp y z) eqn:E2; try congruence.
    + apply bcmp_eq in E2. subst z. rewrite E1. discriminate.
    + rewrite (bcmp_lt_trans _ _ _ E1 E2). discriminate.
Qed.

Lemma le4_trans x y z : le4 x y -> le4 y z -> le4 x z.
Proof.
  destruct x as [[[o1 r1] u1] n1], y as [[[o2 r2] u2] n2], z as [[[o3 r3] u3] n3].
  unfold le4, cmp4. apply lexc_le_trans. apply lexc_le_trans. apply lexc_le_trans. apply bcmp_le_trans.
Qed.

Lemma cmp4_antisym x y : cmp4 y x = CompOpp (cmp4 x y).
Proof.
  destruct x as [[[o1 r1] u1] n1], y as [[[o2 r2] u2] n2]. unfold cmp4, lexc.
  rewrite (bcmp_antisym o1 o2), (bcmp_antisym r1 r2), (bcmp_antisym u1 u2), (bcmp_antisym n1 n2).
  destruct (bcmp o1 o2), (bcmp r1 r2), (bcmp u1 u2), (bcmp n1 n2); reflexivity.
Qed.

Lemma cmp4_eq x y : cmp4 x y = Eq -> x = y.
Proof.
  destruct x as [[[o1 r1] u1] n1], y as [[[o2 r2] u2] n2]. unfold cmp4, lexc.
  destruct (bcmp o1 o2) eqn:E1; try discriminate.
  destruct (bcmp r1 r2) eqn:E2; try discriminate.
  destruct (bcmp u1 u2) eqn:E3; try discriminate.
  intro E4. apply bcmp_eq in E1, E2, E3, E4. subst. reflexivity.
Qed.

Lemma le4_antisym x y : le4 x y -> le4 y x -> x = y.
Proof.
  unfold le4. intros H1 H2. rewrite cmp4_antisym in H2. apply cmp4_eq.
  destruct (cmp4 x y); simpl in *; congruence.
Qed.

Lemma le4_total x y : ~ le4 x y -> le4 y x.
Proof.
  unfold le4. intros H. rewrite cmp4_antisym. destruct (cmp4 x y); simpl; try discriminate.
  exfalso. apply H. discriminate.
Qed.

Definition tk_le (a b : tkey) : Prop := le4 (skey a) (skey b).

Lemma tk_less_le a b : tk_less a b = true <-> tk_le a b.
Proof.
  rewrite tk_less_cmp4. unfold tk_le, le4. destruct (cmp4 (skey a) (skey b)); split; intro H;
    try reflexivity; try discriminate; congruence.
Qed.

Lemma tk_tie_skey a b : tk_tie a b = true <-> skey a = skey b.
Proof.
  unfold tk_tie. rewrite andb_true_iff, !tk_less_le. split.
  - intros [H1 H2]. apply le4_antisym; assumption.
  - intro E. unfold tk_le. rewrite E. split; unfold le4;
      (assert (cmp4 (skey b) (skey b) = Eq) as ->; [|discriminate]);
      destruct (skey b) as [[[o r] u] n]; unfold cmp4; rewrite !bcmp_refl; reflexivity.
Qed.

(* sort.Sort's result with this Less is a sorted permutation (insertion-sort range) *)
Lemma sort_tuples_perm l : Permutation (sort_tuples l) l.
Proof. apply go_isort_perm. Qed.

Lemma sort_tuples_sorted l : StronglySorted tk_le (sort_tuples l).
Proof.
  apply go_isort_sorted.
  - intros x y H. apply tk_less_le. exact H.
  - intros x y H. apply le4_total. intro G. apply tk_less_le in G. congruence.
  - intros x y z. apply le4_trans.
Qed.

(* Less is not a strict order: it answers true in both directions on tied tuples *)
Example tk_less_not_strict : exists t, tk_less t t = true.
Proof. exists (mk_tkey [] [] [] None). reflexivity. Qed.

(* ------------------------------------------------------------------ InvariantCacheKey *)
Definition tuples_equiv (ts1 ts2 : list tkey) : Prop :=
  exists ts1', Permutation ts1 ts1' /\ Forall2 tuple_equiv ts1' ts2.

Lemma Forall2_perm_r {A B} (R : A -> B -> Prop) l1 l2 l2' :
  Forall2 R l1 l2 -> Permutation l2 l2' -> exists l1', Permutation l1 l1' /\ Forall2 R l1' l2'.
Proof.
  intros Hf HP. revert l1 Hf. induction HP as [|y l2 l2' HP IH|x y l2|l2 l2' l2'' HP1 IH1 HP2 IH2]; intros l1 Hf.
  - inversion Hf; subst. exists []. split; [reflexivity|constructor].
  - inversion Hf as [|a ? l1t ? Ha Hf']; subst.
    destruct (IH l1t Hf') as [l1' [P F]]. exists (a :: l1'). split; [constructor; exact P|constructor; assumption].
  - inversion Hf as [|a ? l1t ? Ha Hf']; subst. inversion Hf' as [|b ? l1tt ? Hb Hf'']; subst.
    exists (b :: a :: l1tt). split; [apply perm_swap|]. constructor; [exact Hb|]. constructor; assumption.
  - destruct (IH1 l1 Hf) as [m [P1 F1]]. destruct (IH2 m F1) as [m' [P2 F2]].
    exists m'. split; [eapply Permutation_trans; eassumption|exact F2].
Qed.

Lemma Forall2_len {A B} (R : A -> B -> Prop) l1 l2 : Forall2 R l1 l2 -> length l1 = length l2.
Proof. induction 1; simpl; congruence. Qed.

Definition inv_wf (ctx : fields) (ts : list tkey) : bool :=
  pb_wf (PStruct ctx) && forallb tk_wf ts.
Definition inv_keys_unique (ctx : fields) (ts : list tkey) : bool :=
  pb_keys_unique (PStruct ctx) && forallb tk_keys_unique ts.

Section AnySort.
  (* "=>" needs only that the sort returns a permutation: it holds for pdqsort as well *)
  Variable srt : list tkey -> list tkey.
  Hypothesis srt_perm : forall l, Permutation (srt l) l.

  Definition inv_bytes_with (store model : bytes) (ctx : fields) (tuples : list tkey) : bytes :=
    enc_string store ++ enc_string model ++
    enc_array_hdr (length tuples) ++ flat_map enc_tuple (srt tuples) ++ pb_write (PStruct ctx).

  Theorem inv_bytes_with_inj s1 m1 c1 ts1 s2 m2 c2 ts2 :
    inv_wf c1 ts1 = true -> inv_wf c2 ts2 = true ->
    inv_bytes_with s1 m1 c1 ts1 = inv_bytes_with s2 m2 c2 ts2 ->
    s1 = s2 /\ m1 = m2 /\ ctx_equiv c1 c2 /\ tuples_equiv ts1 ts2.
  Proof.
    unfold inv_wf, inv_bytes_with. intros W1 W2 H.
    apply andb_true_iff in W1 as [Wc1 Wt1]. apply andb_true_iff in W2 as [Wc2 Wt2].
    apply enc_string_pf in H as [-> H]. apply enc_string_pf in H as [-> H].
    apply enc_array_hdr_pf in H as [Hn H].
    assert (F1 : Forall (fun t => tk_wf t = true) (srt ts1)).
    { rewrite Forall_forall. rewrite forallb_forall in Wt1. intros t Ht. apply Wt1.
      eapply Permutation_in; [apply srt_perm|exact Ht]. }
    assert (F2 : Forall (fun t => tk_wf t = true) (srt ts2)).
    { rewrite Forall_forall. rewrite forallb_forall in Wt2. intros t Ht. apply Wt2.
      eapply Permutation_in; [apply srt_perm|exact Ht]. }
    rewrite <- (app_nil_r (pb_write (PStruct c1))), <- (app_nil_r (pb_write (PStruct c2))) in H.
    rewrite !app_assoc in H. rewrite <- !(app_assoc (flat_map enc_tuple _)) in H.
    apply enc_tuples_pf in H; try assumption.
    - destruct H as [Hf Hc]. rewrite !app_nil_r, !pb_write_eq_rec in Hc.
      split; [reflexivity|]. split; [reflexivity|]. split.
      + apply enc_pb_inj; assumption.
      + destruct (Forall2_perm_r _ _ _ _ Hf (srt_perm ts2)) as [l1' [P F]].
        exists l1'. split; [|exact F]. eapply Permutation_trans; [apply Permutation_sym, srt_perm|exact P].
    - rewrite (Permutation_length (srt_perm ts1)), (Permutation_length (srt_perm ts2)). exact Hn.
    - apply pb_write_struct_start.
    - apply pb_write_struct_start.
  Qed.
End AnySort.

Lemma inv_bytes_is_with store model ctx ts :
  inv_bytes store model ctx ts = inv_bytes_with sort_tuples store model ctx ts.
Proof. reflexivity. Qed.

(* invariant_key_sem, "=>": equal pre-hash bytes only for semantically equal inputs *)
Theorem invariant_key_inj s1 m1 c1 ts1 s2 m2 c2 ts2 :
  inv_wf c1 ts1 = true -> inv_wf c2 ts2 = true ->
  inv_bytes s1 m1 c1 ts1 = inv_bytes s2 m2 c2 ts2 ->
  s1 = s2 /\ m1 = m2 /\ ctx_equiv c1 c2 /\ tuples_equiv ts1 ts2.
Proof. rewrite !inv_bytes_is_with. apply inv_bytes_with_inj. apply sort_tuples_perm. Qed.

(* ---- "<=": canonicity, when tied tuples are identical *)
Definition ekey (t : tkey) : (bytes * bytes * bytes * bytes) * bytes := (skey t, enc_tuple t).
Definition eless (x y : (bytes * bytes * bytes * bytes) * bytes) : bool :=
  match cmp4 (fst x) (fst y) with Gt => false | _ => true end.
Definition ele (x y : (bytes * bytes * bytes * bytes) * bytes) : Prop := le4 (fst x) (fst y).

Lemma tie_free_spec l : tie_free l = true ->
  forall a b, In a l -> In b l -> tk_tie a b = true -> enc_tuple a = enc_tuple b.
Proof.
  induction l as [|x l IH]; simpl; intros H a b Ha Hb Ht; [contradiction|].
  apply andb_true_iff in H as [H1 H2]. rewrite forallb_forall in H1.
  destruct Ha as [->|Ha], Hb as [->|Hb].
  - reflexivity.
  - specialize (H1 b Hb). rewrite Ht in H1. simpl in H1. apply beqb_eq. exact H1.
  - assert (Ht' : tk_tie b a = true) by (unfold tk_tie in *; rewrite andb_comm; exact Ht).
    specialize (H1 a Ha). rewrite Ht' in H1. simpl in H1. symmetry. apply beqb_eq. exact H1.
  - apply IH; assumption.
Qed.

Lemma tuple_equiv_ekey a b :
  tuple_equiv a b -> tk_keys_unique a = true -> ekey a = ekey b.
Proof.
  unfold tuple_equiv, ekey, skey, tk_keys_unique, cond_name. rewrite !enc_tuple_unfold. unfold cond_bytes.
  intros [Eo [Er [Eu Ec]]] U. rewrite Eo, Er, Eu.
  destruct (tk_cond a) as [[n1 c1]|], (tk_cond b) as [[n2 c2]|]; try contradiction.
  - destruct Ec as [-> Ec]. rewrite !pb_write_eq_rec. rewrite (enc_pb_equiv _ _ Ec U). reflexivity.
  - reflexivity.
Qed.

Lemma sort_tuples_enc l :
  flat_map enc_tuple (sort_tuples l) = flat_map snd (go_isort eless (map ekey l)).
Proof.
  unfold sort_tuples. rewrite <- (go_isort_map ekey tk_less eless).
  - rewrite flat_map_map. reflexivity.
  - intros a b. unfold eless, ekey. simpl. symmetry. apply tk_less_cmp4.
Qed.

Theorem invariant_key_canonical s m c1 ts1 c2 ts2 :
  inv_keys_unique c1 ts1 = true -> tie_free ts1 = true ->
  ctx_equiv c1 c2 -> tuples_equiv ts1 ts2 ->
  inv_bytes s m c1 ts1 = inv_bytes s m c2 ts2.
Proof.
  unfold inv_keys_unique. intros U TF Ec [ts1' [P F]].
  apply andb_true_iff in U as [Uc Ut]. rewrite forallb_forall in Ut.
  unfold inv_bytes.
  assert (Hlen : length ts1 = length ts2).
  { rewrite (Permutation_length P). eapply Forall2_len. exact F. }
  assert (Hm : map ekey ts1' = map ekey ts2).
  { assert (Ut' : forall t, In t ts1' -> tk_keys_unique t = true).
    { intros t Ht. apply Ut. eapply Permutation_in; [apply Permutation_sym; exact P|exact Ht]. }
    clear P Hlen. revert Ut'. induction F as [|a b l1 l2 Hab F IH]; intro Ut'; simpl; [reflexivity|].
    rewrite IH.
    - f_equal. apply tuple_equiv_ekey; [exact Hab|apply Ut'; left; reflexivity].
    - intros t Ht. apply Ut'. right. exact Ht. }
  assert (HP : Permutation (map ekey ts1) (map ekey ts2)).
  { rewrite <- Hm. apply Permutation_map. exact P. }
  assert (Hs : go_isort eless (map ekey ts1) = go_isort eless (map ekey ts2)).
  { apply (go_isort_unique eless ele).
    - intros x y H. unfold eless in H. unfold ele, le4. destruct (cmp4 (fst x) (fst y)); congruence.
    - intros x y H. unfold eless in H. apply le4_total. unfold le4.
      destruct (cmp4 (fst x) (fst y)); try discriminate. intro G. apply G. reflexivity.
    - intros x y z. apply le4_trans.
    - exact HP.
    - intros x y Hx Hy H1 H2.
      apply in_map_iff in Hx as [a [<- Ha]]. apply in_map_iff in Hy as [b [<- Hb]].
      unfold ele, ekey in *. simpl in *.
      assert (Es : skey a = skey b) by (apply le4_antisym; assumption).
      rewrite Es. f_equal. apply (tie_free_spec ts1 TF a b Ha Hb). apply tk_tie_skey. exact Es. }
  rewrite !sort_tuples_enc, !pb_write_eq_rec, Hlen, Hs.
  rewrite (enc_pb_equiv _ _ Ec Uc). reflexivity.
Qed.

(* the same bytes for ANY sorted permutation, e.g. the one Go's pdqsort returns for more than
   12 tuples, when tied tuples encode identically *)
Theorem inv_bytes_any_sort s m c ts sorted :
  Permutation sorted ts -> StronglySorted tk_le sorted -> tie_free ts = true ->
  flat_map enc_tuple sorted = flat_map enc_tuple (sort_tuples ts).
Proof.
  intros P S TF.
  assert (E : map ekey sorted = go_isort eless (map ekey ts)).
  { apply (go_isort_any_sorted eless ele).
    - intros x y H. unfold eless in H. unfold ele, le4. destruct (cmp4 (fst x) (fst y)); congruence.
    - intros x y H. unfold eless in H. apply le4_total. unfold le4.
      destruct (cmp4 (fst x) (fst y)); try discriminate. intro G. apply G. reflexivity.
    - intros x y z. apply le4_trans.
    - apply Permutation_map. exact P.
    - clear P TF. induction S as [|a l S IH Hall]; simpl; constructor; [exact IH|].
      rewrite Forall_forall in *. intros x Hx. apply in_map_iff in Hx as [b [<- Hb]].
      unfold ele, ekey. simpl. apply Hall. exact Hb.
    - intros x y Hx Hy H1 H2.
      apply in_map_iff in Hx as [a [<- Ha]]. apply in_map_iff in Hy as [b [<- Hb]].
      unfold ele, ekey in *. simpl in *.
      assert (Es : skey a = skey b) by (apply le4_antisym; assumption).
      rewrite Es. f_equal. apply (tie_free_spec ts TF a b Ha Hb). apply tk_tie_skey. exact Es. }
  rewrite sort_tuples_enc, <- E, flat_map_map. reflexivity.
Qed.

(* ... and without the tie hypothesis canonicity fails: the sort ignores condition contexts and
   Less answers true on ties, so two tuples differing only in context keep an input-dependent
   order (harmless: a cache miss) *)
Definition tie_t1 : tkey := mk_tkey [100] [114] [117] (Some ([99], [([120], PNum 1)])).
Definition tie_t2 : tkey := mk_tkey [100] [114] [117] (Some ([99], [([120], PNum 2)])).

Theorem invariant_key_canonical_refuted :
  exists s m c ts1 ts2,
    inv_wf c ts1 = true /\ inv_keys_unique c ts1 = true /\
    tuples_equiv ts1 ts2 /\ inv_bytes s m c ts1 <> inv_bytes s m c ts2.
Proof.
  exists [115], [109], [], [tie_t1; tie_t2], [tie_t2; tie_t1].
  split; [reflexivity|]. split; [reflexivity|]. split.
  - exists [tie_t2; tie_t1]. split; [apply perm_swap|].
    constructor; [|constructor; [|constructor]]; unfold tuple_equiv; simpl;
      repeat split; apply pb_equiv_refl.
  - vm_compute. discriminate.
Qed.
