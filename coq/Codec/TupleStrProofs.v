(* Proofs about the executable model Codec/TupleStr.v (property C29).
   A. facts about the Go-faithful UTF-8 decoder (Base/Utf8.v)
   B. the validity automata accept exactly the documented grammar
   C. round trips between the string encodings and their parts. *)
From OFGA Require Import Codec.TupleStr.
From Coq Require Import ZifyBool ZifyN ZifyNat.
Open Scope N_scope.

(* ------------------------------------------------------------------ *)
(* Vocabulary                                                           *)
(* ------------------------------------------------------------------ *)

(* a rune list has no control character and no rune of [bad] *)
Definition okr (bad : list N) (rs : list N) : bool :=
  forallb (fun c => negb (is_control c) && negb (mem c bad)) rs.

(* the same for the Go rune sequence of a byte string *)
Definition clean (bad : list N) (s : bytes) : bool :=
  forallb (fun c => negb (is_control c) && negb (mem c bad)) (runes s).

Definition nonnil {A : Type} (l : list A) : bool :=
  match l with [] => false | _ :: _ => true end.

Lemma nonnil_true {A : Type} (l : list A) : nonnil l = true <-> l <> [].
Proof. destruct l as [|x l]; cbn [nonnil]; split; intro H; congruence. Qed.

Lemma nonnil_false {A : Type} (l : list A) : nonnil l = false <-> l = [].
Proof. destruct l as [|x l]; cbn [nonnil]; split; intro H; congruence. Qed.

Lemma clean_okr bad s : clean bad s = okr bad (runes s).
Proof. reflexivity. Qed.

Lemma okr_app bad a b : okr bad (a ++ b) = okr bad a && okr bad b.
Proof. unfold okr. apply forallb_app. Qed.

Lemma okr_mem bad rs c : okr bad rs = true -> In c bad -> mem c rs = false.
Proof.
  intros Hok Hin. destruct (mem c rs) eqn:Hm; [|reflexivity].
  apply mem_In in Hm. unfold okr in Hok. rewrite forallb_forall in Hok.
  specialize (Hok c Hm). apply andb_true_iff in Hok as [_ Hb].
  apply mem_In in Hin. rewrite Hin in Hb. discriminate.
Qed.

(* ------------------------------------------------------------------ *)
(* A. Decoder facts                                                     *)
(* ------------------------------------------------------------------ *)

Lemma lor_ge_l a b : a <= N.lor a b.
Proof.
  apply N.ldiff_le. apply N.bits_inj. intro n.
  rewrite N.ldiff_spec, N.lor_spec, N.bits_0. destruct (N.testbit a n); reflexivity.
Qed.

Lemma lead_info_cases b n lo hi : lead_info b = (n, lo, hi) ->
  (n = 1%nat /\ b < 128) \/
  (n = 0%nat /\ 128 <= b /\ b <> 194) \/
  ((2 <= n <= 4)%nat /\ 194 <= b <= 244 /\ 128 <= lo /\ hi <= 191 /\
   (b = 194 -> n = 2%nat /\ lo = 128 /\ hi = 191) /\ (n = 2%nat \/ 224 <= b)).
Proof.
  unfold lead_info. intro H.
  repeat match type of H with
         | (if ?c then _ else _) = _ => destruct c eqn:?
         end; inversion H; subst; lia.
Qed.

Lemma decode1_ascii c rest : c < 128 -> decode1 c rest = (c, 1%nat).
Proof.
  intro Hc. unfold decode1, lead_info.
  assert (Hlt : (c <? 128) = true) by lia. rewrite Hlt. reflexivity.
Qed.

(* the look-ahead fails identically on a truncated sequence and on one interrupted by ASCII *)
Lemma decode1_app_ascii b0 a c b : c < 128 -> decode1 b0 (a ++ c :: b) = decode1 b0 a.
Proof.
  intro Hc. unfold decode1. destruct (lead_info b0) as [[n lo] hi] eqn:E.
  destruct (lead_info_cases _ _ _ _ E) as [[Hn _] | [[Hn _] | (Hn & _ & Hlo & _)]];
    [subst n; reflexivity | subst n; reflexivity |].
  assert (Hr : in_range lo hi c = false) by (unfold in_range; lia).
  assert (Hcc : cont c = false) by (unfold cont, in_range; lia).
  destruct n as [|[|[|[|[|n]]]]]; try (exfalso; lia).
  - destruct a as [|b1 a]; cbn [app]; [rewrite Hr|]; reflexivity.
  - destruct a as [|b1 [|b2 a]]; cbn [app].
    + destruct b as [|b2 b]; [reflexivity|]. rewrite Hr. reflexivity.
    + rewrite Hcc, andb_false_r. reflexivity.
    + reflexivity.
  - destruct a as [|b1 [|b2 [|b3 a]]]; cbn [app].
    + destruct b as [|b2 [|b3 b]]; try reflexivity. rewrite Hr. reflexivity.
    + destruct b as [|b3 b]; [reflexivity|]. rewrite Hcc, andb_false_r. reflexivity.
    + rewrite Hcc, andb_false_r. reflexivity.
    + reflexivity.
Qed.

(* --- a finite sweep over (lead byte, second byte) pins down the decoded values --- *)

Definition rune2 (b0 b1 : N) : N := N.lor (N.shiftl (N.land b0 31) 6) (N.land b1 63).
Definition hi3 (b0 b1 : N) : N := N.lor (N.shiftl (N.land b0 15) 12) (N.shiftl (N.land b1 63) 6).
Definition hi4 (b0 b1 : N) : N := N.lor (N.shiftl (N.land b0 7) 18) (N.shiftl (N.land b1 63) 12).

Definition sweep_ok (b0 b1 : N) : bool :=
  match lead_info b0 with
  | (2%nat, lo, hi) =>
      implb (in_range lo hi b1)
            ((128 <=? rune2 b0 b1) &&
             Bool.eqb (is_control (rune2 b0 b1)) (N.eqb b0 194 && in_range 128 159 b1))
  | (3%nat, lo, hi) => implb (in_range lo hi b1) (2048 <=? hi3 b0 b1)
  | (4%nat, lo, hi) => implb (in_range lo hi b1) (65536 <=? hi4 b0 b1)
  | _ => true
  end.

Definition all256 : list N := map N.of_nat (seq 0 256).

Lemma all256_in x : x < 256 -> In x all256.
Proof.
  intro H. unfold all256. rewrite <- (N2Nat.id x). apply in_map. apply in_seq. lia.
Qed.

Lemma sweep_all : forallb (fun b0 => forallb (sweep_ok b0) all256) all256 = true.
Proof. vm_compute. reflexivity. Qed.

Lemma sweep b0 b1 : b0 < 256 -> b1 < 256 -> sweep_ok b0 b1 = true.
Proof.
  intros H0 H1. pose proof sweep_all as H. rewrite forallb_forall in H.
  specialize (H b0 (all256_in _ H0)). rewrite forallb_forall in H.
  exact (H b1 (all256_in _ H1)).
Qed.

(* "the pair (b0, first byte of rest) is 0xC2 followed by 0x80..0x9F" *)
Definition c1head (b0 : N) (rest : bytes) : bool :=
  N.eqb b0 194 && match rest with b1 :: _ => in_range 128 159 b1 | [] => false end.

Lemma c1head_ne b0 rest : b0 <> 194 -> c1head b0 rest = false.
Proof. intro H. unfold c1head. apply N.eqb_neq in H. rewrite H. reflexivity. Qed.

Lemma is_control_big r : 160 <= r -> is_control r = false.
Proof. intro H. unfold is_control, in_range. lia. Qed.

(* Everything the rest of the development needs to know about decode1 *)
Lemma decode1_spec b0 rest r w : decode1 b0 rest = (r, w) ->
  (w = 1%nat /\ ((b0 < 128 /\ r = b0) \/
                 (128 <= b0 /\ r = rune_error /\ c1head b0 rest = false)))
  \/ ((2 <= w)%nat /\ 194 <= b0 /\ (Nat.pred w <= length rest)%nat /\
      forallb cont (firstn (Nat.pred w) rest) = true /\
      128 <= r /\ is_control r = c1head b0 rest).
Proof.
  unfold decode1. destruct (lead_info b0) as [[n lo] hi] eqn:E. intro H.
  destruct (lead_info_cases _ _ _ _ E)
    as [[Hn Hb] | [(Hn & Hb & Hne) | (Hn & Hb & Hlo & Hhi & H194 & Hbig)]].
  - subst n. inversion H; subst. left. split; [reflexivity|]. left. split; [exact Hb|reflexivity].
  - subst n. inversion H; subst. left. split; [reflexivity|]. right.
    split; [exact Hb|]. split; [reflexivity|]. apply c1head_ne. exact Hne.
  - assert (Herr : (rune_error, 1%nat) = (r, w) -> c1head b0 rest = false ->
                   (w = 1%nat /\ ((b0 < 128 /\ r = b0) \/
                      (128 <= b0 /\ r = rune_error /\ c1head b0 rest = false)))
                   \/ ((2 <= w)%nat /\ 194 <= b0 /\ (Nat.pred w <= length rest)%nat /\
                       forallb cont (firstn (Nat.pred w) rest) = true /\
                       128 <= r /\ is_control r = c1head b0 rest)).
    { intros Heq Hc. inversion Heq; subst. left. split; [reflexivity|]. right.
      split; [lia|]. split; [reflexivity|exact Hc]. }
    assert (Hcont : forall x, in_range lo hi x = true -> cont x = true /\ x < 256).
    { intros x Hx. unfold cont, in_range in *. lia. }
    destruct n as [|[|[|[|[|n]]]]]; try (exfalso; lia).
    + (* two bytes *)
      destruct rest as [|b1 rest'].
      * apply Herr; [exact H|]. unfold c1head. apply andb_false_r.
      * destruct (in_range lo hi b1) eqn:R.
        -- destruct (Hcont _ R) as [Hc1 Hlt1].
           assert (Hs : sweep_ok b0 b1 = true) by (apply sweep; lia).
           unfold sweep_ok in Hs. rewrite E, R in Hs. cbn [implb] in Hs.
           apply andb_true_iff in Hs as [Hs1 Hs2]. apply eqb_prop in Hs2.
           inversion H; subst. fold (rune2 b0 b1). right.
           split; [lia|]. split; [lia|]. split; [cbn [length Nat.pred]; lia|].
           split; [cbn [Nat.pred firstn forallb]; rewrite Hc1; reflexivity|].
           split; [lia|]. unfold c1head. exact Hs2.
        -- apply Herr; [exact H|]. unfold c1head.
           destruct (N.eqb_spec b0 194) as [Heq|Hneq]; [|reflexivity].
           destruct (H194 Heq) as (_ & Hlo' & Hhi'). subst lo hi.
           cbn [andb]. unfold in_range in *. lia.
    + (* three bytes *)
      assert (Hne : b0 <> 194) by lia.
      destruct rest as [|b1 [|b2 rest']];
        try (apply Herr; [exact H|apply c1head_ne; exact Hne]).
      destruct (in_range lo hi b1 && cont b2) eqn:R;
        [|apply Herr; [exact H|apply c1head_ne; exact Hne]].
      apply andb_true_iff in R as [R1 R2].
      destruct (Hcont _ R1) as [Hc1 Hlt1].
      assert (Hs : sweep_ok b0 b1 = true) by (apply sweep; lia).
      unfold sweep_ok in Hs. rewrite E, R1 in Hs. cbn [implb] in Hs.
      inversion H; subst. fold (hi3 b0 b1).
      pose proof (lor_ge_l (hi3 b0 b1) (N.land b2 63)) as Hge.
      right. split; [lia|]. split; [lia|]. split; [cbn [length Nat.pred]; lia|].
      split; [cbn [Nat.pred firstn forallb]; rewrite Hc1, R2; reflexivity|].
      split; [lia|]. rewrite (c1head_ne _ _ Hne). apply is_control_big. lia.
    + (* four bytes *)
      assert (Hne : b0 <> 194) by lia.
      destruct rest as [|b1 [|b2 [|b3 rest']]];
        try (apply Herr; [exact H|apply c1head_ne; exact Hne]).
      destruct (in_range lo hi b1 && cont b2 && cont b3) eqn:R;
        [|apply Herr; [exact H|apply c1head_ne; exact Hne]].
      apply andb_true_iff in R as [R R3]. apply andb_true_iff in R as [R1 R2].
      destruct (Hcont _ R1) as [Hc1 Hlt1].
      assert (Hs : sweep_ok b0 b1 = true) by (apply sweep; lia).
      unfold sweep_ok in Hs. rewrite E, R1 in Hs. cbn [implb] in Hs.
      inversion H; subst. fold (hi4 b0 b1).
      pose proof (lor_ge_l (hi4 b0 b1) (N.shiftl (N.land b2 63) 6)) as Hge1.
      pose proof (lor_ge_l (N.lor (hi4 b0 b1) (N.shiftl (N.land b2 63) 6)) (N.land b3 63)) as Hge2.
      right. split; [lia|]. split; [lia|]. split; [cbn [length Nat.pred]; lia|].
      split; [cbn [Nat.pred firstn forallb]; rewrite Hc1, R2, R3; reflexivity|].
      split; [lia|]. rewrite (c1head_ne _ _ Hne). apply is_control_big. lia.
Qed.

Lemma decode1_width_le b0 a : (Nat.pred (snd (decode1 b0 a)) <= length a)%nat.
Proof.
  destruct (decode1 b0 a) as [r w] eqn:E. cbn [snd].
  destruct (decode1_spec _ _ _ _ E) as [[Hw _] | (_ & _ & Hlen & _)]; [subst w; cbn; lia | exact Hlen].
Qed.

Lemma runes_from_0_cons b rest :
  runes_from 0 (b :: rest) =
  fst (decode1 b rest) :: runes_from (Nat.pred (snd (decode1 b rest))) rest.
Proof. cbn [runes_from]. destruct (decode1 b rest) as [r w]. reflexivity. Qed.

Lemma runes_from_app_ascii a : forall k c b, (k <= length a)%nat -> c < 128 ->
  runes_from k (a ++ c :: b) = runes_from k a ++ c :: runes b.
Proof.
  induction a as [|x a IH]; intros k c b Hk Hc.
  - cbn [length] in Hk. assert (Hk0 : k = 0%nat) by lia. subst k.
    cbn [app]. rewrite runes_from_0_cons, (decode1_ascii _ _ Hc). reflexivity.
  - destruct k as [|k].
    + cbn [app]. rewrite !runes_from_0_cons, (decode1_app_ascii _ _ _ _ Hc).
      rewrite IH; [reflexivity | apply decode1_width_le | exact Hc].
    + cbn [app runes_from]. apply IH; [cbn [length] in Hk; lia | exact Hc].
Qed.

Theorem runes_app_ascii a c b : c < 128 -> runes (a ++ c :: b) = runes a ++ c :: runes b.
Proof. intro Hc. unfold runes at 1 2. apply runes_from_app_ascii; [lia | exact Hc]. Qed.

Lemma runes_from_in_ascii s : forall k c, c < 128 -> In c (runes_from k s) -> In c s.
Proof.
  induction s as [|x s IH]; intros k c Hc Hin.
  - destruct k; exact Hin.
  - destruct k as [|k].
    + rewrite runes_from_0_cons in Hin. destruct (decode1 x s) as [r w] eqn:E.
      cbn [fst snd] in Hin. destruct Hin as [Heq | Hin].
      * subst r. left.
        destruct (decode1_spec _ _ _ _ E)
          as [[_ [[_ Hr] | (_ & Hr & _)]] | (_ & _ & _ & _ & Hr & _)].
        -- symmetry. exact Hr.
        -- unfold rune_error in Hr. lia.
        -- lia.
      * right. exact (IH _ _ Hc Hin).
    + cbn [runes_from] in Hin. right. exact (IH _ _ Hc Hin).
Qed.

(* ASCII bytes are never swallowed and never invented *)
Theorem in_runes_ascii c s : c < 128 -> (In c s <-> In c (runes s)).
Proof.
  intro Hc. split; intro H.
  - destruct (in_split _ _ H) as (a & b & ->). rewrite (runes_app_ascii _ _ _ Hc).
    apply in_or_app. right. left. reflexivity.
  - exact (runes_from_in_ascii _ _ _ Hc H).
Qed.

Lemma mem_runes_ascii c s : c < 128 -> mem c (runes s) = mem c s.
Proof.
  intro Hc. apply eq_iff_eq_true. rewrite !mem_In. symmetry. apply in_runes_ascii. exact Hc.
Qed.

Theorem runes_nil_iff s : runes s = [] <-> s = [].
Proof.
  split; intro H; [|subst; reflexivity].
  destruct s as [|x s]; [reflexivity|]. unfold runes in H. rewrite runes_from_0_cons in H.
  discriminate.
Qed.

Lemma nonnil_runes s : nonnil (runes s) = nonnil s.
Proof.
  apply eq_iff_eq_true. rewrite !nonnil_true. split; intros H C; apply H.
  - subst. reflexivity.
  - apply runes_nil_iff. exact C.
Qed.

Lemma clean_no_byte bad s c : clean bad s = true -> In c bad -> c < 128 -> mem c s = false.
Proof.
  intros Hcl Hin Hc. rewrite <- (mem_runes_ascii _ _ Hc). exact (okr_mem _ _ _ Hcl Hin).
Qed.

(* ------------------------------------------------------------------ *)
(* B. Grammar characterisations                                         *)
(* ------------------------------------------------------------------ *)

Definition bad_rel : list N := [c_hash; c_colon; c_at; c_space].
Definition bad_id : list N := [c_hash; c_colon; c_space].
Definition bad_id_star : list N := [c_hash; c_colon; c_space; c_star].

(* --- relation --- *)

Lemma valid_relation_go_eq rs : forall have,
  valid_relation_go rs have = okr bad_rel rs && (have || nonnil rs).
Proof.
  induction rs as [|c rs IH]; intro have.
  - cbn [valid_relation_go okr forallb nonnil andb]. rewrite orb_false_r. reflexivity.
  - cbn [valid_relation_go okr forallb nonnil bad_rel mem].
    rewrite (N.eqb_sym c_hash c), (N.eqb_sym c_colon c), (N.eqb_sym c_at c), (N.eqb_sym c_space c).
    rewrite IH.
    destruct (is_control c), (c =? c_hash), (c =? c_colon), (c =? c_at), (c =? c_space);
      cbn [orb andb negb]; rewrite ?orb_true_r; reflexivity.
Qed.

Theorem is_valid_relation_iff s :
  is_valid_relation s = true <-> s <> [] /\ clean bad_rel s = true.
Proof.
  unfold is_valid_relation. rewrite valid_relation_go_eq, andb_true_iff. cbn [orb].
  rewrite nonnil_runes, nonnil_true, clean_okr. tauto.
Qed.

(* --- user id --- *)

Lemma valid_userid_go_eq rs : forall have,
  valid_userid_go rs have = okr bad_id rs && (have || nonnil rs).
Proof.
  induction rs as [|c rs IH]; intro have.
  - cbn [valid_userid_go okr forallb nonnil andb]. rewrite orb_false_r. reflexivity.
  - cbn [valid_userid_go okr forallb nonnil bad_id mem].
    rewrite (N.eqb_sym c_hash c), (N.eqb_sym c_colon c), (N.eqb_sym c_space c).
    rewrite IH.
    destruct (is_control c), (c =? c_hash), (c =? c_colon), (c =? c_space);
      cbn [orb andb negb]; rewrite ?orb_true_r; reflexivity.
Qed.

Theorem is_valid_userid_iff s :
  is_valid_userid s = true <-> s <> [] /\ clean bad_id s = true.
Proof.
  unfold is_valid_userid. rewrite valid_userid_go_eq, andb_true_iff. cbn [orb].
  rewrite nonnil_runes, nonnil_true, clean_okr. tauto.
Qed.

Theorem is_valid_user_iff s :
  is_valid_user s = true <->
  s = [c_star] \/ is_valid_userid s = true \/ is_valid_object s = true \/ is_valid_userset s = true.
Proof.
  unfold is_valid_user, wildcard. rewrite !orb_true_iff, beqb_eq. tauto.
Qed.

(* --- object --- *)

Lemma colon_ascii : c_colon < 128. Proof. reflexivity. Qed.
Lemma hash_ascii : c_hash < 128. Proof. reflexivity. Qed.
Lemma at_ascii : c_at < 128. Proof. reflexivity. Qed.
Lemma space_ascii : c_space < 128. Proof. reflexivity. Qed.
Lemma star_ascii : c_star < 128. Proof. reflexivity. Qed.

Lemma vo_colon rs f st h :
  valid_object_go (c_colon :: rs) f st h =
  if st || f then false else valid_object_go rs false true h.
Proof. reflexivity. Qed.

(* after the ':' *)
Lemma vo1 rs : forall f h,
  valid_object_go rs f true h = okr bad_id rs && (h || nonnil rs).
Proof.
  induction rs as [|c rs IH]; intros f h.
  - cbn [valid_object_go okr forallb nonnil andb]. rewrite orb_false_r. reflexivity.
  - cbn [valid_object_go okr forallb nonnil bad_id mem].
    rewrite (N.eqb_sym c_hash c), (N.eqb_sym c_colon c), (N.eqb_sym c_space c).
    rewrite !IH.
    destruct (is_control c), (c =? c_hash), (c =? c_colon), (c =? c_space);
      cbn [orb andb negb]; rewrite ?orb_true_r; reflexivity.
Qed.

(* before the ':' *)
Lemma vo0 rid rt : forall f h, mem c_colon rt = false ->
  valid_object_go (rt ++ c_colon :: rid) f false h =
  negb (f && negb (nonnil rt)) && okr bad_id rt && valid_object_go rid false true h.
Proof.
  induction rt as [|c rt IH]; intros f h Hm.
  - cbn [app]. rewrite vo_colon. cbn [orb nonnil negb okr forallb]. destruct f; reflexivity.
  - cbn [mem] in Hm. apply orb_false_iff in Hm as [Hc Hm].
    cbn [app valid_object_go okr forallb nonnil bad_id mem negb].
    rewrite (N.eqb_sym c_hash c), (N.eqb_sym c_colon c), (N.eqb_sym c_space c).
    rewrite Hc, orb_false_r, (IH false h Hm), andb_false_r.
    destruct (is_control c), (c =? c_hash), (c =? c_space); cbn [orb andb negb]; reflexivity.
Qed.

Lemma vo0_nocolon rs : forall f, mem c_colon rs = false ->
  valid_object_go rs f false false = false.
Proof.
  induction rs as [|c rs IH]; intros f Hm; [reflexivity|].
  cbn [mem] in Hm. apply orb_false_iff in Hm as [Hc Hm].
  cbn [valid_object_go]. rewrite Hc. cbn [orb]. rewrite (IH false Hm).
  destruct (is_control c), (c =? c_hash), (c =? c_space); reflexivity.
Qed.

Theorem is_valid_object_iff s :
  is_valid_object s = true <->
  exists t id, s = t ++ c_colon :: id /\ t <> [] /\ id <> [] /\
               clean bad_id t = true /\ clean bad_id id = true.
Proof.
  unfold is_valid_object. split.
  - intro H. destruct (cut c_colon s) as [[t id]|] eqn:Hcut.
    + apply cut_some in Hcut as [-> Hm]. exists t, id.
      rewrite (runes_app_ascii _ _ _ colon_ascii) in H.
      rewrite vo0 in H by (rewrite (mem_runes_ascii _ _ colon_ascii); exact Hm).
      rewrite vo1 in H. cbn [andb orb] in H. rewrite !nonnil_runes in H.
      apply andb_true_iff in H as [H H3]. apply andb_true_iff in H3 as [H3 H4].
      apply andb_true_iff in H as [H1 H2]. apply negb_true_iff in H1. cbn [andb] in H1.
      apply negb_false_iff in H1. apply nonnil_true in H1, H4.
      repeat split; assumption.
    + apply cut_none in Hcut. rewrite <- (mem_runes_ascii _ _ colon_ascii) in Hcut.
      rewrite (vo0_nocolon _ _ Hcut) in H. discriminate.
  - intros (t & id & -> & Ht & Hid & Hct & Hcid).
    rewrite (runes_app_ascii _ _ _ colon_ascii).
    rewrite vo0 by (apply (okr_mem bad_id); [exact Hct | right; left; reflexivity]).
    rewrite vo1, !nonnil_runes. rewrite clean_okr in Hct, Hcid. rewrite Hct, Hcid.
    apply nonnil_true in Ht, Hid. rewrite Ht, Hid. reflexivity.
Qed.

(* --- userset --- *)

Lemma vu_colon rs f st hi hr :
  valid_userset_go (c_colon :: rs) f st hi hr =
  if (0 <? st)%nat || f then false else valid_userset_go rs false 1%nat hi hr.
Proof. reflexivity. Qed.

Lemma vu_hash rs f st hi hr :
  valid_userset_go (c_hash :: rs) f st hi hr =
  if (1 <? st)%nat || negb hi then false else valid_userset_go rs false 2%nat hi hr.
Proof. reflexivity. Qed.

(* after the '#' *)
Lemma vu2 rs : forall f hi hr,
  valid_userset_go rs f 2%nat hi hr = okr bad_id_star rs && (hr || nonnil rs).
Proof.
  induction rs as [|c rs IH]; intros f hi hr.
  - cbn [valid_userset_go okr forallb nonnil andb]. rewrite orb_false_r. reflexivity.
  - cbn [valid_userset_go okr forallb nonnil bad_id_star mem Nat.ltb Nat.leb].
    rewrite (N.eqb_sym c_hash c), (N.eqb_sym c_colon c), (N.eqb_sym c_space c), (N.eqb_sym c_star c).
    rewrite !IH.
    destruct (is_control c), (c =? c_colon), (c =? c_hash), (c =? c_space), (c =? c_star);
      cbn [orb andb negb]; rewrite ?orb_true_r; reflexivity.
Qed.

(* between ':' and '#' *)
Lemma vu1 rr rid : forall f hi hr, mem c_hash rid = false ->
  valid_userset_go (rid ++ c_hash :: rr) f 1%nat hi hr =
  okr bad_id_star rid && (hi || nonnil rid) && valid_userset_go rr false 2%nat true hr.
Proof.
  induction rid as [|c rid IH]; intros f hi hr Hm.
  - cbn [app]. rewrite vu_hash. cbn [Nat.ltb Nat.leb orb nonnil okr forallb].
    destruct hi; reflexivity.
  - cbn [mem] in Hm. apply orb_false_iff in Hm as [Hc Hm].
    cbn [app valid_userset_go okr forallb nonnil bad_id_star mem Nat.ltb Nat.leb].
    rewrite (N.eqb_sym c_hash c), (N.eqb_sym c_colon c), (N.eqb_sym c_space c), (N.eqb_sym c_star c).
    rewrite Hc, (IH false true hr Hm).
    destruct (is_control c), (c =? c_colon), (c =? c_space), (c =? c_star);
      cbn [orb andb negb]; rewrite ?orb_true_r; reflexivity.
Qed.

Lemma vu1_nohash rs : forall f hi, mem c_hash rs = false ->
  valid_userset_go rs f 1%nat hi false = false.
Proof.
  induction rs as [|c rs IH]; intros f hi Hm; [reflexivity|].
  cbn [mem] in Hm. apply orb_false_iff in Hm as [Hc Hm].
  cbn [valid_userset_go Nat.ltb Nat.leb]. rewrite Hc, (IH false true Hm).
  destruct (is_control c), (c =? c_colon), (c =? c_space), (c =? c_star); reflexivity.
Qed.

(* before the ':' ('*' is let through here) *)
Lemma vu0 rest rt : forall f hr, mem c_colon rt = false ->
  valid_userset_go (rt ++ c_colon :: rest) f 0%nat false hr =
  negb (f && negb (nonnil rt)) && okr bad_id rt && valid_userset_go rest false 1%nat false hr.
Proof.
  induction rt as [|c rt IH]; intros f hr Hm.
  - cbn [app]. rewrite vu_colon. cbn [Nat.ltb Nat.leb orb nonnil negb okr forallb].
    destruct f; reflexivity.
  - cbn [mem] in Hm. apply orb_false_iff in Hm as [Hc Hm].
    cbn [app valid_userset_go okr forallb nonnil bad_id mem negb Nat.ltb Nat.leb].
    rewrite (N.eqb_sym c_hash c), (N.eqb_sym c_colon c), (N.eqb_sym c_space c).
    rewrite Hc, (IH false hr Hm), andb_false_r.
    destruct (is_control c), (c =? c_hash), (c =? c_space), (c =? c_star);
      cbn [orb andb negb]; reflexivity.
Qed.

Lemma vu0_nocolon rs : forall f, mem c_colon rs = false ->
  valid_userset_go rs f 0%nat false false = false.
Proof.
  induction rs as [|c rs IH]; intros f Hm; [reflexivity|].
  cbn [mem] in Hm. apply orb_false_iff in Hm as [Hc Hm].
  cbn [valid_userset_go Nat.ltb Nat.leb]. rewrite Hc, (IH false Hm).
  destruct (is_control c), (c =? c_hash), (c =? c_space), (c =? c_star); reflexivity.
Qed.

Theorem is_valid_userset_iff s :
  is_valid_userset s = true <->
  exists t id r, s = t ++ c_colon :: id ++ c_hash :: r /\ t <> [] /\ id <> [] /\ r <> [] /\
                 clean bad_id t = true /\ clean bad_id_star id = true /\
                 clean bad_id_star r = true.
Proof.
  unfold is_valid_userset. split.
  - intro H. destruct (cut c_colon s) as [[t rest]|] eqn:Hcut.
    + apply cut_some in Hcut as [-> Hm].
      rewrite (runes_app_ascii _ _ _ colon_ascii) in H.
      rewrite vu0 in H
        by (rewrite (mem_runes_ascii _ _ colon_ascii); exact Hm).
      apply andb_true_iff in H as [H H3]. apply andb_true_iff in H as [H1 H2].
      destruct (cut c_hash rest) as [[id r]|] eqn:Hcut2.
      * apply cut_some in Hcut2 as [-> Hm2]. exists t, id, r.
        rewrite (runes_app_ascii _ _ _ hash_ascii) in H3.
        rewrite vu1 in H3 by (rewrite (mem_runes_ascii _ _ hash_ascii); exact Hm2).
        rewrite vu2 in H3. cbn [orb] in H3. rewrite !nonnil_runes in H3.
        apply andb_true_iff in H3 as [H3 H6]. apply andb_true_iff in H6 as [H6 H7].
        apply andb_true_iff in H3 as [H4 H5].
        apply negb_true_iff in H1. cbn [andb] in H1. apply negb_false_iff in H1.
        rewrite nonnil_runes in H1. apply nonnil_true in H1, H5, H7.
        repeat split; assumption.
      * apply cut_none in Hcut2. rewrite <- (mem_runes_ascii _ _ hash_ascii) in Hcut2.
        rewrite (vu1_nohash _ _ _ Hcut2) in H3. discriminate.
    + apply cut_none in Hcut. rewrite <- (mem_runes_ascii _ _ colon_ascii) in Hcut.
      rewrite (vu0_nocolon _ _ Hcut) in H. discriminate.
  - intros (t & id & r & -> & Ht & Hid & Hr & Hct & Hcid & Hcr).
    rewrite (runes_app_ascii _ _ _ colon_ascii), (runes_app_ascii _ _ _ hash_ascii).
    rewrite vu0 by (apply (okr_mem bad_id); [exact Hct | right; left; reflexivity]).
    rewrite vu1 by (apply (okr_mem bad_id_star); [exact Hcid | left; reflexivity]).
    rewrite vu2, !nonnil_runes. rewrite clean_okr in Hct, Hcid, Hcr. rewrite Hct, Hcid, Hcr.
    apply nonnil_true in Ht, Hid, Hr. rewrite Ht, Hid, Hr. reflexivity.
Qed.

(* ------------------------------------------------------------------ *)
(* C. Round trips                                                       *)
(* ------------------------------------------------------------------ *)

(* byte-level consequences of validity used by the round trips *)

Lemma valid_object_no_hash o : is_valid_object o = true -> mem c_hash o = false.
Proof.
  intro H. apply is_valid_object_iff in H as (t & id & -> & _ & _ & Ht & Hid).
  rewrite mem_app. cbn [mem].
  rewrite (clean_no_byte bad_id t c_hash Ht), (clean_no_byte bad_id id c_hash Hid);
    try reflexivity; left; reflexivity.
Qed.

Lemma valid_relation_no_at r : is_valid_relation r = true -> mem c_at r = false.
Proof.
  intro H. apply is_valid_relation_iff in H as [_ H].
  apply (clean_no_byte bad_rel r c_at H); [right; right; left; reflexivity | reflexivity].
Qed.

Theorem split_build_object t id :
  mem c_colon t = false -> split_object (build_object t id) = (t, id).
Proof. intro H. unfold split_object, build_object. rewrite (cut_app _ _ _ H). reflexivity. Qed.

Theorem split_object_relation_build o r :
  mem c_hash r = false -> split_object_relation (to_object_relation_string o r) = (o, r).
Proof.
  intro H. unfold split_object_relation, to_object_relation_string.
  rewrite (cut_last_app _ _ _ H). reflexivity.
Qed.

Theorem parse_render_roundtrip o r u :
  is_valid_object o = true -> is_valid_relation r = true -> is_valid_user u = true ->
  parse_tuple_string (tuple_key_to_string o r u) = inl (o, r, u).
Proof.
  intros Ho Hr Hu. unfold parse_tuple_string, tuple_key_to_string.
  rewrite (cut_app _ _ _ (valid_object_no_hash _ Ho)), Ho. cbn [negb].
  rewrite (cut_app _ _ _ (valid_relation_no_at _ Hr)), Hr, Hu. reflexivity.
Qed.

Theorem render_parse_roundtrip s o r u :
  parse_tuple_string s = inl (o, r, u) ->
  tuple_key_to_string o r u = s /\
  is_valid_object o = true /\ is_valid_relation r = true /\ is_valid_user u = true.
Proof.
  unfold parse_tuple_string, tuple_key_to_string. intro H.
  destruct (cut c_hash s) as [[o' rhs]|] eqn:Hc1; [|discriminate].
  destruct (is_valid_object o') eqn:Ho; cbn [negb] in H; [|discriminate].
  destruct (cut c_at rhs) as [[r' u']|] eqn:Hc2; [|discriminate].
  destruct (is_valid_relation r') eqn:Hr; cbn [negb] in H; [|discriminate].
  destruct (is_valid_user u') eqn:Hu; cbn [negb] in H; [|discriminate].
  inversion H; subst o' r' u'.
  apply cut_some in Hc1 as [-> _]. apply cut_some in Hc2 as [-> _].
  repeat split; reflexivity || assumption.
Qed.

(* --- user proto --- *)

Theorem user_proto_object_roundtrip t id :
  mem c_colon t = false -> mem c_hash t = false -> mem c_hash id = false -> id <> [c_star] ->
  string_to_user_proto (user_proto_to_string (UObject t id)) = UObject t id.
Proof.
  intros Hct Hht Hhid Hne. unfold string_to_user_proto, user_proto_to_string, split_object_relation.
  assert (Hnone : cut_last c_hash (t ++ c_colon :: id) = None).
  { apply cut_last_none. rewrite mem_app. cbn [mem]. rewrite Hht, Hhid. reflexivity. }
  rewrite Hnone. unfold split_object. rewrite (cut_app _ _ _ Hct).
  destruct (beqb id wildcard) eqn:E; [|reflexivity].
  apply beqb_eq in E. contradiction.
Qed.

Theorem user_proto_wildcard_roundtrip t :
  mem c_colon t = false -> mem c_hash t = false ->
  string_to_user_proto (user_proto_to_string (UWildcard t)) = UWildcard t.
Proof.
  intros Hct Hht. unfold string_to_user_proto, user_proto_to_string, split_object_relation.
  assert (Hnone : cut_last c_hash (t ++ [c_colon; c_star]) = None).
  { apply cut_last_none. rewrite mem_app. cbn [mem]. rewrite Hht. reflexivity. }
  rewrite Hnone. unfold split_object. rewrite (cut_app _ _ _ Hct). reflexivity.
Qed.

Theorem user_proto_userset_roundtrip t id r :
  mem c_colon t = false -> mem c_hash r = false -> r <> [] ->
  string_to_user_proto (user_proto_to_string (UUserset t id r)) = UUserset t id r.
Proof.
  intros Hct Hhr Hne. unfold string_to_user_proto, user_proto_to_string, split_object_relation.
  change (t ++ c_colon :: id ++ c_hash :: r) with (t ++ (c_colon :: id) ++ c_hash :: r).
  rewrite app_assoc, (cut_last_app _ _ _ Hhr). unfold split_object.
  rewrite (cut_app _ _ _ Hct). destruct r as [|x r]; [contradiction|reflexivity].
Qed.

(* general criterion for string -> proto -> string *)
Lemma user_string_proto_roundtrip_gen s :
  mem c_colon (fst (split_object_relation s)) = true ->
  (mem c_hash s = true -> snd (split_object_relation s) <> []) ->
  user_proto_to_string (string_to_user_proto s) = s.
Proof.
  unfold string_to_user_proto, split_object_relation.
  destruct (cut_last c_hash s) as [[o r]|] eqn:Hcl; cbn [fst snd]; intros Hcol Hr.
  - apply cut_last_some in Hcl as [-> Hm].
    assert (Hne : r <> []). { apply Hr. rewrite mem_app. cbn [mem]. rewrite N.eqb_refl. apply orb_true_r. }
    unfold split_object. destruct (cut c_colon o) as [[t id]|] eqn:Hc.
    + apply cut_some in Hc as [-> _]. destruct r as [|x r]; [contradiction|].
      cbn [user_proto_to_string]. rewrite <- app_assoc. reflexivity.
    + apply cut_none in Hc. congruence.
  - unfold split_object. destruct (cut c_colon s) as [[t id]|] eqn:Hc.
    + apply cut_some in Hc as [-> _]. destruct (beqb id wildcard) eqn:E; [|reflexivity].
      apply beqb_eq in E. subst id. reflexivity.
    + apply cut_none in Hc. congruence.
Qed.

Theorem user_string_proto_roundtrip s :
  is_valid_object s = true \/ is_valid_userset s = true ->
  user_proto_to_string (string_to_user_proto s) = s.
Proof.
  intros [H | H].
  - pose proof (valid_object_no_hash _ H) as Hh.
    apply is_valid_object_iff in H as (t & id & -> & _).
    apply user_string_proto_roundtrip_gen.
    + unfold split_object_relation. apply cut_last_none in Hh. rewrite Hh. cbn [fst].
      rewrite mem_app. cbn [mem]. rewrite N.eqb_refl. apply orb_true_r.
    + rewrite Hh. discriminate.
  - apply is_valid_userset_iff in H as (t & id & r & -> & _ & _ & Hr & _ & _ & Hcr).
    assert (Hhr : mem c_hash r = false).
    { apply (clean_no_byte bad_id_star r c_hash Hcr); [left; reflexivity | reflexivity]. }
    assert (Hsp : split_object_relation (t ++ c_colon :: id ++ c_hash :: r) = (t ++ c_colon :: id, r)).
    { unfold split_object_relation.
      change (t ++ c_colon :: id ++ c_hash :: r) with (t ++ (c_colon :: id) ++ c_hash :: r).
      rewrite app_assoc, (cut_last_app _ _ _ Hhr). reflexivity. }
    apply user_string_proto_roundtrip_gen; rewrite Hsp; cbn [fst snd].
    + rewrite mem_app. cbn [mem]. rewrite N.eqb_refl. apply orb_true_r.
    + intros _. exact Hr.
Qed.

Theorem untyped_user_string_roundtrip_refuted :
  exists s, is_valid_user s = true /\ user_proto_to_string (string_to_user_proto s) <> s.
Proof. exists [97; 110; 110; 101]. split; [reflexivity | discriminate]. Qed.

Theorem wildcard_user_string_roundtrip_refuted :
  is_valid_user [c_star] = true /\ user_proto_to_string (string_to_user_proto [c_star]) <> [c_star].
Proof. split; [reflexivity | discriminate]. Qed.

(* --- user parts --- *)

Lemma from_to_user_parts_gen s :
  (forall o, cut_last c_hash s <> Some (o, [])) ->
  (forall id, cut c_colon (fst (split_object_relation s)) <> Some ([], id)) ->
  (let '(t, id, r) := to_user_parts s in from_user_parts t id r) = s.
Proof.
  unfold to_user_parts, split_object_relation. intros Hr Ht.
  destruct (cut_last c_hash s) as [[o r]|] eqn:Hcl; cbn [fst] in Ht.
  - apply cut_last_some in Hcl as [-> Hm].
    destruct r as [|x r]; [exfalso; exact (Hr o eq_refl)|].
    unfold split_object. destruct (cut c_colon o) as [[t id]|] eqn:Hc.
    + destruct t as [|y t]; [exfalso; exact (Ht id eq_refl)|].
      apply cut_some in Hc as [-> _]. unfold from_user_parts.
      rewrite <- !app_assoc. reflexivity.
    + reflexivity.
  - unfold split_object. destruct (cut c_colon s) as [[t id]|] eqn:Hc.
    + destruct t as [|y t]; [exfalso; exact (Ht id eq_refl)|].
      apply cut_some in Hc as [-> _]. unfold from_user_parts.
      rewrite app_nil_r, <- app_assoc. reflexivity.
    + unfold from_user_parts. cbn [app]. apply app_nil_r.
Qed.

Theorem from_to_user_parts s :
  is_valid_user s = true ->
  (let '(t, id, r) := to_user_parts s in from_user_parts t id r) = s.
Proof.
  intro H. apply is_valid_user_iff in H as [-> | [H | [H | H]]].
  - reflexivity.
  - apply is_valid_userid_iff in H as [_ H].
    assert (Hh : mem c_hash s = false)
      by (apply (clean_no_byte bad_id s c_hash H); [left; reflexivity | reflexivity]).
    assert (Hc : mem c_colon s = false)
      by (apply (clean_no_byte bad_id s c_colon H); [right; left; reflexivity | reflexivity]).
    apply cut_last_none in Hh. apply cut_none in Hc.
    apply from_to_user_parts_gen.
    + intros o. rewrite Hh. discriminate.
    + intros id. unfold split_object_relation. rewrite Hh. cbn [fst]. rewrite Hc. discriminate.
  - pose proof (valid_object_no_hash _ H) as Hh. apply cut_last_none in Hh.
    apply is_valid_object_iff in H as (t & id & -> & Ht & _ & Hct & _).
    assert (Hc : mem c_colon t = false)
      by (apply (clean_no_byte bad_id t c_colon Hct); [right; left; reflexivity | reflexivity]).
    apply from_to_user_parts_gen.
    + intros o. rewrite Hh. discriminate.
    + intros id'. unfold split_object_relation. rewrite Hh. cbn [fst].
      rewrite (cut_app _ _ _ Hc). intro E. inversion E. contradiction.
  - apply is_valid_userset_iff in H as (t & id & r & -> & Ht & _ & Hr & Hct & _ & Hcr).
    assert (Hhr : mem c_hash r = false)
      by (apply (clean_no_byte bad_id_star r c_hash Hcr); [left; reflexivity | reflexivity]).
    assert (Hc : mem c_colon t = false)
      by (apply (clean_no_byte bad_id t c_colon Hct); [right; left; reflexivity | reflexivity]).
    assert (Hcl : cut_last c_hash (t ++ c_colon :: id ++ c_hash :: r) = Some (t ++ c_colon :: id, r)).
    { change (t ++ c_colon :: id ++ c_hash :: r) with (t ++ (c_colon :: id) ++ c_hash :: r).
      rewrite app_assoc. apply cut_last_app. exact Hhr. }
    apply from_to_user_parts_gen.
    + intros o. rewrite Hcl. intro E. inversion E. contradiction.
    + intros id'. unfold split_object_relation. rewrite Hcl. cbn [fst].
      rewrite (cut_app _ _ _ Hc). intro E. inversion E. contradiction.
Qed.

(* exact side condition for parts -> string -> parts *)
Definition user_parts_ok (t id r : bytes) : bool :=
  negb (mem c_colon t) && negb (mem c_hash r) &&
  (nonnil r || negb (mem c_hash t) && negb (mem c_hash id)) &&
  (nonnil t || negb (mem c_colon id)).

Theorem to_from_user_parts t id r :
  user_parts_ok t id r = true -> to_user_parts (from_user_parts t id r) = (t, id, r).
Proof.
  unfold user_parts_ok. intro H.
  apply andb_true_iff in H as [H H4]. apply andb_true_iff in H as [H H3].
  apply andb_true_iff in H as [H1 H2]. apply negb_true_iff in H1, H2.
  unfold to_user_parts, from_user_parts, split_object_relation, split_object.
  destruct r as [|x r]; destruct t as [|y t]; cbn [nonnil orb] in H3, H4.
  - apply andb_true_iff in H3 as [_ H3]. apply negb_true_iff in H3, H4.
    cbn [app]. rewrite app_nil_r. apply cut_last_none in H3. apply cut_none in H4.
    rewrite H3, H4. reflexivity.
  - apply andb_true_iff in H3 as [H3 H5]. apply negb_true_iff in H3, H5.
    rewrite app_nil_r, <- app_assoc. cbn [app].
    assert (Hn : cut_last c_hash (y :: t ++ c_colon :: id) = None).
    { apply cut_last_none. change (y :: t ++ c_colon :: id) with ((y :: t) ++ c_colon :: id).
      rewrite mem_app. cbn [mem] in *. rewrite H3, H5. reflexivity. }
    rewrite Hn. change (y :: t ++ c_colon :: id) with ((y :: t) ++ c_colon :: id).
    rewrite (cut_app _ _ _ H1). reflexivity.
  - apply negb_true_iff in H4. cbn [app]. rewrite (cut_last_app _ _ _ H2).
    apply cut_none in H4. rewrite H4. reflexivity.
  - rewrite <- app_assoc. cbn [app].
    change (y :: t ++ c_colon :: id ++ c_hash :: x :: r)
      with ((y :: t) ++ (c_colon :: id) ++ c_hash :: x :: r).
    rewrite app_assoc, (cut_last_app _ _ _ H2), (cut_app _ _ _ H1). reflexivity.
Qed.

(* the simpler (stronger) hypotheses *)
Corollary to_from_user_parts_simple t id r :
  mem c_colon t = false -> mem c_hash t = false -> mem c_hash id = false ->
  mem c_hash r = false -> (t = [] -> mem c_colon id = false) ->
  to_user_parts (from_user_parts t id r) = (t, id, r).
Proof.
  intros H1 H2 H3 H4 H5. apply to_from_user_parts. unfold user_parts_ok.
  rewrite H1, H2, H3, H4. cbn [negb andb]. rewrite orb_true_r. cbn [andb].
  destruct t as [|y t]; [|reflexivity]. rewrite (H5 eq_refl). reflexivity.
Qed.

(* ------------------------------------------------------------------ *)
(* B'. Byte-level reading of [clean]                                    *)
(* ------------------------------------------------------------------ *)

(* ASCII control byte: 0x00..0x1F or 0x7F *)
Definition ascii_ctl (c : N) : bool := (c <? 32) || (c =? 127).

(* some adjacent byte pair is 0xC2 followed by 0x80..0x9F (the UTF-8 encoding of U+0080..U+009F) *)
Fixpoint c1pair (s : bytes) : bool :=
  match s with
  | [] => false
  | x :: s' => c1head x s' || c1pair s'
  end.

Lemma c1pair_spec s :
  c1pair s = true <-> exists a b rest, s = a ++ 194 :: b :: rest /\ 128 <= b <= 159.
Proof.
  induction s as [|x s IH]; cbn [c1pair].
  - split; [discriminate|]. intros (a & b & rest & H & _). destruct a; discriminate.
  - rewrite orb_true_iff, IH. split.
    + intros [H | (a & b & rest & -> & Hb)].
      * unfold c1head in H. apply andb_true_iff in H as [Hx H]. apply N.eqb_eq in Hx. subst x.
        destruct s as [|b rest]; [discriminate|]. exists [], b, rest.
        split; [reflexivity|]. unfold in_range in H. lia.
      * exists (x :: a), b, rest. split; [reflexivity|exact Hb].
    + intros (a & b & rest & H & Hb). destruct a as [|y a]; cbn [app] in H.
      * inversion H; subst. left. unfold c1head, in_range. cbn [N.eqb Pos.eqb andb]. lia.
      * inversion H; subst. right. exists a, b, rest. split; [reflexivity|exact Hb].
Qed.

Lemma control_runes_from s : forall k, (k <= length s)%nat ->
  forallb cont (firstn k s) = true ->
  existsb is_control (runes_from k s) = existsb ascii_ctl s || c1pair s.
Proof.
  induction s as [|x s IH]; intros k Hk Hc.
  - destruct k; reflexivity.
  - destruct k as [|k].
    + rewrite runes_from_0_cons. destruct (decode1 x s) as [r w] eqn:E.
      cbn [fst snd existsb c1pair].
      destruct (decode1_spec _ _ _ _ E)
        as [[Hw [[Hx Hr] | (Hx & Hr & Hh)]] | (Hw & Hx & Hlen & Hcont & Hr & Hctl)].
      * subst w r. cbn [Nat.pred]. rewrite (IH 0%nat) by (cbn [firstn forallb]; lia || reflexivity).
        assert (H1 : is_control x = ascii_ctl x) by (unfold is_control, ascii_ctl, in_range; lia).
        assert (H2 : c1head x s = false) by (apply c1head_ne; lia).
        rewrite H1, H2. destruct (ascii_ctl x), (existsb ascii_ctl s), (c1pair s); reflexivity.
      * subst w r. cbn [Nat.pred]. rewrite (IH 0%nat) by (cbn [firstn forallb]; lia || reflexivity).
        assert (H1 : ascii_ctl x = false) by (unfold ascii_ctl; lia).
        rewrite H1, Hh. reflexivity.
      * rewrite (IH _ Hlen Hcont), Hctl.
        assert (H1 : ascii_ctl x = false) by (unfold ascii_ctl; lia).
        rewrite H1. destruct (c1head x s), (existsb ascii_ctl s), (c1pair s); reflexivity.
    + cbn [runes_from existsb c1pair]. cbn [firstn forallb] in Hc.
      apply andb_true_iff in Hc as [Hx Hc]. cbn [length] in Hk.
      rewrite (IH k) by (lia || exact Hc).
      assert (H1 : ascii_ctl x = false) by (unfold ascii_ctl, cont, in_range in *; lia).
      assert (H2 : c1head x s = false) by (apply c1head_ne; unfold cont, in_range in *; lia).
      rewrite H1, H2. reflexivity.
Qed.

Lemma control_runes s : existsb is_control (runes s) = existsb ascii_ctl s || c1pair s.
Proof. unfold runes. apply control_runes_from; [lia | reflexivity]. Qed.

Lemma nobad_runes bad s : forallb (fun c => c <? 128) bad = true ->
  forallb (fun c => negb (mem c bad)) (runes s) = forallb (fun c => negb (mem c bad)) s.
Proof.
  intro Hb. rewrite forallb_forall in Hb. apply eq_iff_eq_true. rewrite !forallb_forall.
  split; intros H c Hin; destruct (mem c bad) eqn:Hm; try reflexivity; exfalso;
    apply mem_In in Hm; pose proof (Hb c Hm) as Hc; apply N.ltb_lt in Hc;
    apply (in_runes_ascii c s Hc) in Hin; specialize (H c Hin);
    apply mem_In in Hm; rewrite Hm in H; discriminate.
Qed.

Lemma forallb_andb {A : Type} (f g : A -> bool) l :
  forallb (fun x => f x && g x) l = forallb f l && forallb g l.
Proof.
  induction l as [|x l IH]; [reflexivity|]. cbn [forallb]. rewrite IH.
  destruct (f x), (g x), (forallb f l); reflexivity.
Qed.

Lemma forallb_negb {A : Type} (f : A -> bool) l :
  forallb (fun x => negb (f x)) l = negb (existsb f l).
Proof.
  induction l as [|x l IH]; [reflexivity|]. cbn [forallb existsb]. rewrite IH.
  destruct (f x); reflexivity.
Qed.

(* "no control characters and none of [bad]" read on the bytes, for ASCII [bad] *)
Theorem clean_bytes bad s : forallb (fun c => c <? 128) bad = true ->
  clean bad s =
  forallb (fun c => negb (mem c bad)) s && negb (existsb ascii_ctl s) && negb (c1pair s).
Proof.
  intro Hb. unfold clean.
  rewrite (forallb_andb (fun c => negb (is_control c)) (fun c => negb (mem c bad))).
  rewrite forallb_negb, control_runes, (nobad_runes _ _ Hb), negb_orb.
  destruct (forallb (fun c => negb (mem c bad)) s), (existsb ascii_ctl s), (c1pair s); reflexivity.
Qed.

Theorem clean_bytes_iff bad s : (forall c, In c bad -> c < 128) ->
  (clean bad s = true <->
   (forall c, In c s -> ~ In c bad) /\
   (forall c, In c s -> 32 <= c /\ c <> 127) /\
   (forall a b rest, s = a ++ 194 :: b :: rest -> b < 128 \/ 159 < b)).
Proof.
  intro Hb.
  assert (Hb' : forallb (fun c => c <? 128) bad = true).
  { apply forallb_forall. intros c Hc. apply N.ltb_lt. exact (Hb c Hc). }
  rewrite (clean_bytes _ _ Hb'), !andb_true_iff, !negb_true_iff, forallb_forall.
  split.
  - intros [[H1 H2] H3]. split; [|split].
    + intros c Hc Hin. specialize (H1 c Hc). apply mem_In in Hin. rewrite Hin in H1. discriminate.
    + intros c Hc. destruct (ascii_ctl c) eqn:E; [|unfold ascii_ctl in E; lia].
      exfalso. assert (Hex : existsb ascii_ctl s = true) by (apply existsb_exists; exists c; auto).
      congruence.
    + intros a b rest Hs. destruct (N.lt_ge_cases b 128) as [Hlt|Hge]; [left; exact Hlt|].
      destruct (N.lt_ge_cases 159 b) as [Hlt|Hge2]; [right; exact Hlt|].
      exfalso. assert (Hp : c1pair s = true) by (apply c1pair_spec; exists a, b, rest; auto).
      congruence.
  - intros (H1 & H2 & H3). split; [split|].
    + intros c Hc. destruct (mem c bad) eqn:E; [|reflexivity]. apply mem_In in E.
      exfalso. exact (H1 c Hc E).
    + destruct (existsb ascii_ctl s) eqn:E; [|reflexivity]. apply existsb_exists in E as (c & Hc & E).
      specialize (H2 c Hc). unfold ascii_ctl in E. lia.
    + destruct (c1pair s) eqn:E; [|reflexivity]. apply c1pair_spec in E as (a & b & rest & Hs & Hb2).
      specialize (H3 a b rest Hs). lia.
Qed.

(* ------------------------------------------------------------------ *)
(* C'. The side conditions of the round trips are all needed            *)
(* ------------------------------------------------------------------ *)

Theorem to_from_user_parts_exact t id r :
  mem c_colon t = false -> mem c_hash r = false ->
  (r = [] -> mem c_hash t = false /\ mem c_hash id = false) ->
  (t = [] -> mem c_colon id = false) ->
  to_user_parts (from_user_parts t id r) = (t, id, r).
Proof.
  intros H1 H2 H3 H4. apply to_from_user_parts. unfold user_parts_ok.
  rewrite H1, H2. cbn [negb andb].
  assert (H3' : nonnil r || negb (mem c_hash t) && negb (mem c_hash id) = true).
  { destruct r as [|x r]; [|reflexivity]. destruct (H3 eq_refl) as [Ha Hb].
    rewrite Ha, Hb. reflexivity. }
  assert (H4' : nonnil t || negb (mem c_colon id) = true).
  { destruct t as [|y t]; [|reflexivity]. rewrite (H4 eq_refl). reflexivity. }
  rewrite H3', H4'. reflexivity.
Qed.

(* ':' in the type: "a:" , "b"  ->  "a::b"  ->  ("a", ":b") *)
Theorem to_from_user_parts_type_colon_refuted :
  exists t id r, mem c_colon t = true /\ mem c_hash t = false /\ mem c_hash id = false /\
                 mem c_hash r = false /\ mem c_colon id = false /\
                 to_user_parts (from_user_parts t id r) <> (t, id, r).
Proof. exists [97; 58], [98], []. vm_compute. repeat split; discriminate. Qed.

(* '#' in the relation: "a","b","c#d" -> "a:b#c#d" -> ("a","b#c","d") *)
Theorem to_from_user_parts_relation_hash_refuted :
  exists t id r, mem c_hash r = true /\ mem c_colon t = false /\ mem c_hash t = false /\
                 mem c_hash id = false /\ mem c_colon id = false /\
                 to_user_parts (from_user_parts t id r) <> (t, id, r).
Proof. exists [97], [98], [99; 35; 100]. vm_compute. repeat split; discriminate. Qed.

(* '#' in the id with an empty relation: "a","b#c","" -> "a:b#c" -> ("a","b","c") *)
Theorem to_from_user_parts_id_hash_refuted :
  exists t id, mem c_hash id = true /\ mem c_colon t = false /\ mem c_hash t = false /\ t <> [] /\
               to_user_parts (from_user_parts t id []) <> (t, id, []).
Proof. exists [97], [98; 35; 99]. vm_compute. repeat split; discriminate. Qed.

(* '#' in the type with an empty relation: "a#","b","" -> "a#:b" -> ("","a",":b") *)
Theorem to_from_user_parts_type_hash_refuted :
  exists t id, mem c_hash t = true /\ mem c_colon t = false /\ mem c_hash id = false /\
               to_user_parts (from_user_parts t id []) <> (t, id, []).
Proof. exists [97; 35], [98]. vm_compute. repeat split; discriminate. Qed.

(* empty type and ':' in the id: "","b:c","" -> "b:c" -> ("b","c","") *)
Theorem to_from_user_parts_untyped_colon_refuted :
  exists id, mem c_colon id = true /\ mem c_hash id = false /\
             to_user_parts (from_user_parts [] id []) <> ([], id, []).
Proof. exists [98; 58; 99]. vm_compute. repeat split; discriminate. Qed.

(* but '#' in type or id is harmless when the relation is non-empty *)
Example to_from_user_parts_hash_tolerated :
  to_user_parts (from_user_parts [97; 35] [98; 35] [99]) = ([97; 35], [98; 35], [99]).
Proof. reflexivity. Qed.

(* user proto: each hypothesis of the three round trips is needed *)
Theorem user_proto_object_roundtrip_refuted :
  (exists t id, mem c_colon t = true /\ mem c_hash t = false /\ mem c_hash id = false /\
                id <> [c_star] /\
                string_to_user_proto (user_proto_to_string (UObject t id)) <> UObject t id) /\
  (exists t id, mem c_colon t = false /\ mem c_hash t = true /\ mem c_hash id = false /\
                id <> [c_star] /\
                string_to_user_proto (user_proto_to_string (UObject t id)) <> UObject t id) /\
  (exists t id, mem c_colon t = false /\ mem c_hash t = false /\ mem c_hash id = true /\
                id <> [c_star] /\
                string_to_user_proto (user_proto_to_string (UObject t id)) <> UObject t id) /\
  (exists t id, mem c_colon t = false /\ mem c_hash t = false /\ mem c_hash id = false /\
                id = [c_star] /\
                string_to_user_proto (user_proto_to_string (UObject t id)) <> UObject t id).
Proof.
  split; [|split; [|split]].
  - exists [97; 58], [98]. vm_compute. repeat split; discriminate.
  - exists [97; 35], [98]. vm_compute. repeat split; discriminate.
  - exists [97], [98; 35]. vm_compute. repeat split; discriminate.
  - exists [97], [42]. vm_compute. repeat split; discriminate.
Qed.

Theorem user_proto_wildcard_roundtrip_refuted :
  (exists t, mem c_colon t = true /\ mem c_hash t = false /\
             string_to_user_proto (user_proto_to_string (UWildcard t)) <> UWildcard t) /\
  (exists t, mem c_colon t = false /\ mem c_hash t = true /\
             string_to_user_proto (user_proto_to_string (UWildcard t)) <> UWildcard t).
Proof.
  split.
  - exists [97; 58]. vm_compute. repeat split; discriminate.
  - exists [97; 35]. vm_compute. repeat split; discriminate.
Qed.

Theorem user_proto_userset_roundtrip_refuted :
  (exists t id r, mem c_colon t = true /\ mem c_hash r = false /\ r <> [] /\
     string_to_user_proto (user_proto_to_string (UUserset t id r)) <> UUserset t id r) /\
  (exists t id r, mem c_colon t = false /\ mem c_hash r = true /\ r <> [] /\
     string_to_user_proto (user_proto_to_string (UUserset t id r)) <> UUserset t id r) /\
  (exists t id r, mem c_colon t = false /\ mem c_hash r = false /\ r = [] /\
     string_to_user_proto (user_proto_to_string (UUserset t id r)) <> UUserset t id r).
Proof.
  split; [|split].
  - exists [97; 58], [98], [99]. vm_compute. repeat split; discriminate.
  - exists [97], [98], [99; 35; 100]. vm_compute. repeat split; discriminate.
  - exists [97], [98], []. vm_compute. repeat split; discriminate.
Qed.
