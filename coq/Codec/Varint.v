(* encoding/binary.AppendUvarint and binary.LittleEndian.AppendUint64 (definitions only).

   AppendUvarint(buf, x):  for x >= 0x80 { buf = append(buf, byte(x)|0x80); x >>= 7 }
                           return append(buf, byte(x))
   byte(x)|0x80 for any x is (x mod 128) + 128.  The fuel (log2 x) is always sufficient
   (VarintProofs.uv_fuel_enough), so [uvarint] is total on N without a size bound. *)
From OFGA Require Import Base.Bytes.

Fixpoint uv (fuel : nat) (x : N) : bytes :=
  match fuel with
  | O => [x]
  | S f => if x <? 128 then [x] else (x mod 128 + 128) :: uv f (x / 128)
  end.

Definition uvarint (x : N) : bytes := uv (N.to_nat (N.log2 x)) x.

(* n little-endian bytes of i (i is reduced modulo 256^n, as Go's uint64 conversion does) *)
Fixpoint le_bytes (n : nat) (i : N) : bytes :=
  match n with
  | O => []
  | S n' => (i mod 256) :: le_bytes n' (i / 256)
  end.

Definition le64 (i : N) : bytes := le_bytes 8 i.

Definition two64 : N := 18446744073709551616.
Definition is_u64 (i : N) : bool := i <? two64.

(* decoder, used to state unique decodability as a round trip *)
Fixpoint uv_decode (fuel : nat) (s : bytes) : option (N * bytes) :=
  match fuel, s with
  | _, [] => None
  | O, _ => None
  | S f, b :: s' =>
      if b <? 128 then Some (b, s')
      else match uv_decode f s' with
           | Some (hi, rest) => Some (hi * 128 + (b - 128), rest)
           | None => None
           end
  end.
Definition uvarint_decode (s : bytes) : option (N * bytes) := uv_decode (length s) s.
