(* Executable model of Go's encoding/base64 URLEncoding (alphabet A-Z a-z 0-9 - _, padding '=',
   NON-strict decoding) exactly as used by pkg/encoder/base64.go:
     Encode = base64.URLEncoding.EncodeToString, Decode = base64.URLEncoding.DecodeString.
   Model only; proofs are in Base64Proofs.v.

   Decoder behaviour reproduced from encoding/base64 (decodeQuantum / Decode):
     - '\r' and '\n' are skipped wherever they occur (also between the two '=' and after them);
     - a quantum is 4 alphabet characters; '=' is only legal as 3rd+4th ("xx==") or 4th ("xxx=")
       character of the LAST quantum, anything but newlines after it is "trailing garbage";
     - input ending inside a quantum (1..3 characters, no padding) is an error;
     - the unused low bits of a padded quantum are NOT checked (URLEncoding is not Strict());
     - every other byte is an error.
   Errors are all CorruptInputError in Go; every caller maps them to one class, the model has
   [None].  (Go also returns the partially decoded prefix next to the error; no caller reads it.)
   The 8- and 4-character fast paths of Decode compute the same function as decodeQuantum on
   quanta without special characters and are not modelled separately. *)
From OFGA Require Export Base.Bytes.
Open Scope N_scope.

Definition c_pad : N := 61.  (* '=' *)
Definition c_lf  : N := 10.
Definition c_cr  : N := 13.

(* the URL alphabet: sextet -> character *)
Definition enc_char (v : N) : N :=
  if v <? 26 then 65 + v            (* A-Z *)
  else if v <? 52 then 71 + v       (* a-z : 97 + (v-26) *)
  else if v <? 62 then v - 4        (* 0-9 : 48 + (v-52) *)
  else if v =? 62 then 45           (* '-' *)
  else 95.                          (* '_' *)

(* decodeMap: character -> sextet, None = 0xff *)
Definition dec_char (c : N) : option N :=
  if (65 <=? c) && (c <=? 90) then Some (c - 65)
  else if (97 <=? c) && (c <=? 122) then Some (c - 71)
  else if (48 <=? c) && (c <=? 57) then Some (c + 4)
  else if c =? 45 then Some 62
  else if c =? 95 then Some 63
  else None.

(* ---- Encode ---- *)
(* val = a<<16 | b<<8 | c ; characters val>>18&63, val>>12&63, val>>6&63, val&63 *)
Definition enc3 (a b c : N) : bytes :=
  [enc_char (a / 4); enc_char ((a mod 4) * 16 + b / 16);
   enc_char ((b mod 16) * 4 + c / 64); enc_char (c mod 64)].

Fixpoint b64_encode (bs : bytes) : bytes :=
  match bs with
  | [] => []
  | [a] => [enc_char (a / 4); enc_char ((a mod 4) * 16); c_pad; c_pad]
  | [a; b] => [enc_char (a / 4); enc_char ((a mod 4) * 16 + b / 16); enc_char ((b mod 16) * 4); c_pad]
  | a :: b :: c :: r => enc3 a b c ++ b64_encode r
  end.

(* ---- Decode ---- *)
Definition is_nl (c : N) : bool := (c =? c_lf) || (c =? c_cr).

Fixpoint skip_nl (s : bytes) : bytes :=
  match s with
  | [] => []
  | c :: s' => if is_nl c then skip_nl s' else s
  end.

(* sextets of the quantum collected so far (dbuf[0..j-1]) *)
Inductive qstate := Q0 | Q1 (a : N) | Q2 (a b : N) | Q3 (a b c : N).

(* val = a<<18 | b<<12 | c<<6 | d ; bytes val>>16, val>>8, val *)
Definition out1 (a b : N) : N := a * 4 + b / 16.
Definition out2 (b c : N) : N := (b mod 16) * 16 + c / 4.
Definition out3 (c d : N) : N := (c mod 4) * 64 + d.

Fixpoint b64_dec (st : qstate) (s : bytes) : option bytes :=
  match s with
  | [] => match st with Q0 => Some [] | _ => None end     (* input ends inside a quantum *)
  | ch :: s' =>
    match dec_char ch with
    | Some v =>
      match st with
      | Q0 => b64_dec (Q1 v) s'
      | Q1 a => b64_dec (Q2 a v) s'
      | Q2 a b => b64_dec (Q3 a b v) s'
      | Q3 a b c =>
        match b64_dec Q0 s' with
        | Some r => Some (out1 a b :: out2 b c :: out3 c v :: r)
        | None => None
        end
      end
    | None =>
      if is_nl ch then b64_dec st s'
      else if ch =? c_pad then
        match st with
        | Q0 | Q1 _ => None                                 (* incorrect padding *)
        | Q2 a b =>
          match skip_nl s' with
          | [] => None                                      (* not enough padding *)
          | d :: s'' =>
            if d =? c_pad then
              match skip_nl s'' with
              | [] => Some [out1 a b]
              | _ => None                                   (* trailing garbage *)
              end
            else None
          end
        | Q3 a b c =>
          match skip_nl s' with
          | [] => Some [out1 a b; out2 b c]
          | _ => None                                       (* trailing garbage *)
          end
        end
      else None                                             (* byte outside the alphabet *)
    end
  end.

Definition b64_decode (s : bytes) : option bytes := b64_dec Q0 s.

(* predicates used in the statements *)
Definition byte_ok (b : N) : bool := b <? 256.
Definition bytes_ok (bs : bytes) : bool := forallb byte_ok bs.

Definition is_alpha (c : N) : bool := match dec_char c with Some _ => true | None => false end.
(* the bytes a successfully decoded string may contain *)
Definition is_b64_byte (c : N) : bool := is_alpha c || (c =? c_pad) || is_nl c.
