(* Byte strings as lists of N (each element < 256 when produced by the harness). *)
From Coq Require Export List NArith Bool Arith Lia.
Export ListNotations.
Open Scope N_scope.

Definition bytes := list N.

Definition c_colon : N := 58.
Definition c_hash  : N := 35.
Definition c_at    : N := 64.
Definition c_space : N := 32.
Definition c_star  : N := 42.
Definition c_pipe  : N := 124.

Fixpoint beqb (a b : bytes) : bool :=
  match a, b with
  | [], [] => true
  | x :: a', y :: b' => N.eqb x y && beqb a' b'
  | _, _ => false
  end.

Lemma beqb_eq a b : beqb a b = true <-> a = b.
Proof.
  revert b; induction a as [|x a IH]; intros [|y b]; simpl; split; intro H;
    try reflexivity; try discriminate.
  - apply andb_true_iff in H as [H1 H2]. apply N.eqb_eq in H1. apply IH in H2. congruence.
  - inversion H; subst. rewrite N.eqb_refl. simpl. apply IH. reflexivity.
Qed.

Lemma beqb_refl a : beqb a a = true.
Proof. apply beqb_eq. reflexivity. Qed.

Fixpoint mem (c : N) (s : bytes) : bool :=
  match s with [] => false | x :: s' => N.eqb x c || mem c s' end.

Lemma mem_In c s : mem c s = true <-> In c s.
Proof.
  induction s as [|x s IH]; simpl.
  - split; [discriminate | tauto].
  - rewrite orb_true_iff, N.eqb_eq, IH. tauto.
Qed.

Lemma mem_app c a b : mem c (a ++ b) = mem c a || mem c b.
Proof. induction a as [|x a IH]; simpl; [reflexivity|]. rewrite IH. apply orb_assoc. Qed.

(* strings.IndexByte / strings.Cut on a single byte separator: split at the first c *)
Fixpoint cut (c : N) (s : bytes) : option (bytes * bytes) :=
  match s with
  | [] => None
  | x :: s' => if N.eqb x c then Some ([], s')
               else match cut c s' with
                    | Some (a, b) => Some (x :: a, b)
                    | None => None
                    end
  end.

Lemma cut_app c a b : mem c a = false -> cut c (a ++ c :: b) = Some (a, b).
Proof.
  induction a as [|x a IH]; simpl; intro H.
  - rewrite N.eqb_refl. reflexivity.
  - apply orb_false_iff in H as [H1 H2]. rewrite H1. rewrite (IH H2). reflexivity.
Qed.

Lemma cut_none c s : cut c s = None <-> mem c s = false.
Proof.
  induction s as [|x s IH]; simpl; [tauto|].
  destruct (N.eqb x c); simpl; [split; discriminate|].
  destruct (cut c s) as [[a b]|]; [|tauto].
  split; [discriminate|]. intro H. apply IH in H. discriminate.
Qed.

Lemma cut_some c s a b : cut c s = Some (a, b) -> s = a ++ c :: b /\ mem c a = false.
Proof.
  revert a b; induction s as [|x s IH]; simpl; intros a b H; [discriminate|].
  destruct (N.eqb x c) eqn:E.
  - inversion H; subst. apply N.eqb_eq in E. subst. auto.
  - destruct (cut c s) as [[a' b']|]; [|discriminate]. inversion H; subst.
    destruct (IH a' b eq_refl) as [-> Hm]. simpl. rewrite E. auto.
Qed.

(* strings.LastIndexByte: split at the last c *)
Fixpoint cut_last (c : N) (s : bytes) : option (bytes * bytes) :=
  match s with
  | [] => None
  | x :: s' => match cut_last c s' with
               | Some (a, b) => Some (x :: a, b)
               | None => if N.eqb x c then Some ([], s') else None
               end
  end.

Lemma cut_last_none c s : cut_last c s = None <-> mem c s = false.
Proof.
  induction s as [|x s IH]; simpl; [tauto|].
  destruct (cut_last c s) as [[a b]|].
  - split; [discriminate|]. intro H. apply orb_false_iff in H as [_ H]. apply IH in H. discriminate.
  - destruct (N.eqb x c); simpl; [split; discriminate|]. tauto.
Qed.

Lemma cut_last_app c a b : mem c b = false -> cut_last c (a ++ c :: b) = Some (a, b).
Proof.
  intro Hb. induction a as [|x a IH]; simpl.
  - apply cut_last_none in Hb. rewrite Hb, N.eqb_refl. reflexivity.
  - rewrite IH. reflexivity.
Qed.

Lemma cut_last_some c s a b : cut_last c s = Some (a, b) -> s = a ++ c :: b /\ mem c b = false.
Proof.
  revert a b; induction s as [|x s IH]; simpl; intros a b H; [discriminate|].
  destruct (cut_last c s) as [[a' b']|] eqn:E.
  - inversion H; subst. destruct (IH a' b eq_refl) as [-> Hm]. auto.
  - destruct (N.eqb x c) eqn:Ex; [|discriminate]. inversion H; subst.
    apply N.eqb_eq in Ex. subst. split; [reflexivity|]. apply cut_last_none. exact E.
Qed.
