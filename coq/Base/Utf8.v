(* Go-faithful UTF-8 decoding, as performed by `for _, chr := range s` (unicode/utf8.DecodeRuneInString):
   an invalid or truncated sequence yields U+FFFD with width 1. *)
From OFGA Require Export Base.Bytes.
Open Scope N_scope.

Definition rune_error : N := 65533. (* U+FFFD *)

Definition in_range (lo hi b : N) : bool := N.leb lo b && N.leb b hi.

(* (size, lo, hi) for the second byte, per utf8.first / acceptRanges; size 0 = invalid lead byte *)
Definition lead_info (b : N) : nat * N * N :=
  if N.ltb b 128 then (1%nat, 0, 0)
  else if N.ltb b 194 then (0%nat, 0, 0)                 (* 80..C1 *)
  else if N.leb b 223 then (2%nat, 128, 191)             (* C2..DF *)
  else if N.eqb b 224 then (3%nat, 160, 191)             (* E0 *)
  else if N.leb b 236 then (3%nat, 128, 191)             (* E1..EC *)
  else if N.eqb b 237 then (3%nat, 128, 159)             (* ED *)
  else if N.leb b 239 then (3%nat, 128, 191)             (* EE..EF *)
  else if N.eqb b 240 then (4%nat, 144, 191)             (* F0 *)
  else if N.leb b 243 then (4%nat, 128, 191)             (* F1..F3 *)
  else if N.eqb b 244 then (4%nat, 128, 143)             (* F4 *)
  else (0%nat, 0, 0).

Definition cont (b : N) : bool := in_range 128 191 b.

(* decode the first rune of a non-empty string: (rune, width) *)
Definition decode1 (b0 : N) (rest : bytes) : N * nat :=
  match lead_info b0 with
  | (1%nat, _, _) => (b0, 1%nat)
  | (2%nat, lo, hi) =>
      match rest with
      | b1 :: _ => if in_range lo hi b1
                   then (N.lor (N.shiftl (N.land b0 31) 6) (N.land b1 63), 2%nat)
                   else (rune_error, 1%nat)
      | _ => (rune_error, 1%nat)
      end
  | (3%nat, lo, hi) =>
      match rest with
      | b1 :: b2 :: _ =>
          if in_range lo hi b1 && cont b2
          then (N.lor (N.lor (N.shiftl (N.land b0 15) 12) (N.shiftl (N.land b1 63) 6)) (N.land b2 63), 3%nat)
          else (rune_error, 1%nat)
      | _ => (rune_error, 1%nat)
      end
  | (4%nat, lo, hi) =>
      match rest with
      | b1 :: b2 :: b3 :: _ =>
          if in_range lo hi b1 && cont b2 && cont b3
          then (N.lor (N.lor (N.lor (N.shiftl (N.land b0 7) 18) (N.shiftl (N.land b1 63) 12))
                             (N.shiftl (N.land b2 63) 6)) (N.land b3 63), 4%nat)
          else (rune_error, 1%nat)
      | _ => (rune_error, 1%nat)
      end
  | _ => (rune_error, 1%nat)
  end.

(* The runes of a string in order, each with a flag "starts at byte index 0".
   [skip] = number of continuation bytes of the current rune still to be dropped. *)
Fixpoint runes_from (skip : nat) (s : bytes) : list N :=
  match s with
  | [] => []
  | b :: rest =>
      match skip with
      | S k => runes_from k rest
      | O => let '(r, w) := decode1 b rest in r :: runes_from (Nat.pred w) rest
      end
  end.

Definition runes (s : bytes) : list N := runes_from 0 s.

(* unicode.IsControl: category Cc = U+0000..U+001F, U+007F..U+009F *)
Definition is_control (r : N) : bool := N.ltb r 32 || in_range 127 159 r.

Lemma decode1_width_pos b rest : (1 <= snd (decode1 b rest))%nat.
Proof.
  unfold decode1. destruct (lead_info b) as [[n lo] hi].
  destruct n as [|[|[|[|[|n]]]]]; simpl; try lia.
  - destruct rest as [|b1 r]; simpl; [lia|]. destruct (in_range lo hi b1); simpl; lia.
  - destruct rest as [|b1 [|b2 r]]; simpl; try lia.
    destruct (in_range lo hi b1 && cont b2); simpl; lia.
  - destruct rest as [|b1 [|b2 [|b3 r]]]; simpl; try lia.
    destruct (in_range lo hi b1 && cont b2 && cont b3); simpl; lia.
Qed.
