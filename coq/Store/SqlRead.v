(* C13 — the WHERE clauses that pkg/storage/sqlite/sqlite.go builds with squirrel for the four
   read operations, read as predicates over the rows of the `tuple` table (as coded).
   A row is a ReadSpec.tuple: columns object_type, object_id, relation, user_object_type,
   user_object_id, user_relation, condition_name (NULL and '' coincide under the COALESCE the
   code uses), condition_context; the column user_type is written at insert time as
   tuple.GetUserTypeFromUser(user), i.e. [is_userset_user].
   Trusted, not modelled: that SQLite evaluates `a = ?`, `a IN (?, …)`, AND / OR as equality,
   membership, conjunction, disjunction; that squirrel renders sq.Eq / sq.Or / an empty sq.Or as
   read here (squirrel v1.5.4 renders an empty sq.Or as (1=0), i.e. false).  Tied to the engine by the
   correspondence run only.
   Definitions only. *)
From OFGA Require Import Base.Bytes Store.ReadSpec.

(* `if x != "" { sb = sb.Where(sq.Eq{col: x}) }` *)
Definition sq_opt_eq (x col : bytes) : bool := beqb x [] || beqb col x.
(* `sq.Eq{col: x}` *)
Definition sq_eq (x col : bytes) : bool := beqb col x.
(* `sq.Eq{"COALESCE(condition_name, '')": filter.Conditions}` under `if len(Conditions) > 0` *)
Definition sq_conds (cs : list bytes) (t : tuple) : bool :=
  null cs || existsb (beqb (t_cond t)) cs.

Definition row_user_type_is_userset (t : tuple) : bool := is_userset_user (t_user t).

(* SplitObject(filter.Object): "" -> ("",""), "type:" -> (type,""), "type:id" -> (type,id) *)
Definition sq_obj (o : ofilter) (t : tuple) : bool :=
  match o with
  | OAny => true
  | OType ty => sq_opt_eq ty (t_otype t)
  | OFull ty id => sq_opt_eq ty (t_otype t) && sq_opt_eq id (t_oid t)
  end.

(* sqlite.go:177 read.  `if filter.User != ""`: ToUserParts; type and id get a predicate when
   non-empty; user_relation gets one `if userRelation != "" || userObjectID != ""` (since
   a279b76: "type:id" names the object itself; the type prefix "type:" leaves it open). *)
Definition sq_read_user (u : ufilter) (t : tuple) : bool :=
  match u with
  | UAny => true
  | UType ty => sq_opt_eq ty (u_type (t_user t))
  | UExact x => sq_opt_eq (u_type x) (u_type (t_user t)) && sq_opt_eq (u_id x) (u_id (t_user t)) &&
                (if negb (beqb (u_rel x) []) || negb (beqb (u_id x) [])
                 then sq_eq (u_rel x) (u_rel (t_user t)) else true)
  end.

Definition sql_read_where (f : read_filter) (t : tuple) : bool :=
  sq_obj (rf_obj f) t && sq_opt_eq (rf_rel f) (t_rel t) && sq_read_user (rf_usr f) t &&
  sq_conds (rf_conds f) t.
Definition sql_read (s : store) (f : read_filter) : list tuple :=
  map obs (filter (sql_read_where f) s).

(* sqlite.go:687 ReadUserTuple: one sq.Eq over all key columns and user_type, QueryRow = the
   first row of the result. *)
Definition sql_rut_where (k : key) (cs : list bytes) (t : tuple) : bool :=
  sq_eq (k_otype k) (t_otype t) && sq_eq (k_oid k) (t_oid t) && sq_eq (k_rel k) (t_rel t) &&
  sq_eq (u_type (k_user k)) (u_type (t_user t)) && sq_eq (u_id (k_user k)) (u_id (t_user t)) &&
  sq_eq (u_rel (k_user k)) (u_rel (t_user t)) &&
  Bool.eqb (is_userset_user (k_user k)) (row_user_type_is_userset t) &&
  sq_conds cs t.
Definition sql_read_user_tuple (s : store) (k : key) (cs : list bytes) : option tuple :=
  hd_error (map obs (filter (sql_rut_where k cs) s)).

(* sqlite.go:752 ReadUsersetTuples.  One OR-term per restriction that is a Relation reference
   (user_object_type = T AND user_relation = R) or a Wildcard reference (user_object_type = T AND
   user_object_id = '*'); any other reference adds no term; the OR of no terms is false. *)
Definition sq_restr_terms (rs : list restriction) : list (tuple -> bool) :=
  flat_map (fun r =>
    match r with
    | RRel ty rel => [fun t => sq_eq ty (u_type (t_user t)) && sq_eq rel (u_rel (t_user t))]
    | RWild ty => [fun t => sq_eq ty (u_type (t_user t)) && sq_eq star (u_id (t_user t))]
    | RBare _ => []
    end) rs.
Definition sq_or (terms : list (tuple -> bool)) (t : tuple) : bool :=
  existsb (fun p => p t) terms.

Definition sql_usersets_where (f : usersets_filter) (t : tuple) : bool :=
  row_user_type_is_userset t && sq_obj (uf_obj f) t && sq_opt_eq (uf_rel f) (t_rel t) &&
  (null (uf_restr f) || sq_or (sq_restr_terms (uf_restr f)) t) && sq_conds (uf_conds f) t.
Definition sql_read_userset_tuples (s : store) (f : usersets_filter) : list tuple :=
  map obs (filter (sql_usersets_where f) s).

(* sqlite.go:808 ReadStartingWithUser.  Per user filter one sq.Eq over user_object_type,
   user_object_id and user_relation (since a279b76 always, empty for objects and wildcards);
   ObjectIDs only when non-nil AND Size() > 0. *)
Definition sq_rswu_user (u : user) (t : tuple) : bool :=
  sq_eq (u_type u) (u_type (t_user t)) && sq_eq (u_id u) (u_id (t_user t)) &&
  sq_eq (u_rel u) (u_rel (t_user t)).

Definition sq_rswu_oids (o : option (list bytes)) (t : tuple) : bool :=
  match o with
  | None => true
  | Some [] => true
  | Some l => existsb (beqb (t_oid t)) l
  end.

Definition sql_rswu_where (f : rswu_filter) (t : tuple) : bool :=
  sq_eq (sf_otype f) (t_otype t) && sq_eq (sf_rel f) (t_rel t) &&
  sq_or (map sq_rswu_user (sf_users f)) t && sq_rswu_oids (sf_oids f) t && sq_conds (sf_conds f) t.
Definition sql_rswu (s : store) (f : rswu_filter) : list tuple :=
  map obs (filter (sql_rswu_where f) s).
