(* Proofs for Store/Models.v (C17). *)
From OFGA Require Import Base.Bytes Store.Assertions Store.AssertionsProofs Store.Models.

Lemma bltb_irrefl a : bltb a a = false.
Proof. induction a as [|x a IH]; simpl; [reflexivity|]. rewrite N.ltb_irrefl, N.eqb_refl. exact IH. Qed.

Lemma is_ulid_nonempty (id : bytes) : is_ulid id = true -> id <> [].
Proof. intros H E. subst. discriminate. Qed.

Lemma bltb_neq a b : bltb a b = true -> a <> b.
Proof. intros H E. subst. rewrite bltb_irrefl in H. discriminate. Qed.

Section ModelsProofs.
  Variable body : Type.
  Variable valid : body -> bool.
  Variable wf : body -> bool.
  Variable ntypes : body -> N.
  Variable size : body -> N.
  (* req.Validate(): a request without type definitions is rejected *)
  Hypothesis wf_ntypes : forall b, wf b = true -> ntypes b <> 0.

  Notation model := (model body).
  Notation mbackend := (mbackend body).
  Notation mop := (mop body).
  Notation mout := (mout body).
  Notation massoc := (massoc body).
  Notation spec_rev := (spec_rev body valid wf ntypes size).
  Notation spec_out := (spec_out body valid wf ntypes size).
  Notation accepts := (accepts body valid wf ntypes size).
  Notation mstep := (mstep body valid wf ntypes size).
  Notation mrun := (mrun body valid wf ntypes size).
  Notation mtrace := (mtrace body valid wf ntypes size).

  Definition content := bytes -> list model.
  Definition cupd (c : content) (s : bytes) (v : list model) : content :=
    fun s' => if beqb s s' then v else c s'.

  Definition all_below (l : list model) (id : bytes) : Prop := forall y, In y l -> bltb (fst y) id = true.

  Fixpoint desc (l : list model) : Prop :=
    match l with
    | [] => True
    | x :: r => all_below r (fst x) /\ desc r
    end.

  Definition cwf (c : content) : Prop :=
    forall s, desc (c s) /\ forall m, In m (c s) -> valid (snd m) = true /\ wf (snd m) = true.

  (* ---- lists ---------------------------------------------------------------------------- *)

  Lemma massoc_In id (l : list model) b : massoc id l = Some b -> In (id, b) l.
  Proof.
    unfold Models.massoc. induction l as [|[i b0] l IH]; simpl; [discriminate|].
    destruct (beqb i id) eqn:E.
    - intro H. inversion H; subst. apply beqb_eq in E. subst. left. reflexivity.
    - intro H. right. apply IH. exact H.
  Qed.

  Lemma massoc_fresh id (l : list model) : all_below l id -> massoc id l = None.
  Proof.
    unfold Models.massoc. induction l as [|[i b0] l IH]; intro H; simpl; [reflexivity|].
    destruct (beqb i id) eqn:E.
    - apply beqb_eq in E. subst. specialize (H (id, b0) (or_introl eq_refl)). simpl in H.
      rewrite bltb_irrefl in H. discriminate.
    - apply IH. intros y Hy. apply H. right. exact Hy.
  Qed.

  Lemma mremove_fresh id (l : list model) : all_below l id -> mremove body id l = l.
  Proof.
    induction l as [|[i b0] l IH]; intro H; simpl; [reflexivity|].
    destruct (beqb i id) eqn:E.
    - apply beqb_eq in E. subst. specialize (H (id, b0) (or_introl eq_refl)). simpl in H.
      rewrite bltb_irrefl in H. discriminate.
    - f_equal. apply IH. intros y Hy. apply H. right. exact Hy.
  Qed.

  Lemma insert_desc_top x (l : list model) : all_below l (fst x) -> insert_desc body x l = x :: l.
  Proof.
    destruct l as [|y r]; intro H; simpl; [reflexivity|].
    rewrite (H y (or_introl eq_refl)). reflexivity.
  Qed.

  Lemma sort_desc_sorted (l : list model) : desc l -> sort_desc body l = l.
  Proof.
    induction l as [|x r IH]; intro H; [reflexivity|].
    destruct H as [Hb Hd]. unfold sort_desc in *. simpl. rewrite (IH Hd). apply insert_desc_top. exact Hb.
  Qed.

  Lemma massoc_cons_other id i b (l : list model) : i <> id -> massoc id ((i, b) :: l) = massoc id l.
  Proof.
    intro H. unfold Models.massoc. simpl. destruct (beqb i id) eqn:E; [|reflexivity].
    apply beqb_eq in E. contradiction.
  Qed.

  Lemma massoc_cons_same id b (l : list model) : massoc id ((id, b) :: l) = Some b.
  Proof. unfold Models.massoc. simpl. rewrite beqb_refl. reflexivity. Qed.

  (* ---- backend laws ---------------------------------------------------------------------- *)

  Record mbackend_ok (B : mbackend) : Type := mkMBOk {
    rep : mb_state body B -> content -> Prop;
    rep_ext : forall st c c', (forall s, c s = c' s) -> rep st c -> rep st c';
    rep_init : rep (mb_init body B) (fun _ => []);
    rep_read : forall st c, rep st c -> cwf c -> forall s id, id <> [] -> mb_read body B st s id = massoc id (c s);
    rep_latest : forall st c, rep st c -> cwf c -> forall s, mb_latest body B st s = hd_error (c s);
    rep_list : forall st c, rep st c -> cwf c -> forall s, mb_list body B st s = map fst (c s);
    rep_write : forall st c s id b, rep st c -> cwf c -> all_below (c s) id -> ntypes b <> 0 ->
      exists st', mb_write body B st s id b = Some st' /\ rep st' (cupd c s ((id, b) :: c s))
  }.

  (* memory *)
  Definition mem_rep (st : mmem_state body) (c : content) : Prop :=
    forall s, match alookup beqb s st with
              | None => c s = []
              | Some ms => ms_entries body ms = c s /\ ms_latest body ms = option_map fst (hd_error (c s))
              end.

  Lemma cwf_ntypes c s m : cwf c -> In m (c s) -> ntypes (snd m) <> 0.
  Proof. intros W H. apply wf_ntypes. apply (proj2 (W s) m H). Qed.

  Definition mem_mbackend_ok : mbackend_ok (mem_mbackend body ntypes).
  Proof.
    refine (mkMBOk (mem_mbackend body ntypes) mem_rep _ _ _ _ _ _).
    - intros st c c' E R s. specialize (R s). rewrite <- (E s). exact R.
    - intro s. reflexivity.
    - intros st c R W s id Hne. simpl. unfold mmem_read. specialize (R s).
      destruct (alookup beqb s st) as [ms|]; [|rewrite R; reflexivity].
      destruct R as [R1 _].
      assert (Hf : mmem_find body ms id = massoc id (ms_entries body ms)) by (destruct id; [contradiction | reflexivity]).
      rewrite Hf, R1.
      destruct (massoc id (c s)) as [b|] eqn:E; [|reflexivity].
      pose proof (cwf_ntypes c s (id, b) W (massoc_In _ _ _ E)) as Hn. simpl in Hn.
      apply N.eqb_neq in Hn. rewrite Hn. reflexivity.
    - intros st c R W s. simpl. unfold mmem_latest. specialize (R s).
      destruct (alookup beqb s st) as [ms|]; [|rewrite R; reflexivity].
      destruct R as [R1 R2]. rewrite R2, R1.
      destruct (c s) as [|[i b] r]; [reflexivity|]. cbn [hd_error option_map fst]. rewrite massoc_cons_same. reflexivity.
    - intros st c R W s. simpl. unfold mmem_list. specialize (R s).
      destruct (alookup beqb s st) as [ms|]; [|rewrite R; reflexivity].
      destruct R as [R1 _]. rewrite R1, (sort_desc_sorted _ (proj1 (W s))). reflexivity.
    - intros st c s id b R W Hb Hn. simpl. unfold mmem_write. eexists. split; [reflexivity|].
      intro s'. unfold cupd. destruct (beqb s s') eqn:E.
      + apply beqb_eq in E. subst s'. rewrite (alookup_upsert_same _ _ beqb beqb_eq). simpl.
        specialize (R s). destruct (alookup beqb s st) as [ms|].
        * destruct R as [R1 _]. rewrite R1, (mremove_fresh _ _ Hb). auto.
        * rewrite R. simpl. auto.
      + assert (Hne : s <> s') by (intro; subst; rewrite beqb_refl in E; discriminate).
        rewrite (alookup_upsert_other _ _ beqb beqb_eq _ _ _ _ Hne). apply R.
  Defined.

  (* sqlite *)
  Definition sql_rep (st : msql_state body) (c : content) : Prop := forall s, rows_of body st s = c s.

  Lemma sql_read_rows (st : msql_state body) s id : alookup key_eqb (s, id) st = massoc id (rows_of body st s).
  Proof.
    unfold Models.massoc. induction st as [|[[s0 i0] b0] st IH]; simpl; [reflexivity|].
    unfold key_eqb at 1. simpl. destruct (beqb s0 s); simpl; [|exact IH].
    destruct (beqb i0 id); [reflexivity | exact IH].
  Qed.

  Definition sql_mbackend_ok : mbackend_ok (sql_mbackend body ntypes).
  Proof.
    refine (mkMBOk (sql_mbackend body ntypes) sql_rep _ _ _ _ _ _).
    - intros st c c' E R s. rewrite <- (E s). apply R.
    - intro s. reflexivity.
    - intros st c R W s id _. simpl. unfold msql_read. rewrite sql_read_rows, (R s). reflexivity.
    - intros st c R W s. simpl. unfold msql_latest. rewrite (R s), (sort_desc_sorted _ (proj1 (W s))). reflexivity.
    - intros st c R W s. simpl. unfold msql_list. rewrite (R s), (sort_desc_sorted _ (proj1 (W s))). reflexivity.
    - intros st c s id b R W Hb Hn. simpl. unfold msql_write.
      apply N.eqb_neq in Hn. rewrite Hn.
      rewrite sql_read_rows, (R s), (massoc_fresh _ _ Hb).
      eexists. split; [reflexivity|]. intro s'. unfold cupd. simpl.
      destruct (beqb s s') eqn:E.
      + apply beqb_eq in E. subst s'. rewrite (R s). reflexivity.
      + apply R.
  Defined.

  (* ---- server invariant ------------------------------------------------------------------ *)

  Section Srv.
    Variable B : mbackend.
    Variable OK : mbackend_ok B.

    Definition coherent (cache : list (key * body)) (c : content) : Prop :=
      forall s id b, alookup key_eqb (s, id) cache = Some b -> massoc id (c s) = Some b.

    Definition SInv (st : mserver body B) (c : content) : Prop :=
      rep B OK (sm_ds body B st) c /\ cwf c /\ coherent (sm_mcache body B st) c /\ coherent (sm_tscache body B st) c.

    Lemma coherent_upsert cache c s id b :
      coherent cache c -> massoc id (c s) = Some b -> coherent (aupsert key_eqb (s, id) b cache) c.
    Proof.
      intros H Hb s' id' b' L.
      destruct (key_eqb (s, id) (s', id')) eqn:E.
      - apply key_eqb_eq in E. inversion E; subst.
        rewrite (alookup_upsert_same _ _ key_eqb key_eqb_eq) in L. inversion L; subst. exact Hb.
      - apply key_eqb_neq in E.
        rewrite (alookup_upsert_other _ _ key_eqb key_eqb_eq _ _ _ _ E) in L. apply H. exact L.
    Qed.

    Lemma SInv_init : SInv (mserver_init body B) (fun _ => []).
    Proof.
      split; [apply rep_init|]. split; [|split].
      - intro s. split; [exact I | intros m []].
      - intros s id b L. discriminate.
      - intros s id b L. discriminate.
    Qed.

    (* cached_read returns what the content holds and keeps the invariant *)
    Lemma cached_read_ok st c s (id : bytes) :
      id <> [] ->
      SInv st c ->
      snd (cached_read body B st s id) = massoc id (c s) /\ SInv (fst (cached_read body B st s id)) c.
    Proof.
      intros Hne (R & W & Cm & Ct). unfold cached_read.
      destruct (alookup key_eqb (s, id) (sm_mcache body B st)) as [b|] eqn:L; simpl.
      - split; [symmetry; apply Cm; exact L | exact (conj R (conj W (conj Cm Ct)))].
      - rewrite (rep_read B OK _ _ R W _ _ Hne).
        destruct (massoc id (c s)) as [b|] eqn:E; simpl.
        + split; [reflexivity|]. split; [exact R|]. split; [exact W|]. split; [|exact Ct].
          apply coherent_upsert; assumption.
        + split; [reflexivity | exact (conj R (conj W (conj Cm Ct)))].
    Qed.

    Lemma content_valid c s id b : cwf c -> massoc id (c s) = Some b -> valid b = true.
    Proof. intros W E. apply massoc_In in E. apply (proj2 (W s) _ E). Qed.

    (* freshness of the id drawn by a write, relative to the operations already executed *)
    Definition fresh_for (rp : list mop) (o : mop) : Prop :=
      match o with
      | MWrite _ _ _ id => forall i, In i (write_ids body rp) -> bltb i id = true
      | _ => True
      end.

    Lemma spec_rev_ids rp s m : In m (spec_rev rp s) -> In (fst m) (write_ids body rp).
    Proof.
      induction rp as [|o rp IH]; simpl; [tauto|].
      destruct o as [s' b id | | |]; simpl; try exact IH.
      destruct (beqb s' s && accepts s' b); simpl.
      - intros [H | H]; [left; subst; reflexivity | right; apply IH; exact H].
      - intro H. right. apply IH. exact H.
    Qed.

    Lemma accepts_true s b :
      is_ulid s && wf b = true -> (max_types <? ntypes b) = false -> (max_model_size <? size b) = false ->
      valid b = true -> accepts s b = true.
    Proof. intros H1 H2 H3 H4. unfold Models.accepts. rewrite H1, H2, H3, H4. reflexivity. Qed.

    Lemma spec_rev_rejected s b id rp s' : accepts s b = false -> spec_rev (MWrite body s b id :: rp) s' = spec_rev rp s'.
    Proof. intro H. simpl. rewrite H, andb_false_r. reflexivity. Qed.

    Lemma mstep_ok st rp o :
      SInv st (spec_rev rp) -> fresh_for rp o ->
      snd (mstep B st o) = spec_out rp o /\ SInv (fst (mstep B st o)) (spec_rev (o :: rp)).
    Proof.
      intros Inv Hf. pose proof Inv as (R & W & Cm & Ct).
      destruct o as [s b id | s id | s | s ido].
      - (* write *)
        cbn [Models.mstep Models.spec_out].
        destruct (is_ulid s && wf b) eqn:E1; cbn [negb].
        2:{ split; [reflexivity|]. cbn [fst]. unfold SInv.
            assert (A : accepts s b = false) by (unfold Models.accepts; rewrite E1; reflexivity).
            split; [|split; [|split]].
            - apply (rep_ext B OK _ (spec_rev rp)); [intro s'; symmetry; apply spec_rev_rejected; exact A | exact R].
            - intro s'. rewrite (spec_rev_rejected _ _ _ _ s' A). apply W.
            - intros s' id' b' L. rewrite (spec_rev_rejected _ _ _ _ s' A). apply Cm. exact L.
            - intros s' id' b' L. rewrite (spec_rev_rejected _ _ _ _ s' A). apply Ct. exact L. }
        destruct (max_types <? ntypes b) eqn:E2.
        { split; [reflexivity|]. cbn [fst]. unfold SInv.
          assert (A : accepts s b = false) by (unfold Models.accepts; rewrite E1, E2; reflexivity).
          split; [|split; [|split]].
          - apply (rep_ext B OK _ (spec_rev rp)); [intro s'; symmetry; apply spec_rev_rejected; exact A | exact R].
          - intro s'. rewrite (spec_rev_rejected _ _ _ _ s' A). apply W.
          - intros s' id' b' L. rewrite (spec_rev_rejected _ _ _ _ s' A). apply Cm. exact L.
          - intros s' id' b' L. rewrite (spec_rev_rejected _ _ _ _ s' A). apply Ct. exact L. }
        destruct (max_model_size <? size b) eqn:E3.
        { split; [reflexivity|]. cbn [fst]. unfold SInv.
          assert (A : accepts s b = false) by (unfold Models.accepts; rewrite E1, E2, E3; reflexivity).
          split; [|split; [|split]].
          - apply (rep_ext B OK _ (spec_rev rp)); [intro s'; symmetry; apply spec_rev_rejected; exact A | exact R].
          - intro s'. rewrite (spec_rev_rejected _ _ _ _ s' A). apply W.
          - intros s' id' b' L. rewrite (spec_rev_rejected _ _ _ _ s' A). apply Cm. exact L.
          - intros s' id' b' L. rewrite (spec_rev_rejected _ _ _ _ s' A). apply Ct. exact L. }
        destruct (valid b) eqn:E4; cbn [negb].
        2:{ split; [reflexivity|]. cbn [fst]. unfold SInv.
            assert (A : accepts s b = false) by (unfold Models.accepts; rewrite E1, E2, E3, E4; reflexivity).
            split; [|split; [|split]].
            - apply (rep_ext B OK _ (spec_rev rp)); [intro s'; symmetry; apply spec_rev_rejected; exact A | exact R].
            - intro s'. rewrite (spec_rev_rejected _ _ _ _ s' A). apply W.
            - intros s' id' b' L. rewrite (spec_rev_rejected _ _ _ _ s' A). apply Cm. exact L.
            - intros s' id' b' L. rewrite (spec_rev_rejected _ _ _ _ s' A). apply Ct. exact L. }
        (* accepted *)
        assert (A : accepts s b = true) by (apply accepts_true; assumption).
        apply andb_true_iff in E1 as [Eu Ew].
        assert (Hb : all_below (spec_rev rp s) id).
        { intros y Hy. apply Hf. apply (spec_rev_ids rp s y Hy). }
        destruct (rep_write B OK _ _ s id b R W Hb (wf_ntypes b Ew)) as [ds' [Hw R']].
        rewrite Hw. split; [reflexivity|]. cbn [fst]. unfold SInv. cbn [sm_ds sm_mcache sm_tscache].
        assert (Ext : forall s', cupd (spec_rev rp) s ((id, b) :: spec_rev rp s) s' = spec_rev (MWrite body s b id :: rp) s').
        { intro s'. unfold cupd. simpl. rewrite A, andb_true_r.
          destruct (beqb s s') eqn:E; [|reflexivity]. apply beqb_eq in E. subst. reflexivity. }
        assert (Keep : forall s' id' b', massoc id' (spec_rev rp s') = Some b' ->
                         massoc id' (spec_rev (MWrite body s b id :: rp) s') = Some b').
        { intros s' id' b' L. rewrite <- Ext. unfold cupd.
          destruct (beqb s s') eqn:E; [|exact L]. apply beqb_eq in E. subst s'.
          rewrite massoc_cons_other; [exact L|].
          intro Heq. subst id'. rewrite (massoc_fresh _ _ Hb) in L. discriminate. }
        split; [|split; [|split]].
        + apply (rep_ext B OK _ _ _ Ext). exact R'.
        + intro s'. rewrite <- Ext. unfold cupd. destruct (beqb s s') eqn:E; [|apply W].
          apply beqb_eq in E. subst s'. split.
          * simpl. split; [exact Hb | apply (proj1 (W s))].
          * intros m [Hm | Hm]; [subst m; simpl; auto | apply (proj2 (W s) m Hm)].
        + intros s' id' b' L. apply Keep. apply Cm. exact L.
        + intros s' id' b' L. apply Keep. apply Ct. exact L.
      - (* read *)
        cbn [Models.mstep Models.spec_out].
        destruct (is_ulid s && is_ulid id) eqn:Eu; cbn [negb]; [|split; [reflexivity | exact Inv]].
        apply andb_true_iff in Eu as [_ Eu].
        destruct (cached_read_ok st _ s id (is_ulid_nonempty _ Eu) Inv) as [Hr Hi].
        destruct (cached_read body B st s id) as [st1 r]. cbn [fst snd] in *. subst r.
        destruct (massoc id (spec_rev rp s)); split; try reflexivity; exact Hi.
      - (* list *)
        cbn [Models.mstep Models.spec_out].
        destruct (is_ulid s); cbn [negb]; [|split; [reflexivity | exact Inv]].
        split; [|exact Inv]. cbn [snd]. rewrite (rep_list B OK _ _ R W). reflexivity.
      - (* resolve *)
        cbn [Models.mstep Models.spec_out].
        destruct (is_ulid s && match ido with Some id => is_ulid id | None => true end) eqn:Eu; cbn [negb];
          [|split; [reflexivity | exact Inv]].
        apply andb_true_iff in Eu as [_ Eu].
        unfold resolve. destruct ido as [id|].
        + destruct (ulid_parse_ok id); cbn [negb]; [|split; [reflexivity | exact Inv]].
          destruct (alookup key_eqb (s, id) (sm_tscache body B st)) as [b|] eqn:L.
          * rewrite (Ct _ _ _ L). split; [reflexivity | exact Inv].
          * destruct (cached_read_ok st _ s id (is_ulid_nonempty _ Eu) Inv) as [Hr Hi].
            destruct (cached_read body B st s id) as [st1 r]. cbn [fst snd] in *. subst r.
            destruct (massoc id (spec_rev rp s)) as [b|] eqn:E; [|split; [reflexivity | exact Hi]].
            destruct Hi as (R1 & W1 & Cm1 & Ct1).
            rewrite (content_valid _ _ _ _ W E).
            split; [reflexivity|]. cbn [fst]. unfold SInv. cbn [sm_ds sm_mcache sm_tscache].
            split; [exact R1|]. split; [exact W1|]. split; [exact Cm1|].
            apply coherent_upsert; assumption.
        + rewrite (rep_latest B OK _ _ R W).
          destruct (spec_rev rp s) as [|[id b] r] eqn:E; cbn [hd_error]; [split; [reflexivity | exact Inv]|].
          assert (Hm : massoc id (spec_rev rp s) = Some b) by (rewrite E; apply massoc_cons_same).
          destruct (alookup key_eqb (s, id) (sm_tscache body B st)) as [b'|] eqn:L.
          * pose proof (Ct _ _ _ L) as Hc. rewrite Hm in Hc. inversion Hc; subst b'.
            split; [reflexivity | exact Inv].
          * rewrite (content_valid _ _ _ _ W Hm).
            split; [reflexivity|]. cbn [fst]. unfold SInv. cbn [sm_ds sm_mcache sm_tscache].
            split; [exact R|]. split; [exact W|]. split; [exact Cm|].
            apply coherent_upsert; assumption.
    Qed.

    Lemma SInv_nonwrite st rp o :
      match o with MWrite _ _ _ _ => False | _ => True end ->
      SInv st (spec_rev (o :: rp)) -> SInv st (spec_rev rp).
    Proof. destruct o; simpl; tauto. Qed.

    (* ids_increasing_from, as a property of each step *)
    Lemma incr_head seen o h :
      ids_increasing_from body seen (o :: h) = true ->
      match o with MWrite _ _ _ id => forall i, In i seen -> bltb i id = true | _ => True end /\
      ids_increasing_from body (match o with MWrite _ _ _ id => id :: seen | _ => seen end) h = true.
    Proof.
      destruct o as [s b id | | |]; simpl; intro H; try (split; [exact I | exact H]).
      apply andb_true_iff in H as [H1 H2]. split; [|exact H2].
      intros i Hi. rewrite forallb_forall in H1. apply H1. exact Hi.
    Qed.

    Lemma write_ids_cons o rp :
      write_ids body (o :: rp) = match o with MWrite _ _ _ id => id :: write_ids body rp | _ => write_ids body rp end.
    Proof. destruct o; reflexivity. Qed.

    Lemma mtrace_refines h : forall st rp,
      SInv st (spec_rev rp) -> ids_increasing_from body (write_ids body rp) h = true ->
      mtrace B st h = spec_trace_from body valid wf ntypes size rp h.
    Proof.
      induction h as [|o h IH]; intros st rp Inv Hi; [reflexivity|].
      apply incr_head in Hi as [Hf Hi].
      assert (Hfresh : fresh_for rp o) by (destruct o; simpl; auto).
      destruct (mstep_ok st rp o Inv Hfresh) as [Hout Hinv].
      cbn [Models.mtrace Models.spec_trace_from].
      destruct (mstep B st o) as [st' out]. cbn [fst snd] in *. subst out. f_equal.
      apply IH; [exact Hinv|]. rewrite write_ids_cons. destruct o; exact Hi.
    Qed.

    Lemma mrun_inv h : forall st rp,
      SInv st (spec_rev rp) -> ids_increasing_from body (write_ids body rp) h = true ->
      SInv (mrun B st h) (spec_rev (rev h ++ rp)).
    Proof.
      induction h as [|o h IH]; intros st rp Inv Hi; [exact Inv|].
      apply incr_head in Hi as [Hf Hi].
      assert (Hfresh : fresh_for rp o) by (destruct o; simpl; auto).
      destruct (mstep_ok st rp o Inv Hfresh) as [_ Hinv].
      cbn [Models.mrun]. simpl rev. rewrite <- app_assoc. simpl app.
      apply IH; [exact Hinv|]. rewrite write_ids_cons. destruct o; exact Hi.
    Qed.

    Lemma mout_after h o :
      ids_increasing body (h ++ [o]) = true ->
      snd (mstep B (mrun B (mserver_init body B) h) o) = spec_out (rev h) o.
    Proof.
      intro Hi. unfold ids_increasing in Hi.
      assert (G : forall h seen, ids_increasing_from body seen (h ++ [o]) = true ->
                  ids_increasing_from body seen h = true /\
                  match o with MWrite _ _ _ id => forall i, In i (write_ids body (rev h) ++ seen) -> bltb i id = true | _ => True end).
      { clear. induction h as [|o' h IH]; intros seen H.
        - simpl app in H. apply incr_head in H as [H1 _]. split; [reflexivity|]. destruct o; auto.
        - simpl app in H. apply incr_head in H as [H1 H2]. apply IH in H2 as [H2 H3]. split.
          + destruct o'; simpl; try exact H2. apply andb_true_iff. split; [|exact H2].
            apply forallb_forall. exact H1.
          + destruct o as [s b id | | |]; auto. intros i Hin. apply H3.
            simpl rev in Hin.
            assert (W : forall a b', write_ids body (a ++ b') = write_ids body a ++ write_ids body b').
            { clear. induction a as [|x a IHa]; intro b'; simpl; [reflexivity|]. destruct x; simpl; rewrite IHa; reflexivity. }
            rewrite W in Hin. rewrite <- app_assoc in Hin.
            apply in_app_or in Hin as [Hin | Hin]; apply in_or_app; [left; exact Hin | right].
            destruct o'; simpl in *; auto. }
      destruct (G h [] Hi) as [Hh Ho].
      pose proof (mrun_inv h (mserver_init body B) [] SInv_init Hh) as Inv. rewrite app_nil_r in Inv.
      apply mstep_ok; [exact Inv|]. destruct o; simpl; auto. intros i Hin. apply Ho. rewrite app_nil_r. exact Hin.
    Qed.

    Theorem m_refines h :
      ids_increasing body h = true -> mtrace B (mserver_init body B) h = spec_trace body valid wf ntypes size h.
    Proof. intro Hi. apply (mtrace_refines h _ []); [apply SInv_init | exact Hi]. Qed.

    (* only valid models are ever readable from the datastore *)
    Theorem m_only_valid_persisted h s (id : bytes) b :
      ids_increasing body h = true -> id <> [] ->
      mb_read body B (sm_ds body B (mrun B (mserver_init body B) h)) s id = Some b ->
      valid b = true /\ wf b = true.
    Proof.
      intros Hi Hne Hr.
      pose proof (mrun_inv h (mserver_init body B) [] SInv_init Hi) as (R & W & _ & _).
      rewrite (rep_read B OK _ _ R W _ _ Hne) in Hr. apply massoc_In in Hr. apply (proj2 (W s) _ Hr).
    Qed.

    Theorem m_id_fresh_increasing h s b id id' :
      ids_increasing body (h ++ [MWrite body s b id]) = true ->
      snd (mstep B (mrun B (mserver_init body B) h) (MWrite body s b id)) = MWritten body id' ->
      id' = id /\
      (forall i, In i (mb_list body B (sm_ds body B (mrun B (mserver_init body B) h)) s) -> bltb i id' = true) /\
      mb_list body B (sm_ds body B (mrun B (mserver_init body B) (h ++ [MWrite body s b id]))) s =
        id' :: mb_list body B (sm_ds body B (mrun B (mserver_init body B) h)) s.
    Proof.
      intros Hi Hw.
      rewrite (mout_after h _ Hi) in Hw.
      assert (Hh : ids_increasing body h = true /\ forall i, In i (write_ids body (rev h)) -> bltb i id = true).
      { unfold ids_increasing in *.
        assert (G : forall h seen, ids_increasing_from body seen (h ++ [MWrite body s b id]) = true ->
                    ids_increasing_from body seen h = true /\ forall i, In i (write_ids body (rev h) ++ seen) -> bltb i id = true).
        { clear. induction h as [|o' h IH]; intros seen H.
          - simpl app in H. apply incr_head in H as [H1 _]. split; [reflexivity|]. exact H1.
          - simpl app in H. apply incr_head in H as [H1 H2]. apply IH in H2 as [H2 H3]. split.
            + destruct o'; simpl; try exact H2. apply andb_true_iff. split; [|exact H2].
              apply forallb_forall. exact H1.
            + intros i Hin. apply H3. simpl rev in Hin.
              assert (W : forall a b', write_ids body (a ++ b') = write_ids body a ++ write_ids body b').
              { clear. induction a as [|x a IHa]; intro b'; simpl; [reflexivity|]. destruct x; simpl; rewrite IHa; reflexivity. }
              rewrite W in Hin. rewrite <- app_assoc in Hin.
              apply in_app_or in Hin as [Hin | Hin]; apply in_or_app; [left; exact Hin | right].
              destruct o'; simpl in *; auto. }
        destruct (G h [] Hi) as [G1 G2]. split; [exact G1|]. intros i Hin. apply G2. rewrite app_nil_r. exact Hin. }
      destruct Hh as [Hh Hbelow].
      assert (Hid : id' = id /\ accepts s b = true).
      { cbn [Models.spec_out] in Hw. unfold Models.accepts.
        destruct (is_ulid s && wf b); cbn [negb] in *; [|discriminate].
        destruct (max_types <? ntypes b); [discriminate|].
        destruct (max_model_size <? size b); [discriminate|].
        destruct (valid b); cbn [negb] in *; [|discriminate]. inversion Hw. auto. }
      destruct Hid as [-> Hacc]. split; [reflexivity|].
      pose proof (mrun_inv h (mserver_init body B) [] SInv_init Hh) as (R & W & _ & _). rewrite app_nil_r in R, W.
      pose proof (mrun_inv _ (mserver_init body B) [] SInv_init Hi) as (R2 & W2 & _ & _). rewrite app_nil_r in R2, W2.
      rewrite (rep_list B OK _ _ R W), (rep_list B OK _ _ R2 W2).
      split.
      - intros i Hin. apply in_map_iff in Hin as [m [Hm Hin]]. subst i.
        apply Hbelow. apply (spec_rev_ids _ _ _ Hin).
      - rewrite rev_app_distr. simpl. rewrite beqb_refl, Hacc. reflexivity.
    Qed.
  End Srv.

  (* ---- consequences of the specification -------------------------------------------------- *)

  Definition accepted_write_to (s : bytes) (o : mop) : bool :=
    match o with MWrite _ s' b _ => beqb s' s && accepts s' b | _ => false end.

  Lemma spec_rev_app_no_write a rp s :
    forallb (fun o => negb (accepted_write_to s o)) a = true -> spec_rev (a ++ rp) s = spec_rev rp s.
  Proof.
    induction a as [|o a IH]; intro H; [reflexivity|].
    simpl in H. apply andb_true_iff in H as [Ho Ha]. simpl app.
    destruct o as [s' b id | | |]; simpl; try (apply IH; exact Ha).
    simpl in Ho. apply negb_true_iff in Ho. rewrite Ho. apply IH. exact Ha.
  Qed.

  Lemma forallb_rev {T} (p : T -> bool) l : forallb p (rev l) = forallb p l.
  Proof.
    induction l as [|x l IH]; [reflexivity|]. simpl. rewrite forallb_app, IH. simpl.
    rewrite andb_true_r. apply andb_comm.
  Qed.

  (* a model written under id stays readable under id, whatever is written later with other ids *)
  Lemma spec_rev_keeps a rp s id b :
    massoc id (spec_rev rp s) = Some b ->
    (forall i, In i (write_ids body a) -> i <> id) ->
    massoc id (spec_rev (a ++ rp) s) = Some b.
  Proof.
    intros Hm. induction a as [|o a IH]; intro Hn; [exact Hm|].
    simpl app. destruct o as [s' b' id' | | |]; simpl; try (apply IH; exact Hn).
    assert (Ha : forall i, In i (write_ids body a) -> i <> id) by (intros i Hi; apply Hn; simpl; right; exact Hi).
    destruct (beqb s' s && accepts s' b'); [|apply IH; exact Ha].
    rewrite massoc_cons_other; [apply IH; exact Ha|]. apply Hn. simpl. left. reflexivity.
  Qed.
  (* ---- facts about ids_increasing ---------------------------------------------------------- *)

  Lemma write_ids_app a b' : write_ids body (a ++ b') = write_ids body a ++ write_ids body b'.
  Proof. induction a as [|x a IHa]; simpl; [reflexivity|]. destruct x; simpl; rewrite IHa; reflexivity. Qed.

  Lemma write_ids_rev_in i h : In i (write_ids body (rev h)) <-> In i (write_ids body h).
  Proof.
    induction h as [|o h IH]; [tauto|]. simpl rev. rewrite write_ids_app, in_app_iff, IH.
    destruct o; simpl; tauto.
  Qed.

  Lemma incr_app seen h1 h2 :
    ids_increasing_from body seen (h1 ++ h2) = true ->
    ids_increasing_from body seen h1 = true /\
    ids_increasing_from body (rev (write_ids body h1) ++ seen) h2 = true.
  Proof.
    revert seen. induction h1 as [|o h1 IH]; intros seen H; [split; [reflexivity | exact H]|].
    simpl app in H. destruct o as [s b id | | |]; simpl in *; try (apply IH; exact H).
    apply andb_true_iff in H as [H1 H2]. apply IH in H2 as [H2 H3]. rewrite H1, H2.
    split; [reflexivity|]. rewrite <- app_assoc. exact H3.
  Qed.

  Lemma incr_later seen h x i :
    ids_increasing_from body seen h = true -> In x seen -> In i (write_ids body h) -> bltb x i = true.
  Proof.
    revert seen. induction h as [|o h IH]; intros seen H Hx Hi; [destruct Hi|].
    destruct o as [s b id | | |]; simpl in *; try (apply (IH seen); assumption).
    apply andb_true_iff in H as [H1 H2]. destruct Hi as [Hi | Hi].
    - subst i. rewrite forallb_forall in H1. apply H1. exact Hx.
    - apply (IH (id :: seen)); [exact H2 | right; exact Hx | exact Hi].
  Qed.

  Lemma incr_snoc_nonwrite h o :
    match o with MWrite _ _ _ _ => False | _ => True end ->
    ids_increasing body h = true -> ids_increasing body (h ++ [o]) = true.
  Proof.
    unfold ids_increasing. generalize (@nil bytes) as seen.
    induction h as [|o' h IH]; intros seen Ho H.
    - destruct o; simpl in *; tauto.
    - simpl app. destruct o' as [s b id | | |]; simpl in *; try (apply IH; assumption).
      apply andb_true_iff in H as [H1 H2]. rewrite H1. apply IH; assumption.
  Qed.

  Lemma written_accepts s b id id' rp :
    spec_out rp (MWrite body s b id) = MWritten body id' -> id' = id /\ accepts s b = true /\ is_ulid s = true.
  Proof.
    cbn [Models.spec_out]. unfold Models.accepts.
    destruct (is_ulid s) eqn:Eu; [|simpl; discriminate].
    destruct (wf b); cbn [andb negb]; [|discriminate].
    destruct (max_types <? ntypes b); [discriminate|].
    destruct (max_model_size <? size b); [discriminate|].
    destruct (valid b); cbn [negb]; [|discriminate]. intro H. inversion H. auto.
  Qed.

  (* ---- the named statements, for any law-abiding backend ----------------------------------- *)

  Section Named.
    Variable B : mbackend.
    Variable OK : mbackend_ok B.

    Theorem m_read_after_write_same h1 h2 s b id id' :
      ids_increasing body (h1 ++ MWrite body s b id :: h2) = true ->
      snd (mstep B (mrun B (mserver_init body B) h1) (MWrite body s b id)) = MWritten body id' ->
      is_ulid id = true ->
      snd (mstep B (mrun B (mserver_init body B) (h1 ++ MWrite body s b id :: h2)) (MRead body s id)) = MModel body id b.
    Proof.
      intros Hi Hw Hu.
      assert (Hi1 : ids_increasing body (h1 ++ [MWrite body s b id]) = true).
      { unfold ids_increasing in *. change (h1 ++ MWrite body s b id :: h2) with (h1 ++ [MWrite body s b id] ++ h2) in Hi.
        rewrite app_assoc in Hi. apply incr_app in Hi as [Hi _]. exact Hi. }
      rewrite (mout_after B OK h1 _ Hi1) in Hw. apply written_accepts in Hw as (-> & Hacc & Hs).
      rewrite (mout_after B OK _ _ (incr_snoc_nonwrite _ (MRead body s id) I Hi)).
      cbn [Models.spec_out]. rewrite Hs, Hu. cbn [andb negb].
      rewrite rev_app_distr. simpl rev. rewrite <- app_assoc. simpl app.
      rewrite (spec_rev_keeps (rev h2) (MWrite body s b id :: rev h1) s id b); [reflexivity| |].
      - simpl. rewrite beqb_refl, Hacc. simpl. apply massoc_cons_same.
      - intros i Hin. apply (proj1 (write_ids_rev_in i h2)) in Hin.
        unfold ids_increasing in Hi. apply incr_app in Hi as [_ Hi]. simpl in Hi.
        apply andb_true_iff in Hi as [_ Hi].
        apply not_eq_sym. apply bltb_neq.
        apply (incr_later _ _ id i Hi); [left; reflexivity | exact Hin].
    Qed.

    Theorem m_modelless_uses_latest h1 h2 s b id id' :
      ids_increasing body (h1 ++ MWrite body s b id :: h2) = true ->
      snd (mstep B (mrun B (mserver_init body B) h1) (MWrite body s b id)) = MWritten body id' ->
      forallb (fun o => negb (accepted_write_to s o)) h2 = true ->
      snd (mstep B (mrun B (mserver_init body B) (h1 ++ MWrite body s b id :: h2)) (MResolve body s None)) = MResolved body id b.
    Proof.
      intros Hi Hw Hn.
      assert (Hi1 : ids_increasing body (h1 ++ [MWrite body s b id]) = true).
      { unfold ids_increasing in *. change (h1 ++ MWrite body s b id :: h2) with (h1 ++ [MWrite body s b id] ++ h2) in Hi.
        rewrite app_assoc in Hi. apply incr_app in Hi as [Hi _]. exact Hi. }
      rewrite (mout_after B OK h1 _ Hi1) in Hw. apply written_accepts in Hw as (-> & Hacc & Hs).
      rewrite (mout_after B OK _ _ (incr_snoc_nonwrite _ (MResolve body s None) I Hi)).
      cbn [Models.spec_out]. rewrite Hs. cbn [andb negb].
      rewrite rev_app_distr. simpl rev. rewrite <- app_assoc. simpl app.
      rewrite spec_rev_app_no_write by (rewrite forallb_rev; exact Hn).
      simpl. rewrite beqb_refl, Hacc. reflexivity.
    Qed.

    (* a request naming the model id is served by exactly that model *)
    Theorem m_resolve_explicit h1 h2 s b id id' :
      ids_increasing body (h1 ++ MWrite body s b id :: h2) = true ->
      snd (mstep B (mrun B (mserver_init body B) h1) (MWrite body s b id)) = MWritten body id' ->
      is_ulid id = true -> ulid_parse_ok id = true ->
      snd (mstep B (mrun B (mserver_init body B) (h1 ++ MWrite body s b id :: h2)) (MResolve body s (Some id))) = MResolved body id b.
    Proof.
      intros Hi Hw Hu Hp.
      assert (Hi1 : ids_increasing body (h1 ++ [MWrite body s b id]) = true).
      { unfold ids_increasing in *. change (h1 ++ MWrite body s b id :: h2) with (h1 ++ [MWrite body s b id] ++ h2) in Hi.
        rewrite app_assoc in Hi. apply incr_app in Hi as [Hi _]. exact Hi. }
      rewrite (mout_after B OK h1 _ Hi1) in Hw. apply written_accepts in Hw as (-> & Hacc & Hs).
      rewrite (mout_after B OK _ _ (incr_snoc_nonwrite _ (MResolve body s (Some id)) I Hi)).
      cbn [Models.spec_out]. rewrite Hs, Hu, Hp. cbn [andb negb].
      rewrite rev_app_distr. simpl rev. rewrite <- app_assoc. simpl app.
      rewrite (spec_rev_keeps (rev h2) (MWrite body s b id :: rev h1) s id b); [reflexivity| |].
      - simpl. rewrite beqb_refl, Hacc. simpl. apply massoc_cons_same.
      - intros i Hin. apply (proj1 (write_ids_rev_in i h2)) in Hin.
        unfold ids_increasing in Hi. apply incr_app in Hi as [_ Hi]. simpl in Hi.
        apply andb_true_iff in Hi as [_ Hi].
        apply not_eq_sym. apply bltb_neq.
        apply (incr_later _ _ id i Hi); [left; reflexivity | exact Hin].
    Qed.
  End Named.

  (* ---- the trace predicate holds of the specification trace -------------------------------- *)

  Variable body_eqb : body -> body -> bool.
  Hypothesis body_eqb_refl : forall b, body_eqb b b = true.

  Notation obs_content := (obs_content body).
  Notation step_ok := (step_ok body valid wf body_eqb).
  Notation mtrace_ok_from := (mtrace_ok_from body valid wf body_eqb).

  Lemma ids_eqb_refl l : ids_eqb l l = true.
  Proof. induction l as [|x l IH]; simpl; [reflexivity|]. rewrite beqb_refl, IH. reflexivity. Qed.

  Lemma obs_step P rp o :
    (forall s, obs_content P s = spec_rev rp s) ->
    forall s, obs_content ((o, spec_out rp o) :: P) s = spec_rev (o :: rp) s.
  Proof.
    intros E s. destruct o as [s' b id | s' id | s' | s' ido]; cbn [Models.spec_out].
    - cbn [Models.spec_rev]. unfold Models.accepts.
      destruct (is_ulid s') eqn:Eu; [|cbn [andb negb Models.obs_content]; rewrite andb_false_r; apply E].
      destruct (wf b); cbn [andb negb]; [|cbn [Models.obs_content]; rewrite andb_false_r; apply E].
      destruct (max_types <? ntypes b); cbn [andb negb]; [cbn [Models.obs_content]; rewrite andb_false_r; apply E|].
      destruct (max_model_size <? size b); cbn [andb negb]; [cbn [Models.obs_content]; rewrite andb_false_r; apply E|].
      destruct (valid b); cbn [andb negb]; [|cbn [Models.obs_content]; rewrite andb_false_r; apply E].
      cbn [Models.obs_content]. rewrite andb_true_r. destruct (beqb s' s); [rewrite E; reflexivity | apply E].
    - cbn [Models.spec_rev].
      destruct (negb (is_ulid s' && is_ulid id)); [apply E|].
      destruct (massoc id (spec_rev rp s')); apply E.
    - cbn [Models.spec_rev]. destruct (negb (is_ulid s')); apply E.
    - cbn [Models.spec_rev].
      destruct (negb (is_ulid s' && match ido with Some id => is_ulid id | None => true end)); [apply E|].
      destruct ido as [id|].
      + destruct (negb (ulid_parse_ok id)); [apply E|]. destruct (massoc id (spec_rev rp s')); apply E.
      + destruct (spec_rev rp s') as [|[i b] r]; apply E.
  Qed.

  Lemma step_ok_spec P rp o :
    (forall s, obs_content P s = spec_rev rp s) ->
    (forall s m, In m (spec_rev rp s) -> valid (snd m) = true /\ wf (snd m) = true) ->
    match o with MWrite _ _ _ id => forall i, In i (write_ids body rp) -> bltb i id = true | _ => True end ->
    step_ok P o (spec_out rp o) = true.
  Proof.
    intros E V Hf. destruct o as [s b id | s id | s | s ido]; cbn [Models.spec_out].
    - destruct (is_ulid s && wf b) eqn:E1; cbn [negb]; [|reflexivity].
      destruct (max_types <? ntypes b); [reflexivity|].
      destruct (max_model_size <? size b); [reflexivity|].
      destruct (valid b) eqn:E4; cbn [negb]; [|reflexivity].
      apply andb_true_iff in E1 as [_ Ew].
      cbn [Models.step_ok]. rewrite E4, Ew, beqb_refl. cbn [andb].
      apply forallb_forall. intros m Hm. rewrite E in Hm. apply Hf. apply (spec_rev_ids _ _ _ Hm).
    - destruct (is_ulid s && is_ulid id); cbn [negb]; [|reflexivity].
      destruct (massoc id (spec_rev rp s)) as [b|] eqn:Em; cbn [Models.step_ok].
      + rewrite beqb_refl, E, Em. apply body_eqb_refl.
      + rewrite E, Em. reflexivity.
    - destruct (is_ulid s); cbn [negb]; [|reflexivity].
      cbn [Models.step_ok]. rewrite E. apply ids_eqb_refl.
    - destruct (is_ulid s && match ido with Some id => is_ulid id | None => true end); cbn [negb];
        [|destruct ido; reflexivity].
      destruct ido as [id|].
      + destruct (ulid_parse_ok id) eqn:Ep; cbn [negb].
        * destruct (massoc id (spec_rev rp s)) as [b|] eqn:Em; cbn [Models.step_ok].
          -- rewrite beqb_refl, E, Em. apply body_eqb_refl.
          -- rewrite Ep, E, Em. reflexivity.
        * cbn [Models.step_ok]. rewrite Ep. reflexivity.
      + destruct (spec_rev rp s) as [|[i b] r] eqn:Es; cbn [Models.step_ok]; rewrite E, Es.
        * reflexivity.
        * rewrite beqb_refl. apply body_eqb_refl.
  Qed.

  Lemma spec_rev_valid rp s m : In m (spec_rev rp s) -> valid (snd m) = true /\ wf (snd m) = true.
  Proof.
    induction rp as [|o rp IH]; [intros []|].
    destruct o as [s' b id | | |]; simpl; try exact IH.
    destruct (beqb s' s && accepts s' b) eqn:Ea; [|exact IH].
    intros [Hm | Hm]; [|apply IH; exact Hm]. subst m. simpl.
    apply andb_true_iff in Ea as [_ Ea]. unfold Models.accepts in Ea.
    repeat (apply andb_true_iff in Ea as [Ea ?]). auto.
  Qed.

  Lemma spec_trace_ok_from h : forall rp P,
    (forall s, obs_content P s = spec_rev rp s) ->
    ids_increasing_from body (write_ids body rp) h = true ->
    mtrace_ok_from P (spec_trace_from body valid wf ntypes size rp h) = true.
  Proof.
    induction h as [|o h IH]; intros rp P E Hi; [reflexivity|].
    apply incr_head in Hi as [Hf Hi]. cbn [Models.spec_trace_from Models.mtrace_ok_from].
    rewrite (step_ok_spec P rp o E (spec_rev_valid rp)); [|destruct o; auto]. cbn [andb].
    apply IH; [apply obs_step; exact E|]. rewrite write_ids_cons. destruct o; exact Hi.
  Qed.

  Theorem spec_trace_ok h :
    ids_increasing body h = true -> mtrace_ok_from [] (spec_trace body valid wf ntypes size h) = true.
  Proof. intro Hi. apply (spec_trace_ok_from h [] []); [reflexivity | exact Hi]. Qed.

  Theorem m_trace_satisfies_property (B : mbackend) (OK : mbackend_ok B) h :
    ids_increasing body h = true ->
    mtrace_ok body valid wf body_eqb (mtrace B (mserver_init body B) h) = true.
  Proof. intro Hi. unfold mtrace_ok. rewrite (m_refines B OK h Hi). apply spec_trace_ok. exact Hi. Qed.

  (* ---- singleflight ------------------------------------------------------------------------ *)

  Variable fkey : bytes -> bytes.

  Notation cstate := (cstate body).
  Notation cstep := (cstep body fkey).
  Notation flight := (flight body).

  Lemma fresh_enough_refl (x : option model) : fresh_enough body x x = true.
  Proof. destruct x as [[i b]|]; simpl; [|reflexivity]. rewrite bltb_irrefl. reflexivity. Qed.

  (* request store of a waiter / of a completed request, store its serving lookup was made for *)
  Definition w_store (w : (N * bytes) * option model * bool) : bytes := snd (fst (fst w)).

  Definition cinv (st : cstate) : Prop :=
    (forall d, In d (c_done body st) -> snd d = true \/ fresh_enough body (snd (fst (fst d))) (snd (fst d)) = true) /\
    (forall f, In f (c_flights body st) -> forall w, In w (fl_waiters body f) -> snd w = false -> snd (fst w) = fl_value body f) /\
    (* every flight is filed under the key of the store it queries, and every request waiting on
       it has that key *)
    (forall f, In f (c_flights body st) ->
       fl_key body f = fkey (fl_store body f) /\ forall w, In w (fl_waiters body f) -> fkey (w_store w) = fl_key body f) /\
    (forall d, In d (c_done body st) -> fkey (snd (fst (fst (fst (fst d))))) = fkey (snd (fst (fst (fst d))))).

  Lemma find_flight_In k fs (f : flight) : find_flight body k fs = Some f -> In f fs /\ fl_key body f = k.
  Proof.
    induction fs as [|g fs IH]; simpl; [discriminate|].
    destruct (beqb (fl_key body g) k) eqn:E; intro H.
    - inversion H; subst. apply beqb_eq in E. split; [left; reflexivity | exact E].
    - destruct (IH H). split; [right; assumption | assumption].
  Qed.

  Lemma remove_flight_In k fs (f : flight) : In f (remove_flight body k fs) -> In f fs.
  Proof.
    induction fs as [|g fs IH]; simpl; [tauto|].
    destruct (beqb (fl_key body g) k); intro H; [right; exact H|].
    destruct H as [H | H]; [left; exact H | right; apply IH; exact H].
  Qed.

  Lemma replace_flight_In (f' : flight) fs f : In f (replace_flight body f' fs) -> f = f' \/ In f fs.
  Proof.
    induction fs as [|g fs IH]; simpl; [tauto|].
    destruct (beqb (fl_key body g) (fl_key body f')); intros [H | H]; auto.
    destruct (IH H); auto.
  Qed.

  Lemma cstep_inv st e : cinv st -> cinv (cstep st e).
  Proof.
    intros (Hd & Hf & Hk & Hs). destruct e as [s m | r s | s]; simpl.
    - repeat split; try assumption; apply Hk; assumption.
    - destruct (find_flight body (fkey s) (c_flights body st)) as [f|] eqn:Ef; simpl.
      + destruct (find_flight_In _ _ _ Ef) as [Hin Hkey].
        split; [exact Hd|]. split; [|split; [|exact Hs]].
        * intros g Hg w Hw Hj. apply replace_flight_In in Hg as [-> | Hg].
          -- simpl in *. destruct Hw as [<- | Hw]; [discriminate|]. apply (Hf f Hin w Hw Hj).
          -- apply (Hf g Hg w Hw Hj).
        * intros g Hg. apply replace_flight_In in Hg as [-> | Hg]; [|apply Hk; exact Hg].
          simpl. split; [apply (proj1 (Hk f Hin))|].
          intros w [<- | Hw]; [unfold w_store; simpl; symmetry; exact Hkey | apply (proj2 (Hk f Hin)); exact Hw].
      + split; [exact Hd|]. split; [|split; [|exact Hs]].
        * intros g [<- | Hg] w Hw Hj.
          -- simpl in *. destruct Hw as [<- | []]. reflexivity.
          -- apply (Hf g Hg w Hw Hj).
        * intros g [<- | Hg]; [|apply Hk; exact Hg].
          simpl. split; [reflexivity|]. intros w [<- | []]. reflexivity.
    - destruct (find_flight body (fkey s) (c_flights body st)) as [f|] eqn:Ef; simpl;
        [|repeat split; try assumption; apply Hk; assumption].
      destruct (find_flight_In _ _ _ Ef) as [Hin Hkey].
      split; [|split; [|split]].
      + intros d Hi. apply in_app_or in Hi as [Hi | Hi]; [|apply Hd; exact Hi].
        apply in_map_iff in Hi as [w [<- Hw]]. simpl.
        destruct (snd w) eqn:Ej; [left; reflexivity|]. right.
        rewrite (Hf f Hin w Hw Ej). apply fresh_enough_refl.
      + intros g Hg. apply Hf. apply (remove_flight_In _ _ _ Hg).
      + intros g Hg. apply Hk. apply (remove_flight_In _ _ _ Hg).
      + intros d Hi. apply in_app_or in Hi as [Hi | Hi]; [|apply Hs; exact Hi].
        apply in_map_iff in Hi as [w [<- Hw]]. simpl.
        rewrite <- (proj1 (Hk f Hin)). apply (proj2 (Hk f Hin) w Hw).
  Qed.

  Lemma crun_inv h : cinv (crun body fkey h).
  Proof.
    unfold crun. assert (G : forall st, cinv st -> cinv (fold_left cstep h st)).
    { induction h as [|e h IH]; intros st Hs; [exact Hs|]. simpl. apply IH. apply cstep_inv. exact Hs. }
    apply G. split; [intros d [] |]. split; [intros f [] |]. split; [intros f [] | intros d []].
  Qed.

  (* a request that issues its own lookup (does not join a call in flight) is never served a
     model older than the latest one at its start *)
  Theorem leaders_served_latest h : leaders_fresh body (crun body fkey h) = true.
  Proof.
    unfold leaders_fresh. apply forallb_forall. intros d Hd.
    destruct (proj1 (crun_inv h) d Hd) as [Hj | Hfresh].
    - rewrite Hj. reflexivity.
    - rewrite Hfresh. apply orb_true_r.
  Qed.

  Theorem no_join_all_fresh h : some_joined body (crun body fkey h) = false -> all_fresh body (crun body fkey h) = true.
  Proof.
    intro Hn. pose proof (leaders_served_latest h) as Hl. unfold all_fresh, leaders_fresh, some_joined in *.
    rewrite forallb_forall in *. intros d Hd. specialize (Hl d Hd).
    destruct (snd d) eqn:Ej; [|exact Hl].
    exfalso. assert (Hex : existsb (fun d => snd d) (c_done body (crun body fkey h)) = true)
      by (apply existsb_exists; exists d; auto).
    rewrite Hex in Hn. discriminate.
  Qed.

  (* isolation of the lookup: when the key determines the store, every request - leader or
     follower, in every interleaving - is served by a lookup that was made for ITS store *)
  Theorem lookup_isolated h :
    (forall a b, fkey a = fkey b -> a = b) -> all_own_store body (crun body fkey h) = true.
  Proof.
    intro Inj. unfold all_own_store. apply forallb_forall. intros d Hd.
    apply beqb_eq. apply Inj. apply (proj2 (proj2 (proj2 (crun_inv h))) d Hd).
  Qed.
End ModelsProofs.

(* ------------------------------------------------------------------------------------------ *)
(* Both backends of /repo are law-abiding                                                       *)

Lemma c17_backends_lawful :
  forall (body : Type) (valid wf : body -> bool) (ntypes : body -> N),
    (forall b, wf b = true -> ntypes b <> 0) ->
    (mbackend_ok body valid wf ntypes (mem_mbackend body ntypes) * mbackend_ok body valid wf ntypes (sql_mbackend body ntypes))%type.
Proof.
  intros body valid wf ntypes H. split.
  - exact (mem_mbackend_ok body valid wf ntypes H).
  - exact (sql_mbackend_ok body valid wf ntypes).
Qed.

(* ---- refutations on the concrete instance ---------------------------------------------------- *)

Definition ex_id (c : N) : bytes := repeat 48 25 ++ [c].
Definition ex_body (v : N) : tbody := mkTBody [v] true true 3 200 v.

(* Without the ULID-monotonic hypothesis sqlite's "ORDER BY id DESC LIMIT 1" is not the most
   recently written model (memory's flag is), so the two backends differ and the property fails
   on sqlite. *)
Lemma c17_latest_needs_monotonic_ids :
  exists h s id b,
    t_ids_increasing (h ++ [MWrite tbody s b id]) = false /\
    snd (mstep tbody tb_valid tb_wf tb_ntypes tb_size t_sql
           (mrun tbody tb_valid tb_wf tb_ntypes tb_size t_sql (mserver_init tbody t_sql) h) (MWrite tbody s b id)) = MWritten tbody id /\
    snd (mstep tbody tb_valid tb_wf tb_ntypes tb_size t_sql
           (mrun tbody tb_valid tb_wf tb_ntypes tb_size t_sql (mserver_init tbody t_sql) (h ++ [MWrite tbody s b id]))
           (MResolve tbody s None)) <> MResolved tbody id b /\
    snd (mstep tbody tb_valid tb_wf tb_ntypes tb_size t_mem
           (mrun tbody tb_valid tb_wf tb_ntypes tb_size t_mem (mserver_init tbody t_mem) (h ++ [MWrite tbody s b id]))
           (MResolve tbody s None)) = MResolved tbody id b.
Proof.
  exists [MWrite tbody (ex_id 49) (ex_body 1) (ex_id 53)], (ex_id 49), (ex_id 51), (ex_body 2).
  vm_compute. repeat split; try reflexivity. discriminate.
Qed.

(* With concurrent requests: a model-less request that starts after a newer model was written
   joins the lookup already in flight and is served the older model. *)
Lemma c17_singleflight_stale :
  exists h, t_all_fresh (t_crun h) = false /\ t_some_joined (t_crun h) = true /\ t_leaders_fresh (t_crun h) = true.
Proof.
  exists [CWrite tbody (ex_id 49) (ex_id 50, ex_body 1);
          CBegin tbody 1 (ex_id 49);
          CWrite tbody (ex_id 49) (ex_id 51, ex_body 2);
          CBegin tbody 2 (ex_id 49);
          CEnd tbody (ex_id 49)].
  vm_compute. repeat split.
Qed.

Lemma c17_concurrent_partial :
  forall (body : Type) (fkey : bytes -> bytes) (h : list (cev body)),
    leaders_fresh body (crun body fkey h) = true /\
    (some_joined body (crun body fkey h) = false -> all_fresh body (crun body fkey h) = true).
Proof. intros body fkey h. exact (conj (leaders_served_latest body fkey h) (no_join_all_fresh body fkey h)). Qed.

(* the key as coded determines the store *)
Lemma lookup_key_inj a b : lookup_key a = lookup_key b -> a = b.
Proof. unfold lookup_key. apply app_inv_head. Qed.

Lemma c17_latest_lookup_isolated :
  forall (body : Type) (h : list (cev body)), all_own_store body (crun body lookup_key h) = true.
Proof. intros body h. apply lookup_isolated. exact lookup_key_inj. Qed.

(* with a key that omits the store id, a request for store B joins the lookup in flight for
   store A and is served A's latest model *)
Lemma c17_latest_lookup_isolated_needs_store_in_key :
  exists h, t_all_own_store (t_crun_no_store h) = false /\ t_all_own_store (t_crun h) = true.
Proof.
  exists [CWrite tbody (ex_id 49) (ex_id 65, ex_body 1);
          CWrite tbody (ex_id 50) (ex_id 66, ex_body 2);
          CBegin tbody 1 (ex_id 49);
          CBegin tbody 2 (ex_id 50);
          CEnd tbody (ex_id 49);
          CEnd tbody (ex_id 50)].
  vm_compute. split; reflexivity.
Qed.
