(* Executable model of the sqlite datastore's Write (pkg/storage/sqlite/sqlite.go: write,
   makeTupleLockKeys, selectExistingRowsForWrite; sqlcommon.MarshalRelationshipCondition) as a
   sequence of SQL statements inside one transaction, with a failure point.  The SQL engine is
   abstract (Section Engine): a committed view, the open transaction's view, begin / apply /
   commit / abort.  Definitions only; proofs are in SqlTxnProofs.v. *)
From OFGA Require Export Store.Memory.
Open Scope N_scope.

(* ---------------------------------------------------------------------------------------- *)
(* Rows                                                                                     *)

(* the seven columns a tuple is looked up by; the first six are the primary key *)
Record colkey := mkCK {
  ck_otype : bytes; ck_oid : bytes; ck_rel : bytes;
  ck_utype : bytes; ck_uid : bytes; ck_urel : bytes;
  ck_uset : bool (* user_type = 'userset' *) }.

Definition cols_of_key (k : key) : colkey :=
  let '(ot, oid) := split_object (k_obj k) in
  let '(ut, uid, ur) := to_user_parts (k_user k) in
  mkCK ot oid (k_rel k) ut uid ur (user_type_is_userset (k_user k)).

Definition ck_eqb6 (a b : colkey) : bool :=
  beqb (ck_otype a) (ck_otype b) && beqb (ck_oid a) (ck_oid b) && beqb (ck_rel a) (ck_rel b)
  && beqb (ck_utype a) (ck_utype b) && beqb (ck_uid a) (ck_uid b) && beqb (ck_urel a) (ck_urel b).
Definition ck_eqb7 (a b : colkey) : bool := ck_eqb6 a b && Bool.eqb (ck_uset a) (ck_uset b).

Record trow := mkTRow { t_ck : colkey; t_cname : bytes; t_cctx : option bytes }.
Record lrow := mkLRow { l_ck : colkey; l_cname : bytes; l_cctx : option bytes; l_op : cop; l_ts : N }.
Record tables := mkTab { tt : list trow; tl : list lrow }.
Definition empty_tables : tables := mkTab [] [].

(* reading a row back: BuildObject / FromUserParts *)
Definition key_of_ck (c : colkey) : key :=
  mkKey (build_object (ck_otype c) (ck_oid c)) (ck_rel c) (from_user_parts (ck_utype c) (ck_uid c) (ck_urel c)).

Definition blob_ctx (b : option bytes) : ctx := CStruct (match b with Some t => t | None => [] end).

(* the condition of a tuple read back inside the transaction (TupleRecord.AsTuple) *)
Definition row_cond (r : trow) : cond :=
  match t_cname r with [] => None | n => Some (n, blob_ctx (t_cctx r)) end.

Definition row_obs (r : trow) : otuple := (key_of_ck (t_ck r), norm_cond (t_cname r) (blob_ctx (t_cctx r))).
Definition lrow_obs (r : lrow) : cop * key * ocond :=
  (l_op r, key_of_ck (l_ck r), norm_cond (l_cname r) (blob_ctx (l_cctx r))).

Definition sql_obs_tuples (t : tables) : list otuple := map row_obs (tt t).
Definition sql_obs_log (t : tables) : olog := map lrow_obs (tl t).

(* sqlcommon.MarshalRelationshipCondition: an empty context is stored as NULL *)
Definition marshal_cond (c : cond) : bytes * option bytes :=
  match c with
  | None => ([], None)
  | Some (n, x) => (n, match x with CStruct (b :: t) => Some (b :: t) | _ => None end)
  end.

(* proto.Equal on two RelationshipCondition pointers *)
Definition ctx_eqb (a b : ctx) : bool :=
  match a, b with
  | CNil, CNil => true
  | CStruct s, CStruct t => beqb s t
  | _, _ => false
  end.
Definition proto_equal (a b : cond) : bool :=
  match a, b with
  | None, None => true
  | Some (n1, c1), Some (n2, c2) => beqb n1 n2 && ctx_eqb c1 c2
  | _, _ => false
  end.

(* ---------------------------------------------------------------------------------------- *)
(* Statement semantics on a view                                                            *)

Fixpoint chunks {A : Type} (fuel n : nat) (l : list A) : list (list A) :=
  match fuel with
  | O => []
  | S f => match l with [] => [] | _ => firstn n l :: chunks f n (skipn n l) end
  end.
Definition batch : nat := 100.
Definition batches {A : Type} (l : list A) : list (list A) := chunks (length l) batch l.

(* makeTupleLockKeys: the distinct column keys of the request (their sort order has no effect) *)
Fixpoint dedup_ck (seen : list colkey) (l : list colkey) : list colkey :=
  match l with
  | [] => []
  | c :: l' => if existsb (ck_eqb7 c) seen then dedup_ck seen l' else c :: dedup_ck (c :: seen) l'
  end.
Definition make_lock_keys (dels : list key) (wrs : list witem) : list colkey :=
  dedup_ck [] (map cols_of_key dels ++ map (fun w => cols_of_key (w_key w)) wrs).

(* SELECT ... WHERE (7 columns) IN (keys): entries of the [existing] map *)
Definition select_rows (v : tables) (keys : list colkey) : list (bytes * cond) :=
  map (fun r => (key_string (key_of_ck (t_ck r)), row_cond r))
      (filter (fun r => existsb (ck_eqb7 (t_ck r)) keys) (tt v)).

Fixpoint assoc (s : bytes) (m : list (bytes * cond)) : option cond :=
  match m with
  | [] => None
  | (s', c) :: m' => if beqb s' s then Some c else assoc s m'
  end.

(* DELETE FROM tuple WHERE c1 OR c2 ...: new view and rows affected *)
Definition dml_delete (conds : list colkey) (v : tables) : tables * nat :=
  let hit := fun r => existsb (ck_eqb7 (t_ck r)) conds in
  (mkTab (filter (fun r => negb (hit r)) (tt v)) (tl v), length (filter hit (tt v))).

(* INSERT INTO tuple VALUES ...: fails on a primary-key collision *)
Fixpoint insert_rows (rows : list trow) (cur : list trow) : option (list trow) :=
  match rows with
  | [] => Some cur
  | r :: rows' => if existsb (fun x => ck_eqb6 (t_ck x) (t_ck r)) cur then None
                  else insert_rows rows' (cur ++ [r])
  end.
Definition dml_insert (rows : list trow) (v : tables) : option tables :=
  match insert_rows rows (tt v) with Some t' => Some (mkTab t' (tl v)) | None => None end.

Definition dml_log (rows : list lrow) (v : tables) : tables := mkTab (tt v) (tl v ++ rows).

(* ---------------------------------------------------------------------------------------- *)
(* Planning (steps 4 and 5 of sqlite.write): pure, from the selected rows                    *)

Fixpoint plan_deletes (ignore : bool) (ex : list (bytes * cond)) (now : N) (dels : list key)
  : werr + (list colkey * list lrow) :=
  match dels with
  | [] => inr ([], [])
  | d :: ds =>
      match assoc (key_string d) ex with
      | None => if ignore then plan_deletes ignore ex now ds else inl EInvalidInput
      | Some _ =>
          match plan_deletes ignore ex now ds with
          | inl e => inl e
          | inr (cs, ls) => inr (cols_of_key d :: cs, mkLRow (cols_of_key d) [] None OpDelete now :: ls)
          end
      end
  end.

Fixpoint plan_writes (ignore : bool) (ex : list (bytes * cond)) (now : N) (wrs : list witem)
  : werr + (list trow * list lrow) :=
  match wrs with
  | [] => inr ([], [])
  | w :: ws =>
      match assoc (key_string (w_key w)) ex with
      | Some c =>
          if ignore then
            if proto_equal c (w_cond w) then plan_writes ignore ex now ws else inl ECondConflict
          else inl EInvalidInput
      | None =>
          match plan_writes ignore ex now ws with
          | inl e => inl e
          | inr (rs, ls) =>
              let '(n, b) := marshal_cond (w_cond w) in
              inr (mkTRow (cols_of_key (w_key w)) n b :: rs,
                   mkLRow (cols_of_key (w_key w)) n b OpWrite now :: ls)
          end
      end
  end.

Inductive stmt :=
| SDelete (conds : list colkey)
| SInsert (rows : list trow)
| SLog (rows : list lrow)
| SCommit.

Inductive skind := KBegin | KSelect | KDelete | KInsert | KLog | KCommit.
Definition kind_of (s : stmt) : skind :=
  match s with SDelete _ => KDelete | SInsert _ => KInsert | SLog _ => KLog | SCommit => KCommit end.

(* the data-modifying statements of one request, in issue order, ending with COMMIT *)
Definition plan (ondup onmiss : opt) (dels : list key) (wrs : list witem) (ex : list (bytes * cond)) (now : N)
  : werr + list stmt :=
  match plan_deletes (opt_ignore onmiss) ex now dels with
  | inl e => inl e
  | inr (conds, dlog) =>
      match plan_writes (opt_ignore ondup) ex now wrs with
      | inl e => inl e
      | inr (rows, wlog) =>
          inr (map SDelete (batches conds) ++ map SInsert (batches rows)
               ++ map SLog (batches (dlog ++ wlog)) ++ [SCommit])
      end
  end.

(* ---------------------------------------------------------------------------------------- *)
(* The transaction against an abstract engine                                               *)

Section Engine.
  Variable E : Type.
  Variable committed : E -> tables.        (* what another connection, or a reopen, observes *)
  Variable pending : E -> tables.          (* what the open transaction reads *)
  Variable e_begin : E -> E.
  Variable e_apply : (tables -> tables) -> E -> E.   (* one data-modifying statement *)
  Variable e_commit : E -> E.
  Variable e_abort : E -> E.               (* ROLLBACK, lost connection, or crash + recovery *)

  Definition apply_stmt (s : stmt) (v : tables) : tables :=
    match s with
    | SDelete conds => fst (dml_delete conds v)
    | SInsert rows => match dml_insert rows v with Some v' => v' | None => v end
    | SLog rows => dml_log rows v
    | SCommit => v
    end.

  (* statements k, k+1, ... ; the one numbered [fail] does not reach the engine *)
  Fixpoint run_dml (fail k : nat) (ss : list stmt) (e : E) (tr : list skind) : wres * E * list skind :=
    match ss with
    | [] => (WOk, e, tr)
    | s :: ss' =>
        let tr' := tr ++ [kind_of s] in
        if Nat.eqb fail k then (WErr EInjected, e_abort e, tr')
        else match s with
             | SDelete conds =>
                 let n := snd (dml_delete conds (pending e)) in
                 let e' := e_apply (apply_stmt s) e in
                 if Nat.eqb n (length conds) then run_dml fail (S k) ss' e' tr'
                 else (WErr EConflictDelete, e_abort e', tr')
             | SInsert rows =>
                 match dml_insert rows (pending e) with
                 | None => (WErr EConflictInsert, e_abort e, tr')
                 | Some _ => run_dml fail (S k) ss' (e_apply (apply_stmt s) e) tr'
                 end
             | SLog _ => run_dml fail (S k) ss' (e_apply (apply_stmt s) e) tr'
             | SCommit => run_dml fail (S k) ss' (e_commit e) tr'
             end
    end.

  Fixpoint run_selects (fail k : nat) (bs : list (list colkey)) (e : E) (tr : list skind)
           (acc : list (bytes * cond)) : (wres * E * list skind) + (list (bytes * cond) * nat * list skind) :=
    match bs with
    | [] => inr (acc, k, tr)
    | b :: bs' =>
        let tr' := tr ++ [KSelect] in
        if Nat.eqb fail k then inl (WErr EInjected, e_abort e, tr')
        else run_selects fail (S k) bs' e tr' (acc ++ select_rows (pending e) b)
    end.

  (* Datastore.write; fail = 0 : no injected failure *)
  Definition sql_write (ondup onmiss : opt) (dels : list key) (wrs : list witem) (now : N)
             (fail : nat) (e : E) : wres * E * list skind :=
    if Nat.eqb fail 1 then (WErr EInjected, e_abort e, [KBegin])
    else
      let e1 := e_begin e in
      let lk := make_lock_keys dels wrs in
      if is_empty lk then (WOk, e_abort e1, [KBegin])
      else match run_selects fail 2 (batches lk) e1 [KBegin] [] with
           | inl r => r
           | inr (ex, k, tr) =>
               match plan ondup onmiss dels wrs ex now with
               | inl err => (WErr err, e_abort e1, tr)
               | inr ss => run_dml fail k ss e1 tr
               end
           end.

  Definition sql_cmd_write (ondup onmiss : opt) (dels : list key) (wrs : list witem) (now : N) (e : E)
    : wres * E :=
    match cmd_validate ondup onmiss dels wrs with
    | Some err => (WErr err, e)
    | None =>
        match sql_write ondup onmiss dels wrs now 0 e with
        | (WOk, e', _) => (WOk, e')
        | (WErr err, e', _) => (WErr (cmd_map_err err), e')
        end
    end.
End Engine.

(* ---------------------------------------------------------------------------------------- *)
(* A concrete engine (used by the oracle, and showing the engine hypotheses are satisfiable) *)

Record eng := mkEng { en_comm : tables; en_work : tables }.
Definition eng_begin (e : eng) : eng := mkEng (en_comm e) (en_comm e).
Definition eng_apply (f : tables -> tables) (e : eng) : eng := mkEng (en_comm e) (f (en_work e)).
Definition eng_commit (e : eng) : eng := mkEng (en_work e) (en_work e).
Definition eng_abort (e : eng) : eng := mkEng (en_comm e) (en_comm e).
Definition eng_empty : eng := mkEng empty_tables empty_tables.

Definition sql_write_c := sql_write eng en_work eng_begin eng_apply eng_commit eng_abort.
Definition sql_cmd_write_c := sql_cmd_write eng en_work eng_begin eng_apply eng_commit eng_abort.

(* ReadChanges on the changelog table: rows of the type, not newer than now - horizon *)
Definition lrow_type_ok (typ : bytes) (r : lrow) : bool := is_nil typ || beqb (ck_otype (l_ck r)) typ.
Definition sql_read_changes (typ : bytes) (now h : N) (desc : bool) (t : tables) : list lrow :=
  let l := filter (fun r => lrow_type_ok typ r && (l_ts r + h <=? now)) (tl t) in
  if desc then rev l else l.

(* ReadChanges with a continuation token (ulid > token) and LIMIT page size; positions = ulids *)
Fixpoint index_from {A : Type} (i : nat) (l : list A) : list (nat * A) :=
  match l with [] => [] | x :: l' => (i, x) :: index_from (S i) l' end.
Definition sql_read_page (typ : bytes) (now h : N) (from ps : nat) (t : tables) : list lrow * nat :=
  let all := filter (fun p => lrow_type_ok typ (snd p) && (l_ts (snd p) + h <=? now) && (from <? fst p)%nat)
                    (index_from 1 (tl t)) in
  let pg := firstn ps all in
  (map snd pg, last (map fst pg) from).
Fixpoint sql_follow_tokens (typ : bytes) (horizon : N) (ps : nat) (nows : list N) (tok : nat) (t : tables)
  : list (list lrow) * nat :=
  match nows with
  | [] => ([], tok)
  | now :: ns =>
      let '(pg, tok') := sql_read_page typ now horizon tok ps t in
      match pg with
      | [] => ([], tok')
      | _ => let '(pgs, t') := sql_follow_tokens typ horizon ps ns tok' t in (pg :: pgs, t')
      end
  end.

(* on_duplicate=ignore, same observable condition, yet proto.Equal says "different": the stored
   context-less condition reads back with an empty context, the request carries a nil one *)
Definition trig_sql_ctx (ondup : opt) (wrs : list witem) (t : tables) : bool :=
  opt_ignore ondup &&
  existsb (fun w => existsb (fun r => key_eqb (key_of_ck (t_ck r)) (w_key w)
                                      && ocond_eqb (snd (row_obs r)) (obs_cond (w_cond w))
                                      && negb (proto_equal (row_cond r) (w_cond w))) (tt t)) wrs.
