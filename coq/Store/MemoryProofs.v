(* Proofs about Store/Memory.v: the memory backend's Write is all-or-nothing, and on
   well-formed requests it computes exactly the specified truth table (C12). *)
From OFGA Require Import Store.Memory.
From Coq Require Import Permutation.
Open Scope N_scope.

(* ---------------------------------------------------------------------------------------- *)
(* Strings and keys                                                                         *)

Lemma is_nil_true b : is_nil b = true <-> b = [].
Proof. destruct b; simpl; split; intro H; congruence. Qed.

Lemma is_nil_false b : is_nil b = false <-> b <> [].
Proof. destruct b; simpl; split; intro H; congruence. Qed.

Lemma key_eqb_eq a b : key_eqb a b = true <-> a = b.
Proof.
  destruct a as [o1 r1 u1], b as [o2 r2 u2]; unfold key_eqb; simpl.
  rewrite !andb_true_iff, !beqb_eq. split.
  - intros [[-> ->] ->]. reflexivity.
  - intro H; inversion H; auto.
Qed.

Lemma key_eqb_refl a : key_eqb a a = true.
Proof. apply key_eqb_eq. reflexivity. Qed.

Lemma key_eqb_sym a b : key_eqb a b = key_eqb b a.
Proof.
  destruct (key_eqb a b) eqn:E1, (key_eqb b a) eqn:E2; try reflexivity.
  - apply key_eqb_eq in E1. subst. rewrite key_eqb_refl in E2. discriminate.
  - apply key_eqb_eq in E2. subst. rewrite key_eqb_refl in E1. discriminate.
Qed.

Lemma key_eqb_neq a b : key_eqb a b = false <-> a <> b.
Proof.
  split.
  - intros H ->. rewrite key_eqb_refl in H. discriminate.
  - intro H. destruct (key_eqb a b) eqn:E; [|reflexivity]. apply key_eqb_eq in E. contradiction.
Qed.

Lemma ocond_eqb_eq a b : ocond_eqb a b = true <-> a = b.
Proof.
  destruct a as [a1 a2], b as [b1 b2]; unfold ocond_eqb; simpl.
  rewrite andb_true_iff, !beqb_eq. split; [intros [-> ->]; reflexivity | intro H; inversion H; auto].
Qed.

Lemma split_object_build t id :
  mem c_colon t = false -> split_object (build_object t id) = (t, id).
Proof. intro H. unfold split_object, build_object. rewrite (cut_app _ _ _ H). reflexivity. Qed.

Lemma split_object_nocolon o t id : split_object o = (t, id) -> mem c_colon t = false.
Proof.
  unfold split_object. destruct (cut c_colon o) as [[a b]|] eqn:E; intro H; inversion H; subst.
  - apply cut_some in E. tauto.
  - reflexivity.
Qed.

Lemma build_object_inj t1 i1 t2 i2 :
  mem c_colon t1 = false -> mem c_colon t2 = false ->
  build_object t1 i1 = build_object t2 i2 -> t1 = t2 /\ i1 = i2.
Proof.
  intros H1 H2 H. pose proof (split_object_build t1 i1 H1) as E1.
  rewrite H, (split_object_build t2 i2 H2) in E1. inversion E1; auto.
Qed.

Lemma beqb_false_neq a b : beqb a b = false <-> a <> b.
Proof.
  split.
  - intros H ->. rewrite beqb_refl in H. discriminate.
  - intro H. destruct (beqb a b) eqn:E; [|reflexivity]. apply beqb_eq in E. contradiction.
Qed.

Lemma bool_eq_iff (a b : bool) : (a = true <-> b = true) -> a = b.
Proof. destruct a, b; intros [H1 H2]; try reflexivity; [symmetry; apply H1 | apply H2]; reflexivity. Qed.

(* ---------------------------------------------------------------------------------------- *)
(* Well-formed keys: match is equality                                                       *)

Lemma wf_obj_inv o :
  wf_obj o = true ->
  exists t id, split_object o = (t, id) /\ o = build_object t id /\ id <> [] /\ mem c_colon t = false
               /\ mem c_hash o = false.
Proof.
  unfold wf_obj. destruct (split_object o) as [t id] eqn:E. intro H.
  apply andb_true_iff in H as [H Hh]. apply andb_true_iff in H as [Hb Hi].
  exists t, id. apply beqb_eq in Hb. apply negb_true_iff in Hi, Hh. apply is_nil_false in Hi.
  repeat split; auto. eapply split_object_nocolon; eauto.
Qed.

Lemma wf_user_inv u :
  wf_user u = true ->
  exists t id r, to_user_parts u = (t, id, r) /\ from_user_parts t id r = u /\ id <> [] /\ u <> [].
Proof.
  unfold wf_user. destruct (to_user_parts u) as [[t id] r] eqn:E. intro H.
  apply andb_true_iff in H as [Hb Hi]. apply beqb_eq in Hb. apply negb_true_iff in Hi.
  apply is_nil_false in Hi. exists t, id, r. repeat split; auto.
  intro Hu. rewrite Hu in E. cbv in E. inversion E; subst. apply Hi. reflexivity.
Qed.

Lemma wf_rel_inv r : wf_rel r = true -> r <> [] /\ mem c_at r = false /\ mem c_hash r = false.
Proof.
  unfold wf_rel. intro H. apply andb_true_iff in H as [H H3]. apply andb_true_iff in H as [H1 H2].
  apply negb_true_iff in H1, H2, H3. apply is_nil_false in H1. auto.
Qed.

Lemma wf_key_inv k : wf_key k = true -> wf_obj (k_obj k) = true /\ wf_rel (k_rel k) = true /\ wf_user (k_user k) = true.
Proof. unfold wf_key. rewrite !andb_true_iff. tauto. Qed.

Lemma wf_rec_inv r :
  wf_rec r = true -> wf_key (rec_key r) = true /\ mem c_colon (m_otype r) = false /\ wf_ctx (m_cctx r) = true.
Proof. unfold wf_rec. rewrite !andb_true_iff, negb_true_iff. tauto. Qed.

(* the heart of the matter: on well-formed keys the backend's pattern match is key equality *)
Lemma match_wf r k :
  mem c_colon (m_otype r) = false -> wf_key k = true -> tk_match r k = key_eqb (rec_key r) k.
Proof.
  intros Hc Hk. apply wf_key_inv in Hk as (Ho & Hr & Hu).
  apply wf_obj_inv in Ho as (t & id & Es & Eo & Hid & Ht & _).
  apply wf_rel_inv in Hr as (Hr & _).
  apply wf_user_inv in Hu as (ut & uid & ur & Eu & _ & Huid & Hune).
  unfold tk_match, key_eqb. simpl.
  replace (is_nil (k_obj k)) with false
    by (symmetry; apply is_nil_false; rewrite Eo; unfold build_object; destruct t; discriminate).
  rewrite Es. replace (is_nil id) with false by (symmetry; apply is_nil_false; exact Hid).
  replace (is_nil (k_rel k)) with false by (symmetry; apply is_nil_false; exact Hr).
  replace (is_nil (k_user k)) with false by (symmetry; apply is_nil_false; exact Hune).
  rewrite Eu. replace (is_nil uid) with false by (symmetry; apply is_nil_false; exact Huid).
  f_equal. f_equal.
  apply bool_eq_iff. rewrite andb_true_iff, !beqb_eq. rewrite Eo. split.
  - intros [-> ->]. reflexivity.
  - intro H. apply build_object_inj in H; auto. destruct H; subst; auto.
Qed.

Lemma new_rec_key w : wf_key (w_key w) = true -> rec_key (new_rec w) = w_key w.
Proof.
  intro Hk. apply wf_key_inv in Hk as (Ho & _).
  apply wf_obj_inv in Ho as (t & id & Es & Eo & _).
  unfold new_rec, rec_key. rewrite Es. simpl. rewrite <- Eo. destruct (w_key w); reflexivity.
Qed.

Lemma new_rec_nocolon w : mem c_colon (m_otype (new_rec w)) = false.
Proof.
  unfold new_rec. destruct (split_object (k_obj (w_key w))) as [t id] eqn:E. simpl.
  eapply split_object_nocolon; eauto.
Qed.

Lemma new_rec_ctx w : m_cctx (new_rec w) = cond_ctx (w_cond w).
Proof. unfold new_rec. destruct (split_object (k_obj (w_key w))). reflexivity. Qed.

Lemma new_rec_wf w :
  wf_key (w_key w) = true -> wf_ctx (cond_ctx (w_cond w)) = true -> wf_rec (new_rec w) = true.
Proof.
  intros H Hc. unfold wf_rec. rewrite (new_rec_key w H), H, new_rec_nocolon, new_rec_ctx, Hc. reflexivity.
Qed.

Lemma new_rec_obs w : wf_key (w_key w) = true -> rec_obs (new_rec w) = (w_key w, obs_cond (w_cond w)).
Proof.
  intro H. unfold rec_obs. rewrite (new_rec_key w H). f_equal.
  unfold new_rec. destruct (split_object (k_obj (w_key w))). reflexivity.
Qed.

(* ---------------------------------------------------------------------------------------- *)
(* All-or-nothing, unconditionally                                                           *)

Lemma sanitize_deletes_len rs ig dels fl :
  sanitize_deletes rs ig dels = inr fl -> length fl = length dels.
Proof.
  revert fl; induction dels as [|d ds IH]; simpl; intros fl H.
  - inversion H; reflexivity.
  - destruct (sanitize_deletes rs ig ds) as [e|fl'] eqn:E.
    + destruct (mfind rs d); [discriminate|]. destruct ig; discriminate.
    + assert (exists b, fl = b :: fl') as [b ->].
      { destruct (mfind rs d); [eexists; inversion H; reflexivity|].
        destruct ig; [eexists; inversion H; reflexivity|discriminate]. }
      simpl. f_equal. apply IH. reflexivity.
Qed.

(* the write loop only appends: records and log grow by the same sub-sequence of the writes *)
Lemma write_loop_spec now wrs : forall recs log recs' log',
  write_loop now wrs recs log = (recs', log') ->
  exists added, recs' = recs ++ map new_rec added /\ log' = log ++ map (wr_change now) added
                /\ (forall w, In w added -> In w wrs).
Proof.
  induction wrs as [|w ws IH]; simpl; intros recs log recs' log' H.
  - inversion H; subst. exists []. simpl. rewrite !app_nil_r. auto.
  - destruct (existsb (fun et => tk_match et (w_key w)) recs).
    + destruct (IH _ _ _ _ H) as (ad & -> & -> & Hin). exists ad. auto.
    + destruct (IH _ _ _ _ H) as (ad & -> & -> & Hin). exists (w :: ad). simpl.
      rewrite <- !app_assoc. simpl. repeat split; auto. intros x [->|Hx]; auto.
Qed.

Theorem write_all_or_nothing_lemma ondup onmiss dels wrs now st r st' :
  mem_write ondup onmiss dels wrs now st = (r, st') ->
  match r with
  | WErr _ => st' = st
  | WOk =>
      exists (p : mrec -> bool) (added : list witem),
        tuples st' = filter (fun x => negb (p x)) (tuples st) ++ map new_rec added
        /\ changes st' = changes st ++ map (del_change now) (filter p (tuples st)) ++ map (wr_change now) added
        /\ (forall x, p x = true -> exists d, In d dels /\ tk_match x d = true)
        /\ (forall w, In w added -> In w wrs)
  end.
Proof.
  unfold mem_write. intro H.
  destruct (sanitize_deletes (tuples st) (opt_ignore onmiss) dels) as [e|flags] eqn:Ed.
  { inversion H; subst. reflexivity. }
  destruct (sanitize_writes (tuples st) (opt_ignore ondup) wrs) as [e|] eqn:Ew.
  { inversion H; subst. reflexivity. }
  destruct (write_loop now wrs _ _) as [recs log2] eqn:El. inversion H; subst. clear H.
  apply write_loop_spec in El as (added & -> & -> & Hin).
  exists (deleted_by (combine dels flags)), added. simpl. rewrite <- app_assoc. repeat split; auto.
  intros x Hx. unfold deleted_by in Hx. apply existsb_exists in Hx as ([d f] & Hdf & Hm).
  simpl in Hm. apply andb_true_iff in Hm as [Hm _]. exists d. split; auto.
  apply in_combine_l in Hdf. exact Hdf.
Qed.

(* ---------------------------------------------------------------------------------------- *)
(* List helpers                                                                             *)

Lemma filter_map_comm {A B : Type} (f : A -> B) (p : B -> bool) (l : list A) :
  map f (filter (fun x => p (f x)) l) = filter p (map f l).
Proof. induction l as [|a l IH]; simpl; [reflexivity|]. destruct (p (f a)); simpl; rewrite IH; reflexivity. Qed.

Lemma filter_ext_in' {A : Type} (p q : A -> bool) (l : list A) :
  (forall x, In x l -> p x = q x) -> filter p l = filter q l.
Proof.
  induction l as [|a l IH]; simpl; intro H; [reflexivity|].
  rewrite (H a (or_introl eq_refl)). rewrite IH; [reflexivity|]. intros x Hx. apply H. right. exact Hx.
Qed.

Lemma existsb_ext' {A : Type} (p q : A -> bool) (l : list A) :
  (forall x, In x l -> p x = q x) -> existsb p l = existsb q l.
Proof.
  induction l as [|a l IH]; simpl; intro H; [reflexivity|].
  rewrite (H a (or_introl eq_refl)). rewrite IH; [reflexivity|]. intros x Hx. apply H. right. exact Hx.
Qed.

Lemma in_keys_In k ks : in_keys k ks = true <-> In k ks.
Proof.
  unfold in_keys. rewrite existsb_exists. split.
  - intros (x & Hx & E). apply key_eqb_eq in E. subst. exact Hx.
  - intro H. exists k. split; [exact H | apply key_eqb_refl].
Qed.

Lemma in_keys_false k ks : in_keys k ks = false <-> ~ In k ks.
Proof.
  rewrite <- in_keys_In. destruct (in_keys k ks); split; intro H.
  - discriminate.
  - exfalso. apply H. reflexivity.
  - intro; discriminate.
  - reflexivity.
Qed.

Lemma nodup_keys_NoDup ks : nodup_keys ks = true <-> NoDup ks.
Proof.
  induction ks as [|k ks IH]; simpl.
  - split; [constructor | reflexivity].
  - rewrite andb_true_iff, negb_true_iff, in_keys_false, IH. split.
    + intros [H1 H2]. constructor; assumption.
    + intro H. inversion H; subst. auto.
Qed.

Lemma NoDup_app_intro {A : Type} (a b : list A) :
  NoDup a -> NoDup b -> (forall x, In x a -> ~ In x b) -> NoDup (a ++ b).
Proof.
  induction a as [|x a IH]; simpl; intros Ha Hb Hd; [exact Hb|].
  inversion Ha; subst. constructor.
  - rewrite in_app_iff. intros [H|H]; [contradiction|]. exact (Hd x (or_introl eq_refl) H).
  - apply IH; auto.
Qed.

Lemma NoDup_app_inv {A : Type} (a b : list A) :
  NoDup (a ++ b) -> NoDup a /\ NoDup b /\ (forall x, In x a -> ~ In x b).
Proof.
  induction a as [|x a IH]; simpl; intro H.
  - repeat split; [constructor | exact H | intros x []].
  - inversion H; subst. destruct (IH H3) as (Ha & Hb & Hd). repeat split.
    + constructor; [|exact Ha]. intro Hx. apply H2. apply in_app_iff. left. exact Hx.
    + exact Hb.
    + intros y [->|Hy]; [|apply Hd; exact Hy]. intro Hy. apply H2. apply in_app_iff. right. exact Hy.
Qed.

Lemma NoDup_filter' {A : Type} (p : A -> bool) (l : list A) : NoDup l -> NoDup (filter p l).
Proof.
  induction l as [|a l IH]; simpl; intro H; [constructor|]. inversion H; subst.
  destruct (p a); [constructor|]; auto. rewrite filter_In. tauto.
Qed.

Lemma NoDup_map_filter {A B : Type} (f : A -> B) (p : A -> bool) (l : list A) :
  NoDup (map f l) -> NoDup (map f (filter p l)).
Proof.
  induction l as [|a l IH]; simpl; intro H; [constructor|]. inversion H; subst.
  destruct (p a); simpl; [constructor|]; auto.
  rewrite in_map_iff. intros (x & E & Hx). apply filter_In in Hx as [Hx _].
  apply H2. rewrite <- E. apply in_map. exact Hx.
Qed.

(* ---------------------------------------------------------------------------------------- *)
(* The memory backend against the specification, on well-formed stores and requests          *)

Arguments rec_obs : simpl never.
Arguments obs_cond : simpl never.

Lemma mfind_none rs k r : mfind rs k = None -> In r rs -> tk_match r k = false.
Proof.
  induction rs as [|a rs IH]; simpl; intros H Hin; [contradiction|].
  destruct (tk_match a k) eqn:E; [discriminate|]. destruct Hin as [->|Hin]; auto.
Qed.

Lemma mfind_some rs k r : mfind rs k = Some r -> In r rs /\ tk_match r k = true.
Proof.
  induction rs as [|a rs IH]; simpl; intro H; [discriminate|].
  destruct (tk_match a k) eqn:E.
  - inversion H; subst. auto.
  - destruct (IH H). auto.
Qed.

Lemma lookup_obs rs k :
  forallb wf_rec rs = true -> wf_key k = true ->
  lookup k (map rec_obs rs) = option_map (fun r => snd (rec_obs r)) (mfind rs k).
Proof.
  intros Hrs Hk. induction rs as [|a rs IH]; simpl; [reflexivity|].
  simpl in Hrs. apply andb_true_iff in Hrs as [Ha Hrs].
  apply wf_rec_inv in Ha as (_ & Hc & _).
  rewrite (match_wf a k Hc Hk). destruct (key_eqb (rec_key a) k); [reflexivity|]. apply IH. exact Hrs.
Qed.

Lemma lookup_none_keys k ts : lookup k ts = None <-> ~ In k (map fst ts).
Proof.
  induction ts as [|[k' c] ts IH]; simpl.
  - tauto.
  - destruct (key_eqb k' k) eqn:E.
    + apply key_eqb_eq in E. subst. split; [discriminate|]. intro H. exfalso. apply H. left. reflexivity.
    + apply key_eqb_neq in E. rewrite IH. split; [intros H [H1|H1]; [contradiction|auto] | intros H H1; apply H; right; exact H1].
Qed.

Lemma sanitize_deletes_spec rs ig dels :
  forallb wf_rec rs = true -> forallb wf_key dels = true ->
  match sanitize_deletes rs ig dels with
  | inl e => spec_del_err ig dels (map rec_obs rs) = Some e
  | inr fl => spec_del_err ig dels (map rec_obs rs) = None
              /\ Forall2 (fun d f => f = true -> mfind rs d = None) dels fl
  end.
Proof.
  intros Hrs. induction dels as [|d ds IH]; simpl; intro Hd.
  - split; [reflexivity | constructor].
  - apply andb_true_iff in Hd as [Hd Hds]. specialize (IH Hds).
    rewrite (lookup_obs rs d Hrs Hd).
    destruct (mfind rs d) as [r|] eqn:Ef; simpl.
    + destruct (sanitize_deletes rs ig ds) as [e|fl]; [exact IH|].
      destruct IH as [IH1 IH2]. split; [exact IH1|]. constructor; [discriminate | exact IH2].
    + destruct ig; [|reflexivity].
      destruct (sanitize_deletes rs true ds) as [e|fl]; [exact IH|].
      destruct IH as [IH1 IH2]. split; [exact IH1|]. constructor; [auto | exact IH2].
Qed.

(* unconditional: flagged ("missing") deletes match nothing, so the flags are immaterial *)
Lemma sanitize_deletes_flags rs ig dels fl :
  sanitize_deletes rs ig dels = inr fl -> Forall2 (fun d f => f = true -> mfind rs d = None) dels fl.
Proof.
  revert fl. induction dels as [|d ds IH]; simpl; intros fl H.
  - inversion H. constructor.
  - destruct (sanitize_deletes rs ig ds) as [e|fl'] eqn:E.
    + destruct (mfind rs d); [discriminate|]. destruct ig; discriminate.
    + destruct (mfind rs d) eqn:Ef.
      * inversion H; subst. constructor; [discriminate | apply IH; reflexivity].
      * destruct ig; [|discriminate]. inversion H; subst. constructor; [auto | apply IH; reflexivity].
Qed.

Lemma deleted_by_flags rs dels fl r :
  Forall2 (fun d f => f = true -> mfind rs d = None) dels fl -> In r rs ->
  deleted_by (combine dels fl) r = existsb (tk_match r) dels.
Proof.
  intros HF Hin. unfold deleted_by. induction HF as [|d f ds fl' Hdf HF IH]; simpl; [reflexivity|].
  rewrite IH. f_equal. destruct f; simpl; [|apply andb_true_r].
  rewrite (mfind_none rs d r (Hdf eq_refl) Hin). reflexivity.
Qed.

Lemma mem_same_obs r c :
  wf_ctx (m_cctx r) = true -> wf_ctx (cond_ctx c) = true ->
  mem_same_cond r c = true -> snd (rec_obs r) = obs_cond c.
Proof.
  unfold mem_same_cond, rec_obs, obs_cond. simpl. intros H1 H2 H.
  apply andb_true_iff in H as [Hn Ht]. apply beqb_eq in Hn, Ht. rewrite Hn.
  destruct (cond_name c); [reflexivity|]. simpl. f_equal.
  destruct (m_cctx r) as [|t1], (cond_ctx c) as [|t2]; simpl in *; try reflexivity.
  - subst t2. rewrite beqb_refl in H2. discriminate.
  - subst t1. rewrite beqb_refl in H1. discriminate.
  - exact Ht.
Qed.

Lemma sanitize_writes_spec rs ig wrs :
  forallb wf_rec rs = true ->
  forallb (fun w => wf_key (w_key w)) wrs = true ->
  forallb (fun w => wf_ctx (cond_ctx (w_cond w))) wrs = true ->
  (ig = true -> forall w r, In w wrs -> mfind rs (w_key w) = Some r ->
      ocond_eqb (snd (rec_obs r)) (obs_cond (w_cond w)) = true -> mem_same_cond r (w_cond w) = true) ->
  sanitize_writes rs ig wrs = spec_wr_err ig wrs (map rec_obs rs).
Proof.
  intros Hrs. induction wrs as [|w ws IH]; simpl; intros Hk Hc Ht; [reflexivity|].
  apply andb_true_iff in Hk as [Hk Hks]. apply andb_true_iff in Hc as [Hc Hcs].
  assert (IH' : sanitize_writes rs ig ws = spec_wr_err ig ws (map rec_obs rs)).
  { apply IH; auto. }
  rewrite (lookup_obs rs (w_key w) Hrs Hk).
  destruct (mfind rs (w_key w)) as [r|] eqn:Ef; simpl; [|exact IH'].
  destruct ig; [|reflexivity].
  change (norm_cond (m_cname r) (m_cctx r)) with (snd (rec_obs r)).
  destruct (mem_same_cond r (w_cond w)) eqn:Em.
  - assert (Hr : In r rs) by (apply mfind_some in Ef; tauto).
    assert (Hwr : wf_ctx (m_cctx r) = true).
    { rewrite forallb_forall in Hrs. apply Hrs in Hr. apply wf_rec_inv in Hr. tauto. }
    rewrite (mem_same_obs r (w_cond w) Hwr Hc Em).
    replace (ocond_eqb (obs_cond (w_cond w)) (obs_cond (w_cond w))) with true
      by (symmetry; apply ocond_eqb_eq; reflexivity).
    exact IH'.
  - destruct (ocond_eqb (snd (rec_obs r)) (obs_cond (w_cond w))) eqn:Eo; [|reflexivity].
    rewrite (Ht eq_refl w r (or_introl eq_refl) Ef Eo) in Em. discriminate.
Qed.

Lemma trig_mem_ctx_false ondup wrs st :
  trig_mem_ctx ondup wrs st = false ->
  opt_ignore ondup = true -> forall w r, In w wrs -> mfind (tuples st) (w_key w) = Some r ->
  ocond_eqb (snd (rec_obs r)) (obs_cond (w_cond w)) = true -> mem_same_cond r (w_cond w) = true.
Proof.
  unfold trig_mem_ctx. intros H Hig w r Hin Ef Eo. rewrite Hig, andb_true_l in H.
  destruct (mem_same_cond r (w_cond w)) eqn:Em; [reflexivity|]. exfalso.
  apply not_true_iff_false in H. apply H. apply existsb_exists. exists w. split; [exact Hin|].
  rewrite Ef, Eo, Em. reflexivity.
Qed.

(* the write loop on well-formed input: exactly the items that are not present are appended *)
Lemma write_loop_wf now (present : witem -> bool) wrs : forall recs log,
  forallb (fun w => wf_key (w_key w)) wrs = true ->
  NoDup (map w_key wrs) ->
  (forall r, In r recs -> mem c_colon (m_otype r) = false) ->
  (forall w, In w wrs -> existsb (fun et => key_eqb (rec_key et) (w_key w)) recs = present w) ->
  write_loop now wrs recs log =
    (recs ++ map new_rec (filter (fun w => negb (present w)) wrs),
     log ++ map (wr_change now) (filter (fun w => negb (present w)) wrs)).
Proof.
  induction wrs as [|w ws IH]; simpl; intros recs log Hk Hnd Hc Hp.
  - rewrite !app_nil_r. reflexivity.
  - apply andb_true_iff in Hk as [Hk Hks]. inversion Hnd as [|? ? Hnin Hnd']; subst.
    assert (Em : existsb (fun et => tk_match et (w_key w)) recs = present w).
    { rewrite <- (Hp w (or_introl eq_refl)). apply existsb_ext'. intros x Hx. apply match_wf; auto. }
    rewrite Em. destruct (present w) eqn:Ep; simpl.
    + apply IH; auto.
    + rewrite IH; auto.
      * rewrite <- !app_assoc. reflexivity.
      * intros r Hr. apply in_app_iff in Hr as [Hr|[<-|[]]]; [auto | apply new_rec_nocolon].
      * intros w' Hw'. rewrite existsb_app. simpl. rewrite (Hp w' (or_intror Hw')).
        rewrite (new_rec_key w Hk).
        replace (key_eqb (w_key w) (w_key w')) with false; [destruct (present w'); reflexivity|].
        symmetry. apply key_eqb_neq. intro E. apply Hnin. rewrite E. apply in_map. exact Hw'.
Qed.

Lemma existsb_key_lookup rs k :
  existsb (fun et => key_eqb (rec_key et) k) rs =
  match lookup k (map rec_obs rs) with Some _ => true | None => false end.
Proof.
  induction rs as [|a rs IH]; simpl; [reflexivity|].
  destruct (key_eqb (rec_key a) k); simpl; [reflexivity | exact IH].
Qed.

Lemma lookup_filter_notin k dels ts :
  ~ In k dels ->
  lookup k (filter (fun t => negb (in_keys (fst t) dels)) ts) = lookup k ts.
Proof.
  intro Hn. induction ts as [|[k' c] ts IH]; simpl; [reflexivity|].
  destruct (in_keys k' dels) eqn:E; simpl.
  - destruct (key_eqb k' k) eqn:Ek; [|exact IH].
    apply key_eqb_eq in Ek. subst. apply in_keys_In in E. contradiction.
  - rewrite IH. reflexivity.
Qed.

Lemma wf_request_inv dels wrs :
  wf_request dels wrs = true ->
  forallb wf_key dels = true /\ forallb (fun w => wf_key (w_key w)) wrs = true
  /\ NoDup dels /\ NoDup (map w_key wrs) /\ (forall k, In k dels -> ~ In k (map w_key wrs))
  /\ forallb (fun w => wf_ctx (cond_ctx (w_cond w))) wrs = true.
Proof.
  unfold wf_request, req_keys. intro H.
  apply andb_true_iff in H as [H Hc]. apply andb_true_iff in H as [Hk Hn].
  rewrite forallb_app in Hk. apply andb_true_iff in Hk as [Hk1 Hk2].
  apply nodup_keys_NoDup in Hn. apply NoDup_app_inv in Hn as (Hn1 & Hn2 & Hd).
  assert (Hk2' : forallb (fun w => wf_key (w_key w)) wrs = true).
  { clear - Hk2. induction wrs as [|w ws IH]; simpl in *; [reflexivity|].
    apply andb_true_iff in Hk2 as [-> H2]. simpl. apply IH. exact H2. }
  repeat split; auto.
Qed.

Definition present_in (ts : list otuple) (w : witem) : bool :=
  match lookup (w_key w) ts with Some _ => true | None => false end.

Lemma spec_new_present wrs ts :
  spec_new wrs ts = map (fun w => (w_key w, obs_cond (w_cond w))) (filter (fun w => negb (present_in ts w)) wrs).
Proof.
  unfold spec_new. f_equal. apply filter_ext_in'. intros w _. unfold present_in.
  destruct (lookup (w_key w) ts); reflexivity.
Qed.

Lemma obs_new_recs ws :
  forallb (fun w => wf_key (w_key w)) ws = true ->
  map rec_obs (map new_rec ws) = map (fun w => (w_key w, obs_cond (w_cond w))) ws.
Proof.
  induction ws as [|w ws IH]; simpl; intro H; [reflexivity|].
  apply andb_true_iff in H as [H1 H2]. rewrite (new_rec_obs w H1), IH; auto.
Qed.

Lemma obs_wr_changes now ws :
  forallb (fun w => wf_key (w_key w)) ws = true ->
  map obs_change (map (wr_change now) ws) =
  map (fun t : otuple => (OpWrite, fst t, snd t)) (map (fun w => (w_key w, obs_cond (w_cond w))) ws).
Proof.
  induction ws as [|w ws IH]; simpl; intro H; [reflexivity|].
  apply andb_true_iff in H as [H1 H2]. rewrite IH; auto. f_equal.
  unfold obs_change, wr_change. simpl.
  change (norm_cond (m_cname (new_rec w)) (m_cctx (new_rec w))) with (snd (rec_obs (new_rec w))).
  rewrite (new_rec_key w H1), (new_rec_obs w H1). reflexivity.
Qed.

Lemma obs_del_changes now rs :
  map obs_change (map (del_change now) rs) =
  map (fun t : otuple => (OpDelete, fst t, ([], []))) (map rec_obs rs).
Proof. induction rs as [|r rs IH]; simpl; [reflexivity|]. rewrite IH. reflexivity. Qed.

Lemma forallb_filter_sub {A : Type} (p q : A -> bool) l :
  forallb p l = true -> forallb p (filter q l) = true.
Proof.
  rewrite !forallb_forall. intros H x Hx. apply filter_In in Hx as [Hx _]. apply H. exact Hx.
Qed.

Theorem write_options_exact_lemma ondup onmiss dels wrs now st :
  wf_store st = true -> wf_request dels wrs = true -> trig_mem_ctx ondup wrs st = false ->
  match spec_err ondup onmiss dels wrs (obs_tuples st) with
  | Some e => mem_write ondup onmiss dels wrs now st = (WErr e, st)
  | None =>
      exists st', mem_write ondup onmiss dels wrs now st = (WOk, st')
        /\ obs_tuples st' = spec_kept dels (obs_tuples st) ++ spec_new wrs (obs_tuples st)
        /\ obs_log st' = obs_log st ++ spec_dlog dels (obs_tuples st) ++ spec_wlog wrs (obs_tuples st)
        /\ wf_store st' = true
  end.
Proof.
  intros Hst Hreq Htrig. unfold wf_store in Hst. apply andb_true_iff in Hst as [Hrs Hnd].
  apply nodup_keys_NoDup in Hnd.
  apply wf_request_inv in Hreq as (Hdk & Hwk & Hdn & Hwn & Hdisj & Hwc).
  unfold spec_err, mem_write, obs_tuples.
  pose proof (sanitize_deletes_spec (tuples st) (opt_ignore onmiss) dels Hrs Hdk) as Hsd.
  destruct (sanitize_deletes (tuples st) (opt_ignore onmiss) dels) as [e|fl].
  { rewrite Hsd. reflexivity. }
  destruct Hsd as [Hsd HF]. rewrite Hsd.
  rewrite (sanitize_writes_spec (tuples st) (opt_ignore ondup) wrs Hrs Hwk Hwc
             (trig_mem_ctx_false ondup wrs st Htrig)).
  destruct (spec_wr_err (opt_ignore ondup) wrs (map rec_obs (tuples st))) as [e|]; [reflexivity|].
  set (ts := map rec_obs (tuples st)).
  (* the delete loop *)
  assert (Hdel : forall r, In r (tuples st) -> deleted_by (combine dels fl) r = in_keys (rec_key r) dels).
  { intros r Hr. rewrite (deleted_by_flags _ _ _ _ HF Hr). unfold in_keys. apply existsb_ext'.
    intros d Hd. rewrite forallb_forall in Hrs, Hdk. apply match_wf; [|apply Hdk; exact Hd].
    apply Hrs in Hr. apply wf_rec_inv in Hr. tauto. }
  rewrite (filter_ext_in' _ (fun r => in_keys (rec_key r) dels) _ Hdel).
  rewrite (filter_ext_in' (fun r => negb (deleted_by (combine dels fl) r))
             (fun r => negb (in_keys (rec_key r) dels)) (tuples st))
    by (intros r Hr; rewrite (Hdel r Hr); reflexivity).
  set (kept := filter (fun r => negb (in_keys (rec_key r) dels)) (tuples st)).
  set (gone := filter (fun r => in_keys (rec_key r) dels) (tuples st)).
  assert (Hkept : map rec_obs kept = spec_kept dels ts).
  { unfold kept, spec_kept, ts. rewrite <- filter_map_comm. reflexivity. }
  assert (Hgone : map rec_obs gone = spec_deleted dels ts).
  { unfold gone, spec_deleted, ts. rewrite <- filter_map_comm. reflexivity. }
  (* the write loop *)
  rewrite (write_loop_wf now (present_in ts) wrs kept _ Hwk Hwn).
  2:{ intros r Hr. apply filter_In in Hr as [Hr _]. rewrite forallb_forall in Hrs.
      apply Hrs in Hr. apply wf_rec_inv in Hr. tauto. }
  2:{ intros w Hw. rewrite existsb_key_lookup, Hkept. unfold spec_kept, present_in.
      rewrite lookup_filter_notin; [reflexivity|]. intro Hin. apply (Hdisj _ Hin). apply in_map. exact Hw. }
  set (news := filter (fun w => negb (present_in ts w)) wrs).
  assert (Hnk : forallb (fun w => wf_key (w_key w)) news = true) by (apply forallb_filter_sub; exact Hwk).
  eexists. split; [reflexivity|]. simpl. repeat split.
  - rewrite map_app, Hkept, (obs_new_recs news Hnk), spec_new_present. reflexivity.
  - unfold obs_log. simpl. rewrite !map_app, obs_del_changes, (obs_wr_changes now news Hnk), Hgone.
    unfold spec_dlog, spec_wlog. rewrite spec_new_present, <- app_assoc. reflexivity.
  - unfold wf_store. simpl. apply andb_true_iff. split.
    + rewrite forallb_app. apply andb_true_iff. split; [apply forallb_filter_sub; exact Hrs|].
      rewrite forallb_forall. intros r Hr. apply in_map_iff in Hr as (w & <- & Hw).
      apply filter_In in Hw as [Hw _]. rewrite forallb_forall in Hwk, Hwc. apply new_rec_wf; auto.
    + apply nodup_keys_NoDup. rewrite map_app. apply NoDup_app_intro.
      * apply NoDup_map_filter. exact Hnd.
      * assert (E : map rec_key (map new_rec news) = map w_key news).
        { rewrite map_map. apply map_ext_in. intros w Hw. apply new_rec_key.
          rewrite forallb_forall in Hnk. apply Hnk. exact Hw. }
        rewrite E. apply NoDup_map_filter. exact Hwn.
      * intros k Hk1 Hk2. apply in_map_iff in Hk1 as (r & <- & Hr).
        apply filter_In in Hr as [Hr _].
        apply in_map_iff in Hk2 as (r2 & E2 & Hr2). apply in_map_iff in Hr2 as (w & <- & Hw).
        apply filter_In in Hw as [Hw Hp]. rewrite forallb_forall in Hwk.
        rewrite (new_rec_key w (Hwk w Hw)) in E2. unfold present_in in Hp.
        destruct (lookup (w_key w) ts) eqn:El; [discriminate|].
        apply lookup_none_keys in El. apply El. unfold ts. rewrite map_map.
        apply in_map_iff. exists r. split; [|exact Hr]. simpl. symmetry. exact E2.
Qed.

(* the boolean truth table and the first-error function agree on success *)
Lemma spec_del_err_none ig dels ts :
  spec_del_err ig dels ts = None <->
  forallb (fun d => match lookup d ts with Some _ => true | None => ig end) dels = true.
Proof.
  induction dels as [|d ds IH]; simpl; [tauto|].
  destruct (lookup d ts); simpl; [exact IH|]. destruct ig; simpl; [exact IH|]. split; discriminate.
Qed.

Lemma spec_wr_err_none ig wrs ts :
  spec_wr_err ig wrs ts = None <->
  forallb (fun w => match lookup (w_key w) ts with
                    | None => true
                    | Some c => ig && ocond_eqb c (obs_cond (w_cond w)) end) wrs = true.
Proof.
  induction wrs as [|w ws IH]; simpl; [tauto|].
  destruct (lookup (w_key w) ts) as [c|]; simpl; [|exact IH].
  destruct ig; simpl; [|split; discriminate].
  destruct (ocond_eqb c (obs_cond (w_cond w))); simpl; [exact IH | split; discriminate].
Qed.

Lemma spec_err_ok ondup onmiss dels wrs ts :
  spec_err ondup onmiss dels wrs ts = None <-> spec_ok ondup onmiss dels wrs ts = true.
Proof.
  unfold spec_err, spec_ok. rewrite andb_true_iff, <- spec_del_err_none, <- spec_wr_err_none.
  destruct (spec_del_err (opt_ignore onmiss) dels ts); split; try tauto; try discriminate;
    try (intros [H _]; discriminate).
Qed.

(* C12, truth table, in the form used by Props/C12.v *)
Theorem write_options_exact_partial_lemma ondup onmiss dels wrs now st :
  wf_store st = true -> wf_request dels wrs = true -> trig_mem_ctx ondup wrs st = false ->
  match spec_write ondup onmiss dels wrs (obs_tuples st) with
  | None => exists e, mem_write ondup onmiss dels wrs now st = (WErr e, st)
  | Some (ts', dlog, wlog) =>
      exists st', mem_write ondup onmiss dels wrs now st = (WOk, st')
        /\ obs_tuples st' = ts' /\ obs_log st' = obs_log st ++ dlog ++ wlog /\ wf_store st' = true
  end.
Proof.
  intros H1 H2 H3. pose proof (write_options_exact_lemma ondup onmiss dels wrs now st H1 H2 H3) as H.
  unfold spec_write. destruct (spec_ok ondup onmiss dels wrs (obs_tuples st)) eqn:E.
  - apply spec_err_ok in E. rewrite E in H. exact H.
  - destruct (spec_err ondup onmiss dels wrs (obs_tuples st)) as [e|] eqn:E2.
    + exists e. exact H.
    + apply spec_err_ok in E2. rewrite E2 in E. discriminate.
Qed.

(* ---- the deviations of the unchanged code, as witnesses --------------------------------- *)

Definition b_doc1 : bytes := [100; 111; 99; 58; 49].      (* doc:1 *)
Definition b_doc2 : bytes := [100; 111; 99; 58; 50].      (* doc:2 *)
Definition b_doc_ : bytes := [100; 111; 99; 58].          (* doc:  *)
Definition b_viewer : bytes := [118; 105; 101; 119; 101; 114].
Definition b_usera : bytes := [117; 115; 101; 114; 58; 97].  (* user:a *)
Definition b_c1 : bytes := [99; 49].
Definition k_d1 : key := mkKey b_doc1 b_viewer b_usera.
Definition k_d2 : key := mkKey b_doc2 b_viewer b_usera.
Definition k_dpat : key := mkKey b_doc_ b_viewer b_usera.

(* a store holding doc:1#viewer@user:a with condition c1 and a nil context *)
Definition st_c1_nil : mstate :=
  snd (mem_write OError OError [] [mkW k_d1 (Some (b_c1, CNil)) true] 1 empty_state).

(* on_duplicate=ignore, identical tuple but the context spelled {} instead of nil: the
   specification skips the item, the memory backend reports a condition conflict *)
Theorem write_options_exact_refuted_ctx_lemma :
  exists ondup onmiss dels wrs now st,
    wf_store st = true /\ wf_request dels wrs = true /\
    spec_write ondup onmiss dels wrs (obs_tuples st) = Some (obs_tuples st, [], []) /\
    mem_write ondup onmiss dels wrs now st = (WErr ECondConflict, st).
Proof.
  exists OIgnore, OError, [], [mkW k_d1 (Some (b_c1, CStruct [])) true], 2, st_c1_nil.
  vm_compute. repeat split; reflexivity.
Qed.

(* a delete whose object has no id ("doc:") passes the command layer; the specification says the
   tuple does not exist (the request fails under on_missing=error), the memory backend deletes
   every doc tuple with that relation and user and logs one entry for each *)
Definition st_two_docs : mstate :=
  snd (mem_write OError OError [] [mkW k_d1 None true; mkW k_d2 None true] 1 empty_state).

Theorem write_options_exact_refuted_partial_key_lemma :
  exists dels st st',
    wf_store st = true /\ cmd_validate OError OError dels [] = None /\
    spec_write OError OError dels [] (obs_tuples st) = None /\
    mem_cmd_write OError OError dels [] 2 st = (WOk, st') /\
    obs_tuples st' = [] /\ length (changes st') = (length (changes st) + 2)%nat /\ length dels = 1%nat.
Proof.
  exists [k_dpat], st_two_docs. eexists. vm_compute. repeat split; reflexivity.
Qed.

(* non-vacuity: a well-formed store and request satisfying every hypothesis of the truth table *)
Example write_options_exact_nonvacuous :
  wf_store st_two_docs = true /\
  wf_request [k_d1] [mkW k_d2 None true; mkW (mkKey b_doc1 b_viewer [117; 115; 101; 114; 58; 98]) (Some (b_c1, CStruct [])) true] = true /\
  trig_mem_ctx OIgnore [mkW k_d2 None true] st_two_docs = false.
Proof. vm_compute. repeat split; reflexivity. Qed.
