(* Proofs about Store/Memory.v: the memory backend's Write is all-or-nothing, and on
   well-formed requests it computes exactly the specified truth table (C12). *)
From OFGA Require Import Store.Memory.
From Coq Require Import Permutation.
Open Scope N_scope.

(* ---------------------------------------------------------------------------------------- *)
(* Strings and keys                                                                         *)

Lemma is_nil_true b : is_nil b = true <-> b = [].
Proof. destruct b; simpl; split; intro H; congruence. Qed.

Lemma is_nil_false b : is_nil b = false <-> b <> [].
Proof. destruct b; simpl; split; intro H; congruence. Qed.

Lemma key_eqb_eq a b : key_eqb a b = true <-> a = b.
Proof.
  destruct a as [o1 r1 u1], b as [o2 r2 u2]; unfold key_eqb; simpl.
  rewrite !andb_true_iff, !beqb_eq. split.
  - intros [[-> ->] ->]. reflexivity.
  - intro H; inversion H; auto.
Qed.

Lemma key_eqb_refl a : key_eqb a a = true.
Proof. apply key_eqb_eq. reflexivity. Qed.

Lemma key_eqb_sym a b : key_eqb a b = key_eqb b a.
Proof.
  destruct (key_eqb a b) eqn:E1, (key_eqb b a) eqn:E2; try reflexivity.
  - apply key_eqb_eq in E1. subst. rewrite key_eqb_refl in E2. discriminate.
  - apply key_eqb_eq in E2. subst. rewrite key_eqb_refl in E1. discriminate.
Qed.

Lemma key_eqb_neq a b : key_eqb a b = false <-> a <> b.
Proof.
  split.
  - intros H ->. rewrite key_eqb_refl in H. discriminate.
  - intro H. destruct (key_eqb a b) eqn:E; [|reflexivity]. apply key_eqb_eq in E. contradiction.
Qed.

Lemma ocond_eqb_eq a b : ocond_eqb a b = true <-> a = b.
Proof.
  destruct a as [a1 a2], b as [b1 b2]; unfold ocond_eqb; simpl.
  rewrite andb_true_iff, !beqb_eq. split; [intros [-> ->]; reflexivity | intro H; inversion H; auto].
Qed.

Lemma split_object_build t id :
  mem c_colon t = false -> split_object (build_object t id) = (t, id).
Proof. intro H. unfold split_object, build_object. rewrite (cut_app _ _ _ H). reflexivity. Qed.

Lemma split_object_nocolon o t id : split_object o = (t, id) -> mem c_colon t = false.
Proof.
  unfold split_object. destruct (cut c_colon o) as [[a b]|] eqn:E; intro H; inversion H; subst.
  - apply cut_some in E. tauto.
  - reflexivity.
Qed.

Lemma build_object_inj t1 i1 t2 i2 :
  mem c_colon t1 = false -> mem c_colon t2 = false ->
  build_object t1 i1 = build_object t2 i2 -> t1 = t2 /\ i1 = i2.
Proof.
  intros H1 H2 H. pose proof (split_object_build t1 i1 H1) as E1.
  rewrite H, (split_object_build t2 i2 H2) in E1. inversion E1; auto.
Qed.

Lemma beqb_false_neq a b : beqb a b = false <-> a <> b.
Proof.
  split.
  - intros H ->. rewrite beqb_refl in H. discriminate.
  - intro H. destruct (beqb a b) eqn:E; [|reflexivity]. apply beqb_eq in E. contradiction.
Qed.

Lemma bool_eq_iff (a b : bool) : (a = true <-> b = true) -> a = b.
Proof. destruct a, b; intros [H1 H2]; try reflexivity; [symmetry; apply H1 | apply H2]; reflexivity. Qed.

(* ---------------------------------------------------------------------------------------- *)
(* Well-formed keys: match is equality                                                       *)

Lemma wf_obj_inv o :
  wf_obj o = true ->
  exists t id, split_object o = (t, id) /\ o = build_object t id /\ id <> [] /\ mem c_colon t = false
               /\ mem c_hash o = false.
Proof.
  unfold wf_obj. destruct (split_object o) as [t id] eqn:E. intro H.
  apply andb_true_iff in H as [H Hh]. apply andb_true_iff in H as [Hb Hi].
  exists t, id. apply beqb_eq in Hb. apply negb_true_iff in Hi, Hh. apply is_nil_false in Hi.
  repeat split; auto. eapply split_object_nocolon; eauto.
Qed.

Lemma wf_user_inv u :
  wf_user u = true ->
  exists t id r, to_user_parts u = (t, id, r) /\ from_user_parts t id r = u /\ id <> [] /\ u <> [].
Proof.
  unfold wf_user. destruct (to_user_parts u) as [[t id] r] eqn:E. intro H.
  apply andb_true_iff in H as [Hb Hi]. apply beqb_eq in Hb. apply negb_true_iff in Hi.
  apply is_nil_false in Hi. exists t, id, r. repeat split; auto.
  intro Hu. rewrite Hu in E. cbv in E. inversion E; subst. apply Hi. reflexivity.
Qed.

Lemma wf_rel_inv r : wf_rel r = true -> r <> [] /\ mem c_at r = false /\ mem c_hash r = false.
Proof.
  unfold wf_rel. intro H. apply andb_true_iff in H as [H H3]. apply andb_true_iff in H as [H1 H2].
  apply negb_true_iff in H1, H2, H3. apply is_nil_false in H1. auto.
Qed.

Lemma wf_key_inv k : wf_key k = true -> wf_obj (k_obj k) = true /\ wf_rel (k_rel k) = true /\ wf_user (k_user k) = true.
Proof. unfold wf_key. rewrite !andb_true_iff. tauto. Qed.

Lemma wf_rec_inv r : wf_rec r = true -> wf_key (rec_key r) = true /\ mem c_colon (m_otype r) = false.
Proof. unfold wf_rec. rewrite andb_true_iff, negb_true_iff. tauto. Qed.

(* the heart of the matter: on well-formed keys the backend's pattern match is key equality *)
Lemma match_wf r k :
  mem c_colon (m_otype r) = false -> wf_key k = true -> tk_match r k = key_eqb (rec_key r) k.
Proof.
  intros Hc Hk. apply wf_key_inv in Hk as (Ho & Hr & Hu).
  apply wf_obj_inv in Ho as (t & id & Es & Eo & Hid & Ht & _).
  apply wf_rel_inv in Hr as (Hr & _).
  apply wf_user_inv in Hu as (ut & uid & ur & Eu & _ & Huid & Hune).
  unfold tk_match, key_eqb. simpl.
  replace (is_nil (k_obj k)) with false
    by (symmetry; apply is_nil_false; rewrite Eo; unfold build_object; destruct t; discriminate).
  rewrite Es. replace (is_nil id) with false by (symmetry; apply is_nil_false; exact Hid).
  replace (is_nil (k_rel k)) with false by (symmetry; apply is_nil_false; exact Hr).
  replace (is_nil (k_user k)) with false by (symmetry; apply is_nil_false; exact Hune).
  rewrite Eu. replace (is_nil uid) with false by (symmetry; apply is_nil_false; exact Huid).
  f_equal. f_equal.
  apply bool_eq_iff. rewrite andb_true_iff, !beqb_eq. rewrite Eo. split.
  - intros [-> ->]. reflexivity.
  - intro H. apply build_object_inj in H; auto. destruct H; subst; auto.
Qed.

Lemma new_rec_key w : wf_key (w_key w) = true -> rec_key (new_rec w) = w_key w.
Proof.
  intro Hk. apply wf_key_inv in Hk as (Ho & _).
  apply wf_obj_inv in Ho as (t & id & Es & Eo & _).
  unfold new_rec, rec_key. rewrite Es. simpl. rewrite <- Eo. destruct (w_key w); reflexivity.
Qed.

Lemma new_rec_nocolon w : mem c_colon (m_otype (new_rec w)) = false.
Proof.
  unfold new_rec. destruct (split_object (k_obj (w_key w))) as [t id] eqn:E. simpl.
  eapply split_object_nocolon; eauto.
Qed.

Lemma new_rec_wf w : wf_key (w_key w) = true -> wf_rec (new_rec w) = true.
Proof.
  intro H. unfold wf_rec. rewrite (new_rec_key w H), H, new_rec_nocolon. reflexivity.
Qed.

Lemma new_rec_obs w : wf_key (w_key w) = true -> rec_obs (new_rec w) = (w_key w, obs_cond (w_cond w)).
Proof.
  intro H. unfold rec_obs. rewrite (new_rec_key w H). f_equal.
  unfold new_rec. destruct (split_object (k_obj (w_key w))). reflexivity.
Qed.

(* ---------------------------------------------------------------------------------------- *)
(* All-or-nothing, unconditionally                                                           *)

Lemma sanitize_deletes_len rs ig dels fl :
  sanitize_deletes rs ig dels = inr fl -> length fl = length dels.
Proof.
  revert fl; induction dels as [|d ds IH]; simpl; intros fl H.
  - inversion H; reflexivity.
  - destruct (mfind rs d); [|destruct ig; [|discriminate]];
      destruct (sanitize_deletes rs ig ds) as [e|fl']; try discriminate; inversion H; subst;
      simpl; f_equal; apply IH; reflexivity.
Qed.

(* the write loop only appends: records and log grow by the same sub-sequence of the writes *)
Lemma write_loop_spec now wrs : forall recs log recs' log',
  write_loop now wrs recs log = (recs', log') ->
  exists added, recs' = recs ++ map new_rec added /\ log' = log ++ map (wr_change now) added
                /\ (forall w, In w added -> In w wrs).
Proof.
  induction wrs as [|w ws IH]; simpl; intros recs log recs' log' H.
  - inversion H; subst. exists []. simpl. rewrite !app_nil_r. auto.
  - destruct (existsb (fun et => tk_match et (w_key w)) recs).
    + destruct (IH _ _ _ _ H) as (ad & -> & -> & Hin). exists ad. auto.
    + destruct (IH _ _ _ _ H) as (ad & -> & -> & Hin). exists (w :: ad). simpl.
      rewrite <- !app_assoc. simpl. repeat split; auto. intros x [->|Hx]; auto.
Qed.

Theorem write_all_or_nothing_lemma ondup onmiss dels wrs now st r st' :
  mem_write ondup onmiss dels wrs now st = (r, st') ->
  match r with
  | WErr _ => st' = st
  | WOk =>
      exists (p : mrec -> bool) (added : list witem),
        tuples st' = filter (fun x => negb (p x)) (tuples st) ++ map new_rec added
        /\ changes st' = changes st ++ map (del_change now) (filter p (tuples st)) ++ map (wr_change now) added
        /\ (forall x, p x = true -> exists d, In d dels /\ tk_match x d = true)
        /\ (forall w, In w added -> In w wrs)
  end.
Proof.
  unfold mem_write. intro H.
  destruct (sanitize_deletes (tuples st) (opt_ignore onmiss) dels) as [e|flags] eqn:Ed.
  { inversion H; subst. reflexivity. }
  destruct (sanitize_writes (tuples st) (opt_ignore ondup) wrs) as [e|] eqn:Ew.
  { inversion H; subst. reflexivity. }
  destruct (write_loop now wrs _ _) as [recs log2] eqn:El. inversion H; subst. clear H.
  apply write_loop_spec in El as (added & -> & -> & Hin).
  exists (deleted_by (combine dels flags)), added. simpl. rewrite <- app_assoc. repeat split; auto.
  intros x Hx. unfold deleted_by in Hx. apply existsb_exists in Hx as ([d f] & Hdf & Hm).
  simpl in Hm. apply andb_true_iff in Hm as [Hm _]. exists d. split; auto.
  apply in_combine_l in Hdf. exact Hdf.
Qed.
