(* C04 — proofs about the combined (stored + contextual) reader of Store/CombinedReader.v. *)
From Coq Require Import NArith List Bool Permutation Sorted Lia.
From OFGA Require Import Store.CombinedReader.
Import ListNotations.
Open Scope N_scope.

(* ---- lists, permutations ------------------------------------------------------------------ *)

Lemma filter_perm {A} (p : A -> bool) (l l' : list A) :
  Permutation l l' -> Permutation (filter p l) (filter p l').
Proof.
  intro H. induction H as [| x l1 l2 H IH | x y l1 | l1 l2 l3 H1 IH1 H2 IH2]; simpl.
  - constructor.
  - destruct (p x); [constructor|]; exact IH.
  - destruct (p x), (p y); try apply Permutation_refl. apply perm_swap.
  - eapply Permutation_trans; eauto.
Qed.

Lemma filter_filter {A} (p q : A -> bool) (l : list A) :
  filter p (filter q l) = filter (fun x => q x && p x) l.
Proof.
  induction l as [| a l IH]; simpl; [reflexivity|].
  destruct (q a); simpl; [destruct (p a)|]; rewrite ?IH; reflexivity.
Qed.

Lemma filter_ext_in' {A} (p q : A -> bool) (l : list A) :
  (forall x, In x l -> p x = q x) -> filter p l = filter q l.
Proof.
  induction l as [| a l IH]; simpl; intro H; [reflexivity|].
  rewrite (H a (or_introl eq_refl)). rewrite IH; [reflexivity|]. intros x Hx. apply H. right. exact Hx.
Qed.

Lemma filter_map_comm {A B} (g : A -> B) (p : B -> bool) (l : list A) :
  filter p (map g l) = map g (filter (fun x => p (g x)) l).
Proof.
  induction l as [| a l IH]; simpl; [reflexivity|]. destruct (p (g a)); simpl; rewrite IH; reflexivity.
Qed.

(* ---- obs ---------------------------------------------------------------------------------- *)

Lemma obs_obj t : rt_obj (obs t) = rt_obj t. Proof. unfold obs. destruct (rt_cond t =? 0); reflexivity. Qed.
Lemma obs_otype t : rt_otype (obs t) = rt_otype t. Proof. unfold obs. destruct (rt_cond t =? 0); reflexivity. Qed.
Lemma obs_rel t : rt_rel (obs t) = rt_rel t. Proof. unfold obs. destruct (rt_cond t =? 0); reflexivity. Qed.
Lemma obs_user t : rt_user (obs t) = rt_user t. Proof. unfold obs. destruct (rt_cond t =? 0); reflexivity. Qed.
Lemma obs_cond t : rt_cond (obs t) = rt_cond t.
Proof. unfold obs. destruct (rt_cond t =? 0) eqn:E; [apply N.eqb_eq in E; simpl; congruence | reflexivity]. Qed.
Lemma obs_idem t : obs (obs t) = obs t.
Proof. unfold obs at 1. rewrite obs_cond. destruct (rt_cond t =? 0) eqn:E; [|reflexivity].
       unfold obs. rewrite E. reflexivity. Qed.
Lemma obs_key t : key_of (obs t) = key_of t.
Proof. unfold key_of. rewrite obs_obj, obs_rel, obs_user. reflexivity. Qed.

(* ---- sorting ------------------------------------------------------------------------------ *)

Lemma ins_obj_perm a l : Permutation (ins_obj a l) (a :: l).
Proof.
  induction l as [| b l IH]; simpl; [apply Permutation_refl|].
  destruct (rt_obj b <? rt_obj a).
  - eapply Permutation_trans; [apply perm_skip, IH | apply perm_swap].
  - apply Permutation_refl.
Qed.

Lemma sort_obj_perm l : Permutation (sort_obj l) l.
Proof.
  induction l as [| a l IH]; simpl; [constructor|].
  eapply Permutation_trans; [apply ins_obj_perm | apply perm_skip, IH].
Qed.

Definition le_obj (a b : rtuple) : Prop := rt_obj a <= rt_obj b.
Definition asc (l : list rtuple) : Prop := StronglySorted le_obj l.

Lemma ins_obj_in a l x : In x (ins_obj a l) <-> x = a \/ In x l.
Proof.
  split; intro H.
  - apply (Permutation_in _ (ins_obj_perm a l)) in H. destruct H; [left; congruence | right; assumption].
  - apply (Permutation_in _ (Permutation_sym (ins_obj_perm a l))). destruct H; [left; congruence | right; assumption].
Qed.

Lemma ins_obj_asc a l : asc l -> asc (ins_obj a l).
Proof.
  unfold asc. induction l as [| b l IH]; simpl; intro H.
  - constructor; [constructor | constructor].
  - inversion H as [| b' l' Hs Hf]; subst.
    destruct (rt_obj b <? rt_obj a) eqn:E.
    + apply N.ltb_lt in E. constructor; [apply IH; exact Hs|].
      apply Forall_forall. intros x Hx. apply ins_obj_in in Hx. destruct Hx as [-> | Hx].
      * unfold le_obj. lia.
      * rewrite Forall_forall in Hf. apply Hf. exact Hx.
    + apply N.ltb_ge in E. constructor; [exact H|].
      constructor; [exact E|]. rewrite Forall_forall in Hf |- *. intros x Hx.
      specialize (Hf x Hx). unfold le_obj in *. lia.
Qed.

Lemma sort_obj_asc l : asc (sort_obj l).
Proof. induction l as [| a l IH]; simpl; [constructor | apply ins_obj_asc, IH]. Qed.

Lemma filter_asc p l : asc l -> asc (filter p l).
Proof.
  unfold asc. induction l as [| a l IH]; simpl; intro H; [constructor|].
  inversion H as [| a' l' Hs Hf]; subst. destruct (p a); [|apply IH; exact Hs].
  constructor; [apply IH; exact Hs|]. rewrite Forall_forall in Hf |- *. intros x Hx.
  apply filter_In in Hx. apply Hf. tauto.
Qed.

Lemma ctx_ordered_perm ctx : Permutation (ctx_ordered ctx) (map obs ctx).
Proof. apply sort_obj_perm. Qed.

(* the contextual part of any read: a filter over the ordered contextual tuples is, as a multiset,
   the observation of the same filter over the request's tuples *)
Lemma ctx_part_perm (p q : rtuple -> bool) ctx :
  (forall t, p (obs t) = q t) ->
  Permutation (filter p (ctx_ordered ctx)) (map obs (filter q ctx)).
Proof.
  intro H. eapply Permutation_trans; [apply filter_perm, ctx_ordered_perm|].
  rewrite filter_map_comm. rewrite (filter_ext_in' (fun x => p (obs x)) q); [apply Permutation_refl|].
  intros x _. apply H.
Qed.

Lemma read_app s1 s2 f : read (s1 ++ s2) f = read s1 f ++ read s2 f.
Proof. unfold read. rewrite filter_app, map_app. reflexivity. Qed.
Lemma usersets_app s1 s2 f : read_userset_tuples (s1 ++ s2) f = read_userset_tuples s1 f ++ read_userset_tuples s2 f.
Proof. unfold read_userset_tuples. rewrite filter_app, map_app. reflexivity. Qed.
Lemma rswu_app s1 s2 f : rswu (s1 ++ s2) f = rswu s1 f ++ rswu s2 f.
Proof. unfold rswu. rewrite filter_app, map_app. reflexivity. Qed.

(* ---- Read --------------------------------------------------------------------------------- *)

Lemma null_true {A} (l : list A) : null l = true -> l = [].
Proof. destruct l; [reflexivity | discriminate]. Qed.

Theorem combined_read_eq stored ctx f :
  read_shape_ok f = true ->
  Permutation (combined_read stored ctx f) (read (stored ++ ctx) f).
Proof.
  intro Hs. unfold read_shape_ok in Hs. apply andb_prop in Hs. destruct Hs as [Hs Hc].
  apply andb_prop in Hs. destruct Hs as [Ho Hu].
  rewrite read_app. unfold combined_read, combined_read_over.
  eapply Permutation_trans; [|apply Permutation_app_comm]. apply Permutation_app_tail.
  unfold filter_tuples. apply ctx_part_perm. intro t.
  unfold read_pred, rel_ok, conds_ok, ctx_users_ok. rewrite obs_rel. rewrite Hc. simpl.
  destruct (rf_usr f); try discriminate. simpl.
  destruct (rf_obj f); try discriminate; simpl; rewrite ?obs_obj, ?andb_true_r; reflexivity.
Qed.

(* ---- ReadUsersetTuples -------------------------------------------------------------------- *)

Lemma ctx_restr_wf r t : restr_wf r = true -> ctx_restr_ok r t = restr_ok r t.
Proof.
  destruct r as [ty rel | ty | ty]; simpl; intro H.
  - unfold is_objrel. destruct (u_rel (rt_user t) =? rel) eqn:E.
    + apply N.eqb_eq in E. rewrite E. rewrite H. simpl. rewrite andb_true_r. reflexivity.
    + rewrite !andb_false_r. reflexivity.
  - apply andb_comm.
  - reflexivity.
Qed.

Lemma existsb_ext_in {A} (p q : A -> bool) l : (forall x, In x l -> p x = q x) -> existsb p l = existsb q l.
Proof.
  induction l as [| a l IH]; simpl; intro H; [reflexivity|].
  rewrite (H a (or_introl eq_refl)), IH; [reflexivity|]. intros x Hx. apply H. right. exact Hx.
Qed.

Theorem combined_usersets_eq stored ctx f :
  usersets_shape_ok f = true ->
  Permutation (combined_read_userset_tuples stored ctx f) (read_userset_tuples (stored ++ ctx) f).
Proof.
  intro Hs. unfold usersets_shape_ok in Hs.
  apply andb_prop in Hs. destruct Hs as [Hs Hc]. apply andb_prop in Hs. destruct Hs as [Hs Hw].
  apply andb_prop in Hs. destruct Hs as [Ho Hn].
  rewrite usersets_app. unfold combined_read_userset_tuples, combined_read_userset_tuples_over.
  eapply Permutation_trans; [|apply Permutation_app_comm]. apply Permutation_app_tail.
  unfold filter_tuples. rewrite filter_filter. apply ctx_part_perm. intro t.
  unfold usersets_pred, ctx_matches_restr, rel_ok, conds_ok, ctx_users_ok.
  rewrite obs_rel, obs_user, Hc. simpl. rewrite !andb_true_r.
  assert (Hn' : null (uf_restr f) = false) by (destruct (null (uf_restr f)); [discriminate | reflexivity]).
  rewrite Hn'. simpl.
  assert (He : existsb (fun r => ctx_restr_ok r (obs t)) (uf_restr f) = existsb (fun r => restr_ok r t) (uf_restr f)).
  { apply existsb_ext_in. intros r Hr. rewrite forallb_forall in Hw. rewrite ctx_restr_wf by (apply Hw; exact Hr).
    destruct r; simpl; rewrite ?obs_user; reflexivity. }
  rewrite He.
  assert (Hobj : ctx_obj_ok (uf_obj f) (obs t) = obj_ok (uf_obj f) t).
  { destruct (uf_obj f); try discriminate; simpl; rewrite ?obs_obj; reflexivity. }
  rewrite Hobj.
  destruct (is_userset_user (rt_user t)), (obj_ok (uf_obj f) t), (N.eqb (uf_rel f) 0 || N.eqb (rt_rel t) (uf_rel f)),
    (existsb (fun r => restr_ok r t) (uf_restr f)); reflexivity.
Qed.

(* ---- ReadStartingWithUser, unsorted -------------------------------------------------------- *)

Lemma ctx_rswu_part_perm ctx f :
  rswu_shape_ok f = true -> Permutation (ctx_rswu_part ctx f) (rswu ctx f).
Proof.
  intro Hs. unfold rswu_shape_ok in Hs.
  apply andb_prop in Hs. destruct Hs as [Hs Hc]. apply andb_prop in Hs. destruct Hs as [Hs Ho].
  apply andb_prop in Hs. destruct Hs as [Hr Hu].
  unfold ctx_rswu_part, filter_tuples, rswu. rewrite filter_filter. apply ctx_part_perm. intro t.
  unfold rswu_pred, rel_ok, conds_ok, ctx_users_ok, oids_ok. rewrite obs_rel, obs_user, obs_otype, Hc.
  destruct (sf_oids f); [discriminate|].
  assert (Hu' : null (sf_users f) = false) by (destruct (null (sf_users f)); [discriminate | reflexivity]).
  assert (Hr' : N.eqb (sf_rel f) 0 = false) by (destruct (N.eqb (sf_rel f) 0); [discriminate | reflexivity]).
  rewrite Hu', Hr'. simpl. rewrite !andb_true_r.
  destruct (rt_otype t =? sf_otype f), (rt_rel t =? sf_rel f), (existsb (user_eqb (rt_user t)) (sf_users f)); reflexivity.
Qed.

Theorem combined_rswu_eq stored ctx f :
  rswu_shape_ok f = true ->
  Permutation (combined_rswu stored ctx f false) (rswu (stored ++ ctx) f).
Proof.
  intro Hs. rewrite rswu_app. unfold combined_rswu, combined_rswu_over.
  eapply Permutation_trans; [|apply Permutation_app_comm]. apply Permutation_app_tail.
  apply ctx_rswu_part_perm. exact Hs.
Qed.

(* ---- ReadStartingWithUser, sorted: merge + de-duplication by object ------------------------ *)

Lemma merge_obj_perm l1 : forall l2, Permutation (merge_obj l1 l2) (l1 ++ l2).
Proof.
  induction l1 as [| a l1 IH1]; intro l2.
  - destruct l2; simpl; apply Permutation_refl.
  - induction l2 as [| b l2 IH2].
    + simpl. rewrite app_nil_r. apply Permutation_refl.
    + simpl. destruct (rt_obj b <? rt_obj a).
      * eapply Permutation_trans; [apply perm_skip; exact IH2|].
        change (Permutation (b :: (a :: l1) ++ l2) ((a :: l1) ++ b :: l2)). apply Permutation_middle.
      * apply perm_skip. apply IH1.
Qed.

Lemma merge_obj_in l1 l2 x : In x (merge_obj l1 l2) <-> In x l1 \/ In x l2.
Proof.
  split; intro H.
  - apply (Permutation_in _ (merge_obj_perm l1 l2)) in H. apply in_app_or. exact H.
  - apply (Permutation_in _ (Permutation_sym (merge_obj_perm l1 l2))). apply in_or_app. exact H.
Qed.

Lemma asc_inv a l : asc (a :: l) -> asc l /\ forall x, In x l -> rt_obj a <= rt_obj x.
Proof.
  unfold asc. intro H. inversion H as [| a' l' Hs Hf]; subst. split; [exact Hs|].
  rewrite Forall_forall in Hf. exact Hf.
Qed.

Lemma asc_cons a l : asc l -> (forall x, In x l -> rt_obj a <= rt_obj x) -> asc (a :: l).
Proof. unfold asc. intros Hs Hf. constructor; [exact Hs | apply Forall_forall; exact Hf]. Qed.

Lemma merge_obj_asc l1 : forall l2, asc l1 -> asc l2 -> asc (merge_obj l1 l2).
Proof.
  induction l1 as [| a l1 IH1]; intros l2 H1 H2.
  - destruct l2; simpl; exact H2.
  - induction l2 as [| b l2 IH2].
    + simpl. exact H1.
    + simpl. destruct (rt_obj b <? rt_obj a) eqn:E.
      * apply N.ltb_lt in E. destruct (asc_inv _ _ H2) as [H2' Hb]. destruct (asc_inv _ _ H1) as [H1' Ha].
        apply asc_cons; [apply IH2; exact H2'|].
        intros x Hx. change (In x (merge_obj (a :: l1) l2)) in Hx. apply merge_obj_in in Hx.
        destruct Hx as [[-> | Hx] | Hx]; [lia | specialize (Ha x Hx); lia | apply Hb; exact Hx].
      * apply N.ltb_ge in E. destruct (asc_inv _ _ H1) as [H1' Ha]. destruct (asc_inv _ _ H2) as [H2' Hb].
        apply asc_cons; [apply IH1; assumption|].
        intros x Hx. apply merge_obj_in in Hx.
        destruct Hx as [Hx | [-> | Hx]]; [apply Ha; exact Hx | exact E | specialize (Hb x Hx); lia].
Qed.

(* stability: among the tuples of one object, those of the first list come first *)
Lemma cands_nil_lt l o : (forall x, In x l -> o < rt_obj x) -> cands l o = [].
Proof.
  induction l as [| a l IH]; simpl; intro H; [reflexivity|].
  destruct (rt_obj a =? o) eqn:E.
  - apply N.eqb_eq in E. specialize (H a (or_introl eq_refl)). lia.
  - apply IH. intros x Hx. apply H. right. exact Hx.
Qed.

Lemma cands_cons a l o : cands (a :: l) o = if rt_obj a =? o then a :: cands l o else cands l o.
Proof. reflexivity. Qed.

Lemma merge_obj_cons a l1 b l2 :
  merge_obj (a :: l1) (b :: l2) =
  if rt_obj b <? rt_obj a then b :: merge_obj (a :: l1) l2 else a :: merge_obj l1 (b :: l2).
Proof. reflexivity. Qed.

Lemma merge_obj_cands l1 : forall l2 o, asc l1 ->
  cands (merge_obj l1 l2) o = cands l1 o ++ cands l2 o.
Proof.
  induction l1 as [| a l1 IH1]; intros l2 o H1.
  - destruct l2; reflexivity.
  - induction l2 as [| b l2 IH2].
    + simpl. rewrite app_nil_r. reflexivity.
    + rewrite merge_obj_cons. destruct (rt_obj b <? rt_obj a) eqn:E.
      * apply N.ltb_lt in E. rewrite cands_cons, IH2. rewrite (cands_cons b l2 o).
        destruct (rt_obj b =? o) eqn:Eo; [|reflexivity].
        apply N.eqb_eq in Eo. destruct (asc_inv _ _ H1) as [_ Ha].
        assert (Hn : cands (a :: l1) o = []).
        { apply cands_nil_lt. intros x [<- | Hx]; [lia | specialize (Ha x Hx); lia]. }
        rewrite Hn. reflexivity.
      * destruct (asc_inv _ _ H1) as [H1' _]. rewrite cands_cons, (IH1 _ _ H1'), (cands_cons a l1 o).
        destruct (rt_obj a =? o); reflexivity.
Qed.

Definition first_of (l : list rtuple) : list rtuple := match l with [] => [] | x :: _ => [x] end.
Definition last_is (last : option N) (o : N) : bool := match last with Some x => N.eqb x o | None => false end.
Definition last_le (last : option N) (l : list rtuple) : Prop :=
  match last with Some o => forall x, In x l -> o <= rt_obj x | None => True end.

Lemma dedup_from_cons last a l :
  dedup_from last (a :: l) = if last_is last (rt_obj a) then dedup_from last l else a :: dedup_from (Some (rt_obj a)) l.
Proof. reflexivity. Qed.

Lemma dedup_from_cands l : forall last o, asc l -> last_le last l ->
  cands (dedup_from last l) o = if last_is last o then [] else first_of (cands l o).
Proof.
  induction l as [| a l IH]; intros last o Ha Hl.
  - simpl. destruct (last_is last o); reflexivity.
  - destruct (asc_inv _ _ Ha) as [Ha' Hge]. rewrite dedup_from_cons.
    destruct (last_is last (rt_obj a)) eqn:El.
    + rewrite IH; [| exact Ha' | destruct last; simpl in *; [intros x Hx; apply Hl; right; exact Hx | exact I]].
      destruct (last_is last o) eqn:Eo; [reflexivity|].
      rewrite (cands_cons a l o).
      destruct (rt_obj a =? o) eqn:E; [|reflexivity].
      apply N.eqb_eq in E. rewrite E in El. congruence.
    + rewrite cands_cons. rewrite IH; [| exact Ha' | simpl; exact Hge].
      rewrite (cands_cons a l o). simpl last_is.
      destruct (rt_obj a =? o) eqn:E.
      * apply N.eqb_eq in E. rewrite <- E, El. reflexivity.
      * destruct (last_is last o) eqn:Eo; [|reflexivity].
        destruct last as [o0|]; [|discriminate]. simpl in Eo. apply N.eqb_eq in Eo. subst o0.
        assert (Hlt : o < rt_obj a).
        { simpl in Hl. specialize (Hl a (or_introl eq_refl)). apply N.eqb_neq in E. lia. }
        rewrite cands_nil_lt; [reflexivity|]. intros x Hx. specialize (Hge x Hx). lia.
Qed.

Lemma dedup_from_incl l : forall last x, In x (dedup_from last l) -> In x l.
Proof.
  induction l as [| a l IH]; intros last x H; simpl in *; [exact H|].
  destruct (match last with Some o => o =? rt_obj a | None => false end).
  - right. eapply IH. exact H.
  - destruct H as [-> | H]; [left; reflexivity | right; eapply IH; exact H].
Qed.

Lemma dedup_from_covers l : forall last x, In x l ->
  In (rt_obj x) (map rt_obj (dedup_from last l)) \/ last = Some (rt_obj x).
Proof.
  induction l as [| a l IH]; intros last x H; [destruct H|].
  simpl. destruct (match last with Some o => o =? rt_obj a | None => false end) eqn:El.
  - destruct H as [<- | H].
    + right. destruct last as [o|]; [|discriminate]. apply N.eqb_eq in El. congruence.
    + apply IH. exact H.
  - destruct H as [<- | H]; [left; left; reflexivity|].
    destruct (IH (Some (rt_obj a)) x H) as [Hin | He].
    + left. right. exact Hin.
    + left. left. congruence.
Qed.

Lemma strictly_asc_cons a l :
  strictly_asc (a :: l) = true <-> (match l with [] => True | b :: _ => a < b end) /\ strictly_asc l = true.
Proof.
  destruct l as [| b l]; simpl; [tauto|].
  rewrite andb_true_iff, N.ltb_lt. tauto.
Qed.

Lemma dedup_from_strict l : forall last, asc l -> last_le last l ->
  strictly_asc (map rt_obj (dedup_from last l)) = true /\
  (forall o, last = Some o -> forall x, In x (dedup_from last l) -> o < rt_obj x).
Proof.
  induction l as [| a l IH]; intros last Ha Hl.
  - simpl. split; [reflexivity | intros o _ x []].
  - destruct (asc_inv _ _ Ha) as [Ha' Hge]. simpl dedup_from.
    destruct (match last with Some o => o =? rt_obj a | None => false end) eqn:El.
    + assert (Hl' : last_le last l).
      { destruct last; simpl in *; [intros x Hx; apply Hl; right; exact Hx | exact I]. }
      apply IH; assumption.
    + destruct (IH (Some (rt_obj a)) Ha' Hge) as [Hs Hgt]. split.
      * change (strictly_asc (rt_obj a :: map rt_obj (dedup_from (Some (rt_obj a)) l)) = true).
        apply strictly_asc_cons. split; [|exact Hs].
        destruct (dedup_from (Some (rt_obj a)) l) as [| b r] eqn:Ed; simpl; [exact I|].
        apply (Hgt (rt_obj a) eq_refl b). left. reflexivity.
      * intros o -> x [<- | Hx].
        -- simpl in Hl. specialize (Hl a (or_introl eq_refl)). apply N.eqb_neq in El. lia.
        -- specialize (Hgt (rt_obj a) eq_refl x Hx). simpl in Hl. specialize (Hl a (or_introl eq_refl)). lia.
Qed.

Lemma objs_unique_notin a l : objs_unique (a :: l) = true ->
  objs_unique l = true /\ forall x, In x l -> rt_obj x <> rt_obj a.
Proof.
  simpl. rewrite andb_true_iff, negb_true_iff. intros [Hn Hu]. split; [exact Hu|].
  intros x Hx E. assert (Ht : existsb (fun t' => rt_obj t' =? rt_obj a) l = true).
  { apply existsb_exists. exists x. split; [exact Hx | apply N.eqb_eq; exact E]. }
  congruence.
Qed.

Lemma dedup_from_id l : forall last, objs_unique l = true ->
  (forall o, last = Some o -> forall x, In x l -> rt_obj x <> o) -> dedup_from last l = l.
Proof.
  induction l as [| a l IH]; intros last Hu Hl; [reflexivity|].
  destruct (objs_unique_notin _ _ Hu) as [Hu' Hn]. simpl.
  assert (El : match last with Some o => o =? rt_obj a | None => false end = false).
  { destruct last as [o|]; [|reflexivity]. apply N.eqb_neq. intro E.
    apply (Hl o eq_refl a (or_introl eq_refl)). congruence. }
  rewrite El. f_equal. apply IH; [exact Hu'|]. intros o E x Hx. inversion E; subst. apply Hn. exact Hx.
Qed.

Lemma objs_unique_perm l l' : Permutation l l' -> objs_unique l = true -> objs_unique l' = true.
Proof.
  intro H. induction H as [| x l1 l2 H IH | x y l1 | l1 l2 l3 H1 IH1 H2 IH2]; intro Hu.
  - reflexivity.
  - destruct (objs_unique_notin _ _ Hu) as [Hu' Hn]. simpl. rewrite IH by exact Hu'. rewrite andb_true_r.
    apply negb_true_iff. destruct (existsb (fun t' => rt_obj t' =? rt_obj x) l2) eqn:E; [|reflexivity].
    apply existsb_exists in E. destruct E as [z [Hz Ez]]. apply N.eqb_eq in Ez.
    exfalso. apply (Hn z); [apply (Permutation_in _ (Permutation_sym H)); exact Hz | exact Ez].
  - destruct (objs_unique_notin _ _ Hu) as [Hu' Hn]. destruct (objs_unique_notin _ _ Hu') as [Hu'' Hn'].
    simpl. rewrite Hu'', andb_true_r.
    assert (E1 : (rt_obj y =? rt_obj x) = false).
    { apply N.eqb_neq. intro E. apply (Hn x); [left; reflexivity | congruence]. }
    assert (E2 : existsb (fun t' => rt_obj t' =? rt_obj x) l1 = false).
    { destruct (existsb (fun t' => rt_obj t' =? rt_obj x) l1) eqn:E; [|reflexivity].
      apply existsb_exists in E. destruct E as [z [Hz Ez]]. apply N.eqb_eq in Ez.
      exfalso. apply (Hn' z Hz). exact Ez. }
    assert (E3 : existsb (fun t' => rt_obj t' =? rt_obj y) l1 = false).
    { destruct (existsb (fun t' => rt_obj t' =? rt_obj y) l1) eqn:E; [|reflexivity].
      apply existsb_exists in E. destruct E as [z [Hz Ez]]. apply N.eqb_eq in Ez.
      exfalso. apply (Hn z); [right; exact Hz | exact Ez]. }
    rewrite E1, E2, E3. reflexivity.
  - auto.
Qed.

(* what the sorted combined read guarantees, for every filter *)
Theorem combined_rswu_sorted_ok stored ctx f :
  sorted_result_ok stored ctx f (combined_rswu stored ctx f true) = true.
Proof.
  unfold sorted_result_ok, sorted_result_ok_over, combined_rswu, combined_rswu_over.
  set (c := ctx_rswu_part ctx f). set (s := rswu stored f).
  assert (Hc : asc c).
  { unfold c, ctx_rswu_part, filter_tuples. apply filter_asc, filter_asc. unfold ctx_ordered. apply sort_obj_asc. }
  assert (Hs : asc (rswu_sorted stored f)) by (unfold rswu_sorted; apply sort_obj_asc).
  assert (Hm : asc (merge_obj c (rswu_sorted stored f))) by (apply merge_obj_asc; assumption).
  set (out := dedup_from None (merge_obj c (rswu_sorted stored f))).
  assert (Hcands : forall o, cands out o = first_of (cands c o ++ cands (rswu_sorted stored f) o)).
  { intro o. unfold out. rewrite dedup_from_cands by (try exact Hm; exact I). simpl.
    rewrite merge_obj_cands by exact Hc. reflexivity. }
  rewrite !andb_true_iff. split; [split|].
  - apply (dedup_from_strict _ None Hm I).
  - apply forallb_forall. intros t Ht.
    assert (Hin : In t (cands out (rt_obj t))).
    { unfold cands. apply filter_In. split; [exact Ht | apply N.eqb_refl]. }
    rewrite Hcands in Hin.
    destruct (cands c (rt_obj t)) as [| x cc] eqn:Ec.
    + simpl in Hin. destruct (cands (rswu_sorted stored f) (rt_obj t)) as [| y r] eqn:Es; [destruct Hin|].
      simpl in Hin. destruct Hin as [<- | []].
      assert (Hy : In y (cands (rswu_sorted stored f) (rt_obj y))) by (rewrite Es; left; reflexivity).
      unfold cands in Hy. apply filter_In in Hy. destruct Hy as [Hy _].
      unfold rswu_sorted in Hy. apply (Permutation_in _ (sort_obj_perm _)) in Hy.
      unfold tmem. apply existsb_exists. exists y. split.
      * unfold cands. apply filter_In. split; [exact Hy | apply N.eqb_refl].
      * unfold tuple_eqb, user_eqb. rewrite !N.eqb_refl. reflexivity.
    + simpl in Hin. destruct Hin as [<- | []].
      unfold tmem. apply existsb_exists. exists x. split; [left; reflexivity|].
      unfold tuple_eqb, user_eqb. rewrite !N.eqb_refl. reflexivity.
  - apply forallb_forall. intros t Ht. unfold nmem. apply existsb_exists. exists (rt_obj t). split; [|apply N.eqb_refl].
    assert (Hm' : In t (merge_obj c (rswu_sorted stored f))).
    { apply merge_obj_in. apply in_app_or in Ht. destruct Ht as [Ht | Ht]; [left; exact Ht | right].
      unfold rswu_sorted. apply (Permutation_in _ (Permutation_sym (sort_obj_perm _))). exact Ht. }
    destruct (dedup_from_covers _ None t Hm') as [H | H]; [exact H | discriminate].
Qed.

(* with one rtuple per object the sorted combined read is the sorted read of the union *)
Theorem combined_rswu_sorted_eq_partial stored ctx f :
  rswu_shape_ok f = true ->
  objs_unique (rswu (stored ++ ctx) f) = true ->
  Permutation (combined_rswu stored ctx f true) (rswu (stored ++ ctx) f).
Proof.
  intros Hs Hu. unfold combined_rswu, combined_rswu_over.
  assert (Hp : Permutation (merge_obj (ctx_rswu_part ctx f) (rswu_sorted stored f)) (rswu (stored ++ ctx) f)).
  { eapply Permutation_trans; [apply merge_obj_perm|]. rewrite rswu_app.
    eapply Permutation_trans; [apply Permutation_app_comm|]. apply Permutation_app.
    - unfold rswu_sorted. apply sort_obj_perm.
    - apply ctx_rswu_part_perm. exact Hs. }
  rewrite dedup_from_id; [exact Hp | | intros o E; discriminate].
  apply (objs_unique_perm _ _ (Permutation_sym Hp)). exact Hu.
Qed.

(* objects of a sorted combined read: exactly the objects of the read of the union, ascending, once *)
Theorem combined_rswu_sorted_objects stored ctx f :
  rswu_shape_ok f = true ->
  let out := combined_rswu stored ctx f true in
  strictly_asc (map rt_obj out) = true /\
  (forall t, In t out -> In t (rswu (stored ++ ctx) f)) /\
  (forall t, In t (rswu (stored ++ ctx) f) -> In (rt_obj t) (map rt_obj out)).
Proof.
  intros Hs out.
  assert (Hp : Permutation (merge_obj (ctx_rswu_part ctx f) (rswu_sorted stored f)) (rswu (stored ++ ctx) f)).
  { eapply Permutation_trans; [apply merge_obj_perm|]. rewrite rswu_app.
    eapply Permutation_trans; [apply Permutation_app_comm|]. apply Permutation_app.
    - unfold rswu_sorted. apply sort_obj_perm.
    - apply ctx_rswu_part_perm. exact Hs. }
  assert (Hm : asc (merge_obj (ctx_rswu_part ctx f) (rswu_sorted stored f))).
  { apply merge_obj_asc; [|unfold rswu_sorted; apply sort_obj_asc].
    unfold ctx_rswu_part, filter_tuples. apply filter_asc, filter_asc. unfold ctx_ordered. apply sort_obj_asc. }
  split; [|split].
  - apply (dedup_from_strict _ None Hm I).
  - intros t Ht. apply (Permutation_in _ Hp). eapply dedup_from_incl. exact Ht.
  - intros t Ht. apply (Permutation_in _ (Permutation_sym Hp)) in Ht.
    destruct (dedup_from_covers _ None t Ht) as [H | H]; [exact H | discriminate].
Qed.

(* ---- ReadUserTuple ------------------------------------------------------------------------ *)

Lemma key_eqb_refl k : key_eqb k k = true.
Proof. unfold key_eqb, user_eqb. rewrite !N.eqb_refl. reflexivity. Qed.
Lemma key_eqb_sym a b : key_eqb a b = key_eqb b a.
Proof. unfold key_eqb, user_eqb. rewrite (N.eqb_sym (k_obj a)), (N.eqb_sym (k_rel a)), (N.eqb_sym (u_str (k_user a))). reflexivity. Qed.
Lemma key_eqb_trans a b c : key_eqb a b = true -> key_eqb b c = true -> key_eqb a c = true.
Proof.
  unfold key_eqb, user_eqb. rewrite !andb_true_iff, !N.eqb_eq. intros [[H1 H2] H3] [[H4 H5] H6].
  repeat split; congruence.
Qed.

Lemma keys_unique_in l : keys_unique l = true ->
  forall a b, In a l -> In b l -> key_eqb (key_of a) (key_of b) = true -> a = b.
Proof.
  induction l as [| x l IH]; intros Hu a b Ha Hb E; [destruct Ha|].
  simpl in Hu. apply andb_prop in Hu. destruct Hu as [Hn Hu]. apply negb_true_iff in Hn.
  assert (Hno : forall z, In z l -> key_eqb (key_of z) (key_of x) = false).
  { intros z Hz. destruct (key_eqb (key_of z) (key_of x)) eqn:Ez; [|reflexivity].
    assert (Ht : existsb (fun t' => key_eqb (key_of t') (key_of x)) l = true)
      by (apply existsb_exists; exists z; split; assumption). congruence. }
  destruct Ha as [<- | Ha], Hb as [<- | Hb].
  - reflexivity.
  - rewrite key_eqb_sym in E. rewrite (Hno b Hb) in E. discriminate.
  - rewrite (Hno a Ha) in E. discriminate.
  - apply IH; assumption.
Qed.

Lemma keys_unique_app l1 l2 : keys_unique (l1 ++ l2) = true ->
  keys_unique l1 = true /\ keys_unique l2 = true /\
  forall a b, In a l1 -> In b l2 -> key_eqb (key_of a) (key_of b) = false.
Proof.
  induction l1 as [| x l1 IH]; simpl; intro H.
  - split; [reflexivity|]. split; [exact H|]. intros a b [].
  - apply andb_prop in H. destruct H as [Hn Hu]. apply negb_true_iff in Hn.
    destruct (IH Hu) as [H1 [H2 H3]]. rewrite existsb_app in Hn. apply orb_false_iff in Hn. destruct Hn as [Hn1 Hn2].
    split; [rewrite Hn1, H1; reflexivity|]. split; [exact H2|].
    intros a b [-> | Ha] Hb; [|apply H3; assumption].
    destruct (key_eqb (key_of a) (key_of b)) eqn:E; [|reflexivity].
    assert (Ht : existsb (fun t' => key_eqb (key_of t') (key_of a)) l2 = true).
    { apply existsb_exists. exists b. split; [exact Hb | rewrite key_eqb_sym; exact E]. }
    congruence.
Qed.

Lemma find_none_iff {A} (p : A -> bool) l : find p l = None <-> forall x, In x l -> p x = false.
Proof.
  split.
  - apply find_none.
  - induction l as [| a l IH]; simpl; intro H; [reflexivity|].
    rewrite (H a (or_introl eq_refl)). apply IH. intros x Hx. apply H. right. exact Hx.
Qed.

Lemma find_app {A} (p : A -> bool) l1 l2 :
  find p (l1 ++ l2) = match find p l1 with Some x => Some x | None => find p l2 end.
Proof. induction l1 as [| a l1 IH]; simpl; [reflexivity|]. destruct (p a); [reflexivity | exact IH]. Qed.

(* the contextual candidates of a ReadUserTuple, when a relation is named: the tuples with the key *)
Lemma rut_ctx_filter ctx k : N.eqb (k_rel k) 0 = false ->
  filter (fun t => user_eqb (rt_user t) (k_user k))
         (filter_tuples (ctx_ordered ctx) (OFull (k_obj k)) (k_rel k) [k_user k]) =
  filter (fun t => key_eqb (key_of t) k) (ctx_ordered ctx).
Proof.
  intro Hr. unfold filter_tuples. rewrite filter_filter. apply filter_ext_in'. intros t _.
  unfold key_eqb, key_of, rel_ok, ctx_users_ok, ctx_obj_ok. simpl. rewrite Hr. simpl.
  rewrite orb_false_r. destruct (rt_obj t =? k_obj k), (rt_rel t =? k_rel k), (user_eqb (rt_user t) (k_user k)); reflexivity.
Qed.

Theorem combined_rut_eq stored ctx k cs :
  keys_unique (stored ++ ctx) = true ->
  rut_shape_ok k cs = true ->
  combined_read_user_tuple stored ctx k cs = read_user_tuple (stored ++ ctx) k cs.
Proof.
  intros Hu Hs. unfold rut_shape_ok in Hs. apply andb_prop in Hs. destruct Hs as [Hr Hc].
  apply negb_true_iff in Hr. apply null_true in Hc. subst cs.
  destruct (keys_unique_app _ _ Hu) as [Hu1 [Hu2 Hd]].
  unfold combined_read_user_tuple, combined_read_user_tuple_over. rewrite rut_ctx_filter by exact Hr.
  unfold read_user_tuple. rewrite find_app.
  assert (Hpred : forall t, rut_pred k [] t = key_eqb (key_of t) k).
  { intro t. unfold rut_pred, conds_ok. simpl. apply andb_true_r. }
  destruct (filter (fun t => key_eqb (key_of t) k) (ctx_ordered ctx)) as [| t r] eqn:Ef.
  - (* no contextual rtuple has the key *)
    assert (Hn : find (rut_pred k []) ctx = None).
    { apply find_none_iff. intros x Hx. rewrite Hpred.
      destruct (key_eqb (key_of x) k) eqn:E; [|reflexivity].
      assert (Hin : In (obs x) (filter (fun t => key_eqb (key_of t) k) (ctx_ordered ctx))).
      { apply filter_In. split; [|rewrite obs_key; exact E].
        apply (Permutation_in _ (Permutation_sym (ctx_ordered_perm ctx))). apply in_map. exact Hx. }
      rewrite Ef in Hin. destruct Hin. }
    rewrite Hn. destruct (find (rut_pred k []) stored); reflexivity.
  - (* t is the observation of a contextual rtuple with the key: it is the only rtuple with the key *)
    assert (Hin : In t (filter (fun t => key_eqb (key_of t) k) (ctx_ordered ctx))) by (rewrite Ef; left; reflexivity).
    apply filter_In in Hin. destruct Hin as [Hin Hk].
    apply (Permutation_in _ (ctx_ordered_perm ctx)) in Hin. apply in_map_iff in Hin. destruct Hin as [c [<- Hc]].
    rewrite obs_key in Hk.
    assert (Hs : find (rut_pred k []) stored = None).
    { apply find_none_iff. intros x Hx. rewrite Hpred.
      destruct (key_eqb (key_of x) k) eqn:E; [|reflexivity].
      assert (Hxc : key_eqb (key_of x) (key_of c) = true).
      { eapply key_eqb_trans; [exact E|]. rewrite key_eqb_sym. exact Hk. }
      rewrite (Hd x c Hx Hc) in Hxc. discriminate. }
    rewrite Hs.
    destruct (find (rut_pred k []) ctx) as [c'|] eqn:Efc.
    + apply find_some in Efc. destruct Efc as [Hc' Hk']. rewrite Hpred in Hk'.
      assert (c' = c).
      { apply (keys_unique_in _ Hu2); try assumption.
        eapply key_eqb_trans; [exact Hk'|]. rewrite key_eqb_sym. exact Hk. }
      subst c'. reflexivity.
    + exfalso. rewrite find_none_iff in Efc. specialize (Efc c Hc). rewrite Hpred in Efc. congruence.
Qed.

(* a contextual rtuple with the requested key always wins: whatever is stored, whatever Conditions *)
Theorem combined_user_tuple_ctx_wins stored ctx k cs :
  N.eqb (k_rel k) 0 = false ->
  (exists c, In c ctx /\ key_eqb (key_of c) k = true) ->
  exists c', In c' ctx /\ key_eqb (key_of c') k = true /\
             combined_read_user_tuple stored ctx k cs = Some (obs c').
Proof.
  intros Hr [c [Hc Hk]]. unfold combined_read_user_tuple, combined_read_user_tuple_over. rewrite rut_ctx_filter by exact Hr.
  destruct (filter (fun t => key_eqb (key_of t) k) (ctx_ordered ctx)) as [| t r] eqn:Ef.
  - exfalso. assert (Hin : In (obs c) (filter (fun t => key_eqb (key_of t) k) (ctx_ordered ctx))).
    { apply filter_In. split; [|rewrite obs_key; exact Hk].
      apply (Permutation_in _ (Permutation_sym (ctx_ordered_perm ctx))). apply in_map. exact Hc. }
    rewrite Ef in Hin. destruct Hin.
  - assert (Hin : In t (filter (fun t => key_eqb (key_of t) k) (ctx_ordered ctx))) by (rewrite Ef; left; reflexivity).
    apply filter_In in Hin. destruct Hin as [Hin Hk'].
    apply (Permutation_in _ (ctx_ordered_perm ctx)) in Hin. apply in_map_iff in Hin. destruct Hin as [c' [<- Hc']].
    rewrite obs_key in Hk'. exists c'. repeat split; assumption.
Qed.

(* keys_unique (stored ++ ctx) is: unique in each part and disjoint *)
Lemma keys_unique_split stored ctx :
  keys_unique stored = true -> keys_unique ctx = true -> disjoint_keys stored ctx = true ->
  keys_unique (stored ++ ctx) = true.
Proof.
  intros H1 H2 Hd. induction stored as [| x s IH]; simpl; [exact H2|].
  simpl in H1. apply andb_prop in H1. destruct H1 as [Hn Hu]. apply negb_true_iff in Hn.
  assert (Hd' : disjoint_keys s ctx = true).
  { unfold disjoint_keys in *. apply forallb_forall. intros c Hc. rewrite forallb_forall in Hd.
    specialize (Hd c Hc). simpl in Hd. apply negb_true_iff in Hd. apply orb_false_iff in Hd.
    apply negb_true_iff. tauto. }
  rewrite (IH Hu Hd'), andb_true_r. apply negb_true_iff. rewrite existsb_app, Hn. simpl.
  destruct (existsb (fun t' => key_eqb (key_of t') (key_of x)) ctx) eqn:E; [|reflexivity].
  apply existsb_exists in E. destruct E as [c [Hc Ek]]. unfold disjoint_keys in Hd. rewrite forallb_forall in Hd.
  specialize (Hd c Hc). simpl in Hd. apply negb_true_iff in Hd. apply orb_false_iff in Hd. destruct Hd as [Hd _].
  rewrite key_eqb_sym in Hd. congruence.
Qed.

Corollary combined_rut_eq_disjoint stored ctx k cs :
  keys_unique stored = true -> keys_unique ctx = true -> disjoint_keys stored ctx = true ->
  rut_shape_ok k cs = true ->
  combined_read_user_tuple stored ctx k cs = read_user_tuple (stored ++ ctx) k cs.
Proof. intros H1 H2 H3 H4. apply combined_rut_eq; [apply keys_unique_split; assumption | exact H4]. Qed.

(* ReadUserTuple of a store with unique keys does not depend on the order of the store *)
Lemma rut_perm s s' k cs : keys_unique s = true -> Permutation s s' ->
  read_user_tuple s k cs = read_user_tuple s' k cs.
Proof.
  intros Hu Hp. unfold read_user_tuple. f_equal.
  destruct (find (rut_pred k cs) s) as [a|] eqn:E1, (find (rut_pred k cs) s') as [b|] eqn:E2.
  - apply find_some in E1, E2. destruct E1 as [Ha Pa], E2 as [Hb Pb].
    f_equal. apply (keys_unique_in _ Hu); [exact Ha | apply (Permutation_in _ (Permutation_sym Hp)); exact Hb|].
    unfold rut_pred in Pa, Pb. apply andb_prop in Pa, Pb. destruct Pa as [Pa _], Pb as [Pb _].
    rewrite key_eqb_sym in Pb. eapply key_eqb_trans; eassumption.
  - apply find_some in E1. destruct E1 as [Ha Pa]. rewrite find_none_iff in E2.
    rewrite (E2 a (Permutation_in _ Hp Ha)) in Pa. discriminate.
  - apply find_some in E2. destruct E2 as [Hb Pb]. rewrite find_none_iff in E1.
    rewrite (E1 b (Permutation_in _ (Permutation_sym Hp) Hb)) in Pb. discriminate.
  - reflexivity.
Qed.

(* ---- nothing persists ---------------------------------------------------------------------- *)

Theorem ctx_never_persists s h :
  fst (run_ops s h) = s /\
  snd (run_ops s h) = map (fun co : list rtuple * op => snd (combined_op s (fst co) (snd co))) h.
Proof.
  induction h as [| [ctx o] h IH]; simpl; [split; reflexivity|].
  destruct (run_ops s h) as [s2 rs] eqn:E. simpl in IH. destruct IH as [IH1 IH2]. subst s2 rs.
  split; reflexivity.
Qed.

Lemma merge_obj_nil_l l : merge_obj [] l = l.
Proof. destruct l; reflexivity. Qed.

(* a request without contextual tuples reads the plain store (after any history, by ctx_never_persists);
   the sorted ReadStartingWithUser additionally keeps one rtuple per object *)
Theorem combined_nil_is_plain s o :
  snd (combined_op s [] o) =
  match o with
  | OpRSWU f true => RList (dedup_from None (rswu_sorted s f))
  | _ => plain_op s o
  end.
Proof.
  destruct o as [f | f | k cs | f | f sorted]; simpl; try reflexivity.
  destruct sorted; unfold combined_rswu, combined_rswu_over, ctx_rswu_part, filter_tuples, ctx_ordered; simpl; [|reflexivity].
  rewrite merge_obj_nil_l. reflexivity.
Qed.

(* ---- refuted shapes: the filter parts that are not applied to contextual tuples ------------- *)

Definition ua : user := mkUser 1 1 false 0.        (* user:a *)
Definition ub : user := mkUser 2 1 false 0.        (* user:b *)
Definition uw : user := mkUser 3 1 true 0.         (* user:* *)
Definition ug : user := mkUser 4 2 false 7.        (* group:1#member *)
Definition tA : rtuple := mkRT 10 5 3 ua 0 0.    (* doc:1#viewer@user:a *)
Definition tB : rtuple := mkRT 10 5 3 ub 9 1.    (* doc:1#viewer@user:b with c (ctx 1) *)
Definition tW : rtuple := mkRT 10 5 3 uw 0 0.    (* doc:1#viewer@user:* *)
Definition tAc : rtuple := mkRT 10 5 3 ua 9 2.   (* doc:1#viewer@user:a with c (ctx 2) *)
Definition tG : rtuple := mkRT 10 5 3 ug 0 0.    (* doc:1#viewer@group:1#member *)

Definition multiset_eq (a b : list rtuple) : Prop := Permutation a b.

Lemma perm_length_neq {A} (a b : list A) : length a <> length b -> ~ Permutation a b.
Proof. intros H P. apply H. apply Permutation_length. exact P. Qed.

(* Read with a user filter: a contextual rtuple of another user is returned *)
Theorem combined_read_refuted_user_filter :
  exists stored ctx f, rf_conds f = [] /\ ofilter_exact (rf_obj f) = true /\
    ~ Permutation (combined_read stored ctx f) (read (stored ++ ctx) f).
Proof.
  exists [], [tB], (mkRF (OFull 10) 3 (UExact ua) []). repeat split.
  apply perm_length_neq. vm_compute. discriminate.
Qed.

(* Read with Conditions: a contextual rtuple with another condition is returned *)
Theorem combined_read_refuted_conditions :
  exists stored ctx f, rf_usr f = UAny /\ ofilter_exact (rf_obj f) = true /\
    ~ Permutation (combined_read stored ctx f) (read (stored ++ ctx) f).
Proof.
  exists [], [tB], (mkRF (OFull 10) 3 UAny [0]). repeat split.
  apply perm_length_neq. vm_compute. discriminate.
Qed.

(* Read with an object-type prefix ("doc:"): contextual tuples are not returned *)
Theorem combined_read_refuted_type_prefix :
  exists stored ctx f, rf_usr f = UAny /\ rf_conds f = [] /\
    ~ Permutation (combined_read stored ctx f) (read (stored ++ ctx) f).
Proof.
  exists [], [tA], (mkRF (OType 5) 3 UAny []). repeat split.
  apply perm_length_neq. vm_compute. discriminate.
Qed.

(* ReadPage never sees contextual tuples *)
Theorem combined_read_page_refuted :
  exists stored ctx f, read_shape_ok f = true /\
    ~ Permutation (combined_read_page stored ctx f) (read_page (stored ++ ctx) f).
Proof.
  exists [], [tA], (mkRF (OFull 10) 3 UAny []). split; [reflexivity|].
  apply perm_length_neq. vm_compute. discriminate.
Qed.

(* ReadUserTuple with Conditions: the contextual rtuple is returned although its condition is excluded *)
Theorem combined_rut_refuted_conditions :
  exists stored ctx k cs, keys_unique (stored ++ ctx) = true /\ N.eqb (k_rel k) 0 = false /\
    combined_read_user_tuple stored ctx k cs <> read_user_tuple (stored ++ ctx) k cs.
Proof.
  exists [], [tB], (mkKey 10 3 ub), [0]. repeat split. vm_compute. discriminate.
Qed.

(* ReadUserTuple when a contextual rtuple has the key of a stored one: the stored rtuple is shadowed
   (here: the stored, unconditioned rtuple by a conditioned contextual one) *)
Theorem combined_rut_refuted_overlap :
  exists stored ctx k, rut_shape_ok k [] = true /\ keys_unique stored = true /\ keys_unique ctx = true /\
    combined_read_user_tuple stored ctx k [] <> read_user_tuple (stored ++ ctx) k [].
Proof.
  exists [tA], [tAc], (mkKey 10 3 ua). repeat split. vm_compute. discriminate.
Qed.

(* ReadUsersetTuples without restrictions ("1.0 model" path of the datastores): no contextual rtuple *)
Theorem combined_usersets_refuted_no_restrictions :
  exists stored ctx f, uf_conds f = [] /\ ofilter_exact (uf_obj f) = true /\
    ~ Permutation (combined_read_userset_tuples stored ctx f) (read_userset_tuples (stored ++ ctx) f).
Proof.
  exists [], [tG], (mkUF (OFull 10) 3 [] []). repeat split.
  apply perm_length_neq. vm_compute. discriminate.
Qed.

Theorem combined_usersets_refuted_conditions :
  exists stored ctx f, negb (null (uf_restr f)) = true /\ forallb restr_wf (uf_restr f) = true /\
    ~ Permutation (combined_read_userset_tuples stored ctx f) (read_userset_tuples (stored ++ ctx) f).
Proof.
  exists [], [tW], (mkUF (OFull 10) 3 [UWild 1] [9]). repeat split.
  apply perm_length_neq. vm_compute. discriminate.
Qed.

(* a relation urestr with an empty relation matches a stored typed wildcard, not a contextual one *)
Theorem combined_usersets_refuted_empty_relation :
  exists stored ctx f, negb (null (uf_restr f)) = true /\ uf_conds f = [] /\
    ~ Permutation (combined_read_userset_tuples stored ctx f) (read_userset_tuples (stored ++ ctx) f).
Proof.
  exists [], [tW], (mkUF (OFull 10) 3 [URel 1 0] []). repeat split.
  apply perm_length_neq. vm_compute. discriminate.
Qed.

(* ReadStartingWithUser: ObjectIDs, Conditions and an empty user filter *)
Theorem combined_rswu_refuted_object_ids :
  exists stored ctx f, sf_conds f = [] /\ negb (null (sf_users f)) = true /\
    ~ Permutation (combined_rswu stored ctx f false) (rswu (stored ++ ctx) f).
Proof.
  exists [], [tA], (mkSF 5 3 [ua] (Some [11]) []). repeat split.
  apply perm_length_neq. vm_compute. discriminate.
Qed.

Theorem combined_rswu_refuted_conditions :
  exists stored ctx f, sf_oids f = None /\ negb (null (sf_users f)) = true /\
    ~ Permutation (combined_rswu stored ctx f false) (rswu (stored ++ ctx) f).
Proof.
  exists [], [tAc], (mkSF 5 3 [ua] None [0]). repeat split.
  apply perm_length_neq. vm_compute. discriminate.
Qed.

Theorem combined_rswu_refuted_no_users :
  exists stored ctx f, sf_oids f = None /\ sf_conds f = [] /\
    ~ Permutation (combined_rswu stored ctx f false) (rswu (stored ++ ctx) f).
Proof.
  exists [], [tA], (mkSF 5 3 [] None []). repeat split.
  apply perm_length_neq. vm_compute. discriminate.
Qed.

(* sorted: two tuples of one object (user:a and user:* ) — only one survives the merge ... *)
Theorem combined_rswu_sorted_refuted :
  exists stored ctx f, rswu_shape_ok f = true /\ keys_unique (stored ++ ctx) = true /\
    ~ Permutation (combined_rswu stored ctx f true) (rswu (stored ++ ctx) f).
Proof.
  exists [tAc], [tW], (mkSF 5 3 [ua; uw] None []). repeat split.
  apply perm_length_neq. vm_compute. discriminate.
Qed.

(* ... and WHICH one survives depends on which of the two is contextual: the same two tuples, split
   the other way round, give a different result (a different condition on the surviving rtuple) *)
Theorem combined_rswu_sorted_split_dependent_refuted :
  exists a b f, rswu_shape_ok f = true /\ keys_unique [a; b] = true /\
    combined_rswu [a] [b] f true <> combined_rswu [b] [a] f true.
Proof.
  exists tAc, tW, (mkSF 5 3 [ua; uw] None []). repeat split. vm_compute. discriminate.
Qed.

(* ---- the weighted-graph engine's indexes --------------------------------------------------- *)

Section InsertSorted.
  Variable kf : rtuple -> N.

  Fixpoint strict_by (l : list rtuple) : Prop :=
    match l with
    | [] => True
    | a :: l' => (forall x, In x l' -> kf a < kf x) /\ strict_by l'
    end.

  Lemma insert_sorted_in l t x : In x (insert_sorted kf l t) -> x = t \/ In x l.
  Proof.
    induction l as [| b l IH]; simpl; intro H.
    - destruct H as [<- | []]. left. reflexivity.
    - destruct (kf b <? kf t).
      + destruct H as [<- | H]; [right; left; reflexivity|]. destruct (IH H); [left | right; right]; assumption.
      + destruct (kf b =? kf t); [right; exact H|]. destruct H as [<- | H]; [left; reflexivity | right; exact H].
  Qed.

  Lemma insert_sorted_keeps l t x : In x l -> In x (insert_sorted kf l t).
  Proof.
    induction l as [| b l IH]; simpl; intro H; [destruct H|].
    destruct (kf b <? kf t).
    - destruct H as [<- | H]; [left; reflexivity | right; apply IH; exact H].
    - destruct (kf b =? kf t); [exact H | right; exact H].
  Qed.

  Lemma insert_sorted_has l t : strict_by l -> exists x, In x (insert_sorted kf l t) /\ kf x = kf t /\
    ((forall y, In y l -> kf y <> kf t) -> x = t).
  Proof.
    induction l as [| b l IH]; simpl; intro Hs.
    - exists t. repeat split. left. reflexivity.
    - destruct Hs as [Hb Hs]. destruct (kf b <? kf t) eqn:E1.
      + destruct (IH Hs) as [x [Hx [Hk Hu]]]. exists x. split; [right; exact Hx|]. split; [exact Hk|].
        intro Hn. apply Hu. intros y Hy. apply Hn. right. exact Hy.
      + destruct (kf b =? kf t) eqn:E2.
        * apply N.eqb_eq in E2. exists b. split; [left; reflexivity|]. split; [exact E2|].
          intro Hn. exfalso. apply (Hn b); [left; reflexivity | exact E2].
        * exists t. split; [left; reflexivity|]. split; [reflexivity|]. intros _. reflexivity.
  Qed.

  Lemma insert_sorted_strict l t : strict_by l -> strict_by (insert_sorted kf l t).
  Proof.
    induction l as [| b l IH]; simpl; intro Hs; [split; [intros x [] | exact I]|].
    destruct Hs as [Hb Hs]. destruct (kf b <? kf t) eqn:E1.
    - apply N.ltb_lt in E1. simpl. split; [|apply IH; exact Hs].
      intros x Hx. apply insert_sorted_in in Hx. destruct Hx as [-> | Hx]; [exact E1 | apply Hb; exact Hx].
    - destruct (kf b =? kf t) eqn:E2; [simpl; split; assumption|].
      apply N.ltb_ge in E1. apply N.eqb_neq in E2. simpl. split; [|split; assumption].
      intros x [<- | Hx]; [lia | specialize (Hb x Hx); lia].
  Qed.
End InsertSorted.

Section Index.
  Variable kf : rtuple -> N.
  Variable sel : rtuple -> bool.

  Definition build (ctx : list rtuple) (acc : list rtuple) : list rtuple :=
    fold_left (fun acc t => if sel t then insert_sorted kf acc t else acc) ctx acc.

  Lemma build_sound ctx : forall acc x, In x (build ctx acc) -> In x acc \/ (In x ctx /\ sel x = true).
  Proof.
    induction ctx as [| t ctx IH]; simpl; intros acc x H; [left; exact H|].
    destruct (IH _ x H) as [Ha | [Hc Hs]]; [|right; split; [right; exact Hc | exact Hs]].
    destruct (sel t) eqn:Es; [|left; exact Ha].
    apply insert_sorted_in in Ha. destruct Ha as [-> | Ha]; [right; split; [left; reflexivity | exact Es] | left; exact Ha].
  Qed.

  Lemma build_keeps ctx : forall acc x, In x acc -> In x (build ctx acc).
  Proof.
    induction ctx as [| t ctx IH]; simpl; intros acc x H; [exact H|].
    apply IH. destruct (sel t); [apply insert_sorted_keeps; exact H | exact H].
  Qed.

  Lemma build_strict ctx : forall acc, strict_by kf acc -> strict_by kf (build ctx acc).
  Proof.
    induction ctx as [| t ctx IH]; simpl; intros acc H; [exact H|].
    apply IH. destruct (sel t); [apply insert_sorted_strict; exact H | exact H].
  Qed.

  (* every selected contextual rtuple is represented by an entry with its sort key ... *)
  Lemma build_complete ctx : forall acc t, strict_by kf acc -> In t ctx -> sel t = true ->
    exists x, In x (build ctx acc) /\ kf x = kf t.
  Proof.
    induction ctx as [| c ctx IH]; intros acc t Hs Hin Hsel; [destruct Hin|].
    simpl. destruct Hin as [-> | Hin].
    - rewrite Hsel. destruct (insert_sorted_has kf acc t Hs) as [x [Hx [Hk _]]].
      exists x. split; [apply build_keeps; exact Hx | exact Hk].
    - apply IH; [|exact Hin | exact Hsel].
      destruct (sel c); [apply insert_sorted_strict; exact Hs | exact Hs].
  Qed.

  (* ... and by the rtuple itself when it is the only selected rtuple with that sort key *)
  Lemma build_unique_in ctx : forall acc t, strict_by kf acc -> In t ctx -> sel t = true ->
    (forall y, In y acc -> kf y <> kf t) ->
    (forall y, In y ctx -> sel y = true -> kf y = kf t -> y = t) ->
    In t (build ctx acc).
  Proof.
    induction ctx as [| c ctx IH]; intros acc t Hs Hin Hsel Hn Hu; [destruct Hin|].
    simpl.
    assert (Hhead : sel t = true -> In t (build ctx (insert_sorted kf acc t))).
    { intros _. destruct (insert_sorted_has kf acc t Hs) as [x [Hx [_ Hxt]]].
      rewrite (Hxt Hn) in Hx. apply build_keeps. exact Hx. }
    destruct Hin as [-> | Hin]; [rewrite Hsel; apply Hhead; exact Hsel|].
    destruct (sel c) eqn:Ec.
    - destruct (N.eq_dec (kf c) (kf t)) as [E | E].
      + assert (c = t) by (apply Hu; [left; reflexivity | exact Ec | exact E]). subst c. apply Hhead. exact Hsel.
      + apply IH; [apply insert_sorted_strict; exact Hs | exact Hin | exact Hsel | |].
        * intros y Hy. apply insert_sorted_in in Hy. destruct Hy as [-> | Hy]; [exact E | apply Hn; exact Hy].
        * intros y Hy. apply Hu. right. exact Hy.
    - apply IH; [exact Hs | exact Hin | exact Hsel | exact Hn|]. intros y Hy. apply Hu. right. exact Hy.
  Qed.
End Index.

(* the two indexes of buildContextualTupleMaps *)
Theorem index_by_user_sound ctx k x :
  In x (index_by_user ctx k) -> In x ctx /\ k3_eqb (by_user_key x) k = true.
Proof.
  intro H. unfold index_by_user in H.
  destruct (build_sound rt_obj (fun t => k3_eqb (by_user_key t) k) ctx [] x H) as [[] | Hx]. exact Hx.
Qed.

Theorem index_by_object_sound ctx k x :
  In x (index_by_object ctx k) -> In x ctx /\ k4_eqb (by_object_key x) k = true.
Proof.
  intro H. unfold index_by_object in H.
  destruct (build_sound (fun x => u_str (rt_user x)) (fun t => k4_eqb (by_object_key t) k) ctx [] x H) as [[] | Hx]. exact Hx.
Qed.

Lemma k3_eqb_eq a b : k3_eqb a b = true <-> a = b.
Proof.
  destruct a as [[a1 a2] a3], b as [[b1 b2] b3]. simpl. rewrite !andb_true_iff, !N.eqb_eq.
  split; [intros [[-> ->] ->]; reflexivity | intro H; inversion H; auto].
Qed.
Lemma k4_eqb_eq a b : k4_eqb a b = true <-> a = b.
Proof.
  destruct a as [[a1 a2] [a3 a4]], b as [[b1 b2] [b3 b4]]. simpl. rewrite !andb_true_iff, !N.eqb_eq.
  split; [intros [[[-> ->] ->] ->]; reflexivity | intro H; inversion H; auto].
Qed.

(* with unique keys among the contextual tuples, each index entry holds exactly the contextual tuples
   filed under its key, strictly ascending by object (resp. user) *)
Theorem index_by_user_complete ctx t :
  keys_unique ctx = true -> In t ctx -> In t (index_by_user ctx (by_user_key t)).
Proof.
  intros Hu Hin. unfold index_by_user.
  apply (build_unique_in rt_obj (fun x => k3_eqb (by_user_key x) (by_user_key t)) ctx [] t);
    [exact I | exact Hin | apply k3_eqb_eq; reflexivity | intros y [] |].
  intros y Hy Hk Ho. apply k3_eqb_eq in Hk. unfold by_user_key in Hk. inversion Hk as [[E1 E2 E3]].
  apply (keys_unique_in _ Hu); [exact Hy | exact Hin|].
  unfold key_eqb, key_of, user_eqb. simpl. rewrite Ho, E1, E2, !N.eqb_refl. reflexivity.
Qed.

Theorem index_by_object_complete ctx t :
  keys_unique ctx = true -> In t ctx -> In t (index_by_object ctx (by_object_key t)).
Proof.
  intros Hu Hin. unfold index_by_object.
  apply (build_unique_in (fun x => u_str (rt_user x)) (fun x => k4_eqb (by_object_key x) (by_object_key t)) ctx [] t);
    [exact I | exact Hin | apply k4_eqb_eq; reflexivity | intros y [] |].
  intros y Hy Hk Ho. apply k4_eqb_eq in Hk. unfold by_object_key in Hk. inversion Hk as [[E1 E2 E3 E4]].
  apply (keys_unique_in _ Hu); [exact Hy | exact Hin|].
  unfold key_eqb, key_of, user_eqb. simpl. rewrite Ho, E1, E2, !N.eqb_refl. reflexivity.
Qed.

Theorem index_by_user_strict ctx k : strict_by rt_obj (index_by_user ctx k).
Proof. unfold index_by_user. apply (build_strict rt_obj). exact I. Qed.
Theorem index_by_object_strict ctx k : strict_by (fun x => u_str (rt_user x)) (index_by_object ctx k).
Proof. unfold index_by_object. apply (build_strict (fun x => u_str (rt_user x))). exact I. Qed.

(* specificType: the lookup of the request's object in the by-user entry finds the contextual rtuple
   with the requested key exactly when there is one *)
Theorem index_lookup_spec ctx u r ot o :
  keys_unique ctx = true ->
  match index_lookup_object (index_by_user ctx (u, r, ot)) o with
  | Some t => In t ctx /\ rt_obj t = o /\ rt_rel t = r /\ u_str (rt_user t) = u /\ rt_otype t = ot
  | None => forall t, In t ctx -> ~ (rt_obj t = o /\ rt_rel t = r /\ u_str (rt_user t) = u /\ rt_otype t = ot)
  end.
Proof.
  intro Hu. unfold index_lookup_object.
  destruct (find (fun t => rt_obj t =? o) (index_by_user ctx (u, r, ot))) as [t|] eqn:E.
  - apply find_some in E. destruct E as [Hin Ho]. apply N.eqb_eq in Ho.
    apply index_by_user_sound in Hin. destruct Hin as [Hin Hk]. apply k3_eqb_eq in Hk.
    unfold by_user_key in Hk. inversion Hk. repeat split; auto.
  - intros t Hin [Ho [Hr [Hus Hot]]].
    assert (Hidx : In t (index_by_user ctx (by_user_key t))) by (apply index_by_user_complete; assumption).
    unfold by_user_key in Hidx. rewrite Hr, Hus, Hot in Hidx.
    rewrite find_none_iff in E. specialize (E t Hidx). simpl in E. apply N.eqb_neq in E. contradiction.
Qed.

(* de-duplication in insertSortedTuple: of two contextual tuples with the same key the first one of
   the request is kept, the other dropped (the engine never sees it) *)
Theorem index_dedup_first_wins :
  exists a b, key_eqb (key_of a) (key_of b) = true /\ a <> b /\
    index_by_user [a; b] (by_user_key a) = [a] /\ index_by_user [b; a] (by_user_key a) = [b].
Proof. exists tA, tAc. repeat split; try reflexivity. discriminate. Qed.
