(* C13 — boolean triggers of the listed divergences between a backend (as modelled in
   MemoryRead.v / SqlRead.v) and the documented meaning (ReadSpec.v), and the caller contract.
   The `_partial` theorems of ReadProofs.v assume exactly "trigger = false"; the oracle reports a
   divergence as KNOWN <flag> only when the corresponding trigger is true.  Definitions only. *)
From OFGA Require Import Base.Bytes Store.ReadSpec Store.MemoryRead Store.SqlRead.

(* memory Read / ReadPage: the all-empty key takes the copy-everything path, Conditions unused *)
Definition flag_read_all_ignores_conditions (s : store) (f : read_filter) : bool :=
  m_filter_is_empty f && negb (forallb (conds_ok (rf_conds f)) s).

(* memory ReadStartingWithUser: one copy of the row per matching user-filter entry *)
Fixpoint nodup_users (us : list user) : bool :=
  match us with
  | [] => true
  | u :: us' => negb (existsb (user_eqb u) us') && nodup_users us'
  end.
Definition flag_rswu_duplicate_user_filter (f : rswu_filter) : bool := negb (nodup_users (sf_users f)).

(* sqlite ReadStartingWithUser: a present but empty ObjectIDs set is treated as absent *)
Definition flag_rswu_empty_object_ids (f : rswu_filter) : bool :=
  match sf_oids f with Some [] => true | _ => false end.

(* ---- caller contract (mandatory fields; shapes storage.go does not give a meaning to) ------ *)

(* ReadUserTuple: the key is complete *)
Definition key_full (k : key) : bool :=
  nonempty (k_rel k) && nonempty (u_type (k_user k)) && nonempty (u_id (k_user k)).

(* AllowedUserTypeRestrictions entries are type#relation or type:* *)
Definition no_bare (rs : list restriction) : bool :=
  forallb (fun r => match r with RBare _ => false | _ => true end) rs.

(* ReadUsersetTuples: Object is "type:id" (or "type:"), restrictions as above *)
Definition wf_usersets_filter (f : usersets_filter) : bool :=
  wf_ofilter (uf_obj f) && no_bare (uf_restr f).
