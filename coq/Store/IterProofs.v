(* C13 — any Head/Next schedule on either iterator behaves like the reference: Head is idempotent
   and does not consume, Head equals the following Next, and the Next calls hand out the result
   list itself, in order, whatever the schedule. *)
From OFGA Require Import Base.Bytes Store.IterModel.

Section IterProofs.
  Variable A : Type.

  Lemma mem_run_ref (l : list A) ops : run A (mem_step A) l ops = ref_run A l ops.
  Proof.
    revert l; induction ops as [|o ops IH]; intro l; simpl; [reflexivity|].
    destruct o; simpl; rewrite IH; reflexivity.
  Qed.

  Lemma sql_run_ref (st : sql_it A) ops :
    run A (sql_step A) st ops = ref_run A (sql_contents A st) ops.
  Proof.
    revert st; induction ops as [|o ops IH]; intro st; simpl; [reflexivity|].
    destruct st as [[x|] [|y r]]; destruct o; simpl; rewrite IH; reflexivity.
  Qed.

  Lemma ref_nexts (l : list A) ops :
    nexts A ops (ref_run A l ops) = firstn (count_next ops) l.
  Proof.
    revert l; induction ops as [|o ops IH]; intro l; simpl; [reflexivity|].
    destruct o; unfold count_next; simpl.
    - destruct l as [|x l]; simpl; apply IH.
    - destruct l as [|x l]; simpl.
      + rewrite IH. apply firstn_nil.
      + f_equal. apply IH.
  Qed.

  (* both iterators, any schedule: the observations are the reference's *)
  Theorem iter_schedule (l : list A) ops :
    run A (mem_step A) l ops = ref_run A l ops /\
    run A (sql_step A) (mkIt A None l) ops = ref_run A l ops.
  Proof. split; [apply mem_run_ref|apply (sql_run_ref (mkIt A None l))]. Qed.

  (* ... hence the Next calls of any schedule return the first (number of Next calls) items of the
     result, in order; with at least length l Next calls, the result itself *)
  Theorem iter_nexts_any_schedule (l : list A) ops :
    nexts A ops (run A (mem_step A) l ops) = firstn (count_next ops) l /\
    nexts A ops (run A (sql_step A) (mkIt A None l) ops) = firstn (count_next ops) l.
  Proof.
    destruct (iter_schedule l ops) as [-> ->]. split; apply ref_nexts.
  Qed.

  (* Head does not consume and equals the following Next; Head is idempotent *)
  Theorem head_then_next (l : list A) ops :
    ref_run A l (OpHead :: OpNext :: ops) = hd_error l :: hd_error l :: ref_run A (tl l) ops /\
    ref_run A l (OpHead :: OpHead :: ops) = hd_error l :: hd_error l :: ref_run A l ops.
  Proof. split; reflexivity. Qed.
End IterProofs.

Example iter_schedule_nonvacuous :
  run N (sql_step N) (mkIt N None [7; 8; 9]) [OpHead; OpHead; OpNext; OpNext; OpHead; OpNext; OpHead; OpNext]
  = [Some 7; Some 7; Some 7; Some 8; Some 9; Some 9; None; None]
  /\ nexts N [OpHead; OpNext; OpNext; OpHead; OpNext] (run N (mem_step N) [7; 8; 9] [OpHead; OpNext; OpNext; OpHead; OpNext]) = [7; 8; 9].
Proof. vm_compute. auto. Qed.
