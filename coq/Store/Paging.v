(* Executable model of the pagination logic of OpenFGA (C14).  Definitions only; the proofs are
   in Store/PagingProofs.v.

   Modelled code (as it exists in /repo):
     pkg/server/commands/read.go, read_changes.go, list_stores.go, read_authzmodels.go
        (token decode -> storage call -> token encode, type-bound ReadChanges tokens,
         the tuple_key restriction of Read),
     pkg/encoder/token_serializer.go (interface only: "<ulid-or-offset>|<type>"),
     pkg/storage/storage.go NewPaginationOptions (default page size 50),
     pkg/storage/memory/memory.go  read/ReadPage (offset tokens), ReadChanges (ulid > from),
        ListStores / ReadAuthorizationModels (sorted, clamped offsets),
     pkg/storage/sqlite/sqlite.go  read + SQLTupleIterator.ToArray (ulid >= token, LIMIT n+1),
        ReadChanges (ulid > token, LIMIT n), ListStores (id >= token), ReadAuthorizationModels
        (id <= token, newest first).

   Tokens are byte strings AFTER the base64 layer (base64 itself is pkg/encoder/base64.go =
   encoding/base64, modelled for C28; here [with_b64] only says what happens when decoding fails).
   A list element is whatever identifies an item (the harness uses small integers); keyed rows are
   pairs (key, item), the key being the ULID / id string the SQL index orders by. *)
From OFGA Require Export Base.Bytes.
From Coq Require Export ZArith.
Open Scope N_scope.

Inductive err := EInvalidToken | EMismatchType | EValidation | EInternal.

Inductive outcome (A : Type) : Type :=
| Page (items : list A) (next : bytes)     (* next = [] is the empty continuation token *)
| Rejected (e : err)
| Panic.
Arguments Page {A} items next.
Arguments Rejected {A} e.
Arguments Panic {A}.

(* ------------------------------------------------------------------------------------------ *)
(* strconv.Atoi / strconv.Itoa on 64-bit ints *)

Definition is_digit (c : N) : bool := (48 <=? c) && (c <=? 57).

Definition dstep (acc c : N) : N := acc * 10 + (c - 48).

Fixpoint parse_digits (acc : N) (s : bytes) : option N :=
  match s with
  | [] => Some acc
  | c :: r => if is_digit c then parse_digits (dstep acc c) r else None
  end.

Definition two63 : N := 9223372036854775808.

(* optional sign, at least one digit, only digits (base 10: no underscores), int64 range *)
Definition atoi (s : bytes) : option Z :=
  match s with
  | [] => None
  | c :: r =>
    let '(neg, body) := if c =? 43 then (false, r) else if c =? 45 then (true, r) else (false, s) in
    match body with
    | [] => None
    | _ => match parse_digits 0 body with
           | None => None
           | Some n => if neg then (if n <=? two63 then Some (- Z.of_N n)%Z else None)
                       else (if n <? two63 then Some (Z.of_N n) else None)
           end
    end
  end.

(* decimal digits, least significant first *)
Fixpoint lsd (fuel : nat) (n : N) : bytes :=
  match fuel with
  | O => []
  | S f => (48 + n mod 10) :: (if n <? 10 then [] else lsd f (n / 10))
  end.

Definition itoa_N (n : N) : bytes := rev (lsd (S (N.to_nat (N.log2 n))) n).

Definition itoa (z : Z) : bytes :=
  match z with
  | Zneg p => 45 :: itoa_N (Npos p)
  | _ => itoa_N (Z.to_N z)
  end.

(* Go int addition wraps *)
Definition wrap64 (z : Z) : Z :=
  ((z + 9223372036854775808) mod 18446744073709551616 - 9223372036854775808)%Z.

(* ------------------------------------------------------------------------------------------ *)
(* token serializer (interface of pkg/encoder/token_serializer.go) *)

Definition serialize (u ty : bytes) : option bytes :=
  match u with [] => None | _ => Some (u ++ c_pipe :: ty) end.

Definition deserialize (t : bytes) : option (bytes * bytes) :=
  match cut c_pipe t with
  | Some ([], _) => None
  | Some (u, ty) => Some (u, ty)
  | None => None
  end.

(* storage.NewPaginationOptions: page size <= 0 means DefaultPageSize *)
Definition default_page_size : N := 50.
Definition page_size_opt (ps : Z) : N := if (0 <? ps)%Z then Z.to_N ps else default_page_size.

(* encoder.Decode failed => ErrInvalidContinuationToken, in all four commands *)
Definition with_b64 {A} (decoded : option bytes) (k : bytes -> outcome A) : outcome A :=
  match decoded with None => Rejected EInvalidToken | Some t => k t end.

(* ------------------------------------------------------------------------------------------ *)
(* lexicographic byte order (bytes.Compare / SQLite BINARY collation / Go string <) *)

Fixpoint ble (a b : bytes) : bool :=
  match a, b with
  | [], _ => true
  | _ :: _, [] => false
  | x :: a', y :: b' => if x <? y then true else if y <? x then false else ble a' b'
  end.
Definition bge (a b : bytes) : bool := ble b a.
Definition blt (a b : bytes) : bool := negb (ble b a).

Fixpoint strictly_sorted (ks : list bytes) : bool :=
  match ks with
  | [] => true
  | k :: r => match r with [] => true | k' :: _ => blt k k' && strictly_sorted r end
  end.

Fixpoint memb (k : bytes) (ks : list bytes) : bool :=
  match ks with [] => false | x :: r => beqb k x || memb k r end.
Fixpoint nodupb (ks : list bytes) : bool :=
  match ks with [] => true | k :: r => negb (memb k r) && nodupb r end.

Definition nonemptyb (k : bytes) : bool := match k with [] => false | _ => true end.

(* ORDER BY / sort.Slice on a key with a given "comes first or equal" test *)
Section Sort.
  Context {A : Type} (le : bytes -> bytes -> bool).
  Fixpoint insert (r : bytes * A) (l : list (bytes * A)) : list (bytes * A) :=
    match l with
    | [] => [r]
    | x :: t => if le (fst r) (fst x) then r :: l else x :: insert r t
    end.
  Fixpoint isort (l : list (bytes * A)) : list (bytes * A) :=
    match l with [] => [] | r :: t => insert r (isort t) end.
End Sort.

(* ------------------------------------------------------------------------------------------ *)
(* memory backend, ReadPage (memory.go read): offset tokens, as coded since fix 3cab6a7:
   from < 0: storage.ErrInvalidContinuationToken (-> ErrInvalidContinuationToken in ReadQuery);
   from = min(from, len(matches)): an offset beyond the end is an empty last page. *)

Definition parse_from (from : bytes) : option Z :=
  match from with [] => Some 0%Z | _ => atoi from end.

Definition page_offset {A} (l : list A) (size : N) (from : bytes) : outcome A :=
  match parse_from from with
  | None => Rejected EInternal                 (* strconv error through HandleError *)
  | Some z =>
    if (z <? 0)%Z then Rejected EInvalidToken
    else
      let f := Z.min z (Z.of_nat (length l)) in
      let m := skipn (Z.to_nat f) l in
      if negb (size =? 0) && (N.to_nat size <? length m)%nat
      then Page (firstn (N.to_nat size) m) (itoa (wrap64 (f + Z.of_N size)))
      else Page m []
  end.

(* memory backend, ListStores / ReadAuthorizationModels: sorted by id, offset clamped to [0,len] *)
Definition page_clamp {A} (le : bytes -> bytes -> bool) (rows : list (bytes * A)) (size : N)
           (from : bytes) : outcome A :=
  match parse_from from with
  | None => Rejected EInternal
  | Some z =>
    let l := isort le rows in
    let len := length l in
    let f := Z.to_nat (Z.max 0 (Z.min z (Z.of_nat len))) in
    let to := Nat.min len (f + N.to_nat size) in
    Page (map snd (firstn (to - f) (skipn f l)))
         (if (to =? len)%nat then [] else itoa (Z.of_nat to))
  end.

(* SQL keyset page: WHERE key >= token ORDER BY key LIMIT size+1; the extra row only provides the
   next token ([le] is "comes first or equal" in the ORDER BY direction) *)
Definition page_keyset {A} (le : bytes -> bytes -> bool) (rows : list (bytes * A)) (size : N)
           (from : bytes) : outcome A :=
  let sorted := isort le rows in
  let m := match from with [] => sorted | _ => filter (fun r => le from (fst r)) sorted end in
  let got := if size =? 0 then m else firstn (S (N.to_nat size)) m in
  Page (map snd (firstn (N.to_nat size) got))
       (match nth_error got (N.to_nat size) with Some r => fst r | None => [] end).

Definition desc (a b : bytes) : bool := ble b a.

(* ------------------------------------------------------------------------------------------ *)
(* ulid.Parse (oklog/ulid v2, non-strict): 26 bytes, first byte <= '7', no alphabet check;
   bytes outside the alphabet decode to 0xFF and are mixed in with uint8 arithmetic *)

Definition ulid_dec (c : N) : N :=
  if (48 <=? c) && (c <=? 57) then c - 48
  else
    let u := if (97 <=? c) && (c <=? 122) then c - 32 else c in
    if (65 <=? u) && (u <=? 72) then u - 55
    else if (74 <=? u) && (u <=? 75) then u - 56
    else if (77 <=? u) && (u <=? 78) then u - 57
    else if (80 <=? u) && (u <=? 84) then u - 58
    else if (86 <=? u) && (u <=? 90) then u - 59
    else 255.

Definition shl8 (a k : N) : N := N.land (N.shiftl a k) 255.
Definition shr8 (a k : N) : N := N.shiftr a k.

Definition ulid_parse (v : bytes) : option bytes :=
  if negb (length v =? 26)%nat then None
  else if 55 <? nth 0 v 0 then None
  else
    let d i := ulid_dec (nth i v 0) in
    Some [ N.lor (shl8 (d 0%nat) 5) (d 1%nat);
           N.lor (shl8 (d 2%nat) 3) (shr8 (d 3%nat) 2);
           N.lor (N.lor (shl8 (d 3%nat) 6) (shl8 (d 4%nat) 1)) (shr8 (d 5%nat) 4);
           N.lor (shl8 (d 5%nat) 4) (shr8 (d 6%nat) 1);
           N.lor (N.lor (shl8 (d 6%nat) 7) (shl8 (d 7%nat) 2)) (shr8 (d 8%nat) 3);
           N.lor (shl8 (d 8%nat) 5) (d 9%nat);
           N.lor (shl8 (d 10%nat) 3) (shr8 (d 11%nat) 2);
           N.lor (N.lor (shl8 (d 11%nat) 6) (shl8 (d 12%nat) 1)) (shr8 (d 13%nat) 4);
           N.lor (shl8 (d 13%nat) 4) (shr8 (d 14%nat) 1);
           N.lor (N.lor (shl8 (d 14%nat) 7) (shl8 (d 15%nat) 2)) (shr8 (d 16%nat) 3);
           N.lor (shl8 (d 16%nat) 5) (d 17%nat);
           N.lor (shl8 (d 18%nat) 3) (shr8 (d 19%nat) 2);
           N.lor (N.lor (shl8 (d 19%nat) 6) (shl8 (d 20%nat) 1)) (shr8 (d 21%nat) 4);
           N.lor (shl8 (d 21%nat) 4) (shr8 (d 22%nat) 1);
           N.lor (N.lor (shl8 (d 22%nat) 7) (shl8 (d 23%nat) 2)) (shr8 (d 24%nat) 3);
           N.lor (shl8 (d 24%nat) 5) (d 25%nat) ].

(* ------------------------------------------------------------------------------------------ *)
(* ReadChanges at the storage level.  [norm] turns a token / a stored ulid into the value that is
   compared: ulid.Parse on the memory backend (failure = ErrInvalidContinuationToken), the string
   itself on sqlite.  Rows are in backend iteration order (memory: commit order; sqlite: ORDER BY
   ulid, modelled by [sorted = true]). *)

Inductive changes_result (A : Type) : Type :=
| CPage (items : list A) (last : bytes)
| CNotFound
| CRejected (e : err).
Arguments CPage {A} items last.
Arguments CNotFound {A}.
Arguments CRejected {A} e.

Definition last_key {A} (res : list (bytes * A)) : bytes :=
  fold_left (fun _ r => fst r) res [].

Definition norm_key (norm : bytes -> option bytes) (k : bytes) : bytes :=
  match norm k with Some x => x | None => k end.

Definition changes_page {A} (norm : bytes -> option bytes) (sorted : bool)
           (rows : list (bytes * A)) (size : N) (from : bytes) : changes_result A :=
  let table := if sorted then isort ble rows else rows in
  let bound := match from with
               | [] => Some None
               | _ => match norm from with Some b => Some (Some b) | None => None end
               end in
  match bound with
  | None => CRejected EInvalidToken
  | Some bd =>
    let m := match bd with
             | None => table
             | Some b => filter (fun r => blt b (norm_key norm (fst r))) table
             end in
    let res := firstn (N.to_nat size) m in
    match res with
    | [] => CNotFound
    | _ => CPage (map snd res) (last_key res)
    end
  end.

(* ------------------------------------------------------------------------------------------ *)
(* command layer *)

(* ReadQuery.Execute: the storage token is the part before '|'; the next token is "<cont>|" *)
Definition read_cmd {A} (st : N -> bytes -> outcome A) (ps : Z) (tok : bytes) : outcome A :=
  let from := match tok with
              | [] => Some []
              | _ => match deserialize tok with Some (u, _) => Some u | None => None end
              end in
  match from with
  | None => Rejected EInvalidToken
  | Some f =>
    match st (page_size_opt ps) f with
    | Page items [] => Page items []
    | Page items c => match serialize c [] with
                      | Some t => Page items t
                      | None => Rejected EInternal
                      end
    | o => o
    end
  end.

(* the tuple_key restriction checked before the token is looked at:
   object type required; object id and user not both empty *)
Definition read_tk_ok (has_tk : bool) (object user : bytes) : bool :=
  if has_tk then
    let '(t, id) := match cut c_colon object with Some (t, id) => (t, id) | None => ([], object) end in
    negb (match t with [] => true | _ => false end
          || (match id with [] => true | _ => false end && match user with [] => true | _ => false end))
  else true.

Definition read_request {A} (has_tk : bool) (object user : bytes) (decoded : option bytes)
           (st : N -> bytes -> outcome A) (ps : Z) : outcome A :=
  if read_tk_ok has_tk object user then with_b64 decoded (read_cmd st ps)
  else Rejected EValidation.

(* ListStoresQuery / ReadAuthorizationModelsQuery: the decoded token goes to storage unchanged *)
Definition raw_cmd {A} (st : N -> bytes -> outcome A) (ps : Z) (tok : bytes) : outcome A :=
  st (page_size_opt ps) tok.

(* ReadChangesQuery.Execute (no start time): token type must equal the request type;
   ErrNotFound from storage => empty page with the REQUEST token echoed *)
Definition changes_cmd {A} (st : N -> bytes -> changes_result A) (ps : Z) (req_type : bytes)
           (tok : bytes) : outcome A :=
  let from := match tok with
              | [] => inl []
              | _ => match deserialize tok with
                     | None => inr EInvalidToken
                     | Some (u, ty) => if beqb ty req_type then inl u else inr EMismatchType
                     end
              end in
  match from with
  | inr e => Rejected e
  | inl f =>
    match st (page_size_opt ps) f with
    | CNotFound => Page [] tok
    | CRejected e => Rejected e
    | CPage items lastk => match serialize lastk req_type with
                           | Some t => Page items t
                           | None => Page items []
                           end
    end
  end.

(* ------------------------------------------------------------------------------------------ *)
(* a client following continuation tokens *)

Inductive ending := EndMarker | Failed (e : err) | Panicked | OutOfFuel.

(* Read / ListStores / ReadAuthorizationModels: stop at the empty token *)
Fixpoint follow {A} (fuel : nat) (step : bytes -> outcome A) (tok : bytes)
  : list (list A * bytes) * ending :=
  match fuel with
  | O => ([], OutOfFuel)
  | S f =>
    match step tok with
    | Page items [] => ([(items, [])], EndMarker)
    | Page items t => let '(ps, e) := follow f step t in ((items, t) :: ps, e)
    | Rejected e => ([], Failed e)
    | Panic => ([], Panicked)
    end
  end.

(* ReadChanges never returns an empty token after a non-empty page: stop at the first empty page *)
Fixpoint follow_changes {A} (fuel : nat) (step : bytes -> outcome A) (tok : bytes)
  : list (list A * bytes) * ending :=
  match fuel with
  | O => ([], OutOfFuel)
  | S f =>
    match step tok with
    | Page [] t => ([([], t)], EndMarker)
    | Page items t => let '(ps, e) := follow_changes f step t in ((items, t) :: ps, e)
    | Rejected e => ([], Failed e)
    | Panic => ([], Panicked)
    end
  end.

Definition pages_items {A} (ps : list (list A * bytes)) : list A := concat (map fst ps).

(* ------------------------------------------------------------------------------------------ *)
(* the eight concrete request functions the harness drives (decoded token in, outcome out) *)

Definition read_mem {A} (l : list A) (ps : Z) (tok : bytes) : outcome A :=
  read_cmd (page_offset l) ps tok.
Definition read_sql {A} (rows : list (bytes * A)) (ps : Z) (tok : bytes) : outcome A :=
  read_cmd (page_keyset ble rows) ps tok.
(* the invariant of the memory changelog that resuming with `ulid > token` relies on: the log is in
   strictly increasing ULID order.  memory.Write keeps it by drawing the timestamp and the
   (monotonic) entropy of every changelog ULID while it holds the tuples lock. *)
Definition changes_sorted_by_ulid {A} (rows : list (bytes * A)) : bool :=
  strictly_sorted (map (fun r => norm_key ulid_parse (fst r)) rows).

Definition changes_mem {A} (rows : list (bytes * A)) (ps : Z) (ty tok : bytes) : outcome A :=
  changes_cmd (changes_page ulid_parse false rows) ps ty tok.
Definition changes_sql {A} (rows : list (bytes * A)) (ps : Z) (ty tok : bytes) : outcome A :=
  changes_cmd (changes_page (fun k => Some k) true rows) ps ty tok.
Definition stores_mem {A} (rows : list (bytes * A)) (ps : Z) (tok : bytes) : outcome A :=
  raw_cmd (page_clamp ble rows) ps tok.
Definition stores_sql {A} (rows : list (bytes * A)) (ps : Z) (tok : bytes) : outcome A :=
  raw_cmd (page_keyset ble rows) ps tok.
Definition models_mem {A} (rows : list (bytes * A)) (ps : Z) (tok : bytes) : outcome A :=
  raw_cmd (page_clamp desc rows) ps tok.
Definition models_sql {A} (rows : list (bytes * A)) (ps : Z) (tok : bytes) : outcome A :=
  raw_cmd (page_keyset desc rows) ps tok.

(* ------------------------------------------------------------------------------------------ *)
(* inner-iteration faults (sqlite readers).  The statement yields [stmt]; stepping onto the row
   whose key is [bad] fails: rows.Next() returns false and rows.Err() is set.  [scan_until]
   is what the `for rows.Next()` loop has seen when it stops. *)

Fixpoint scan_until {A} (bad : bytes) (stmt : list (bytes * A)) : list (bytes * A) * bool :=
  match stmt with
  | [] => ([], false)
  | r :: t => if beqb (fst r) bad then ([], true)
              else let '(p, e) := scan_until bad t in (r :: p, e)
  end.

Definition scan {A} (bad : option bytes) (stmt : list (bytes * A)) : list (bytes * A) * bool :=
  match bad with Some b => scan_until b stmt | None => (stmt, false) end.

(* the rows of the keyset statement: WHERE key >= token ORDER BY key LIMIT size+1 *)
Definition keyset_stmt {A} (le : bytes -> bytes -> bool) (rows : list (bytes * A)) (size : N)
           (from : bytes) : list (bytes * A) :=
  let sorted := isort le rows in
  let m := match from with [] => sorted | _ => filter (fun r => le from (fst r)) sorted end in
  if size =? 0 then m else firstn (S (N.to_nat size)) m.

(* keyset reader as coded (ListStores, ReadAuthorizationModels, read + ToArray): rows loop, then
   the rows.Err() check (HandleSQLError -> internal error), then the limit+1 trick *)
Definition page_keyset_f {A} (le : bytes -> bytes -> bool) (rows : list (bytes * A)) (size : N)
           (from : bytes) (bad : option bytes) : outcome A :=
  let '(got, failed) := scan bad (keyset_stmt le rows size from) in
  if failed then Rejected EInternal
  else Page (map snd (firstn (N.to_nat size) got))
            (match nth_error got (N.to_nat size) with Some r => fst r | None => [] end).

(* sqlite ReadChanges as coded: WHERE ulid > token ORDER BY ulid LIMIT size; rows loop; NO
   rows.Err() check after the loop: whatever was scanned is returned with the ulid of the last
   scanned row as token; nothing scanned = ErrNotFound.  The first step of a statement is taken
   inside QueryContext (modernc.org/sqlite), whose error IS checked: a fault on the first row of the
   statement is a query error. *)
Definition changes_stmt {A} (rows : list (bytes * A)) (size : N) (from : bytes) : list (bytes * A) :=
  let table := isort ble rows in
  firstn (N.to_nat size)
         (match from with [] => table | _ => filter (fun r => blt from (fst r)) table end).

Definition changes_page_f {A} (rows : list (bytes * A)) (size : N) (from : bytes)
           (bad : option bytes) : changes_result A :=
  let '(got, failed) := scan bad (changes_stmt rows size from) in
  match got with
  | [] => if failed then CRejected EInternal else CNotFound
  | _ => CPage (map snd got) (last_key got)
  end.

Definition read_sql_f {A} (rows : list (bytes * A)) (bad : option bytes) (ps : Z) (tok : bytes) :=
  read_cmd (fun size from => page_keyset_f ble rows size from bad) ps tok.
Definition stores_sql_f {A} (rows : list (bytes * A)) (bad : option bytes) (ps : Z) (tok : bytes) : outcome A :=
  raw_cmd (fun size from => page_keyset_f ble rows size from bad) ps tok.
Definition models_sql_f {A} (rows : list (bytes * A)) (bad : option bytes) (ps : Z) (tok : bytes) : outcome A :=
  raw_cmd (fun size from => page_keyset_f desc rows size from bad) ps tok.
Definition changes_sql_f {A} (rows : list (bytes * A)) (bad : option bytes) (ps : Z) (ty tok : bytes) : outcome A :=
  changes_cmd (fun size from => changes_page_f rows size from bad) ps ty tok.

(* is the faulty row among the rows the statement of this request yields?  (trigger of the
   for the keyset readers: the request must fail) *)
Definition fault_in_stmt {A} (bad : bytes) (stmt : list (bytes * A)) : bool :=
  existsb (fun r => beqb (fst r) bad) stmt.

Definition storage_from (tok : bytes) : option bytes :=
  match tok with
  | [] => Some []
  | _ => match deserialize tok with Some (u, _) => Some u | None => None end
  end.

(* is the faulty row anywhere in the WHERE range of a keyset request (an engine that materialises
   the ORDER BY before LIMIT may fail there too) *)
Definition keyset_fault_in_range {A} (le : bytes -> bytes -> bool) (rows : list (bytes * A))
           (bad from : bytes) : bool :=
  fault_in_stmt bad (keyset_stmt le rows 0 from).
