(* C13 — the Head/Next protocol of the tuple iterators the read operations return
   (storage.TupleIterator): memory.staticIterator (memory.go:65-102) and sqlite.SQLTupleIterator
   (sqlite/tuple_iterator.go: next / head with the cached firstRow).  Definitions only. *)
From OFGA Require Import Base.Bytes.

Inductive iop := OpHead | OpNext.

Section Iter.
  Variable A : Type.

  (* reference: Head shows the first remaining item without consuming it, Next consumes it;
     None = ErrIteratorDone *)
  Fixpoint ref_run (l : list A) (ops : list iop) : list (option A) :=
    match ops with
    | [] => []
    | OpHead :: ops' => hd_error l :: ref_run l ops'
    | OpNext :: ops' => hd_error l :: ref_run (tl l) ops'
    end.

  (* memory: `records` slice; Head = records[0], Next = records[0] and records = records[1:] *)
  Definition mem_step (st : list A) (o : iop) : list A * option A :=
    match o with
    | OpHead => (st, hd_error st)
    | OpNext => (tl st, hd_error st)
    end.

  (* sqlite: firstRow (set by head, handed out and cleared by next) in front of the sql.Rows cursor *)
  Record sql_it := mkIt { it_first : option A; it_rows : list A }.

  Definition sql_step (st : sql_it) (o : iop) : sql_it * option A :=
    match o with
    | OpHead =>
      match it_first st with
      | Some x => (st, Some x)
      | None => match it_rows st with
                | [] => (st, None)
                | x :: r => (mkIt (Some x) r, Some x)
                end
      end
    | OpNext =>
      match it_first st with
      | Some x => (mkIt None (it_rows st), Some x)
      | None => match it_rows st with
                | [] => (st, None)
                | x :: r => (mkIt None r, Some x)
                end
      end
    end.

  Fixpoint run {S} (step : S -> iop -> S * option A) (st : S) (ops : list iop) : list (option A) :=
    match ops with
    | [] => []
    | o :: ops' => let '(st', r) := step st o in r :: run step st' ops'
    end.

  Definition sql_contents (st : sql_it) : list A :=
    match it_first st with Some x => x :: it_rows st | None => it_rows st end.

  (* the items the Next calls of a schedule hand out, in order *)
  Fixpoint nexts (ops : list iop) (obs : list (option A)) : list A :=
    match ops, obs with
    | OpNext :: ops', Some x :: obs' => x :: nexts ops' obs'
    | _ :: ops', _ :: obs' => nexts ops' obs'
    | _, _ => []
    end.
  Definition count_next (ops : list iop) : nat :=
    length (filter (fun o => match o with OpNext => true | OpHead => false end) ops).
End Iter.
