(* C04 — lifting to answers: the reference semantics Sem.holds3 takes "stored and contextual tuples
   together" as one list; its answer does not depend on the order of that list, hence not on how
   the tuples are split between the store and the request (stored ++ ctx, ctx ++ stored, or any
   interleaving: the multiset is what the combined reader of Store/CombinedReader.v returns). *)
From Coq Require Import NArith List Bool Permutation.
From OFGA Require Import Sem.Semantics.
Import ListNotations.

Lemma or3_comm a b : or3 a b = or3 b a.
Proof. destruct a, b; reflexivity. Qed.
Lemma or3_assoc a b c : or3 a (or3 b c) = or3 (or3 a b) c.
Proof. destruct a, b, c; reflexivity. Qed.

Lemma or3_list_perm l l' : Permutation l l' -> or3_list l = or3_list l'.
Proof.
  intro H. induction H as [| x l1 l2 H IH | x y l1 | l1 l2 l3 H1 IH1 H2 IH2]; simpl.
  - reflexivity.
  - rewrite IH. reflexivity.
  - rewrite !or3_assoc, (or3_comm y x). reflexivity.
  - congruence.
Qed.

Lemma filter_perm' {A} (p : A -> bool) (l l' : list A) :
  Permutation l l' -> Permutation (filter p l) (filter p l').
Proof.
  intro H. induction H as [| x l1 l2 H IH | x y l1 | l1 l2 l3 H1 IH1 H2 IH2]; simpl.
  - constructor.
  - destruct (p x); [constructor|]; exact IH.
  - destruct (p x), (p y); try apply Permutation_refl. apply perm_swap.
  - eapply Permutation_trans; eauto.
Qed.

Section Perm.
  Variable m : model.
  Variable conds : list cid.
  Variable s s' : list tuple.
  Hypothesis Hp : Permutation s s'.
  Variable subj : subject.

  Lemma tuples_of_perm o r : Permutation (tuples_of m conds s o r) (tuples_of m conds s' o r).
  Proof. unfold tuples_of, vtuples. apply filter_perm', filter_perm'. exact Hp. Qed.

  (* induction over rewrites, with the children of Union / Inter *)
  Lemma rewrite_ind' (P : rewrite -> Prop) :
    P This -> (forall r, P (Computed r)) -> (forall a b, P (TTU a b)) ->
    (forall l, Forall P l -> P (Union l)) -> (forall l, Forall P l -> P (Inter l)) ->
    (forall b x, P b -> P x -> P (Diff b x)) -> forall rw, P rw.
  Proof.
    intros H1 H2 H3 H4 H5 H6. fix IH 1. intro rw. destruct rw as [| r | a b | l | l | b x].
    - exact H1.
    - apply H2.
    - apply H3.
    - apply H4. induction l as [| y l IHl]; constructor; [apply IH | exact IHl].
    - apply H5. induction l as [| y l IHl]; constructor; [apply IH | exact IHl].
    - apply H6; apply IH.
  Qed.

  Lemma eval_rw_perm v o r rw : eval_rw m conds s subj v o r rw = eval_rw m conds s' subj v o r rw.
  Proof.
    induction rw as [| r' | a b | l IH | l IH | b x IHb IHx] using rewrite_ind'; simpl.
    - apply or3_list_perm, Permutation_map, tuples_of_perm.
    - reflexivity.
    - apply or3_list_perm, Permutation_map, tuples_of_perm.
    - f_equal. induction IH as [| y l Hy Hl IHl]; [reflexivity|]. rewrite Hy, IHl. reflexivity.
    - f_equal. induction IH as [| y l Hy Hl IHl]; [reflexivity|]. rewrite Hy, IHl. reflexivity.
    - rewrite IHb, IHx. reflexivity.
  Qed.

  Lemma eval_atom_perm v a : eval_atom m conds s subj v a = eval_atom m conds s' subj v a.
  Proof. unfold eval_atom. destruct (get_relation m (otype (fst a)) (snd a)); [apply eval_rw_perm | reflexivity]. Qed.

  Variable atoms : list atom.

  Lemma step_at_perm k v : step_at m conds s subj atoms k v = step_at m conds s' subj atoms k v.
  Proof.
    unfold step_at. f_equal. apply map_ext. intro a. rewrite eval_atom_perm. reflexivity.
  Qed.

  Lemma lfp_at_perm k fuel : forall v, lfp_at m conds s subj atoms k fuel v = lfp_at m conds s' subj atoms k fuel v.
  Proof.
    induction fuel as [| f IH]; intro v; simpl; [reflexivity|].
    rewrite step_at_perm. destruct (val_eqb_on _ v _); [reflexivity | apply IH].
  Qed.

  Lemma run_strata_perm todo fuel : forall k v,
    run_strata m conds s subj atoms k todo fuel v = run_strata m conds s' subj atoms k todo fuel v.
  Proof.
    induction todo as [| n IH]; intros k v; simpl; [reflexivity|].
    rewrite lfp_at_perm. destruct (lfp_at m conds s' subj atoms k fuel v) as [v' ok]. rewrite IH. reflexivity.
  Qed.

  Theorem lfp_store_perm : lfp m conds s subj atoms = lfp m conds s' subj atoms.
  Proof. unfold lfp. apply run_strata_perm. Qed.

  Theorem holds3_store_perm o r : holds3 m conds s subj atoms o r = holds3 m conds s' subj atoms o r.
  Proof. unfold holds3. rewrite lfp_store_perm. reflexivity. Qed.

  Theorem converged_store_perm : converged m conds s subj atoms = converged m conds s' subj atoms.
  Proof. unfold converged. rewrite lfp_store_perm. reflexivity. Qed.
End Perm.

(* the split between stored and contextual tuples is invisible to the reference semantics *)
Theorem check_ctx_split m conds stored ctx subj atoms o r :
  holds3 m conds (stored ++ ctx) subj atoms o r = holds3 m conds (ctx ++ stored) subj atoms o r.
Proof. apply holds3_store_perm. apply Permutation_app_comm. Qed.

(* any two splits of the same tuples give the same answer *)
Theorem check_any_split m conds stored1 ctx1 stored2 ctx2 subj atoms o r :
  Permutation (stored1 ++ ctx1) (stored2 ++ ctx2) ->
  holds3 m conds (stored1 ++ ctx1) subj atoms o r = holds3 m conds (stored2 ++ ctx2) subj atoms o r /\
  converged m conds (stored1 ++ ctx1) subj atoms = converged m conds (stored2 ++ ctx2) subj atoms.
Proof. intro H. split; [apply holds3_store_perm | apply converged_store_perm]; exact H. Qed.
